"""Per-property configuration of the orchestrator (budgets, evidence texts)."""

SHRINK_FIELDS = ["ops", "faults", "reqs", "stmts"]

REAL_DEFAULT = [
    "store (Store, FSM, transport, command processor)", "snapshot store", "db (SQLite via cgo, WAL, checkpoint manager)",
    "command (marshal, sql rewriter)", "cluster (Service, Client)", "proxy", "tcp.Mux",
    "hashicorp/raft v1.7.3 incl. NetworkTransport", "raft-boltdb/bbolt", "SQLite",
]
STUB_DEFAULT = [
    "TCP stack (simnet: in-memory conns, driver-chosen delivery)", "tcp.Dialer/tcp.Layer (header-writing dialer over simnet)",
    "cmd/rqlited/main.go wiring (sim/node mirrors it)", "wall clock and timers (testing/synctest fake clock)",
    "SQLite 'now' (gettimeofday defined by the harness)", "math/rand/v2 global source (import-swap overlay to a seeded source)",
    "TLS, DNS, discovery (not used)",
]
ASSUME_DEFAULT = [
    "goroutine interleaving inside one scheduler step is left to the Go runtime pinned to one P",
    "process-crash model: completed file operations survive, in-flight ones are cut; no torn writes inside SQLite/bbolt",
    "sampling, not proof: a clean batch is evidence only for the explored seeds",
]


def propnum(p):
    return int(p.lstrip("C"))


import glob, json, os

# One JSON file per property (or group) under bin/props.d/: {"Cnn": {config}}.
# Config keys: engine, level (exploration|fault_enumeration), mode (gen|enum|enum+gen),
# quick {runs, budget_s?}, thorough {runs, budget_s?}, chunk, rule, real?, stub?, assumptions?,
# shrink?, watchdog_s?, level_text?, level_note?, technique?
PROPS = {}
for _f in sorted(glob.glob(os.path.join(os.path.dirname(os.path.abspath(__file__)), "props.d", "*.json"))):
    PROPS.update(json.load(open(_f)))

ENGINES = [
    {"name": "E1 clustersim", "path": "sim/sim", "serves_properties": ["C02"],
     "kind_free_text": "real rqlite nodes (store+raft+bbolt+SQLite+cluster service/client+proxy+mux) in one testing/synctest bubble over a simulated network; one event per scheduler step chosen by a seeded PRNG"},
    {"name": "E3 walsim", "path": "sim/walsim", "serves_properties": ["C05", "C06"],
     "kind_free_text": "one driver goroutine holding several connections (rqlite db.DB write connection + CheckpointManager, reader connections holding read marks) to one real WAL-mode SQLite database; a seeded schedule decides which connection acts next (writer transaction, reader start/stop, snapshot attempt, disk fault on a WAL copy); SQLite itself is the reference for applying WALs"},
    {"name": "E2 crashsim (snapshot store)", "path": "sim/crash, sim/snapsim", "serves_properties": ["C07", "C08", "C09"],
     "kind_free_text": "the real snapshot.Store / upgraders / plan executor driven sequentially by a stand-in for store.Store over a real SQLite history; a crash is a directory image taken inside the verifhook handler at the k-th hook occurrence (every occurrence enumerated, plus a second crash during each recovery run, plus derived torn states), restored at the same path and re-opened; restore-and-dump oracle and abstract catalog model"},
    {"name": "E3 schedsim", "path": "sim/sched", "serves_properties": ["C11", "C24", "C31", "C34", "C36"],
     "kind_free_text": "seeded cooperative scheduler inside a testing/synctest bubble: harness tasks and adopted rqlite goroutines park at yield points (harness calls, verifhook.Yield in queue/throttler/snapshot store), one parked task or a clock quantum is chosen per step by the run's PRNG; mutexes held across blocking points are modelled"},
]

NOT_APPLICABLE = {
    "C15": "pure function of the SQL text (pattern guard): no schedule, clock, fault or multi-party behaviour for a simulator to control; input-grammar testing belongs to another technique",
    "C19": "pure boolean function of (credentials file, query); exhaustive enumeration of a finite table, not a simulation target",
    "C28": "pure byte-stream transformation (chunker/dechunker); nothing in the running system reorders or duplicates chunks, so there is no schedule or fault dimension to simulate",
    "C29": "pure function (marshal/unmarshal round trip) of its input",
    "C30": "pure function of the request (JSON value round trip); no concurrency, time, I/O fault or multi-party behaviour",
}
