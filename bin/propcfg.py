"""Per-property configuration of the orchestrator (budgets, evidence texts)."""

SHRINK_FIELDS = ["ops", "faults", "reqs", "stmts"]

REAL_DEFAULT = [
    "store (Store, FSM, transport, command processor)", "snapshot store", "db (SQLite via cgo, WAL, checkpoint manager)",
    "command (marshal, sql rewriter)", "cluster (Service, Client)", "proxy", "tcp.Mux",
    "hashicorp/raft v1.7.3 incl. NetworkTransport", "raft-boltdb/bbolt", "SQLite",
]
STUB_DEFAULT = [
    "TCP stack (simnet: in-memory conns, driver-chosen delivery)", "tcp.Dialer/tcp.Layer (header-writing dialer over simnet)",
    "cmd/rqlited/main.go wiring (sim/node mirrors it)", "wall clock and timers (testing/synctest fake clock)",
    "SQLite 'now' (gettimeofday defined by the harness)", "math/rand/v2 global source (import-swap overlay to a seeded source)",
    "TLS, DNS, discovery (not used)",
]
ASSUME_DEFAULT = [
    "goroutine interleaving inside one scheduler step is left to the Go runtime pinned to one P",
    "process-crash model: completed file operations survive, in-flight ones are cut; no torn writes inside SQLite/bbolt",
    "sampling, not proof: a clean batch is evidence only for the explored seeds",
]


def propnum(p):
    return int(p.lstrip("C"))


import glob, json, os

# One JSON file per property (or group) under bin/props.d/: {"Cnn": {config}}.
# Config keys: engine, level (exploration|fault_enumeration), mode (gen|enum|enum+gen),
# quick {runs, budget_s?}, thorough {runs, budget_s?}, chunk, rule, real?, stub?, assumptions?,
# shrink?, watchdog_s?, level_text?, level_note?, technique?
PROPS = {}
for _f in sorted(glob.glob(os.path.join(os.path.dirname(os.path.abspath(__file__)), "props.d", "*.json"))):
    PROPS.update(json.load(open(_f)))

ENGINES = [
    {"name": "E1 clustersim", "path": "sim/sim (+ sim/node, sim/simnet, sim/simclock)",
     "serves_properties": ["C01", "C02", "C03", "C13", "C14", "C16", "C17", "C18", "C20", "C21", "C22", "C23", "C25", "C27", "C32", "C33", "C35", "C37", "C38"],
     "kind_free_text": "real rqlite nodes (store+raft+bbolt+SQLite+cluster service/client+proxy+mux, optional HTTP service, CDC service, uploader) in one testing/synctest bubble over a simulated network; one event per scheduler step chosen by a seeded PRNG; crash = directory image"},
    {"name": "E2 crashsim (snapshot store)", "path": "sim/crash, sim/snapsim", "serves_properties": ["C07", "C08", "C09"],
     "kind_free_text": "real snapshot.Store / plan executor / upgrader driven sequentially; directory image at every verifhook occurrence and every fsutil.SyncDir, recovery run crashed again; I/O errors injected at hook points"},
    {"name": "E2 store engine", "path": "sim/props/storeeng.go", "serves_properties": ["C03", "C04"],
     "kind_free_text": "single real store.Store (raft, bbolt, SQLite, snapshot store) in a bubble; image at the k-th hook occurrence or quiescent point; clone rebuilt down the other restart path"},
    {"name": "transfer engine", "path": "sim/xfer", "serves_properties": ["C10", "C12"],
     "kind_free_text": "real snapshot streamer -> NodeTransport.InstallSnapshot (+-zstd) -> raft NetworkTransport -> simnet with split/flip/drop/insert/truncate -> consumer -> sink -> restore; corruption at rest of every data file and sidecar x every consumer"},
    {"name": "E3 walsim", "path": "sim/walsim", "serves_properties": ["C05", "C06"],
     "kind_free_text": "one driver goroutine holding several connections (rqlite db.DB write connection + CheckpointManager, reader connections holding read marks) to one real WAL-mode SQLite database; a seeded schedule decides which connection acts next (writer transaction, reader start/stop, snapshot attempt, disk fault on a WAL copy); SQLite itself is the reference for applying WALs"},
    {"name": "E3 schedsim", "path": "sim/sched", "serves_properties": ["C11", "C24", "C31", "C34", "C36"],
     "kind_free_text": "tasks parked at yield points (harness-level and verifhook.Yield in rqlite) and released one at a time by a seeded scheduler under the fake clock; mutexes held across blocking points are modelled"},
    {"name": "hostile peer", "path": "sim/hostile", "serves_properties": ["C18", "C35"],
     "kind_free_text": "a simnet host that speaks and mis-speaks the inter-node protocol (credential matrix, generated and mutated byte streams), wire tap, decode-based reference model"},
    {"name": "CDC queue engine", "path": "sim/props/c26.go", "serves_properties": ["C26"],
     "kind_free_text": "real cdc FIFO (bbolt) driven sequentially with crash images at quiescent points against a sequential model"},
]

NOT_APPLICABLE = {
    "C15": "pure function of the SQL text (pattern guard): no schedule, clock, fault or multi-party behaviour for a simulator to control; input-grammar testing belongs to another technique",
    "C19": "pure boolean function of (credentials file, query); exhaustive enumeration of a finite table, not a simulation target",
    "C28": "pure byte-stream transformation (chunker/dechunker); nothing in the running system reorders or duplicates chunks, so there is no schedule or fault dimension to simulate",
    "C29": "pure function (marshal/unmarshal round trip) of its input",
    "C30": "pure function of the request (JSON value round trip); no concurrency, time, I/O fault or multi-party behaviour",
}
