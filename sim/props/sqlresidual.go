package props

import (
	"sort"
	"strings"

	rqsql "github.com/rqlite/sql"
)

// sqlhNDResidual is one non-deterministic call found in a statement text, with the
// syntactic context it sits in.
type sqlhNDResidual struct {
	Kind string // time-zeroarg time-fmtonly time-explicit-now random randomblob
	Ctx  string // "" (plain expression position), "cte" (inside a WITH body), "isnull" (operand of IS [NOT] NULL / ISNULL / NOTNULL)
}

func (r sqlhNDResidual) String() string {
	if r.Ctx == "" {
		return r.Kind
	}
	return r.Kind + "@" + r.Ctx
}

// sqlhFindND parses text with rqlite's SQL parser and lists the non-deterministic
// calls in it (the harness's own traversal: it descends into WITH bodies and
// IS NULL operands itself). ok=false when the text does not parse; the caller
// then falls back to the textual scan (c14ResidualND).
//
// This is used for DIAGNOSIS only (which violation class a finding belongs
// to); detection rests on evaluation and on the textual scan.
func sqlhFindND(text string) (res []sqlhNDResidual, ok bool) {
	defer func() {
		if recover() != nil {
			res, ok = nil, false
		}
	}()
	st, err := rqsql.NewParser(strings.NewReader(text)).ParseStatement()
	if err != nil {
		return nil, false
	}
	f := &sqlhNDFinder{}
	if _, err := rqsql.Walk(f, st); err != nil {
		return nil, false
	}
	sort.Slice(f.out, func(i, j int) bool { return f.out[i].String() < f.out[j].String() })
	return f.out, true
}

type sqlhNDFinder struct {
	ctx     string
	orderBy int
	out     []sqlhNDResidual
}

func sqlhIsNowLit(e rqsql.Expr) bool {
	if s, ok := e.(*rqsql.StringLit); ok {
		return strings.EqualFold(s.Value, "now")
	}
	return false
}

func (f *sqlhNDFinder) sub(ctx string, n rqsql.Node) {
	if n == nil {
		return
	}
	g := &sqlhNDFinder{ctx: ctx, orderBy: f.orderBy}
	if f.ctx != "" {
		g.ctx = f.ctx
	}
	rqsql.Walk(g, n)
	f.out = append(f.out, g.out...)
}

func (f *sqlhNDFinder) Visit(node rqsql.Node) (rqsql.Visitor, rqsql.Node, error) {
	switch n := node.(type) {
	case *rqsql.WithClause:
		for _, cte := range n.CTEs {
			if cte != nil && cte.Select != nil {
				f.sub("cte", cte.Select)
			}
		}
	case *rqsql.Null:
		if n.X != nil {
			f.sub("isnull", n.X)
		}
	case *rqsql.OrderingTerm:
		f.orderBy++
	case *rqsql.Call:
		name := strings.ToLower(n.Name.Name)
		add := func(k string) { f.out = append(f.out, sqlhNDResidual{k, f.ctx}) }
		switch name {
		case "date", "time", "datetime", "julianday", "unixepoch":
			if len(n.Args) == 0 && n.Star.Line == 0 && n.Star.Offset == 0 {
				add("time-zeroarg")
			} else if len(n.Args) > 0 && sqlhIsNowLit(n.Args[0]) {
				add("time-explicit-now")
			}
		case "strftime":
			if len(n.Args) == 1 {
				add("time-fmtonly")
			} else if len(n.Args) > 1 && sqlhIsNowLit(n.Args[1]) {
				add("time-explicit-now")
			}
		case "timediff":
			for _, a := range n.Args {
				if sqlhIsNowLit(a) {
					add("time-explicit-now")
					break
				}
			}
		case "random":
			if f.orderBy == 0 && len(n.Args) == 0 {
				add("random")
			}
		case "randomblob":
			if len(n.Args) == 1 {
				if _, ok := n.Args[0].(*rqsql.NumberLit); ok {
					add("randomblob")
				}
			}
		}
	}
	return f, node, nil
}

func (f *sqlhNDFinder) VisitEnd(node rqsql.Node) (rqsql.Node, error) {
	if _, ok := node.(*rqsql.OrderingTerm); ok {
		f.orderBy--
	}
	return node, nil
}
