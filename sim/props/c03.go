package props

// C03: acknowledged writes survive crashes and restarts; a restarted node has
// exactly the state it had applied, on the fast path (clean-snapshot
// fingerprint, existing database file reused) and on the rebuild path
// (snapshot store + log).
//
// Mode "e2": one real store.Store (raft, bbolt, SQLite, snapshot store) as a
// single-node cluster in the bubble. A history of acked unique-value writes,
// user/threshold/WAL-size snapshots, reaps, loads, boots and close/reopen is
// run once without a crash (counting every verifhook occurrence), then once
// per crash case: a directory image is taken inside the k-th hook occurrence
// (or at a quiescent point after an op), the instance is torn down, the image
// is put at the same path and a new Store is opened on it (optionally crashed
// a second time during the restart, optionally with a torn/garbage live WAL).
// Mode "e1": 3/5-node cluster, writes through the proxy, crash/restart of a
// minority (including the leader) at arbitrary scheduler steps.

import (
	"bytes"
	"context"
	"encoding/json"
	"fmt"
	"os"
	"path/filepath"
	"sort"
	"testing/synctest"
	"time"

	"github.com/rqlite/rqlite/v10/command/proto"
	"verifsim/core"
	"verifsim/node"
	"verifsim/sim"
)

type c03Op struct {
	K    string `json:"k"` // e2: w snap reap load boot reopen run | e1: w crash restart run snap
	N    int    `json:"n,omitempty"`
	Pad  int    `json:"pad,omitempty"`
	Tx   bool   `json:"tx,omitempty"`
	SC   bool   `json:"sc,omitempty"`   // reopen: snapshot on close
	Node int    `json:"node,omitempty"` // e1 (0 = current leader)
	Gap  int    `json:"gap,omitempty"`  // e1: scheduler steps before the next op
}

// c03Fault selects one crash case relative to the counting pre-run.
type c03Fault struct {
	Q    bool `json:"q,omitempty"`    // quiescent crash after op number Pm‰ of the op list
	Pt   int  `json:"pt"`             // index (mod) into the sorted distinct hook names
	Pm   int  `json:"pm"`             // which occurrence of that name, in ‰
	At2  int  `json:"at2,omitempty"`  // second crash at this hook occurrence of the restart (0 = none)
	Torn int  `json:"torn,omitempty"` // 1 truncate live WAL in the image, 2 append garbage
}

type c03Scenario struct {
	Seed   uint64     `json:"seed"`
	Mode   string     `json:"mode"`
	Nodes  int        `json:"nodes,omitempty"`
	Knobs  node.Knobs `json:"knobs"`
	Full   bool       `json:"full,omitempty"` // crash at every hook occurrence and after every op
	After  bool       `json:"after,omitempty"`
	Tick   float64    `json:"tick,omitempty"`
	Ops    []c03Op    `json:"ops"`
	Faults []c03Fault `json:"faults"`
}

func c03Gen(r *core.Rand, tier string) any {
	sc := &c03Scenario{Seed: r.Uint64(), Mode: "e2"}
	if r.Bool(0.25) {
		return c03GenE1(r, sc)
	}
	k := node.Knobs{}
	if r.Bool(0.6) {
		k.SnapshotThreshold = uint64(r.Range(2, 7))
		k.SnapshotInterval = time.Duration(r.Range(40, 400)) * time.Millisecond
	}
	if r.Bool(0.3) {
		k.SnapshotThresholdWALSize = uint64(r.Range(1, 12)) * 4096
		if k.SnapshotInterval == 0 {
			k.SnapshotInterval = time.Duration(r.Range(40, 400)) * time.Millisecond
		}
	}
	if r.Bool(0.6) {
		k.SnapshotReapThreshold = r.Range(2, 3)
	}
	sc.Knobs = k
	sc.After = r.Bool(0.7)
	nops := r.Range(6, 22)
	if tier == "thorough" {
		nops = r.Range(6, 30)
	}
	sc.Full = r.Bool(map[string]float64{"quick": 0.04, "thorough": 0.25}[tier]) && nops <= 14
	for i := 0; i < nops; i++ {
		x := r.Intn(100)
		switch {
		case i == 0 || x < 48:
			pad := 0
			switch r.Intn(4) {
			case 1:
				pad = r.Range(10, 300)
			case 2:
				pad = r.Range(1000, 9000)
			}
			sc.Ops = append(sc.Ops, c03Op{K: "w", N: r.Range(1, 3), Pad: pad, Tx: r.Bool(0.3)})
		case x < 70:
			sc.Ops = append(sc.Ops, c03Op{K: "snap", N: r.Intn(3)})
		case x < 76:
			sc.Ops = append(sc.Ops, c03Op{K: "reap"})
		case x < 82:
			sc.Ops = append(sc.Ops, c03Op{K: "load", N: r.Range(1, 6), Pad: r.Intn(3) * 700})
		case x < 86:
			sc.Ops = append(sc.Ops, c03Op{K: "boot", N: r.Range(1, 6), Pad: r.Intn(3) * 700})
		case x < 93:
			sc.Ops = append(sc.Ops, c03Op{K: "reopen", SC: r.Bool(0.6)})
		default:
			sc.Ops = append(sc.Ops, c03Op{K: "run", N: r.Range(50, 1500)})
		}
	}
	nf := 6
	if tier == "thorough" {
		nf = 12
	}
	for i := 0; i < nf; i++ {
		f := c03Fault{Pt: r.Intn(1000), Pm: r.Intn(1000), Q: r.Bool(0.12)}
		if r.Bool(0.25) {
			f.At2 = r.Range(1, 8)
		}
		if r.Bool(0.25) {
			f.Torn = r.Range(1, 2)
		}
		sc.Faults = append(sc.Faults, f)
	}
	return sc
}

// ---------------------------------------------------------------- e2

type c03Case struct {
	At      int // hook occurrence (1-based), 0 = none
	AfterOp int // crash at the quiescent point after this op index, -1 = none
	At2     int
	Torn    int
}

type c03Eng struct {
	c      *core.Ctx
	sc     *c03Scenario
	s      *sim.Sim
	n      *node.Node
	h      *hookCtl
	cands  [][]mrow // possible states given acked and unknown-outcome operations
	nextV  int64
	loadNo int
	imgErr error
	cs     *c03Case
	at     string // crash point of the first crash
}

func candKey(m []mrow) string {
	b, _ := json.Marshal(m)
	return string(b)
}

// applyOp records the outcome of a state-changing operation: acked => every
// candidate advances; unknown => both old and new candidates remain possible.
func (e *c03Eng) applyOp(acked bool, f func([]mrow) []mrow) {
	var out [][]mrow
	seen := map[string]bool{}
	add := func(m []mrow) {
		k := candKey(m)
		if !seen[k] {
			seen[k] = true
			out = append(out, m)
		}
	}
	for _, m := range e.cands {
		if !acked {
			add(m)
		}
		add(f(append([]mrow(nil), m...)))
	}
	if len(out) > 16 {
		out = out[:16]
	}
	e.cands = out
}

func (e *c03Eng) crashed() bool {
	e.h.mu.Lock()
	defer e.h.mu.Unlock()
	return e.h.crashed
}

func (e *c03Eng) image(suffix string) func(string) {
	return func(point string) {
		img := e.n.Dir + suffix
		os.RemoveAll(img)
		if err := node.CopyTree(e.n.Dir, img); err != nil && e.imgErr == nil {
			e.imgErr = err
		}
	}
}

// c03History runs the scenario's history once in its own directory. cs == nil:
// no crash (counting run). It returns the hook occurrence names seen before
// the crash and whether the history could be judged.
func c03History(c *core.Ctx, sc *c03Scenario, sub int, cs *c03Case) []string {
	reseed(sc.Seed)
	c.Rng = core.NewRand(sc.Seed)
	s := sim.New(c)
	s.Dir = filepath.Join(c.Dir, fmt.Sprintf("h%d", sub))
	os.MkdirAll(s.Dir, 0o755)
	e := &c03Eng{c: c, sc: sc, s: s, h: newHookCtl(c), cands: [][]mrow{nil}, nextV: 1000, cs: cs}
	e.h.install()
	defer func() {
		unhook()
		quietStop(s)
		os.RemoveAll(s.Dir)
	}()
	if cs != nil {
		logf(c, "== history %d: crash case at=%d afterop=%d at2=%d torn=%d", sub, cs.At, cs.AfterOp, cs.At2, cs.Torn)
		e.h.crashAt = cs.At
		e.h.onCrash = e.image(".img")
	} else {
		logf(c, "== history %d: counting run", sub)
	}
	if err := s.Boot(1, sc.Knobs, nil); err != nil {
		c.Discard("boot-failed: " + clean(c, err.Error()))
		return nil
	}
	e.n = s.Nodes[1]
	var err error
	s.Do("schema", 60*time.Second, func() { err = execStmts(e.n, []string{tblSchema}, false) })
	if err != nil {
		c.Discard("schema-failed: " + clean(c, err.Error()))
		return nil
	}
	e.h.armed = true

	for i, op := range sc.Ops {
		if c.Failed() || s.Capped || e.crashed() {
			break
		}
		e.doOp(i, op)
		if cs != nil && cs.AfterOp == i && !e.crashed() {
			synctest.Wait()
			e.h.mu.Lock()
			e.h.crashed = true
			e.h.crashPt = fmt.Sprintf("quiescent-after-op-%d", i)
			e.h.mu.Unlock()
			logf(c, "CRASH at quiescent point after op %d", i)
			e.image(".img")("")
		}
	}
	seq := append([]string(nil), e.h.seq...)
	if c.Failed() || s.Capped || c.Res.Verdict == core.Discarded {
		return seq
	}
	if e.imgErr != nil {
		c.Discard("image-failed: " + clean(c, e.imgErr.Error()))
		return seq
	}
	if e.crashed() {
		c.Fault("crash")
		c.Probe("crash@" + hookClass(e.h.crashPt))
		e.recoverFromImage()
	} else if cs == nil {
		// no crash: a clean close/reopen must also preserve everything
		e.h.armed = false
		e.cleanReopenCheck("final", true)
	} else {
		c.Probe("crash_case_not_reached")
	}
	return seq
}

func hookClass(pt string) string {
	if len(pt) > 10 && pt[:10] == "quiescent-" {
		return "quiescent"
	}
	return pt
}

func (e *c03Eng) doOp(i int, op c03Op) {
	c, s, n := e.c, e.s, e.n
	switch op.K {
	case "w":
		var rows []mrow
		var stmts []string
		for j := 0; j < max(1, op.N); j++ {
			e.nextV++
			r := mrow{V: e.nextV, Pad: op.Pad}
			rows = append(rows, r)
			stmts = append(stmts, insertSQL(r))
		}
		var err error
		acked := false
		s.Do(fmt.Sprintf("op%d w %d..%d", i, rows[0].V, rows[len(rows)-1].V), 120*time.Second, func() {
			err = execStmts(n, stmts, op.Tx)
			acked = err == nil && !e.crashed()
		})
		if err != nil {
			logf(c, "op%d write error: %v", i, err)
			c.Probe("write_error")
		}
		if acked {
			c.Probe("writes_acked")
		} else {
			c.Probe("writes_unknown")
		}
		e.applyOp(acked, func(m []mrow) []mrow { return append(m, rows...) })
	case "snap":
		var err error
		s.Do(fmt.Sprintf("op%d snap %d", i, op.N), 120*time.Second, func() { err = n.Store.Snapshot(uint64(op.N)) })
		logf(c, "op%d snapshot: %v", i, err)
		if err == nil {
			c.Probe("user_snapshot_ok")
		}
	case "reap":
		var a, b int
		var err error
		s.Do(fmt.Sprintf("op%d reap", i), 120*time.Second, func() { a, b, err = n.Store.Reap() })
		logf(c, "op%d reap: %d %d %v", i, a, b, err)
		if err == nil && a > 0 {
			c.Probe("reaped")
		}
	case "load", "boot":
		e.loadNo++
		var rows []mrow
		for j := 0; j < max(1, op.N); j++ {
			rows = append(rows, mrow{V: int64(9000000 + e.loadNo*1000 + j), Pad: op.Pad})
		}
		data, err := makeLoadDB(s.Dir, e.loadNo, rows)
		if err != nil {
			c.Discard("harness: makeLoadDB: " + clean(c, err.Error()))
			return
		}
		acked := false
		s.Do(fmt.Sprintf("op%d %s %d rows", i, op.K, len(rows)), 120*time.Second, func() {
			if op.K == "load" {
				err = n.Store.Load(context.Background(), &proto.LoadRequest{Data: data})
			} else {
				_, err = n.Store.ReadFrom(bytes.NewReader(data))
			}
			acked = err == nil && !e.crashed()
		})
		logf(c, "op%d %s: %v", i, op.K, err)
		if acked {
			c.Probe(op.K + "_acked")
		}
		e.applyOp(acked, func(m []mrow) []mrow { return append([]mrow(nil), rows...) })
	case "reopen":
		n.Store.NoSnapshotOnClose = !op.SC
		s.Do(fmt.Sprintf("op%d close sc=%v", i, op.SC), 300*time.Second, func() { n.Stop() })
		if e.crashed() {
			return
		}
		crcBad := false
		if err := startNode(s, n, &crcBad); err != nil {
			if !e.crashed() {
				stViolate(c, "reopen-failed", "clean close then open failed at op %d: %v", i, err)
			}
			return
		}
		if e.crashed() {
			return
		}
		if err := settle(s, n); err != nil && !e.crashed() {
			stViolate(c, "reopen-no-leader", "node did not become ready after clean reopen at op %d: %v", i, err)
		}
		c.Probe("clean_reopen")
		if crcBad && !e.crashed() && !c.Failed() {
			e.exitOnCRC(fmt.Sprintf("op%d", i))
		}
	case "run":
		s.RunFor(time.Duration(op.N) * time.Millisecond)
	}
}

// checkState dumps the node and compares with the candidate states.
func (e *c03Eng) checkState(phase string) (string, bool) {
	c := e.c
	d, err := e.s.DumpNode(e.n)
	if err != nil {
		stViolate(c, "dump-failed", "%s: database unreadable after restart: %v", phase, err)
		return "", false
	}
	rows, has, err := parseT(d)
	if err != nil {
		c.Discard("harness: " + clean(c, err.Error()))
		return d, false
	}
	var firstDiff string
	for _, m := range e.cands {
		diff := matchModel(rows, m)
		if diff == "" {
			if !has && len(m) > 0 {
				continue
			}
			logf(c, "%s: state ok rows=%d %s", phase, len(rows), modelSig(m))
			return d, true
		}
		if firstDiff == "" {
			firstDiff = diff
		}
	}
	// classify
	cnt := map[int64]int{}
	for _, r := range rows {
		cnt[r.V]++
	}
	class := "state-mismatch"
	for _, r := range rows {
		if cnt[r.V] > 1 {
			class = "write-applied-twice"
		}
	}
	if class == "state-mismatch" {
		for _, r := range e.cands[0] {
			inAll := true
			for _, m := range e.cands[1:] {
				f := false
				for _, x := range m {
					f = f || x.V == r.V
				}
				inAll = inAll && f
			}
			if inAll && cnt[r.V] == 0 {
				class = "acked-write-lost"
			}
		}
	}
	stViolate(c, class, "%s (crash at %s): %s; %d candidate state(s), first: %s", phase, e.at, firstDiff, len(e.cands), modelSig(e.cands[0]))
	return d, false
}

func (e *c03Eng) recoverFromImage() {
	c, s, n, cs := e.c, e.s, e.n, e.cs
	img := n.Dir + ".img"
	e.h.armed = false
	e.at = e.h.crashPt
	// let whatever the dead instance was doing finish (its acks no longer count)
	s.Drain(120 * time.Second)
	if cs.Torn > 0 {
		wal := filepath.Join(img, "db.sqlite-wal")
		if b, err := os.ReadFile(wal); err == nil && len(b) > 0 {
			fi, _ := os.Stat(wal)
			r := core.NewRand(e.sc.Seed ^ uint64(cs.At*7919+cs.Torn))
			if cs.Torn == 1 {
				b = b[:r.Intn(len(b))]
			} else {
				b = append(b, r.Bytes(r.Range(1, 5000))...)
			}
			os.WriteFile(wal, b, 0o644)
			os.Chtimes(wal, fi.ModTime(), fi.ModTime())
			c.Fault(fmt.Sprintf("torn-wal-%d", cs.Torn))
		}
	}
	ref := n.Dir + ".ref"
	os.RemoveAll(ref)
	if err := node.CopyTree(img, ref); err != nil {
		c.Discard("image-failed: " + clean(c, err.Error()))
		return
	}
	if n.Up {
		if err := tearDownTo(s, n, img); err != nil {
			c.Discard("teardown-failed: " + clean(c, err.Error()))
			return
		}
	} else {
		n.Net.HostDown(n.HostName)
		os.RemoveAll(n.Dir)
		if err := os.Rename(img, n.Dir); err != nil {
			c.Discard("teardown-failed: " + clean(c, err.Error()))
			return
		}
	}

	// restart (possibly crashed a second time while restarting)
	skipped0 := storeStat("num_restores_start_skipped")
	e.h.rearm(cs.At2, e.image(".img2"))
	e.h.armed = true
	crcBad := false
	err := startNode(s, n, &crcBad)
	if e.crashed() {
		c.Fault("crash-during-restart")
		c.Probe("crash2@" + e.h.crashPt)
		if e.imgErr != nil {
			c.Discard("image-failed: " + clean(c, e.imgErr.Error()))
			return
		}
		e.h.armed = false
		s.Drain(120 * time.Second)
		os.RemoveAll(ref)
		if err := node.CopyTree(n.Dir+".img2", ref); err != nil {
			c.Discard("image-failed: " + clean(c, err.Error()))
			return
		}
		if n.Up {
			err = tearDownTo(s, n, n.Dir+".img2")
		} else {
			n.Net.HostDown(n.HostName)
			os.RemoveAll(n.Dir)
			err = os.Rename(n.Dir+".img2", n.Dir)
		}
		if err != nil {
			c.Discard("teardown-failed: " + clean(c, err.Error()))
			return
		}
		skipped0 = storeStat("num_restores_start_skipped")
		crcBad = false
		err = startNode(s, n, &crcBad)
	}
	e.h.armed = false
	if err != nil {
		stViolate(c, "restart-failed", "node does not open after crash at %s: %v", e.at, err)
		return
	}
	fast := storeStat("num_restores_start_skipped") > skipped0
	if err := settle(s, n); err != nil {
		stViolate(c, "restart-no-leader", "node did not become ready after crash at %s: %v", e.at, err)
		return
	}
	if crcBad {
		// rqlite's documented reaction: remove the fingerprint, exit, restart is safe
		if !e.exitOnCRC("after-crash") {
			return
		}
		fast = false
	}
	if fast {
		c.Probe("restart_fast_path")
	} else {
		c.Probe("restart_rebuild_path")
	}
	d1, ok := e.checkState("after-restart")
	if !ok {
		return
	}
	c.Sig(fmt.Sprintf("%s/%v/%d", hookClass(e.at), fast, len(d1)))

	// reference rebuild of the same image down the other path
	if fast {
		n.Store.NoSnapshotOnClose = true
		s.Do("stop-for-ref", 300*time.Second, func() { n.Stop() })
		keep := n.Dir + ".nat"
		os.RemoveAll(keep)
		os.Rename(n.Dir, keep)
		if err := os.Rename(ref, n.Dir); err != nil {
			c.Discard("harness: " + clean(c, err.Error()))
			return
		}
		removeFingerprint(n.Dir)
		if err := startNode(s, n, nil); err != nil {
			stViolate(c, "restart-failed", "rebuild-path restart of the image (crash at %s) failed: %v", e.at, err)
			return
		}
		if err := settle(s, n); err != nil {
			stViolate(c, "restart-no-leader", "rebuild-path restart not ready: %v", err)
			return
		}
		d2, err := s.DumpNode(n)
		if err != nil {
			stViolate(c, "dump-failed", "rebuild-path database unreadable: %v", err)
			return
		}
		c.Probe("reference_rebuild_compared")
		if d1 != d2 {
			stViolate(c, "fast-vs-rebuild-mismatch", "crash at %s: fast-path restart and rebuild from snapshot+log of the same image differ: %s", e.at, sim.FirstDiff(d1, d2))
			return
		}
		os.RemoveAll(keep)
	}
	os.RemoveAll(ref)

	if e.sc.After {
		e.aftermath()
	}
}

// aftermath: the recovered node must keep working: more acked writes, a
// snapshot, then a clean reopen down both paths.
func (e *c03Eng) aftermath() {
	c, s, n := e.c, e.s, e.n
	// after recovery exactly one candidate matched; narrow to the observed one
	d, err := s.DumpNode(n)
	if err != nil {
		return
	}
	rows, _, _ := parseT(d)
	var keep [][]mrow
	for _, m := range e.cands {
		if matchModel(rows, m) == "" {
			keep = append(keep, m)
		}
	}
	if len(keep) == 0 {
		return
	}
	e.cands = keep[:1]
	for j := 0; j < 2; j++ {
		e.nextV++
		r := mrow{V: e.nextV, Pad: 600 * j}
		var err error
		s.Do(fmt.Sprintf("aftermath w %d", r.V), 120*time.Second, func() { err = execStmts(n, []string{insertSQL(r)}, false) })
		if err != nil {
			stViolate(c, "write-after-restart-failed", "write after recovery (crash at %s) failed: %v", e.at, err)
			return
		}
		e.applyOp(true, func(m []mrow) []mrow { return append(m, r) })
		if j == 0 {
			var serr error
			s.Do("aftermath snap", 120*time.Second, func() { serr = n.Store.Snapshot(1) })
			logf(c, "aftermath snapshot: %v", serr)
		}
	}
	e.cleanReopenCheck("aftermath", false)
}

// exitOnCRC models rqlite's reaction to a fingerprint whose CRC32 does not
// match the database at start-up: remove the fingerprint, exit; the operator
// restarts ("restarting is safe").
func (e *c03Eng) exitOnCRC(phase string) bool {
	c, s, n := e.c, e.s, e.n
	c.Probe("crc_bad_exit")
	logf(c, "%s: start-up CRC check failed, modelling exit + restart", phase)
	n.Store.NoSnapshotOnClose = true
	s.Do("exit-on-crc", 300*time.Second, func() { n.Stop() })
	removeFingerprint(n.Dir)
	crcBad := false
	if err := startNode(s, n, &crcBad); err != nil {
		stViolate(c, "restart-failed", "%s: node does not open after CRC exit: %v", phase, err)
		return false
	}
	if err := settle(s, n); err != nil {
		stViolate(c, "restart-no-leader", "%s: node not ready after CRC exit: %v", phase, err)
		return false
	}
	return true
}

// cleanReopenCheck closes cleanly, reopens on the natural path, checks the
// model, then reopens with the fingerprint removed and checks again.
func (e *c03Eng) cleanReopenCheck(phase string, snapOnClose bool) {
	c, s, n := e.c, e.s, e.n
	for pass := 0; pass < 2; pass++ {
		n.Store.NoSnapshotOnClose = !(snapOnClose && pass == 0)
		s.Do(phase+" close", 300*time.Second, func() { n.Stop() })
		if pass == 1 {
			if removeFingerprint(n.Dir) {
				c.Probe("forced_rebuild_reopen")
			}
		}
		sk := storeStat("num_restores_start_skipped")
		crcBad := false
		if err := startNode(s, n, &crcBad); err != nil {
			stViolate(c, "reopen-failed", "%s: open after clean close failed (pass %d): %v", phase, pass, err)
			return
		}
		if storeStat("num_restores_start_skipped") > sk {
			c.Probe("clean_reopen_fast_path")
		}
		if err := settle(s, n); err != nil {
			stViolate(c, "reopen-no-leader", "%s: not ready after clean reopen (pass %d): %v", phase, pass, err)
			return
		}
		if crcBad && !e.exitOnCRC(phase) {
			return
		}
		if _, ok := e.checkState(fmt.Sprintf("%s-reopen-pass%d", phase, pass)); !ok {
			return
		}
	}
}

// quietStop stops all nodes of a history without the lines taking part in the
// event-log hash ordering of later histories.
func quietStop(s *sim.Sim) {
	for _, n := range s.Nodes[1:] {
		if n != nil && n.Up {
			nn := n
			nn.Store.NoSnapshotOnClose = true
			s.Do("stop-"+nn.ID, 300*time.Second, func() { nn.Stop() })
		}
	}
	for i := 0; i < 50 && s.PendingTasks() > 0; i++ {
		s.Step()
	}
}

func c03Run(c *core.Ctx, raw json.RawMessage) {
	var sc c03Scenario
	if err := json.Unmarshal(raw, &sc); err != nil {
		panic(err)
	}
	if sc.Mode == "e1" {
		c03RunE1(c, &sc)
		return
	}
	seq := c03History(c, &sc, 0, nil)
	c.Res.Cases++
	if c.Failed() || c.Res.Verdict == core.Discarded {
		return
	}
	c.ProbeN("hook_occurrences_in_history", len(seq))
	// distinct names, occurrence indices per name
	occ := map[string][]int{}
	for i, nm := range seq {
		occ[nm] = append(occ[nm], i+1)
	}
	var names []string
	for nm := range occ {
		names = append(names, nm)
	}
	sort.Strings(names)
	var cases []c03Case
	if sc.Full {
		for i := range seq {
			cases = append(cases, c03Case{At: i + 1, AfterOp: -1})
		}
		for i := range sc.Ops {
			cases = append(cases, c03Case{AfterOp: i})
		}
		c.Probe("full_enumeration_histories")
	} else {
		for _, f := range sc.Faults {
			cs := c03Case{AfterOp: -1, At2: f.At2, Torn: f.Torn}
			if f.Q || len(names) == 0 {
				if len(sc.Ops) == 0 {
					continue
				}
				cs.AfterOp = f.Pm * len(sc.Ops) / 1000
			} else {
				l := occ[names[f.Pt%len(names)]]
				cs.At = l[f.Pm*len(l)/1000]
			}
			cases = append(cases, cs)
		}
	}
	c.Res.Trivial = len(cases) == 0
	for i := range cases {
		if c.Failed() || c.Res.Verdict == core.Discarded {
			return
		}
		c03History(c, &sc, i+1, &cases[i])
		c.Res.Cases++
	}
}

func init() {
	core.Register(&core.Prop{ID: "C03", Bubble: true, Gen: c03Gen, Run: c03Run})
}
