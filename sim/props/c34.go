package props

import (
	"encoding/json"
	"errors"
	"fmt"
	"sync"
	"time"

	"github.com/rqlite/rqlite/v10/verifx"
	"verifsim/core"
	"verifsim/sched"
)

// C34: coordination primitives of internal/rsync are safe and make progress:
// the check-and-set gate admits at most one holder; the multi-reader/single-
// writer lock admits readers xor one writer and a blocking acquirer proceeds
// once holders release; ReadyTarget waiters are woken exactly when the
// signalled index reaches their target and never before.
//
// Engine E3: 2-3 tasks execute seeded op lists over the real primitive; the
// seeded scheduler interleaves them (each API call is one critical section, so
// a yield before every call gives every interleaving of critical sections)
// and advances the fake clock (BeginWithRetry sleeps between attempts).
// Oracle: a reference model updated in the same scheduler step as the call.
// To stay sound whatever the goroutine interleaving inside one step, the model
// is updated AFTER a real acquisition and BEFORE a real release.

type c34Op struct {
	T int    `json:"t"`
	K string `json:"k"`
	A int    `json:"a,omitempty"`
	B int    `json:"b,omitempty"`
}

type c34Scenario struct {
	Seed     uint64  `json:"seed"`
	Prim     string  `json:"prim"` // cas | mrsw | rt
	Tasks    int     `json:"tasks"`
	TickProb float64 `json:"tick"`
	Sticky   float64 `json:"sticky"`
	Ops      []c34Op `json:"ops"`
}

func c34Gen(r *core.Rand, tier string) any {
	sc := &c34Scenario{Seed: r.Uint64()}
	sc.Prim = []string{"cas", "mrsw", "mrsw", "rt"}[r.Intn(4)]
	sc.Tasks = r.Range(2, 3)
	if sc.Prim == "mrsw" && r.Bool(0.5) {
		sc.Tasks = 3 // wake-up races need two waiters and a holder
	}
	sc.TickProb = []float64{0.02, 0.1, 0.3}[r.Intn(3)]
	sc.Sticky = []float64{0, 0.4, 0.8}[r.Intn(3)]
	n := r.Range(8, 30)
	ms := []int{0, 1, 3, 5, 10, 20, 50, 100}
	for i := 0; i < n; i++ {
		op := c34Op{T: r.Intn(sc.Tasks)}
		switch sc.Prim {
		case "cas":
			switch r.Weighted([]int{40, 30, 15, 15}) {
			case 0:
				op.K, op.A = "begin", r.Intn(4) // owner 0 = empty string
			case 1:
				op.K = "end"
			case 2:
				op.K, op.A, op.B = "retry", ms[r.Intn(len(ms))], ms[1+r.Intn(len(ms)-1)]
			case 3:
				op.K = "owner"
			}
		case "mrsw":
			op.K = []string{"rlock", "rlockb", "runlock", "wlock", "wlockb", "wunlock", "upgrade"}[r.Weighted([]int{18, 18, 24, 10, 14, 12, 6})]
		case "rt":
			switch r.Weighted([]int{35, 30, 10, 5, 10, 10}) {
			case 0:
				op.K, op.A = "sub", r.Intn(13)
			case 1:
				op.K, op.A = "signal", r.Intn(13)
			case 2:
				op.K, op.A = "unsub", r.Intn(4)
			case 3:
				op.K = "reset"
			case 4:
				op.K = "len"
			case 5:
				op.K = "wait"
			}
		}
		sc.Ops = append(sc.Ops, op)
	}
	return sc
}

func c34Run(c *core.Ctx, raw json.RawMessage) {
	var sc c34Scenario
	if err := json.Unmarshal(raw, &sc); err != nil {
		panic(err)
	}
	if sc.Tasks < 1 {
		sc.Tasks = 1
	}
	c.Rng = core.NewRand(sc.Seed)
	s := sched.New(c, c.Rng)
	s.TickProb, s.Sticky = sc.TickProb, sc.Sticky
	s.MaxSteps = 3000
	s.Install()
	per := make([][]c34Op, sc.Tasks)
	for _, op := range sc.Ops {
		if op.T >= 0 && op.T < sc.Tasks {
			per[op.T] = append(per[op.T], op)
		}
	}
	stop := make(chan struct{})
	var tasks []*sched.Task
	switch sc.Prim {
	case "cas":
		tasks = c34CAS(c, s, per)
	case "mrsw":
		tasks = c34MRSW(c, s, per)
	case "rt":
		tasks = c34RT(c, s, per, stop)
	default:
		c.Discard("unknown primitive")
		return
	}
	// run until every task is done, or is parked forever in an RT wait
	s.RunUntil(func() bool {
		for _, t := range tasks {
			if !t.Done() && !(t.Blocked() && t.Doing == "wait") {
				return false
			}
		}
		return true
	})
	close(stop)
	s.Close()
	if s.Capped && !c.Failed() {
		c.Res.Verdict = core.Capped
	}
}

// ---------------------------------------------------------------- check-and-set gate

func c34CAS(c *core.Ctx, s *sched.Sched, per [][]c34Op) []*sched.Task {
	cas := verifx.NewCheckAndSet()
	var mu sync.Mutex
	holder := -1
	holderOwner := ""
	acquired := func(ti int, owner, how string) {
		mu.Lock()
		defer mu.Unlock()
		if holder != -1 {
			s.Violate("cas-two-holders", "task %d entered the gate (%s, owner %q) while task %d (owner %q) is inside", ti, how, owner, holder, holderOwner)
			return
		}
		holder, holderOwner = ti, owner
	}
	var tasks []*sched.Task
	for ti := range per {
		ops := per[ti]
		tasks = append(tasks, s.Go(fmt.Sprintf("t%d", ti), func(t *sched.Task) {
			defer func() {
				// leave the gate open for the others
				mu.Lock()
				mine := holder == ti
				if mine {
					holder = -1
				}
				mu.Unlock()
				if mine {
					cas.End()
				}
			}()
			for _, op := range ops {
				if s.Freed() || s.Failed() {
					return
				}
				owner := ""
				if op.A > 0 {
					owner = fmt.Sprintf("o%d", op.A)
				}
				switch op.K {
				case "begin":
					t.Yield("h.begin")
					err := cas.Begin(owner)
					if err == nil {
						acquired(ti, owner, "Begin")
						s.Logf("  t%d begin %q ok", ti, owner)
						break
					}
					mu.Lock()
					h := holder
					mu.Unlock()
					s.Logf("  t%d begin %q conflict", ti, owner)
					s.Probe("cas_conflict")
					if !errors.Is(err, verifx.ErrCASConflict) {
						s.Violate("cas-wrong-error", "Begin returned %v", err)
					} else if h == -1 {
						s.Violate("cas-spurious-conflict", "task %d: Begin(%q) reported a conflict although nobody is inside the gate: %v", ti, owner, err)
					}
				case "retry":
					mu.Lock()
					mine := holder == ti
					mu.Unlock()
					if mine {
						continue // would only wait for itself
					}
					owner = fmt.Sprintf("r%d", ti)
					timeout, interval := time.Duration(op.A)*time.Millisecond, time.Duration(op.B)*time.Millisecond
					if interval <= 0 {
						interval = time.Millisecond
					}
					t.Yield("h.retry")
					t.Doing = "retry"
					t0 := time.Now()
					mu.Lock()
					heldAtCall := holder != -1
					mu.Unlock()
					err := cas.BeginWithRetry(owner, timeout, interval)
					el := time.Since(t0)
					t.Doing = ""
					if err == nil {
						acquired(ti, owner, "BeginWithRetry")
						s.Logf("  t%d retry(%s,%s) ok after %s", ti, timeout, interval, el)
						if heldAtCall {
							s.Probe("cas_retry_acquired_after_waiting")
						}
						break
					}
					mu.Lock()
					h := holder
					mu.Unlock()
					s.Logf("  t%d retry(%s,%s) gave up after %s", ti, timeout, interval, el)
					s.Probe("cas_retry_timeout")
					switch {
					case !errors.Is(err, verifx.ErrCASConflictTimeout):
						s.Violate("cas-wrong-error", "BeginWithRetry returned %v", err)
					case h == -1:
						s.Violate("cas-spurious-timeout", "task %d: BeginWithRetry gave up although nobody is inside the gate", ti)
					case el < timeout:
						s.Violate("cas-early-timeout", "task %d: BeginWithRetry(timeout %s) gave up after only %s", ti, timeout, el)
					case el > timeout+interval:
						s.Violate("cas-late-timeout", "task %d: BeginWithRetry(timeout %s, retry %s) gave up only after %s", ti, timeout, interval, el)
					}
				case "end":
					mu.Lock()
					mine := holder == ti
					mu.Unlock()
					if !mine {
						continue
					}
					t.Yield("h.end")
					mu.Lock()
					holder, holderOwner = -1, ""
					mu.Unlock()
					cas.End()
					s.Logf("  t%d end", ti)
				case "owner":
					t.Yield("h.owner")
					got := cas.Owner()
					st := cas.Stats()
					mu.Lock()
					h, ho := holder, holderOwner
					mu.Unlock()
					s.Logf("  t%d owner=%q", ti, got)
					// Owner/Stats are diagnostics; the property does not constrain them.
					_, _, _ = h, ho, st
				}
			}
		}))
	}
	return tasks
}

// ---------------------------------------------------------------- multi-reader single-writer

func c34MRSW(c *core.Ctx, s *sched.Sched, per [][]c34Op) []*sched.Task {
	l := verifx.NewMultiRSW()
	var mu sync.Mutex
	readers, writer := 0, -1
	myR := make([]int, len(per))
	var tasks []*sched.Task

	gotRead := func(ti int, how string) {
		mu.Lock()
		defer mu.Unlock()
		if writer != -1 {
			s.Violate("mrsw-reader-with-writer", "task %d became a reader (%s) while task %d holds the write lock", ti, how, writer)
			return
		}
		readers++
		myR[ti]++
	}
	gotWrite := func(ti int, how string) {
		mu.Lock()
		defer mu.Unlock()
		if writer != -1 || readers > 0 {
			s.Violate("mrsw-writer-not-exclusive", "task %d became the writer (%s) while writer=%d readers=%d", ti, how, writer, readers)
			return
		}
		writer = ti
	}
	for ti := range per {
		ops := per[ti]
		tasks = append(tasks, s.Go(fmt.Sprintf("t%d", ti), func(t *sched.Task) {
			release := func(yield bool) {
				for {
					mu.Lock()
					r, w := myR[ti], writer == ti
					mu.Unlock()
					if r == 0 && !w {
						return
					}
					if yield {
						t.Yield("h.cleanup")
					}
					mu.Lock()
					if w {
						writer = -1
					} else {
						readers--
						myR[ti]--
					}
					mu.Unlock()
					if w {
						l.EndWrite()
					} else {
						l.EndRead()
					}
				}
			}
			defer release(false)
			for _, op := range ops {
				if s.Freed() || s.Failed() {
					return
				}
				mu.Lock()
				r, w := myR[ti], writer == ti
				mu.Unlock()
				switch op.K {
				case "rlock":
					if r >= 2 {
						continue
					}
					t.Yield("h.rlock")
					err := l.BeginRead()
					if err == nil {
						gotRead(ti, "BeginRead")
						s.Logf("  t%d rlock ok", ti)
						break
					}
					s.Logf("  t%d rlock conflict", ti)
					s.Probe("mrsw_conflict")
					mu.Lock()
					free := writer == -1
					mu.Unlock()
					if free {
						s.Violate("mrsw-spurious-conflict", "task %d: BeginRead failed although no writer is active: %v", ti, err)
					}
				case "rlockb":
					if w || r >= 2 {
						continue // would wait for itself
					}
					t.Yield("h.rlockb")
					t.Doing = "rlockb"
					l.BeginReadBlocking()
					t.Doing = ""
					gotRead(ti, "BeginReadBlocking")
					s.Logf("  t%d rlockb ok", ti)
				case "runlock":
					if r == 0 {
						continue
					}
					t.Yield("h.runlock")
					mu.Lock()
					readers--
					myR[ti]--
					mu.Unlock()
					l.EndRead()
					s.Logf("  t%d runlock", ti)
				case "wlock":
					if w {
						continue
					}
					t.Yield("h.wlock")
					err := l.BeginWrite(fmt.Sprintf("w%d", ti))
					if err == nil {
						gotWrite(ti, "BeginWrite")
						s.Logf("  t%d wlock ok", ti)
						break
					}
					s.Logf("  t%d wlock conflict", ti)
					s.Probe("mrsw_conflict")
					mu.Lock()
					free := writer == -1 && readers == 0
					mu.Unlock()
					if free {
						s.Violate("mrsw-spurious-conflict", "task %d: BeginWrite failed although the lock is free: %v", ti, err)
					}
				case "wlockb":
					if w || r > 0 {
						continue // would wait for itself
					}
					t.Yield("h.wlockb")
					t.Doing = "wlockb"
					l.BeginWriteBlocking(fmt.Sprintf("w%d", ti))
					t.Doing = ""
					gotWrite(ti, "BeginWriteBlocking")
					s.Logf("  t%d wlockb ok", ti)
				case "wunlock":
					if !w {
						continue
					}
					t.Yield("h.wunlock")
					mu.Lock()
					writer = -1
					mu.Unlock()
					l.EndWrite()
					s.Logf("  t%d wunlock", ti)
				case "upgrade":
					if r != 1 || w {
						continue
					}
					t.Yield("h.upgrade")
					err := l.UpgradeToWriter(fmt.Sprintf("w%d", ti))
					mu.Lock()
					sole := writer == -1 && readers == 1
					if err == nil {
						if !sole {
							s.Violate("mrsw-writer-not-exclusive", "task %d upgraded to writer while writer=%d readers=%d", ti, writer, readers)
						} else {
							readers, myR[ti], writer = 0, 0, ti
						}
					}
					mu.Unlock()
					s.Logf("  t%d upgrade err=%v", ti, err != nil)
					if err == nil {
						s.Probe("mrsw_upgrade_ok")
					} else {
						s.Probe("mrsw_upgrade_conflict")
						if sole {
							s.Violate("mrsw-spurious-conflict", "task %d: UpgradeToWriter failed although it is the only reader: %v", ti, err)
						}
					}
				}
			}
			release(true)
		}))
	}
	// progress: at quiescence nobody may be blocked in a blocking acquire that
	// the model says is possible
	wasBlocked := map[int]bool{}
	s.AfterStep = func() {
		mu.Lock()
		defer mu.Unlock()
		for ti, t := range tasks {
			if !t.Blocked() {
				if wasBlocked[ti] {
					wasBlocked[ti] = false
					c.Probe("mrsw_blocked_acquirer_woken")
				}
				continue
			}
			switch t.Doing {
			case "rlockb":
				if writer == -1 {
					c.Violate("mrsw-reader-not-woken", "task %d is still blocked in BeginReadBlocking although no writer is active (readers=%d)", ti, readers)
					return
				}
				if !wasBlocked[ti] {
					c.Probe("mrsw_reader_blocked")
				}
				wasBlocked[ti] = true
			case "wlockb":
				if writer == -1 && readers == 0 {
					c.Violate("mrsw-writer-not-woken", "task %d is still blocked in BeginWriteBlocking although the lock is free", ti)
					return
				}
				if !wasBlocked[ti] {
					c.Probe("mrsw_writer_blocked")
				}
				wasBlocked[ti] = true
			}
		}
	}
	return tasks
}

// ---------------------------------------------------------------- ready target

type c34Sub struct {
	ch       <-chan struct{}
	target   uint64
	live     bool // still in the subscriber list (model)
	expect   bool // model: channel must be closed
	owner    int
	reported bool
}

func c34RT(c *core.Ctx, s *sched.Sched, per [][]c34Op, stop chan struct{}) []*sched.Task {
	rt := verifx.NewReadyTargetUint64()
	var mu sync.Mutex
	var cur uint64
	var subs []*c34Sub
	var tasks []*sched.Task
	closed := func(ch <-chan struct{}) bool {
		select {
		case <-ch:
			return true
		default:
			return false
		}
	}
	for ti := range per {
		ops := per[ti]
		tasks = append(tasks, s.Go(fmt.Sprintf("t%d", ti), func(t *sched.Task) {
			var mine []*c34Sub
			for _, op := range ops {
				if s.Freed() || s.Failed() {
					return
				}
				switch op.K {
				case "sub":
					t.Yield("h.sub")
					ch := rt.Subscribe(uint64(op.A))
					mu.Lock()
					sb := &c34Sub{ch: ch, target: uint64(op.A), owner: ti}
					if sb.target <= cur {
						sb.expect = true
						c.Probe("rt_subscribe_already_reached")
					} else {
						sb.live = true
					}
					subs = append(subs, sb)
					mu.Unlock()
					mine = append(mine, sb)
					s.Logf("  t%d sub %d", ti, op.A)
				case "signal":
					t.Yield("h.signal")
					rt.Signal(uint64(op.A))
					mu.Lock()
					if uint64(op.A) > cur {
						cur = uint64(op.A)
						for _, sb := range subs {
							if sb.live && sb.target <= cur {
								sb.live, sb.expect = false, true
								c.Probe("rt_waiter_woken_by_signal")
							}
						}
					} else {
						c.Probe("rt_stale_signal")
					}
					mu.Unlock()
					s.Logf("  t%d signal %d", ti, op.A)
				case "unsub":
					if len(mine) == 0 {
						continue
					}
					sb := mine[op.A%len(mine)]
					t.Yield("h.unsub")
					rt.Unsubscribe(sb.ch)
					mu.Lock()
					sb.live = false
					mu.Unlock()
					s.Logf("  t%d unsub target %d", ti, sb.target)
				case "reset":
					t.Yield("h.reset")
					rt.Reset()
					mu.Lock()
					cur = 0
					for _, sb := range subs {
						sb.live = false
					}
					mu.Unlock()
					s.Logf("  t%d reset", ti)
				case "len":
					t.Yield("h.len")
					n := rt.Len()
					mu.Lock()
					want := 0
					for _, sb := range subs {
						if sb.live {
							want++
						}
					}
					mu.Unlock()
					s.Logf("  t%d len=%d", ti, n)
					if n != want {
						s.Violate("rt-len", "Len() = %d, model has %d waiting subscribers", n, want)
					}
				case "wait":
					if len(mine) == 0 {
						continue
					}
					sb := mine[len(mine)-1]
					t.Yield("h.wait")
					t.Doing = "wait"
					select {
					case <-sb.ch:
						t.Doing = ""
						mu.Lock()
						ok := sb.expect
						mu.Unlock()
						s.Logf("  t%d wait target %d done", ti, sb.target)
						if !ok {
							s.Violate("rt-woken-early", "task %d: waiter for target %d was woken although the signalled index is %d", ti, sb.target, cur)
						}
					case <-stop:
						return
					}
				}
			}
		}))
	}
	s.AfterStep = func() {
		mu.Lock()
		defer mu.Unlock()
		for i, sb := range subs {
			cl := closed(sb.ch)
			if cl && !sb.expect {
				c.Violate("rt-woken-early", "subscription #%d (task %d, target %d) is closed although the signalled index is %d (never reached while subscribed)", i, sb.owner, sb.target, cur)
				return
			}
			if !cl && sb.expect {
				c.Violate("rt-not-woken", "subscription #%d (task %d, target %d) is still open although index %d >= target was signalled while it was subscribed", i, sb.owner, sb.target, sb.target)
				return
			}
		}
	}
	return tasks
}

func init() {
	core.Register(&core.Prop{ID: "C34", Bubble: true, Gen: c34Gen, Run: c34Run})
}
