package props

import (
	"context"
	"crypto/sha1"
	"database/sql"
	"encoding/hex"
	"encoding/json"
	"fmt"
	"net/url"
	"os"
	"path/filepath"
	"strings"
	"sync"
	"syscall"
	"time"

	"github.com/rqlite/rqlite/v10/command/proto"
	rsql "github.com/rqlite/rqlite/v10/command/sql"
	"github.com/rqlite/rqlite/v10/verifx"
	"verifsim/core"
	"verifsim/node"
	"verifsim/sim"
)

// C17: no query-endpoint request, and no statement a unified request treats as
// read-only, at any consistency level, changes the database of any node; a
// node's database changes only by applying committed log entries, installing a
// snapshot, or an explicit boot or load.
//
// One run: a 3-node cluster with the real HTTP service. Operations: legitimate
// writes (/db/execute), adversarial read texts sent to /db/query (GET q=, POST
// JSON, POST text/plain) and to /db/request at every level (none, weak,
// linearizable, strong, auto) on every node - writes in disguise, multi-statement
// texts whose first statement is read-only, EXPLAIN, RETURNING, PRAGMAs that try
// to lift the read-only guard, ATTACH of the node's own database file
// read-write, temp tables, transaction control, ANALYZE/VACUUM/REINDEX - and
// unified requests mixing such texts with genuine writes; a follower may be
// isolated (reads at level none on it) and restarted.
//
// Oracles:
//  1. after every operation: the logical dump (+ user_version, application_id,
//     schema of every attached name) of EVERY node equals the reference, which is
//     the harness's own SQLite to which only the legitimate writes were applied -
//     for a unified request only the statements the store classifies read-write
//     (Store.RORWCount, the classification the property names).
//  2. after every scheduler step: a node's logical content changes only in a step
//     in which that node applied a command entry of a writing type (execute,
//     execute-query, load) or ran a snapshot restore, as reported by hook points.

type c17Op struct {
	K     string   `json:"k"` // write read mixed stall lag heal restart run
	N     int      `json:"n,omitempty"`
	Ep    string   `json:"ep,omitempty"` // get post text request
	Level string   `json:"lvl,omitempty"`
	Tx    bool     `json:"tx,omitempty"`
	Texts []string `json:"texts,omitempty"`
	RW    []int    `json:"rw,omitempty"` // mixed: indexes of texts that are genuine writes (for the record; classification is done at run time)
	Ms    int      `json:"ms,omitempty"`
}

type c17Scenario struct {
	Seed  uint64     `json:"seed"`
	Knobs node.Knobs `json:"knobs"`
	Tick  float64    `json:"tick"`
	// Strata that reach the two known defects (see known_findings.jsonl); off in
	// most runs so that those runs explore everything else to the end.
	MultiRO    bool    `json:"multi_ro,omitempty"`    // unified requests may carry multi-statement texts whose first statement is read-only
	LiftAttach bool    `json:"lift_attach,omitempty"` // query-endpoint reads may lift query_only AND attach the node's own file read-write AND write through it
	Ops        []c17Op `json:"ops"`
}

var c17Schema = []string{
	`CREATE TABLE t1 (id INTEGER PRIMARY KEY, a INTEGER, b TEXT)`,
	`CREATE TABLE t2 (k TEXT PRIMARY KEY, v INTEGER)`,
	`CREATE INDEX t1_a ON t1(a)`,
	`INSERT INTO t1(id,a,b) VALUES (1,10,'one'),(2,20,'two'),(3,30,'three')`,
	`INSERT INTO t2(k,v) VALUES ('x',1),('y',2)`,
}

func c17Write(r *core.Rand) string {
	id := 1 + r.Intn(12)
	switch r.Intn(6) {
	case 0, 1:
		return fmt.Sprintf("INSERT OR REPLACE INTO t1(id,a,b) VALUES(%d,%d,'w%d')", id, r.Intn(1000), r.Intn(100))
	case 2:
		return fmt.Sprintf("UPDATE t1 SET a = a + %d WHERE id = %d", 1+r.Intn(9), id)
	case 3:
		return fmt.Sprintf("DELETE FROM t1 WHERE id = %d", id)
	case 4:
		return fmt.Sprintf("INSERT OR REPLACE INTO t2(k,v) VALUES('k%d',%d)", r.Intn(6), r.Intn(100))
	default:
		return fmt.Sprintf("UPDATE t2 SET v = v + 1 WHERE k = 'k%d'", r.Intn(6))
	}
}

// c17Adversarial returns one read text that tries to change something.
// {DB} is replaced by the path of the target node's SQLite file at run time.
func c17Adversarial(r *core.Rand, unified, multiRO, liftAttach bool) []string {
	for {
		t := c17AdversarialAny(r)
		joined := strings.Join(t, " ;; ")
		hasAttach := strings.Contains(joined, "{DB}")
		hasLift := strings.Contains(strings.ToLower(joined), "query_only")
		_ = hasLift
		if unified {
			if hasAttach {
				continue // runs on every node through the log: the path is meaningless there
			}
			// explicit transaction control and temp tables are connection state that
			// outlives the request on the single read-write connection; what they do
			// to LATER legitimate writes is not this property's subject
			if up := strings.ToUpper(joined); strings.Contains(up, "BEGIN") || strings.Contains(up, "SAVEPOINT") || strings.Contains(up, "TEMP") {
				continue
			}
			if !multiRO && c17HasMultiStatement(t) {
				continue
			}
		} else if hasAttach && !liftAttach {
			// the guard can be lifted by one request and the pooled connection reused
			// by a later one, so the attach-own-file texts belong to the stratum as a whole
			continue
		}
		return t
	}
}

// c17HasMultiStatement reports whether some text holds more than one statement.
func c17HasMultiStatement(texts []string) bool {
	for _, t := range texts {
		if i := strings.Index(t, ";"); i >= 0 && strings.TrimSpace(strings.Trim(t[i:], "; \n")) != "" {
			return true
		}
	}
	return false
}

func c17AdversarialAny(r *core.Rand) []string {
	v := 5000 + r.Intn(1000)
	ins := fmt.Sprintf("INSERT INTO t1(id,a,b) VALUES(%d,%d,'evil')", v, v)
	writes := []string{
		ins,
		fmt.Sprintf("UPDATE t1 SET b = 'evil%d'", v),
		"DELETE FROM t1",
		"DROP TABLE t2",
		fmt.Sprintf("CREATE TABLE evil%d (a)", v),
		"CREATE INDEX evil_ix ON t1(b)",
		fmt.Sprintf("REPLACE INTO t2(k,v) VALUES('x',%d)", v),
		ins + " RETURNING *",
		fmt.Sprintf("UPDATE t1 SET a = %d WHERE id = 1 RETURNING id", v),
		"DELETE FROM t2 RETURNING k",
		fmt.Sprintf("WITH c(x) AS (SELECT %d) INSERT INTO t1(id,a) SELECT x, x FROM c", v),
		fmt.Sprintf("INSERT INTO t1(id,a) SELECT id + %d, a FROM t1", v),
		"ALTER TABLE t1 ADD COLUMN evil TEXT",
		"ANALYZE",
		"VACUUM",
		"REINDEX",
		fmt.Sprintf("PRAGMA user_version = %d", v),
		fmt.Sprintf("PRAGMA application_id = %d", v),
		"PRAGMA writable_schema = ON",
	}
	w := writes[r.Intn(len(writes))]
	roFirst := []string{"SELECT 1", "SELECT * FROM t1", "EXPLAIN SELECT 1", "/* ro */ SELECT count(*) FROM t2", "PRAGMA table_info(t1)", "VALUES(1)", "SELECT 1 WHERE 0"}[r.Intn(7)]
	unguard := []string{"PRAGMA query_only(0)", "PRAGMA query_only(false)", "/* */ PRAGMA query_only = 0", " \n PRAGMA main.query_only = OFF", "SELECT 1; PRAGMA query_only = 0",
		"PRAGMA query_only = 0", "PRAGMA QUERY_ONLY(0)"}[r.Intn(7)]
	attach := []string{"ATTACH DATABASE 'file:{DB}?mode=rw' AS w", "ATTACH DATABASE '{DB}' AS w", "ATTACH 'file:{DB}?mode=rwc&cache=private' AS w"}[r.Intn(3)]
	wIns := fmt.Sprintf("INSERT INTO w.t1(id,a,b) VALUES(%d,%d,'attached')", v, v)
	switch x := r.Intn(100); {
	case x < 18: // a write in disguise, alone
		return []string{w}
	case x < 40: // multi-statement text whose first statement is read-only
		return []string{roFirst + "; " + w}
	case x < 46:
		return []string{roFirst + ";\n" + w + "; SELECT 1"}
	case x < 52:
		return []string{"EXPLAIN " + w, "EXPLAIN QUERY PLAN " + w}
	case x < 58:
		return []string{"EXPLAIN SELECT 1; " + w}
	case x < 66: // lift the guard, then write
		return []string{unguard, w}
	case x < 72:
		return []string{unguard + "; " + w}
	case x < 80: // attach the node's own file read-write and write through it
		return []string{unguard, attach, wIns}
	case x < 84:
		return []string{attach, wIns}
	case x < 87:
		return []string{attach + "; " + wIns}
	case x < 91: // temp tables
		return []string{"CREATE TEMP TABLE tt AS SELECT * FROM t1", "INSERT INTO temp.tt SELECT * FROM t1", "DELETE FROM t1 WHERE id IN (SELECT id FROM tt)"}
	case x < 95: // transaction control around a write
		return []string{"BEGIN", w, "COMMIT"}
	case x < 97:
		return []string{"SAVEPOINT s; " + w + "; RELEASE s"}
	default:
		return []string{"SELECT * FROM t1 ORDER BY id", "SELECT count(*) FROM t2"} // honest reads
	}
}

func c17Gen(r *core.Rand, tier string) any {
	sc := &c17Scenario{Seed: r.Uint64()}
	sc.Tick = []float64{0.02, 0.08, 0.2}[r.Intn(3)]
	hb := time.Duration(r.Range(2, 8)) * 100 * time.Millisecond
	sc.Knobs = node.Knobs{HeartbeatTimeout: hb, ElectionTimeout: hb, LeaderLeaseTimeout: hb / 2, ApplyTimeout: 5 * time.Second}
	if r.Bool(0.5) {
		sc.Knobs.SnapshotThreshold = uint64(r.Range(4, 16))
		sc.Knobs.SnapshotInterval = time.Duration(r.Range(1, 5)) * time.Second
	}
	sc.MultiRO = r.Bool(0.2)
	sc.LiftAttach = r.Bool(0.2)
	if r.Bool(0.6) {
		sc.Knobs.MaxReadOnlyConns = 1 + r.Intn(2) // capped read-only pool (-db-max-ro-conns)
	}
	levels := []string{"none", "weak", "linearizable", "strong", "auto", ""}
	n := r.Range(28, 40)
	lag, down := 0, 0
	for i := 0; i < n; i++ {
		switch x := r.Intn(100); {
		case x < 20:
			op := c17Op{K: "write", N: r.Intn(4)}
			for j := r.Range(1, 3); j > 0; j-- {
				op.Texts = append(op.Texts, c17Write(r))
			}
			sc.Ops = append(sc.Ops, op)
		case x < 72:
			op := c17Op{K: "read", N: r.Intn(4), Ep: []string{"get", "post", "post", "text", "request", "request"}[r.Intn(6)], Level: levels[r.Intn(len(levels))], Tx: r.Bool(0.2)}
			op.Texts = c17Adversarial(r, op.Ep == "request", sc.MultiRO, sc.LiftAttach)
			sc.Ops = append(sc.Ops, op)
		case x < 88:
			// unified request mixing adversarial texts with genuine writes
			op := c17Op{K: "mixed", N: r.Intn(4), Ep: "request", Level: levels[r.Intn(len(levels))], Tx: false}
			adv := c17Adversarial(r, true, sc.MultiRO, sc.LiftAttach)
			wr := []string{c17Write(r)}
			if r.Bool(0.5) {
				wr = append(wr, c17Write(r))
			}
			if r.Bool(0.5) {
				op.Texts = append(append(op.Texts, adv...), wr...)
				for j := range wr {
					op.RW = append(op.RW, len(adv)+j)
				}
			} else {
				op.Texts = append(append(op.Texts, wr...), adv...)
				for j := range wr {
					op.RW = append(op.RW, j)
				}
			}
			sc.Ops = append(sc.Ops, op)
		case x < 92:
			if lag == 0 && down == 0 {
				lag = 1 + r.Intn(3)
				sc.Ops = append(sc.Ops, c17Op{K: "lag", N: lag})
			} else if lag != 0 {
				sc.Ops = append(sc.Ops, c17Op{K: "heal"})
				lag = 0
			}
		case x < 96:
			if lag == 0 && down == 0 {
				down = 1 + r.Intn(3)
				sc.Ops = append(sc.Ops, c17Op{K: "restart", N: down})
				down = 0
			}
		default:
			sc.Ops = append(sc.Ops, c17Op{K: "run", Ms: r.Range(100, 4000)})
		}
		if sc.Knobs.MaxReadOnlyConns > 0 && lag == 0 && r.Bool(0.12) {
			// every read-only connection of the node is held by a stalled read while a
			// write in disguise arrives on the query endpoint
			op := c17Op{K: "stall", N: r.Intn(4), Ep: []string{"post", "get", "text"}[r.Intn(3)], Level: []string{"none", "none", "weak", ""}[r.Intn(4)], Tx: r.Bool(0.2)}
			for len(op.Texts) == 0 || c17HasMultiStatement(op.Texts) {
				op.Texts = c17Adversarial(r, false, false, false)
			}
			sc.Ops = append(sc.Ops, op)
		}
	}
	return sc
}

// ------------------------------------------------------------------ observation

type c17FileStat struct {
	size  int64
	mtime int64
	ino   uint64
}

func c17StatOf(p string) c17FileStat {
	fi, err := os.Stat(p)
	if err != nil {
		return c17FileStat{}
	}
	st := c17FileStat{size: fi.Size(), mtime: fi.ModTime().UnixNano()}
	if s, ok := fi.Sys().(*syscall.Stat_t); ok {
		st.ino = s.Ino
	}
	return st
}

type c17NodeView struct {
	dbStat, walStat c17FileStat
	raw             string // hash of the file bytes
	logical         string // extended logical dump
}

// c17Dump is the extended logical dump of a node's database, through the
// harness's own connection on a private copy of the files.
func c17Dump(dbPath, tmpDir string) (string, error) {
	d, err := os.MkdirTemp(tmpDir, "c17-")
	if err != nil {
		return "", err
	}
	defer os.RemoveAll(d)
	cp := filepath.Join(d, "db.sqlite")
	b, err := os.ReadFile(dbPath)
	if err != nil {
		return "", err
	}
	if err := os.WriteFile(cp, b, 0o644); err != nil {
		return "", err
	}
	if w, err := os.ReadFile(dbPath + "-wal"); err == nil && len(w) > 0 {
		if err := os.WriteFile(cp+"-wal", w, 0o644); err != nil {
			return "", err
		}
	}
	sqlhRegisterDrivers()
	db, err := sql.Open(sqlhPlainDriver, "file:"+cp)
	if err != nil {
		return "", err
	}
	defer db.Close()
	db.SetMaxOpenConns(1)
	return c17DumpDB(db)
}

func c17DumpDB(db *sql.DB) (string, error) {
	s, err := sqlhDumpQ(db)
	if err != nil {
		return "", err
	}
	for _, p := range []string{"user_version", "application_id"} {
		var v int64
		if err := db.QueryRow("PRAGMA " + p).Scan(&v); err != nil {
			return "", err
		}
		s += fmt.Sprintf("P|%s|%d\n", p, v)
	}
	// internal statistics tables (ANALYZE) are content too
	rows, err := db.Query(`SELECT name FROM sqlite_master WHERE name LIKE 'sqlite_stat%' ORDER BY name`)
	if err != nil {
		return "", err
	}
	var stats []string
	for rows.Next() {
		var n string
		rows.Scan(&n)
		stats = append(stats, n)
	}
	rows.Close()
	s += fmt.Sprintf("P|stat_tables|%s\n", strings.Join(stats, ","))
	return s, nil
}

func c17RawHash(dbPath string) string {
	h := sha1.New()
	b, _ := os.ReadFile(dbPath)
	h.Write(b)
	h.Write([]byte{0})
	w, _ := os.ReadFile(dbPath + "-wal")
	h.Write(w)
	return hex.EncodeToString(h.Sum(nil))
}

type c17Hooks struct {
	mu      sync.Mutex
	inApply map[string]bool // node id -> inside fsmApply
	touched map[string]bool // node id -> applied a writing entry / restored during the current step
	qapply  map[string]int  // node id -> QUERY-type entries applied during the current step
}

func (h *c17Hooks) hit(point string) error {
	parts := strings.Split(point, "/")
	if len(parts) < 2 {
		return nil
	}
	h.mu.Lock()
	defer h.mu.Unlock()
	id := parts[1]
	switch parts[0] {
	case "store.fsmApply.before":
		h.inApply[id] = true
	case "store.fsmApply.after":
		h.inApply[id] = false
		typ := ""
		if len(parts) > 2 {
			typ = parts[2]
		}
		switch typ {
		case "COMMAND_TYPE_EXECUTE", "COMMAND_TYPE_EXECUTE_QUERY", "COMMAND_TYPE_LOAD", "COMMAND_TYPE_LOAD_CHUNK":
			h.touched[id] = true
		case "COMMAND_TYPE_QUERY":
			h.qapply[id]++
		}
	case "store.fsmRestore.begin", "store.fsmRestore.end":
		h.touched[id] = true
	}
	return nil
}

type c17Run struct {
	sc     *c17Scenario
	c      *core.Ctx
	s      *sim.Sim
	hk     *c17Hooks
	views  map[int]*c17NodeView
	iso    int
	checks int
}

// stratum is the class suffix of runs generated in one of the strata that
// reach a known defect (unified = the finding concerns the unified endpoint).
func (k *c17Run) stratum(unified bool) string {
	suf := ""
	if unified && k.sc.MultiRO {
		suf += "+multi-ro-stratum"
	}
	if k.sc.LiftAttach {
		// also for mismatches seen on the unified endpoint or after a legitimate
		// write: a write made through the attached handle inside a transaction
		// that an earlier read left open on the pooled connection is uncommitted,
		// holds the file's write lock, and makes the NEXT write that comes through
		// the log fail with "database is locked" on that node only
		suf += "+lift-attach-stratum"
	}
	return suf
}

func (k *c17Run) dbPath(n *node.Node) string { return filepath.Join(n.Dir, "db.sqlite") }

// baseline (re)records what a node's database looks like now.
func (k *c17Run) baseline(n *node.Node) bool {
	p := k.dbPath(n)
	l, err := c17Dump(p, k.s.Dir)
	if err != nil {
		k.c.Discard("dump-failed: " + err.Error())
		return false
	}
	k.views[n.Idx] = &c17NodeView{dbStat: c17StatOf(p), walStat: c17StatOf(p + "-wal"), raw: c17RawHash(p), logical: l}
	return true
}

// afterStep enforces oracle 2 for every up node. full=true ignores the cheap
// stat gate and re-reads the files.
func (k *c17Run) afterStep(full bool) bool {
	k.hk.mu.Lock()
	touched, inApply := k.hk.touched, k.hk.inApply
	k.hk.touched = map[string]bool{}
	k.hk.qapply = map[string]int{}
	stillIn := map[string]bool{}
	for id, v := range inApply {
		if v {
			stillIn[id] = true
		}
	}
	k.hk.mu.Unlock()
	for _, n := range k.s.Nodes[1:] {
		v := k.views[n.Idx]
		if !n.Up || v == nil {
			continue
		}
		p := k.dbPath(n)
		ds, ws := c17StatOf(p), c17StatOf(p+"-wal")
		if !full && !touched[n.ID] && ds == v.dbStat && ws == v.walStat {
			continue
		}
		v.dbStat, v.walStat = ds, ws
		raw := c17RawHash(p)
		if raw == v.raw {
			continue
		}
		v.raw = raw
		k.checks++
		l, err := c17Dump(p, k.s.Dir)
		if err != nil {
			k.c.Discard("dump-failed: " + err.Error())
			return false
		}
		if l == v.logical {
			continue // checkpoint, WAL reset: bytes moved, content unchanged
		}
		old := v.logical
		v.logical = l
		if touched[n.ID] || stillIn[n.ID] {
			k.c.Probe("content_changes_attributed_to_apply_or_restore")
			continue
		}
		k.c.Violate("unattributed-change"+k.stratum(false), "step %d: the database of %s changed although the node neither applied a writing log entry nor restored a snapshot in this step: %s",
			k.s.StepN, n.ID, sim.FirstDiff(old, l))
		return false
	}
	return true
}

func (k *c17Run) step() bool {
	k.s.Step()
	return k.afterStep(false)
}

// do runs f as a task and steps (checking after every step) until it is done.
func (k *c17Run) do(label string, max time.Duration, f func()) bool {
	t := k.s.Go(label, f)
	deadline := time.Now().Add(max)
	for !t.Finished && !k.s.Capped && time.Now().Before(deadline) {
		if !k.step() {
			return false
		}
	}
	if !t.Finished {
		k.s.Await(t, time.Second)
	}
	return t.Finished
}

func (k *c17Run) runFor(d time.Duration) bool {
	deadline := time.Now().Add(d)
	for !k.s.Capped && time.Now().Before(deadline) {
		if !k.step() {
			return false
		}
	}
	return true
}

func (k *c17Run) settle(max time.Duration) bool {
	deadline := time.Now().Add(max)
	for !k.s.Capped && time.Now().Before(deadline) {
		l := k.s.Leader()
		if l != nil {
			ci, err := l.Store.CommitIndex()
			ok := err == nil
			for _, n := range k.s.Nodes[1:] {
				if n.Up && n.Idx != k.iso && n.Store.AppliedIndex() != ci {
					ok = false
				}
			}
			if ok {
				return true
			}
		}
		if !k.step() {
			return false
		}
	}
	return false
}

// compareWithReference enforces oracle 1.
func (k *c17Run) compareWithReference(ref *sql.DB, class, what string) bool {
	want, err := c17DumpDB(ref)
	if err != nil {
		k.c.Discard("oracle-db dump: " + err.Error())
		return false
	}
	for _, n := range k.s.Nodes[1:] {
		if !n.Up || n.Idx == k.iso {
			continue
		}
		got, err := c17Dump(k.dbPath(n), k.s.Dir)
		if err != nil {
			k.c.Discard("dump-failed: " + err.Error())
			return false
		}
		k.c.Probe("reference_comparisons")
		if got != want {
			k.c.Violate(class, "%s: the database of %s differs from the reference (only the legitimate writes applied): %s (reference first)", what, n.ID, sim.FirstDiff(want, got))
			return false
		}
	}
	return true
}

func c17Target(ep, level string, tx bool) string {
	t := "/db/query?timeout=6s"
	if ep == "request" {
		t = "/db/request?timeout=6s"
	}
	if level != "" {
		t += "&level=" + level
	}
	if level == "linearizable" {
		t += "&linearizable_timeout=2s"
	}
	if tx {
		t += "&transaction"
	}
	return t
}

func c17RunFn(c *core.Ctx, raw json.RawMessage) {
	var sc c17Scenario
	if err := json.Unmarshal(raw, &sc); err != nil {
		panic(err)
	}
	c.Rng = core.NewRand(sc.Seed)
	s := sim.New(c)
	s.TickProb = sc.Tick
	hk := &c17Hooks{inApply: map[string]bool{}, touched: map[string]bool{}, qapply: map[string]int{}}
	verifx.InstallHooks(hk.hit, nil, nil, nil, nil)
	defer verifx.ResetHooks()
	defer s.Shutdown()
	for i := 0; i < 3; i++ {
		n := s.AddNode(sc.Knobs)
		n.WithHTTP = true
	}
	if err := s.Boot(3, sc.Knobs, nil); err != nil {
		c.Discard("boot-failed: " + err.Error())
		return
	}
	k := &c17Run{sc: &sc, c: c, s: s, hk: hk, views: map[int]*c17NodeView{}}
	ref, err := sqlhOpenMemDB(sqlhPlainDriver)
	if err != nil {
		c.Discard("oracle-db: " + err.Error())
		return
	}
	defer ref.Close()
	ldr := s.Leader()
	if ldr == nil {
		c.Discard("no-leader-after-boot")
		return
	}
	b, _ := json.Marshal(c17Schema)
	var code int
	var body string
	if !s.Do("setup", 60*time.Second, func() {
		w := ldr.HTTPDo("POST", "/db/execute?timeout=20s", "application/json", b, "", "")
		code, body = w.Code, w.Body.String()
	}) || code != 200 || strings.Contains(body, `"error"`) {
		c.Discard(fmt.Sprintf("setup-failed: %d %.200s", code, body))
		return
	}
	for _, q := range c17Schema {
		if _, err := ref.Exec(q); err != nil {
			c.Discard("oracle-db setup: " + err.Error())
			return
		}
	}
	if !k.settle(60 * time.Second) {
		c.Discard("not-settled-after-setup")
		return
	}
	for _, n := range s.Nodes[1:] {
		if !k.baseline(n) {
			return
		}
	}
	if !k.compareWithReference(ref, "setup-mismatch", "after setup") {
		return
	}

	for oi := range sc.Ops {
		op := &sc.Ops[oi]
		if s.Capped || c.Failed() || c.Res.Verdict == core.Discarded {
			break
		}
		pick := func() *node.Node {
			if op.N >= 1 && op.N <= 3 && s.Nodes[op.N].Up {
				return s.Nodes[op.N]
			}
			return s.Leader()
		}
		switch op.K {
		case "run":
			if !k.runFor(time.Duration(op.Ms) * time.Millisecond) {
				return
			}
			continue
		case "lag":
			if k.iso != 0 || op.N < 1 || op.N > 3 || !s.Nodes[op.N].Up {
				continue
			}
			var rest []string
			for _, n := range s.Nodes[1:] {
				if n.Idx != op.N {
					rest = append(rest, n.HostName)
				}
			}
			s.Net.Partition([]string{s.Nodes[op.N].HostName}, rest)
			k.iso = op.N
			c.Fault("isolate")
			c.Log.Add("%d isolate n%d", s.StepN, op.N)
			if !k.runFor(2 * time.Second) {
				return
			}
			continue
		case "heal":
			if k.iso == 0 {
				continue
			}
			s.Net.Heal()
			c.Fault("heal")
			c.Log.Add("%d heal n%d", s.StepN, k.iso)
			k.iso = 0
			if !k.settle(60 * time.Second) {
				if !c.Failed() {
					c.Discard("not-settled-after-heal: " + s.StateDigest())
				}
				return
			}
			if !k.compareWithReference(ref, "state-mismatch-after-heal"+k.stratum(false), fmt.Sprintf("after heal (op %d)", oi)) {
				return
			}
			continue
		case "restart":
			if k.iso != 0 || op.N < 1 || op.N > 3 || !s.Nodes[op.N].Up {
				continue
			}
			n := s.Nodes[op.N]
			c.Log.Add("%d crash+restart n%d", s.StepN, op.N)
			delete(k.views, n.Idx) // the node's files are replaced by the crash image and rebuilt on start
			if err := s.Crash(op.N); err != nil {
				c.Discard("crash-failed: " + err.Error())
				return
			}
			if !k.runFor(time.Duration(500+c.Rng.Intn(3000)) * time.Millisecond) {
				return
			}
			if err := s.Restart(op.N); err != nil {
				c.Violate("restart-failed", "node %d failed to restart from its crash image: %v", op.N, err)
				return
			}
			if !k.settle(60 * time.Second) {
				if !c.Failed() {
					c.Discard("not-settled-after-restart: " + s.StateDigest())
				}
				return
			}
			if !k.baseline(n) {
				return
			}
			if !k.compareWithReference(ref, "state-mismatch-after-restart"+k.stratum(false), fmt.Sprintf("after restart (op %d)", oi)) {
				return
			}
			continue
		}
		tgt := pick()
		if tgt == nil || len(op.Texts) == 0 {
			continue
		}
		// {DB}: the SQLite file of the node that will execute the text (a client
		// can learn it with PRAGMA database_list). Level none runs on the target,
		// weak/linearizable/auto/default on the leader; what goes through the log
		// (strong, unified requests) runs on every node, where that path would not
		// exist on a real deployment: a non-existent file stands in for it.
		dbFile := filepath.Join(s.Dir, "no-such-dir", "db.sqlite")
		if op.K == "read" && op.Ep != "request" {
			switch op.Level {
			case "none":
				dbFile = k.dbPath(tgt)
			case "strong":
			default:
				if l := s.Leader(); l != nil && tgt.Idx != k.iso {
					dbFile = k.dbPath(l)
				} else {
					dbFile = k.dbPath(tgt)
				}
			}
		}
		texts := make([]string, len(op.Texts))
		for i, t := range op.Texts {
			texts[i] = strings.ReplaceAll(t, "{DB}", dbFile)
		}
		var code int
		var body string
		switch op.K {
		case "write":
			bb, _ := json.Marshal(texts)
			if !k.do(fmt.Sprintf("write %d n%d", oi, tgt.Idx), 40*time.Second, func() {
				w := tgt.HTTPDo("POST", "/db/execute?timeout=6s", "application/json", bb, "", "")
				code, body = w.Code, w.Body.String()
			}) {
				if !c.Failed() {
					c.Discard("write-did-not-return")
				}
				return
			}
			for retry := 0; retry < 8 && (code == 503 || code == 408) && tgt.Idx != k.iso; retry++ {
				// definite refusals (no leader right now): try again a little later
				c.Probe("legit_write_retries")
				if !k.runFor(700 * time.Millisecond) {
					return
				}
				if l := s.Leader(); l != nil {
					tgt = l
				}
				if !k.do(fmt.Sprintf("write %d retry n%d", oi, tgt.Idx), 40*time.Second, func() {
					w := tgt.HTTPDo("POST", "/db/execute?timeout=6s", "application/json", bb, "", "")
					code, body = w.Code, w.Body.String()
				}) {
					if !c.Failed() {
						c.Discard("write-did-not-return")
					}
					return
				}
			}
			if tgt.Idx == k.iso && !c17Definite(code, body) {
				c.Probe("writes_refused_on_isolated_node")
				continue
			}
			if !k.applyMaybe(ref, c17Definite(code, body), func() {
				for _, t := range texts {
					ref.Exec(t)
				}
			}) {
				return
			}
			c.Probe("legit_writes")
		case "read":
			label := fmt.Sprintf("read %d %s %s n%d x%d", oi, op.Ep, op.Level, tgt.Idx, len(texts))
			if !k.do(label, 40*time.Second, func() {
				target := c17Target(op.Ep, op.Level, op.Tx)
				switch op.Ep {
				case "get":
					w := tgt.HTTPDo("GET", target+"&q="+url.QueryEscape(texts[0]), "", nil, "", "")
					code, body = w.Code, w.Body.String()
				case "text":
					w := tgt.HTTPDo("POST", target, "text/plain", []byte(strings.Join(texts, "; ")), "", "")
					code, body = w.Code, w.Body.String()
				default:
					bb, _ := json.Marshal(texts)
					w := tgt.HTTPDo("POST", target, "application/json", bb, "", "")
					code, body = w.Code, w.Body.String()
				}
			}) {
				if !c.Failed() {
					c.Discard("read-did-not-return")
				}
				return
			}
			c.Probe("adversarial_reads")
			c.Probe("read_level_" + op.Level)
			c.Probe("read_ep_" + op.Ep)
			if code == 200 && !strings.Contains(body, `"error"`) {
				c.Probe("adversarial_reads_answered_without_error")
			}
			if op.Ep == "request" {
				// a unified request may legitimately write what it classifies read-write
				if !k.applyClassified(ref, tgt, texts, code, body) {
					return
				}
			}
		case "stall":
			if sc.Knobs.MaxReadOnlyConns == 0 || k.iso != 0 {
				continue
			}
			if op.Level != "none" {
				if l := s.Leader(); l != nil {
					tgt = l // weak/default reads are served by the leader
				}
			}
			if !k.settle(60 * time.Second) { // nothing (restore, catch-up) may be pending on the node while reads are stalled
				if !c.Failed() {
					c.Discard("not-settled-before-stall: " + s.StateDigest())
				}
				return
			}
			ctx, cancel := context.WithCancel(context.Background())
			var held []*sim.Task
			for i := 0; i < sc.Knobs.MaxReadOnlyConns; i++ {
				held = append(held, s.Go(fmt.Sprintf("stalled-read %d n%d", i, tgt.Idx), func() {
					tgt.Store.Query(ctx, &proto.QueryRequest{Level: proto.ConsistencyLevel_NONE, Request: &proto.Request{
						Statements: []*proto.Statement{{Sql: "SELECT 1", ForceStall: true}}}})
				}))
			}
			for i := 0; i < 4; i++ {
				if !k.step() {
					cancel()
					return
				}
			}
			c.Fault("ro-pool-exhausted")
			c.Log.Add("%d read-only pool of n%d exhausted by %d stalled reads", s.StepN, tgt.Idx, len(held))
			t := s.Go(fmt.Sprintf("read-while-exhausted %d %s %s n%d", oi, op.Ep, op.Level, tgt.Idx), func() {
				target := c17Target(op.Ep, op.Level, op.Tx)
				switch op.Ep {
				case "get":
					w := tgt.HTTPDo("GET", target+"&q="+url.QueryEscape(texts[0]), "", nil, "", "")
					code, body = w.Code, w.Body.String()
				case "text":
					w := tgt.HTTPDo("POST", target, "text/plain", []byte(strings.Join(texts, "; ")), "", "")
					code, body = w.Code, w.Body.String()
				default:
					bb, _ := json.Marshal(texts)
					w := tgt.HTTPDo("POST", target, "application/json", bb, "", "")
					code, body = w.Code, w.Body.String()
				}
			})
			deadline := time.Now().Add(2 * time.Second)
			for !t.Finished && !s.Capped && time.Now().Before(deadline) {
				if !k.step() {
					cancel()
					return
				}
			}
			if t.Finished {
				c.Probe("query_answered_while_ro_pool_exhausted")
			} else {
				c.Probe("query_queued_while_ro_pool_exhausted")
			}
			cancel()
			waitUntil := time.Now().Add(40 * time.Second)
			pending := func() bool {
				if !t.Finished {
					return true
				}
				for _, h := range held {
					if !h.Finished {
						return true
					}
				}
				return false
			}
			for pending() && !s.Capped && time.Now().Before(waitUntil) {
				if !k.step() {
					return
				}
			}
			if pending() {
				c.Discard("stalled reads did not return after cancel")
				return
			}
			c.Probe("adversarial_reads")
			c.Probe("adversarial_reads_with_ro_pool_exhausted")
		case "mixed":
			bb, _ := json.Marshal(texts)
			if !k.do(fmt.Sprintf("mixed %d %s n%d x%d", oi, op.Level, tgt.Idx, len(texts)), 40*time.Second, func() {
				w := tgt.HTTPDo("POST", c17Target("request", op.Level, false), "application/json", bb, "", "")
				code, body = w.Code, w.Body.String()
			}) {
				if !c.Failed() {
					c.Discard("request-did-not-return")
				}
				return
			}
			c.Probe("mixed_requests")
			if !k.applyClassified(ref, tgt, texts, code, body) {
				return
			}
		}
		if c.Failed() || c.Res.Verdict == core.Discarded {
			return
		}
		c.Log.Add("%d op %d %s -> %d", s.StepN, oi, op.K, code)
		if c.Replay {
			c.Log.AddUnhashed("    # %v -> %.300s", op.Texts, body)
		}
		if !k.afterStep(true) {
			return
		}
		if !k.settle(60 * time.Second) {
			if !c.Failed() {
				c.Discard("not-settled: " + s.StateDigest())
			}
			return
		}
		class := "read-modified-database" + k.stratum(false)
		if op.K == "mixed" || (op.K == "read" && op.Ep == "request") {
			class = "readonly-statement-modified-database" + k.stratum(true)
		} else if op.K == "write" {
			class = "state-mismatch-after-write" + k.stratum(false)
		}
		if !k.compareWithReference(ref, class, fmt.Sprintf("after op %d (%s %s level=%q on n%d) texts=%q", oi, op.K, op.Ep, op.Level, tgt.Idx, op.Texts)) {
			return
		}
		// an isolated node must be unchanged too (it cannot learn anything new)
		if k.iso != 0 && s.Nodes[k.iso].Up {
			if v := k.views[k.iso]; v != nil {
				l, err := c17Dump(k.dbPath(s.Nodes[k.iso]), s.Dir)
				if err == nil && l != v.logical {
					c.Violate("read-modified-database"+k.stratum(false), "after op %d: the database of isolated node n%d changed: %s", oi, k.iso, sim.FirstDiff(v.logical, l))
					return
				}
			}
		}
	}
	if c.Failed() || c.Res.Verdict == core.Discarded {
		return
	}
	if s.Capped {
		c.Res.Verdict = core.Capped
		return
	}
	c.ProbeN("logical_dumps_on_file_change", k.checks)
	c.Res.Trivial = c.Res.Probes["adversarial_reads"] == 0
	d, _ := c17DumpDB(ref)
	c.Sig(fmt.Sprint(len(d)))
}

// applyClassified applies to the reference those statements of a unified
// request that the store classifies read-write (the classification the
// property refers to), in order, when the request was executed.
func (k *c17Run) applyClassified(ref *sql.DB, tgt *node.Node, texts []string, code int, body string) bool {
	var top struct {
		Results []json.RawMessage `json:"results"`
		Error   string            `json:"error"`
	}
	parsed := json.Unmarshal([]byte(body), &top) == nil
	if code == 200 && parsed && top.Error != "" && !c17MaybeApplied(top.Error) {
		return true // refused as a whole before anything was proposed (disallowed pragma, stale read ...)
	}
	l := k.s.Leader()
	if l == nil {
		l = tgt
	}
	anyRW := false
	var rw []bool
	for _, t := range texts {
		st := &proto.Statement{Sql: t}
		rsql.Process([]*proto.Statement{st}, true, true)
		nRW, _ := l.Store.RORWCount(&proto.ExecuteQueryRequest{Request: &proto.Request{Statements: []*proto.Statement{st}}})
		rw = append(rw, nRW > 0)
		anyRW = anyRW || nRW > 0
	}
	if !anyRW {
		k.c.Probe("unified_requests_all_readonly")
		return true
	}
	return k.applyMaybe(ref, c17Definite(code, body), func() {
		conn, err := ref.Conn(context.Background())
		if err != nil {
			return
		}
		defer conn.Close()
		for i, t := range texts {
			if !rw[i] {
				k.c.Probe("statements_classified_readonly_in_writing_request")
				continue
			}
			k.c.Probe("statements_classified_readwrite")
			conn.ExecContext(context.Background(), t)
		}
	})
}

// c17Definite: the HTTP answer proves the request was executed (status 200, a
// result list, no top-level error).
func c17Definite(code int, body string) bool {
	var top struct {
		Results []json.RawMessage `json:"results"`
		Error   string            `json:"error"`
	}
	return code == 200 && json.Unmarshal([]byte(body), &top) == nil && top.Error == ""
}

// c17MaybeApplied: top-level errors after which the proposed entry may still
// commit (rqlite reports raft's ErrLeadershipLost as "not leader" too).
func c17MaybeApplied(e string) bool {
	return strings.Contains(e, "leader") || strings.Contains(e, "timeout") || strings.Contains(e, "timed out")
}

// applyMaybe applies a legitimate write to the reference. When the client did
// not get a definite answer, a barrier write is acknowledged first (after it,
// whatever could still commit has committed); then either the cluster still
// equals the reference (not applied) or the write is applied to the reference
// and the comparison that follows every operation must find them equal.
func (k *c17Run) applyMaybe(ref *sql.DB, definite bool, apply func()) bool {
	if definite {
		apply()
		return true
	}
	k.c.Probe("writes_with_unknown_outcome")
	nop := []byte(`["DELETE FROM t1 WHERE id = -1"]`)
	acked := false
	for attempt := 0; attempt < 20 && !acked; attempt++ {
		l := k.s.Leader()
		if l == nil || l.Idx == k.iso {
			if !k.runFor(500 * time.Millisecond) {
				return false
			}
			continue
		}
		var code int
		var body string
		if !k.do("barrier", 30*time.Second, func() {
			w := l.HTTPDo("POST", "/db/execute?timeout=5s", "application/json", nop, "", "")
			code, body = w.Code, w.Body.String()
		}) {
			return false
		}
		acked = c17Definite(code, body)
		if !acked && !k.runFor(300*time.Millisecond) {
			return false
		}
	}
	if !acked || !k.settle(60*time.Second) {
		if !k.c.Failed() {
			k.c.Discard("no-barrier-write-after-unknown-outcome: " + k.s.StateDigest())
		}
		return false
	}
	want, err := c17DumpDB(ref)
	if err != nil {
		k.c.Discard("oracle-db dump: " + err.Error())
		return false
	}
	for _, n := range k.s.Nodes[1:] {
		if n.Up && n.Idx != k.iso {
			got, err := c17Dump(k.dbPath(n), k.s.Dir)
			if err != nil {
				k.c.Discard("dump-failed: " + err.Error())
				return false
			}
			if got == want {
				k.c.Probe("unknown_outcome_not_applied")
				return true
			}
			break
		}
	}
	k.c.Probe("unknown_outcome_applied")
	apply()
	return true
}

func init() {
	core.Register(&core.Prop{ID: "C17", Bubble: true, Gen: c17Gen, Run: c17RunFn})
}
