package props

import (
	"context"
	"encoding/json"
	"errors"
	"expvar"
	"fmt"
	"os"
	"path/filepath"
	"regexp"
	"sort"
	"strings"
	"sync"
	"time"

	"github.com/rqlite/rqlite/v10/cdc"
	"github.com/rqlite/rqlite/v10/command"
	"github.com/rqlite/rqlite/v10/command/proto"
	"github.com/rqlite/rqlite/v10/verifx"
	"verifsim/core"
	"verifsim/node"
	"verifsim/sim"
)

// C25: CDC delivers every committed change at least once, labelled with its log
// index, in non-decreasing index order within a leader's tenure - across
// endpoint outages, leader changes, restarts, snapshots, loads and installs.
//
// Three real nodes, each with the real cdc.Service (batcher, FIFO on bbolt,
// leader/follower loops, high-watermark broadcast over the real cluster
// client/service) wired as cmd/rqlited/main.go createCDC does, delivering into
// a recording endpoint the scenario can take down. Ground truth is the
// committed log itself (every entry a node applies is reported by a hook),
// replayed after the run into a shadow SQLite database that yields the row
// changes per log index.

type c25Op struct {
	K      string    `json:"k"` // req outage restore stepdown isolate heal crash restart snapshot load run
	Client int       `json:"c,omitempty"`
	Node   int       `json:"n,omitempty"` // 0 = whoever leads
	Tx     bool      `json:"tx,omitempty"`
	Stmts  []cdcStmt `json:"st,omitempty"`
	Mode   string    `json:"mode,omitempty"` // outage: reject | acklost
	Ms     int       `json:"ms,omitempty"`
	Gap    int       `json:"gap,omitempty"`
	Seed   uint64    `json:"s,omitempty"`
}

type c25Scenario struct {
	Seed       uint64     `json:"seed"`
	Knobs      node.Knobs `json:"knobs"`
	Tick       float64    `json:"tick"`
	Filter     string     `json:"filter,omitempty"`
	IDsOnly    bool       `json:"ids_only,omitempty"`
	BatchSz    int        `json:"batch_sz"`
	BatchDelay int        `json:"batch_delay_ms"`
	HWMMs      int        `json:"hwm_ms"`
	BackoffMs  int        `json:"backoff_ms"`
	ExpBackoff bool       `json:"exp_backoff,omitempty"`
	NoFault    bool       `json:"no_fault,omitempty"`
	Ops        []c25Op    `json:"ops"`
}

func c25Gen(r *core.Rand, tier string) any {
	sc := &c25Scenario{Seed: r.Uint64()}
	sc.Tick = []float64{0.02, 0.08, 0.2}[r.Intn(3)]
	// mostly timeouts under which leadership is stable unless a fault is injected;
	// one run in five uses tight ones (leadership changes on its own all the time)
	hb := r.Range(6, 15)
	if r.Bool(0.2) {
		hb = r.Range(2, 4)
	}
	sc.Knobs = node.Knobs{
		HeartbeatTimeout: time.Duration(hb) * 100 * time.Millisecond,
		ApplyTimeout:     time.Duration(r.Range(2, 5)) * time.Second,
	}
	sc.Knobs.ElectionTimeout = sc.Knobs.HeartbeatTimeout
	sc.Knobs.LeaderLeaseTimeout = sc.Knobs.HeartbeatTimeout / 2
	if r.Bool(0.6) {
		sc.Knobs.SnapshotThreshold = uint64(r.Range(3, 12))
		sc.Knobs.SnapshotInterval = time.Duration(r.Range(1, 4)) * time.Second
	}
	if r.Bool(0.3) {
		sc.Filter = cdcFilters[r.Intn(len(cdcFilters))]
	}
	sc.IDsOnly = r.Bool(0.15)
	sc.BatchSz = []int{1, 2, 3, 5, 10}[r.Intn(5)]
	sc.BatchDelay = []int{20, 50, 100, 200, 400}[r.Intn(5)]
	sc.HWMMs = []int{200, 500, 1000, 2000}[r.Intn(4)]
	sc.BackoffMs = []int{50, 100, 300, 1000}[r.Intn(4)]
	sc.ExpBackoff = r.Bool(0.3)
	sc.NoFault = r.Bool(0.15)
	en := map[string]bool{}
	for _, k := range []string{"outage", "stepdown", "isolate", "crash", "snapshot", "load"} {
		en[k] = !sc.NoFault && r.Bool(0.6)
	}
	g := cdcNewGenState(r)
	if !sc.NoFault && r.Bool(0.25) {
		// directed stratum "return": the leader L is retrying a batch against a dead
		// endpoint when it loses leadership (the process lives on); the endpoint comes
		// back, the new leader delivers that batch and its high-watermark broadcast
		// reaches L; leadership returns to L; more writes. L's leader loop must pick
		// up where the cluster is, not where it stopped.
		sc.Knobs.SnapshotThreshold = 0 // no log truncation: nobody is restored from a snapshot here
		sc.Knobs.SnapshotInterval = 0
		add := func(op c25Op) { op.Gap = r.Intn(8); sc.Ops = append(sc.Ops, op) }
		plain := func(lo, hi int) { // single-statement requests: one commit per log entry
			for i := r.Range(lo, hi); i > 0; i-- {
				var st cdcStmt
				for {
					st = g.stmt()
					if strings.HasPrefix(st.Q, "INSERT INTO") && !strings.Contains(st.Q, "), (") {
						break // a one-row INSERT always changes a row and cannot fail half-way
					}
				}
				add(c25Op{K: "req", Client: r.Intn(2), Node: r.Intn(4), Stmts: []cdcStmt{st}})
			}
		}
		mixed := func(lo, hi int) {
			for i := r.Range(lo, hi); i > 0; i-- {
				st, tx := g.request()
				add(c25Op{K: "req", Client: r.Intn(2), Node: r.Intn(4), Tx: tx, Stmts: st})
			}
		}
		wait := func(lo, hi int) { add(c25Op{K: "run", Ms: r.Range(lo, hi)}) }
		mixed(0, 2)
		plain(1, 2)
		wait(300, 2*sc.HWMMs+500)
		add(c25Op{K: "mark"}) // remember who leads now
		add(c25Op{K: "outage", Mode: []string{"reject", "reject", "acklost"}[r.Intn(3)]})
		plain(1, 2)
		wait(sc.BatchDelay+50, sc.BatchDelay+3*sc.BackoffMs+200) // the leader is retrying now
		cut := r.Bool(0.4)
		if cut {
			add(c25Op{K: "isolate", Node: 0})
			wait(2000, 4500) // lease expires, somebody else is elected
		} else {
			add(c25Op{K: "stepdown"})
			wait(300, 1500)
		}
		if r.Bool(0.3) {
			plain(1, 1)
		}
		add(c25Op{K: "restore"})
		if cut {
			wait(200, 1500)
			add(c25Op{K: "heal"})
		}
		wait(2*sc.HWMMs+2200, 2*sc.HWMMs+5000) // delivery by the new leader + its broadcast
		add(c25Op{K: "stepdown", Node: -2})    // leadership back to the marked node
		wait(800, 2500)
		plain(2, 4)
		mixed(0, 2)
		wait(500, 2000)
		return sc
	}
	if !sc.NoFault && r.Bool(0.25) {
		// directed stratum: a follower falls behind while the endpoint is down, is
		// caught up by a snapshot install after the leader truncated its log, and
		// then takes over leadership.
		sc.Knobs.SnapshotThreshold = uint64(r.Range(3, 5))
		sc.Knobs.SnapshotInterval = time.Second
		add := func(op c25Op) { op.Gap = r.Intn(10); sc.Ops = append(sc.Ops, op) }
		req := func() {
			st, tx := g.request()
			add(c25Op{K: "req", Client: r.Intn(2), Node: 0, Tx: tx, Stmts: st})
		}
		for i := r.Range(1, 3); i > 0; i-- {
			req()
		}
		add(c25Op{K: "run", Ms: r.Range(200, 1500)})
		if r.Bool(0.8) {
			add(c25Op{K: "outage", Mode: []string{"reject", "acklost"}[r.Intn(2)]})
		}
		add(c25Op{K: "isolate", Node: -1})
		for i := r.Range(6, 14); i > 0; i-- {
			req()
			if r.Bool(0.3) {
				add(c25Op{K: "run", Ms: r.Range(300, 1500)})
			}
		}
		add(c25Op{K: "snapshot", Node: 0})
		add(c25Op{K: "run", Ms: r.Range(1000, 3000)})
		add(c25Op{K: "heal"})
		add(c25Op{K: "run", Ms: r.Range(1500, 4000)})
		if r.Bool(0.8) {
			add(c25Op{K: "stepdown", Node: -1})
			add(c25Op{K: "run", Ms: r.Range(500, 2000)})
		}
		for i := r.Range(0, 3); i > 0; i-- {
			req()
		}
		add(c25Op{K: "restore"})
		for i := r.Range(0, 3); i > 0; i-- {
			req()
		}
		return sc
	}
	if !sc.NoFault && r.Bool(0.35) {
		// directed stratum: leadership moves (once or twice) while the endpoint is
		// down and undelivered changes sit in the FIFOs.
		add := func(op c25Op) { op.Gap = r.Intn(10); sc.Ops = append(sc.Ops, op) }
		reqs := func(lo, hi int) {
			for i := r.Range(lo, hi); i > 0; i-- {
				st, tx := g.request()
				add(c25Op{K: "req", Client: r.Intn(2), Node: r.Intn(4), Tx: tx, Stmts: st})
				if r.Bool(0.4) {
					add(c25Op{K: "run", Ms: r.Range(100, 2500)})
				}
			}
		}
		change := func() {
			switch r.Intn(4) {
			case 0:
				add(c25Op{K: "stepdown"})
			case 1:
				add(c25Op{K: "isolate", Node: 0})
				add(c25Op{K: "run", Ms: r.Range(1500, 4000)})
				reqs(0, 2)
				add(c25Op{K: "heal"})
			case 2:
				add(c25Op{K: "crash", Node: 0})
				add(c25Op{K: "run", Ms: r.Range(1500, 4000)})
				reqs(0, 2)
				add(c25Op{K: "restart"})
			default:
				add(c25Op{K: "crash", Node: r.Range(1, 3)})
				add(c25Op{K: "run", Ms: r.Range(200, 2000)})
				add(c25Op{K: "restart"})
			}
			add(c25Op{K: "run", Ms: r.Range(500, 3000)})
		}
		reqs(1, 4)
		if r.Bool(0.5) { // otherwise the outage begins before the next high-watermark broadcast
			add(c25Op{K: "run", Ms: r.Range(200, 2500)})
		}
		add(c25Op{K: "outage", Mode: []string{"reject", "reject", "acklost"}[r.Intn(3)]})
		reqs(1, 5)
		change()
		reqs(0, 3)
		if r.Bool(0.5) {
			change()
			reqs(0, 2)
		}
		if r.Bool(0.3) {
			add(c25Op{K: "snapshot", Node: r.Intn(4)})
		}
		add(c25Op{K: "restore"})
		reqs(0, 3)
		return sc
	}
	nops := r.Range(15, 45)
	nreq, nout, nlead, ncrash := 0, 0, 0, 0
	down, parted, out := false, false, false
	for i := 0; i < nops; i++ {
		x := r.Intn(100)
		add := func(op c25Op) { op.Gap = r.Intn(15); sc.Ops = append(sc.Ops, op) }
		switch {
		case x < 55 || len(sc.Ops) < 2:
			if nreq >= 40 {
				continue
			}
			st, tx := g.request()
			nreq++
			add(c25Op{K: "req", Client: r.Intn(2), Node: r.Intn(4), Tx: tx, Stmts: st})
		case x < 63:
			if en["outage"] && !out && nout < 4 {
				nout++
				out = true
				mode := "reject"
				if r.Bool(0.35) {
					mode = "acklost"
				}
				add(c25Op{K: "outage", Mode: mode})
			}
		case x < 70:
			if out {
				out = false
				add(c25Op{K: "restore"})
			}
		case x < 74:
			if en["stepdown"] && nlead < 2 {
				nlead++
				add(c25Op{K: "stepdown"})
			}
		case x < 78:
			if en["isolate"] && !parted && nlead < 2 {
				nlead++
				parted = true
				add(c25Op{K: "isolate", Node: r.Intn(4)})
			}
		case x < 83:
			if parted {
				parted = false
				add(c25Op{K: "heal"})
			}
		case x < 86:
			if en["crash"] && !down && ncrash < 1 {
				ncrash++
				down = true
				add(c25Op{K: "crash", Node: r.Intn(4)})
			}
		case x < 90:
			if down {
				down = false
				add(c25Op{K: "restart"})
			}
		case x < 93:
			if en["snapshot"] {
				add(c25Op{K: "snapshot", Node: r.Intn(4)})
			}
		case x < 95:
			if en["load"] {
				add(c25Op{K: "load", Seed: uint64(r.Intn(1 << 20))})
				g.ids = map[string][]int64{"items": {100, 103, 106}}
				g.nextID = map[string]int64{"items": 120, "logs": 4, "seqd": 1}
			}
		default:
			add(c25Op{K: "run", Ms: r.Range(50, 3000)})
		}
		if n := len(sc.Ops); n > 0 {
			if k := sc.Ops[n-1].K; k != "req" && k != "run" && r.Bool(0.5) {
				sc.Ops = append(sc.Ops, c25Op{K: "run", Ms: r.Range(200, 2500)})
			}
		}
	}
	return sc
}

// ---------------------------------------------------------------- recording endpoint

type c25Delivery struct {
	Seq    int
	Node   string
	Inst   int  // which start of that node
	Tenure int  // which leadership period of that instance
	Acked  bool // the service was told the delivery succeeded
	Step   int
	Msgs   []cdcDMsg
}

type c25Endpoint struct {
	mu       sync.Mutex
	mode     string // "" up | reject | acklost
	recs     []*c25Delivery
	rejected int
	step     func() int
}

// c25Sink is the Sink of one service instance.
type c25Sink struct {
	ep     *c25Endpoint
	node   string
	inst   int
	mu     sync.Mutex
	dead   bool // the process this sink belongs to has crashed or stopped
	tenure int
}

func (k *c25Sink) Write(p []byte) (int, error) {
	k.mu.Lock()
	dead, tenure := k.dead, k.tenure
	k.mu.Unlock()
	if dead {
		return 0, errors.New("sink of a dead process")
	}
	ep := k.ep
	ep.mu.Lock()
	defer ep.mu.Unlock()
	if ep.mode == "reject" {
		ep.rejected++
		return 0, errors.New("endpoint unreachable")
	}
	_, msgs, err := cdcDecodeEnvelope(p)
	if err != nil {
		// the endpoint got something that is not a CDC envelope: keep it visible
		msgs = []cdcDMsg{{Index: ^uint64(0), Events: []cdcXEvent{{Op: "UNPARSABLE", Err: err.Error()}}}}
	}
	d := &c25Delivery{Seq: len(ep.recs), Node: k.node, Inst: k.inst, Tenure: tenure, Acked: ep.mode == "", Step: ep.step(), Msgs: msgs}
	ep.recs = append(ep.recs, d)
	if !d.Acked {
		return 0, errors.New("endpoint timed out after receiving the request")
	}
	return len(p), nil
}

func (k *c25Sink) Close() error   { return nil }
func (k *c25Sink) String() string { return "recording-endpoint" }

func c25DroppedHandoff() int64 {
	if m, ok := expvar.Get("db").(*expvar.Map); ok {
		if v, ok := m.Get("dropped_cdc_events").(*expvar.Int); ok {
			return v.Value()
		}
	}
	return 0
}

func c25StoreStat(name string) int64 {
	if m, ok := expvar.Get("store").(*expvar.Map); ok {
		if v, ok := m.Get(name).(*expvar.Int); ok {
			return v.Value()
		}
	}
	return 0
}

// ---------------------------------------------------------------- run

func c25Run(c *core.Ctx, raw json.RawMessage) {
	var sc c25Scenario
	if err := json.Unmarshal(raw, &sc); err != nil {
		panic(err)
	}
	c.Rng = core.NewRand(sc.Seed)
	if sc.BatchSz <= 0 {
		sc.BatchSz = 10
	}
	s := sim.New(c)
	s.TickProb = sc.Tick

	// ground truth: every log entry any node applies
	var amu sync.Mutex
	applied := map[uint64]string{}
	appliedBy := map[uint64]map[string]bool{} // index -> nodes that applied it from their log
	conflict := ""
	// A leader loop that goes round without ever blocking would freeze the
	// bubble (one P, no preemption). The yield point at the top of the loop lets
	// the harness notice that (thousands of iterations at one simulated instant)
	// and make every further such iteration cost simulated time instead, which is
	// what a busy loop does in reality; the loop keeps its own behaviour (it still
	// reacts to stop), and whatever it fails to deliver is the oracle's business.
	var ymu sync.Mutex
	var yLast time.Time
	yCount, spinning := 0, false
	yield := func(point string) {
		if point != "cdc.leader.loop" {
			return
		}
		now := time.Now()
		ymu.Lock()
		if now.Equal(yLast) {
			yCount++
		} else {
			yLast, yCount = now, 0
		}
		slow := yCount > 2000 || (spinning && yCount > 0)
		if yCount > 2000 {
			spinning = true
		}
		ymu.Unlock()
		if slow {
			time.Sleep(20 * time.Millisecond)
		}
	}
	verifx.InstallHooks(nil, yield, func(point string, v int64) {
		if !strings.HasPrefix(point, "store.fsm.apply ") {
			return
		}
		rest := point[len("store.fsm.apply "):]
		sp := strings.IndexByte(rest, ' ')
		if sp < 0 {
			return
		}
		data := rest[sp+1:]
		amu.Lock()
		if old, ok := applied[uint64(v)]; ok && old != data && conflict == "" {
			conflict = fmt.Sprintf("index %d applied with different contents on %s", v, rest[:sp])
		}
		applied[uint64(v)] = data
		if appliedBy[uint64(v)] == nil {
			appliedBy[uint64(v)] = map[string]bool{}
		}
		appliedBy[uint64(v)][rest[:sp]] = true
		amu.Unlock()
	}, nil, nil)
	defer verifx.ResetHooks()
	dropped0 := c25DroppedHandoff()
	restores0 := c25StoreStat("num_restores")

	ep := &c25Endpoint{step: func() int { return s.StepN }}
	var stops []chan struct{}
	svcs := map[int]*cdc.Service{}
	sinks := map[int]*c25Sink{}
	var lastErr error
	wire := func(n *node.Node) {
		n.Extra = func(n *node.Node) error {
			cfgPath := filepath.Join(c.Dir, "cdc-"+n.ID+".json")
			cfg := map[string]any{
				"endpoint":                "http://10.9.9.9:9999/cdc",
				"row_ids_only":            sc.IDsOnly,
				"max_batch_size":          sc.BatchSz,
				"max_batch_delay":         time.Duration(sc.BatchDelay) * time.Millisecond,
				"high_watermark_interval": time.Duration(sc.HWMMs) * time.Millisecond,
				"transmit_min_backoff":    time.Duration(sc.BackoffMs) * time.Millisecond,
				"transmit_max_backoff":    2 * time.Second,
			}
			if sc.Filter != "" {
				cfg["table_filter"] = sc.Filter
			}
			if sc.ExpBackoff {
				cfg["transmit_retry_policy"] = int(cdc.ExponentialRetryPolicy)
			}
			b, _ := json.Marshal(cfg)
			if err := os.WriteFile(cfgPath, b, 0o644); err != nil {
				return err
			}
			// from here on: what createCDC in cmd/rqlited/main.go does
			cdcCfg, err := cdc.NewConfig(cfgPath)
			if err != nil {
				lastErr = err
				return err
			}
			cl := cdc.NewCDCCluster(n.Store, n.Svc, n.Cli)
			svc, err := cdc.NewService(n.ID, n.Dir, cl, cdcCfg)
			if err != nil {
				lastErr = err
				return err
			}
			sink := &c25Sink{ep: ep, node: n.ID, inst: n.Starts + 1}
			svc.SetSink(sink)
			// the harness learns about leadership changes exactly as the service does
			lc := make(chan bool, 64)
			quit := make(chan struct{})
			n.Store.RegisterLeaderChange(lc)
			go func() {
				was := false
				for {
					select {
					case now := <-lc:
						if now && !was {
							sink.mu.Lock()
							sink.tenure++
							sink.mu.Unlock()
						}
						was = now
					case <-quit:
						return
					}
				}
			}()
			if err := svc.Start(); err != nil {
				lastErr = err
				return err
			}
			var re *regexp.Regexp
			if cdcCfg.TableFilter != nil {
				re = cdcCfg.TableFilter.Regexp
			}
			if err := n.Store.EnableCDC(svc.C(), re, cdcCfg.RowIDsOnly); err != nil {
				lastErr = err
				return err
			}
			svcs[n.Idx], sinks[n.Idx] = svc, sink
			n.OnStop = func(n *node.Node) {
				sink.mu.Lock()
				sink.dead = true
				sink.mu.Unlock()
				done := make(chan struct{})
				stops = append(stops, done)
				go func() {
					svc.Stop()
					close(quit)
					close(done)
				}()
			}
			return nil
		}
	}
	stopsDone := func() bool {
		for _, d := range stops {
			select {
			case <-d:
			default:
				return false
			}
		}
		return true
	}
	defer func() {
		s.Shutdown()
		s.RunUntil(stopsDone, 120*time.Second)
	}()

	for i := 1; i <= 3; i++ {
		wire(s.AddNode(sc.Knobs))
	}
	if err := s.Boot(3, sc.Knobs, nil); err != nil {
		c.Discard(fmt.Sprintf("boot-failed: %v (%v)", err, lastErr))
		return
	}
	var schema []cdcStmt
	for _, q := range cdcSchema {
		schema = append(schema, cdcStmt{Q: q})
	}
	okSchema := false
	s.Do("schema", 60*time.Second, func() {
		if l := s.Leader(); l != nil {
			_, _, err := l.Store.Execute(context.Background(), &proto.ExecuteRequest{Request: cdcRequest(schema, false)})
			okSchema = err == nil
		}
	})
	if !okSchema {
		c.Discard("schema-failed")
		return
	}

	busy := map[int]*sim.Task{}
	downNode, lastIso, marked := 0, 0, 0
	opTimeout := 8 * time.Second
	nAcked, nUnknown := 0, 0
	for _, op := range sc.Ops {
		if s.Capped || c.Failed() {
			break
		}
		switch op.K {
		case "req":
			if t := busy[op.Client]; t != nil && !t.Finished {
				s.Await(t, 60*time.Second)
				if !t.Finished {
					continue
				}
			}
			n := s.Leader()
			if op.Node != 0 {
				n = s.Nodes[op.Node]
			}
			if n == nil || !n.Up {
				continue
			}
			er := &proto.ExecuteRequest{Request: cdcRequest(op.Stmts, op.Tx)}
			busy[op.Client] = s.Go(fmt.Sprintf("req c%d n%d tx=%v stmts=%d", op.Client, n.Idx, op.Tx, len(op.Stmts)), func() {
				_, _, _, err := n.Proxy.Execute(context.Background(), er, nil, opTimeout, 0, false)
				if err == nil {
					nAcked++
				} else {
					nUnknown++
				}
			})
		case "mark":
			if l := s.Leader(); l != nil {
				marked = l.Idx
				c.Log.Add("%d mark leader n%d", s.StepN, marked)
			}
		case "outage":
			ep.mu.Lock()
			ep.mode = op.Mode
			ep.mu.Unlock()
			c.Fault("endpoint-outage-" + op.Mode)
			c.Log.Add("%d fault endpoint outage %s", s.StepN, op.Mode)
		case "restore":
			ep.mu.Lock()
			ep.mode = ""
			ep.mu.Unlock()
			c.Log.Add("%d endpoint restored", s.StepN)
		case "stepdown":
			if l := s.Leader(); l != nil {
				to := ""
				if op.Node == -1 && lastIso != 0 && lastIso != l.Idx && s.Nodes[lastIso].Up {
					to = s.Nodes[lastIso].ID // hand leadership to the node that was cut off
				}
				if op.Node == -2 {
					if marked == 0 || !s.Nodes[marked].Up {
						continue
					}
					if marked == l.Idx {
						c.Probe("marked_leader_already_back")
						continue
					}
					to = s.Nodes[marked].ID // leadership back to the node that led at "mark"
					c.Probe("leadership_handed_back")
				}
				c.Fault("stepdown")
				c.Log.Add("%d fault stepdown n%d to %q", s.StepN, l.Idx, to)
				s.Go("stepdown", func() { l.Store.Stepdown(true, to) })
			}
		case "isolate":
			tgt := op.Node
			if tgt == 0 {
				l := s.Leader()
				if l == nil {
					continue
				}
				tgt = l.Idx
				c.Probe("isolate_leader")
			}
			if tgt == -1 { // a follower
				l := s.Leader()
				if l == nil {
					continue
				}
				tgt = l.Idx%3 + 1
			}
			lastIso = tgt
			var rest []string
			for i := 1; i <= 3; i++ {
				if i != tgt {
					rest = append(rest, s.Nodes[i].HostName)
				}
			}
			s.Net.Heal()
			s.Net.Partition([]string{s.Nodes[tgt].HostName}, rest)
			c.Fault("isolate")
			c.Log.Add("%d fault isolate n%d", s.StepN, tgt)
		case "heal":
			s.Net.Heal()
			c.Log.Add("%d heal", s.StepN)
		case "crash":
			tgt := op.Node
			if tgt == 0 {
				l := s.Leader()
				if l == nil {
					continue
				}
				tgt = l.Idx
				c.Probe("crash_leader")
			}
			if downNode != 0 || !s.Nodes[tgt].Up {
				continue
			}
			c.Log.Add("%d fault crash n%d", s.StepN, tgt)
			if err := s.Crash(tgt); err != nil {
				c.Discard("crash-failed: " + err.Error())
				return
			}
			downNode = tgt
		case "restart":
			if downNode == 0 {
				continue
			}
			s.RunUntil(stopsDone, 120*time.Second)
			c.Log.Add("%d restart n%d", s.StepN, downNode)
			if err := s.Restart(downNode); err != nil {
				c.Violate("restart-failed", "node %d failed to restart after a crash: %v (%v)", downNode, err, lastErr)
				return
			}
			downNode = 0
		case "snapshot":
			n := s.Leader()
			if op.Node != 0 {
				n = s.Nodes[op.Node]
			}
			if n == nil || !n.Up {
				continue
			}
			c.Log.Add("%d snapshot n%d", s.StepN, n.Idx)
			s.Go("snapshot", func() {
				if n.Store.Snapshot(0) == nil {
					c.Probe("explicit_snapshots")
				}
			})
		case "load":
			l := s.Leader()
			if l == nil {
				continue
			}
			img, err := cdcLoadImage(c.Dir, op.Seed)
			if err != nil {
				panic(err)
			}
			c.Log.Add("%d load via n%d", s.StepN, l.Idx)
			s.Go("load", func() {
				if l.Store.Load(context.Background(), &proto.LoadRequest{Data: img}) == nil {
					c.Probe("loads_acked")
				}
			})
		case "run":
			s.RunFor(time.Duration(op.Ms) * time.Millisecond)
		}
		for i := 0; i < op.Gap && !s.Capped; i++ {
			s.Step()
		}
	}
	if c.Failed() {
		return
	}

	// ---- faults stop: heal, restore the endpoint, bring every node back
	s.Net.Heal()
	ep.mu.Lock()
	ep.mode = ""
	ep.mu.Unlock()
	c.Log.Add("%d faults stop", s.StepN)
	if downNode != 0 {
		s.RunUntil(stopsDone, 120*time.Second)
		if err := s.Restart(downNode); err != nil {
			c.Violate("restart-failed", "node %d failed to restart after a crash: %v (%v)", downNode, err, lastErr)
			return
		}
	}
	s.Drain(90 * time.Second)
	settled := s.RunUntil(func() bool {
		l := s.Leader()
		if l == nil {
			return false
		}
		ci, _ := l.Store.CommitIndex()
		for _, n := range s.Nodes[1:] {
			if !n.Up || n.Store.AppliedIndex() < ci {
				return false
			}
		}
		return true
	}, 120*time.Second)
	if s.Capped {
		c.Res.Verdict = core.Capped
		return
	}
	if !settled {
		c.Discard("cluster-did-not-settle") // availability is other properties' business
		return
	}
	if d := c25DroppedHandoff() - dropped0; d > 0 {
		c.Probe("handoff_channel_full")
		c.Discard("handoff-channel-full") // the documented drop, excluded by the property
		return
	}
	amu.Lock()
	if conflict != "" {
		amu.Unlock()
		c.Discard("replicas-disagree-on-log: " + conflict) // C01's business
		return
	}
	var idxs []uint64
	for k := range applied {
		idxs = append(idxs, k)
	}
	logData := make(map[uint64]string, len(applied))
	for k, v := range applied {
		logData[k] = v
	}
	amu.Unlock()
	sort.Slice(idxs, func(i, j int) bool { return idxs[i] < idxs[j] })

	// ---- shadow model: row changes per committed log index
	sh, err := cdcNewShadow(c.Dir, sc.Filter, sc.IDsOnly)
	if err != nil {
		panic(err)
	}
	defer sh.Close()
	type xGroup struct {
		Index  uint64
		Commit int // 1-based position among the commits of this entry that changed rows
		Failed int // statements of the same non-transactional request that failed before this commit
		Events []cdcXEvent
		marked bool
	}
	expected := map[uint64][]*xGroup{}
	var order []uint64
	nGroups, nMultiEntries, nLoads := 0, 0, 0
	for _, k := range idxs {
		var cmd proto.Command
		if err := command.Unmarshal([]byte(logData[k]), &cmd); err != nil {
			panic(fmt.Sprintf("log entry %d: %v", k, err))
		}
		switch cmd.Type {
		case proto.Command_COMMAND_TYPE_EXECUTE:
			var er proto.ExecuteRequest
			if err := command.UnmarshalSubCommand(&cmd, &er); err != nil {
				panic(err)
			}
			groups, _, err := sh.Apply(er.Request)
			if err != nil {
				panic(err)
			}
			for i, g := range groups {
				expected[k] = append(expected[k], &xGroup{Index: k, Commit: i + 1, Failed: g.FailedBefore, Events: g.Events})
				nGroups++
			}
			if len(groups) > 0 {
				order = append(order, k)
			}
			if len(groups) > 1 {
				nMultiEntries++
			}
		case proto.Command_COMMAND_TYPE_LOAD:
			var lr proto.LoadRequest
			if err := command.UnmarshalLoadRequest(cmd.SubCommand, &lr); err != nil {
				panic(err)
			}
			if err := sh.Load(lr.Data); err != nil {
				panic(err)
			}
			nLoads++
		}
	}

	// mark matches every delivered message against the groups of its index.
	cursor := 0
	mark := func() {
		ep.mu.Lock()
		recs := ep.recs
		ep.mu.Unlock()
		for ; cursor < len(recs); cursor++ {
			for _, m := range recs[cursor].Msgs {
				gs := expected[m.Index]
				if len(gs) == 0 {
					continue
				}
				// a message holds the changes of one commit (or of several consecutive
				// ones); extra events do not matter here (C27), missing ones do.
				for pass := 0; pass < 2; pass++ {
					hit := false
					rest := m.Events
					for _, g := range gs {
						if pass == 0 && g.marked {
							continue
						}
						if end, ok := c25SubseqEnd(g.Events, rest); ok {
							g.marked = true
							hit = true
							rest = rest[end:]
						}
					}
					if hit {
						break
					}
				}
			}
		}
	}
	allMarked := func() bool {
		mark()
		for _, k := range order {
			for _, g := range expected[k] {
				if !g.marked {
					return false
				}
			}
		}
		return true
	}

	// ---- liveness: with no more faults everything must arrive
	// (second and later commits of one entry travel with or right after the first
	// one, so they get a short grace period once every first commit has arrived)
	firstMarked := func() bool {
		mark()
		for _, k := range order {
			if g := expected[k][0]; !g.marked && g.Failed == 0 {
				return false
			}
		}
		return true
	}
	delivered := s.RunUntil(firstMarked, c25Wait)
	s.RunUntil(allMarked, 10*time.Second+time.Duration(sc.BatchDelay)*time.Millisecond)
	if s.Capped {
		c.Res.Verdict = core.Capped
		return
	}
	s.RunFor(time.Duration(2*sc.HWMMs) * time.Millisecond)
	mark()

	ep.mu.Lock()
	recs := ep.recs
	rejected := ep.rejected
	ep.mu.Unlock()
	nAck, nLost, nDup := 0, 0, 0
	seenIdx := map[uint64]int{}
	for _, d := range recs {
		if d.Acked {
			nAck++
		} else {
			nLost++
		}
		for _, m := range d.Msgs {
			seenIdx[m.Index]++
		}
		c.Log.Add("delivery %d from %s#%d tenure %d acked=%v step=%d: %s", d.Seq, d.Node, d.Inst, d.Tenure, d.Acked, d.Step, c25MsgSummary(d.Msgs))
	}
	for _, v := range seenIdx {
		if v > 1 {
			nDup++
		}
	}
	c.ProbeN("requests_acked", nAcked)
	c.ProbeN("requests_unknown_outcome", nUnknown)
	c.ProbeN("committed_entries_with_changes", len(order))
	c.ProbeN("commit_groups_expected", nGroups)
	c.ProbeN("multi_commit_entries", nMultiEntries)
	c.ProbeN("loads_committed", nLoads)
	ymu.Lock()
	spun := spinning
	ymu.Unlock()
	spinNote := ""
	if spun {
		c.Probe("leader_loop_spinning")
		spinNote = "; a cdc leader loop went round >2000 times at one simulated instant without blocking (busy loop)"
	}
	nGap := 0
	for _, k := range order {
		if len(appliedBy[k]) < 3 {
			nGap++
		}
	}
	c.ProbeN("entries_some_node_got_only_by_snapshot", nGap)
	c.ProbeN("snapshot_restores", int(c25StoreStat("num_restores")-restores0))
	c.ProbeN("deliveries_acked", nAck)
	c.ProbeN("deliveries_ack_lost", nLost)
	c.ProbeN("deliveries_rejected", rejected)
	c.ProbeN("indices_delivered_more_than_once", nDup)
	tenures := map[string]bool{}
	for _, d := range recs {
		tenures[fmt.Sprintf("%s#%d/%d", d.Node, d.Inst, d.Tenure)] = true
	}
	c.ProbeN("delivering_tenures", len(tenures))
	if len(tenures) > 1 {
		c.Probe("runs_with_delivery_by_2plus_tenures")
	}
	for i := 1; i <= 3; i++ {
		if sv := svcs[i]; sv != nil {
			c.ProbeN("endpoint_retries", int(sv.NumEndpointRetries()))
		}
	}
	c.Res.Trivial = nGroups == 0 || nAck == 0
	c.Sig(fmt.Sprintf("%d/%d/%d/%d/%s", nGroups, nAck, nLost, len(tenures), s.StateDigest()))

	// ---- verdicts. Order matters: the first violation recorded is the one
	// reported, and findings about the second and later commits of one log
	// entry (a defect already on record) must not hide anything else.
	where := func(g *xGroup) string {
		var found []string
		for _, d := range recs {
			for _, m := range d.Msgs {
				if m.Index != g.Index {
					// changes that the entry at m.Index made itself are not a mislabelled copy
					var own []cdcXEvent
					for _, og := range expected[m.Index] {
						own = append(own, og.Events...)
					}
					if _, isOwn := c25SubseqEnd(g.Events, own); isOwn {
						continue
					}
					if c25ContainsFull(g.Events, m.Events) {
						found = append(found, fmt.Sprintf("delivery %d (from %s) under index %d", d.Seq, d.Node, m.Index))
					}
				}
			}
		}
		return strings.Join(found, ", ")
	}
	type finding struct{ class, detail string }
	var first, gapF, laterF []finding
	for _, k := range order {
		for _, g := range expected[k] {
			if g.marked {
				continue
			}
			elsewhere := where(g)
			// "later": the entry had committed (or rolled back) row changes before this
			// commit - the shape the defect on record needs.
			later := g.Commit > 1 || g.Failed > 0
			pos := fmt.Sprintf("commit #%d of %d inside this entry", g.Commit, len(expected[k]))
			if g.Failed > 0 {
				pos += fmt.Sprintf(", after %d failed statement(s) of the same non-transactional request", g.Failed)
			}
			f := finding{}
			switch {
			case !later && len(appliedBy[k]) < 3:
				// some node never executed this entry (it received the result inside a
				// snapshot), so its CDC service never saw the change
				f = finding{"lost-change-not-captured-everywhere", fmt.Sprintf("log index %d changed rows [%s]; no delivery labelled %d contains them (waited %v simulated after the last fault); only %s applied this entry from the log, the other node(s) received it inside a snapshot", k, cdcIdentsOf(g.Events), k, c25Wait, c25Nodes(appliedBy[k]))}
			case elsewhere != "" && !later:
				f = finding{"mislabelled-index", fmt.Sprintf("log index %d changed rows [%s]; they were never delivered under index %d, only as %s", k, cdcIdentsOf(g.Events), k, elsewhere)}
			case elsewhere != "":
				f = finding{"mislabelled-later-commit", fmt.Sprintf("log index %d, %s, changed rows [%s]; they were never delivered under index %d, only as %s", k, pos, cdcIdentsOf(g.Events), k, elsewhere)}
			case !later:
				f = finding{"lost-change", fmt.Sprintf("log index %d changed rows [%s]; no delivery contains them (waited %v simulated after the last fault; %d deliveries in total, indices seen: %s)%s", k, cdcIdentsOf(g.Events), c25Wait, len(recs), c25Indices(seenIdx), spinNote)}
			default:
				f = finding{"lost-later-commit", fmt.Sprintf("log index %d, %s, changed rows [%s]; no delivery contains them (%d deliveries, indices seen: %s)", k, pos, cdcIdentsOf(g.Events), len(recs), c25Indices(seenIdx))}
			}
			switch {
			case f.class == "lost-change-not-captured-everywhere":
				gapF = append(gapF, f)
			case !later:
				first = append(first, f)
			default:
				laterF = append(laterF, f)
			}
		}
	}
	_ = delivered
	// order within a tenure (acknowledged deliveries; a repeated index is a
	// duplicate, which at-least-once allows)
	var orderF, orderZero []finding
	type tstate struct {
		max  uint64
		seen map[uint64]bool
	}
	ts := map[string]*tstate{}
	for _, d := range recs {
		if !d.Acked {
			continue
		}
		key := fmt.Sprintf("%s#%d/%d", d.Node, d.Inst, d.Tenure)
		st := ts[key]
		if st == nil {
			st = &tstate{seen: map[uint64]bool{}}
			ts[key] = st
		}
		for _, m := range d.Msgs {
			if m.Index < st.max && !st.seen[m.Index] {
				f := finding{"tenure-order", fmt.Sprintf("leader %s (start %d, tenure %d): delivery %d carries index %d for the first time in this tenure after index %d had been delivered", d.Node, d.Inst, d.Tenure, d.Seq, m.Index, st.max)}
				if m.Index == 0 {
					f.class = "tenure-order-zero-index"
					orderZero = append(orderZero, f)
				} else {
					orderF = append(orderF, f)
				}
			}
			st.seen[m.Index] = true
			if m.Index > st.max {
				st.max = m.Index
			}
		}
	}
	for _, l := range [][]finding{first, orderF, gapF, laterF, orderZero} {
		if len(l) > 0 {
			c.Violate(l[0].class, "%s", l[0].detail)
			return
		}
	}
}

// c25SubseqEnd reports whether the identities of want appear in order within got
// and, if so, the position in got just after the last match.
func c25SubseqEnd(want, got []cdcXEvent) (int, bool) {
	j := 0
	for i, g := range got {
		if j < len(want) && want[j].ident() == g.ident() {
			j++
			if j == len(want) {
				return i + 1, true
			}
		}
	}
	return 0, len(want) == 0
}

// c25ContainsFull reports whether want appears in order within got with full
// equality (identity and before/after images).
func c25ContainsFull(want, got []cdcXEvent) bool {
	j := 0
	for _, g := range got {
		if j < len(want) && want[j] == g {
			j++
		}
	}
	return len(want) > 0 && j == len(want)
}

func c25Nodes(m map[string]bool) string {
	var p []string
	for k := range m {
		p = append(p, k)
	}
	sort.Strings(p)
	return strings.Join(p, ",")
}

func c25MsgSummary(ms []cdcDMsg) string {
	var p []string
	for _, m := range ms {
		p = append(p, fmt.Sprintf("%d(%d ev)", m.Index, len(m.Events)))
	}
	return strings.Join(p, " ")
}

func c25Indices(m map[uint64]int) string {
	var ks []uint64
	for k := range m {
		ks = append(ks, k)
	}
	sort.Slice(ks, func(i, j int) bool { return ks[i] < ks[j] })
	var p []string
	for _, k := range ks {
		p = append(p, fmt.Sprint(k))
	}
	return strings.Join(p, ",")
}

func init() {
	core.Register(&core.Prop{ID: "C25", Bubble: true, Gen: c25Gen, Run: c25Run})
}

// c25Wait is how long (simulated) the oracle waits, after the last fault has
// been lifted and the cluster has settled, for every change to arrive. Retry
// back-off is at most 2 s, the high-watermark interval at most 2 s.
const c25Wait = 60 * time.Second
