package props

import (
	"database/sql"
	"encoding/hex"
	"fmt"
	"sort"
	"strings"
	"sync"

	sqlite3 "github.com/mattn/go-sqlite3"
)

// Shared helpers of the SQL properties (C01, C13, C14, C17): the harness's own
// SQLite connections (never rqlite's handles), canonical result/dump text.

const (
	sqlhPlainDriver = "verif-sql-plain"
	sqlhFixedDriver = "verif-sql-fixed"
	// The value every draw of the seeded stand-in for math/rand/v2 returns while
	// seeded.Fix(sqlhFixedDraw) is active: random() is rewritten to sqlhFixedRandInt and
	// every randomblob byte to sqlhFixedRandByte.
	sqlhFixedDraw     = uint64(0x1122334455667742)
	sqlhFixedRandInt  = int64(sqlhFixedDraw &^ (1 << 63))
	sqlhFixedRandByte = byte(sqlhFixedDraw % 256)
)

var sqlhDriversOnce sync.Once

// sqlhRegisterDrivers registers two database/sql drivers over the linked SQLite:
// a plain one, and one whose random()/randomblob() are replaced by constant
// functions returning exactly the values the rewriter substitutes under
// seeded.Fix(sqlhFixedDraw). Evaluating an ORIGINAL statement on the second driver
// gives the reference result "every non-deterministic call replaced by a
// concrete value, nothing else changed".
func sqlhRegisterDrivers() {
	sqlhDriversOnce.Do(func() {
		sql.Register(sqlhPlainDriver, &sqlite3.SQLiteDriver{})
		sql.Register(sqlhFixedDriver, &sqlite3.SQLiteDriver{ConnectHook: func(c *sqlite3.SQLiteConn) error {
			if err := c.RegisterFunc("random", func() int64 { return sqlhFixedRandInt }, false); err != nil {
				return err
			}
			return c.RegisterFunc("randomblob", func(n int64) []byte {
				if n < 1 {
					n = 1
				}
				b := make([]byte, n)
				for i := range b {
					b[i] = sqlhFixedRandByte
				}
				return b
			}, false)
		}})
	})
}

var sqlhMemDBSeq int

// sqlhOpenMemDB opens a private in-memory database with exactly one connection.
func sqlhOpenMemDB(driver string) (*sql.DB, error) {
	sqlhRegisterDrivers()
	sqlhMemDBSeq++
	db, err := sql.Open(driver, ":memory:")
	if err != nil {
		return nil, err
	}
	db.SetMaxOpenConns(1)
	db.SetMaxIdleConns(1)
	db.SetConnMaxLifetime(0)
	db.SetConnMaxIdleTime(0)
	if err := db.Ping(); err != nil {
		db.Close()
		return nil, err
	}
	return db, nil
}

type sqlhQueryer interface {
	Query(query string, args ...any) (*sql.Rows, error)
}

func sqlhCellText(v any) string {
	switch x := v.(type) {
	case nil:
		return "N"
	case int64:
		return fmt.Sprintf("I%d", x)
	case float64:
		return fmt.Sprintf("F%v", x)
	case []byte:
		return "B" + hex.EncodeToString(x)
	case string:
		return "T" + x
	case bool:
		if x {
			return "I1"
		}
		return "I0"
	default:
		return fmt.Sprintf("?%v", x)
	}
}

// sqlhRowsText drains rows into canonical lines "v|v|v" (typed cells).
func sqlhRowsText(r *sql.Rows) (cols []string, lines []string, err error) {
	defer r.Close()
	cols, err = r.Columns()
	if err != nil {
		return nil, nil, err
	}
	for r.Next() {
		vals := make([]any, len(cols))
		ptrs := make([]any, len(cols))
		for i := range vals {
			ptrs[i] = &vals[i]
		}
		if err := r.Scan(ptrs...); err != nil {
			return cols, lines, err
		}
		parts := make([]string, len(vals))
		for i, v := range vals {
			parts[i] = sqlhCellText(v)
		}
		lines = append(lines, strings.Join(parts, "|"))
	}
	return cols, lines, r.Err()
}

// sqlhDumpQ is the logical dump (same format as sim.DumpDB) through any queryer
// (a *sql.DB or an open *sql.Tx).
func sqlhDumpQ(q sqlhQueryer) (string, error) {
	var sb strings.Builder
	rows, err := q.Query(`SELECT type, name, tbl_name, COALESCE(sql,'') FROM sqlite_master WHERE name NOT LIKE 'sqlite_%' ORDER BY type, name`)
	if err != nil {
		return "", err
	}
	var tables []string
	for rows.Next() {
		var typ, name, tbl, sqlText string
		if err := rows.Scan(&typ, &name, &tbl, &sqlText); err != nil {
			rows.Close()
			return "", err
		}
		fmt.Fprintf(&sb, "S|%s|%s|%s|%s\n", typ, name, tbl, strings.Join(strings.Fields(sqlText), " "))
		if typ == "table" {
			tables = append(tables, name)
		}
	}
	rows.Close()
	sort.Strings(tables)
	for _, t := range tables {
		r, err := q.Query(fmt.Sprintf(`SELECT * FROM "%s"`, strings.ReplaceAll(t, `"`, `""`)))
		if err != nil {
			return "", fmt.Errorf("dump %s: %w", t, err)
		}
		cols, lines, err := sqlhRowsText(r)
		if err != nil {
			return "", err
		}
		sort.Strings(lines)
		fmt.Fprintf(&sb, "T|%s|%s|%d rows\n", t, strings.Join(cols, ","), len(lines))
		for _, l := range lines {
			sb.WriteString("R|" + t + "|" + l + "\n")
		}
	}
	return sb.String(), nil
}

// sqlhStripSQL removes string literals, quoted identifiers and comments from a SQL
// text (replacing each by a single blank-free placeholder) so that what remains
// are keywords, bare identifiers, numbers, operators and call syntax. A string
// literal becomes "§s" ("§snow" when its content is now in any case), a quoted
// identifier "§i".
func sqlhStripSQL(s string) string {
	var sb strings.Builder
	for i := 0; i < len(s); {
		ch := s[i]
		switch {
		case ch == '\'' || ch == '"' || ch == '`':
			q := ch
			i++
			start := i
			end := len(s)
			for i < len(s) {
				if s[i] == q {
					if i+1 < len(s) && s[i+1] == q {
						i += 2
						continue
					}
					end = i
					break
				}
				i++
			}
			i++
			if q == '\'' {
				sb.WriteString("§s")
				if strings.EqualFold(s[start:end], "now") {
					sb.WriteString("now")
				}
			} else {
				sb.WriteString("§i")
			}
		case ch == '[':
			for i < len(s) && s[i] != ']' {
				i++
			}
			i++
			sb.WriteString("§i")
		case ch == '-' && i+1 < len(s) && s[i+1] == '-':
			for i < len(s) && s[i] != '\n' {
				i++
			}
			sb.WriteByte(' ')
		case ch == '/' && i+1 < len(s) && s[i+1] == '*':
			i += 2
			for i+1 < len(s) && !(s[i] == '*' && s[i+1] == '/') {
				i++
			}
			i += 2
			sb.WriteByte(' ')
		default:
			sb.WriteByte(ch)
			i++
		}
	}
	return sb.String()
}
