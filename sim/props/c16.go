package props

import (
	"context"
	"encoding/json"
	"errors"
	"fmt"
	"strings"
	"testing/synctest"
	"time"

	"github.com/rqlite/rqlite/v10/command/proto"
	"github.com/rqlite/rqlite/v10/store"
	"github.com/rqlite/rqlite/v10/verifx"
	"verifsim/core"
	"verifsim/node"
	"verifsim/sim"
	"verifsim/simclock"
)

// C16: read consistency levels behave as documented.
//
// One run = a 3-4 node cluster (2-4 voters, optionally one non-voter) under a
// seeded schedule of writes (some left in flight), isolations, partitions,
// one-way blocks, heals, stepdowns, follower crashes/restarts, clock advances
// (small quanta and big jumps), and reads:
//
//   - "local" reads (none / weak / auto, every freshness/strict combination,
//     through Store.Query and Store.Request) are issued synchronously from the
//     driver at quiescent points - many of them at EVERY scheduler step of a
//     scan window, so that the instants between "entries received" and "entries
//     applied" and the exact freshness boundaries are hit. The oracle restates
//     the documented rule (independent code, fed with the state the node
//     reports at that very instant plus harness ground truth about isolation).
//   - linearizable reads run as tasks on any node; oracle: OK implies that the
//     node was not cut off from a quorum of voters for the whole read (harness
//     network ground truth) and that the result reflects every write acked
//     before the invocation.

type c16Op struct {
	Kind  string `json:"k"` // w wscan park scan lin isolate partition oneway heal run jump stepdown crash restart
	N     int    `json:"n,omitempty"`
	M     int    `json:"m,omitempty"`
	Group []int  `json:"g,omitempty"`
	Ms    int    `json:"ms,omitempty"`
	Req   bool   `json:"req,omitempty"` // read through Store.Request instead of Store.Query
}

type c16Scenario struct {
	Seed     uint64     `json:"seed"`
	Nodes    int        `json:"nodes"`
	NonVoter bool       `json:"non_voter"` // last node is a non-voter
	Knobs    node.Knobs `json:"knobs"`
	Tick     float64    `json:"tick"`
	Quant    int        `json:"quant_ms"`
	Ops      []c16Op    `json:"ops"`
}

func c16Gen(r *core.Rand, tier string) any {
	sc := &c16Scenario{Seed: r.Uint64()}
	sc.Nodes = r.Range(3, 4)
	sc.NonVoter = r.Bool(0.75)
	sc.Tick = []float64{0.05, 0.15, 0.3}[r.Intn(3)]
	sc.Quant = []int{5, 20, 60}[r.Intn(3)]
	hb := time.Duration(r.Range(2, 10)) * 100 * time.Millisecond
	sc.Knobs = node.Knobs{HeartbeatTimeout: hb, ElectionTimeout: hb, LeaderLeaseTimeout: hb / 2,
		ApplyTimeout: time.Duration(r.Range(2, 5)) * time.Second}
	if r.Bool(0.3) {
		sc.Knobs.SnapshotThreshold = uint64(r.Range(4, 12))
		sc.Knobs.SnapshotInterval = time.Duration(r.Range(1, 4)) * time.Second
	}
	nops := r.Range(15, 40)
	parted, crashed := false, false
	sc.Ops = append(sc.Ops, c16Op{Kind: "w", N: 2}, c16Op{Kind: "scan", N: 5})
	for i := 0; i < nops; i++ {
		x := r.Intn(100)
		switch {
		case x < 4:
			sc.Ops = append(sc.Ops, c16Op{Kind: "w", N: r.Range(1, 3)})
		case x < 10:
			// a committed write is held back right before it is applied on the leader
			// (N scheduler steps), linearizable reads are issued meanwhile
			sc.Ops = append(sc.Ops, c16Op{Kind: "park", N: r.Range(3, 60), M: r.Range(1, 3), Req: r.Bool(0.4)})
		case x < 30:
			sc.Ops = append(sc.Ops, c16Op{Kind: "wscan", N: r.Range(1, 4), M: r.Range(5, 40)})
		case x < 42:
			sc.Ops = append(sc.Ops, c16Op{Kind: "scan", N: r.Range(3, 30)})
		case x < 60:
			sc.Ops = append(sc.Ops, c16Op{Kind: "lin", N: r.Intn(sc.Nodes + 1), Req: r.Bool(0.4)})
		case x < 67:
			sc.Ops = append(sc.Ops, c16Op{Kind: "isolate", N: r.Intn(sc.Nodes + 1)})
			parted = true
		case x < 71:
			var g []int
			for n := 1; n <= sc.Nodes; n++ {
				if r.Bool(0.5) {
					g = append(g, n)
				}
			}
			if len(g) > 0 && len(g) < sc.Nodes {
				sc.Ops = append(sc.Ops, c16Op{Kind: "partition", Group: g})
				parted = true
			}
		case x < 74:
			sc.Ops = append(sc.Ops, c16Op{Kind: "oneway", N: 1 + r.Intn(sc.Nodes), M: 1 + r.Intn(sc.Nodes)})
			parted = true
		case x < 82:
			if parted {
				sc.Ops = append(sc.Ops, c16Op{Kind: "heal"})
				parted = false
			}
		case x < 88:
			sc.Ops = append(sc.Ops, c16Op{Kind: "run", Ms: r.Range(20, 3000)})
		case x < 91:
			sc.Ops = append(sc.Ops, c16Op{Kind: "jump", Ms: []int{300, 2000, 10000, 60000}[r.Intn(4)]})
		case x < 94:
			sc.Ops = append(sc.Ops, c16Op{Kind: "stepdown"})
		case x < 97:
			if !crashed {
				sc.Ops = append(sc.Ops, c16Op{Kind: "crash", N: r.Intn(8)})
				crashed = true
			} else {
				sc.Ops = append(sc.Ops, c16Op{Kind: "restart"})
				crashed = false
			}
		default:
			sc.Ops = append(sc.Ops, c16Op{Kind: "scan", N: r.Range(1, 5)})
		}
		// reads right after a fault are the interesting ones
		if k := sc.Ops[len(sc.Ops)-1].Kind; (k == "isolate" || k == "partition" || k == "oneway" || k == "heal" || k == "jump" || k == "restart") && r.Bool(0.7) {
			if r.Bool(0.5) {
				sc.Ops = append(sc.Ops, c16Op{Kind: "run", Ms: r.Range(20, 2500)})
			}
			sc.Ops = append(sc.Ops, c16Op{Kind: "scan", N: r.Range(2, 20)})
			if r.Bool(0.5) {
				sc.Ops = append(sc.Ops, c16Op{Kind: "lin", N: r.Intn(sc.Nodes + 1), Req: r.Bool(0.4)})
			}
		}
	}
	return sc
}

type c16Lin struct {
	node      int
	req       bool
	ackedAt   int
	held      int  // writes that were committed but held back before being applied when the read was invoked
	cutAt     bool // node could not reach a quorum of voters when the read was invoked
	nvAcks    bool // ... but voters plus NON-voters it could reach would have made up that number
	reachDesc string
	connEpoch int
	err       error
	val       int64
	okShape   bool
	task      *sim.Task
}

type c16State struct {
	c   *core.Ctx
	s   *sim.Sim
	sc  *c16Scenario
	rng *core.Rand // read-parameter choices (separate stream: the schedule does not depend on how many reads were made)

	voter     map[int]bool
	schemaIdx uint64
	invoked   int // writes started
	acked     int // writes acked (observed by the harness)
	connEpoch int // bumped whenever connectivity may have been ADDED (heal, restart)
	isoSince  map[int]time.Time
	isoLeader map[int]bool
	down      []int
	lins      []*c16Lin
	reads     int

	// holding a committed write back right before the leader applies it
	parkID    string // raft id of the node whose FSM goroutine is to be parked
	parkArmed bool
	parked    bool
	parkCh    chan struct{}
	parkIdx   uint64
	noteIdx   map[string]uint64 // raft id -> index of the entry fsmApply was last entered with
}

const c16Count = "SELECT COUNT(*) FROM t"

// On a node that has not yet applied the CREATE TABLE entry (e.g. right after a
// restart) local reads count rows of sqlite_master instead: a statement naming
// a missing table would be classified as a write by Store.Request, which is
// outside this property.

// leader that can actually commit: believes it is leader, reaches a quorum; highest term wins.
func (st *c16State) writableLeader() *node.Node {
	var best *node.Node
	var bt uint64
	for _, n := range st.s.Nodes[1:] {
		if !n.Up || !n.Store.IsLeader() || !opsQuorumReachable(st.s, n) {
			continue
		}
		if t := n.Store.VerifReadState().Term; best == nil || t > bt {
			best, bt = n, t
		}
	}
	return best
}

func (st *c16State) startWrite(l *node.Node) {
	st.invoked++
	v := st.invoked
	var ok bool
	t := st.s.Go(fmt.Sprintf("w n%d v%d", l.Idx, v), func() {
		er := &proto.ExecuteRequest{Request: &proto.Request{Statements: []*proto.Statement{{Sql: fmt.Sprintf("INSERT INTO t(v) VALUES(%d)", v)}}}}
		res, _, err := l.Store.Execute(context.Background(), er)
		ok = err == nil && len(res) == 1 && res[0].GetError() == "" && (res[0].GetE() == nil || res[0].GetE().Error == "")
	})
	t.OnDone = func() {
		if ok {
			st.acked++
			st.c.Probe("writes_acked")
		} else {
			st.c.Probe("writes_not_acked")
		}
	}
}

// ---------------------------------------------------------------- local reads

// doRead performs one read synchronously (levels none/weak/auto never wait).
func (st *c16State) doRead(n *node.Node, lvl proto.ConsistencyLevel, f time.Duration, strict, viaReq bool) (val int64, shapeOK bool, err error) {
	st.reads++
	sql := c16Count
	if n.Store.VerifReadState().FSMIndex < st.schemaIdx {
		sql = "SELECT COUNT(*) FROM sqlite_master WHERE name='no-such'"
		st.c.Probe("local_read_before_schema_applied")
	}
	if viaReq {
		eqr := &proto.ExecuteQueryRequest{Level: lvl, Freshness: int64(f), FreshnessStrict: strict,
			Request: &proto.Request{Statements: []*proto.Statement{{Sql: sql}}}}
		res, _, _, e := n.Store.Request(context.Background(), eqr)
		if e != nil {
			return 0, false, e
		}
		if len(res) != 1 || res[0].GetQ() == nil {
			return 0, false, nil
		}
		val, shapeOK = opsScalar([]*proto.QueryRows{res[0].GetQ()})
		return val, shapeOK, nil
	}
	rows, _, _, e := n.Store.Query(context.Background(), opsQueryReq(lvl, sql, f, strict, 0))
	if e != nil {
		return 0, false, e
	}
	val, shapeOK = opsScalar(rows)
	return val, shapeOK, nil
}

// c16Stale restates the documented rule for a 'none' read with a freshness
// bound, from the property text: refused when the node has not heard from the
// leader within the bound, or - strict mode - when it is behind and its last
// applied entry was appended more than the bound before it was applied. A node
// that is itself the leader is never behind its leader.
func c16Stale(rs store.VerifReadState, now time.Time, bound time.Duration, strict bool) (refused bool, why string) {
	if bound <= 0 || rs.Leader {
		return false, ""
	}
	if now.Sub(rs.LastContact) > bound {
		return true, "last-contact"
	}
	if !strict {
		return false, ""
	}
	behind := rs.FSMIndex != rs.CommandCommitIndex
	haveApplied := !rs.AppendedAtTime.IsZero()
	if behind && haveApplied && rs.FSMUpdateTime.Sub(rs.AppendedAtTime) > bound {
		return true, "strict-lag"
	}
	return false, ""
}

func (st *c16State) checkLocal(n *node.Node, lvl proto.ConsistencyLevel, f time.Duration, strict, viaReq bool) {
	c := st.c
	rs := n.Store.VerifReadState()
	now := time.Now()
	val, shapeOK, err := st.doRead(n, lvl, f, strict, viaReq)
	via := "query"
	if viaReq {
		via = "request"
	}
	desc := func() string {
		return fmt.Sprintf("n%d(voter=%v leader=%v) level=%v freshness=%s strict=%v via=%s: since-last-contact=%s fsm=%d cmd-commit=%d applied-minus-appended=%s appended-known=%v",
			n.Idx, st.voter[n.Idx], rs.Leader, lvl, f, strict, via, now.Sub(rs.LastContact), rs.FSMIndex, rs.CommandCommitIndex,
			rs.FSMUpdateTime.Sub(rs.AppendedAtTime), !rs.AppendedAtTime.IsZero())
	}
	// which rule applies
	eff := lvl
	if lvl == proto.ConsistencyLevel_AUTO {
		if st.voter[n.Idx] {
			eff = proto.ConsistencyLevel_WEAK
		} else {
			eff = proto.ConsistencyLevel_NONE
		}
	}
	class := "none-mismatch"
	if lvl == proto.ConsistencyLevel_AUTO {
		class = "auto-mismatch"
	} else if lvl == proto.ConsistencyLevel_WEAK {
		class = "weak-mismatch"
	}
	switch eff {
	case proto.ConsistencyLevel_WEAK:
		if rs.Leader {
			if err != nil {
				c.Violate(class, "read refused (%v) although the node believes it is leader: %s", err, desc())
				return
			}
			c.Probe(fmt.Sprintf("%v_served_on_leader", lvl))
			if !opsQuorumReachable(st.s, n) {
				c.Probe("weak_served_by_cut_off_leader")
			}
		} else {
			if err == nil {
				c.Violate(class, "read served (value %d) although the node does not believe it is leader: %s", val, desc())
				return
			}
			if !errors.Is(err, store.ErrNotLeader) {
				c.Violate(class, "read on non-leader failed with %v instead of not-leader: %s", err, desc())
				return
			}
			c.Probe(fmt.Sprintf("%v_refused_on_non_leader", lvl))
		}
	case proto.ConsistencyLevel_NONE:
		want, why := c16Stale(rs, now, f, strict)
		// harness ground truth, independent of what the node reports: a non-leader
		// that has been cut off from every other node for longer than the bound
		// cannot have heard from a leader within the bound.
		if t0, iso := st.isoSince[n.Idx]; iso && !rs.Leader && f > 0 && now.Sub(t0) > f {
			if err == nil {
				c.Violate(class, "read served although the node has been isolated from all nodes for %s: %s", now.Sub(t0), desc())
				return
			}
			c.Probe("none_refused_ground_truth_isolation")
		}
		if want {
			if err == nil {
				c.Violate(class, "read served (value %d) but the documented rule refuses it (%s): %s", val, why, desc())
				return
			}
			if !errors.Is(err, store.ErrStaleRead) {
				c.Violate(class, "read failed with %v instead of stale-read: %s", err, desc())
				return
			}
			c.Probe(fmt.Sprintf("%v_refused_%s", lvl, why))
		} else {
			if err != nil {
				c.Violate(class, "read refused (%v) but the documented rule serves it: %s", err, desc())
				return
			}
			switch {
			case f == 0:
				c.Probe(fmt.Sprintf("%v_served_no_bound", lvl))
			case rs.Leader:
				c.Probe(fmt.Sprintf("%v_served_on_leader_with_bound", lvl))
			case strict && rs.FSMIndex != rs.CommandCommitIndex:
				c.Probe(fmt.Sprintf("%v_served_strict_behind_within_bound", lvl))
			case strict:
				c.Probe(fmt.Sprintf("%v_served_strict_caught_up", lvl))
			default:
				c.Probe(fmt.Sprintf("%v_served_within_bound", lvl))
			}
		}
	}
	if err == nil {
		if !shapeOK {
			c.Violate("read-bad-result", "read returned a malformed result: %s", desc())
			return
		}
		if val < 0 || val > int64(st.invoked) {
			c.Violate("read-bad-result", "read returned %d rows but only %d writes were ever started: %s", val, st.invoked, desc())
		}
	}
}

// matrix issues the read matrix on one node at the current quiescent point.
func (st *c16State) matrix(n *node.Node) {
	if !n.Up || st.c.Failed() {
		return
	}
	r := st.rng
	rs := n.Store.VerifReadState()
	now := time.Now()
	viaReq := r.Bool(0.4)
	st.checkLocal(n, proto.ConsistencyLevel_WEAK, 0, false, viaReq)
	// boundary values of both clauses, plus fixed and random ones
	d1 := now.Sub(rs.LastContact)
	d2 := rs.FSMUpdateTime.Sub(rs.AppendedAtTime)
	cands := []time.Duration{0, time.Millisecond, 50 * time.Millisecond, st.sc.Knobs.HeartbeatTimeout, 5 * time.Second, time.Hour,
		time.Duration(1+r.Intn(3000)) * time.Millisecond}
	for _, d := range []time.Duration{d1, d2} {
		if d > 0 && d < 1000*time.Hour {
			cands = append(cands, d-1, d, d+1)
		}
	}
	for k := 0; k < 5 && !st.c.Failed(); k++ {
		f := cands[r.Intn(len(cands))]
		lvl := proto.ConsistencyLevel_NONE
		if r.Bool(0.3) {
			lvl = proto.ConsistencyLevel_AUTO
		}
		st.checkLocal(n, lvl, f, r.Bool(0.6), r.Bool(0.4))
	}
	// the strict clause at its boundary whenever the node is behind right now
	if !rs.Leader && rs.FSMIndex != rs.CommandCommitIndex && !rs.AppendedAtTime.IsZero() && !st.c.Failed() {
		st.c.Probe("scan_point_with_node_behind")
		if d2 > d1 {
			st.c.Probe("scan_point_behind_and_lag_exceeds_contact_age")
			for _, f := range []time.Duration{d2 - 1, d2, (d1 + d2) / 2} {
				if f > 0 {
					st.checkLocal(n, proto.ConsistencyLevel_NONE, f, true, r.Bool(0.4))
					st.checkLocal(n, proto.ConsistencyLevel_NONE, f, false, r.Bool(0.4))
				}
			}
		}
	}
}

func (st *c16State) scan(steps int) {
	for i := 0; i < steps && !st.s.Capped && !st.c.Failed(); i++ {
		st.s.Step()
		synctest.Wait()
		before := st.reads
		for _, n := range st.s.Nodes[1:] {
			st.matrix(n)
		}
		st.c.Log.Add("%d scan reads=%d acked=%d", st.s.StepN, st.reads-before, st.acked)
	}
}

// ---------------------------------------------------------------- linearizable reads

// reach counts, for node n's own configuration: voters, voters it can exchange
// messages with (itself included), non-voters it can exchange messages with.
func (st *c16State) reach(n *node.Node) (voters, vReach, nvReach int) {
	ns, err := n.Store.Nodes()
	if err != nil {
		return 0, 0, 0
	}
	for _, sv := range ns {
		m := opsNodeByID(st.s, sv.ID)
		ok := sv.ID == n.ID || (m != nil && m.Up && m.RaftAddr == sv.Addr && st.s.Net.Connected(n.HostName, m.HostName))
		if sv.Suffrage == proto.Suffrage_VOTER {
			voters++
			if ok {
				vReach++
			}
		} else if ok {
			nvReach++
		}
	}
	return
}

func (st *c16State) startLin(n *node.Node, viaReq bool) { st.startLinHeld(n, viaReq, 0) }

// startLinHeld: held = number of writes the harness knows to be COMMITTED on n
// (its commit index covers them) although not yet applied and not yet
// acknowledged; a linearizable read invoked now must reflect them as well.
func (st *c16State) startLinHeld(n *node.Node, viaReq bool, held int) {
	if !n.Up {
		return
	}
	synctest.Wait()
	lr := &c16Lin{node: n.Idx, req: viaReq, ackedAt: st.acked, held: held, cutAt: !opsQuorumReachable(st.s, n), connEpoch: st.connEpoch}
	if lr.cutAt {
		voters, vReach, nvReach := st.reach(n)
		lr.nvAcks = voters > 0 && vReach+nvReach >= voters/2+1
		lr.reachDesc = fmt.Sprintf("%d voters in its configuration, %d reachable including itself, and it could still reach %d non-voter(s)", voters, vReach, nvReach)
	}
	st.lins = append(st.lins, lr)
	lt := time.Duration(1+st.rng.Intn(3)) * time.Second
	lr.task = st.s.Go(fmt.Sprintf("lin n%d req=%v", n.Idx, viaReq), func() {
		if viaReq {
			eqr := &proto.ExecuteQueryRequest{Level: proto.ConsistencyLevel_LINEARIZABLE, LinearizableTimeout: int64(lt),
				Request: &proto.Request{Statements: []*proto.Statement{{Sql: c16Count}}}}
			res, _, _, e := n.Store.Request(context.Background(), eqr)
			lr.err = e
			if e == nil && len(res) == 1 && res[0].GetQ() != nil {
				lr.val, lr.okShape = opsScalar([]*proto.QueryRows{res[0].GetQ()})
			}
			return
		}
		rows, _, _, e := n.Store.Query(context.Background(), opsQueryReq(proto.ConsistencyLevel_LINEARIZABLE, c16Count, 0, false, lt))
		lr.err = e
		if e == nil {
			lr.val, lr.okShape = opsScalar(rows)
		}
	})
	lr.task.OnDone = func() { st.judgeLin(lr) }
}

func (st *c16State) judgeLin(lr *c16Lin) {
	c := st.c
	c.Log.Add("%d lin n%d req=%v acked-at-invoke=%d cut-at-invoke=%v -> val=%d err=%v", st.s.StepN, lr.node, lr.req, lr.ackedAt, lr.cutAt, lr.val, lr.err)
	if lr.err != nil {
		if lr.held > 0 {
			c.Probe("lin_failed_invoked_while_committed_write_unapplied")
		}
		if lr.cutAt {
			c.Probe("lin_failed_cut_off")
		} else {
			c.Probe("lin_failed_other")
		}
		return
	}
	c.Probe("lin_ok")
	if !lr.okShape {
		c.Violate("read-bad-result", "linearizable read on n%d returned a malformed result", lr.node)
		return
	}
	if lr.cutAt && lr.connEpoch == st.connEpoch {
		class := "lin-ok-cut-off"
		if lr.nvAcks {
			// distinct class: explained by acknowledgements of non-voters being counted
			class = "lin-ok-cut-off-nonvoter-acks"
		}
		c.Violate(class, "linearizable read on n%d succeeded (value %d) although the node could not exchange messages with a quorum of voters from before its invocation until its return (%s)", lr.node, lr.val, lr.reachDesc)
		return
	}
	if lr.held > 0 && lr.val < int64(lr.ackedAt+lr.held) {
		c.Violate("lin-missed-committed-write", "linearizable read on n%d returned %d rows, but %d writes had been acknowledged and %d more were committed on that node (commit index covered them; the FSM had not applied them yet) before it was invoked", lr.node, lr.val, lr.ackedAt, lr.held)
		return
	}
	if lr.held > 0 {
		c.Probe("lin_ok_invoked_while_committed_write_unapplied")
	}
	if lr.val < int64(lr.ackedAt) {
		c.Violate("lin-missed-acked-write", "linearizable read on n%d returned %d rows, but %d writes had been acknowledged before it was invoked", lr.node, lr.val, lr.ackedAt)
		return
	}
	if lr.val > int64(st.invoked) {
		c.Violate("read-bad-result", "linearizable read on n%d returned %d rows but only %d writes were ever started", lr.node, lr.val, st.invoked)
		return
	}
	if lr.ackedAt > 0 {
		c.Probe("lin_ok_reflecting_acked_writes")
	}
}

// ---------------------------------------------------------------- committed but not yet applied

// hit parks the FSM goroutine of the chosen node right before it applies the
// next command entry (no lock is held at that point; blocking on a channel is
// durable for the bubble).
func (st *c16State) hit(point string) error {
	if st.parkArmed && point == "store.fsmApply.before/"+st.parkID {
		st.parkArmed = false
		st.parkIdx = st.noteIdx[st.parkID]
		st.parked = true
		<-st.parkCh
	}
	return nil
}

func (st *c16State) note(point string, v int64) {
	if strings.HasPrefix(point, "store.fsm.apply ") {
		if f := strings.SplitN(point, " ", 3); len(f) >= 2 {
			st.noteIdx[f[1]] = uint64(v)
		}
	}
}

func (st *c16State) unpark() {
	st.parkArmed = false
	if st.parked {
		st.parked = false
		close(st.parkCh)
	}
}

// park: a strong read in this term first (so that linearizable reads take the
// read-index path), then one write whose log entry is committed but held back
// right before the leader's FSM applies it; linearizable reads (and the local
// read matrix, for contrast) are issued meanwhile; then the entry is released.
func (st *c16State) park(op c16Op) {
	c, s := st.c, st.s
	l := st.writableLeader()
	if l == nil || s.PendingTasks() > 0 {
		s.Drain(20 * time.Second)
		if l = st.writableLeader(); l == nil || s.PendingTasks() > 0 {
			return
		}
	}
	var serr error
	s.Do("strong-read", 20*time.Second, func() {
		_, _, _, serr = l.Store.Query(context.Background(), opsQueryReq(proto.ConsistencyLevel_STRONG, c16Count, 0, false, 0))
	})
	if serr != nil || !l.Store.IsLeader() {
		return
	}
	st.parkID, st.parkCh, st.parkArmed, st.parked = l.ID, make(chan struct{}), true, false
	defer st.unpark()
	st.startWrite(l)
	for i := 0; i < 400 && !st.parked && s.PendingTasks() > 0 && !s.Capped; i++ {
		s.Step()
		synctest.Wait()
	}
	if !st.parked {
		c.Probe("park_write_not_committed")
		return
	}
	rs := l.Store.VerifReadState()
	if !(rs.CommitIndex >= st.parkIdx && rs.FSMIndex < st.parkIdx) {
		c.Probe("park_unexpected_state")
		return
	}
	c.Fault("apply-held-back")
	c.Log.Add("%d n%d: entry %d committed (commit index %d) and held back before apply (fsm index %d)", s.StepN, l.Idx, st.parkIdx, rs.CommitIndex, rs.FSMIndex)
	for k := 0; k < op.M; k++ {
		st.startLinHeld(l, op.Req != (k%2 == 1), 1)
	}
	st.scan(op.N)
	if st.rng.Bool(0.3) {
		// sometimes hold it beyond the reads' own timeouts: they must then fail, not return early
		s.RunFor(time.Duration(1+st.rng.Intn(4)) * time.Second)
	}
	c.Log.Add("%d n%d: entry %d released", s.StepN, l.Idx, st.parkIdx)
	st.unpark()
	s.Drain(30 * time.Second)
}

// ---------------------------------------------------------------- run

func (st *c16State) refreshIso() {
	now := time.Now()
	for _, n := range st.s.Nodes[1:] {
		iso := true
		for _, m := range st.s.Nodes[1:] {
			// only a two-way cut from everyone counts (a one-way block still lets heartbeats in)
			if m != n && !(st.s.Net.Blocked(n.HostName, m.HostName) && st.s.Net.Blocked(m.HostName, n.HostName)) {
				iso = false
			}
		}
		// raft also refreshes "last contact" when a leader steps down, so the ground
		// truth only covers nodes that were not leader when the isolation began (an
		// isolated node cannot become leader: every cluster here has >= 2 voters)
		if !iso || !n.Up {
			delete(st.isoSince, n.Idx)
			delete(st.isoLeader, n.Idx)
		} else if _, ok := st.isoSince[n.Idx]; !ok && !st.isoLeader[n.Idx] {
			if n.Store.IsLeader() {
				st.isoLeader[n.Idx] = true
			} else {
				st.isoSince[n.Idx] = now
			}
		}
	}
}

func c16Run(c *core.Ctx, raw json.RawMessage) {
	var sc c16Scenario
	if err := json.Unmarshal(raw, &sc); err != nil {
		panic(err)
	}
	c.Rng = core.NewRand(sc.Seed)
	s := sim.New(c)
	s.TickProb = sc.Tick
	if sc.Quant > 0 {
		s.MaxQuant = time.Duration(sc.Quant) * time.Millisecond
	}
	defer s.Shutdown()
	if sc.Nodes < 2 {
		sc.Nodes = 2
	}
	st := &c16State{c: c, s: s, sc: &sc, rng: core.NewRand(core.Mix(sc.Seed, 16)), voter: map[int]bool{}, isoSince: map[int]time.Time{}, isoLeader: map[int]bool{}, noteIdx: map[string]uint64{}}
	verifx.InstallHooks(st.hit, nil, st.note, nil, nil)
	defer verifx.ResetHooks()
	defer st.unpark()
	if err := s.Boot(sc.Nodes, sc.Knobs, func(i int) bool { return !(sc.NonVoter && i == sc.Nodes) }); err != nil {
		c.Discard("boot-failed: " + err.Error())
		return
	}
	for i := 1; i <= sc.Nodes; i++ {
		st.voter[i] = !(sc.NonVoter && i == sc.Nodes)
	}
	var ok bool
	var idx uint64
	for attempt := 0; attempt < 4 && !ok; attempt++ {
		// (leadership may still move right after the joins: retry on a definite refusal)
		ok, idx, _ = opsExec(s, opsSettle(s, 0), "CREATE TABLE IF NOT EXISTS t (id INTEGER PRIMARY KEY, v INTEGER)")
	}
	if !ok {
		c.Discard("schema-failed")
		return
	}
	st.schemaIdx = idx
	s.RunFor(sc.Knobs.HeartbeatTimeout)

	for _, op := range sc.Ops {
		if s.Capped || c.Failed() {
			break
		}
		switch op.Kind {
		case "w":
			for k := 0; k < op.N && k < 10; k++ {
				l := st.writableLeader()
				if l == nil {
					break
				}
				st.startWrite(l)
				s.Drain(30 * time.Second)
			}
		case "wscan":
			if l := st.writableLeader(); l != nil {
				for k := 0; k < op.N && k < 6; k++ {
					st.startWrite(l)
				}
			}
			st.scan(op.M)
		case "scan":
			st.scan(op.N)
		case "lin":
			tgt := op.N
			if tgt == 0 {
				if l := st.writableLeader(); l != nil {
					tgt = l.Idx
				} else {
					tgt = 1
				}
			}
			if tgt >= 1 && tgt <= sc.Nodes {
				st.startLin(s.Nodes[tgt], op.Req)
				st.scan(1 + st.rng.Intn(6))
			}
		case "isolate":
			tgt := op.N
			if tgt == 0 {
				if l := st.writableLeader(); l != nil {
					tgt = l.Idx
				} else {
					continue
				}
			}
			if tgt > sc.Nodes {
				continue
			}
			opsIsolate(s, tgt)
			c.Fault("isolate")
			c.Log.Add("%d isolate n%d", s.StepN, tgt)
		case "partition":
			var a, b []string
			in := map[int]bool{}
			for _, g := range op.Group {
				in[g] = true
			}
			for i := 1; i <= sc.Nodes; i++ {
				if in[i] {
					a = append(a, s.Nodes[i].HostName)
				} else {
					b = append(b, s.Nodes[i].HostName)
				}
			}
			s.Net.Partition(a, b)
			c.Fault("partition")
			c.Log.Add("%d partition %v | %v", s.StepN, a, b)
		case "oneway":
			if op.N != op.M && op.N >= 1 && op.M >= 1 && op.N <= sc.Nodes && op.M <= sc.Nodes {
				s.Net.Block(s.Nodes[op.N].HostName, s.Nodes[op.M].HostName)
				c.Fault("oneway-block")
				c.Log.Add("%d block n%d -> n%d", s.StepN, op.N, op.M)
			}
		case "heal":
			s.Net.Heal()
			st.connEpoch++
			c.Fault("heal")
			c.Log.Add("%d heal", s.StepN)
		case "run":
			s.RunFor(time.Duration(op.Ms) * time.Millisecond)
		case "jump":
			// one big clock advance: every timer in between fires in order
			synctest.Wait()
			time.Sleep(time.Duration(op.Ms) * time.Millisecond)
			synctest.Wait()
			simclock.Set(time.Now())
			c.Fault("clock-jump")
			c.Log.Add("%d jump %dms", s.StepN, op.Ms)
		case "park":
			st.park(op)
		case "stepdown":
			if l := st.writableLeader(); l != nil {
				c.Fault("stepdown")
				c.Log.Add("%d stepdown n%d", s.StepN, l.Idx)
				s.Go("stepdown", func() { l.Store.Stepdown(true, "") })
			}
		case "crash":
			l := st.writableLeader()
			var fs []int
			for i := 1; i <= sc.Nodes; i++ {
				if s.Nodes[i].Up && (l == nil || l.Idx != i) {
					fs = append(fs, i)
				}
			}
			if len(fs) == 0 || len(st.down) > 0 {
				continue
			}
			tgt := fs[op.N%len(fs)]
			c.Log.Add("%d crash n%d", s.StepN, tgt)
			if err := s.Crash(tgt); err != nil {
				c.Discard("crash-failed: " + err.Error())
				return
			}
			st.down = append(st.down, tgt)
		case "restart":
			for _, d := range st.down {
				c.Log.Add("%d restart n%d", s.StepN, d)
				if err := s.Restart(d); err != nil {
					c.Violate("restart-failed", "node %d failed to restart: %v", d, err)
				}
			}
			st.down = nil
			st.connEpoch++
		}
		st.refreshIso()
	}
	if c.Failed() {
		return
	}
	// let outstanding reads and writes finish (bounded by their own timeouts); connectivity returns
	s.Net.Heal()
	st.connEpoch++
	st.refreshIso()
	s.Drain(60 * time.Second)
	c.ProbeN("local_reads", st.reads)
	c.Res.Trivial = st.reads == 0
	c.Sig(fmt.Sprintf("%d/%d/%d/%s", st.acked, st.reads, len(st.lins), s.StateDigest()))
}

func init() {
	core.Register(&core.Prop{ID: "C16", Bubble: true, Gen: c16Gen, Run: c16Run})
}
