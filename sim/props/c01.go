package props

import (
	"encoding/json"
	"expvar"
	"fmt"
	"os"
	"path/filepath"
	"sort"
	"strconv"
	"strings"
	"testing/synctest"
	"time"

	"github.com/rqlite/rqlite/v10/verifx"
	"verifsim/core"
	"verifsim/node"
	"verifsim/sim"
	"verifsim/sqlgen"
)

// C01: every node that applies the same sequence of committed writes ends with
// logically identical database contents - whether it applied the entries live,
// caught up minutes later, replayed its log after a crash, or received them
// inside a snapshot - for generated SQL programs including random(),
// randomblob(n) and date/time functions evaluated at now.
//
// One run: 3-5 real nodes (HTTP service included) plus an optional late joiner
// in one bubble. Writes enter through the real HTTP execute / request / queued
// endpoints as JSON on any node. The simulator owns SQLite's clock (it follows
// the bubble clock), so entries applied by a lagging follower, by a restarted
// node replaying its log, or by the leader at first apply are evaluated at
// different instants; what is not rewritten before replication diverges.
// Oracle: logical dumps (harness's own SQLite connection on a copy of the
// files) of nodes at equal applied index are equal - pairwise after every
// operation, and for all nodes after heal + settle.

type c01Op struct {
	K     string        `json:"k"` // req lag heal crash restart snap run jump join
	N     int           `json:"n,omitempty"`
	Ep    string        `json:"ep,omitempty"` // execute request queue
	Tx    bool          `json:"tx,omitempty"`
	Stmts []sqlgen.Stmt `json:"stmts,omitempty"`
	Ms    int           `json:"ms,omitempty"`
	Gap   int           `json:"gap,omitempty"`
}

type c01Scenario struct {
	Seed      uint64      `json:"seed"`
	Nodes     int         `json:"nodes"`
	Opts      sqlgen.Opts `json:"opts"`
	MultiText bool        `json:"multi_text,omitempty"`
	Knobs     node.Knobs  `json:"knobs"`
	Tick      float64     `json:"tick"`
	// ClockMs positions SQLite's wall clock at the start of the run (ms after
	// 2000-01-01T00:00:00Z); "jump" operations step it forward.
	ClockMs int64   `json:"clock_ms"`
	Ops     []c01Op `json:"ops"`
	// Recover, when set, ends the run with the manual-recovery apply path: a last
	// batch of writes, then node N is stopped uncleanly (crash image, or Close
	// without snapshot) so that the tail of its log is not covered by a snapshot,
	// a peers.json naming only itself is put into its raft directory, and it is
	// reopened (store.RecoverNode rebuilds the database from snapshot + log).
	Recover *c01Recover `json:"recover,omitempty"`
}

type c01Recover struct {
	N    int     `json:"n"`
	Mode string  `json:"mode"` // crash | stop
	Reqs []c01Op `json:"reqs"`
}

func c01Gen(r *core.Rand, tier string) any {
	sc := &c01Scenario{Seed: r.Uint64(), Nodes: 3}
	if r.Bool(0.2) {
		sc.Nodes = 4 + r.Intn(2)
	}
	sc.Tick = []float64{0.02, 0.08, 0.2}[r.Intn(3)]
	// grammar strata: everything the rewriter is expected to handle
	sc.Opts = sqlgen.Opts{NDPercent: []int{30, 50, 70}[r.Intn(3)], ZeroArg: r.Bool(0.5), SpaceParen: r.Bool(0.3), IdentNow: r.Bool(0.2),
		HexBlobN: r.Bool(0.2), CteND: r.Bool(0.4), IsNullND: r.Bool(0.4), ReturningUD: r.Bool(0.3), Comments: r.Bool(0.2), ExoticMods: r.Bool(0.1)}
	// strata known to diverge (reported as known findings; class carries the stratum)
	if r.Bool(0.06) {
		sc.Opts.BetweenOr = true
	} else if r.Bool(0.06) {
		sc.MultiText = true
	}
	hb := time.Duration(r.Range(2, 10)) * 100 * time.Millisecond
	sc.Knobs = node.Knobs{HeartbeatTimeout: hb, ElectionTimeout: hb, LeaderLeaseTimeout: hb / 2, ApplyTimeout: 5 * time.Second}
	if r.Bool(0.6) {
		sc.Knobs.SnapshotThreshold = uint64(r.Range(4, 24))
		sc.Knobs.SnapshotInterval = time.Duration(r.Range(1, 8)) * time.Second
	}
	// SQLite's wall clock starts shortly before a minute/day/month/year boundary
	switch r.Intn(4) {
	case 0:
		sc.ClockMs = int64(r.Intn(1200))*c14MsDay + c14MsDay - int64(r.Range(2, 90))*1000 // before midnight
	case 1:
		sc.ClockMs = 366*c14MsDay - int64(r.Range(2, 90))*1000 // before new year 2001
	case 2:
		sc.ClockMs = 59*c14MsDay - int64(r.Range(2, 90))*1000 // before leap day 2000
	default:
		sc.ClockMs = int64(r.Intn(1200))*c14MsDay + int64(r.Intn(int(c14MsDay)))
	}
	g := sqlgen.New(r.Fork(1), sc.Opts)
	nreq := r.Range(18, 36)
	if tier == "thorough" {
		nreq = r.Range(20, 40)
	}
	lagging, down, joined := 0, 0, false
	req := func() c01Op {
		op := c01Op{K: "req", N: r.Intn(sc.Nodes + 1), Ep: []string{"execute", "execute", "request", "queue"}[r.Intn(4)], Tx: r.Bool(0.35), Gap: r.Intn(8)}
		n := 1 + r.Intn(6)
		if r.Bool(0.4) {
			n = 1
		}
		for i := 0; i < n; i++ {
			st := g.Write()
			if sc.MultiText && len(st.Params) == 0 && len(st.Named) == 0 && r.Bool(0.4) {
				st2 := g.Write()
				for st2.Kind == "ddl" || len(st2.Params) > 0 || len(st2.Named) > 0 {
					st2 = g.Write()
				}
				st.SQL = st.SQL + "; " + st2.SQL
				st.ND += st2.ND
				st.Feat = append(append(st.Feat, st2.Feat...), "multi-text")
			}
			op.Stmts = append(op.Stmts, st)
		}
		return op
	}
	minutes := func() c01Op {
		if r.Bool(0.5) {
			return c01Op{K: "run", Ms: r.Range(1000, 70000)} // simulated time really passes
		}
		return c01Op{K: "jump", Ms: []int{1500, 61000, 3600000, 86400000, 32 * 86400000}[r.Intn(5)] + r.Intn(1000)} // wall-clock step
	}
	for n := 0; n < nreq; {
		switch x := r.Intn(100); {
		case x < 62:
			sc.Ops = append(sc.Ops, req())
			n++
		case x < 70:
			if lagging == 0 && down == 0 {
				lagging = 1 + r.Intn(sc.Nodes)
				sc.Ops = append(sc.Ops, c01Op{K: "lag", N: lagging})
			} else if lagging != 0 {
				sc.Ops = append(sc.Ops, minutes(), c01Op{K: "heal"}, c01Op{K: "run", Ms: r.Range(500, 4000)})
				lagging = 0
			}
		case x < 78:
			if lagging == 0 && down == 0 {
				down = 1 + r.Intn(sc.Nodes)
				sc.Ops = append(sc.Ops, c01Op{K: "crash", N: down})
			} else if down != 0 {
				sc.Ops = append(sc.Ops, minutes(), c01Op{K: "restart", N: down}, c01Op{K: "run", Ms: r.Range(500, 4000)})
				down = 0
			}
		case x < 86:
			sc.Ops = append(sc.Ops, c01Op{K: "snap", N: r.Intn(3)})
		case x < 94:
			sc.Ops = append(sc.Ops, minutes())
		default:
			if !joined && n > nreq/3 && r.Bool(0.6) {
				joined = true
				sc.Ops = append(sc.Ops, c01Op{K: "join"})
			} else {
				sc.Ops = append(sc.Ops, c01Op{K: "run", Ms: r.Range(50, 3000)})
			}
		}
	}
	if r.Bool(0.4) {
		rec := &c01Recover{N: 1 + r.Intn(sc.Nodes), Mode: []string{"crash", "stop"}[r.Intn(2)]}
		for i := r.Range(1, 3); i > 0; i-- {
			op := req()
			op.N, op.Ep, op.Gap = 0, []string{"execute", "request"}[r.Intn(2)], 0
			rec.Reqs = append(rec.Reqs, op)
		}
		// the very last statement certainly changes something
		last := &rec.Reqs[len(rec.Reqs)-1]
		last.Tx = false
		last.Stmts = append(last.Stmts, sqlgen.Stmt{Kind: "insert", Table: "t1", SQL: fmt.Sprintf("INSERT INTO t1(a, b) VALUES(%d, 'last entry before recovery')", r.Intn(100000))})
		sc.Recover = rec
	}
	return sc
}

func c01StoreStat(name string) int64 {
	m, ok := expvar.Get("store").(*expvar.Map)
	if !ok {
		return 0
	}
	if v, ok := m.Get(name).(*expvar.Int); ok {
		return v.Value()
	}
	return 0
}

// c01HTTPJSON posts stmts (HTTP API encoding) to a node and returns status and body.
func c01HTTPJSON(n *node.Node, target string, stmts []sqlgen.Stmt) (int, string) {
	arr := make([]any, 0, len(stmts))
	for i := range stmts {
		arr = append(arr, stmts[i].JSON())
	}
	b, err := json.Marshal(arr)
	if err != nil {
		panic(err)
	}
	w := n.HTTPDo("POST", target, "application/json", b, "", "")
	return w.Code, w.Body.String()
}

type c01Cluster struct {
	c   *core.Ctx
	s   *sim.Sim
	iso int // isolated node (0 = none)
}

// up lists nodes that are up and not isolated.
func (k *c01Cluster) reachable() []*node.Node {
	var out []*node.Node
	for _, n := range k.s.Nodes[1:] {
		if n.Up && n.Idx != k.iso {
			out = append(out, n)
		}
	}
	return out
}

// compareAtEqualIndex dumps every up node and compares the dumps of nodes that
// have applied the same raft index. Returns false after recording a violation.
func (k *c01Cluster) compareAtEqualIndex(class, when string) bool {
	groups := map[uint64][]*node.Node{}
	var idxs []uint64
	for _, n := range k.s.Nodes[1:] {
		if !n.Up {
			continue
		}
		ai := n.Store.AppliedIndex()
		if _, ok := groups[ai]; !ok {
			idxs = append(idxs, ai)
		}
		groups[ai] = append(groups[ai], n)
	}
	sort.Slice(idxs, func(i, j int) bool { return idxs[i] < idxs[j] })
	for _, ai := range idxs {
		ns := groups[ai]
		if len(ns) < 2 {
			continue
		}
		base, err := k.s.DumpNode(ns[0])
		if err != nil {
			k.c.Discard("dump-failed: " + err.Error())
			return false
		}
		for _, n := range ns[1:] {
			d, err := k.s.DumpNode(n)
			if err != nil {
				k.c.Discard("dump-failed: " + err.Error())
				return false
			}
			k.c.Probe("pairwise_dump_comparisons")
			if d != base {
				k.c.Violate(class, "%s: nodes %s and %s have both applied raft index %d but their databases differ: %s", when, ns[0].ID, n.ID, ai, sim.FirstDiff(base, d))
				return false
			}
		}
	}
	return true
}

func c01FeatsOf(ops []c01Op) string {
	set := map[string]bool{}
	for _, op := range ops {
		for _, st := range op.Stmts {
			for _, f := range st.Feat {
				set[f] = true
			}
		}
	}
	var fs []string
	for f := range set {
		fs = append(fs, f)
	}
	sort.Strings(fs)
	return strings.Join(fs, ",")
}

func c01Run(c *core.Ctx, raw json.RawMessage) {
	var sc c01Scenario
	if err := json.Unmarshal(raw, &sc); err != nil {
		panic(err)
	}
	c.Rng = core.NewRand(sc.Seed)
	s := sim.New(c)
	s.TickProb = sc.Tick
	defer s.Shutdown()
	class := "replica-divergence"
	if sc.Opts.BetweenOr {
		class += "+between-or-stratum"
	}
	if sc.MultiText {
		class += "+multi-text-stratum"
	}
	for i := 0; i < sc.Nodes+1; i++ {
		n := s.AddNode(sc.Knobs)
		n.WithHTTP = true
		n.QueueBatchSz = 4
		n.QueueTimeout = 50 * time.Millisecond
	}
	if err := s.Boot(sc.Nodes, sc.Knobs, nil); err != nil {
		c.Discard("boot-failed: " + err.Error())
		return
	}
	s.ClockOffset = time.Duration(sc.ClockMs) * time.Millisecond
	k := &c01Cluster{c: c, s: s}
	restores0, snaps0 := c01StoreStat("num_restores"), c01StoreStat("num_snapshots")
	// count snapshot restores by kind: on a running node = InstallSnapshot from the
	// leader, on a starting node = restore from its own snapshot store
	installs, startRestores, applies := 0, 0, 0
	verifx.InstallHooks(func(point string) error {
		switch {
		case strings.HasPrefix(point, "store.fsmRestore.begin/"):
			up := false
			for _, n := range s.Nodes[1:] {
				if n.ID == point[len("store.fsmRestore.begin/"):] {
					up = n.Up
				}
			}
			if up {
				installs++
			} else {
				startRestores++
			}
		case strings.HasPrefix(point, "store.fsmApply.before/"):
			applies++
		}
		return nil
	}, nil, nil, nil, nil)
	defer verifx.ResetHooks()

	// base schema and rows through the HTTP API of the leader
	g := sqlgen.New(core.NewRand(1), sqlgen.Opts{})
	setup := append(g.Schema(), g.SeedRows()...)
	var code int
	var body string
	ldr := s.Leader()
	if ldr == nil {
		c.Discard("no-leader-after-boot")
		return
	}
	if !s.Do("setup", 60*time.Second, func() { code, body = c01HTTPJSON(ldr, "/db/execute?timeout=20s", setup) }) || code != 200 || strings.Contains(body, `"error"`) {
		c.Discard(fmt.Sprintf("setup-failed: %d %.200s", code, body))
		return
	}

	down := map[int]bool{}
	joined := false
	for oi, op := range sc.Ops {
		if s.Capped || c.Failed() {
			break
		}
		switch op.K {
		case "req":
			var tgt *node.Node
			if op.N >= 1 && op.N <= sc.Nodes && s.Nodes[op.N].Up {
				tgt = s.Nodes[op.N]
			} else if tgt = s.Leader(); tgt == nil {
				if r := k.reachable(); len(r) > 0 {
					tgt = r[0]
				}
			}
			if tgt == nil || len(op.Stmts) == 0 {
				continue
			}
			target := "/db/execute?timeout=8s"
			switch op.Ep {
			case "request":
				target = "/db/request?timeout=8s"
			case "queue":
				target = "/db/execute?queue&wait&timeout=8s"
			}
			if op.Tx {
				target += "&transaction"
			}
			var code int
			var body string
			ok := s.Do(fmt.Sprintf("req %d %s n%d x%d", oi, op.Ep, tgt.Idx, len(op.Stmts)), 40*time.Second, func() { code, body = c01HTTPJSON(tgt, target, op.Stmts) })
			c.Log.Add("%d req %d -> %d ok=%v", s.StepN, oi, code, ok)
			switch {
			case !ok:
				c.Probe("reqs_unfinished")
			case code == 200 && !strings.Contains(body, `"error"`):
				c.Probe("reqs_ok")
				c.Probe("reqs_ok_" + op.Ep)
				for _, st := range op.Stmts {
					if st.ND > 0 {
						c.Probe("nd_stmts_acked")
					}
				}
			case code == 200:
				c.Probe("reqs_with_statement_errors")
			default:
				c.Probe("reqs_http_" + strconv.Itoa(code))
			}
			if c.Replay {
				c.Log.AddUnhashed("    # body %.300s", body)
			}
		case "lag":
			if k.iso != 0 || op.N < 1 || op.N > sc.Nodes || !s.Nodes[op.N].Up {
				continue
			}
			var rest []string
			for _, n := range s.Nodes[1:] {
				if n.Idx != op.N {
					rest = append(rest, n.HostName)
				}
			}
			s.Net.Partition([]string{s.Nodes[op.N].HostName}, rest)
			k.iso = op.N
			c.Fault("isolate")
			c.Log.Add("%d isolate n%d", s.StepN, op.N)
		case "heal":
			if k.iso != 0 {
				s.Net.Heal()
				c.Fault("heal")
				c.Log.Add("%d heal n%d", s.StepN, k.iso)
				k.iso = 0
			}
		case "crash":
			if op.N < 1 || op.N >= len(s.Nodes) || !s.Nodes[op.N].Up || len(down) > 0 || k.iso != 0 {
				continue
			}
			c.Log.Add("%d crash n%d", s.StepN, op.N)
			if err := s.Crash(op.N); err != nil {
				c.Discard("crash-failed: " + err.Error())
				return
			}
			down[op.N] = true
		case "restart":
			for d := range down {
				c.Log.Add("%d restart n%d", s.StepN, d)
				if err := s.Restart(d); err != nil {
					c.Violate("restart-failed", "node %d failed to restart from its crash image: %v", d, err)
					return
				}
				delete(down, d)
			}
		case "snap":
			if l := s.Leader(); l != nil {
				var err error
				trailing := uint64(op.N)
				s.Do("snapshot", 60*time.Second, func() { err = l.Store.Snapshot(trailing) })
				c.Log.Add("%d snapshot on n%d trailing=%d err=%v", s.StepN, l.Idx, trailing, err != nil)
				if err == nil {
					c.Probe("forced_snapshots")
				}
			}
		case "run":
			s.RunFor(time.Duration(op.Ms) * time.Millisecond)
		case "jump":
			s.ClockOffset += time.Duration(op.Ms) * time.Millisecond
			c.Fault("wall-clock-step")
			c.Log.Add("%d wall clock stepped forward by %d ms", s.StepN, op.Ms)
		case "join":
			if joined || s.Leader() == nil {
				continue
			}
			joined = true
			if err := s.StartAndJoin(sc.Nodes+1, true); err != nil {
				c.Log.Add("%d late join failed", s.StepN)
				c.Probe("late_join_failed")
				continue
			}
			c.Probe("late_join")
			c.Log.Add("%d late join n%d", s.StepN, sc.Nodes+1)
		}
		for i := 0; i < op.Gap && !s.Capped; i++ {
			s.Step()
		}
		if op.K != "run" && op.K != "jump" && !k.compareAtEqualIndex(class, fmt.Sprintf("after op %d (%s)", oi, op.K)) {
			c.Log.Add("feats=[%s]", c01FeatsOf(sc.Ops))
			return
		}
	}
	if c.Failed() || s.Capped {
		if s.Capped {
			c.Res.Verdict = core.Capped
		}
		return
	}
	// heal, restart, settle: every node must reach the same applied index
	s.Net.Heal()
	k.iso = 0
	for d := range down {
		if err := s.Restart(d); err != nil {
			c.Violate("restart-failed", "node %d failed to restart from its crash image: %v", d, err)
			return
		}
	}
	s.ClockOffset += time.Duration(1+c.Rng.Intn(100000)) * time.Second // everybody applies what is left at yet another time
	s.RunFor(5 * time.Second)
	settled := s.RunUntil(func() bool {
		l := s.Leader()
		if l == nil {
			return false
		}
		ci, err := l.Store.CommitIndex()
		if err != nil {
			return false
		}
		for _, n := range s.Nodes[1:] {
			if n.Up && n.Store.AppliedIndex() != ci {
				return false
			}
		}
		return true
	}, 180*time.Second)
	c.ProbeN("restores_total", int(c01StoreStat("num_restores")-restores0))
	c.ProbeN("install_snapshot_on_running_node", installs)
	c.ProbeN("restore_from_own_snapshot_at_start", startRestores)
	c.ProbeN("log_entries_applied", applies)
	c.ProbeN("snapshots_taken", int(c01StoreStat("num_snapshots")-snaps0))
	if !settled {
		c.Discard("not-settled: nodes did not reach a common applied index within 180 s after heal: " + s.StateDigest())
		return
	}
	nUp := 0
	for _, n := range s.Nodes[1:] {
		if n.Up {
			nUp++
		}
	}
	c.ProbeN("nodes_compared_at_end", nUp)
	if !k.compareAtEqualIndex(class, "after heal and settle") {
		c.Log.Add("feats=[%s]", c01FeatsOf(sc.Ops))
		return
	}
	c.Res.Trivial = c.Res.Probes["nd_stmts_acked"] == 0
	d, _ := s.DumpNode(s.Nodes[1])
	c.Sig(fmt.Sprintf("%d/%d", len(d), s.Nodes[1].Store.AppliedIndex()))
	if sc.Recover != nil {
		k.manualRecovery(&sc, class)
	}
}

// manualRecovery exercises the fourth apply path: the database a node rebuilds
// from its own snapshot + raft log during manual recovery (raft/peers.json)
// must equal what the live replicas hold for the same log.
func (k *c01Cluster) manualRecovery(sc *c01Scenario, class string) {
	c, s, rec := k.c, k.s, sc.Recover
	allAtCommit := func() bool {
		l := s.Leader()
		if l == nil {
			return false
		}
		ci, err := l.Store.CommitIndex()
		if err != nil {
			return false
		}
		for _, n := range s.Nodes[1:] {
			if n.Up && n.Store.AppliedIndex() != ci {
				return false
			}
		}
		return true
	}
	for i := range rec.Reqs {
		op := &rec.Reqs[i]
		l := s.Leader()
		if l == nil || len(op.Stmts) == 0 {
			continue
		}
		target := "/db/" + op.Ep + "?timeout=8s"
		if op.Tx {
			target += "&transaction"
		}
		var code int
		ok := s.Do(fmt.Sprintf("final-req %d %s n%d x%d", i, op.Ep, l.Idx, len(op.Stmts)), 40*time.Second, func() { code, _ = c01HTTPJSON(l, target, op.Stmts) })
		c.Log.Add("%d final req %d -> %d ok=%v", s.StepN, i, code, ok)
	}
	if !s.RunUntil(allAtCommit, 60*time.Second) {
		c.Probe("recovery_skipped_not_settled")
		return
	}
	if rec.N < 1 || rec.N >= len(s.Nodes) || !s.Nodes[rec.N].Up {
		return
	}
	r := s.Nodes[rec.N]
	var other *node.Node
	for _, n := range s.Nodes[1:] {
		if n.Up && n != r && n.Store.AppliedIndex() == r.Store.AppliedIndex() {
			other = n
			break
		}
	}
	if other == nil {
		return
	}
	// every entry of r's log must be committed and applied, so that "the log" is
	// exactly the sequence the live replicas applied
	applied := r.Store.AppliedIndex()
	if st, err := r.Store.Stats(); err == nil {
		if rs, ok := st["raft"].(map[string]any); ok {
			if lli, ok := rs["last_log_index"].(int64); ok && uint64(lli) != applied {
				c.Probe("recovery_skipped_log_tail_not_applied")
				return
			}
		}
	}
	want, err := s.DumpNode(other)
	if err != nil {
		c.Discard("dump-failed: " + err.Error())
		return
	}
	recov0 := c01StoreStat("num_recoveries")
	switch rec.Mode {
	case "stop":
		r.Store.NoSnapshotOnClose = true
		if !s.Do(fmt.Sprintf("stop-%d", r.Idx), 120*time.Second, func() { r.Stop() }) {
			c.Discard("stop-before-recovery did not finish")
			return
		}
		c.Fault("stop-without-snapshot")
	default:
		if err := s.Crash(r.Idx); err != nil {
			c.Discard("crash-failed: " + err.Error())
			return
		}
	}
	// the recovered node forms a cluster of its own; keep the others away from it
	var rest []string
	for _, n := range s.Nodes[1:] {
		if n != r {
			rest = append(rest, n.HostName)
		}
	}
	s.Net.Partition([]string{r.HostName}, rest)
	peers := fmt.Sprintf(`[{"id": %q, "address": %q, "non_voter": false}]`, r.ID, r.RaftAddr)
	if err := os.MkdirAll(filepath.Join(r.Dir, "raft"), 0o755); err == nil {
		err = os.WriteFile(filepath.Join(r.Dir, "raft", "peers.json"), []byte(peers), 0o644)
	}
	if err != nil {
		c.Discard("write peers.json: " + err.Error())
		return
	}
	s.ClockOffset += time.Duration(1+c.Rng.Intn(100000)) * time.Second // the rebuild happens at yet another time
	c.Log.Add("%d manual recovery of n%d after %s, log ends at applied index %d", s.StepN, r.Idx, rec.Mode, applied)
	if err := s.Restart(r.Idx); err != nil {
		c.Violate("recovery-failed", "node %s did not reopen with raft/peers.json after %s: %v", r.ID, rec.Mode, err)
		return
	}
	synctest.Wait()
	c.Fault("manual-recovery-" + rec.Mode)
	c.ProbeN("manual_recoveries_performed", int(c01StoreStat("num_recoveries")-recov0))
	got, err := s.DumpNode(r)
	if err != nil {
		c.Discard("dump-failed: " + err.Error())
		return
	}
	c.Probe("recovered_node_compared")
	if got != want {
		c.Violate(class, "after manual recovery (raft/peers.json, node stopped by %s): %s rebuilt its database from a log ending at index %d, every entry of which was committed and applied by %s, but the rebuilt database (now at applied index %d) differs from %s's at index %d: %s (live replica first)",
			rec.Mode, r.ID, applied, other.ID, r.Store.AppliedIndex(), other.ID, applied, sim.FirstDiff(want, got))
		c.Log.Add("feats=[%s]", c01FeatsOf(sc.Ops))
	}
}

func init() {
	core.Register(&core.Prop{ID: "C01", Bubble: true, Gen: c01Gen, Run: c01Run})
}
