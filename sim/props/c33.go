package props

import (
	"context"
	"database/sql"
	"encoding/json"
	"fmt"
	"os"
	"path/filepath"
	"sort"
	"strings"
	"sync"
	"testing/synctest"
	"time"

	sqlite3 "github.com/mattn/go-sqlite3"
	"github.com/rqlite/rqlite/v10/command/proto"
	"verifsim/core"
	"verifsim/node"
	"verifsim/sim"
)

// C33: manual recovery (raft/peers.json) keeps all applied data and starts the
// node with exactly the configuration in the peers file.
//
// One run = a 1-3 node cluster with a seeded history of writes (inserts,
// updates, deletes, DDL, multi-statement transactions), automatic and user
// snapshots (with log truncation), whole-database loads (through the log) and
// boots (single node, bypassing the log), follower isolation and in-flight
// writes; then the victim node(s) are cut off, their applied state is captured
// (logical dump through an independent SQLite connection), they are shut down
// gracefully (with / without snapshot on close) or crashed (directory image), a
// generated peers.json is placed in <dir>/raft/, and they are reopened (possibly
// on a new address). Oracle per recovered node: reopen succeeds; the dump equals
// the captured one when its log had no unapplied entries, and contains it
// otherwise; Store.Nodes() equals the peers file exactly (ids, addresses,
// suffrage); if the recovered voters form a quorum of the file, a leader
// appears, a new write is accepted and the configuration is still the file's.

type c33Op struct {
	Kind string `json:"k"` // ins mix async snap load boot isolate heal run
	N    int    `json:"n,omitempty"`
	M    int    `json:"m,omitempty"`
	Ms   int    `json:"ms,omitempty"`
}

type c33Peer struct {
	ID       string `json:"id"`
	Host     int    `json:"host"` // 10.0.0.<host>:4002
	NonVoter bool   `json:"non_voter,omitempty"`
}

type c33Recovery struct {
	Victims []int     `json:"victims"` // nodes that are recovered (first is the primary victim); 0 = leader
	Mode    string    `json:"mode"`    // stop | stop-nosnap | crash
	Peers   []c33Peer `json:"peers"`   // content of the peers file, same on every recovered node
	MoveTo  int       `json:"move_to"` // primary victim restarts on host 10.0.0.<MoveTo> (0 = same address)
}

type c33Scenario struct {
	Seed  uint64      `json:"seed"`
	Nodes int         `json:"nodes"`
	Knobs node.Knobs  `json:"knobs"`
	Tick  float64     `json:"tick"`
	Ops   []c33Op     `json:"ops"`
	Rec   c33Recovery `json:"rec"`
}

func c33Gen(r *core.Rand, tier string) any {
	sc := &c33Scenario{Seed: r.Uint64()}
	sc.Nodes = []int{1, 1, 2, 3, 3}[r.Intn(5)]
	sc.Tick = []float64{0.03, 0.1, 0.2}[r.Intn(3)]
	hb := time.Duration(r.Range(2, 6)) * 100 * time.Millisecond
	sc.Knobs = node.Knobs{HeartbeatTimeout: hb, ElectionTimeout: hb, LeaderLeaseTimeout: hb / 2, ApplyTimeout: 4 * time.Second}
	if r.Bool(0.7) {
		sc.Knobs.SnapshotThreshold = uint64(r.Range(3, 10))
		sc.Knobs.SnapshotInterval = time.Duration(r.Range(300, 2500)) * time.Millisecond
	}
	if r.Bool(0.4) {
		sc.Knobs.SnapshotReapThreshold = r.Range(2, 4)
	}
	nops := r.Range(4, 25)
	isolated := false
	for i := 0; i < nops; i++ {
		x := r.Intn(100)
		switch {
		case x < 30:
			sc.Ops = append(sc.Ops, c33Op{Kind: "ins", N: r.Range(1, 6)})
		case x < 50:
			sc.Ops = append(sc.Ops, c33Op{Kind: "mix", N: r.Intn(1000)})
		case x < 62:
			sc.Ops = append(sc.Ops, c33Op{Kind: "snap", N: r.Intn(4), M: r.Intn(3)})
		case x < 70:
			sc.Ops = append(sc.Ops, c33Op{Kind: "load", N: r.Range(0, 12)})
		case x < 74:
			sc.Ops = append(sc.Ops, c33Op{Kind: "boot", N: r.Range(0, 12)})
		case x < 82:
			if sc.Nodes >= 2 {
				if !isolated {
					sc.Ops = append(sc.Ops, c33Op{Kind: "isolate", N: r.Intn(4)})
				} else {
					sc.Ops = append(sc.Ops, c33Op{Kind: "heal"})
				}
				isolated = !isolated
			}
		case x < 90:
			sc.Ops = append(sc.Ops, c33Op{Kind: "run", Ms: r.Range(50, 3000)})
		default:
			sc.Ops = append(sc.Ops, c33Op{Kind: "async", N: r.Range(1, 4), M: r.Intn(25)})
		}
	}
	if r.Bool(0.4) {
		sc.Ops = append(sc.Ops, c33Op{Kind: "async", N: r.Range(1, 4), M: r.Intn(25)})
	}
	// recovery
	rec := &sc.Rec
	rec.Mode = []string{"stop", "stop-nosnap", "crash", "crash"}[r.Intn(4)]
	primary := r.Intn(sc.Nodes + 1) // 0 = leader
	rec.Victims = []int{primary}
	kind := r.Intn(5)
	if sc.Nodes == 1 && (kind == 1 || kind == 2) {
		kind = 0
	}
	pid := func(i int) string { return fmt.Sprintf("n%d", i) }
	switch kind {
	case 0: // the victim alone, as sole voter
		rec.Peers = []c33Peer{{ID: "", Host: 0}}
	case 1: // documented procedure: every node, same file everywhere, all recovered
		rec.Victims = nil
		for i := 1; i <= sc.Nodes; i++ {
			rec.Victims = append(rec.Victims, i)
			rec.Peers = append(rec.Peers, c33Peer{ID: pid(i), Host: i, NonVoter: i > 1 && r.Bool(0.25)})
		}
		rec.Victims[0], rec.Victims[primary%sc.Nodes] = rec.Victims[primary%sc.Nodes], rec.Victims[0]
	case 2: // victim plus the others (which stay down), mixed suffrage
		rec.Peers = []c33Peer{{ID: "", Host: 0}}
		for i := 1; i <= sc.Nodes; i++ {
			rec.Peers = append(rec.Peers, c33Peer{ID: pid(i) + "x", Host: 10 + i, NonVoter: r.Bool(0.5)})
		}
	case 3: // victim moves to a new address, plus a never-seen non-voter
		rec.MoveTo = 9
		rec.Peers = []c33Peer{{ID: "", Host: 9}}
		if r.Bool(0.5) {
			rec.Peers = append(rec.Peers, c33Peer{ID: "ghost", Host: 8, NonVoter: true})
		}
	case 4: // victim listed as a non-voter next to an absent voter: it can never lead
		rec.Peers = []c33Peer{{ID: "", Host: 0, NonVoter: true}, {ID: "absent", Host: 12}}
	}
	// shuffle the file's order (order must not matter)
	for i := len(rec.Peers) - 1; i > 0; i-- {
		j := r.Intn(i + 1)
		rec.Peers[i], rec.Peers[j] = rec.Peers[j], rec.Peers[i]
	}
	return sc
}

// ---------------------------------------------------------------- SQL workload (deterministic: no time, no random)

const c33Schema = "CREATE TABLE t (id INTEGER PRIMARY KEY, v INTEGER, s TEXT, b BLOB, f REAL)"

func c33Insert(k int) string {
	return fmt.Sprintf("INSERT INTO t(v,s,b,f) VALUES(%d,'row-%d',x'%02x%02x',%d.5)", k, k, k%256, (k*7)%256, k)
}

func c33Mix(k int) []string {
	switch k % 7 {
	case 0:
		return []string{fmt.Sprintf("UPDATE t SET v=v+1000, s=s||'u' WHERE id %% 3 = %d", k%3)}
	case 1:
		return []string{"DELETE FROM t WHERE id = (SELECT MIN(id) FROM t)"}
	case 2:
		return []string{fmt.Sprintf("CREATE TABLE IF NOT EXISTS aux%d (a INTEGER PRIMARY KEY, b TEXT)", k%4),
			fmt.Sprintf("INSERT INTO aux%d(b) VALUES('aux-%d')", k%4, k)}
	case 3:
		return []string{"CREATE INDEX IF NOT EXISTS t_v ON t(v)", c33Insert(100000 + k)}
	case 4:
		return []string{c33Insert(200000 + k), fmt.Sprintf("UPDATE t SET f=f*2 WHERE v=%d", 200000+k), c33Insert(300000 + k)}
	case 5:
		return []string{fmt.Sprintf("INSERT INTO t(v,s) VALUES(%d, NULL)", 400000+k), "UPDATE t SET b=NULL WHERE v % 5 = 0"}
	default:
		return []string{fmt.Sprintf("DROP TABLE IF EXISTS aux%d", k%4)}
	}
}

var c33RegOnce sync.Once

// c33MakeDB builds a SQLite file (rollback-journal mode) holding table t with
// n rows and a marker table, and returns its bytes.
func c33MakeDB(dir string, gen, n int) ([]byte, error) {
	c33RegOnce.Do(func() { sql.Register("verif-ops-gen", &sqlite3.SQLiteDriver{}) })
	p := filepath.Join(dir, fmt.Sprintf("load-%d.sqlite", gen))
	os.Remove(p)
	db, err := sql.Open("verif-ops-gen", "file:"+p)
	if err != nil {
		return nil, err
	}
	db.SetMaxOpenConns(1)
	stmts := []string{c33Schema, fmt.Sprintf("CREATE TABLE loaded%d (g INTEGER)", gen), fmt.Sprintf("INSERT INTO loaded%d VALUES(%d)", gen, gen)}
	for i := 0; i < n; i++ {
		stmts = append(stmts, c33Insert(1000000*gen+i))
	}
	for _, q := range stmts {
		if _, err := db.Exec(q); err != nil {
			db.Close()
			return nil, err
		}
	}
	if err := db.Close(); err != nil {
		return nil, err
	}
	defer os.Remove(p)
	return os.ReadFile(p)
}

func c33ExecMulti(s *sim.Sim, n *node.Node, stmts []string, tx bool) bool {
	ok := false
	s.Do("exec-multi "+n.ID, 60*time.Second, func() {
		er := &proto.ExecuteRequest{Request: &proto.Request{Transaction: tx}}
		for _, q := range stmts {
			er.Request.Statements = append(er.Request.Statements, &proto.Statement{Sql: q})
		}
		_, _, err := n.Store.Execute(context.Background(), er)
		ok = err == nil
	})
	return ok
}

// ---------------------------------------------------------------- run

type c33Victim struct {
	idx     int
	pre     string
	mayTail bool
	n       *node.Node // node object used for the restart (may differ from the original when moved)
}

func c33Run(c *core.Ctx, raw json.RawMessage) {
	var sc c33Scenario
	if err := json.Unmarshal(raw, &sc); err != nil {
		panic(err)
	}
	c.Rng = core.NewRand(sc.Seed)
	s := sim.New(c)
	s.TickProb = sc.Tick
	defer s.Shutdown()
	if sc.Nodes < 1 {
		sc.Nodes = 1
	}
	if err := s.Boot(sc.Nodes, sc.Knobs, nil); err != nil {
		c.Discard("boot-failed: " + err.Error())
		return
	}
	if ok, _, _ := opsExec(s, opsSettle(s, 0), c33Schema); !ok {
		c.Discard("schema-failed")
		return
	}
	nextK, loadGen := 0, 0
	lagging := false // some node may be behind: only inserts from now on (so that "contains" is well defined)
	restores0, recov0 := opsStat("num_restores"), opsStat("num_recoveries")
	snaps0 := opsStat("num_snapshots")

	for _, op := range sc.Ops {
		if s.Capped || c.Failed() {
			break
		}
		l := s.Leader()
		switch op.Kind {
		case "ins":
			for k := 0; k < op.N && k < 10 && l != nil; k++ {
				nextK++
				if ok, _, _ := opsExec(s, l, c33Insert(nextK)); ok {
					c.Probe("writes_acked")
				}
			}
		case "mix":
			if l == nil {
				continue
			}
			if lagging {
				nextK++
				opsExec(s, l, c33Insert(nextK))
				continue
			}
			if c33ExecMulti(s, l, c33Mix(op.N), op.N%2 == 0) {
				c.Probe("mixed_writes_acked")
			}
			// updates/deletes/DDL are never left in an unapplied tail either (row-wise
			// containment is only meaningful for tails of inserts)
			opsSettle(s, 0)
		case "async":
			if l == nil {
				continue
			}
			lagging = true
			for k := 0; k < op.N && k < 6; k++ {
				nextK++
				q := c33Insert(nextK)
				s.Go("async-w", func() {
					er := &proto.ExecuteRequest{Request: &proto.Request{Statements: []*proto.Statement{{Sql: q}}}}
					l.Store.Execute(context.Background(), er)
				})
			}
			for k := 0; k < op.M; k++ {
				s.Step()
			}
			c.Probe("async_writes_started")
		case "snap":
			tgt := l
			if op.M > 0 && op.M <= sc.Nodes && s.Nodes[op.M].Up {
				tgt = s.Nodes[op.M]
			}
			if tgt == nil {
				continue
			}
			var err error
			s.Do("snapshot", 60*time.Second, func() { err = tgt.Store.Snapshot(uint64(op.N)) })
			c.Log.Add("%d snapshot n%d trailing=%d err=%v", s.StepN, tgt.Idx, op.N, err)
			if err == nil {
				c.Probe("user_snapshots")
			}
		case "load":
			if l == nil || lagging {
				continue
			}
			loadGen++
			data, err := c33MakeDB(s.Dir, loadGen, op.N)
			if err != nil {
				c.Discard("make-load-db: " + err.Error())
				return
			}
			var lerr error
			s.Do("load", 60*time.Second, func() { lerr = l.Store.Load(context.Background(), &proto.LoadRequest{Data: data}) })
			c.Log.Add("%d load gen=%d rows=%d err=%v", s.StepN, loadGen, op.N, lerr)
			if lerr == nil {
				c.Probe("loads")
				// a load is never left in an unapplied tail: wait for everybody
				opsSettle(s, 0)
			}
		case "boot":
			if l == nil || lagging || sc.Nodes != 1 {
				continue
			}
			loadGen++
			data, err := c33MakeDB(s.Dir, loadGen, op.N)
			if err != nil {
				c.Discard("make-load-db: " + err.Error())
				return
			}
			var berr error
			s.Do("boot", 60*time.Second, func() { _, berr = l.Store.ReadFrom(strings.NewReader(string(data))) })
			c.Log.Add("%d boot gen=%d rows=%d err=%v", s.StepN, loadGen, op.N, berr)
			if berr == nil {
				c.Probe("boots")
			}
		case "isolate":
			if l == nil {
				continue
			}
			var fs []int
			for i := 1; i <= sc.Nodes; i++ {
				if i != l.Idx {
					fs = append(fs, i)
				}
			}
			if len(fs) == 0 {
				continue
			}
			tgt := fs[op.N%len(fs)]
			opsIsolate(s, tgt)
			if !opsQuorumReachable(s, l) {
				s.Net.Heal()
				continue
			}
			lagging = true
			c.Fault("isolate-follower")
			c.Log.Add("%d isolate n%d", s.StepN, tgt)
		case "heal":
			s.Net.Heal()
			c.Fault("heal")
			c.Log.Add("%d heal", s.StepN)
		case "run":
			s.RunFor(time.Duration(op.Ms) * time.Millisecond)
		}
	}
	if c.Failed() || s.Capped {
		return
	}

	// ---------------- shutdown / crash of the victims
	rec := sc.Rec
	var victims []*c33Victim
	seen := map[int]bool{}
	for _, v := range rec.Victims {
		if v == 0 {
			if l := s.Leader(); l != nil {
				v = l.Idx
			} else {
				v = 1
			}
		}
		if v < 1 || v > sc.Nodes || seen[v] || !s.Nodes[v].Up {
			continue
		}
		seen[v] = true
		victims = append(victims, &c33Victim{idx: v})
	}
	if len(victims) == 0 {
		c.Res.Trivial = true
		return
	}
	// cut every victim off first: from here on its state only changes by its own shutdown
	for _, v := range victims {
		opsIsolate(s, v.idx)
	}
	synctest.Wait()
	for _, v := range victims {
		n := s.Nodes[v.idx]
		rs := n.Store.VerifReadState()
		v.mayTail = rs.LastLogIndex > rs.RaftAppliedIndex
		c.Log.Add("%d victim n%d leader=%v last-log=%d raft-applied=%d fsm=%d commit=%d may-have-unapplied-tail=%v mode=%s",
			s.StepN, v.idx, rs.Leader, rs.LastLogIndex, rs.RaftAppliedIndex, rs.FSMIndex, rs.CommitIndex, v.mayTail, rec.Mode)
		if v.mayTail {
			c.Probe("victim_with_unapplied_tail")
		} else {
			c.Probe("victim_fully_applied")
		}
		var err error
		switch rec.Mode {
		case "crash":
			v.pre, err = s.DumpNode(n)
			if err == nil {
				err = s.Crash(v.idx)
			}
		default:
			n.Store.NoSnapshotOnClose = rec.Mode == "stop-nosnap"
			var serr error
			if !s.Do(fmt.Sprintf("stop-victim-%d", v.idx), 120*time.Second, func() { serr = n.Stop() }) || serr != nil {
				c.Discard(fmt.Sprintf("victim-stop-failed: %v", serr))
				return
			}
			c.Fault("graceful-stop")
			v.pre, err = s.DumpNode(n) // files at rest
		}
		if err != nil {
			c.Discard("victim-capture-failed: " + err.Error())
			return
		}
	}
	// every other node goes away as well (quorum is lost for good: that is when manual recovery is used)
	for i := 1; i <= sc.Nodes; i++ {
		if !seen[i] && s.Nodes[i].Up {
			n := s.Nodes[i]
			n.Store.NoSnapshotOnClose = true
			s.Do(fmt.Sprintf("stop-other-%d", i), 120*time.Second, func() { n.Stop() })
		}
	}
	s.Net.Heal()

	// ---------------- peers file
	primary := victims[0]
	type entry struct {
		ID       string `json:"id"`
		Address  string `json:"address"`
		NonVoter bool   `json:"non_voter"`
	}
	var file []entry
	var want []string
	for _, p := range rec.Peers {
		id, host := p.ID, p.Host
		if id == "" {
			id = s.Nodes[primary.idx].ID
		}
		if host == 0 {
			host = primary.idx
		}
		e := entry{ID: id, Address: fmt.Sprintf("10.0.0.%d:%d", host, node.RaftPort), NonVoter: p.NonVoter}
		file = append(file, e)
		suf := proto.Suffrage_VOTER
		if p.NonVoter {
			suf = proto.Suffrage_NON_VOTER
		}
		want = append(want, fmt.Sprintf("%s@%s/%v", e.ID, e.Address, suf))
	}
	sort.Strings(want)
	wantCfg := strings.Join(want, ",")
	fileBytes, _ := json.MarshalIndent(file, "", "  ")
	c.Log.Add("%d peers file: %s", s.StepN, wantCfg)

	// ---------------- reopen
	for k, v := range victims {
		old := s.Nodes[v.idx]
		v.n = old
		if k == 0 && rec.MoveTo > 0 {
			// same identity and directory, new address
			for len(s.Nodes) <= rec.MoveTo {
				s.AddNode(sc.Knobs)
			}
			nn := s.Nodes[rec.MoveTo]
			nn.ID, nn.Dir = old.ID, old.Dir
			v.n = nn
			c.Probe("victim_moved_to_new_address")
		}
		if err := os.MkdirAll(filepath.Join(old.Dir, "raft"), 0o755); err != nil {
			c.Discard("mkdir: " + err.Error())
			return
		}
		if err := os.WriteFile(filepath.Join(old.Dir, "raft", "peers.json"), fileBytes, 0o644); err != nil {
			c.Discard("write peers: " + err.Error())
			return
		}
	}
	for _, v := range victims {
		var err error
		nn := v.n
		ok := s.Do(fmt.Sprintf("recover-open n%d", v.idx), 300*time.Second, func() { err = nn.Start() })
		if !ok || err != nil {
			c.Violate("recover-open-failed", "node n%d did not reopen with a valid peers file [%s] after %s (finished=%v): %v", v.idx, wantCfg, rec.Mode, ok, err)
			return
		}
		c.Fault("recovered-" + rec.Mode)
	}
	c.ProbeN("recoveries_performed", int(opsStat("num_recoveries")-recov0))
	synctest.Wait()

	// ---------------- oracle: configuration and data right after reopening
	check := func(when string) bool {
		for _, v := range victims {
			got, _, err := opsConfig(v.n)
			if err != nil {
				c.Violate("recover-config", "n%d: cannot read configuration %s: %v", v.idx, when, err)
				return false
			}
			if got != wantCfg {
				c.Violate("recover-config", "n%d %s: configuration is [%s] but the peers file says [%s]", v.idx, when, got, wantCfg)
				return false
			}
		}
		return true
	}
	if !check("right after reopening") {
		return
	}
	for _, v := range victims {
		post, err := s.DumpNode(v.n)
		if err != nil {
			c.Violate("recover-data", "n%d: cannot dump the recovered database: %v", v.idx, err)
			return
		}
		if !v.mayTail {
			if post != v.pre {
				c.Violate("recover-data", "n%d (%s, nothing unapplied): recovered database differs from what the node had applied: %s", v.idx, rec.Mode, sim.FirstDiff(v.pre, post))
				return
			}
			c.Probe("recovered_equal")
		} else {
			if miss := c33Missing(v.pre, post); miss != "" {
				c.Violate("recover-data", "n%d (%s, unapplied tail): recovered database lacks applied data: %s", v.idx, rec.Mode, miss)
				return
			}
			if post == v.pre {
				c.Probe("recovered_equal_despite_tail")
			} else {
				c.Probe("recovered_superset")
			}
		}
		if _, err := os.Stat(filepath.Join(v.n.Dir, "raft", "peers.json")); err == nil {
			c.Violate("recover-config", "n%d: raft/peers.json still present after a successful recovery (the next restart would recover again)", v.idx)
			return
		}
	}

	// ---------------- if the recovered voters are a quorum of the file: it must work as a cluster
	voters, upVoters := 0, 0
	for _, e := range file {
		if e.NonVoter {
			continue
		}
		voters++
		for _, v := range victims {
			if v.n.ID == e.ID && v.n.RaftAddr == e.Address {
				upVoters++
			}
		}
	}
	if voters > 0 && upVoters >= voters/2+1 {
		var l *node.Node
		s.RunUntil(func() bool { l = s.Leader(); return l != nil }, 60*time.Second)
		if l == nil {
			c.Violate("recover-no-leader", "recovered voters (%d of %d in the peers file) did not elect a leader within 60s", upVoters, voters)
			return
		}
		ok, _, err := opsExec(s, l, c33Insert(9000001))
		if !ok {
			c.Violate("recover-write-failed", "write on recovered leader n%s failed: %v", l.ID, err)
			return
		}
		opsSettle(s, 500*time.Millisecond)
		if !check("after a leader was elected and a write committed") {
			return
		}
		// every recovered node that can hear the leader must now hold the new row on top of its data
		for _, v := range victims {
			d, err := s.DumpNode(v.n)
			if err != nil || !strings.Contains(d, "|I9000001|") {
				c.Violate("recover-data", "n%d: write after recovery not applied (err=%v)", v.idx, err)
				return
			}
			if miss := c33Missing(v.pre, d); miss != "" {
				c.Violate("recover-data", "n%d: after recovery and one more write the database lacks applied data: %s", v.idx, miss)
				return
			}
		}
		c.Probe("recovered_cluster_functional")
	} else {
		s.RunFor(2 * time.Second)
		if !check("2s after reopening (no quorum of voters is up)") {
			return
		}
		c.Probe("recovered_without_quorum")
	}
	c.ProbeN("snapshot_restores", int(opsStat("num_restores")-restores0))
	c.ProbeN("snapshots_taken", int(opsStat("num_snapshots")-snaps0))
	c.Sig(fmt.Sprintf("%s/%d/%v/%d", rec.Mode, len(victims), primary.mayTail, len(primary.pre)))
}

// c33Missing returns a description of the first schema object or row of dump
// pre that is absent from dump post ("" if post contains pre).
func c33Missing(pre, post string) string {
	have := map[string]int{}
	for _, l := range strings.Split(post, "\n") {
		have[l]++
	}
	for _, l := range strings.Split(pre, "\n") {
		if l == "" || strings.HasPrefix(l, "T|") { // table headers carry row counts
			continue
		}
		if have[l] == 0 {
			if len(l) > 200 {
				l = l[:200]
			}
			return fmt.Sprintf("%q", l)
		}
		have[l]--
	}
	return ""
}

func init() {
	core.Register(&core.Prop{ID: "C33", Bubble: true, Gen: c33Gen, Run: c33Run})
}
