package props

import (
	"context"
	"database/sql"
	"encoding/json"
	"errors"
	"fmt"
	"os"
	"path/filepath"
	"sort"
	"strings"
	"sync"
	"testing/synctest"
	"time"

	sqlite3 "github.com/mattn/go-sqlite3"
	"github.com/rqlite/rqlite/v10/command/proto"
	"github.com/rqlite/rqlite/v10/verifx"
	"verifsim/core"
	"verifsim/node"
	"verifsim/sim"
)

// C33: manual recovery (raft/peers.json) keeps all applied data and starts the
// node with exactly the configuration in the peers file.
//
// One run = a 1-3 node cluster with a seeded history of writes (inserts,
// updates, deletes, DDL, multi-statement transactions), automatic and user
// snapshots (with log truncation), whole-database loads (through the log) and
// boots (single node, bypassing the log), follower isolation and in-flight
// writes; then the victim node(s) are cut off, their applied state is captured
// (logical dump through an independent SQLite connection), they are shut down
// gracefully (with / without snapshot on close) or crashed (directory image), a
// generated peers.json is placed in <dir>/raft/, and they are reopened (possibly
// on a new address). Oracle per recovered node: reopen succeeds; the dump equals
// the captured one when its log had no unapplied entries, and contains it
// otherwise; Store.Nodes() equals the peers file exactly (ids, addresses,
// suffrage); if the recovered voters form a quorum of the file, a leader
// appears, a new write is accepted and the configuration is still the file's.

type c33Op struct {
	Kind string `json:"k"` // ins req mix fk async snap load boot isolate heal run
	N    int    `json:"n,omitempty"`
	M    int    `json:"m,omitempty"`
	Ms   int    `json:"ms,omitempty"`
}

type c33Peer struct {
	ID       string `json:"id"`
	Host     int    `json:"host"` // 10.0.0.<host>:4002
	NonVoter bool   `json:"non_voter,omitempty"`
}

type c33Recovery struct {
	Victims []int     `json:"victims"` // members that are recovered (first is the primary victim); 0 = leader
	Mode    string    `json:"mode"`    // stop | stop-nosnap | crash
	Peers   []c33Peer `json:"peers"`   // content of the peers file, same on every recovered node
	MoveTo  int       `json:"move_to"` // primary victim restarts on host 10.0.0.<MoveTo> (0 = same address)
	// Inject: something goes wrong DURING the primary victim's first recovery
	// attempt, at the k-th occurrence (k = 1 + K mod N, N learnt by a counting
	// pre-run on a saved copy of the directory) of ANY hook point that fires while
	// the node opens (RecoverNode, snapshot sink/store/staging/plan code, restore).
	// "crash": the process dies there (directory image taken at the hook) and is
	// started again on the image, peers.json still in place. "error": that point
	// returns an I/O error; if Open fails the node is simply started again.
	Inject string `json:"inject,omitempty"`
	K      int    `json:"inject_k,omitempty"`
}

type c33Scenario struct {
	Seed  uint64      `json:"seed"`
	Nodes int         `json:"nodes"`
	Knobs node.Knobs  `json:"knobs"`
	Tick  float64     `json:"tick"`
	Ops   []c33Op     `json:"ops"`
	Rec   c33Recovery `json:"rec"`
	// Second round (only if the first recovery produced a working cluster): more
	// history on the recovered nodes, then shutdown and recovery AGAIN.
	Ops2 []c33Op      `json:"ops2,omitempty"`
	Rec2 *c33Recovery `json:"rec2,omitempty"`
}

func c33Gen(r *core.Rand, tier string) any {
	sc := &c33Scenario{Seed: r.Uint64()}
	sc.Nodes = []int{1, 1, 2, 3, 3}[r.Intn(5)]
	sc.Tick = []float64{0.03, 0.1, 0.2}[r.Intn(3)]
	hb := time.Duration(r.Range(2, 6)) * 100 * time.Millisecond
	sc.Knobs = node.Knobs{HeartbeatTimeout: hb, ElectionTimeout: hb, LeaderLeaseTimeout: hb / 2, ApplyTimeout: 4 * time.Second}
	if r.Bool(0.7) {
		sc.Knobs.SnapshotThreshold = uint64(r.Range(3, 10))
		sc.Knobs.SnapshotInterval = time.Duration(r.Range(300, 2500)) * time.Millisecond
	}
	if r.Bool(0.4) {
		sc.Knobs.SnapshotReapThreshold = r.Range(2, 4)
	}
	sc.Knobs.FKConstraints = r.Bool(0.4)
	nops := r.Range(4, 25)
	isolated := false
	for i := 0; i < nops; i++ {
		x := r.Intn(100)
		if sc.Knobs.FKConstraints && r.Bool(0.3) {
			// parent/child statements, many of which the live node rejects
			sc.Ops = append(sc.Ops, c33Op{Kind: "fk", N: r.Intn(1000)})
			continue
		}
		switch {
		case x < 18:
			sc.Ops = append(sc.Ops, c33Op{Kind: "ins", N: r.Range(1, 6)})
		case x < 30:
			// writes through the unified request API (pure write / read+write, with / without transaction)
			sc.Ops = append(sc.Ops, c33Op{Kind: "req", N: r.Range(1, 3), M: r.Intn(4)})
		case x < 50:
			sc.Ops = append(sc.Ops, c33Op{Kind: "mix", N: r.Intn(1000)})
		case x < 62:
			sc.Ops = append(sc.Ops, c33Op{Kind: "snap", N: r.Intn(4), M: r.Intn(3)})
		case x < 70:
			sc.Ops = append(sc.Ops, c33Op{Kind: "load", N: r.Range(0, 12)})
		case x < 74:
			sc.Ops = append(sc.Ops, c33Op{Kind: "boot", N: r.Range(0, 12)})
		case x < 82:
			if sc.Nodes >= 2 {
				if !isolated {
					sc.Ops = append(sc.Ops, c33Op{Kind: "isolate", N: r.Intn(4)})
				} else {
					sc.Ops = append(sc.Ops, c33Op{Kind: "heal"})
				}
				isolated = !isolated
			}
		case x < 90:
			sc.Ops = append(sc.Ops, c33Op{Kind: "run", Ms: r.Range(50, 3000)})
		default:
			sc.Ops = append(sc.Ops, c33Op{Kind: "async", N: r.Range(1, 4), M: r.Intn(25)})
		}
	}
	if r.Bool(0.4) {
		sc.Ops = append(sc.Ops, c33Op{Kind: "async", N: r.Range(1, 4), M: r.Intn(25)})
	}
	// recovery
	rec := &sc.Rec
	rec.Mode = []string{"stop", "stop-nosnap", "crash", "crash"}[r.Intn(4)]
	primary := r.Intn(sc.Nodes + 1) // 0 = leader
	rec.Victims = []int{primary}
	kind := r.Intn(5)
	if sc.Nodes == 1 && (kind == 1 || kind == 2) {
		kind = 0
	}
	pid := func(i int) string { return fmt.Sprintf("n%d", i) }
	switch kind {
	case 0: // the victim alone, as sole voter
		rec.Peers = []c33Peer{{ID: "", Host: 0}}
	case 1: // documented procedure: every node, same file everywhere, all recovered
		rec.Victims = nil
		for i := 1; i <= sc.Nodes; i++ {
			rec.Victims = append(rec.Victims, i)
			rec.Peers = append(rec.Peers, c33Peer{ID: pid(i), Host: i, NonVoter: i > 1 && r.Bool(0.25)})
		}
		rec.Victims[0], rec.Victims[primary%sc.Nodes] = rec.Victims[primary%sc.Nodes], rec.Victims[0]
	case 2: // victim plus the others (which stay down), mixed suffrage
		rec.Peers = []c33Peer{{ID: "", Host: 0}}
		for i := 1; i <= sc.Nodes; i++ {
			rec.Peers = append(rec.Peers, c33Peer{ID: pid(i) + "x", Host: 10 + i, NonVoter: r.Bool(0.5)})
		}
	case 3: // victim moves to a new address, plus a never-seen non-voter
		rec.MoveTo = 9
		rec.Peers = []c33Peer{{ID: "", Host: 9}}
		if r.Bool(0.5) {
			rec.Peers = append(rec.Peers, c33Peer{ID: "ghost", Host: 8, NonVoter: true})
		}
	case 4: // victim listed as a non-voter next to an absent voter: it can never lead
		rec.Peers = []c33Peer{{ID: "", Host: 0, NonVoter: true}, {ID: "absent", Host: 12}}
	}
	// shuffle the file's order (order must not matter)
	for i := len(rec.Peers) - 1; i > 0; i-- {
		j := r.Intn(i + 1)
		rec.Peers[i], rec.Peers[j] = rec.Peers[j], rec.Peers[i]
	}
	if x := r.Intn(100); x < 22 {
		rec.Inject, rec.K = "crash", r.Intn(1000)
	} else if x < 40 {
		rec.Inject, rec.K = "error", r.Intn(1000)
	}
	// second round: needs a working cluster after the first one (kinds 0, 1, 3)
	if (kind == 0 || kind == 1 || kind == 3) && r.Bool(0.5) {
		for i, n := 0, r.Range(1, 8); i < n; i++ {
			x := r.Intn(100)
			switch {
			case sc.Knobs.FKConstraints && x < 20:
				sc.Ops2 = append(sc.Ops2, c33Op{Kind: "fk", N: r.Intn(1000)})
			case x < 33:
				sc.Ops2 = append(sc.Ops2, c33Op{Kind: "ins", N: r.Range(1, 5)})
			case x < 45:
				sc.Ops2 = append(sc.Ops2, c33Op{Kind: "req", N: r.Range(1, 3), M: r.Intn(4)})
			case x < 60:
				sc.Ops2 = append(sc.Ops2, c33Op{Kind: "mix", N: r.Intn(1000)})
			case x < 85:
				// a snapshot after the recovery snapshot is an incremental one
				sc.Ops2 = append(sc.Ops2, c33Op{Kind: "snap", N: r.Intn(4), M: r.Intn(3)})
			case x < 92:
				sc.Ops2 = append(sc.Ops2, c33Op{Kind: "run", Ms: r.Range(50, 3000)})
			default:
				sc.Ops2 = append(sc.Ops2, c33Op{Kind: "async", N: r.Range(1, 3), M: r.Intn(25)})
			}
		}
		r2 := &c33Recovery{Mode: []string{"stop", "stop-nosnap", "crash", "crash"}[r.Intn(4)]}
		if r.Bool(0.5) {
			// the (then) leader alone
			r2.Victims = []int{0}
			r2.Peers = []c33Peer{{ID: "", Host: 0}}
		} else {
			// every member of the recovered cluster, same file everywhere, same addresses
			r2.Victims = []int{-1}
		}
		if x := r.Intn(100); x < 15 {
			r2.Inject, r2.K = "crash", r.Intn(1000)
		} else if x < 30 {
			r2.Inject, r2.K = "error", r.Intn(1000)
		}
		sc.Rec2 = r2
	}
	return sc
}

// ---------------------------------------------------------------- SQL workload (deterministic: no time, no random)

const c33Schema = "CREATE TABLE IF NOT EXISTS t (id INTEGER PRIMARY KEY, v INTEGER, s TEXT, b BLOB, f REAL)"

func c33Insert(k int) string {
	return fmt.Sprintf("INSERT INTO t(v,s,b,f) VALUES(%d,'row-%d',x'%02x%02x',%d.5)", k, k, k%256, (k*7)%256, k)
}

func c33Mix(k int) []string {
	switch k % 7 {
	case 0:
		return []string{fmt.Sprintf("UPDATE t SET v=v+1000, s=s||'u' WHERE id %% 3 = %d", k%3)}
	case 1:
		return []string{"DELETE FROM t WHERE id = (SELECT MIN(id) FROM t)"}
	case 2:
		return []string{fmt.Sprintf("CREATE TABLE IF NOT EXISTS aux%d (a INTEGER PRIMARY KEY, b TEXT)", k%4),
			fmt.Sprintf("INSERT INTO aux%d(b) VALUES('aux-%d')", k%4, k)}
	case 3:
		return []string{"CREATE INDEX IF NOT EXISTS t_v ON t(v)", c33Insert(100000 + k)}
	case 4:
		return []string{c33Insert(200000 + k), fmt.Sprintf("UPDATE t SET f=f*2 WHERE v=%d", 200000+k), c33Insert(300000 + k)}
	case 5:
		return []string{fmt.Sprintf("INSERT INTO t(v,s) VALUES(%d, NULL)", 400000+k), "UPDATE t SET b=NULL WHERE v % 5 = 0"}
	default:
		return []string{fmt.Sprintf("DROP TABLE IF EXISTS aux%d", k%4)}
	}
}

// Parent/child workload for stores with foreign-key enforcement. With the
// constraint enforced several of these are rejected (statement-level error,
// nothing applied); all of them are still entries of the raft log.
var c33FKSchema = []string{
	"CREATE TABLE IF NOT EXISTS parent (id INTEGER PRIMARY KEY, name TEXT)",
	"CREATE TABLE IF NOT EXISTS child (id INTEGER PRIMARY KEY, pid INTEGER REFERENCES parent(id), v INTEGER)",
	"CREATE TABLE IF NOT EXISTS child2 (id INTEGER PRIMARY KEY, pid INTEGER REFERENCES parent(id) ON DELETE CASCADE, v INTEGER)",
}

func c33FK(k int) (stmts []string, tx bool) {
	switch k % 9 {
	case 0, 1:
		return []string{fmt.Sprintf("INSERT INTO parent(name) VALUES('p-%d')", k)}, false
	case 2:
		return []string{fmt.Sprintf("INSERT INTO child(pid,v) VALUES((SELECT MAX(id) FROM parent),%d)", k)}, false
	case 3: // no such parent
		return []string{fmt.Sprintf("INSERT INTO child(pid,v) VALUES(%d,%d)", 900000+k, k)}, false
	case 4: // parent still referenced by child (no action = refuse)
		return []string{"DELETE FROM parent WHERE id = (SELECT MIN(pid) FROM child WHERE pid IS NOT NULL)"}, false
	case 5:
		return []string{fmt.Sprintf("INSERT INTO child2(pid,v) VALUES((SELECT MIN(id) FROM parent),%d)", k)}, false
	case 6: // cascades to child2 when enforced
		return []string{"DELETE FROM parent WHERE id NOT IN (SELECT pid FROM child WHERE pid IS NOT NULL) AND id IN (SELECT pid FROM child2 WHERE pid IS NOT NULL)"}, false
	case 7: // transaction with a violating statement in the middle: rolled back as a whole when enforced
		return []string{fmt.Sprintf("INSERT INTO parent(name) VALUES('tx-%d')", k), fmt.Sprintf("INSERT INTO child2(pid,v) VALUES(%d,%d)", 800000+k, k), c33Insert(500000 + k)}, true
	default: // re-parent to a missing parent
		return []string{fmt.Sprintf("UPDATE child SET pid = %d WHERE id = (SELECT MIN(id) FROM child)", 700000+k)}, false
	}
}

var c33RegOnce sync.Once

// c33MakeDB builds a SQLite file (rollback-journal mode) holding table t with
// n rows and a marker table, and returns its bytes.
func c33MakeDB(dir string, gen, n int, fk bool) ([]byte, error) {
	c33RegOnce.Do(func() { sql.Register("verif-ops-gen", &sqlite3.SQLiteDriver{}) })
	p := filepath.Join(dir, fmt.Sprintf("load-%d.sqlite", gen))
	os.Remove(p)
	db, err := sql.Open("verif-ops-gen", "file:"+p)
	if err != nil {
		return nil, err
	}
	db.SetMaxOpenConns(1)
	stmts := []string{c33Schema, fmt.Sprintf("CREATE TABLE loaded%d (g INTEGER)", gen), fmt.Sprintf("INSERT INTO loaded%d VALUES(%d)", gen, gen)}
	for i := 0; i < n; i++ {
		stmts = append(stmts, c33Insert(1000000*gen+i))
	}
	if fk {
		stmts = append(stmts, c33FKSchema...)
		stmts = append(stmts, fmt.Sprintf("INSERT INTO parent(name) VALUES('loaded-%d')", gen), "INSERT INTO child(pid,v) VALUES(1,1)")
	}
	for _, q := range stmts {
		if _, err := db.Exec(q); err != nil {
			db.Close()
			return nil, err
		}
	}
	if err := db.Close(); err != nil {
		return nil, err
	}
	defer os.Remove(p)
	return os.ReadFile(p)
}

// c33ExecMulti returns ok (request went through the log) and the number of
// statements that came back with a statement-level error.
func c33ExecMulti(s *sim.Sim, n *node.Node, stmts []string, tx bool) (bool, int) {
	ok, rejected := false, 0
	s.Do("exec-multi "+n.ID, 60*time.Second, func() {
		er := &proto.ExecuteRequest{Request: &proto.Request{Transaction: tx}}
		for _, q := range stmts {
			er.Request.Statements = append(er.Request.Statements, &proto.Statement{Sql: q})
		}
		res, _, err := n.Store.Execute(context.Background(), er)
		ok = err == nil
		for _, r := range res {
			if r.GetError() != "" || (r.GetE() != nil && r.GetE().Error != "") {
				rejected++
			}
		}
	})
	return ok, rejected
}

// ---------------------------------------------------------------- run

type c33Victim struct {
	orig    *node.Node
	pre     string
	mayTail bool
	lastIdx uint64 // last log index / term when the victim was cut off
	lastTrm uint64
	n       *node.Node // node object used for the restart (may differ from the original when moved)
}

type c33Run struct {
	c       *core.Ctx
	s       *sim.Sim
	sc      *c33Scenario
	members []*node.Node // nodes of the current cluster (1-based positions in op selectors)
	nextK   int
	loadGen int
	lagging bool // some node may be behind: only inserts from now on (so that "contains" is well defined)
	// fault injection inside a recovery attempt (see c33Recovery.Inject)
	hookOn   bool   // hook points are being counted (only while the primary victim opens, nothing else runs)
	hookMode string // count | crash | error
	hookK    int    // act at this occurrence
	hits     int
	hitPoint string
	hookDir  string
	hookImg  string
	imgOK    bool
	fatals   []string
}

var errC33Injected = errors.New("verif: injected I/O error")

func c33RunFn(c *core.Ctx, raw json.RawMessage) {
	var sc c33Scenario
	if err := json.Unmarshal(raw, &sc); err != nil {
		panic(err)
	}
	c.Rng = core.NewRand(sc.Seed)
	s := sim.New(c)
	s.TickProb = sc.Tick
	defer s.Shutdown()
	if sc.Nodes < 1 {
		sc.Nodes = 1
	}
	x := &c33Run{c: c, s: s, sc: &sc}
	// crash images inside RecoverNode: the hook copies the directory synchronously
	// (the recovering process is a single goroutine at that point, nothing else of
	// that node runs yet)
	verifx.InstallHooks(x.hit, nil, nil, nil, x.fatal)
	defer verifx.ResetHooks()
	if err := s.Boot(sc.Nodes, sc.Knobs, nil); err != nil {
		c.Discard("boot-failed: " + err.Error())
		return
	}
	for i := 1; i <= sc.Nodes; i++ {
		x.members = append(x.members, s.Nodes[i])
	}
	schema := []string{c33Schema}
	if sc.Knobs.FKConstraints {
		schema = append(schema, c33FKSchema...)
	}
	schemaOK := false
	for attempt := 0; attempt < 5 && !schemaOK; attempt++ {
		// leadership may still move right after the joins; the statements are idempotent
		l := opsSettle(s, 0)
		if l == nil {
			continue
		}
		ok, rej := c33ExecMulti(s, l, schema, false)
		schemaOK = ok && rej == 0
	}
	if !schemaOK {
		c.Discard("schema-failed")
		return
	}
	opsSettle(s, 0)
	restores0, recov0 := opsStat("num_restores"), opsStat("num_recoveries")
	snaps0 := opsStat("num_snapshots")
	defer func() {
		c.ProbeN("recoveries_performed", int(opsStat("num_recoveries")-recov0))
		c.ProbeN("snapshot_restores", int(opsStat("num_restores")-restores0))
		c.ProbeN("snapshots_taken", int(opsStat("num_snapshots")-snaps0))
	}()

	if !x.history(sc.Ops) || len(x.fatals) > 0 {
		return
	}
	recovered, functional, ok := x.recoverRound(sc.Rec, 1)
	if !ok || c.Failed() {
		return
	}
	if sc.Rec2 != nil && functional && len(recovered) > 0 {
		// ---------------- second round on the recovered cluster
		x.members = recovered
		x.lagging = false
		s.Net.Heal()
		opsSettle(s, 0)
		if !x.history(sc.Ops2) {
			return
		}
		rec2 := *sc.Rec2
		if len(rec2.Victims) == 1 && rec2.Victims[0] == -1 {
			rec2.Victims, rec2.Peers = nil, nil
			for i, m := range x.members {
				rec2.Victims = append(rec2.Victims, i+1)
				host := 0
				fmt.Sscanf(m.HostName, "10.0.0.%d", &host)
				rec2.Peers = append(rec2.Peers, c33Peer{ID: m.ID, Host: host})
			}
		}
		c.Probe("second_round_started")
		if _, _, ok := x.recoverRound(rec2, 2); ok && !c.Failed() {
			c.Probe("second_round_recovered")
		}
	}
}

// hit is the verifhook handler. Only active while the primary victim opens.
func (x *c33Run) hit(point string) error {
	if !x.hookOn {
		return nil
	}
	x.hits++
	if x.hits != x.hookK {
		return nil
	}
	point = strings.ReplaceAll(point, x.s.Dir, "") // some point names carry a file path
	switch x.hookMode {
	case "crash":
		x.hitPoint = point
		os.RemoveAll(x.hookImg)
		if err := node.CopyTree(x.hookDir, x.hookImg); err != nil {
			x.c.Log.Add("crash image failed: %v", err)
		} else {
			x.imgOK = true
		}
	case "error":
		x.hitPoint = point
		return errC33Injected
	}
	return nil
}

// fatal is called where rqlite would deliberately exit the process (e.g. the
// snapshot sink when an incremental snapshot loses its staged WAL directory to
// a concurrent snapshot install). The process cannot be killed from here and
// the node would go on running in a state the real one never has, so the run
// is not judged: documented discard reason "node-hard-exit".
func (x *c33Run) fatal(point string, err error) bool {
	x.fatals = append(x.fatals, point+": "+strings.ReplaceAll(fmt.Sprint(err), x.s.Dir, ""))
	x.c.Discard("node-hard-exit: " + point)
	return true
}

// clean renders an error without the per-process scratch directory (event-log
// lines must be the same in every process).
func (x *c33Run) clean(err error) string {
	if err == nil {
		return "<nil>"
	}
	return strings.ReplaceAll(err.Error(), x.s.Dir, "")
}

func (x *c33Run) leader() *node.Node { return x.s.Leader() }

// history runs a list of workload ops on the current cluster. false = stop the run.
func (x *c33Run) history(ops []c33Op) bool {
	c, s := x.c, x.s
	for _, op := range ops {
		if s.Capped || c.Failed() {
			break
		}
		l := x.leader()
		switch op.Kind {
		case "ins":
			for k := 0; k < op.N && k < 10 && l != nil; k++ {
				x.nextK++
				if ok, _, _ := opsExec(s, l, c33Insert(x.nextK)); ok {
					c.Probe("writes_acked")
				}
			}
		case "req":
			// Store.Request (what /db/request uses): the log entry is an EXECUTE_QUERY
			// command that changes the database. Inserts only, so it may sit in a tail.
			if l == nil {
				continue
			}
			eqr := &proto.ExecuteQueryRequest{Request: &proto.Request{Transaction: op.M&1 == 1}}
			if op.M&2 == 2 {
				eqr.Request.Statements = append(eqr.Request.Statements, &proto.Statement{Sql: "SELECT COUNT(*) FROM t"})
			}
			for k := 0; k < op.N; k++ {
				x.nextK++
				eqr.Request.Statements = append(eqr.Request.Statements, &proto.Statement{Sql: c33Insert(x.nextK)})
			}
			if op.M&2 == 2 {
				eqr.Request.Statements = append(eqr.Request.Statements, &proto.Statement{Sql: "SELECT MAX(v) FROM t"})
			}
			var rerr error
			var idx uint64
			s.Do("request "+l.ID, 60*time.Second, func() { _, _, idx, rerr = l.Store.Request(context.Background(), eqr) })
			if rerr == nil && idx > 0 {
				c.Probe("unified_request_writes_acked")
				if op.M&2 == 2 {
					c.Probe("unified_request_read_write_acked")
				}
			}
		case "mix", "fk":
			if l == nil {
				continue
			}
			if x.lagging {
				x.nextK++
				opsExec(s, l, c33Insert(x.nextK))
				continue
			}
			stmts, tx := c33Mix(op.N), op.N%2 == 0
			if op.Kind == "fk" {
				stmts, tx = c33FK(op.N)
			}
			ok, rej := c33ExecMulti(s, l, stmts, tx)
			if ok && op.Kind == "mix" {
				c.Probe("mixed_writes_acked")
			}
			if ok && op.Kind == "fk" {
				c.Probe("fk_requests_logged")
				if rej > 0 {
					c.Probe("fk_requests_rejected_live")
				}
			}
			// updates/deletes/DDL are never left in an unapplied tail (row-wise
			// containment is only meaningful for tails of inserts) - whatever the
			// outcome of the request was
			if !x.settleHard(op.Kind) {
				return false
			}
		case "async":
			if l == nil {
				continue
			}
			x.lagging = true
			for k := 0; k < op.N && k < 6; k++ {
				x.nextK++
				q := c33Insert(x.nextK)
				s.Go("async-w", func() {
					er := &proto.ExecuteRequest{Request: &proto.Request{Statements: []*proto.Statement{{Sql: q}}}}
					l.Store.Execute(context.Background(), er)
				})
			}
			for k := 0; k < op.M; k++ {
				s.Step()
			}
			c.Probe("async_writes_started")
		case "snap":
			tgt := l
			if op.M > 0 && op.M <= len(x.members) && x.members[op.M-1].Up {
				tgt = x.members[op.M-1]
			}
			if tgt == nil {
				continue
			}
			var err error
			s.Do("snapshot", 60*time.Second, func() { err = tgt.Store.Snapshot(uint64(op.N)) })
			c.Log.Add("%d snapshot %s@%s trailing=%d err=%v", s.StepN, tgt.ID, tgt.HostName, op.N, x.clean(err))
			if err == nil {
				c.Probe("user_snapshots")
			}
		case "load", "boot":
			if l == nil || x.lagging || (op.Kind == "boot" && len(x.members) != 1) {
				continue
			}
			x.loadGen++
			data, err := c33MakeDB(s.Dir, x.loadGen, op.N, x.sc.Knobs.FKConstraints)
			if err != nil {
				c.Discard("make-load-db: " + err.Error())
				return false
			}
			var lerr error
			if op.Kind == "load" {
				s.Do("load", 60*time.Second, func() { lerr = l.Store.Load(context.Background(), &proto.LoadRequest{Data: data}) })
			} else {
				s.Do("boot", 60*time.Second, func() { _, lerr = l.Store.ReadFrom(strings.NewReader(string(data))) })
			}
			c.Log.Add("%d %s gen=%d rows=%d err=%v", s.StepN, op.Kind, x.loadGen, op.N, x.clean(lerr))
			if lerr == nil {
				c.Probe(op.Kind + "s")
			} else {
				c.Probe(op.Kind + "_failed_or_unknown")
			}
			// a load is never left in an unapplied tail: wait for everybody. Also when the
			// request FAILED: "leadership lost while committing log" leaves the entry in the
			// old leader's log, where it is either overwritten by the next leader or
			// committed after all - both must have happened before a victim is chosen.
			if !x.settleHard(op.Kind) {
				return false
			}
		case "isolate":
			if l == nil {
				continue
			}
			var fs []*node.Node
			for _, m := range x.members {
				if m != l && m.Up {
					fs = append(fs, m)
				}
			}
			if len(fs) == 0 {
				continue
			}
			tgt := fs[op.N%len(fs)]
			x.isolate(tgt)
			if !opsQuorumReachable(s, l) {
				s.Net.Heal()
				continue
			}
			x.lagging = true
			c.Fault("isolate-follower")
			c.Log.Add("%d isolate %s@%s", s.StepN, tgt.ID, tgt.HostName)
		case "heal":
			s.Net.Heal()
			c.Fault("heal")
			c.Log.Add("%d heal", s.StepN)
		case "run":
			s.RunFor(time.Duration(op.Ms) * time.Millisecond)
		}
	}
	return !c.Failed() && !s.Capped && len(x.fatals) == 0
}

// settleHard waits until the cluster has demonstrably settled (opsSettled). A
// run in which that does not happen within 3 simulated minutes cannot be
// judged row-wise and is discarded under a documented reason.
func (x *c33Run) settleHard(after string) bool {
	opsSettle(x.s, 0)
	if opsSettled(x.s) {
		return true
	}
	if !x.s.RunUntil(func() bool { return opsSettled(x.s) }, 120*time.Second) {
		x.c.Log.Add("%d cluster did not settle after %s", x.s.StepN, after)
		x.c.Discard("not-settled-after-non-insert-request")
		return false
	}
	return true
}

func (x *c33Run) isolate(n *node.Node) {
	var rest []string
	for _, m := range x.s.Nodes[1:] {
		if m.HostName != n.HostName {
			rest = append(rest, m.HostName)
		}
	}
	x.s.Net.Partition([]string{n.HostName}, rest)
}

// recoverRound shuts the victims down (or crashes them), recovers them with a
// peers file and applies the oracle. It returns the recovered node objects and
// whether they formed a working cluster; ok=false means the run ends here.
func (x *c33Run) recoverRound(rec c33Recovery, round int) (recovered []*node.Node, functional, ok bool) {
	c, s := x.c, x.s
	tag := fmt.Sprintf("round %d", round)
	var victims []*c33Victim
	seen := map[*node.Node]bool{}
	for _, v := range rec.Victims {
		var n *node.Node
		if v == 0 {
			if n = x.leader(); n == nil {
				n = x.members[0]
			}
		} else if v >= 1 && v <= len(x.members) {
			n = x.members[v-1]
		}
		if n == nil || seen[n] || !n.Up {
			continue
		}
		seen[n] = true
		victims = append(victims, &c33Victim{orig: n})
	}
	if len(victims) == 0 {
		c.Res.Trivial = round == 1
		return nil, false, false
	}
	// cut every victim off first: from here on its state only changes by its own shutdown
	for _, v := range victims {
		x.isolate(v.orig)
	}
	synctest.Wait()
	for _, v := range victims {
		n := v.orig
		rs := n.Store.VerifReadState()
		v.mayTail = rs.LastLogIndex > rs.RaftAppliedIndex
		v.lastIdx, v.lastTrm = rs.LastLogIndex, n.Store.VerifLastLogTerm()
		c.Log.Add("%d %s victim %s@%s leader=%v last-log=%d raft-applied=%d fsm=%d commit=%d may-have-unapplied-tail=%v mode=%s",
			s.StepN, tag, n.ID, n.HostName, rs.Leader, rs.LastLogIndex, rs.RaftAppliedIndex, rs.FSMIndex, rs.CommitIndex, v.mayTail, rec.Mode)
		if v.mayTail {
			c.Probe("victim_with_unapplied_tail")
		} else {
			c.Probe("victim_fully_applied")
		}
		var err error
		switch rec.Mode {
		case "crash":
			v.pre, err = s.DumpNode(n)
			if err == nil {
				for i, m := range s.Nodes {
					if m == n {
						err = s.Crash(i)
					}
				}
			}
		default:
			n.Store.NoSnapshotOnClose = rec.Mode == "stop-nosnap"
			var serr error
			if !s.Do("stop-victim "+n.ID, 120*time.Second, func() { serr = n.Stop() }) || serr != nil {
				c.Discard(fmt.Sprintf("victim-stop-failed: %v", serr))
				return nil, false, false
			}
			c.Fault("graceful-stop")
			v.pre, err = s.DumpNode(n) // files at rest
		}
		if err != nil {
			c.Discard("victim-capture-failed: " + err.Error())
			return nil, false, false
		}
	}
	// every other node goes away as well (quorum is lost for good: that is when manual recovery is used)
	for _, n := range s.Nodes[1:] {
		if !seen[n] && n.Up {
			nn := n
			nn.Store.NoSnapshotOnClose = true
			s.Do("stop-other "+nn.ID, 120*time.Second, func() { nn.Stop() })
		}
	}
	s.Net.Heal()

	// ---------------- peers file
	primary := victims[0]
	type entry struct {
		ID       string `json:"id"`
		Address  string `json:"address"`
		NonVoter bool   `json:"non_voter"`
	}
	phost := 0
	fmt.Sscanf(primary.orig.HostName, "10.0.0.%d", &phost)
	var file []entry
	var want []string
	for _, p := range rec.Peers {
		id, host := p.ID, p.Host
		if id == "" {
			id = primary.orig.ID
		}
		if host == 0 {
			host = phost
		}
		e := entry{ID: id, Address: fmt.Sprintf("10.0.0.%d:%d", host, node.RaftPort), NonVoter: p.NonVoter}
		file = append(file, e)
		suf := proto.Suffrage_VOTER
		if p.NonVoter {
			suf = proto.Suffrage_NON_VOTER
		}
		want = append(want, fmt.Sprintf("%s@%s/%v", e.ID, e.Address, suf))
	}
	sort.Strings(want)
	wantCfg := strings.Join(want, ",")
	fileBytes, _ := json.MarshalIndent(file, "", "  ")
	c.Log.Add("%d %s peers file: %s", s.StepN, tag, wantCfg)

	// ---------------- reopen
	for k, v := range victims {
		old := v.orig
		v.n = old
		if k == 0 && rec.MoveTo > 0 {
			// same identity and directory, new address
			for len(s.Nodes) <= rec.MoveTo {
				s.AddNode(x.sc.Knobs)
			}
			nn := s.Nodes[rec.MoveTo]
			nn.ID, nn.Dir = old.ID, old.Dir
			v.n = nn
			c.Probe("victim_moved_to_new_address")
		}
		if err := os.MkdirAll(filepath.Join(old.Dir, "raft"), 0o755); err != nil {
			c.Discard("mkdir: " + err.Error())
			return nil, false, false
		}
		if err := os.WriteFile(filepath.Join(old.Dir, "raft", "peers.json"), fileBytes, 0o644); err != nil {
			c.Discard("write peers: " + err.Error())
			return nil, false, false
		}
	}
	for k, v := range victims {
		nn := v.n
		open := func(what string) bool {
			var err error
			fin := s.Do(fmt.Sprintf("%s %s@%s", what, nn.ID, nn.HostName), 300*time.Second, func() { err = nn.Start() })
			if !fin || err != nil {
				c.Violate("recover-open-failed", "%s: node %s did not reopen with a valid peers file [%s] after %s (%s, finished=%v): %v", tag, nn.ID, wantCfg, rec.Mode, what, fin, x.clean(err))
				return false
			}
			return true
		}
		tryOpen := func(what string) (bool, error) {
			var err error
			x.hits, x.hitPoint, x.imgOK = 0, "", false
			x.hookOn = true
			fin := s.Do(fmt.Sprintf("%s %s@%s", what, nn.ID, nn.HostName), 300*time.Second, func() { err = nn.Start() })
			x.hookOn = false
			return fin, err
		}
		restoreDir := func(from string) bool {
			os.RemoveAll(nn.Dir)
			if err := os.Rename(from, nn.Dir); err != nil {
				c.Discard("dir-restore: " + err.Error())
				return false
			}
			return true
		}
		if k == 0 && rec.Inject != "" {
			// counting pre-run on the real directory (same path), then put the saved copy back
			bak := nn.Dir + ".bak"
			os.RemoveAll(bak)
			if err := node.CopyTree(nn.Dir, bak); err != nil {
				c.Discard("dir-backup: " + err.Error())
				return nil, false, false
			}
			x.hookMode, x.hookK = "count", -1
			if fin, err := tryOpen("recover-open(counting)"); !fin || err != nil {
				c.Violate("recover-open-failed", "%s: node %s did not reopen with a valid peers file [%s] after %s (finished=%v): %v", tag, nn.ID, wantCfg, rec.Mode, fin, x.clean(err))
				return nil, false, false
			}
			total := x.hits
			nn.Store.NoSnapshotOnClose = true
			s.Do("discard-counting-attempt "+nn.ID, 120*time.Second, func() { nn.Stop() })
			if !restoreDir(bak) {
				return nil, false, false
			}
			if total == 0 {
				c.Probe("inject_no_hook_points")
				if !open("recover-open") {
					return nil, false, false
				}
			} else {
				x.hookMode, x.hookK = rec.Inject, 1+rec.K%total
				x.hookDir, x.hookImg = nn.Dir, nn.Dir+".rimg"
				fin, err := tryOpen(fmt.Sprintf("recover-open(%s at hook occurrence %d of %d)", rec.Inject, x.hookK, total))
				c.Log.Add("%d %s inject %s at occurrence %d/%d = %s -> finished=%v err=%v", s.StepN, tag, rec.Inject, x.hookK, total, x.hitPoint, fin, x.clean(err))
				if !fin {
					c.Violate("recover-open-failed", "%s: recovery attempt of node %s with %s at %s did not finish", tag, nn.ID, rec.Inject, x.hitPoint)
					return nil, false, false
				}
				switch {
				case rec.Inject == "crash" && x.imgOK:
					// the process died at the hook: throw the attempt away, start again on the image
					if err == nil {
						nn.Store.NoSnapshotOnClose = true
						s.Do("discard-attempt "+nn.ID, 120*time.Second, func() { nn.Stop() })
					} else {
						nn.Store.VerifAbandon()
					}
					if !restoreDir(x.hookImg) {
						return nil, false, false
					}
					c.Fault("crash-in-recovery")
					c.Probe("crash_in_recovery@" + x.hitPoint)
					if !open("recover-open-after-crash-in-recovery") {
						return nil, false, false
					}
				case err != nil:
					if rec.Inject != "error" || x.hitPoint == "" {
						c.Violate("recover-open-failed", "%s: node %s did not reopen with a valid peers file [%s] after %s: %v", tag, nn.ID, wantCfg, rec.Mode, x.clean(err))
						return nil, false, false
					}
					// the injected I/O error made Open fail: the process exits, the operator starts it again
					nn.Store.VerifAbandon()
					c.Fault("io-error-in-recovery")
					c.Probe("io_error_failed_open@" + x.hitPoint)
					if !open("recover-open-after-io-error") {
						return nil, false, false
					}
				default:
					// the attempt went through (point not reached again, or the error was tolerated)
					c.Probe("inject_attempt_succeeded_anyway")
				}
			}
		} else if !open("recover-open") {
			return nil, false, false
		}
		c.Fault("recovered-" + rec.Mode)
	}
	synctest.Wait()
	if len(x.fatals) > 0 {
		return nil, false, false // a node asked to exit the process: run discarded (see fatal)
	}

	// ---------------- oracle: configuration and data right after reopening
	check := func(when string) bool {
		for _, v := range victims {
			got, _, err := opsConfig(v.n)
			if err != nil {
				c.Violate("recover-config", "%s %s: cannot read configuration %s: %v", tag, v.n.ID, when, err)
				return false
			}
			if got != wantCfg {
				c.Violate("recover-config", "%s %s %s: configuration is [%s] but the peers file says [%s]", tag, v.n.ID, when, got, wantCfg)
				return false
			}
		}
		return true
	}
	if !check("right after reopening") {
		return nil, false, false
	}
	for _, v := range victims {
		post, err := s.DumpNode(v.n)
		if err != nil {
			c.Violate("recover-data", "%s %s: cannot dump the recovered database: %v", tag, v.n.ID, x.clean(err))
			return nil, false, false
		}
		if !v.mayTail {
			if post != v.pre {
				class := "recover-data"
				if miss := c33Missing(v.pre, post); miss == "" {
					class = "recover-data-extra" // nothing lost, but the node holds more than it had applied
				}
				c.Violate(class, "%s %s (%s, nothing unapplied, fk=%v): recovered database differs from what the node had applied: %s", tag, v.n.ID, rec.Mode, x.sc.Knobs.FKConstraints, sim.FirstDiff(v.pre, post))
				return nil, false, false
			}
			c.Probe("recovered_equal")
		} else {
			if miss := c33Missing(v.pre, post); miss != "" {
				c.Violate("recover-data", "%s %s (%s, unapplied tail): recovered database lacks applied data: %s", tag, v.n.ID, rec.Mode, miss)
				return nil, false, false
			}
			if post == v.pre {
				c.Probe("recovered_equal_despite_tail")
			} else {
				c.Probe("recovered_superset")
			}
		}
		if _, err := os.Stat(filepath.Join(v.n.Dir, "raft", "peers.json")); err == nil {
			c.Violate("recover-config", "%s %s: raft/peers.json still present after a successful recovery (the next restart would recover again)", tag, v.n.ID)
			return nil, false, false
		}
		recovered = append(recovered, v.n)
	}

	// ---------------- if the recovered voters are a quorum of the file: it must work as a cluster
	voters, upVoters := 0, 0
	for _, e := range file {
		if e.NonVoter {
			continue
		}
		voters++
		for _, v := range victims {
			if v.n.ID == e.ID && v.n.RaftAddr == e.Address {
				upVoters++
			}
		}
	}
	marker := 9000000 + round
	if voters > 0 && upVoters >= voters/2+1 {
		var l *node.Node
		s.RunUntil(func() bool { l = s.Leader(); return l != nil }, 60*time.Second)
		if l == nil {
			c.Violate("recover-no-leader", "%s: recovered voters (%d of %d in the peers file) did not elect a leader within 60s", tag, upVoters, voters)
			return nil, false, false
		}
		// Several nodes recovered into one cluster only continue one history if their
		// logs were identical (same last index and term, nothing unapplied). Otherwise
		// each node has - correctly, and checked above - kept everything IT had, the
		// recovery snapshots are forks of each other, and whichever node wins the
		// election overwrites the others (also those that held more): what the cluster
		// does from here on is not the subject of this property.
		sameLogs := true
		for _, v := range victims {
			if v.mayTail || v.lastIdx != victims[0].lastIdx || v.lastTrm != victims[0].lastTrm {
				sameLogs = false
			}
		}
		var werr error
		wok := false
		for attempt := 0; attempt < 6 && !wok; attempt++ {
			// a request may be refused or lose its leader while the new cluster is still
			// electing: only a cluster that never accepts a write is a failure
			if l = opsSettle(s, 0); l == nil {
				continue
			}
			wok, _, werr = opsExec(s, l, c33Insert(marker+10*attempt))
			if wok {
				marker += 10 * attempt
			}
		}
		if !wok {
			c.Violate("recover-write-failed", "%s: no write was accepted by the recovered cluster in 6 attempts, last error: %v", tag, werr)
			return nil, false, false
		}
		opsSettle(s, 500*time.Millisecond)
		if !check("after a leader was elected and a write committed") {
			return nil, false, false
		}
		// every recovered node must now hold the new row on top of its data
		l = s.Leader()
		for _, v := range victims {
			d, err := s.DumpNode(v.n)
			if err != nil || !strings.Contains(d, fmt.Sprintf("|I%d|", marker)) {
				c.Violate("recover-data", "%s %s: write after recovery not applied (err=%v)", tag, v.n.ID, x.clean(err))
				return nil, false, false
			}
			if !sameLogs && v.n != l {
				continue
			}
			if miss := c33Missing(v.pre, d); miss != "" {
				c.Violate("recover-data", "%s %s: after recovery and one more write the database lacks applied data: %s", tag, v.n.ID, miss)
				return nil, false, false
			}
		}
		if len(victims) > 1 && !sameLogs {
			c.Probe("joint_recovery_of_unequal_logs_not_continued")
			c.Sig(fmt.Sprintf("r%d/%s/%d/forked", round, rec.Mode, len(victims)))
			return recovered, false, true
		}
		c.Probe("recovered_cluster_functional")
		functional = true
	} else {
		s.RunFor(2 * time.Second)
		if !check("2s after reopening (no quorum of voters is up)") {
			return nil, false, false
		}
		c.Probe("recovered_without_quorum")
	}
	c.Sig(fmt.Sprintf("r%d/%s/%d/%v/%d/%s", round, rec.Mode, len(victims), primary.mayTail, len(primary.pre), rec.Inject))
	return recovered, functional, true
}

// c33Missing returns a description of the first schema object or row of dump
// pre that is absent from dump post ("" if post contains pre).
func c33Missing(pre, post string) string {
	have := map[string]int{}
	for _, l := range strings.Split(post, "\n") {
		have[l]++
	}
	for _, l := range strings.Split(pre, "\n") {
		if l == "" || strings.HasPrefix(l, "T|") { // table headers carry row counts
			continue
		}
		if have[l] == 0 {
			if len(l) > 200 {
				l = l[:200]
			}
			return fmt.Sprintf("%q", l)
		}
		have[l]--
	}
	return ""
}

func init() {
	core.Register(&core.Prop{ID: "C33", Bubble: true, Gen: c33Gen, Run: c33RunFn})
}
