package props

import (
	"context"
	"encoding/json"
	"fmt"
	"regexp"
	"testing/synctest"
	"time"

	cdcjson "github.com/rqlite/rqlite/v10/cdc/json"
	"github.com/rqlite/rqlite/v10/command/proto"
	"verifsim/core"
	"verifsim/node"
	"verifsim/sim"
)

// C27: CDC events describe exactly the rows changed. One real node (store, raft,
// SQLite with the real pre-update and commit hooks of db/db.go, the streamer of
// db/cdc.go, the FSM's hook (re-)registration) with CDC enabled straight on the
// Store; the harness owns the event channel, renders every event group with the
// real cdc/json marshaller and compares it, request by request, with the row
// changes a shadow SQLite database says the request made.

type c27Op struct {
	K     string    `json:"k"` // req load snapshot restart
	Tx    bool      `json:"tx,omitempty"`
	Stmts []cdcStmt `json:"st,omitempty"`
	Seed  uint64    `json:"s,omitempty"` // load: content seed
}

type c27Scenario struct {
	Seed    uint64  `json:"seed"`
	Filter  string  `json:"filter,omitempty"`
	IDsOnly bool    `json:"ids_only,omitempty"`
	Ops     []c27Op `json:"ops"`
}

func c27Gen(r *core.Rand, tier string) any {
	sc := &c27Scenario{Seed: r.Uint64()}
	sc.Filter = cdcFilters[r.Intn(len(cdcFilters))]
	sc.IDsOnly = r.Bool(0.2)
	g := cdcNewGenState(r)
	n := r.Range(12, 40)
	for i := 0; i < n; i++ {
		x := r.Intn(100)
		switch {
		case x < 90 || i < 4:
			st, tx := g.request()
			sc.Ops = append(sc.Ops, c27Op{K: "req", Tx: tx, Stmts: st})
		case x < 94:
			sc.Ops = append(sc.Ops, c27Op{K: "load", Seed: uint64(r.Intn(1 << 20))})
			g.ids = map[string][]int64{"items": {100, 103, 106}}
			g.nextID = map[string]int64{"items": 120, "logs": 4, "seqd": 1}
		case x < 97:
			sc.Ops = append(sc.Ops, c27Op{K: "snapshot"})
		default:
			sc.Ops = append(sc.Ops, c27Op{K: "restart"})
		}
	}
	return sc
}

func c27Run(c *core.Ctx, raw json.RawMessage) {
	var sc c27Scenario
	if err := json.Unmarshal(raw, &sc); err != nil {
		panic(err)
	}
	c.Rng = core.NewRand(sc.Seed)
	s := sim.New(c)
	defer s.Shutdown()

	var re *regexp.Regexp
	if sc.Filter != "" {
		re = regexp.MustCompile(sc.Filter)
	}
	// The hand-off channel is generous so that the documented drop-when-full
	// never happens here (a restart replays the whole log into it).
	var ch chan *proto.CDCIndexedEventGroup
	n := s.AddNode(node.Knobs{})
	n.Extra = func(n *node.Node) error {
		ch = make(chan *proto.CDCIndexedEventGroup, 4096)
		return n.Store.EnableCDC(ch, re, sc.IDsOnly)
	}
	if err := s.Boot(1, node.Knobs{}, nil); err != nil {
		c.Discard("boot-failed: " + err.Error())
		return
	}
	sh, err := cdcNewShadow(c.Dir, sc.Filter, sc.IDsOnly)
	if err != nil {
		panic(err)
	}
	defer sh.Close()

	drain := func() []*proto.CDCIndexedEventGroup {
		synctest.Wait()
		var out []*proto.CDCIndexedEventGroup
		for {
			select {
			case g := <-ch:
				if g != nil {
					out = append(out, g)
					continue
				}
			default:
			}
			return out
		}
	}
	exec := func(req *proto.Request) (idx uint64, ok bool) {
		var err error
		done := s.Do("exec", 60*time.Second, func() {
			_, idx, err = n.Store.Execute(context.Background(), &proto.ExecuteRequest{Request: req})
		})
		return idx, done && err == nil
	}
	// schema through rqlite and on the shadow
	var schema []cdcStmt
	for _, q := range cdcSchema {
		schema = append(schema, cdcStmt{Q: q})
	}
	if _, ok := exec(cdcRequest(schema, false)); !ok {
		c.Discard("schema-failed")
		return
	}
	if _, _, err := sh.Apply(cdcRequest(schema, false)); err != nil {
		panic(err)
	}
	if g := drain(); len(g) != 0 {
		c.Violate("unexpected-events", "schema creation produced %d event groups", len(g))
		return
	}

	nReq, nGroups, nEvents, nStmtErr, nMulti := 0, 0, 0, 0, 0
	kinds := map[string]int{}
	deferred := ""
	for opn, op := range sc.Ops {
		if c.Failed() || s.Capped {
			break
		}
		switch op.K {
		case "req":
			req := cdcRequest(op.Stmts, op.Tx)
			idx, ok := exec(req)
			if !ok {
				c.Discard("execute-failed")
				return
			}
			want, se, err := sh.Apply(req)
			if err != nil {
				panic(err)
			}
			nStmtErr += se
			got := drain()
			nReq++
			c.Log.Add("%d req idx=%d tx=%v stmts=%d -> %d groups (want %d) stmt-errors=%d", opn, idx, op.Tx, len(op.Stmts), len(got), len(want), se)
			// render what rqlite produced with the real marshaller, decode as a consumer would
			var gotMsgs []cdcDMsg
			if len(got) > 0 {
				b, err := cdcjson.MarshalToEnvelopeJSON("", n.ID, false, got)
				if err != nil {
					c.Violate("marshal-error", "op %d (index %d): marshalling the event groups failed: %v", opn, idx, err)
					return
				}
				if _, gotMsgs, err = cdcDecodeEnvelope(b); err != nil {
					c.Violate("marshal-error", "op %d (index %d): envelope is not valid JSON: %v", opn, idx, err)
					return
				}
			}
			var gotAll, wantAll []cdcXEvent
			for _, m := range gotMsgs {
				gotAll = append(gotAll, m.Events...)
			}
			for _, g := range want {
				wantAll = append(wantAll, g.Events...)
				nGroups++
				nEvents += len(g.Events)
				for _, e := range g.Events {
					kinds[e.Op]++
				}
			}
			if len(want) > 1 {
				nMulti++
			}
			desc := fmt.Sprintf("op %d (log index %d, tx=%v, %d statements, %d failed)", opn, idx, op.Tx, len(op.Stmts), se)
			for _, e := range gotAll {
				if e.Err != "" {
					c.Violate("event-error", "%s: event carries an error instead of the row: {%s}", desc, e)
					return
				}
				if re != nil && !re.MatchString(e.Table) {
					c.Violate("filter-leak", "%s: event for table %q which does not match filter %q", desc, e.Table, sc.Filter)
					return
				}
				if sc.IDsOnly && (e.Before != "" || e.After != "") {
					c.Violate("ids-only-leak", "%s: row-ids-only mode but event has column values: {%s}", desc, e)
					return
				}
			}
			if !cdcSameIdents(gotAll, wantAll) {
				if se > 0 && !op.Tx && len(gotAll) > len(wantAll) && cdcIdentSubsequence(wantAll, gotAll) {
					// Every row change the request made is reported, in order, but so are
					// changes of a statement of the same request that failed and was rolled
					// back. Remember it and keep checking the rest of the run: any other
					// class of violation takes precedence.
					if deferred == "" {
						deferred = fmt.Sprintf("%s: events [%s] but the request changed only rows [%s]; the extra events belong to a statement that failed and was rolled back", desc, cdcIdentsOf(gotAll), cdcIdentsOf(wantAll))
					}
					c.Probe("rolled_back_changes_reported")
					continue
				}
				c.Violate("event-identity", "%s: events [%s] but the request changed rows [%s]", desc, cdcIdentsOf(gotAll), cdcIdentsOf(wantAll))
				return
			}
			if ok, why := cdcSameEvents(gotAll, wantAll); !ok {
				c.Violate("event-content", "%s: %s", desc, why)
				return
			}
			// grouping: one group per commit, in commit order
			if len(gotMsgs) != len(want) {
				c.Violate("event-grouping", "%s: %d event groups for %d commits that changed rows", desc, len(gotMsgs), len(want))
				return
			}
			for i := range want {
				if !cdcSameIdents(gotMsgs[i].Events, want[i].Events) {
					c.Violate("event-grouping", "%s: group %d holds [%s], commit %d changed [%s]", desc, i, cdcIdentsOf(gotMsgs[i].Events), i, cdcIdentsOf(want[i].Events))
					return
				}
			}
		case "load":
			img, err := cdcLoadImage(c.Dir, op.Seed)
			if err != nil {
				panic(err)
			}
			var lerr error
			if !s.Do("load", 120*time.Second, func() { lerr = n.Store.Load(context.Background(), &proto.LoadRequest{Data: img}) }) || lerr != nil {
				c.Discard(fmt.Sprintf("load-failed: %v", lerr))
				return
			}
			if err := sh.Load(img); err != nil {
				panic(err)
			}
			c.Probe("loads")
			c.Log.Add("%d load", opn)
			if g := drain(); len(g) != 0 {
				c.Violate("unexpected-events", "op %d: loading a database produced %d event groups", opn, len(g))
				return
			}
		case "snapshot":
			var serr error
			s.Do("snapshot", 120*time.Second, func() { serr = n.Store.Snapshot(0) })
			c.Log.Add("%d snapshot err=%v", opn, serr != nil)
			if serr == nil {
				c.Probe("snapshots")
			}
			if g := drain(); len(g) != 0 {
				c.Violate("unexpected-events", "op %d: snapshotting produced %d event groups", opn, len(g))
				return
			}
		case "restart":
			// graceful stop and start on the same directory: the hooks must be
			// registered again on the reopened database. Whatever the log replay
			// emits again is at-least-once business (C25) and is dropped here.
			var rerr error
			s.Do("stop", 120*time.Second, func() { rerr = n.Stop() })
			if rerr != nil {
				c.Discard("stop-failed: " + rerr.Error())
				return
			}
			if err := s.Restart(1); err != nil {
				c.Discard("restart-failed: " + err.Error())
				return
			}
			s.RunUntil(func() bool { return n.Store.IsLeader() }, 30*time.Second)
			s.RunFor(200 * time.Millisecond)
			c.Probe("restarts")
			c.ProbeN("replayed_groups_dropped", len(drain()))
			c.Log.Add("%d restart", opn)
		}
	}
	if deferred != "" && !c.Failed() {
		c.Violate("rolled-back-changes-reported", "%s", deferred)
	}
	c.ProbeN("requests", nReq)
	c.ProbeN("commit_groups", nGroups)
	c.ProbeN("row_changes", nEvents)
	c.ProbeN("failed_statements", nStmtErr)
	c.ProbeN("multi_commit_requests", nMulti)
	for k, v := range kinds {
		c.ProbeN("events_"+k, v)
	}
	if sc.Filter != "" {
		c.Probe("runs_with_filter")
	}
	if sc.IDsOnly {
		c.Probe("runs_ids_only")
	}
	c.Res.Trivial = nEvents == 0
	c.Sig(fmt.Sprintf("%d/%d/%d/%s/%v", nReq, nGroups, nEvents, sc.Filter, sc.IDsOnly))
}

func init() {
	core.Register(&core.Prop{ID: "C27", Bubble: true, Gen: c27Gen, Run: c27Run})
}
