package props

import (
	"encoding/json"
	"fmt"
	"sort"
	"sync"
	"time"

	"github.com/rqlite/rqlite/v10/queue"
	"verifsim/core"
	"verifsim/sched"
)

// C24: the batching queue is FIFO, lossless and batch-bounded; flush channels
// close only when their batch is released; batch sequence numbers strictly
// increase and equal the largest number the batch contains.
//
// Engine E3: writer tasks, a flusher task and a consumer task over the real
// queue.Queue; the queue's own run goroutine is adopted through its yield hook;
// the fake clock (batch timeout) is advanced by the scheduler.

type c24Op struct {
	T  string `json:"t"`            // task: w0..w2, f, c
	K  string `json:"k"`            // write | flush | recv | rel
	N  int    `json:"n,omitempty"`  // write: number of objects
	FC bool   `json:"fc,omitempty"` // write: pass a flush channel
	// write: how the argument slice is laid out in memory (the queue keeps the
	// caller's slice until the batch is merged, so aliasing between the
	// arguments of pending writes must not matter):
	// 0 fresh slice, len == cap; 1 fresh slice with X spare elements of capacity;
	// 2 sub-slice of a backing array shared by all layout-2 writes, chunks in
	// scenario order (a writer's consecutive writes continue each other, other
	// writers' chunks interleave); 3 sub-slice of a second shared array, chunks
	// placed in the PRNG-drawn order S. For 2 and 3, X=0: capacity runs to the end
	// of the array (the spare capacity is the payload of other pending writes),
	// X=1: capacity covers exactly the next chunk.
	L int `json:"l,omitempty"`
	S int `json:"s,omitempty"`
	X int `json:"x,omitempty"`
}

type c24Scenario struct {
	Seed      uint64  `json:"seed"`
	MaxSize   int     `json:"max_size"`
	BatchSize int     `json:"batch_size"`
	TimeoutMs int     `json:"timeout_ms"`
	TickProb  float64 `json:"tick"`
	Sticky    float64 `json:"sticky"`
	Ops       []c24Op `json:"ops"`
}

func c24Gen(r *core.Rand, tier string) any {
	sc := &c24Scenario{Seed: r.Uint64()}
	sc.MaxSize = []int{1, 2, 4, 8, 16}[r.Intn(5)]
	sc.BatchSize = []int{1, 2, 3, 5, 8}[r.Intn(5)]
	sc.TimeoutMs = []int{0, 5, 20, 100}[r.Intn(4)]
	sc.TickProb = []float64{0.02, 0.1, 0.3}[r.Intn(3)]
	sc.Sticky = []float64{0, 0.5, 0.8}[r.Intn(3)]
	nw := r.Range(2, 3)
	var per [][]c24Op
	total := 0
	for w := 0; w < nw; w++ {
		var l []c24Op
		for i, n := 0, r.Range(2, 9); i < n; i++ {
			k := r.Range(1, 4)
			if r.Bool(0.05) {
				k = 0
			}
			op := c24Op{T: fmt.Sprintf("w%d", w), K: "write", N: k, FC: r.Bool(0.45)}
			switch op.L = r.Weighted([]int{25, 15, 30, 30}); op.L {
			case 1:
				op.X = r.Range(1, 8)
			case 2:
				op.X = r.Intn(2)
			case 3:
				op.S, op.X = r.Intn(1000), r.Intn(2)
			}
			l = append(l, op)
		}
		total += len(l)
		per = append(per, l)
	}
	var fl []c24Op
	for i, n := 0, r.Intn(5); i < n; i++ {
		fl = append(fl, c24Op{T: "f", K: "flush"})
	}
	per = append(per, fl)
	// the consumer's script covers only part of the traffic so that the send
	// channel and then the batch channel fill up; the rest is consumed in drain mode
	var cl []c24Op
	held := 0
	for i, n := 0, r.Intn(2*total+1); i < n; i++ {
		if held > 0 && r.Bool(0.5) {
			cl = append(cl, c24Op{T: "c", K: "rel"})
			held--
		} else {
			cl = append(cl, c24Op{T: "c", K: "recv"})
			held++
		}
	}
	per = append(per, cl)
	// random interleave (only the per-task order matters at run time)
	for {
		var nonEmpty []int
		for i, l := range per {
			if len(l) > 0 {
				nonEmpty = append(nonEmpty, i)
			}
		}
		if len(nonEmpty) == 0 {
			break
		}
		i := nonEmpty[r.Intn(len(nonEmpty))]
		sc.Ops = append(sc.Ops, per[i][0])
		per[i] = per[i][1:]
	}
	return sc
}

type c24Write struct {
	id       int
	task     string
	objs     []int64 // the identities written (private copy, never handed to the queue)
	fc       queue.FlushChannel
	seq      int64
	returned bool
	err      error
}

type c24Batch struct {
	seq      int64
	objs     []int64
	released bool
}

func c24ChClosed(c queue.FlushChannel) bool {
	select {
	case <-c:
		return true
	default:
		return false
	}
}

func c24Run(c *core.Ctx, raw json.RawMessage) {
	var sc c24Scenario
	if err := json.Unmarshal(raw, &sc); err != nil {
		panic(err)
	}
	if sc.MaxSize < 1 {
		sc.MaxSize = 1
	}
	if sc.BatchSize < 1 {
		sc.BatchSize = 1
	}
	c.Rng = core.NewRand(sc.Seed)
	s := sched.New(c, c.Rng)
	s.TickProb, s.Sticky = sc.TickProb, sc.Sticky
	s.MaxSteps = 4000
	s.ModelLock("queue.seqMu") // held while Write blocks on a full queue
	s.Install()
	timeout := time.Duration(sc.TimeoutMs) * time.Millisecond
	seq0 := time.Now().UnixNano() // the queue numbers writes from the (fake) time of its creation
	q := queue.New[int64](sc.MaxSize, sc.BatchSize, timeout)

	var mu sync.Mutex
	var writes []*c24Write
	var batches []*c24Batch
	objBatch := map[int64]int{} // object value -> index of the batch it arrived in
	stop := make(chan struct{})
	nextID := 0

	// argument-slice layout: chunk offsets in the two shared backing arrays
	type chunk struct{ off, cp int }
	chunks := map[int]chunk{} // index in sc.Ops -> placement
	var arenas [2][]int64
	for a, L := range []int{2, 3} {
		var idx []int
		for i, op := range sc.Ops {
			if op.K == "write" && op.L == L {
				idx = append(idx, i)
			}
		}
		if L == 3 {
			sort.SliceStable(idx, func(x, y int) bool { return sc.Ops[idx[x]].S < sc.Ops[idx[y]].S })
		}
		off := 0
		for k, i := range idx {
			n := sc.Ops[i].N
			cp := -1 // to the end of the array
			if sc.Ops[i].X == 1 && k+1 < len(idx) {
				cp = off + n + sc.Ops[idx[k+1]].N
			}
			chunks[i] = chunk{off, cp}
			off += n
		}
		arenas[a] = make([]int64, off)
		for i := range idx {
			c := chunks[idx[i]]
			if c.cp < 0 {
				c.cp = off
			}
			chunks[idx[i]] = c
		}
	}
	type c24TOp struct {
		c24Op
		at int // index in sc.Ops
	}
	perTask := map[string][]c24TOp{}
	var order []string
	for i, op := range sc.Ops {
		if _, ok := perTask[op.T]; !ok {
			order = append(order, op.T)
		}
		perTask[op.T] = append(perTask[op.T], c24TOp{op, i})
	}
	sort.Strings(order)
	aliased := 0

	var producers []*sched.Task
	for _, name := range order {
		if name == "c" {
			continue
		}
		ops := perTask[name]
		tn := name
		producers = append(producers, s.Go(tn, func(t *sched.Task) {
			for _, op := range ops {
				if s.Freed() {
					return
				}
				switch op.K {
				case "write":
					mu.Lock()
					nextID++
					w := &c24Write{id: nextID, task: tn}
					for k := 0; k < op.N; k++ {
						w.objs = append(w.objs, int64(w.id)*1000+int64(k))
					}
					if op.FC {
						w.fc = make(queue.FlushChannel)
					}
					writes = append(writes, w)
					// the slice handed to the queue
					var arg []int64
					switch op.L {
					case 1:
						arg = make([]int64, op.N, op.N+op.X)
					case 2, 3:
						ch := chunks[op.at]
						arg = arenas[op.L-2][ch.off : ch.off+op.N : ch.cp]
						aliased++
					default:
						arg = make([]int64, op.N)
					}
					copy(arg, w.objs)
					mu.Unlock()
					t.Yield("h.write")
					t.Doing = "write"
					seq, err := q.Write(arg, w.fc)
					mu.Lock()
					w.seq, w.err, w.returned = seq, err, true
					mu.Unlock()
					s.Logf("  %s write#%d n=%d fc=%v layout=%d cap=%d -> seq+%d err=%v", tn, w.id, op.N, op.FC, op.L, cap(arg), seq-seq0, err)
				case "flush":
					t.Yield("h.flush")
					t.Doing = "flush"
					q.Flush()
					s.Logf("  %s flush", tn)
				}
				t.Doing = ""
			}
		}))
	}

	// consumer: scripted recv/rel, then drain mode (receive and release at once)
	var held []*queue.Request[int64]
	var heldIdx []int
	recv := func(t *sched.Task) bool {
		t.Yield("h.recv")
		t.Doing = "recv"
		select {
		case req := <-q.C:
			t.Doing = ""
			mu.Lock()
			b := &c24Batch{seq: req.SequenceNumber, objs: append([]int64(nil), req.Objects...)}
			batches = append(batches, b)
			idx := len(batches) - 1
			for _, o := range b.objs {
				if _, dup := objBatch[o]; !dup {
					objBatch[o] = idx
				}
			}
			mu.Unlock()
			held = append(held, req)
			heldIdx = append(heldIdx, idx)
			s.Logf("  c recv batch#%d n=%d", idx, len(req.Objects))
			return true
		case <-stop:
			return false
		}
	}
	rel := func(t *sched.Task) {
		if len(held) == 0 {
			return
		}
		t.Yield("h.rel")
		req, idx := held[0], heldIdx[0]
		held, heldIdx = held[1:], heldIdx[1:]
		// the batch counts as released from the moment Close is called
		mu.Lock()
		batches[idx].released = true
		mu.Unlock()
		req.Close()
		s.Logf("  c release batch#%d", idx)
		// every flush channel of a write in this batch must be closed now
		mu.Lock()
		for _, w := range writes {
			if w.fc == nil || len(w.objs) == 0 {
				continue
			}
			if bi, ok := objBatch[w.objs[0]]; ok && bi == idx && !c24ChClosed(w.fc) {
				s.Violate("flush-not-closed", "write#%d (task %s) is in batch#%d which was released, but its flush channel is still open", w.id, w.task, idx)
			}
		}
		mu.Unlock()
	}
	consumer := s.Go("c", func(t *sched.Task) {
		defer func() {
			// stopped: release whatever is still held (scheduling is over by then)
			for len(held) > 0 {
				rel(t)
			}
		}()
		for _, op := range perTask["c"] {
			if s.Freed() {
				return
			}
			switch op.K {
			case "recv":
				if !recv(t) {
					return
				}
			case "rel":
				rel(t)
			}
		}
		for !s.Freed() {
			for len(held) > 0 {
				rel(t)
			}
			if !recv(t) {
				return
			}
		}
	})
	_ = consumer

	// invariant at every quiescent point: a closed flush channel belongs to a
	// write whose batch has been released
	sawBlocked, sawContended := false, false
	s.AfterStep = func() {
		if !sawBlocked || !sawContended {
			for _, t := range producers {
				if !sawBlocked && t.Blocked() && t.Doing == "write" {
					sawBlocked = true
					c.Probe("writer_blocked_on_full_queue")
				}
				if !sawContended && t.Point() == "queue.seqMu.pre" && s.LockHeld("queue.seqMu") {
					sawContended = true
					c.Probe("writer_held_back_by_seqmu")
				}
			}
		}
		mu.Lock()
		defer mu.Unlock()
		for _, w := range writes {
			if w.fc == nil || !c24ChClosed(w.fc) {
				continue
			}
			ok := false
			if len(w.objs) > 0 {
				if bi, in := objBatch[w.objs[0]]; in && batches[bi].released {
					ok = true
				}
			} else if w.returned {
				for _, b := range batches {
					if b.seq >= w.seq && b.released {
						ok = true
					}
				}
			}
			if !ok {
				c.Violate("flush-early", "flush channel of write#%d (task %s, %d objects) is closed although its batch has not been released", w.id, w.task, len(w.objs))
				return
			}
		}
	}

	producersDone := func() bool {
		for _, t := range producers {
			if !t.Done() {
				return false
			}
		}
		return true
	}
	quiet := func() bool { return producersDone() && s.Enabled() == 0 }
	emitted := func() int {
		mu.Lock()
		defer mu.Unlock()
		n := 0
		for _, b := range batches {
			n += len(b.objs)
		}
		return n
	}
	written := func() (objs, zero int) {
		mu.Lock()
		defer mu.Unlock()
		for _, w := range writes {
			if w.returned && w.err == nil {
				objs += len(w.objs)
				if len(w.objs) == 0 {
					zero++
				}
			}
		}
		return
	}

	finish := func() {
		// a violation may have ended the run with writers still blocked inside
		// Write (full queue, seqMu held): let the consumer drain them first
		for i := 0; i < 2000 && !producersDone() && s.Step(); i++ {
		}
		close(stop)
		s.Close()
		q.Close()
	}

	// phase 1: the scripted interleaving, consumer draining afterwards
	if !s.RunUntil(quiet) {
		finish()
		if s.Capped && !c.Failed() {
			c.Res.Verdict = core.Capped
		}
		return
	}
	// phase 2: with a batch timeout configured, whatever is still queued must
	// come out by itself once the timeout has passed
	if timeout > 0 {
		s.Tick(timeout + time.Millisecond)
		if !s.RunUntil(quiet) {
			finish()
			if s.Capped && !c.Failed() {
				c.Res.Verdict = core.Capped
			}
			return
		}
		if wo, wz := written(); emitted() < wo && wz == 0 {
			c.Violate("not-flushed-by-timeout", "%d of %d written objects were still queued %s after the last write although the batch timeout is %s",
				wo-emitted(), wo, timeout+time.Millisecond, timeout)
		} else if emitted() == wo {
			c.Probe("drained_by_timer_or_size")
		}
	}
	// phase 3: explicit flush, then everything must have been emitted
	if !c.Failed() {
		q.Flush()
		s.RunUntil(quiet)
	}
	finish()
	if c.Failed() {
		return
	}
	if s.Capped {
		c.Res.Verdict = core.Capped
		return
	}

	// ---------------------------------------------------------------- final oracle
	var ws []*c24Write
	for _, w := range writes {
		if !w.returned {
			c.Violate("write-stuck", "write#%d (task %s) never returned although the queue was drained", w.id, w.task)
			return
		}
		if w.err != nil {
			c.Violate("write-error", "write#%d (task %s) failed on an open queue: %v", w.id, w.task, w.err)
			return
		}
		ws = append(ws, w)
	}
	// sequence numbers handed to writers: unique, increasing per writer
	lastSeq := map[string]int64{}
	seen := map[int64]int{}
	for _, w := range ws {
		if o, dup := seen[w.seq]; dup {
			c.Violate("seq-duplicate", "write#%d and write#%d were given the same sequence number", o, w.id)
			return
		}
		seen[w.seq] = w.id
		if l, ok := lastSeq[w.task]; ok && w.seq <= l {
			c.Violate("seq-not-increasing", "task %s: write#%d got sequence number %d after an earlier write got %d", w.task, w.id, w.seq, l)
			return
		}
		lastSeq[w.task] = w.seq
	}
	sort.Slice(ws, func(i, j int) bool { return ws[i].seq < ws[j].seq })
	// exactly once
	cnt := map[int64]int{}
	for _, b := range batches {
		for _, o := range b.objs {
			cnt[o]++
		}
	}
	for _, w := range ws {
		for _, o := range w.objs {
			switch n := cnt[o]; {
			case n == 0:
				c.Violate("lost", "object %d of write#%d (task %s) was never emitted", o, w.id, w.task)
				return
			case n > 1:
				c.Violate("duplicated", "object %d of write#%d (task %s) was emitted %d times", o, w.id, w.task, n)
				return
			}
			delete(cnt, o)
		}
	}
	if len(cnt) > 0 {
		c.Violate("phantom", "%d emitted objects were never written", len(cnt))
		return
	}
	// write order
	var exp, got []int64
	for _, w := range ws {
		exp = append(exp, w.objs...)
	}
	for _, b := range batches {
		got = append(got, b.objs...)
	}
	for i := range exp {
		if exp[i] != got[i] {
			c.Violate("order", "emitted stream differs from write (sequence-number) order at position %d: got object %d, want %d", i, got[i], exp[i])
			return
		}
	}
	// batches: strictly increasing sequence numbers, each the largest of the
	// writes it contains; whole writes only; at most batch-size writes
	wi := 0
	prev := int64(-1 << 62)
	sizeFlush, partial := 0, 0
	for bi, b := range batches {
		if b.seq <= prev {
			c.Violate("batch-seq-not-increasing", "batch#%d has sequence number %d after a batch with %d", bi, b.seq, prev)
			return
		}
		prev = b.seq
		var group []*c24Write
		for wi < len(ws) && ws[wi].seq <= b.seq {
			group = append(group, ws[wi])
			wi++
		}
		var gobjs []int64
		for _, w := range group {
			gobjs = append(gobjs, w.objs...)
		}
		if len(group) == 0 || group[len(group)-1].seq != b.seq || !c24EqI64(gobjs, b.objs) {
			// classify: does some write straddle the batch boundary?
			if len(b.objs) > 0 {
				first, last := b.objs[0], b.objs[len(b.objs)-1]
				if first%1000 != 0 {
					c.Violate("split", "batch#%d starts in the middle of write#%d", bi, first/1000)
					return
				}
				for _, w := range ws {
					if w.id == int(last/1000) && w.objs[len(w.objs)-1] != last {
						c.Violate("split", "batch#%d ends in the middle of write#%d", bi, w.id)
						return
					}
				}
			}
			c.Violate("batch-seq-not-max", "batch#%d carries sequence number %d, but the writes whose objects it holds have numbers %v", bi, b.seq, c24SeqsOfObjs(ws, b.objs))
			return
		}
		if len(group) > sc.BatchSize {
			c.Violate("batch-too-big", "batch#%d holds %d writes, batch size is %d", bi, len(group), sc.BatchSize)
			return
		}
		if len(group) == sc.BatchSize {
			sizeFlush++
		} else {
			partial++
		}
	}
	if wi != len(ws) {
		c.Violate("lost", "%d writes (some with no objects) are in no emitted batch", len(ws)-wi)
		return
	}
	// every flush channel is closed now (all batches were released)
	for _, w := range ws {
		if w.fc != nil && !c24ChClosed(w.fc) {
			c.Violate("flush-not-closed", "flush channel of write#%d never closed although every batch was released", w.id)
			return
		}
	}
	c.ProbeN("writes", len(ws))
	c.ProbeN("writes_with_argument_aliasing_other_writes", aliased)
	c.ProbeN("batches", len(batches))
	c.ProbeN("batches_full", sizeFlush)
	c.ProbeN("batches_partial_timer_or_flush", partial)
	c.Res.Trivial = len(batches) < 2
	c.Sig(fmt.Sprintf("%d/%d/%d", len(ws), len(batches), sizeFlush))
}

func c24EqI64(a, b []int64) bool {
	if len(a) != len(b) {
		return false
	}
	for i := range a {
		if a[i] != b[i] {
			return false
		}
	}
	return true
}

func c24SeqsOfObjs(ws []*c24Write, objs []int64) []int64 {
	var out []int64
	last := -1
	for _, o := range objs {
		id := int(o / 1000)
		if id == last {
			continue
		}
		last = id
		for _, w := range ws {
			if w.id == id {
				out = append(out, w.seq)
			}
		}
	}
	return out
}

func init() {
	core.Register(&core.Prop{ID: "C24", Bubble: true, Gen: c24Gen, Run: c24Run})
}
