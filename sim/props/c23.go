package props

// C23: statements accepted on the queued-write path (/db/execute?queue) are
// applied in acceptance (sequence-number) order, each request's statements
// stay together and ordered, none are dropped while the node keeps running and
// a leader is reachable, and a request that asks to wait returns success only
// after its batch has been applied.
//
// Engine E1, nodes with the real http.Service (queue + runQueue goroutine
// started by StartVerif), concurrent client tasks posting queued requests
// with/without wait to every node, direct writes as noise, and transient
// leader loss (stepdown, leader isolation, queue node cut off from the leader).
// Knobs: queue capacity, batch size, timeout, transactional batches.

import (
	"context"
	"encoding/json"
	"fmt"
	"sort"
	"strconv"
	"strings"
	"sync"
	"testing/synctest"
	"time"

	"github.com/rqlite/rqlite/v10/command/proto"
	"github.com/rqlite/rqlite/v10/verifx"
	"verifsim/core"
	"verifsim/node"
	"verifsim/sim"
)

type c23Op struct {
	K      string `json:"k"` // q | w | stepdown | isolate | cut | heal | run
	C      int    `json:"c,omitempty"`
	N      int    `json:"n,omitempty"`
	NS     int    `json:"ns,omitempty"`   // statements in the request
	Wait   bool   `json:"wait,omitempty"` // ?wait
	ToMs   int    `json:"to,omitempty"`   // wait timeout (ms)
	NoLdr  bool   `json:"noldr,omitempty"`
	Burst  bool   `json:"burst,omitempty"` // do not wait for the client's previous request
	Gap    int    `json:"gap,omitempty"`
	Ms     int    `json:"ms,omitempty"`
	Target int    `json:"t,omitempty"`
}

type c23Scenario struct {
	Seed    uint64     `json:"seed"`
	Nodes   int        `json:"nodes"`
	Clients int        `json:"clients"`
	QCap    int        `json:"qcap"`
	QBatch  int        `json:"qbatch"`
	QToMs   int        `json:"qto_ms"`
	QTx     bool       `json:"qtx,omitempty"`
	Knobs   node.Knobs `json:"knobs"`
	Tick    float64    `json:"tick"`
	NoFault bool       `json:"no_fault,omitempty"`
	Ops     []c23Op    `json:"ops"`
}

func c23Gen(r *core.Rand, tier string) any {
	sc := &c23Scenario{Seed: r.Uint64()}
	sc.Nodes = []int{1, 3, 3, 3}[r.Intn(4)]
	sc.Clients = r.Range(2, 5)
	sc.QCap = []int{1, 2, 3, 4, 8, 16, 64}[r.Intn(7)]
	sc.QBatch = []int{1, 2, 3, 4, 5, 8, 16}[r.Intn(7)]
	sc.QToMs = []int{5, 10, 20, 50, 100, 300, 1000}[r.Intn(7)]
	sc.QTx = r.Bool(0.4)
	sc.Tick = []float64{0.02, 0.08, 0.2}[r.Intn(3)]
	hb := time.Duration(r.Range(2, 6)) * 100 * time.Millisecond
	sc.Knobs = node.Knobs{HeartbeatTimeout: hb, ElectionTimeout: hb, LeaderLeaseTimeout: hb / 2,
		ApplyTimeout: time.Duration(r.Range(2, 5)) * time.Second}
	sc.NoFault = sc.Nodes == 1 || r.Bool(0.3)
	enabled := map[string]bool{}
	for _, k := range []string{"stepdown", "isolate", "cut"} {
		enabled[k] = !sc.NoFault && r.Bool(0.65)
	}
	nops := r.Range(30, 80)
	if tier == "thorough" {
		nops = r.Range(40, 160)
	}
	parted := false
	for i := 0; i < nops; i++ {
		x := r.Intn(100)
		switch {
		case x < 70:
			op := c23Op{K: "q", C: r.Intn(sc.Clients), N: 1 + r.Intn(sc.Nodes), NS: r.Range(1, 3), Gap: r.Intn(5)}
			if r.Bool(0.3) {
				op.Gap = 0
			}
			op.Wait = r.Bool(0.4)
			if op.Wait {
				op.ToMs = []int{200, 1000, 3000, 10000}[r.Intn(4)]
			}
			op.NoLdr = r.Bool(0.1)
			op.Burst = r.Bool(0.3)
			sc.Ops = append(sc.Ops, op)
		case x < 78:
			sc.Ops = append(sc.Ops, c23Op{K: "w", C: r.Intn(sc.Clients), N: 1 + r.Intn(sc.Nodes), Gap: r.Intn(5)})
		case x < 83:
			if enabled["stepdown"] {
				sc.Ops = append(sc.Ops, c23Op{K: "stepdown", Gap: r.Intn(8)})
			}
		case x < 86:
			if enabled["isolate"] && !parted {
				sc.Ops = append(sc.Ops, c23Op{K: "isolate", Gap: r.Intn(8)})
				parted = true
			}
		case x < 89:
			if enabled["cut"] && !parted {
				sc.Ops = append(sc.Ops, c23Op{K: "cut", Target: 1 + r.Intn(sc.Nodes), Gap: r.Intn(8)})
				parted = true
			}
		case x < 93:
			if parted {
				sc.Ops = append(sc.Ops, c23Op{K: "heal", Gap: r.Intn(8)})
				parted = false
			}
		default:
			sc.Ops = append(sc.Ops, c23Op{K: "run", Ms: r.Range(20, 2500)})
		}
		if len(sc.Ops) == 0 {
			continue
		}
		if k := sc.Ops[len(sc.Ops)-1].K; (k == "isolate" || k == "stepdown" || k == "cut") && r.Bool(0.5) {
			sc.Ops = append(sc.Ops, c23Op{K: "run", Ms: r.Range(100, 2500)})
		}
	}
	return sc
}

type c23Req struct {
	id       int
	client   int
	nodeIdx  int
	ns       int
	wait     bool
	direct   bool // noise write, not queued
	resp     *hxResp
	done     bool
	accepted bool  // Write returned (200, or 408 after acceptance)
	seq      int64 // 0 = unknown
	rejected bool  // definitely never enqueued
	invoke   int
	ret      int
	waitOK   bool
	err      string
}

type c23Note struct {
	kind string // accepted | batch | retry | done
	addr string
	seq  int64
}

func c23Run(c *core.Ctx, raw json.RawMessage) {
	var sc c23Scenario
	if err := json.Unmarshal(raw, &sc); err != nil {
		panic(err)
	}
	if sc.Nodes < 1 {
		sc.Nodes = 1
	}
	if sc.QCap < 1 {
		sc.QCap = 1
	}
	if sc.QBatch < 1 {
		sc.QBatch = 1
	}
	if sc.QToMs < 1 {
		sc.QToMs = 1
	}
	c.Rng = core.NewRand(sc.Seed)
	s := sim.New(c)
	s.TickProb = sc.Tick
	defer s.Shutdown()

	var nmu sync.Mutex
	var notes []c23Note
	verifx.InstallHooks(nil, nil, func(point string, v int64) {
		if !strings.HasPrefix(point, "http.queue.") {
			return
		}
		f := strings.Fields(strings.TrimPrefix(point, "http.queue."))
		if len(f) != 2 {
			return
		}
		nmu.Lock()
		notes = append(notes, c23Note{f[0], f[1], v})
		nmu.Unlock()
	}, nil, nil)
	defer verifx.ResetHooks()

	for i := 1; i <= sc.Nodes; i++ {
		n := s.AddNode(sc.Knobs)
		n.WithHTTP = true
		n.QueueCap, n.QueueBatchSz, n.QueueTimeout, n.QueueTx = sc.QCap, sc.QBatch, time.Duration(sc.QToMs)*time.Millisecond, sc.QTx
	}
	if err := s.Boot(sc.Nodes, sc.Knobs, nil); err != nil {
		c.Discard("boot-failed: " + err.Error())
		return
	}
	d := &hxDriver{s: s}
	view := &hxView{s: s}
	d.After = []func(){view.observe}
	if !hxSetup(d, view, "CREATE TABLE IF NOT EXISTS q (id INTEGER PRIMARY KEY AUTOINCREMENT, n INTEGER, c INTEGER, r INTEGER, s INTEGER)") {
		c.Discard("schema-failed")
		return
	}
	addrIdx := map[string]int{}
	for i := 1; i <= sc.Nodes; i++ {
		addrIdx[s.Nodes[i].HTTPAddr] = i
	}

	var reqs []*c23Req
	busy := map[int]*sim.Task{}
	inflight := make([]int, sc.Nodes+1)    // queued posts in flight per node
	finAccepted := make([]int, sc.Nodes+1) // finished posts that had been accepted
	acceptedNotes := func(nodeIdx int) int {
		nmu.Lock()
		defer nmu.Unlock()
		k := 0
		for _, nt := range notes {
			if nt.kind == "accepted" && addrIdx[nt.addr] == nodeIdx {
				k++
			}
		}
		return k
	}
	nextID := 0

	// rowsOf counts, through a node's own database (local read, no consensus), the rows of a request.
	rowsOf := func(n *node.Node, r *c23Req) int {
		qr := &proto.QueryRequest{Level: proto.ConsistencyLevel_NONE, Request: &proto.Request{Statements: []*proto.Statement{{
			Sql: fmt.Sprintf("SELECT count(DISTINCT s) FROM q WHERE n=%d AND c=%d AND r=%d", r.nodeIdx, r.client, r.id)}}}}
		rows, _, _, err := n.Store.Query(context.Background(), qr)
		if err != nil || len(rows) != 1 || len(rows[0].Values) != 1 {
			return -1
		}
		return int(rows[0].Values[0].Parameters[0].GetI())
	}

	finish := func(r *c23Req) {
		r.done = true
		r.ret = s.StepN
		if r.direct {
			if r.resp != nil && r.resp.Code == 200 && r.resp.J != nil && r.resp.J.Error == "" {
				r.accepted = true // applied
			}
			return
		}
		inflight[r.nodeIdx]--
		resp := r.resp
		switch {
		case resp == nil:
			r.err = "no response"
		case resp.Code == 200 && resp.J != nil:
			r.accepted = true
			r.seq = resp.J.Seq
			finAccepted[r.nodeIdx]++
			c.Probe("queued_accepted")
			if r.seq == 0 {
				c.Violate("no-sequence-number", "req%d to n%d answered 200 without a sequence number: %s", r.id, r.nodeIdx, resp.Body)
				return
			}
			if r.wait {
				c.Probe("wait_returned_ok")
				r.waitOK = true
				// "returns success only after the batch containing its statements has been
				// applied": at this quiescent point the rows must be in the database of at
				// least the node that applied the batch.
				best := -1
				for _, n := range s.Nodes[1:] {
					if n.Up {
						if k := rowsOf(n, r); k > best {
							best = k
						}
					}
				}
				if best < r.ns {
					c.Violate("wait-before-apply", "req%d (client %d, n%d, %d statements, seq %d) got 200 for ?wait, but at that moment no node's database holds its rows (best %d/%d)",
						r.id, r.client, r.nodeIdx, r.ns, r.seq, best, r.ns)
				}
			}
		case resp.Code == 408:
			// wait timed out after the request had been accepted
			r.accepted = true
			finAccepted[r.nodeIdx]++
			c.Probe("wait_timed_out_408")
		case resp.Code == 503:
			r.rejected = true
			c.Probe("rejected_no_leader_503")
		default:
			r.rejected = true
			r.err = fmt.Sprintf("%d %s", resp.Code, strings.TrimSpace(resp.Body))
			c.Probe(fmt.Sprintf("rejected_%d", resp.Code))
		}
	}

	post := func(op c23Op) {
		if op.N < 1 || op.N > sc.Nodes || !s.Nodes[op.N].Up {
			return
		}
		if t := busy[op.C]; t != nil && !t.Finished && !op.Burst {
			d.await(t, 60*time.Second)
			if !t.Finished {
				return
			}
		}
		n := s.Nodes[op.N]
		synctest.Wait()
		nextID++
		r := &c23Req{id: nextID, client: op.C, nodeIdx: op.N, ns: op.NS, wait: op.Wait, invoke: s.StepN}
		if r.ns < 1 {
			r.ns = 1
		}
		var list []any
		for k := 0; k < r.ns; k++ {
			list = append(list, fmt.Sprintf("INSERT INTO q(n,c,r,s) VALUES(%d,%d,%d,%d)", op.N, op.C, r.id, k))
		}
		body := hxStmtsJSON(list)
		if op.K == "w" {
			r.direct = true
			reqs = append(reqs, r)
			t := s.Go(fmt.Sprintf("direct%d c%d n%d", r.id, op.C, op.N), func() {
				r.resp = hxDo(n, "POST", "/db/execute?timeout=4s", "application/json", body, "", "")
			})
			t.OnDone = func() { finish(r) }
			busy[op.C] = t
			return
		}
		// queue.Queue.Write holds a sync.Mutex while blocked on a full queue; a second
		// writer would block on the mutex, which testing/synctest cannot treat as
		// durably blocked. Start a writer only if none can be blocked inside Write.
		depth, capacity := n.HTTP.VerifQueueDepth()
		pendingInWrite := inflight[op.N] - (acceptedNotes(op.N) - finAccepted[op.N])
		if depth >= capacity {
			c.Probe("queue_full_at_post")
			if pendingInWrite > 0 {
				c.Probe("post_skipped_writer_already_blocked")
				return
			}
			c.Probe("writer_blocks_on_full_queue")
		}
		kv := []string{"queue", ""}
		if op.Wait {
			kv = append(kv, "wait", "", "timeout", fmt.Sprintf("%dms", op.ToMs))
		}
		if op.NoLdr {
			kv = append(kv, "noleader", "")
		}
		path := "/db/execute" + hxQuery(kv...)
		inflight[op.N]++
		reqs = append(reqs, r)
		t := s.Go(fmt.Sprintf("queued%d c%d n%d ns%d %s", r.id, op.C, op.N, r.ns, path), func() {
			r.resp = hxDo(n, "POST", path, "application/json", body, "", "")
		})
		t.OnDone = func() { finish(r) }
		busy[op.C] = t
	}

	parted := false
	for _, op := range sc.Ops {
		if s.Capped || c.Failed() {
			break
		}
		switch op.K {
		case "q", "w":
			post(op)
		case "stepdown":
			if l := s.Leader(); l != nil && sc.Nodes > 1 {
				c.Fault("stepdown")
				c.Log.Add("%d fault stepdown n%d", s.StepN, l.Idx)
				ll := l
				s.Go("stepdown", func() { ll.Store.Stepdown(true, "") })
			}
		case "isolate":
			if l := s.Leader(); l != nil && sc.Nodes > 1 {
				var rest []string
				for i := 1; i <= sc.Nodes; i++ {
					if i != l.Idx {
						rest = append(rest, s.Nodes[i].HostName)
					}
				}
				s.Net.Heal()
				s.Net.Partition([]string{l.HostName}, rest)
				parted = true
				c.Fault("isolate-leader")
				c.Log.Add("%d fault isolate n%d", s.StepN, l.Idx)
			}
		case "cut":
			// cut one node (typically a follower holding a queue) off from everybody
			if op.Target >= 1 && op.Target <= sc.Nodes && sc.Nodes > 1 {
				var rest []string
				for i := 1; i <= sc.Nodes; i++ {
					if i != op.Target {
						rest = append(rest, s.Nodes[i].HostName)
					}
				}
				s.Net.Heal()
				s.Net.Partition([]string{s.Nodes[op.Target].HostName}, rest)
				parted = true
				c.Fault("cut-node")
				c.Log.Add("%d fault cut n%d", s.StepN, op.Target)
			}
		case "heal":
			if parted {
				s.Net.Heal()
				parted = false
				c.Fault("heal")
				c.Log.Add("%d fault heal", s.StepN)
			}
		case "run":
			d.runFor(time.Duration(op.Ms) * time.Millisecond)
		}
		for i := 0; i < op.Gap && !s.Capped; i++ {
			d.step()
		}
	}
	if c.Failed() {
		return
	}

	// settle: heal, let clients finish, then push a waiting marker through every
	// queue and give the queues time to drain.
	s.Net.Heal()
	pending := func() int {
		k := 0
		for _, r := range reqs {
			if !r.done {
				k++
			}
		}
		return k
	}
	d.runUntil(func() bool { return pending() == 0 }, 180*time.Second)
	if c.Failed() {
		return
	}
	if pending() > 0 {
		c.Discard("requests-still-pending")
		return
	}
	if hxSettle(d, view, 60*time.Second) == nil {
		c.Discard("no-leader-after-settle")
		return
	}
	drained := func() bool {
		nmu.Lock()
		defer nmu.Unlock()
		nb, nd := 0, 0
		lastDone := map[string]int64{}
		maxAcc := map[string]int64{}
		for _, nt := range notes {
			switch nt.kind {
			case "batch":
				nb++
			case "done":
				nd++
				lastDone[nt.addr] = nt.seq
			case "accepted":
				if nt.seq > maxAcc[nt.addr] {
					maxAcc[nt.addr] = nt.seq
				}
			}
		}
		if nb != nd {
			return false
		}
		for a, m := range maxAcc {
			if lastDone[a] < m {
				return false
			}
		}
		return true
	}
	// Draining needs at most: queue timeout to flush the tail + retries (1 s apart)
	// until the leader is reachable again. The bound is generous and in simulated time.
	if !d.runUntil(drained, 240*time.Second) {
		c.Log.Add("queues did not drain within 240 simulated seconds after heal")
	}
	d.runFor(2 * time.Second)
	if hxSettle(d, view, 60*time.Second) == nil {
		c.Discard("no-leader-after-settle")
		return
	}

	// final table, in application order
	type row struct {
		id            int64
		n, cl, rq, st int
	}
	var rows []row
	vals, okRead := hxStrongRead(d, view, "SELECT id,n,c,r,s FROM q ORDER BY id")
	for _, v := range vals {
		p := v.Parameters
		rows = append(rows, row{p[0].GetI(), int(p[1].GetI()), int(p[2].GetI()), int(p[3].GetI()), int(p[4].GetI())})
	}
	if !okRead {
		c.Discard("final-read-failed")
		return
	}
	// batches per node from the notes
	nmu.Lock()
	all := append([]c23Note(nil), notes...)
	nmu.Unlock()
	batchSeqs := map[int][]int64{}     // node -> batch sequence numbers in dequeue order
	retries := map[int]map[int64]int{} // node -> batch seq -> failed attempts
	accSeqs := map[int][]int64{}       // node -> accepted sequence numbers in acceptance order
	for _, nt := range all {
		i := addrIdx[nt.addr]
		switch nt.kind {
		case "batch":
			batchSeqs[i] = append(batchSeqs[i], nt.seq)
		case "retry":
			if retries[i] == nil {
				retries[i] = map[int64]int{}
			}
			retries[i][nt.seq]++
			c.Probe("batch_retry_observed")
		case "accepted":
			accSeqs[i] = append(accSeqs[i], nt.seq)
		}
	}
	for i, l := range accSeqs {
		for k := 1; k < len(l); k++ {
			if l[k] <= l[k-1] {
				c.Violate("sequence-not-increasing", "node %d handed out sequence number %d after %d", i, l[k], l[k-1])
				return
			}
		}
	}
	for i, l := range batchSeqs {
		for k := 1; k < len(l); k++ {
			if l[k] <= l[k-1] {
				c.Violate("batch-order", "node %d: batch with sequence number %d was handed to the writer after batch %d", i, l[k], l[k-1])
				return
			}
		}
	}
	allowedDup := func(r *c23Req) int {
		rt := retries[r.nodeIdx]
		if len(rt) == 0 {
			return 0
		}
		if r.seq == 0 {
			// acceptance known, sequence number not (408): any retried batch of that node may hold it
			k := 0
			for _, v := range rt {
				k += v
			}
			return k
		}
		for _, b := range batchSeqs[r.nodeIdx] {
			if b >= r.seq {
				return rt[b]
			}
		}
		return 0
	}

	type key struct{ n, c, r int }
	occ := map[key]map[int][]int64{} // request -> statement -> row ids (ascending)
	for _, rw := range rows {
		k := key{rw.n, rw.cl, rw.rq}
		if occ[k] == nil {
			occ[k] = map[int][]int64{}
		}
		occ[k][rw.st] = append(occ[k][rw.st], rw.id)
	}
	pos := map[int64]int{} // row id -> position in application order
	for i, rw := range rows {
		pos[rw.id] = i
	}
	nAcc, nRej, nDup := 0, 0, 0
	firstLo := map[*c23Req]int{}
	firstHi := map[*c23Req]int{}
	for _, r := range reqs {
		k := key{r.nodeIdx, r.client, r.id}
		o := occ[k]
		what := fmt.Sprintf("req%d (client %d, node %d, %d statements, wait=%v, seq %d, http %d)", r.id, r.client, r.nodeIdx, r.ns, r.wait, r.seq, c23CodeOf(r.resp))
		if r.direct {
			continue
		}
		if r.rejected {
			nRej++
			if len(o) > 0 {
				c.Violate("applied-after-reject", "%s was refused (%s) but its rows are in the table", what, r.err)
				return
			}
			continue
		}
		if !r.accepted {
			continue
		}
		nAcc++
		dupOK := allowedDup(r)
		var firsts []int
		for st := 0; st < r.ns; st++ {
			ids := o[st]
			if len(ids) == 0 {
				c.Violate("dropped", "%s was accepted but statement %d was never applied (queue drained, leader reachable; retries seen for its node: %v)", what, st, retries[r.nodeIdx])
				return
			}
			if len(ids) > 1+dupOK {
				c.Violate("duplicate", "%s: statement %d applied %d times, but only %d failed attempt(s) were seen for its batch", what, st, len(ids), dupOK)
				return
			}
			if len(ids) > 1 {
				nDup++
			}
			firsts = append(firsts, pos[ids[0]])
		}
		for st := 1; st < len(firsts); st++ {
			if firsts[st] != firsts[st-1]+1 {
				c.Violate("not-contiguous", "%s: first application of statement %d is at position %d, statement %d at %d: not adjacent and in order", what, st-1, firsts[st-1], st, firsts[st])
				return
			}
		}
		firstLo[r], firstHi[r] = firsts[0], firsts[len(firsts)-1]
	}
	// order of first application follows sequence-number order per node
	byNode := map[int][]*c23Req{}
	for _, r := range reqs {
		if !r.direct && r.accepted && r.seq != 0 {
			byNode[r.nodeIdx] = append(byNode[r.nodeIdx], r)
		}
	}
	for i, l := range byNode {
		sort.Slice(l, func(a, b int) bool { return l[a].seq < l[b].seq })
		for k := 1; k < len(l); k++ {
			if l[k].seq == l[k-1].seq {
				c.Violate("sequence-reused", "node %d gave sequence number %d to req%d and req%d", i, l[k].seq, l[k-1].id, l[k].id)
				return
			}
			if firstLo[l[k]] <= firstHi[l[k-1]] {
				c.Violate("out-of-order", "node %d: req%d (seq %d) was accepted before req%d (seq %d) but first applied after it (positions %d..%d vs %d..%d)",
					i, l[k-1].id, l[k-1].seq, l[k].id, l[k].seq, firstLo[l[k-1]], firstHi[l[k-1]], firstLo[l[k]], firstHi[l[k]])
				return
			}
		}
	}
	// a client's sequential requests to one node get increasing sequence numbers
	last := map[[2]int]*c23Req{}
	for _, r := range reqs {
		if r.direct || !r.accepted || r.seq == 0 {
			continue
		}
		k := [2]int{r.client, r.nodeIdx}
		if p := last[k]; p != nil && p.ret <= r.invoke && p.seq >= r.seq {
			c.Violate("sequence-not-increasing", "client %d to node %d: req%d returned (seq %d) before req%d was sent, which got seq %d", r.client, r.nodeIdx, p.id, p.seq, r.id, r.seq)
			return
		}
		if p := last[k]; p == nil || p.ret <= r.ret {
			last[k] = r
		}
	}
	c.ProbeN("requests_accepted", nAcc)
	c.ProbeN("requests_rejected", nRej)
	c.ProbeN("statements_duplicated_after_retry", nDup)
	nb := 0
	multi := 0
	for i, l := range batchSeqs {
		nb += len(l)
		prev := int64(0)
		for _, b := range l {
			k := 0
			for _, a := range accSeqs[i] {
				if a > prev && a <= b {
					k++
				}
			}
			if k > 1 {
				multi++
			}
			prev = b
		}
	}
	c.ProbeN("batches", nb)
	c.ProbeN("batches_merging_several_requests", multi)
	c.Res.Trivial = nAcc == 0
	c.Sig(fmt.Sprintf("%d/%d/%d/%d/%s", nAcc, nRej, nDup, nb, strconv.Itoa(len(rows))))
}

func c23CodeOf(r *hxResp) int {
	if r == nil {
		return 0
	}
	return r.Code
}

func init() {
	core.Register(&core.Prop{ID: "C23", Bubble: true, Gen: c23Gen, Run: c23Run})
}
