package props

import (
	"encoding/json"
	"fmt"
	"net/url"
	"strings"
	"time"

	command "github.com/rqlite/rqlite/v10/command/proto"
	"verifsim/core"
	"verifsim/hostile"
	"verifsim/node"
	"verifsim/sim"
)

// C18: with a credential store configured, every HTTP endpoint and every
// inter-node command performs its action and returns database content only
// for credentials that hold the required permission(s); otherwise it fails
// without side effects and without disclosing data. Observed on the wire.

type c18Op struct {
	K    string `json:"k"`             // peer | http
	Node int    `json:"n"`             // target node (0 = whoever leads)
	Cmd  string `json:"cmd"`           // inter-node command kind / HTTP endpoint id
	Var  string `json:"var,omitempty"` // join: voter|nonvoter; peer credentials: "emptycreds" puts an empty Credentials message instead of none
	User int    `json:"u"`             // index into the credential store
	Pres string `json:"pres"`          // none | wrong | right | unknown | nouser
}

type c18Scenario struct {
	Seed  uint64        `json:"seed"`
	Nodes int           `json:"nodes"`
	Creds hostile.Creds `json:"creds"`
	Tick  float64       `json:"tick"`
	Split float64       `json:"split"`
	Ops   []c18Op       `json:"ops"`
	Gen   *uint64       `json:"gen_seed,omitempty"` // scenario to be regenerated from this seed (worker died before reporting it)
}

// httpEP describes one HTTP endpoint: how to call it and what it requires.
type httpEP struct {
	ID     string
	Method string
	Path   string // with query string; %Q = url-escaped SELECT, %T = timeout
	CType  string
	Body   string // "exec" (JSON array with an INSERT), "query", "request", "sqltext", "image", "remove", "" none
	Need   hostile.Need
	Leader bool // authorised calls are sent to the leader (the action needs it and we do not want to test forwarding failures)
}

var c18HTTP = []httpEP{
	{ID: "execute", Method: "POST", Path: "/db/execute", CType: "application/json", Body: "exec", Need: hostile.Need{All: []string{"execute"}}},
	{ID: "execute_queue", Method: "POST", Path: "/db/execute?queue", CType: "application/json", Body: "exec", Need: hostile.Need{All: []string{"execute"}}, Leader: true},
	{ID: "execute_queue_wait", Method: "POST", Path: "/db/execute?queue&wait&timeout=5s", CType: "application/json", Body: "exec", Need: hostile.Need{All: []string{"execute"}}, Leader: true},
	{ID: "query_get", Method: "GET", Path: "/db/query?level=none&q=%Q", Need: hostile.Need{All: []string{"query"}}},
	{ID: "query_post", Method: "POST", Path: "/db/query?level=weak", CType: "application/json", Body: "query", Need: hostile.Need{All: []string{"query"}}},
	{ID: "query_strong", Method: "GET", Path: "/db/query?level=strong&q=%Q", Need: hostile.Need{All: []string{"query"}}},
	{ID: "request", Method: "POST", Path: "/db/request", CType: "application/json", Body: "request", Need: hostile.Need{All: []string{"query", "execute"}}},
	{ID: "backup", Method: "GET", Path: "/db/backup", Need: hostile.Need{All: []string{"backup"}}},
	{ID: "backup_sql", Method: "GET", Path: "/db/backup?fmt=sql", Need: hostile.Need{All: []string{"backup"}}},
	{ID: "backup_gz", Method: "GET", Path: "/db/backup?compress", Need: hostile.Need{All: []string{"backup"}}},
	{ID: "backup_noleader", Method: "GET", Path: "/db/backup?noleader", Need: hostile.Need{All: []string{"backup"}}},
	{ID: "load_sql", Method: "POST", Path: "/db/load", CType: "text/plain", Body: "sqltext", Need: hostile.Need{All: []string{"load"}}, Leader: true},
	{ID: "load_image", Method: "POST", Path: "/db/load", CType: "application/octet-stream", Body: "image", Need: hostile.Need{All: []string{"load"}}, Leader: true},
	{ID: "sql", Method: "GET", Path: "/db/sql?q=%Q", Need: hostile.Need{All: []string{"query"}}},
	{ID: "boot", Method: "POST", Path: "/boot", CType: "application/octet-stream", Body: "image", Need: hostile.Need{All: []string{"load"}}, Leader: true},
	{ID: "snapshot", Method: "POST", Path: "/snapshot", Need: hostile.Need{All: []string{"snapshot"}}},
	{ID: "reap", Method: "POST", Path: "/reap", Need: hostile.Need{All: []string{"snapshot"}}},
	{ID: "remove", Method: "DELETE", Path: "/remove", CType: "application/json", Body: "remove", Need: hostile.Need{All: []string{"remove"}}},
	{ID: "status", Method: "GET", Path: "/status", Need: hostile.Need{All: []string{"status"}}},
	{ID: "nodes", Method: "GET", Path: "/nodes?timeout=2s", Need: hostile.Need{All: []string{"status"}}},
	{ID: "leader_get", Method: "GET", Path: "/leader?timeout=2s", Need: hostile.Need{All: []string{"leader-ops"}}},
	{ID: "leader_post", Method: "POST", Path: "/leader", Need: hostile.Need{All: []string{"leader-ops"}}},
	{ID: "readyz", Method: "GET", Path: "/readyz", Need: hostile.Need{All: []string{"ready"}}},
	{ID: "licenses", Method: "GET", Path: "/licenses", Need: hostile.Need{All: []string{"status"}}},
	{ID: "expvar", Method: "GET", Path: "/debug/vars", Need: hostile.Need{All: []string{"status"}}},
	{ID: "pprof", Method: "GET", Path: "/debug/pprof/cmdline", Need: hostile.Need{All: []string{"status"}}},
	{ID: "console", Method: "GET", Path: "/console/", Need: hostile.Need{All: []string{"ui"}}},
}

func c18EP(id string) *httpEP {
	for i := range c18HTTP {
		if c18HTTP[i].ID == id {
			return &c18HTTP[i]
		}
	}
	return nil
}

// genCreds draws a credential store over the universe {root, u1, u2, *}.
func genCreds(r *core.Rand) hostile.Creds {
	cs := hostile.Creds{{Username: "root", Password: "pw-root", Perms: []string{"all"}}}
	nUsers := r.Range(1, 2)
	for i := 1; i <= nUsers; i++ {
		c := hostile.Cred{Username: fmt.Sprintf("u%d", i), Password: fmt.Sprintf("pw-u%d", i)}
		p := []float64{0.15, 0.35, 0.6}[r.Intn(3)]
		for _, perm := range hostile.AllPerms[1:] {
			if r.Bool(p) {
				c.Perms = append(c.Perms, perm)
			}
		}
		if r.Bool(0.08) {
			c.Perms = append(c.Perms, "all")
		}
		cs = append(cs, c)
	}
	if r.Bool(0.4) {
		c := hostile.Cred{Username: "*", Password: "pw-star"}
		for _, perm := range hostile.AllPerms[1:] {
			if r.Bool(0.12) {
				c.Perms = append(c.Perms, perm)
			}
		}
		cs = append(cs, c)
	}
	return cs
}

func c18Gen(r *core.Rand, tier string) any {
	sc := &c18Scenario{Seed: r.Uint64()}
	sc.Nodes = 1
	if r.Bool(0.5) {
		sc.Nodes = 3
	}
	sc.Creds = genCreds(r)
	sc.Tick = []float64{0.02, 0.08, 0.2}[r.Intn(3)]
	if r.Bool(0.3) {
		sc.Split = 0.1
	}
	// Every inter-node command kind x every presentation, and every HTTP
	// endpoint x every presentation, once per run, in a random order, each
	// with a random user and a random target node.
	var ops []c18Op
	for _, k := range hostile.PeerKinds {
		for _, p := range hostile.Presentations {
			op := c18Op{K: "peer", Cmd: k, Pres: p, User: r.Intn(len(sc.Creds)), Node: r.Intn(sc.Nodes + 1)}
			if k == "join" {
				op.Var = []string{"voter", "nonvoter"}[r.Intn(2)]
			}
			if p == "none" && r.Bool(0.3) {
				op.Var += "+emptycreds"
			}
			ops = append(ops, op)
		}
	}
	for _, ep := range c18HTTP {
		for _, p := range hostile.Presentations {
			ops = append(ops, c18Op{K: "http", Cmd: ep.ID, Pres: p, User: r.Intn(len(sc.Creds)), Node: r.Intn(sc.Nodes + 1)})
		}
	}
	for i := len(ops) - 1; i > 0; i-- {
		j := r.Intn(i + 1)
		ops[i], ops[j] = ops[j], ops[i]
	}
	if tier != "thorough" {
		// quick tier: a random 60 % of the matrix per run (the batch covers it many times over)
		ops = ops[:len(ops)*6/10]
	}
	sc.Ops = ops
	return sc
}

const c18Select = "SELECT * FROM " + hostile.MarkTable

func c18Run(c *core.Ctx, raw json.RawMessage) {
	var sc c18Scenario
	if err := json.Unmarshal(raw, &sc); err != nil {
		panic(err)
	}
	if sc.Gen != nil {
		g := c18Gen(core.NewRand(*sc.Gen), c.Tier).(*c18Scenario)
		sc = *g
	}
	c.Rng = core.NewRand(sc.Seed)
	s := sim.New(c)
	s.TickProb = sc.Tick
	s.SplitProb = sc.Split
	defer s.Shutdown()

	if sc.Nodes != 3 {
		sc.Nodes = 1
	}
	if len(sc.Creds) == 0 || sc.Creds.Root() == nil {
		c.Discard("scenario-without-root-credentials")
		return
	}
	e, err := hostile.Boot(c, s, sc.Nodes, sc.Creds, node.Knobs{})
	if err != nil {
		c.Discard("boot-failed: " + err.Error())
		return
	}
	pre, err := e.State()
	if err != nil {
		c.Discard("state-failed: " + err.Error())
		return
	}
	c.Log.Add("%d booted %s", s.StepN, pre.Digest())

	for i, op := range sc.Ops {
		if s.Capped || c.Failed() {
			break
		}
		user, pass, present := sc.Creds.Present(op.User, op.Pres)
		var post *hostile.State
		switch op.K {
		case "peer":
			post = c18Peer(c, e, i, op, user, pass, present, pre)
		case "http":
			post = c18HTTPOp(c, e, i, op, user, pass, present, pre)
		}
		if post != nil {
			pre = post
		}
	}
	if s.Capped {
		c.Res.Verdict = core.Capped
	}
	c.Res.Trivial = c.Res.Probes["unauthorized_peer"] == 0 && c.Res.Probes["unauthorized_http"] == 0
	c.Sig(pre.Digest())
}

func c18Target(e *hostile.Env, nodeIdx int, wantLeader bool) *node.Node {
	if nodeIdx <= 0 || nodeIdx > e.N || wantLeader {
		return e.WaitLeader()
	}
	n := e.S.Nodes[nodeIdx]
	if !n.Up {
		return e.WaitLeader()
	}
	return n
}

// c18After re-reads the state after a request and judges the "no side
// effects" half for unauthorised requests. Returns the new state.
func c18After(c *core.Ctx, e *hostile.Env, what string, allowed, leadership bool, pre *hostile.State, class string) *hostile.State {
	e.Settle()
	post, err := e.State()
	if err != nil {
		c.Discard("state-failed: " + err.Error())
		return nil
	}
	if !allowed {
		if d := pre.Diff(post, leadership, true); d != "" {
			c.Violate(class, "%s was not authorised but had a side effect: %s", what, d)
			return post
		}
	}
	return post
}

func c18Peer(c *core.Ctx, e *hostile.Env, i int, op c18Op, user, pass string, present bool, pre *hostile.State) *hostile.State {
	s := e.S
	voter := strings.HasPrefix(op.Var, "voter")
	need := hostile.PeerNeed(op.Cmd, voter)
	allowed := e.Creds.Authorized(user, pass, need)
	if strings.Contains(op.Var, "emptycreds") && !present {
		present = true // an empty Credentials message instead of none
	}
	ldr := e.WaitLeader()
	if ldr == nil {
		c.Discard("no-leader")
		return nil
	}
	tgt := c18Target(e, op.Node, false)
	p := hostile.Params{Query: c18Select, Level: command.ConsistencyLevel_NONE, Image: e.Image}
	fresh := e.Fresh()
	p.SQL = "INSERT INTO " + hostile.MarkTable + "(v) VALUES('" + fresh + "')"
	switch op.Cmd {
	case "execute", "request", "load":
		if allowed {
			tgt = ldr // the action itself needs the leader
		}
		if op.Cmd == "request" {
			p.Level = command.ConsistencyLevel_WEAK
		}
	case "join", "notify":
		p.ID, p.Addr, p.Voter = fmt.Sprintf("ghost%d", i), fmt.Sprintf("10.0.0.%d:4002", 60+i%100), voter
		if allowed {
			tgt = ldr
			if voter && e.N == 1 {
				p.Voter = false // a ghost voter would cost a 1-node cluster its quorum; keep the authorised case harmless
				if !e.Creds.Authorized(user, pass, hostile.PeerNeed("join", false)) {
					c.Log.Add("%d op %d peer %s skipped (authorised voter join on a 1-node cluster)", s.StepN, i, op.Cmd)
					return nil
				}
			}
		}
	case "remove":
		if allowed {
			p.ID = "ghost-not-there"
			tgt = ldr
		} else {
			// the damage an unauthorised removal would do must be visible: name a real node
			p.ID = s.Nodes[e.N].ID
			tgt = ldr
		}
	case "stepdown":
		tgt = ldr
	}
	payload := hostile.Build(op.Cmd, "ok", "", nil, user, pass, present, p)
	wire := append([]byte{hostile.HdrCluster}, hostile.Frame(payload)...)
	label := fmt.Sprintf("op%d peer %s %s u%d/%s -> %s", i, op.Cmd, op.Var, op.User, op.Pres, tgt.ID)
	rec := e.D.Run(label, tgt.RaftAddr, hostile.Stream{Chunks: [][]byte{wire}, End: "fin"})
	frames, rest := hostile.SplitFrames(rec.Resp)
	var ri hostile.RespInfo
	if len(frames) > 0 {
		ri = hostile.Inspect(op.Cmd, frames[0])
	}
	errTxt := ri.Error
	if len(errTxt) > 60 {
		errTxt = errTxt[:60]
	}
	c.Log.Add("%d op %d peer %s %s u%d/%s target=%s allowed=%v -> frames=%d rest=%d err=%q payload=%v eof=%v",
		s.StepN, i, op.Cmd, op.Var, op.User, op.Pres, tgt.ID, allowed, len(frames), len(rest), errTxt, ri.Payload > 0, rec.EOF)
	if rec.DialErr != "" {
		c.Discard("dial-failed: " + rec.DialErr)
		return nil
	}
	what := fmt.Sprintf("inter-node command %s (%s) from user %q presented as %q", op.Cmd, op.Var, user, op.Pres)
	if !allowed {
		c.Probe("unauthorized_peer")
		c.Probe("unauthorized_peer_" + op.Cmd)
		if leak := hostile.Leak(rec.Resp, hostile.Markers); leak != "" {
			c.Violate("peer-leak/"+op.Cmd, "%s was not authorised but the node sent database content: %s; %d bytes returned in %d frame(s) + %d stray bytes, first frame error=%q",
				what, leak, len(rec.Resp), len(frames), len(rest), ri.Error)
			return nil
		}
		switch {
		case len(frames) == 0:
			// rejected by closing the connection: acceptable
			if !rec.EOF {
				c.Violate("peer-no-answer/"+op.Cmd, "%s: neither an error answer nor a closed connection (%s)", what, rec.ReadErr)
				return nil
			}
		case !ri.Parsed || ri.Error == "":
			c.Violate("peer-no-error/"+op.Cmd, "%s was not authorised but the answer carries no error (parsed=%v, %d payload bytes)", what, ri.Parsed, ri.Payload)
			return nil
		case ri.Payload > 0:
			c.Violate("peer-payload/"+op.Cmd, "%s was not authorised; the error answer %q also carries %d bytes of result fields", what, ri.Error, ri.Payload)
			return nil
		case len(frames) > 1 || len(rest) > 0:
			c.Violate("peer-extra-bytes/"+op.Cmd, "%s was not authorised; after the error answer %q the node sent %d more bytes", what, ri.Error, len(rec.Resp)-8-len(frames[0]))
			return nil
		}
	} else {
		c.Probe("authorized_peer")
		if len(frames) > 0 && ri.Parsed && ri.Error == "" {
			c.Probe("authorized_peer_ok")
			if hostile.Leak(rec.Resp, hostile.Markers) != "" {
				c.Probe("authorized_peer_data_seen") // the leak detector sees what an authorised reader gets
			}
		}
		if ri.Error == "unauthorized" {
			c.Probe("model_says_authorized_node_says_unauthorized")
		}
	}
	post := c18After(c, e, what, allowed, op.Cmd == "stepdown", pre, "peer-side-effect/"+op.Cmd)
	if post != nil && allowed && !c.Failed() {
		post = c18Cleanup(c, e, op.Cmd, post)
	}
	return post
}

// c18Cleanup undoes what authorised requests legitimately changed where that
// would get in the way of later requests (ghost members), and keeps the load
// image different from the live database.
func c18Cleanup(c *core.Ctx, e *hostile.Env, cmd string, post *hostile.State) *hostile.State {
	changed := false
	switch cmd {
	case "join", "notify":
		if len(post.Config) > 0 && strings.Contains(strings.Join(post.Config, ","), "ghost") {
			e.RemoveGhosts()
			changed = true
		}
	case "load", "load_image", "boot":
		if !e.Exec("INSERT INTO " + hostile.MarkTable + "(v) VALUES('" + e.Fresh() + "')") {
			c.Discard("post-load-insert-failed")
			return nil
		}
		changed = true
	}
	if !changed {
		return post
	}
	e.Settle()
	st, err := e.State()
	if err != nil {
		c.Discard("state-failed: " + err.Error())
		return nil
	}
	return st
}

func c18HTTPOp(c *core.Ctx, e *hostile.Env, i int, op c18Op, user, pass string, present bool, pre *hostile.State) *hostile.State {
	s := e.S
	ep := c18EP(op.Cmd)
	if ep == nil {
		return nil
	}
	if !present {
		user, pass = "", ""
	}
	allowed := e.Creds.Authorized(user, pass, ep.Need)
	ldr := e.WaitLeader()
	if ldr == nil {
		c.Discard("no-leader")
		return nil
	}
	tgt := c18Target(e, op.Node, allowed && ep.Leader)
	if op.Cmd == "boot" && allowed && e.N != 1 {
		tgt = ldr
	}
	path := strings.ReplaceAll(ep.Path, "%Q", url.QueryEscape(c18Select))
	fresh := e.Fresh()
	insert := "INSERT INTO " + hostile.MarkTable + "(v) VALUES('" + fresh + "')"
	var body []byte
	switch ep.Body {
	case "exec":
		body = []byte(`["` + insert + `"]`)
	case "query":
		body = []byte(`["` + c18Select + `"]`)
	case "request":
		body = []byte(`["` + c18Select + `", "` + insert + `"]`)
	case "sqltext":
		body = []byte(insert + ";")
	case "image":
		body = e.Image
	case "remove":
		id := "ghost-not-there"
		if !allowed {
			id = s.Nodes[e.N].ID
		}
		body = []byte(`{"id": "` + id + `"}`)
	}
	if ep.Method == "GET" {
		body = nil
	}
	label := fmt.Sprintf("op%d http %s u%d/%s -> %s", i, op.Cmd, op.User, op.Pres, tgt.ID)
	var code int
	var respBody []byte
	t := s.Go(label, func() {
		w := tgt.HTTPDo(ep.Method, path, ep.CType, body, user, pass)
		code = w.Code
		respBody = w.Body.Bytes()
	})
	if !e.D.Await(t, 120*time.Second) {
		c.Discard("http-request-stuck")
		return nil
	}
	// the size of an authorised answer is not logged: status, expvar, pprof bodies contain pids, real times, memory statistics
	bodyDesc := fmt.Sprint(len(respBody))
	if allowed {
		bodyDesc = fmt.Sprint(len(respBody) > 0)
	}
	c.Log.Add("%d op %d http %s u%d/%s target=%s allowed=%v -> code=%d body=%s", s.StepN, i, op.Cmd, op.User, op.Pres, tgt.ID, allowed, code, bodyDesc)
	what := fmt.Sprintf("HTTP %s %s from user %q presented as %q", ep.Method, ep.Path, user, op.Pres)
	if !allowed {
		c.Probe("unauthorized_http")
		c.Probe("unauthorized_http_" + op.Cmd)
		if leak := hostile.Leak(respBody, hostile.Markers); leak != "" {
			c.Violate("http-leak/"+op.Cmd, "%s was not authorised but the response (status %d, %d bytes) discloses database content: %s", what, code, len(respBody), leak)
			return nil
		}
		if code != 401 {
			snippet := string(respBody)
			if len(snippet) > 120 {
				snippet = snippet[:120]
			}
			c.Violate("http-not-rejected/"+op.Cmd, "%s was not authorised but the response status is %d, not 401 (body starts %q)", what, code, snippet)
			return nil
		}
	} else {
		c.Probe("authorized_http")
		if code >= 200 && code < 300 {
			c.Probe("authorized_http_ok")
			if hostile.Leak(respBody, hostile.Markers) != "" {
				c.Probe("authorized_http_data_seen")
			}
		}
		if code == 401 {
			c.Probe("model_says_authorized_node_says_unauthorized")
		}
	}
	if allowed && code == 200 && strings.HasPrefix(op.Cmd, "execute_queue") {
		// a queued write is acknowledged before it is applied: wait for it to land so
		// that it is not mistaken for a side effect of the next request
		if e.AwaitRow(fresh, 10*time.Second) {
			c.Probe("queued_write_landed")
		} else {
			c.Probe("queued_write_not_landed_in_10s")
		}
	}
	post := c18After(c, e, what, allowed, op.Cmd == "leader_post", pre, "http-side-effect/"+op.Cmd)
	if post != nil && allowed && !c.Failed() {
		post = c18Cleanup(c, e, op.Cmd, post)
	}
	return post
}

func init() {
	core.Register(&core.Prop{ID: "C18", Bubble: true, Gen: c18Gen, Run: c18Run})
}
