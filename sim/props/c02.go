package props

import (
	"context"
	"encoding/json"
	"fmt"
	"sort"
	"time"

	"github.com/anishathalye/porcupine"
	"github.com/rqlite/rqlite/v10/command/proto"
	"verifsim/core"
	"verifsim/node"
	"verifsim/sim"
)

// C02: client-visible history of acked writes and linearizable/strong reads is
// linearizable, under partitions, resets, stepdowns, crashes.

type c02Op struct {
	Kind   string `json:"k"` // w r partition isolate heal crash restart stepdown run
	Client int    `json:"c,omitempty"`
	Node   int    `json:"n,omitempty"`
	Key    int    `json:"key,omitempty"`
	Level  string `json:"lvl,omitempty"`
	Group  []int  `json:"g,omitempty"` // one side of a partition
	Gap    int    `json:"gap,omitempty"`
	// WaitNewLeader: before issuing, step until some node other than the last
	// fault's target believes it is leader (bounded), so that the reads hit a
	// leader that has only just been elected.
	WaitNewLeader bool `json:"wnl,omitempty"`
	Ms            int  `json:"ms,omitempty"`
}

type c02Scenario struct {
	Seed    uint64     `json:"seed"`
	Nodes   int        `json:"nodes"`
	Clients int        `json:"clients"`
	Keys    int        `json:"keys"`
	Knobs   node.Knobs `json:"knobs"`
	Tick    float64    `json:"tick"`
	Split   float64    `json:"split"`
	NoFault bool       `json:"no_fault,omitempty"`
	// SkewNode's raft timeouts (heartbeat, election, leader lease) are SkewFactor
	// times longer than everybody else's: a node whose clock runs slow.
	SkewNode   int     `json:"skew_node,omitempty"`
	SkewFactor int     `json:"skew_factor,omitempty"`
	Ops        []c02Op `json:"ops"`
}

func c02Gen(r *core.Rand, tier string) any {
	sc := &c02Scenario{Seed: r.Uint64()}
	sc.Nodes = 3
	if r.Bool(0.25) {
		sc.Nodes = 5
	}
	sc.Clients = r.Range(2, 4)
	sc.Keys = r.Range(1, 3)
	sc.Tick = []float64{0.02, 0.08, 0.2}[r.Intn(3)]
	if r.Bool(0.3) {
		sc.Split = 0.05
	}
	sc.Knobs = node.Knobs{
		HeartbeatTimeout: time.Duration(r.Range(2, 10)) * 100 * time.Millisecond,
		ApplyTimeout:     time.Duration(r.Range(2, 6)) * time.Second,
	}
	sc.Knobs.ElectionTimeout = sc.Knobs.HeartbeatTimeout
	sc.Knobs.LeaderLeaseTimeout = sc.Knobs.HeartbeatTimeout / 2
	if r.Bool(0.5) {
		sc.Knobs.SnapshotThreshold = uint64(r.Range(4, 16))
		sc.Knobs.SnapshotInterval = time.Duration(r.Range(1, 5)) * time.Second
	}
	if r.Bool(0.3) {
		sc.SkewNode = 1
		if r.Bool(0.4) {
			sc.SkewNode = 1 + r.Intn(sc.Nodes)
		}
		sc.SkewFactor = r.Range(3, 12)
	}
	sc.NoFault = r.Bool(0.15)
	nops := r.Range(20, 70)
	enabled := map[string]bool{}
	for _, k := range []string{"partition", "isolate", "crash", "stepdown", "reset"} {
		enabled[k] = !sc.NoFault && r.Bool(0.6)
	}
	down := map[int]bool{}
	parted := false
	// Biased multi-step patterns (still made of primitive ops, so the shrinker
	// can cut them down): node 0 = the leader at that moment, -1 = the node the
	// last fault targeted, -2 = some node other than that one.
	macroAt := -1
	macro := 0
	if !sc.NoFault && r.Bool(0.45) {
		macroAt = r.Intn(nops)
		macro = 1 + r.Intn(3)
	}
	for i := 0; i < nops; i++ {
		if i == macroAt {
			k := r.Intn(sc.Keys)
			hbms := int(sc.Knobs.HeartbeatTimeout / time.Millisecond)
			switch macro {
			case 1: // deposed leader: strong read, isolate it, let the others elect and ack a write, read on the old leader
				sc.Ops = append(sc.Ops,
					c02Op{Kind: "r", Client: 0, Node: 0, Key: k, Level: "strong", Gap: r.Range(5, 40)},
					c02Op{Kind: "isolate", Node: 0, Gap: r.Intn(5)},
					c02Op{Kind: "run", Ms: r.Range(hbms, 4*hbms)},
					c02Op{Kind: "w", Client: 1, Node: -2, Key: k, Gap: r.Range(5, 60)},
					c02Op{Kind: "r", Client: 0, Node: -1, Key: k, Level: "linearizable", Gap: r.Intn(20)},
					c02Op{Kind: "r", Client: 0, Node: -1, Key: k, Level: "linearizable", Gap: r.Intn(20)},
					c02Op{Kind: "heal", Gap: r.Intn(30)})
			case 2: // leadership moves right after an acked write; several clients read at once
				sc.Ops = append(sc.Ops,
					c02Op{Kind: "w", Client: 0, Node: 0, Key: k, Gap: r.Range(0, 30)},
					c02Op{Kind: "stepdown", Gap: r.Intn(12)})
				toLeader := r.Bool(0.6)
				for j := 0; j < sc.Clients; j++ {
					op := c02Op{Kind: "r", Client: j, Node: 1 + r.Intn(sc.Nodes), Key: k, Level: "linearizable", Gap: r.Intn(3)}
					if toLeader {
						op.Node, op.WaitNewLeader, op.Gap = 0, j == 0, 0
					}
					sc.Ops = append(sc.Ops, op)
				}
			case 3: // leader crashes with a write in flight; readers everywhere
				sc.Ops = append(sc.Ops,
					c02Op{Kind: "w", Client: 0, Node: 0, Key: k, Gap: r.Intn(6)},
					c02Op{Kind: "crash", Node: 0, Gap: r.Intn(10)})
				for j := 1; j < sc.Clients; j++ {
					sc.Ops = append(sc.Ops, c02Op{Kind: "r", Client: j, Node: -2, Key: k, Level: "linearizable", Gap: r.Intn(8)})
				}
				sc.Ops = append(sc.Ops, c02Op{Kind: "run", Ms: r.Range(500, 3000)}, c02Op{Kind: "restart", Gap: r.Intn(20)})
			}
		}
		x := r.Intn(100)
		switch {
		case len(sc.Ops) == 0:
			sc.Ops = append(sc.Ops, c02Op{Kind: "w", Client: 0, Node: 1 + r.Intn(sc.Nodes), Key: 0})
		case x < 38:
			sc.Ops = append(sc.Ops, c02Op{Kind: "w", Client: r.Intn(sc.Clients), Node: 1 + r.Intn(sc.Nodes), Key: r.Intn(sc.Keys), Gap: r.Intn(12)})
		case x < 76:
			lvl := "linearizable"
			if r.Bool(0.25) {
				lvl = "strong"
			}
			sc.Ops = append(sc.Ops, c02Op{Kind: "r", Client: r.Intn(sc.Clients), Node: 1 + r.Intn(sc.Nodes), Key: r.Intn(sc.Keys), Level: lvl, Gap: r.Intn(12)})
		case x < 82:
			if enabled["partition"] {
				// random bipartition
				var g []int
				for n := 1; n <= sc.Nodes; n++ {
					if r.Bool(0.5) {
						g = append(g, n)
					}
				}
				if len(g) > 0 && len(g) < sc.Nodes {
					sc.Ops = append(sc.Ops, c02Op{Kind: "partition", Group: g, Gap: r.Intn(30)})
					parted = true
				}
			}
		case x < 86:
			if enabled["isolate"] {
				sc.Ops = append(sc.Ops, c02Op{Kind: "isolate", Node: r.Intn(sc.Nodes + 1), Gap: r.Intn(30)}) // node 0 = current leader
				parted = true
			}
		case x < 91:
			if parted {
				sc.Ops = append(sc.Ops, c02Op{Kind: "heal", Gap: r.Intn(30)})
				parted = false
			}
		case x < 94:
			if enabled["crash"] && len(down) < (sc.Nodes-1)/2 {
				n := r.Intn(sc.Nodes + 1)
				if n == 0 || !down[n] {
					sc.Ops = append(sc.Ops, c02Op{Kind: "crash", Node: n, Gap: r.Intn(20)})
					if n != 0 {
						down[n] = true
					} else {
						down[-1] = true // leader, resolved at run time
					}
				}
			}
		case x < 96:
			if len(down) > 0 {
				sc.Ops = append(sc.Ops, c02Op{Kind: "restart", Gap: r.Intn(20)})
				down = map[int]bool{}
			}
		case x < 97:
			if enabled["stepdown"] {
				sc.Ops = append(sc.Ops, c02Op{Kind: "stepdown", Gap: r.Intn(10)})
			}
		case x < 98:
			if enabled["reset"] {
				sc.Ops = append(sc.Ops, c02Op{Kind: "reset", Node: 1 + r.Intn(sc.Nodes), Gap: r.Intn(10)})
			} else if enabled["partition"] {
				a, b := 1+r.Intn(sc.Nodes), 1+r.Intn(sc.Nodes)
				if a != b {
					sc.Ops = append(sc.Ops, c02Op{Kind: "oneway", Node: a, Group: []int{b}, Gap: r.Intn(30)})
					parted = true
				}
			}
		default:
			sc.Ops = append(sc.Ops, c02Op{Kind: "run", Ms: r.Range(50, 3000)})
		}
		// after a fault, often let simulated time pass so that elections and
		// lease expiry actually happen while clients keep going
		if k := sc.Ops[len(sc.Ops)-1].Kind; k != "w" && k != "r" && k != "run" && r.Bool(0.6) {
			sc.Ops = append(sc.Ops, c02Op{Kind: "run", Ms: r.Range(200, 2500)})
		}
	}
	return sc
}

type c02Hist struct {
	Client   int
	Kind     string
	Key      int
	Val      int // value written, or value read (0 = absent)
	Call     int
	Ret      int
	Outcome  string // ok | fail | unknown
	Node     int
	Err      string
	finished bool
}

type regIn struct {
	Write bool
	Key   int
	Val   int
}

var c02Model = porcupine.Model{
	Partition: func(history []porcupine.Operation) [][]porcupine.Operation {
		m := map[int][]porcupine.Operation{}
		var keys []int
		for _, o := range history {
			k := o.Input.(regIn).Key
			if _, ok := m[k]; !ok {
				keys = append(keys, k)
			}
			m[k] = append(m[k], o)
		}
		sort.Ints(keys)
		var out [][]porcupine.Operation
		for _, k := range keys {
			out = append(out, m[k])
		}
		return out
	},
	Init: func() interface{} { return 0 },
	Step: func(state, input, output interface{}) (bool, interface{}) {
		in := input.(regIn)
		if in.Write {
			return true, in.Val
		}
		return output.(int) == state.(int), state
	},
	Equal: func(a, b interface{}) bool { return a.(int) == b.(int) },
	DescribeOperation: func(input, output interface{}) string {
		in := input.(regIn)
		if in.Write {
			return fmt.Sprintf("w(k%d,%d)", in.Key, in.Val)
		}
		return fmt.Sprintf("r(k%d)=%d", in.Key, output.(int))
	},
}

// definiteFailure: the error proves the request was never appended to the log.
//
// Every request goes through proxy.Execute with forwarding enabled. A local
// "not leader" never reaches the caller (it triggers forwarding), so any other
// error text comes from the REMOTE node, and cluster.Client.retry re-sends a
// forwarded command on a fresh connection after an ambiguous failure: the first
// copy may have been applied by the old leader while the second copy is answered
// "not leader" by a node that has meanwhile been deposed. (First seen as a false
// alarm in the thorough tier: a write answered "not leader" was read back later.)
// Only "leader not found", produced locally before anything is sent, is definite.
func definiteFailure(err error) bool {
	return err != nil && err.Error() == "leader not found"
}

func c02Run(c *core.Ctx, raw json.RawMessage) {
	var sc c02Scenario
	if err := json.Unmarshal(raw, &sc); err != nil {
		panic(err)
	}
	c.Rng = core.NewRand(sc.Seed)
	s := sim.New(c)
	s.TickProb = sc.Tick
	s.SplitProb = sc.Split
	defer s.Shutdown()

	for i := 1; i <= sc.Nodes; i++ {
		k := sc.Knobs
		if i == sc.SkewNode && sc.SkewFactor > 1 {
			f := time.Duration(sc.SkewFactor)
			k.HeartbeatTimeout *= f
			k.ElectionTimeout *= f
			k.LeaderLeaseTimeout *= f
			c.Probe("skewed_node")
		}
		s.AddNode(k)
	}
	if err := s.Boot(sc.Nodes, sc.Knobs, nil); err != nil {
		c.Discard("boot-failed: " + err.Error())
		return
	}
	// schema
	if !execOn(s, s.Leader(), "CREATE TABLE kv (k INTEGER PRIMARY KEY, v INTEGER)") {
		c.Discard("schema-failed")
		return
	}

	var hist []*c02Hist
	busy := map[int]*sim.Task{}
	nextVal := 0
	downNodes := []int{}
	opTimeout := 8 * time.Second

	lastTarget := 0
	resolveNode := func(n int) int {
		switch n {
		case 0:
			if l := s.Leader(); l != nil {
				return l.Idx
			}
			return -100
		case -1:
			if lastTarget == 0 {
				return -100
			}
			return lastTarget
		case -2:
			for i := 1; i <= sc.Nodes; i++ {
				if i != lastTarget && s.Nodes[i].Up {
					return i
				}
			}
			return -100
		}
		return n
	}
	for _, op := range sc.Ops {
		if s.Capped || c.Failed() {
			break
		}
		switch op.Kind {
		case "w", "r":
			if op.WaitNewLeader {
				s.RunUntil(func() bool { l := s.Leader(); return l != nil && l.Idx != lastTarget }, 5*time.Second)
			}
			op.Node = resolveNode(op.Node)
			if op.Node < 1 || op.Node > sc.Nodes {
				continue
			}
			if t := busy[op.Client]; t != nil && !t.Finished {
				s.Await(t, 60*time.Second)
				if !t.Finished {
					continue
				}
			}
			n := s.Nodes[op.Node]
			if !n.Up {
				continue
			}
			h := &c02Hist{Client: op.Client, Kind: op.Kind, Key: op.Key, Node: op.Node, Outcome: "unknown"}
			hist = append(hist, h)
			if op.Kind == "w" {
				nextVal++
				h.Val = nextVal
				val := nextVal
				t := s.Go(fmt.Sprintf("w c%d n%d k%d v%d", op.Client, op.Node, op.Key, val), func() {
					er := &proto.ExecuteRequest{Request: &proto.Request{Statements: []*proto.Statement{{
						Sql: fmt.Sprintf("INSERT OR REPLACE INTO kv(k,v) VALUES(%d,%d)", op.Key, val)}}}}
					res, _, _, err := n.Proxy.Execute(context.Background(), er, nil, opTimeout, 0, false)
					switch {
					case err == nil && len(res) == 1 && res[0].GetE() != nil && res[0].GetE().Error == "" && res[0].GetError() == "":
						h.Outcome = "ok"
					case err == nil:
						h.Outcome = "fail" // statement-level error: applied and failed, nothing written
						h.Err = fmt.Sprint(res)
					case definiteFailure(err):
						h.Outcome = "fail"
						h.Err = err.Error()
					default:
						h.Err = err.Error()
					}
				})
				h.Call = t.Invoke
				t.OnDone = func() { h.Ret = t.Return; h.finished = true }
				busy[op.Client] = t
			} else {
				lvl := proto.ConsistencyLevel_LINEARIZABLE
				if op.Level == "strong" {
					lvl = proto.ConsistencyLevel_STRONG
				}
				t := s.Go(fmt.Sprintf("r c%d n%d k%d %s", op.Client, op.Node, op.Key, op.Level), func() {
					qr := &proto.QueryRequest{Level: lvl, LinearizableTimeout: int64(5 * time.Second),
						Request: &proto.Request{Statements: []*proto.Statement{{
							Sql: fmt.Sprintf("SELECT v FROM kv WHERE k=%d", op.Key)}}}}
					rows, _, _, err := n.Proxy.Query(context.Background(), qr, nil, opTimeout, 0, false)
					if err != nil {
						h.Outcome = "fail"
						h.Err = err.Error()
						return
					}
					if len(rows) != 1 || rows[0].Error != "" {
						h.Outcome = "fail"
						h.Err = fmt.Sprint(rows)
						return
					}
					h.Outcome = "ok"
					if len(rows[0].Values) > 0 {
						h.Val = int(rows[0].Values[0].Parameters[0].GetI())
					}
				})
				h.Call = t.Invoke
				t.OnDone = func() { h.Ret = t.Return; h.finished = true }
				busy[op.Client] = t
			}
		case "partition":
			var a, b []string
			in := map[int]bool{}
			for _, g := range op.Group {
				in[g] = true
			}
			for i := 1; i <= sc.Nodes; i++ {
				if in[i] {
					a = append(a, s.Nodes[i].HostName)
				} else {
					b = append(b, s.Nodes[i].HostName)
				}
			}
			s.Net.Heal()
			s.Net.Partition(a, b)
			c.Fault("partition")
			c.Log.Add("%d fault partition %v | %v", s.StepN, a, b)
		case "isolate":
			tgt := op.Node
			if tgt == 0 {
				if l := s.Leader(); l != nil {
					tgt = l.Idx
					if s.PendingTasks() > 0 {
						c.Probe("isolate_leader_with_inflight_op")
					}
				} else {
					continue
				}
			}
			var rest []string
			for i := 1; i <= sc.Nodes; i++ {
				if i != tgt {
					rest = append(rest, s.Nodes[i].HostName)
				}
			}
			s.Net.Heal()
			s.Net.Partition([]string{s.Nodes[tgt].HostName}, rest)
			lastTarget = tgt
			c.Fault("isolate")
			c.Log.Add("%d fault isolate n%d", s.StepN, tgt)
		case "reset":
			cs := s.Net.ConnsOf(s.Nodes[op.Node].HostName)
			if len(cs) > 0 {
				s.Net.Reset(cs[c.Rng.Intn(len(cs))])
				c.Fault("reset")
				c.Log.Add("%d fault reset one connection of n%d", s.StepN, op.Node)
			}
		case "oneway":
			if len(op.Group) == 1 && op.Group[0] >= 1 && op.Group[0] <= sc.Nodes && op.Node >= 1 && op.Node <= sc.Nodes {
				s.Net.Block(s.Nodes[op.Node].HostName, s.Nodes[op.Group[0]].HostName)
				c.Fault("oneway")
				c.Log.Add("%d fault block n%d -> n%d", s.StepN, op.Node, op.Group[0])
			}
		case "heal":
			s.Net.Heal()
			c.Fault("heal")
			c.Log.Add("%d fault heal", s.StepN)
		case "crash":
			tgt := op.Node
			if tgt == 0 {
				if l := s.Leader(); l != nil {
					tgt = l.Idx
				} else {
					continue
				}
			}
			if len(downNodes) >= (sc.Nodes-1)/2 || !s.Nodes[tgt].Up {
				continue
			}
			if s.PendingTasks() > 0 {
				c.Probe("crash_with_inflight_op")
			}
			lastTarget = tgt
			c.Log.Add("%d fault crash n%d", s.StepN, tgt)
			if err := s.Crash(tgt); err != nil {
				c.Discard("crash-failed: " + err.Error())
				return
			}
			downNodes = append(downNodes, tgt)
		case "restart":
			for _, d := range downNodes {
				c.Log.Add("%d fault restart n%d", s.StepN, d)
				if err := s.Restart(d); err != nil {
					c.Violate("restart-failed", "node %d failed to restart after crash: %v", d, err)
					break
				}
			}
			downNodes = nil
		case "stepdown":
			if l := s.Leader(); l != nil && s.PendingTasks() >= 0 {
				c.Fault("stepdown")
				lastTarget = l.Idx
				c.Log.Add("%d fault stepdown n%d", s.StepN, l.Idx)
				ll := l
				s.Go("stepdown", func() { ll.Store.Stepdown(true, "") })
			}
		case "run":
			s.RunFor(time.Duration(op.Ms) * time.Millisecond)
		}
		for i := 0; i < op.Gap && !s.Capped; i++ {
			s.Step()
		}
	}
	if c.Failed() {
		return
	}
	// let outstanding client ops finish (their own timeouts bound this)
	s.Net.Heal()
	s.Drain(90 * time.Second)

	// Build the porcupine history.
	maxStep := s.StepN + 10
	var ops []porcupine.Operation
	nOK, nUnknown, nReadsOK := 0, 0, 0
	for _, h := range hist {
		if h.Kind == "w" {
			if h.Outcome == "fail" && h.finished {
				continue
			}
			ret := int64(h.Ret)
			if h.Outcome != "ok" || !h.finished {
				ret = int64(maxStep) // maybe applied, at any later point
				nUnknown++
			} else {
				nOK++
			}
			ops = append(ops, porcupine.Operation{ClientId: h.Client, Input: regIn{true, h.Key, h.Val}, Call: int64(h.Call), Output: 0, Return: ret})
		} else if h.Outcome == "ok" && h.finished {
			nReadsOK++
			ops = append(ops, porcupine.Operation{ClientId: h.Client, Input: regIn{false, h.Key, 0}, Call: int64(h.Call), Output: h.Val, Return: int64(h.Ret)})
		}
	}
	c.ProbeN("writes_acked", nOK)
	c.ProbeN("writes_unknown", nUnknown)
	c.ProbeN("reads_ok", nReadsOK)
	if sc.NoFault && nUnknown > 0 {
		// Not a violation: even without injected faults the scheduler may delay
		// heartbeats long enough for an election, and a write in flight then has
		// no definite outcome. Counted so that a drift in its frequency is visible.
		c.Probe("unknown_outcome_without_injected_fault")
	}
	c.Res.Trivial = nReadsOK == 0 || nOK == 0
	// porcupine wants distinct client ids per concurrent op: our clients are sequential, except
	// that an unknown write stays "open" forever; give those their own ids.
	cid := 1000
	for i := range ops {
		if ops[i].Return == int64(maxStep) {
			ops[i].ClientId = cid
			cid++
		}
	}
	res, info := porcupine.CheckOperationsVerbose(c02Model, ops, 30*time.Second)
	_ = info
	switch res {
	case porcupine.Illegal:
		for _, h := range hist {
			c.Log.Add("hist c%d %s k%d v%d call=%d ret=%d %s n%d %s", h.Client, h.Kind, h.Key, h.Val, h.Call, h.Ret, h.Outcome, h.Node, h.Err)
		}
		c.Violate("non-linearizable", "history of %d ops is not linearizable (acked writes %d, unknown %d, reads %d)", len(ops), nOK, nUnknown, nReadsOK)
	case porcupine.Unknown:
		c.Probe("porcupine_timeout")
		c.Discard("porcupine-timeout")
	}
	c.Sig(fmt.Sprintf("%d/%d/%d/%s", nOK, nUnknown, nReadsOK, s.StateDigest()))
}

// execOn runs one write on a node directly and steps until done.
func execOn(s *sim.Sim, n *node.Node, sql string) bool {
	if n == nil {
		return false
	}
	ok := false
	s.Do("exec "+sql, 60*time.Second, func() {
		er := &proto.ExecuteRequest{Request: &proto.Request{Statements: []*proto.Statement{{Sql: sql}}}}
		res, _, err := n.Store.Execute(context.Background(), er)
		ok = err == nil && len(res) == 1 && res[0].GetError() == "" && (res[0].GetE() == nil || res[0].GetE().Error == "")
	})
	return ok
}

func init() {
	core.Register(&core.Prop{ID: "C02", Bubble: true, Gen: c02Gen, Run: c02Run})
}
