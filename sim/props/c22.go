package props

// C22: after a successful load (SQLite file or SQL text) or boot, every node's
// database equals the loaded database plus later writes; this survives later
// snapshots, restarts (graceful and crash) and snapshot transfers to nodes that
// join afterwards. A load whose data is not a valid database is rejected
// without changing any node.
//
// Engine E1, HTTP service on every node. A history mixes writes, loads of
// generated databases (WAL and DELETE mode, several page sizes; through
// /db/load on any node - forwarded by followers - and through Store.Load),
// SQL-text loads (.dump style), boots (single-node stratum), user and automatic
// snapshots, node restarts, nodes that are down while the others move on, and
// late joiners. The model is a real SQLite database owned by the harness (its
// own driver instance): loads replace it, acknowledged writes are applied to
// it. After every operation (at a settled, quiescent point) every up node's
// logical dump must equal the model's dump.

import (
	"bytes"
	"context"
	"database/sql"
	"encoding/hex"
	"encoding/json"
	"fmt"
	"os"
	"path/filepath"
	"strings"
	"sync"
	"time"

	sqlite3 "github.com/mattn/go-sqlite3"
	"github.com/rqlite/rqlite/v10/command/proto"
	"github.com/rqlite/rqlite/v10/verifx"
	"verifsim/core"
	"verifsim/node"
	"verifsim/sim"
)

type c22Op struct {
	K       string `json:"k"` // w | load | loadsql | boot | oload | snap | restart | down | up | join | run
	N       int    `json:"n,omitempty"`
	Tbl     string `json:"tbl,omitempty"`
	Key     int    `json:"key,omitempty"`
	Del     bool   `json:"del,omitempty"`
	Gen     uint64 `json:"gen,omitempty"`
	Mode    string `json:"mode,omitempty"` // wal | delete
	Via     string `json:"via,omitempty"`  // http | store
	Bad     string `json:"bad,omitempty"`  // invalid data kind ("" = valid)
	Crash   bool   `json:"crash,omitempty"`
	Rebuild bool   `json:"rebuild,omitempty"` // restart must rebuild the database from the snapshot store + log (Store.ForceSnapshotRestore)
	Voter   bool   `json:"voter,omitempty"`
	Trail   int    `json:"trail,omitempty"`
	Ms      int    `json:"ms,omitempty"`
	// oload: a load/boot that overlaps a snapshot persist in flight on node N
	Point string `json:"point,omitempty"` // hook point at which the persisting goroutine is parked
	LN    int    `json:"ln,omitempty"`    // node that receives the load
	NW    int    `json:"nw,omitempty"`    // writes issued while the persist is still parked
}

type c22Scenario struct {
	Seed  uint64     `json:"seed"`
	Nodes int        `json:"nodes"` // initial cluster size (1 = single-node stratum with boots)
	Knobs node.Knobs `json:"knobs"`
	Tick  float64    `json:"tick"`
	Ops   []c22Op    `json:"ops"`
}

var c22BadFile = []string{"nomagic", "empty", "garbage", "header", "truncated"}

func c22Gen(r *core.Rand, tier string) any {
	sc := &c22Scenario{Seed: r.Uint64()}
	sc.Nodes = 3
	single := r.Bool(0.35)
	if single {
		sc.Nodes = 1
	}
	sc.Tick = []float64{0.02, 0.08}[r.Intn(2)]
	sc.Knobs = node.Knobs{ApplyTimeout: 10 * time.Second}
	if r.Bool(0.6) {
		sc.Knobs.SnapshotThreshold = uint64(r.Range(3, 12))
		sc.Knobs.SnapshotInterval = time.Duration(r.Range(1, 4)) * time.Second
	}
	sc.Knobs.NoSnapshotOnClose = r.Bool(0.5)
	nops := r.Range(12, 30)
	if tier == "thorough" {
		nops = r.Range(15, 60)
	}
	nodes := sc.Nodes
	down := 0
	// chain: the history the property is about, in its shortest form - after a
	// load, a few writes, a snapshot on one node that truncates the log behind the
	// load entry, and a restart of that same node (fast path or rebuild).
	chain := func() {
		k := r.Intn(8)
		for j, n := 0, r.Range(1, 2); j < n; j++ {
			sc.Ops = append(sc.Ops, c22Op{K: "w", N: r.Intn(8), Tbl: "a", Key: r.Range(1, 12)})
		}
		sc.Ops = append(sc.Ops, c22Op{K: "snap", N: k, Trail: 1})
		if r.Bool(0.6) {
			sc.Ops = append(sc.Ops, c22Op{K: "w", N: r.Intn(8), Tbl: "a", Key: r.Range(1, 12)})
		}
		if r.Bool(0.3) {
			sc.Ops = append(sc.Ops, c22Op{K: "snap", N: k, Trail: 1})
		}
		sc.Ops = append(sc.Ops, c22Op{K: "restart", N: k, Crash: r.Bool(0.6), Rebuild: r.Bool(0.6)})
	}
	// overlap: a load (or boot) applied while a snapshot persist is in flight on one
	// node, then writes, a snapshot of that node, and a restart of that node that
	// must rebuild from the snapshot store.
	overlap := func() {
		k := r.Intn(8)
		sc.Ops = append(sc.Ops, c22Op{K: "w", N: r.Intn(8), Tbl: "a", Key: r.Range(1, 12)}) // something to snapshot
		op := c22Op{K: "oload", N: k, LN: r.Intn(8), Gen: r.Uint64(), Mode: []string{"wal", "delete"}[r.Intn(2)],
			Via:   []string{"http", "store"}[r.Intn(2)],
			Point: []string{"store.persist.before", "store.persist.before-finalizer"}[r.Intn(2)], NW: r.Intn(3), Key: r.Intn(12)}
		if nodes == 1 && r.Bool(0.5) {
			op.Via = "boot"
		}
		sc.Ops = append(sc.Ops, op)
		for j, n := 0, r.Range(1, 2); j < n; j++ {
			sc.Ops = append(sc.Ops, c22Op{K: "w", N: r.Intn(8), Tbl: "a", Key: r.Range(1, 12)})
		}
		sc.Ops = append(sc.Ops, c22Op{K: "snap", N: k, Trail: 1})
		if r.Bool(0.5) {
			sc.Ops = append(sc.Ops, c22Op{K: "w", N: r.Intn(8), Tbl: "a", Key: r.Range(1, 12)})
		}
		sc.Ops = append(sc.Ops, c22Op{K: "restart", N: k, Crash: r.Bool(0.5), Rebuild: true})
	}
	for i := 0; i < nops; i++ {
		x := r.Intn(100)
		if down == 0 && r.Bool(0.07) {
			overlap()
			continue
		}
		switch {
		case x < 38:
			op := c22Op{K: "w", N: r.Intn(8), Tbl: []string{"a", "a", "b"}[r.Intn(3)], Key: r.Range(1, 12), Del: r.Bool(0.2)}
			sc.Ops = append(sc.Ops, op)
		case x < 56:
			op := c22Op{K: "load", N: r.Intn(8), Gen: r.Uint64(), Mode: []string{"wal", "delete"}[r.Intn(2)], Via: []string{"http", "http", "store"}[r.Intn(3)]}
			if r.Bool(0.25) {
				op.Bad = c22BadFile[r.Intn(len(c22BadFile))]
			}
			sc.Ops = append(sc.Ops, op)
			if op.Bad == "" && r.Bool(0.5) {
				chain()
			}
		case x < 64:
			op := c22Op{K: "loadsql", N: r.Intn(8), Gen: r.Uint64()}
			if r.Bool(0.3) {
				op.Bad = "sqlerr"
			}
			sc.Ops = append(sc.Ops, op)
			if op.Bad == "" && r.Bool(0.3) {
				chain()
			}
		case x < 72 || (nodes == 1 && x < 80):
			if nodes == 1 && down == 0 {
				op := c22Op{K: "boot", Gen: r.Uint64(), Mode: []string{"wal", "delete"}[r.Intn(2)]}
				if r.Bool(0.25) {
					op.Bad = c22BadFile[r.Intn(len(c22BadFile))]
				}
				sc.Ops = append(sc.Ops, op)
				if op.Bad == "" && r.Bool(0.5) {
					chain()
				}
			} else {
				sc.Ops = append(sc.Ops, c22Op{K: "snap", N: r.Intn(8), Trail: []int{0, 0, 1, 2}[r.Intn(4)]})
			}
		case x < 80:
			sc.Ops = append(sc.Ops, c22Op{K: "snap", N: r.Intn(8), Trail: []int{0, 0, 1, 2}[r.Intn(4)]})
		case x < 88:
			sc.Ops = append(sc.Ops, c22Op{K: "restart", N: r.Intn(8), Crash: r.Bool(0.5), Rebuild: r.Bool(0.4)})
		case x < 92:
			if nodes >= 3 && down == 0 {
				sc.Ops = append(sc.Ops, c22Op{K: "down", N: r.Intn(8), Crash: r.Bool(0.5), Rebuild: r.Bool(0.4)})
				down = 1
			} else if down > 0 {
				sc.Ops = append(sc.Ops, c22Op{K: "up"})
				down = 0
			}
		case x < 97:
			if nodes < 5 && down == 0 && (!single || i > nops/2) {
				sc.Ops = append(sc.Ops, c22Op{K: "join", Voter: nodes < 3 || r.Bool(0.7)})
				nodes++
			}
		default:
			sc.Ops = append(sc.Ops, c22Op{K: "run", Ms: r.Range(200, 4000)})
		}
	}
	if down > 0 {
		sc.Ops = append(sc.Ops, c22Op{K: "up"})
	}
	// every history ends with the durability probes the property names
	if nodes < 5 {
		sc.Ops = append(sc.Ops, c22Op{K: "join", Voter: r.Bool(0.5)})
	}
	sc.Ops = append(sc.Ops, c22Op{K: "restart", N: r.Intn(8), Crash: r.Bool(0.5), Rebuild: r.Bool(0.5)})
	return sc
}

// ---------------------------------------------------------------- generated databases

var c22Once sync.Once

const c22Driver = "verif-c22-model"

func c22Open(path string) (*sql.DB, error) {
	c22Once.Do(func() { sql.Register(c22Driver, &sqlite3.SQLiteDriver{}) })
	db, err := sql.Open(c22Driver, "file:"+path)
	if err != nil {
		return nil, err
	}
	db.SetMaxOpenConns(1)
	return db, nil
}

func c22Lit(r *core.Rand) string {
	switch r.Intn(6) {
	case 0:
		return "NULL"
	case 1:
		return fmt.Sprint(int64(r.Uint64()>>r.Intn(60)) - 1000)
	case 2:
		return fmt.Sprintf("%g", float64(r.Intn(100000))/64)
	case 3:
		return "X'" + hex.EncodeToString(r.Bytes(r.Intn(40))) + "'"
	default:
		words := []string{"alpha", "it''s", "βήτα", "line\nbreak", "", "semi;colon", "long-" + strings.Repeat("z", r.Intn(300))}
		return "'" + words[r.Intn(len(words))] + fmt.Sprint(r.Intn(1000)) + "'"
	}
}

// c22Statements returns the SQL that builds a generated database.
func c22Statements(seed uint64) []string {
	r := core.NewRand(seed)
	var st []string
	// every generated database identifies itself (and is never a zero-byte file)
	st = append(st, "CREATE TABLE meta (id INTEGER PRIMARY KEY, gen TEXT)", fmt.Sprintf("INSERT INTO meta VALUES(1,'g%x')", seed))
	if r.Bool(0.85) {
		st = append(st, "CREATE TABLE a (k INTEGER PRIMARY KEY, v TEXT)")
		for i, n := 0, r.Intn(60); i < n; i++ {
			st = append(st, fmt.Sprintf("INSERT INTO a(k,v) VALUES(%d,%s)", 100+i, c22Lit(r)))
		}
		if r.Bool(0.5) {
			st = append(st, "CREATE INDEX ai ON a(v)")
		}
	}
	if r.Bool(0.6) {
		st = append(st, "CREATE TABLE b (k INTEGER PRIMARY KEY, v)")
		for i, n := 0, r.Intn(40); i < n; i++ {
			st = append(st, fmt.Sprintf("INSERT INTO b(k,v) VALUES(%d,%s)", 100+i, c22Lit(r)))
		}
	}
	if r.Bool(0.4) {
		// wide rows: overflow pages, a multi-page file
		st = append(st, fmt.Sprintf("CREATE TABLE c%d (id INTEGER PRIMARY KEY AUTOINCREMENT, body TEXT, n REAL)", r.Intn(3)))
		name := st[len(st)-1][13:15]
		for i, n := 0, r.Range(1, 25); i < n; i++ {
			st = append(st, fmt.Sprintf("INSERT INTO %s(body,n) VALUES('%s',%d.5)", name, strings.Repeat(string(rune('a'+r.Intn(26))), r.Range(10, 6000)), r.Intn(1000)))
		}
	}
	if len(st) > 2 && strings.Contains(st[2], "TABLE a") && r.Bool(0.3) {
		st = append(st, "CREATE VIEW av AS SELECT k, length(v) AS l FROM a")
	}
	return st
}

// c22MakeDB builds a generated database file and returns its bytes.
func c22MakeDB(dir string, seed uint64, mode string) ([]byte, error) {
	os.MkdirAll(dir, 0o755)
	p := filepath.Join(dir, "gen.sqlite")
	for _, s := range []string{"", "-wal", "-shm", "-journal"} {
		os.Remove(p + s)
	}
	db, err := c22Open(p)
	if err != nil {
		return nil, err
	}
	r := core.NewRand(seed ^ 0x5bd1e995)
	ps := []int{512, 1024, 4096, 4096, 8192}[r.Intn(5)]
	jm := "DELETE"
	if mode == "wal" {
		jm = "WAL"
	}
	pre := []string{fmt.Sprintf("PRAGMA page_size=%d", ps), "PRAGMA journal_mode=" + jm}
	for _, s := range append(pre, c22Statements(seed)...) {
		if _, err := db.Exec(s); err != nil {
			db.Close()
			return nil, fmt.Errorf("%s: %w", s, err)
		}
	}
	if mode == "wal" {
		if _, err := db.Exec("PRAGMA wal_checkpoint(TRUNCATE)"); err != nil {
			db.Close()
			return nil, err
		}
	}
	if err := db.Close(); err != nil {
		return nil, err
	}
	return os.ReadFile(p)
}

func c22Corrupt(kind string, good []byte, seed uint64) []byte {
	r := core.NewRand(seed ^ 0xbad)
	switch kind {
	case "nomagic":
		return r.Bytes(r.Range(20, 3000))
	case "empty":
		return []byte{}
	case "garbage": // SQLite magic followed by noise
		return append([]byte("SQLite format 3\x00"), r.Bytes(r.Range(100, 5000))...)
	case "header": // only the 100-byte header of a real database
		if len(good) >= 100 {
			return append([]byte(nil), good[:100]...)
		}
	case "truncated": // a real database cut in the middle of its pages
		if len(good) > 1200 {
			return append([]byte(nil), good[:len(good)/2+r.Intn(100)]...)
		}
		return append([]byte(nil), good[:len(good)/2]...)
	}
	return append([]byte("SQLite format 3\x00"), r.Bytes(64)...)
}

// c22DumpSQL renders a database as .dump-style SQL text.
func c22DumpSQL(db *sql.DB, drops []string, poison bool) (string, error) {
	var sb strings.Builder
	sb.WriteString("PRAGMA foreign_keys=OFF;\nBEGIN TRANSACTION;\n")
	for _, d := range drops {
		sb.WriteString(d + ";\n")
	}
	rows, err := db.Query(`SELECT type, name, sql FROM sqlite_master WHERE name NOT LIKE 'sqlite_%' AND sql IS NOT NULL ORDER BY CASE type WHEN 'table' THEN 0 WHEN 'index' THEN 1 ELSE 2 END, name`)
	if err != nil {
		return "", err
	}
	type ent struct{ typ, name, sql string }
	var ents []ent
	for rows.Next() {
		var e ent
		if err := rows.Scan(&e.typ, &e.name, &e.sql); err != nil {
			rows.Close()
			return "", err
		}
		ents = append(ents, e)
	}
	rows.Close()
	nt := 0
	for _, e := range ents {
		if e.typ != "table" {
			continue
		}
		nt++
		sb.WriteString(e.sql + ";\n")
		rs, err := db.Query(`SELECT * FROM "` + e.name + `"`)
		if err != nil {
			return "", err
		}
		cols, _ := rs.Columns()
		k := 0
		for rs.Next() {
			vals := make([]any, len(cols))
			ptrs := make([]any, len(cols))
			for i := range vals {
				ptrs[i] = &vals[i]
			}
			if err := rs.Scan(ptrs...); err != nil {
				rs.Close()
				return "", err
			}
			lits := make([]string, len(vals))
			for i, v := range vals {
				switch x := v.(type) {
				case nil:
					lits[i] = "NULL"
				case int64:
					lits[i] = fmt.Sprint(x)
				case float64:
					lits[i] = fmt.Sprintf("%v", x)
					if !strings.ContainsAny(lits[i], ".eE") {
						lits[i] += ".0"
					}
				case []byte:
					lits[i] = "X'" + hex.EncodeToString(x) + "'"
				case string:
					lits[i] = "'" + strings.ReplaceAll(x, "'", "''") + "'"
				default:
					lits[i] = "NULL"
				}
			}
			fmt.Fprintf(&sb, "INSERT INTO \"%s\" VALUES(%s);\n", e.name, strings.Join(lits, ","))
			k++
			if poison && nt == 1 && k == 2 {
				// an error in the middle of the text: duplicate primary key
				fmt.Fprintf(&sb, "INSERT INTO \"%s\" VALUES(%s);\n", e.name, strings.Join(lits, ","))
			}
		}
		rs.Close()
	}
	if poison {
		sb.WriteString("INSERT INTO no_such_table_in_this_dump VALUES(1);\n")
	}
	for _, e := range ents {
		if e.typ != "table" {
			sb.WriteString(e.sql + ";\n")
		}
	}
	sb.WriteString("COMMIT;\n")
	return sb.String(), nil
}

// ---------------------------------------------------------------- run

type c22Model struct {
	dir string
	db  *sql.DB
}

func (m *c22Model) path() string { return filepath.Join(m.dir, "model.sqlite") }

func (m *c22Model) open() error {
	os.MkdirAll(m.dir, 0o755)
	db, err := c22Open(m.path())
	if err != nil {
		return err
	}
	m.db = db
	return nil
}

func (m *c22Model) replace(data []byte) error {
	if m.db != nil {
		m.db.Close()
	}
	for _, s := range []string{"", "-wal", "-shm", "-journal"} {
		os.Remove(m.path() + s)
	}
	if err := os.WriteFile(m.path(), data, 0o644); err != nil {
		return err
	}
	return m.open()
}

func (m *c22Model) dump() (string, error) { return sim.DumpDB(m.db) }

func c22Run(c *core.Ctx, raw json.RawMessage) {
	var sc c22Scenario
	if err := json.Unmarshal(raw, &sc); err != nil {
		panic(err)
	}
	if sc.Nodes != 1 {
		sc.Nodes = 3
	}
	c.Rng = core.NewRand(sc.Seed)
	s := sim.New(c)
	s.TickProb = sc.Tick
	defer s.Shutdown()

	for i := 1; i <= sc.Nodes; i++ {
		n := s.AddNode(sc.Knobs)
		n.WithHTTP = true
	}
	if err := s.Boot(sc.Nodes, sc.Knobs, nil); err != nil {
		c.Discard("boot-failed: " + err.Error())
		return
	}
	d := &hxDriver{s: s}
	view := &hxView{s: s}
	d.After = []func(){view.observe}
	// park: the hook handler blocks the goroutine that reaches the armed point (the
	// snapshot persist runs on raft's snapshot goroutine, concurrently with the
	// FSM) on a channel until the driver releases it.
	var park struct {
		mu      sync.Mutex
		armed   string
		parked  bool
		release chan struct{}
	}
	verifx.InstallHooks(func(point string) error {
		park.mu.Lock()
		if park.armed == "" || point != park.armed || park.parked {
			park.mu.Unlock()
			return nil
		}
		park.parked, park.armed = true, ""
		ch := park.release
		park.mu.Unlock()
		<-ch
		return nil
	}, nil, nil, nil, nil)
	unpark := func() {
		park.mu.Lock()
		park.armed = ""
		if park.release != nil {
			close(park.release)
			park.release = nil
		}
		park.parked = false
		park.mu.Unlock()
	}
	isParked := func() bool {
		park.mu.Lock()
		defer park.mu.Unlock()
		return park.parked
	}
	defer verifx.ResetHooks()
	defer unpark()
	model := &c22Model{dir: filepath.Join(c.Dir, "model")}
	if err := model.open(); err != nil {
		panic(err)
	}
	defer func() {
		if model.db != nil {
			model.db.Close()
		}
	}()
	gendir := filepath.Join(c.Dir, "gen")
	counters := []string{"num_restores", "num_restores_start", "num_restores_start_skipped", "num_snapshots_full", "num_snapshots_incremental", "num_boots", "num_loads"}
	base := map[string]int64{}
	for _, k := range counters {
		base[k] = hxExpvar("store", k)
	}
	defer func() {
		for _, k := range counters {
			c.ProbeN("store_"+k, int(hxExpvar("store", k)-base[k]))
		}
	}()

	upNodes := func() []*node.Node {
		var l []*node.Node
		for _, n := range s.Nodes[1:] {
			if n.Up {
				l = append(l, n)
			}
		}
		return l
	}
	pick := func(k int) *node.Node {
		l := upNodes()
		if len(l) == 0 {
			return nil
		}
		return l[k%len(l)]
	}
	nWritesOK := 0
	wcount := 0
	loaded := false // a load/boot has succeeded
	lastKind := "setup"
	downIdx := 0

	// check compares every up node with the model at a settled point.
	check := func(after string, strict bool) bool {
		ldr := hxSettle(d, view, 90*time.Second)
		if ldr == nil {
			c.Discard("no-leader-after-" + after)
			return false
		}
		// give automatic snapshots (interval ticker) a chance to run between operations
		d.runFor(200 * time.Millisecond)
		hxSettle(d, view, 60*time.Second)
		want, err := model.dump()
		if err != nil {
			panic(fmt.Sprintf("model dump: %v", err))
		}
		for _, n := range upNodes() {
			got, err := s.DumpNode(n)
			if err != nil {
				c.Violate("diverged-after-"+after, "node %d: database unreadable after %s: %s", n.Idx, after, strings.ReplaceAll(err.Error(), c.Dir, "<dir>"))
				return false
			}
			if got != want {
				c.Violate("diverged-after-"+after, "node %d differs from the model after %s (loaded=%v, acked writes=%d): %s", n.Idx, after, loaded, nWritesOK, sim.FirstDiff(want, got))
				return false
			}
		}
		c.Probe("state_checks")
		return true
	}
	if !check("setup", true) {
		return
	}

	// resolveWrite decides whether a write with an unknown outcome was applied, by
	// looking for its unique marker through a strong read.
	resolveWrite := func(tbl string, key int, marker string, del bool) (applied, known bool) {
		ldr := hxSettle(d, view, 60*time.Second)
		if ldr == nil {
			return false, false
		}
		d.do("resolve", 30*time.Second, func() {
			qr := &proto.QueryRequest{Level: proto.ConsistencyLevel_STRONG, Request: &proto.Request{Statements: []*proto.Statement{{
				Sql: fmt.Sprintf("SELECT v FROM %s WHERE k=%d", tbl, key)}}}}
			rows, _, _, err := ldr.Store.Query(context.Background(), qr)
			if err != nil || len(rows) != 1 || rows[0].Error != "" {
				return
			}
			known = true
			if del {
				applied = len(rows[0].Values) == 0
			} else {
				applied = len(rows[0].Values) == 1 && rows[0].Values[0].Parameters[0].GetS() == marker
			}
		})
		return
	}

	respFailed := func(r *hxResp) (bool, string) {
		if r == nil {
			return true, "no response"
		}
		if r.Code != 200 {
			return true, fmt.Sprintf("http %d %s", r.Code, strings.TrimSpace(r.Body))
		}
		if r.J != nil {
			if r.J.Error != "" {
				return true, r.J.Error
			}
			for _, m := range r.J.Results {
				if e := hxResultErr(m); e != "" {
					return true, e
				}
			}
		}
		return false, ""
	}

	// exec performs one operation (skip: nothing to check afterwards; stop: the run is over).
	var exec func(op c22Op) (skip, stop bool)
	exec = func(op c22Op) (skip, stop bool) {
		switch op.K {
		case "w":
			n := pick(op.N)
			if n == nil {
				return true, false
			}
			wcount++
			marker := fmt.Sprintf("w%d", wcount)
			stmt := fmt.Sprintf("INSERT OR REPLACE INTO %s(k,v) VALUES(%d,'%s')", op.Tbl, op.Key, marker)
			if op.Del {
				stmt = fmt.Sprintf("DELETE FROM %s WHERE k=%d", op.Tbl, op.Key)
			}
			var resp *hxResp
			d.do("write "+stmt, 60*time.Second, func() {
				resp = hxDo(n, "POST", "/db/execute?timeout=10s", "application/json", hxStmtsJSON([]any{stmt}), "", "")
			})
			_, merr := model.db.Exec(stmt)
			stmtErr := ""
			applied := false
			switch {
			case resp != nil && resp.Code == 200 && resp.J != nil && resp.J.Error == "" && len(resp.J.Results) == 1:
				stmtErr = hxResultErr(resp.J.Results[0])
				applied = stmtErr == ""
			default:
				// outcome unknown to the client: find out (only possible when the table exists)
				if merr != nil {
					applied = false
				} else {
					a, known := resolveWrite(op.Tbl, op.Key, marker, op.Del)
					if !known {
						c.Discard("write-outcome-unknown")
						return false, true
					}
					applied = a
					c.Probe("write_outcome_resolved_by_read")
				}
				if !applied && merr == nil {
					// undo in the model: rebuild is simpler than inverse statements
					c.Discard("write-not-applied-after-error")
					return false, true
				}
			}
			if (stmtErr != "") != (merr != nil) && resp != nil && resp.Code == 200 && resp.J != nil && resp.J.Error == "" {
				c.Violate("write-result-mismatch", "write %q via node %d: cluster says %q, the model database says %v", stmt, n.Idx, stmtErr, merr)
				return false, true
			}
			if applied {
				nWritesOK++
				if loaded {
					c.Probe("writes_after_load")
				}
			}
			lastKind = "write"
		case "load", "boot":
			n := pick(op.N)
			if n == nil {
				return true, false
			}
			if op.K == "boot" {
				if len(s.Nodes) != 2 || !s.Nodes[1].Up {
					return true, false // boot is a single-node operation
				}
				n = s.Nodes[1]
			}
			good, err := c22MakeDB(gendir, op.Gen, op.Mode)
			if err != nil {
				panic(fmt.Sprintf("generate db: %v", err))
			}
			data := good
			if op.Bad != "" && op.Bad != "sqlerr" {
				data = c22Corrupt(op.Bad, good, op.Gen)
			} else {
				op.Bad = ""
			}
			var failed bool
			var why string
			via := op.Via
			if op.K == "boot" {
				via = "boot"
			}
			switch via {
			case "store":
				ldr := hxSettle(d, view, 60*time.Second)
				if ldr == nil {
					c.Discard("no-leader")
					return false, true
				}
				var lerr error
				d.do("store-load", 120*time.Second, func() {
					lerr = ldr.Store.Load(context.Background(), &proto.LoadRequest{Data: data})
				})
				failed, why = lerr != nil, fmt.Sprint(lerr)
			case "boot":
				var resp *hxResp
				d.do("http-boot", 120*time.Second, func() {
					resp = hxDo(n, "POST", "/boot", "application/octet-stream", data, "", "")
				})
				failed, why = respFailed(resp)
			default:
				var resp *hxResp
				d.do(fmt.Sprintf("http-load n%d", n.Idx), 120*time.Second, func() {
					resp = hxDo(n, "POST", "/db/load?timeout=20s", "application/octet-stream", data, "", "")
				})
				failed, why = respFailed(resp)
				if !failed && n != s.Leader() {
					c.Probe("load_forwarded_by_follower")
				}
			}
			kind := op.K + "-" + op.Mode
			if op.Bad != "" {
				kind = op.K + "-invalid-" + op.Bad
				c.Probe("invalid_" + op.K + "_" + op.Bad)
				if !failed && op.Bad == "empty" && via == "http" {
					// /db/load treats a body that is not a SQLite file as SQL text; empty
					// text is a valid no-op script. Only "no node changes" is demanded.
					c.Probe("empty_body_treated_as_empty_sql")
				} else if !failed {
					c.Violate("invalid-accepted-"+op.Bad, "%s of data that is not a valid database (%s, %d bytes, via %s node %d) was reported as successful", op.K, op.Bad, len(data), via, n.Idx)
					return false, true
				}
				c.Log.Add("invalid %s rejected: %.200s", op.K, strings.ReplaceAll(why, c.Dir, "<dir>"))
			} else {
				if failed {
					// a valid load may only fail for lack of a leader etc.; with a settled cluster that is a defect of the path
					c.Violate("valid-load-failed", "%s of a valid %s-mode database (%d bytes, via %s node %d) failed: %s", op.K, op.Mode, len(data), via, n.Idx, why)
					return false, true
				}
				if err := model.replace(good); err != nil {
					panic(err)
				}
				loaded = true
				c.Probe(op.K + "_" + op.Mode + "_via_" + via)
			}
			lastKind = kind
		case "oload":
			n := pick(op.N)
			if n == nil || op.Point == "" {
				return true, false
			}
			park.mu.Lock()
			park.armed, park.parked, park.release = op.Point, false, make(chan struct{})
			park.mu.Unlock()
			nn := n
			st := s.Go(fmt.Sprintf("snapshot n%d (to be overlapped)", n.Idx), func() {
				hxDo(nn, "POST", "/snapshot?trailing_logs=1", "", nil, "", "")
			})
			d.runUntil(func() bool { return isParked() || st.Finished }, 60*time.Second)
			overlapped := isParked()
			if overlapped {
				c.Probe("persist_parked_" + strings.TrimPrefix(op.Point, "store.persist."))
			} else {
				c.Probe("overlap_not_reached")
			}
			c.Log.Add("%d persist on n%d parked=%v at %s", s.StepN, n.Idx, overlapped, op.Point)
			// the load (or boot) and optional writes happen while the persist is parked
			if len(s.Nodes) == 2 && op.Via == "boot" {
				// boot ends with a snapshot of its own, which queues behind the parked one:
				// run it as a task and release the parked persist while it waits
				good, err := c22MakeDB(gendir, op.Gen, op.Mode)
				if err != nil {
					panic(fmt.Sprintf("generate db: %v", err))
				}
				var bresp *hxResp
				bootTask := s.Go("http-boot (overlapping)", func() {
					bresp = hxDo(nn, "POST", "/boot", "application/octet-stream", good, "", "")
				})
				for i := 0; i < 40 && !bootTask.Finished; i++ {
					d.step()
				}
				unpark()
				d.await(bootTask, 120*time.Second)
				d.await(st, 120*time.Second)
				if failed, why := respFailed(bresp); failed {
					c.Violate("valid-load-failed", "boot of a valid %s-mode database overlapping a snapshot persist failed: %s", op.Mode, why)
					return false, true
				}
				if err := model.replace(good); err != nil {
					panic(err)
				}
				loaded = true
				if overlapped {
					c.Probe("boot_overlapping_persist")
				}
				lastKind = "overlapped-boot"
				return false, false
			}
			inner := op
			inner.K, inner.N, inner.Bad = "load", op.LN, ""
			if inner.Via == "boot" {
				inner.Via = "http"
			}
			if _, stop := exec(inner); stop {
				return false, true
			}
			for i := 0; i < op.NW; i++ {
				if _, stop := exec(c22Op{K: "w", N: op.LN + i, Tbl: "a", Key: 1 + (op.Key+i)%12}); stop {
					return false, true
				}
			}
			unpark()
			d.await(st, 120*time.Second)
			if overlapped {
				c.Probe("load_overlapping_persist")
			}
			lastKind = "overlapped-load"
		case "loadsql":
			n := pick(op.N)
			if n == nil {
				return true, false
			}
			// source database -> SQL text; existing objects of the same name are dropped first
			p := filepath.Join(gendir, "sqlsrc.sqlite")
			os.MkdirAll(gendir, 0o755)
			for _, sfx := range []string{"", "-wal", "-shm", "-journal"} {
				os.Remove(p + sfx)
			}
			src, err := c22Open(p)
			if err != nil {
				panic(err)
			}
			for _, st := range c22Statements(op.Gen) {
				if _, err := src.Exec(st); err != nil {
					panic(fmt.Sprintf("%s: %v", st, err))
				}
			}
			var drops []string
			rs, err := model.db.Query(`SELECT type, name FROM sqlite_master WHERE name NOT LIKE 'sqlite_%' AND type IN ('table','view') ORDER BY type DESC, name`)
			if err != nil {
				panic(err)
			}
			for rs.Next() {
				var typ, name string
				rs.Scan(&typ, &name)
				drops = append(drops, fmt.Sprintf("DROP %s IF EXISTS \"%s\"", strings.ToUpper(typ), name))
			}
			rs.Close()
			text, err := c22DumpSQL(src, drops, op.Bad == "sqlerr")
			src.Close()
			if err != nil {
				panic(err)
			}
			var resp *hxResp
			d.do(fmt.Sprintf("http-loadsql n%d", n.Idx), 120*time.Second, func() {
				resp = hxDo(n, "POST", "/db/load?timeout=20s", "text/plain", []byte(text), "", "")
			})
			failed, why := respFailed(resp)
			// the model executes the same text, all or nothing
			mfailed := false
			if _, err := model.db.Exec(text); err != nil {
				mfailed = true
				model.db.Exec("ROLLBACK")
			}
			if op.Bad == "sqlerr" {
				c.Probe("invalid_loadsql")
				if !mfailed {
					panic("poisoned SQL text executed on the model")
				}
				if !failed {
					c.Violate("invalid-accepted-sqlerr", "SQL-text load containing a failing statement was reported as successful (via node %d)", n.Idx)
					return false, true
				}
				lastKind = "loadsql-invalid"
			} else {
				if mfailed {
					panic("generated SQL text failed on the model")
				}
				if failed {
					c.Violate("valid-load-failed", "SQL-text load (%d bytes, via node %d) failed: %s", len(text), n.Idx, why)
					return false, true
				}
				loaded = true
				c.Probe("loadsql_ok")
				lastKind = "loadsql"
			}
		case "snap":
			n := pick(op.N)
			if n == nil {
				return true, false
			}
			var resp *hxResp
			q := "/snapshot"
			if op.Trail > 0 {
				q += fmt.Sprintf("?trailing_logs=%d", op.Trail)
			}
			d.do(fmt.Sprintf("snapshot n%d", n.Idx), 120*time.Second, func() {
				resp = hxDo(n, "POST", q, "", nil, "", "")
			})
			if resp != nil && resp.Code == 200 {
				c.Probe("user_snapshot_taken")
				if loaded {
					c.Probe("snapshot_after_load")
				}
			} else if resp != nil {
				c.Probe(fmt.Sprintf("user_snapshot_%d", resp.Code))
				c.Log.Add("snapshot n%d -> %d %.200s", n.Idx, resp.Code, strings.TrimSpace(resp.Body))
			}
			lastKind = "snapshot"
		case "restart", "down":
			n := pick(op.N)
			if n == nil || (len(upNodes()) <= (len(s.Nodes)-1)/2+0 && len(s.Nodes) > 2) {
				return true, false
			}
			if op.K == "down" && (downIdx != 0 || len(s.Nodes)-1 < 3) {
				return true, false
			}
			if op.Crash {
				if err := s.Crash(n.Idx); err != nil {
					c.Discard("crash-failed")
					return false, true
				}
				c.Probe("node_crashed")
			} else {
				nn := n
				if !d.do(fmt.Sprintf("graceful-stop n%d", n.Idx), 180*time.Second, func() { nn.Stop() }) {
					c.Discard("graceful-stop-did-not-finish")
					return false, true
				}
				c.Probe("node_stopped_gracefully")
			}
			if op.Rebuild {
				// same effect as Store.ForceSnapshotRestore() on the closed store: without the
				// clean-snapshot marker the node rebuilds its database from the snapshot
				// store and the log instead of trusting the file it finds
				os.Remove(filepath.Join(n.Dir, "clean_snapshot"))
				c.Probe("restart_forced_to_rebuild")
			}
			if op.K == "down" {
				downIdx = n.Idx
				lastKind = "node-down"
				break
			}
			if err := s.Restart(n.Idx); err != nil {
				c.Violate("restart-failed", "node %d did not restart (crash=%v, loaded=%v): %s", n.Idx, op.Crash, loaded, strings.ReplaceAll(err.Error(), c.Dir, "<dir>"))
				return false, true
			}
			if loaded {
				c.Probe("restart_after_load")
			}
			lastKind = "restart"
			if op.Crash {
				lastKind = "crash-restart"
			}
		case "up":
			if downIdx == 0 {
				return true, false
			}
			if err := s.Restart(downIdx); err != nil {
				c.Violate("restart-failed", "node %d did not restart after being down (loaded=%v): %s", downIdx, loaded, strings.ReplaceAll(err.Error(), c.Dir, "<dir>"))
				return false, true
			}
			c.Probe("node_back_after_missing_operations")
			downIdx = 0
			lastKind = "catch-up"
		case "join":
			if len(s.Nodes)-1 >= 5 || downIdx != 0 {
				return true, false
			}
			n := s.AddNode(sc.Knobs)
			n.WithHTTP = true
			if err := s.StartAndJoin(n.Idx, op.Voter); err != nil {
				c.Discard("join-failed")
				return false, true
			}
			c.Probe("late_join")
			if loaded {
				c.Probe("late_join_after_load")
			}
			lastKind = "join"
		case "run":
			d.runFor(time.Duration(op.Ms) * time.Millisecond)
			return true, false
		default:
			return true, false
		}
		return false, false
	}

	for opi, op := range sc.Ops {
		if s.Capped || c.Failed() {
			break
		}
		c.Log.Add("%d op %d %s", s.StepN, opi, c22MustJSON(op))
		skip, stop := exec(op)
		if stop {
			return
		}
		if skip {
			continue
		}
		if c.Failed() {
			return
		}
		if !check(lastKind, true) {
			return
		}
	}
	c.Res.Trivial = !loaded
	c.Sig(fmt.Sprintf("%v/%d/%d/%s", loaded, nWritesOK, len(s.Nodes)-1, lastKind))
}

func c22MustJSON(v any) string {
	b, _ := json.Marshal(v)
	return string(bytes.TrimSpace(b))
}

func init() {
	core.Register(&core.Prop{ID: "C22", Bubble: true, Gen: c22Gen, Run: c22Run})
}
