package props

import (
	"context"
	"database/sql"
	"encoding/json"
	"errors"
	"fmt"
	"io"
	"os"
	"path/filepath"
	"strconv"
	"time"

	"github.com/rqlite/rqlite/v10/auto/backup"
	"github.com/rqlite/rqlite/v10/store"
	"verifsim/core"
	"verifsim/node"
	"verifsim/sim"
)

// C37: automatic backups upload every change. Whenever the database has
// changed since the last successful automatic upload, the next upload round
// uploads a backup that contains every change up to the index it is labelled
// with; rounds with no change upload nothing; a failed upload is retried on a
// later round rather than being recorded as done.
//
// Single real node (engine E1) with the real auto/backup.Uploader and
// store.Provider wired as cmd/rqlited/main.go startAutoBackups does
// (NewProvider(store, vacuum, compress), NewUploader(client, provider,
// interval), Start(ctx, store.IsLeader)). The storage service is a fake
// backup.StorageClient whose Upload/CurrentID fail as the scenario says. The
// provider is wrapped by a recorder that forwards to the real one and can park
// the uploader goroutine between its steps (that is goroutine scheduling, not
// behaviour). Rounds happen when the fake clock passes the uploader's ticker.

type c37Op struct {
	Kind string `json:"k"` // w | noop | round | restart | snap | run | gate
	Ms   int    `json:"ms,omitempty"`
	Del  int    `json:"del,omitempty"`
	// round
	Fault   string `json:"fault,omitempty"` // "" | before | mid | after_store
	IDFault bool   `json:"idfault,omitempty"`
	SlowMs  int    `json:"slow_ms,omitempty"`
	WBefore bool   `json:"w_before,omitempty"` // a write between LastIndex and Provide
	WAfter  bool   `json:"w_after,omitempty"`  // a write between Provide and the storage calls
	WUpload bool   `json:"w_upload,omitempty"` // a write while the storage Upload is in progress
	// noop
	Failing bool `json:"failing,omitempty"` // noop: a statement that fails (else one that matches no row)
	// gate: a user backup (binary, not vacuumed) to a slow client holds the
	// snapshot gate while an upload round starts
	Pre   int `json:"pre,omitempty"`    // writes just before the user backup starts
	Mid   int `json:"mid,omitempty"`    // writes while it holds the gate, before the round
	RelMs int `json:"rel_ms,omitempty"` // the slow client finishes this long after the round started
}

type c37Scenario struct {
	Seed      uint64     `json:"seed"`
	Vacuum    bool       `json:"vacuum"`
	Compress  bool       `json:"compress"`
	IntervalS int        `json:"interval_s"`
	Preload   int        `json:"preload"`
	PadMax    int        `json:"pad_max"`
	Knobs     node.Knobs `json:"knobs"`
	Ops       []c37Op    `json:"ops"`
}

func c37Gen(r *core.Rand, tier string) any {
	sc := &c37Scenario{Seed: r.Uint64(), Vacuum: r.Bool(0.4), Compress: r.Bool(0.6), IntervalS: []int{5, 10, 30}[r.Intn(3)]}
	sc.Preload = r.Range(1, 20)
	sc.PadMax = []int{20, 100, 400}[r.Intn(3)]
	sc.Knobs = node.Knobs{}
	if r.Bool(0.5) {
		sc.Knobs.SnapshotThreshold = uint64(r.Range(3, 12))
		sc.Knobs.SnapshotInterval = time.Duration(r.Range(1, 8)) * time.Second
	}
	noops := r.Bool(0.25)
	restarts := r.Bool(0.4)
	nops := r.Range(15, 60)
	if tier == "thorough" && r.Bool(0.3) {
		nops = r.Range(60, 120)
	}
	rounds, faults := 0, 0
	for i := 0; i < nops; i++ {
		x := r.Intn(100)
		switch {
		case x < 38:
			op := c37Op{Kind: "w"}
			if r.Bool(0.15) {
				op.Del = 1 + r.Intn(1000)
			}
			sc.Ops = append(sc.Ops, op)
		case x < 43:
			if noops {
				sc.Ops = append(sc.Ops, c37Op{Kind: "noop", Failing: r.Bool(0.5)})
			}
		case x < 80:
			if rounds >= 30 {
				continue
			}
			rounds++
			op := c37Op{Kind: "round"}
			if faults < 10 && r.Bool(0.35) {
				faults++
				op.Fault = []string{"before", "mid", "after_store"}[r.Intn(3)]
			}
			if r.Bool(0.15) {
				op.IDFault = true
			}
			if r.Bool(0.2) {
				op.SlowMs = []int{300, 2000, sc.IntervalS*1000 + 2000}[r.Intn(3)]
			}
			op.WBefore = r.Bool(0.15)
			op.WAfter = r.Bool(0.15)
			op.WUpload = r.Bool(0.15)
			sc.Ops = append(sc.Ops, op)
		case x < 85:
			if restarts {
				sc.Ops = append(sc.Ops, c37Op{Kind: "restart"})
			}
		case x < 90:
			sc.Ops = append(sc.Ops, c37Op{Kind: "snap"})
		case x < 95:
			if rounds >= 30 {
				continue
			}
			rounds++
			op := c37Op{Kind: "gate", Pre: r.Intn(3), Mid: r.Range(1, 3), RelMs: r.Range(100, 8000)}
			if r.Bool(0.25) {
				op.RelMs = r.Range(10500, 14000) // beyond the gate timeout of Store.Backup
			}
			sc.Ops = append(sc.Ops, op)
		default:
			sc.Ops = append(sc.Ops, c37Op{Kind: "run", Ms: r.Range(100, sc.IntervalS*700)})
		}
	}
	return sc
}

// ---------------------------------------------------------------- fake storage

type c37Object struct {
	ID       string
	Label    uint64
	Data     []byte
	Step     int
	Round    int
	AckedErr bool // stored, but the client was told the upload failed
}

type c37Plan struct {
	fault   string
	idFault bool
	slow    time.Duration
	wBefore bool
	wAfter  bool
	wUpload bool
}

// c37Round records one invocation of Uploader.upload.
type c37Round struct {
	N          int
	Inst       int // uploader instance (process incarnation)
	Start      int // driver step at which LastIndex was called
	LI         uint64
	Plan       c37Plan
	Provided   bool
	ProvideErr error
	IDCalled   bool
	IDErr      bool
	IDValue    string
	Uploaded   bool // Upload was called
	UploadID   string
	UploadErr  error
	Stored     bool
	Cancelled  bool
	WritesSeen int // number of write ops invoked before the round started
	NoopsSeen  int
	Ended      bool
}

type c37Storage struct {
	h       *c37H
	cur     *c37Object
	history []*c37Object
}

func (s *c37Storage) String() string { return "simulated storage" }

func (s *c37Storage) CurrentID(ctx context.Context) (string, error) {
	h := s.h
	if err := ctx.Err(); err != nil {
		return "", err // a process that is gone
	}
	rd := h.round
	if rd != nil {
		rd.IDCalled = true
	}
	if rd != nil && rd.Plan.idFault {
		rd.IDErr = true
		h.c.Fault("storage_id_error")
		return "", errors.New("simulated storage: metadata unavailable")
	}
	if s.cur == nil {
		if rd != nil {
			rd.IDErr = true
		}
		return "", errors.New("simulated storage: no such object")
	}
	if rd != nil {
		rd.IDValue = s.cur.ID
	}
	return s.cur.ID, nil
}

func (s *c37Storage) Upload(ctx context.Context, reader io.Reader, id string) error {
	h := s.h
	if err := ctx.Err(); err != nil {
		return err // a process that is gone cannot upload
	}
	rd := h.round
	if rd == nil {
		rd = &c37Round{}
	}
	rd.Uploaded = true
	rd.UploadID = id
	fail := func(err error) error { rd.UploadErr = err; return err }
	if rd.Plan.fault == "before" {
		h.c.Fault("storage_fail_before")
		return fail(errors.New("simulated storage: connection refused"))
	}
	var data []byte
	var err error
	if rd.Plan.fault == "mid" {
		buf := make([]byte, 512)
		n, _ := io.ReadFull(reader, buf)
		_ = n
		h.c.Fault("storage_fail_mid")
		return fail(errors.New("simulated storage: connection reset during upload"))
	}
	data, err = io.ReadAll(reader)
	if err != nil {
		return fail(err)
	}
	if rd.Plan.slow > 0 {
		time.Sleep(rd.Plan.slow)
	}
	if rd.Plan.wUpload {
		rd.Plan.wUpload = false
		h.park("upload")
	}
	if err := ctx.Err(); err != nil {
		// the process is gone: nothing it was doing can complete
		rd.Cancelled = true
		return fail(err)
	}
	label, perr := strconv.ParseUint(id, 10, 64)
	if perr != nil {
		h.c.Violate("bad-label", "upload labelled %q, not a log index", id)
	}
	obj := &c37Object{ID: id, Label: label, Data: data, Step: h.s.StepN, Round: rd.N}
	s.cur = obj
	s.history = append(s.history, obj)
	rd.Stored = true
	if rd.Plan.fault == "after_store" {
		obj.AckedErr = true
		h.c.Fault("storage_fail_after_store")
		return fail(errors.New("simulated storage: response lost"))
	}
	return nil
}

// c37Provider forwards to the real store.Provider and records the calls.
type c37Provider struct {
	real *store.Provider
	h    *c37H
	inst int
}

func (p *c37Provider) LastIndex() (uint64, error) {
	h := p.h
	li, err := p.real.LastIndex()
	if p.inst != h.inst {
		return li, err // left-over goroutine of a process that is gone
	}
	if h.round != nil && h.round.Inst == p.inst {
		h.round.Ended = true // upload() returned and was called again
	}
	h.nRounds++
	rd := &c37Round{N: h.nRounds, Inst: p.inst, Start: h.s.StepN, LI: li, Plan: h.plan, WritesSeen: len(h.txns), NoopsSeen: h.nNoops}
	h.plan.wBefore, h.plan.wAfter, h.plan.wUpload = false, false, false
	h.round = rd
	h.rounds = append(h.rounds, rd)
	return li, err
}

func (p *c37Provider) Provide(w io.WriteSeeker) error {
	h := p.h
	if p.inst != h.inst {
		return p.real.Provide(w)
	}
	rd := h.round
	if rd != nil && rd.Plan.wBefore {
		h.park("before-provide")
	}
	err := p.real.Provide(w)
	if rd != nil {
		rd.Provided = true
		rd.ProvideErr = err
		if rd.Plan.wAfter {
			h.park("after-provide")
		}
	}
	return err
}

// ---------------------------------------------------------------- harness

type c37H struct {
	c  *core.Ctx
	s  *sim.Sim
	sc *c37Scenario
	n  *node.Node

	txns   []*c21Txn
	nNoops int

	storage *c37Storage
	plan    c37Plan
	round   *c37Round
	rounds  []*c37Round
	nRounds int
	inst    int
	cancel  context.CancelFunc

	parkedAt string
	resume   chan struct{}
}

// park blocks the calling (uploader) goroutine until the driver releases it.
func (h *c37H) park(where string) {
	h.parkedAt = where
	<-h.resume
}

func (h *c37H) release() {
	if h.parkedAt != "" {
		h.parkedAt = ""
		h.resume <- struct{}{}
	}
}

func (h *c37H) startUploader(n *node.Node) {
	h.inst++
	h.round = nil
	ctx, cancel := context.WithCancel(context.Background())
	h.cancel = cancel
	prov := store.NewProvider(n.Store, h.sc.Vacuum, h.sc.Compress)
	u := backup.NewUploader(h.storage, &c37Provider{real: prov, h: h, inst: h.inst}, time.Duration(h.sc.IntervalS)*time.Second)
	u.Start(ctx, n.Store.IsLeader)
}

func (h *c37H) stopUploader() {
	if h.cancel != nil {
		h.cancel()
		h.cancel = nil
	}
	h.inst++ // calls from the old uploader goroutine are no longer recorded
	h.release()
}

func (h *c37H) write(del int, tag string) {
	n := h.n
	if !n.Up {
		return
	}
	tx := &c21Txn{ID: len(h.txns) + 1, Outcome: "unknown"}
	if del > 0 {
		var cands []*c21Txn
		taken := map[int]bool{}
		for _, t := range h.txns {
			if t.Del > 0 {
				taken[t.Del] = true
			}
		}
		for _, t := range h.txns {
			if t.Done && t.Outcome == "ok" && t.Del == 0 && !taken[t.ID] {
				cands = append(cands, t)
			}
		}
		if len(cands) > 0 {
			tx.Del = cands[del%len(cands)].ID
		}
	}
	h.txns = append(h.txns, tx)
	stmts := c21TxnStmts(tx.ID, tx.Del, h.sc.PadMax)
	tx.Invoke = h.s.StepN
	h.s.Do(fmt.Sprintf("w%s txn%d del%d", tag, tx.ID, tx.Del), 30*time.Second, func() {
		idx, err := c21Exec(n, stmts, 8*time.Second)
		switch {
		case err == nil:
			tx.Outcome, tx.Index = "ok", idx
		case definiteFailure(err) || (len(err.Error()) > 5 && err.Error()[:5] == "stmt:"):
			tx.Outcome, tx.Err = "fail", err.Error()
		default:
			tx.Err = err.Error()
		}
		tx.Done = true
	})
	tx.Return = h.s.StepN
	if tx.Outcome == "ok" {
		h.c.Probe("writes_acked")
	}
}

// stepUntil steps the simulation until the deadline, serving parked uploader
// hooks (a write is executed, then the uploader goroutine is released).
func (h *c37H) runFor(d time.Duration) {
	deadline := time.Now().Add(d)
	for !h.s.Capped && time.Now().Before(deadline) {
		h.serveParks()
		h.s.Step()
	}
	h.serveParks()
}

// gate runs one upload round while a user backup (binary, not vacuumed, to a
// client that stops reading) holds the store's snapshot gate: writes before
// the user backup, the user backup parks after its first chunk (it has taken
// its own checkpoint and owns the gate), writes while it is parked, the clock
// is advanced until the uploader starts a round, and the slow client finishes
// RelMs later.
func (h *c37H) gate(op c37Op, interval time.Duration) {
	n, s, c := h.n, h.s, h.c
	if !n.Up {
		return
	}
	for i := 0; i < op.Pre; i++ {
		h.write(0, " (pre-gate)")
	}
	pw := newC21ParkWriter([]int{0})
	var berr error
	t := s.Go("user-backup binary (slow client)", func() {
		berr = n.Store.Backup(context.Background(), c21Request(c21Op{Format: "binary", NoLeader: true}), pw)
	})
	defer func() {
		// never leave the slow client parked
		for i := 0; i < 2000 && !t.Finished && !s.Capped; i++ {
			pw.release()
			s.Step()
		}
	}()
	s.RunUntil(func() bool { return pw.parked || t.Finished }, 30*time.Second)
	if !pw.parked {
		c.Probe("gate_holder_did_not_park")
		return
	}
	c.Probe("gate_held")
	for i := 0; i < op.Mid; i++ {
		h.write(0, " (gate held)")
	}
	// advance until the uploader starts a round (at most one interval and a bit)
	h.plan = c37Plan{}
	before := h.nRounds
	deadline := time.Now().Add(interval + time.Second)
	for !s.Capped && h.nRounds == before && time.Now().Before(deadline) {
		h.serveParks()
		s.Step()
	}
	if h.nRounds > before {
		c.Probe("round_started_while_gate_held")
	}
	h.runFor(time.Duration(op.RelMs) * time.Millisecond)
	pw.release()
	s.Await(t, 30*time.Second)
	if t.Finished && berr == nil {
		c.Probe("gate_holder_backup_ok")
	}
	// let the round (and the retries of Provider.Provide) finish
	h.runFor(interval)
}

func (h *c37H) serveParks() {
	if h.parkedAt == "" {
		return
	}
	where := h.parkedAt
	h.c.Probe("write_" + where)
	h.write(0, " ("+where+")")
	h.release()
}

// ---------------------------------------------------------------- oracle

// c37Inspect restores an uploaded object and returns the ids present in it
// (table a) and its canonical dump.
func (h *c37H) inspect(obj *c37Object) (ids map[int]bool, dump string, err error) {
	data := obj.Data
	if h.sc.Compress {
		data, err = c21Gunzip(data)
		if err != nil {
			return nil, "", fmt.Errorf("not a complete gzip stream: %w", err)
		}
	}
	dir, err := os.MkdirTemp(h.c.Dir, "obj-")
	if err != nil {
		panic(err)
	}
	defer os.RemoveAll(dir)
	path := filepath.Join(dir, "obj.db")
	if err := os.WriteFile(path, data, 0o644); err != nil {
		panic(err)
	}
	db, err := sql.Open("sqlite3", "file:"+path)
	if err != nil {
		panic(err)
	}
	defer db.Close()
	db.SetMaxOpenConns(1)
	var res string
	if err := db.QueryRow("PRAGMA integrity_check").Scan(&res); err != nil || res != "ok" {
		return nil, "", fmt.Errorf("not a sound SQLite database: integrity_check=%q err=%v", res, err)
	}
	var nobj int
	if err := db.QueryRow("SELECT COUNT(*) FROM sqlite_master").Scan(&nobj); err != nil {
		return nil, "", err
	}
	ids = map[int]bool{}
	if nobj > 0 {
		ids, err = c21IDs(db, "a")
		if err != nil {
			return nil, "", err
		}
	}
	dump, err = sim.DumpDB(db)
	return ids, dump, err
}

func (h *c37H) checkObjects() {
	c := h.c
	for _, obj := range h.storage.history {
		if c.Failed() {
			return
		}
		ids, _, err := h.inspect(obj)
		if err != nil {
			c.Violate("unusable-upload", "object uploaded in round %d with label %d does not restore: %v", obj.Round, obj.Label, err)
			return
		}
		present := func(id int) bool {
			if ids[id] {
				return true
			}
			for _, t := range h.txns { // deleted by a transaction that is present
				if t.Del == id && ids[t.ID] {
					return true
				}
			}
			return false
		}
		for _, t := range h.txns {
			if t.Done && t.Outcome == "ok" && t.Index <= obj.Label && !present(t.ID) {
				c.Violate("upload-misses-change", "object uploaded in round %d is labelled with index %d but does not contain transaction %d, acknowledged with raft index %d",
					obj.Round, obj.Label, t.ID, t.Index)
				return
			}
		}
		c.Probe("object_verified")
	}
}

func (h *c37H) checkRounds() {
	c := h.c
	// lastSync: the last round after which the uploader knows storage holds its data
	var lastSync *c37Round
	var syncLabel uint64 // label of the object the uploader last knew to be stored (any instance)
	var syncRound *c37Round
	inst := 0
	for _, rd := range h.rounds {
		if c.Failed() {
			return
		}
		if rd.Inst != inst {
			inst = rd.Inst
			lastSync = nil
		}
		c.Probe("rounds")
		healthy := rd.Plan.fault == "" && !rd.Cancelled && rd.Ended // Ended: upload() returned (it was called again later)
		skippedByID := rd.Provided && rd.ProvideErr == nil && rd.IDCalled && !rd.IDErr && !rd.Uploaded && rd.IDValue == strconv.FormatUint(rd.LI, 10)

		// (a) no upload in rounds without change
		if rd.Uploaded {
			c.Probe("rounds_uploading")
			ref := lastSync
			cls := "upload-without-change"
			if ref == nil && syncRound != nil && !rd.IDErr {
				// first rounds of a new process: storage already holds what an earlier process uploaded
				ref = syncRound
				cls = "upload-after-restart-without-change"
			}
			if ref != nil && rd.WritesSeen == ref.WritesSeen {
				if rd.NoopsSeen != ref.NoopsSeen {
					cls = "upload-after-noop-execute"
				}
				c.Violate(cls, "round %d (index %d) uploaded although no write was issued since round %d (index %d), whose upload succeeded", rd.N, rd.LI, ref.N, ref.LI)
				return
			}
		} else {
			c.Probe("rounds_not_uploading")
		}

		// (b) a change must be uploaded by the next round that can
		if healthy && rd.ProvideErr == nil && !skippedByID && !rd.Uploaded {
			for _, t := range h.txns {
				if t.Done && t.Outcome == "ok" && t.Return < rd.Start && t.Index > syncLabel && t.Index <= rd.LI {
					c.Violate("changed-not-uploaded", "round %d (index %d) uploaded nothing although transaction %d (raft index %d) was acknowledged before it and the last successful upload is labelled %d",
						rd.N, rd.LI, t.ID, t.Index, syncLabel)
					return
				}
			}
		}
		if healthy && rd.ProvideErr == nil && !rd.Uploaded && rd.LI > syncLabel && !skippedByID {
			c.Probe("idle_round_with_newer_index")
		}

		if (rd.Uploaded && rd.UploadErr == nil && rd.Stored) || skippedByID {
			if rd.Uploaded {
				c.Probe("uploads_ok")
			} else {
				c.Probe("skipped_by_id")
			}
			lastSync = rd
			syncRound = rd
			syncLabel = rd.LI
		}
		if rd.Uploaded && rd.UploadErr != nil {
			c.Probe("uploads_failed")
		}
	}
}

// ---------------------------------------------------------------- run

func c37Run(c *core.Ctx, raw json.RawMessage) {
	var sc c37Scenario
	if err := json.Unmarshal(raw, &sc); err != nil {
		panic(err)
	}
	if sc.IntervalS <= 0 {
		sc.IntervalS = 10
	}
	if sc.PadMax <= 0 {
		sc.PadMax = 20
	}
	c.Rng = core.NewRand(sc.Seed)
	s := sim.New(c)
	defer s.Shutdown()
	h := &c37H{c: c, s: s, sc: &sc, resume: make(chan struct{})}
	h.storage = &c37Storage{h: h}
	n := s.AddNode(sc.Knobs)
	h.n = n
	n.AfterOpen = func(n *node.Node) error { h.startUploader(n); return nil }
	n.OnStop = func(n *node.Node) { h.stopUploader() }
	if err := s.Boot(1, sc.Knobs, nil); err != nil {
		c.Discard("boot-failed: " + err.Error())
		return
	}
	defer h.stopUploader()
	interval := time.Duration(sc.IntervalS) * time.Second

	// schema and preload: one request
	var setup []string
	setup = append(setup, c21SchemaStmts()...)
	for i := 1; i <= sc.Preload; i++ {
		h.txns = append(h.txns, &c21Txn{ID: i, Outcome: "unknown"})
		setup = append(setup, c21TxnStmts(i, 0, sc.PadMax)...)
	}
	var setupIdx uint64
	var setupErr error
	if !s.Do("setup", 60*time.Second, func() { setupIdx, setupErr = c21Exec(n, setup, 20*time.Second) }) || setupErr != nil {
		c.Discard(fmt.Sprintf("setup-failed: %v", setupErr))
		return
	}
	for _, t := range h.txns {
		t.Outcome, t.Index, t.Done, t.Invoke, t.Return = "ok", setupIdx, true, 0, s.StepN
	}

	for _, op := range sc.Ops {
		if s.Capped || c.Failed() {
			break
		}
		switch op.Kind {
		case "w":
			h.write(op.Del, "")
		case "noop":
			if n.Up {
				h.nNoops++
				sqlText := "UPDATE ctr SET n=n+1 WHERE id=999"
				if op.Failing {
					sqlText = "INSERT INTO ctr(id,n) VALUES(1,0)"
				}
				s.Do("noop-execute", 30*time.Second, func() { c21Exec(n, []string{sqlText}, 8*time.Second) })
				c.Probe("noop_executes")
			}
		case "round":
			h.plan = c37Plan{fault: op.Fault, idFault: op.IDFault, slow: time.Duration(op.SlowMs) * time.Millisecond,
				wBefore: op.WBefore, wAfter: op.WAfter, wUpload: op.WUpload}
			h.runFor(interval)
			h.plan = c37Plan{}
		case "restart":
			if n.Up {
				c.Log.Add("%d fault crash+restart", s.StepN)
				if err := s.Crash(1); err != nil {
					c.Discard("crash-failed: " + err.Error())
					return
				}
				h.runFor(time.Duration(200+c.Rng.Intn(2000)) * time.Millisecond)
				if err := s.Restart(1); err != nil {
					c.Discard("restart-failed: " + err.Error())
					return
				}
				s.RunUntil(func() bool { return n.Store.IsLeader() }, 30*time.Second)
			}
		case "snap":
			if n.Up {
				var err error
				s.Do("snapshot", 30*time.Second, func() { err = n.Store.Snapshot(0) })
				if err == nil {
					c.Probe("snapshot_ok")
				}
			}
		case "run":
			h.runFor(time.Duration(op.Ms) * time.Millisecond)
		case "gate":
			h.gate(op, interval)
		}
	}
	if c.Failed() {
		return
	}
	// failures have stopped: the latest state must be uploaded within a bounded
	// number of rounds (3 intervals: one round may be in progress, one may be
	// skipped by a ticker that was drained late)
	h.plan = c37Plan{}
	s.RunUntil(func() bool { return n.Up && n.Store.IsLeader() }, 30*time.Second)
	h.runFor(3*interval + 500*time.Millisecond)
	h.stopUploader()
	s.RunFor(100 * time.Millisecond)

	h.checkObjects()
	if c.Failed() {
		return
	}
	h.checkRounds()
	if c.Failed() {
		return
	}
	// final state uploaded
	live, err := s.DumpNode(n)
	if err != nil {
		panic(err)
	}
	nOK := 0
	for _, t := range h.txns {
		if t.Done && t.Outcome == "ok" {
			nOK++
		}
	}
	cur := h.storage.cur
	if cur == nil {
		c.Violate("final-not-uploaded", "no object was ever stored although %d writes were acknowledged and %d rounds ran", nOK, len(h.rounds))
		return
	}
	_, dump, err := h.inspect(cur)
	if err != nil {
		c.Violate("unusable-upload", "current object (label %d) does not restore: %v", cur.Label, err)
		return
	}
	if dump != live {
		c.Violate("final-not-uploaded", "three healthy rounds after the last operation the stored object (label %d, round %d of %d) differs from the database: %s",
			cur.Label, cur.Round, len(h.rounds), sim.FirstDiff(dump, live))
		return
	}
	c.Probe("final_state_uploaded")
	c.Res.Trivial = len(h.storage.history) == 0
	c.Sig(fmt.Sprintf("%d/%d/%d", len(h.rounds), len(h.storage.history), nOK))
}

func init() {
	core.Register(&core.Prop{ID: "C37", Bubble: true, Gen: c37Gen, Run: c37Run})
}
