package props

// C03, cluster part: crash/restart of a minority (including the leader) of a
// 3/5-node cluster at arbitrary scheduler steps while writes are in flight.

import (
	"context"
	"fmt"
	"time"

	"github.com/rqlite/rqlite/v10/command/proto"
	"verifsim/core"
	"verifsim/node"
	"verifsim/sim"
)

func c03GenE1(r *core.Rand, sc *c03Scenario) any {
	sc.Mode = "e1"
	sc.Nodes = 3
	if r.Bool(0.25) {
		sc.Nodes = 5
	}
	sc.Tick = []float64{0.02, 0.08, 0.2}[r.Intn(3)]
	hb := time.Duration(r.Range(2, 8)) * 100 * time.Millisecond
	sc.Knobs = node.Knobs{HeartbeatTimeout: hb, ElectionTimeout: hb, LeaderLeaseTimeout: hb / 2,
		ApplyTimeout: time.Duration(r.Range(2, 5)) * time.Second}
	if r.Bool(0.7) {
		sc.Knobs.SnapshotThreshold = uint64(r.Range(3, 10))
		sc.Knobs.SnapshotInterval = time.Duration(r.Range(100, 1500)) * time.Millisecond
		sc.Knobs.SnapshotReapThreshold = r.Range(2, 4)
	}
	nops := r.Range(20, 60)
	down := 0
	for i := 0; i < nops; i++ {
		x := r.Intn(100)
		switch {
		case i == 0 || x < 62:
			pad := 0
			if r.Bool(0.3) {
				pad = r.Range(100, 5000)
			}
			sc.Ops = append(sc.Ops, c03Op{K: "w", Node: 1 + r.Intn(sc.Nodes), Pad: pad, Gap: r.Intn(10)})
		case x < 76:
			if down < (sc.Nodes-1)/2 {
				sc.Ops = append(sc.Ops, c03Op{K: "crash", Node: r.Intn(sc.Nodes + 1), Gap: r.Intn(25)})
				down++
				if r.Bool(0.6) {
					sc.Ops = append(sc.Ops, c03Op{K: "run", N: r.Range(100, 2500)})
				}
			}
		case x < 86:
			if down > 0 {
				sc.Ops = append(sc.Ops, c03Op{K: "restart", Gap: r.Intn(25)})
				down = 0
			}
		case x < 92:
			sc.Ops = append(sc.Ops, c03Op{K: "snap", Node: 1 + r.Intn(sc.Nodes), Gap: r.Intn(10)})
		default:
			sc.Ops = append(sc.Ops, c03Op{K: "run", N: r.Range(50, 2000)})
		}
	}
	return sc
}

type c03W struct {
	V       int64
	Outcome string // ok | unknown
	Err     string
}

func c03RunE1(c *core.Ctx, sc *c03Scenario) {
	c.Rng = core.NewRand(sc.Seed)
	s := sim.New(c)
	if sc.Tick > 0 {
		s.TickProb = sc.Tick
	}
	defer s.Shutdown()
	if sc.Nodes < 3 {
		sc.Nodes = 3
	}
	if err := s.Boot(sc.Nodes, sc.Knobs, nil); err != nil {
		c.Discard("boot-failed: " + clean(c, err.Error()))
		return
	}
	if !execOn(s, s.Leader(), tblSchema) {
		c.Discard("schema-failed")
		return
	}
	var ws []*c03W
	var tasks []*sim.Task
	nextV := int64(1000)
	var downNodes []int
	for _, op := range sc.Ops {
		if s.Capped || c.Failed() {
			break
		}
		switch op.K {
		case "w":
			if op.Node < 1 || op.Node > sc.Nodes {
				continue
			}
			n := s.Nodes[op.Node]
			if !n.Up {
				continue
			}
			// bound the number of outstanding writes
			for len(tasks) >= 3 {
				s.Await(tasks[0], 60*time.Second)
				if !tasks[0].Finished {
					break
				}
				tasks = tasks[1:]
			}
			nextV++
			w := &c03W{V: nextV, Outcome: "unknown"}
			ws = append(ws, w)
			q := insertSQL(mrow{V: w.V, Pad: op.Pad})
			starts := n.Starts
			t := s.Go(fmt.Sprintf("w n%d v%d", op.Node, w.V), func() {
				er := &proto.ExecuteRequest{Request: &proto.Request{Statements: []*proto.Statement{{Sql: q}}}}
				res, _, _, err := n.Proxy.Execute(context.Background(), er, nil, 8*time.Second, 0, false)
				switch {
				case err != nil:
					w.Err = err.Error()
				case len(res) != 1 || res[0].GetError() != "" || (res[0].GetE() != nil && res[0].GetE().Error != ""):
					w.Err = fmt.Sprint(res)
				case !n.Up || n.Starts != starts:
					// the node that answered was crashed by the simulator meanwhile:
					// the client never saw this acknowledgement
					w.Err = "ack from a crashed instance"
				default:
					w.Outcome = "ok"
				}
			})
			tasks = append(tasks, t)
		case "crash":
			tgt := op.Node
			if tgt == 0 {
				l := s.Leader()
				if l == nil {
					continue
				}
				tgt = l.Idx
				c.Probe("crash_leader")
			}
			if tgt > sc.Nodes || len(downNodes) >= (sc.Nodes-1)/2 || !s.Nodes[tgt].Up {
				continue
			}
			if s.PendingTasks() > 0 {
				c.Probe("crash_with_inflight_write")
			}
			logf(c, "%d fault crash n%d", s.StepN, tgt)
			if err := s.Crash(tgt); err != nil {
				c.Discard("crash-failed: " + clean(c, err.Error()))
				return
			}
			downNodes = append(downNodes, tgt)
		case "restart":
			for _, d := range downNodes {
				logf(c, "%d fault restart n%d", s.StepN, d)
				sk := storeStat("num_restores_start_skipped")
				if err := s.Restart(d); err != nil {
					stViolate(c, "restart-failed", "node %d failed to restart after crash: %v", d, err)
					return
				}
				if storeStat("num_restores_start_skipped") > sk {
					c.Probe("restart_fast_path")
				} else {
					c.Probe("restart_rebuild_path")
				}
			}
			downNodes = nil
		case "snap":
			if op.Node >= 1 && op.Node <= sc.Nodes && s.Nodes[op.Node].Up {
				n := s.Nodes[op.Node]
				s.Go(fmt.Sprintf("snap n%d", op.Node), func() { n.Store.Snapshot(0) })
			}
		case "run":
			s.RunFor(time.Duration(op.N) * time.Millisecond)
		}
		for i := 0; i < op.Gap && !s.Capped; i++ {
			s.Step()
		}
	}
	if c.Failed() {
		return
	}
	for _, d := range downNodes {
		if err := s.Restart(d); err != nil {
			stViolate(c, "restart-failed", "node %d failed to restart after crash: %v", d, err)
			return
		}
	}
	s.Drain(120 * time.Second)
	// flush: one more acked write through the leader, then wait for every node to apply it
	var ldr *node.Node
	s.RunUntil(func() bool { ldr = s.Leader(); return ldr != nil }, 60*time.Second)
	if ldr == nil {
		c.Discard("no-leader-at-end")
		return
	}
	nextV++
	final := &c03W{V: nextV, Outcome: "unknown"}
	for try := 0; try < 5 && final.Outcome != "ok"; try++ {
		ldr = s.Leader()
		if ldr == nil {
			s.RunFor(time.Second)
			continue
		}
		if execOn(s, ldr, insertSQL(mrow{V: final.V})) {
			final.Outcome = "ok"
		} else {
			nextV++
			ws = append(ws, final)
			final = &c03W{V: nextV, Outcome: "unknown"}
		}
	}
	ws = append(ws, final)
	if final.Outcome != "ok" {
		c.Discard("final-write-failed")
		return
	}
	same := func() bool {
		l := s.Leader()
		if l == nil {
			return false
		}
		want := l.Store.DBAppliedIndex()
		for _, n := range s.Nodes[1:] {
			if !n.Up || n.Store.DBAppliedIndex() != want {
				return false
			}
		}
		return s.PendingTasks() == 0
	}
	if !s.RunUntil(same, 120*time.Second) {
		c.Res.Verdict = core.Capped
		c.Res.Class = "no-convergence-in-120s"
		return
	}
	ldr = s.Leader()
	dl, err := s.DumpNode(ldr)
	if err != nil {
		stViolate(c, "dump-failed", "leader database unreadable: %v", err)
		return
	}
	rows, _, err := parseT(dl)
	if err != nil {
		c.Discard("harness: " + clean(c, err.Error()))
		return
	}
	cnt := map[int64]int{}
	for _, r := range rows {
		cnt[r.V]++
	}
	known := map[int64]*c03W{}
	nOK, nUnk := 0, 0
	for _, w := range ws {
		known[w.V] = w
		if w.Outcome == "ok" {
			nOK++
			if cnt[w.V] == 0 {
				stViolate(c, "acked-write-lost", "acknowledged write v=%d is not in the leader's database after crash/restart of a minority", w.V)
				return
			}
		} else {
			nUnk++
		}
	}
	for _, r := range rows {
		v, k := r.V, cnt[r.V]
		if k > 1 {
			stViolate(c, "write-applied-twice", "value v=%d appears %d times", v, k)
			return
		}
		if known[v] == nil {
			stViolate(c, "phantom-write", "value v=%d was never written", v)
			return
		}
	}
	for _, n := range s.Nodes[1:] {
		if n == ldr {
			continue
		}
		d, err := s.DumpNode(n)
		if err != nil {
			stViolate(c, "dump-failed", "database of %s unreadable: %v", n.ID, err)
			return
		}
		if d != dl {
			stViolate(c, "replica-state-differs", "%s (starts=%d) and leader %s differ at the same applied index: %s", n.ID, n.Starts, ldr.ID, sim.FirstDiff(d, dl))
			return
		}
	}
	c.ProbeN("writes_acked", nOK)
	c.ProbeN("writes_unknown", nUnk)
	c.Res.Trivial = nOK < 2
	c.Sig(fmt.Sprintf("e1/%d/%d/%s", nOK, nUnk, s.StateDigest()))
}
