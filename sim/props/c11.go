package props

import (
	"bytes"
	"encoding/binary"
	"encoding/json"
	"errors"
	"fmt"
	"io"
	"os"
	"path/filepath"
	"sort"
	"strings"
	"sync"
	"time"

	"github.com/hashicorp/raft"
	"github.com/rqlite/rqlite/v10/db"
	"github.com/rqlite/rqlite/v10/snapshot"
	"verifsim/core"
	"verifsim/sched"
)

// C11: concurrent snapshot creation, snapshot reads and reaping never let an
// open snapshot stream observe its files being removed or rewritten; reaping
// waits until no stream is open; a stalled stream is force-closed after its
// idle timeout so reaping can proceed; each stream releases its hold exactly
// once however it is closed.
//
// Engine E3 over the real snapshot.Store on tmpfs: a creator task (full and
// incremental snapshots made exactly the way store.fsmSnapshot makes them,
// from a live SQLite database), 1-3 reader tasks (open / read in chunks /
// stall / close once or twice), a manual Reap task; the store's own reaper
// goroutine and the idle-timeout callbacks are adopted at their yield hooks;
// the scheduler advances the fake clock (idle timeout).

type c11Op struct {
	T string `json:"t"`           // cr | r0..r2 | m
	K string `json:"k"`           // full incr | open read drain close | reap | sleep
	A int    `json:"a,omitempty"` // open: n-th newest; read: buffer size; sleep: ms
}

type c11Scenario struct {
	Seed          uint64  `json:"seed"`
	ReadTimeoutMs int     `json:"read_timeout_ms"` // 0 = idle timeout disabled
	ReapThreshold int     `json:"reap_threshold"`
	TickProb      float64 `json:"tick"`
	Sticky        float64 `json:"sticky"`
	Ops           []c11Op `json:"ops"`
}

func c11Gen(r *core.Rand, tier string) any {
	sc := &c11Scenario{Seed: r.Uint64()}
	sc.ReadTimeoutMs = []int{0, 50, 200, 1000}[r.Intn(4)]
	sc.ReapThreshold = r.Range(2, 4)
	sc.TickProb = []float64{0.03, 0.1, 0.3}[r.Intn(3)]
	sc.Sticky = []float64{0, 0.4, 0.7}[r.Intn(3)]
	nr := r.Range(1, 3)
	to := sc.ReadTimeoutMs
	if to == 0 {
		to = 100
	}
	sleeps := []int{1, 10, to / 2, to - 1, to, to + 1, 2 * to}
	bufs := []int{1, 7, 64, 512, 4096, 1 << 16}
	sc.Ops = append(sc.Ops, c11Op{T: "cr", K: "full"})
	n := r.Range(12, 45)
	for i := 0; i < n; i++ {
		switch x := r.Intn(100); {
		case x < 22:
			k := "incr"
			if r.Bool(0.12) {
				k = "full"
			}
			sc.Ops = append(sc.Ops, c11Op{T: "cr", K: k})
		case x < 27:
			sc.Ops = append(sc.Ops, c11Op{T: "cr", K: "sleep", A: sleeps[r.Intn(len(sleeps))]})
		case x < 37:
			sc.Ops = append(sc.Ops, c11Op{T: "m", K: "reap"})
		case x < 40:
			sc.Ops = append(sc.Ops, c11Op{T: "m", K: "sleep", A: sleeps[r.Intn(len(sleeps))]})
		default:
			op := c11Op{T: fmt.Sprintf("r%d", r.Intn(nr))}
			switch r.Weighted([]int{24, 30, 12, 20, 14}) {
			case 0:
				op.K, op.A = "open", r.Intn(3)
			case 1:
				op.K, op.A = "read", bufs[r.Intn(len(bufs))]
			case 2:
				op.K, op.A = "drain", bufs[3+r.Intn(3)]
			case 3:
				op.K = "close"
			case 4:
				op.K, op.A = "sleep", sleeps[r.Intn(len(sleeps))]
			}
			sc.Ops = append(sc.Ops, op)
		}
	}
	return sc
}

type c11Stream struct {
	n        int
	reader   string
	snapID   string
	rc       io.ReadCloser
	got      []byte
	expBody  []byte
	expSizes []int64
	hdrLen   int // 4 + marshaled header, 0 until known
	lastAct  time.Time
	closes   int
	eof      bool
	sawTO    bool
	// mayBeForced: at some quiescent point the stream had been inactive for the
	// idle timeout, so the store was entitled to force-close it (a Read that was
	// in flight across that moment may still succeed; it does not re-open it)
	mayBeForced bool
}

// c11Expected reads, independently of the snapshot package, what a stream of
// snapshot id must deliver: the database file of the nearest full snapshot at
// or before it, then every WAL file from there up to and including id.
func c11Expected(dir, id string) (body []byte, sizes []int64, err error) {
	ents, err := os.ReadDir(dir)
	if err != nil {
		return nil, nil, err
	}
	type snap struct {
		id          string
		term, index uint64
	}
	var snaps []snap
	for _, e := range ents {
		if !e.IsDir() || strings.HasSuffix(e.Name(), ".tmp") {
			continue
		}
		b, err := os.ReadFile(filepath.Join(dir, e.Name(), "meta.json"))
		if err != nil {
			return nil, nil, err
		}
		var m struct {
			Term, Index uint64
		}
		if err := json.Unmarshal(b, &m); err != nil {
			return nil, nil, err
		}
		snaps = append(snaps, snap{e.Name(), m.Term, m.Index})
	}
	sort.Slice(snaps, func(i, j int) bool {
		a, b := snaps[i], snaps[j]
		if a.term != b.term {
			return a.term < b.term
		}
		if a.index != b.index {
			return a.index < b.index
		}
		return a.id < b.id
	})
	at := -1
	for i, s := range snaps {
		if s.id == id {
			at = i
		}
	}
	if at < 0 {
		return nil, nil, fmt.Errorf("snapshot %s not in the store directory", id)
	}
	full := -1
	for i := at; i >= 0; i-- {
		if _, err := os.Stat(filepath.Join(dir, snaps[i].id, "data.db")); err == nil {
			full = i
			break
		}
	}
	if full < 0 {
		return nil, nil, fmt.Errorf("no full snapshot at or before %s", id)
	}
	add := func(p string) error {
		b, err := os.ReadFile(p)
		if err != nil {
			return err
		}
		body = append(body, b...)
		sizes = append(sizes, int64(len(b)))
		return nil
	}
	if err := add(filepath.Join(dir, snaps[full].id, "data.db")); err != nil {
		return nil, nil, err
	}
	for i := full; i <= at; i++ {
		wals, _ := filepath.Glob(filepath.Join(dir, snaps[i].id, "*.wal"))
		sort.Strings(wals)
		for _, w := range wals {
			if err := add(w); err != nil {
				return nil, nil, err
			}
		}
	}
	return body, sizes, nil
}

func c11Run(c *core.Ctx, raw json.RawMessage) {
	var sc c11Scenario
	if err := json.Unmarshal(raw, &sc); err != nil {
		panic(err)
	}
	if sc.ReapThreshold < 2 {
		sc.ReapThreshold = 2
	}
	c.Rng = core.NewRand(sc.Seed)
	s := sched.New(c, c.Rng)
	s.TickProb, s.Sticky = sc.TickProb, sc.Sticky
	s.Quanta = []time.Duration{time.Millisecond, 5 * time.Millisecond, 20 * time.Millisecond, 100 * time.Millisecond}
	s.MaxSteps = 6000
	s.Install()
	timeout := time.Duration(sc.ReadTimeoutMs) * time.Millisecond

	storeDir := filepath.Join(c.Dir, "snapshots")
	str, err := snapshot.NewStore(storeDir)
	if err != nil {
		s.Close()
		c.Discard("store-open-failed: " + err.Error())
		return
	}
	str.SetReadTimeout(timeout)
	str.SetReapThreshold(sc.ReapThreshold)
	str.SetNoVerifyDB(true) // as rqlited runs it (the post-reap integrity check is a test-coverage knob)
	live, err := db.Open(filepath.Join(c.Dir, "live.db"), false, true)
	if err != nil {
		s.Close()
		str.Close()
		c.Discard("db-open-failed: " + err.Error())
		return
	}
	cm, _ := db.NewCheckpointManager(live)
	if _, err := live.ExecuteStringStmt("CREATE TABLE t (id INTEGER PRIMARY KEY, v TEXT)"); err != nil {
		panic(err)
	}

	var mu sync.Mutex
	var streams []*c11Stream
	// certainlyOpen: streams the store must still be protecting - opened, not
	// closed by the harness, and not idle long enough for the timeout to apply
	certainlyOpen := func() *c11Stream {
		for _, st := range streams {
			if st.rc != nil && st.closes == 0 && !st.mayBeForced && (timeout == 0 || time.Since(st.lastAct) < timeout) {
				return st
			}
		}
		return nil
	}
	listDirs := func() string {
		ents, _ := os.ReadDir(storeDir)
		var n []string
		for _, e := range ents {
			if e.IsDir() && !strings.HasSuffix(e.Name(), ".tmp") {
				n = append(n, e.Name())
			}
		}
		return strings.Join(n, ",")
	}
	// the store's own reaper: observed through its note hooks
	var autoOpen *c11Stream
	autoDirs := ""
	s.OnNote = func(point string, v int64) {
		mu.Lock()
		defer mu.Unlock()
		switch point {
		case "snapshot.reaploop.locked":
			autoOpen, autoDirs = certainlyOpen(), listDirs()
			c.Probe("auto_reaper_got_write_lock")
		case "snapshot.reaploop.unlocked":
			if after := listDirs(); after != autoDirs {
				c.Probe("auto_reap_changed_store")
				if autoOpen != nil {
					s.Violate("reap-with-open-stream", "the reaper goroutine reaped (%s -> %s) while stream #%d of %s (snapshot %s, last activity %s ago, idle timeout %s) was open",
						autoDirs, after, autoOpen.n, autoOpen.reader, autoOpen.snapID, time.Since(autoOpen.lastAct), timeout)
				}
			}
		case "snapshot.stream.idle-close":
			c.Probe("idle_timeout_forced_close")
		}
	}

	per := map[string][]c11Op{}
	var names []string
	for _, op := range sc.Ops {
		if _, ok := per[op.T]; !ok {
			names = append(names, op.T)
		}
		per[op.T] = append(per[op.T], op)
	}
	sort.Strings(names)

	// ---------------------------------------------------------------- creator
	index := uint64(10)
	rows := 0
	nStaging := 0
	cfg := raft.Configuration{Servers: []raft.Server{{ID: "1", Address: "10.0.0.1:4002"}}}
	insert := func(n int) {
		for i := 0; i < n; i++ {
			rows++
			if _, err := live.ExecuteStringStmt(fmt.Sprintf("INSERT INTO t(id, v) VALUES(%d, 'row-%d-%s')", rows, rows, strings.Repeat("x", 40))); err != nil {
				panic(err)
			}
		}
	}
	create := func(t *sched.Task, kind string) {
		if due, _ := str.DueNext(); due == snapshot.Full {
			kind = "full"
		}
		insert(2)
		index += 5
		var src io.ReadCloser
		if kind == "full" {
			if _, _, err := cm.Checkpoint(nil, 2*time.Second); err != nil {
				panic(err)
			}
			st, err := snapshot.NewSnapshotStreamer(live.Path())
			if err != nil {
				panic(err)
			}
			if err := st.Open(); err != nil {
				panic(err)
			}
			src = st
		} else {
			nStaging++
			sd := filepath.Join(c.Dir, fmt.Sprintf("staging-%04d", nStaging))
			if err := os.MkdirAll(sd, 0o755); err != nil {
				panic(err)
			}
			w, _, err := snapshot.NewStagingDir(sd).CreateWAL()
			if err != nil {
				panic(err)
			}
			if _, _, err := cm.Checkpoint(w, 2*time.Second); err != nil {
				panic(err)
			}
			if err := w.Close(); err != nil {
				panic(err)
			}
			st, err := snapshot.NewSnapshotPathStreamer(sd)
			if err != nil {
				panic(err)
			}
			src = st
		}
		defer src.Close()
		sink, err := str.Create(1, index, 1, cfg, 1, nil)
		if err != nil {
			s.Logf("  cr %s create failed", kind)
			return
		}
		if _, err := io.Copy(sink, src); err != nil {
			sink.Cancel()
			s.Logf("  cr %s write failed", kind)
			return
		}
		t.Yield("h.sink.close")
		if err := sink.Close(); err != nil {
			s.Violate("sink-close-failed", "closing a %s snapshot sink failed: %v", kind, err)
			return
		}
		s.Logf("  cr %s snapshot index=%d", kind, index)
		s.Probe("snapshot_created_" + kind)
	}

	// ---------------------------------------------------------------- readers
	timedOutLegit := func(st *c11Stream) bool {
		return timeout > 0 && (st.mayBeForced || time.Since(st.lastAct) >= timeout)
	}
	s.AfterStep = func() {
		if timeout == 0 {
			return
		}
		mu.Lock()
		defer mu.Unlock()
		for _, st := range streams {
			if !st.mayBeForced && st.closes == 0 && time.Since(st.lastAct) >= timeout {
				st.mayBeForced = true
				c.Probe("stream_idle_for_timeout")
			}
		}
	}
	checkPrefix := func(st *c11Stream) {
		if st.hdrLen == 0 {
			if len(st.got) < 4 {
				return
			}
			hl := int(binary.BigEndian.Uint32(st.got[:4]))
			if len(st.got) < 4+hl {
				return
			}
			st.hdrLen = 4 + hl
			h, err := snapshot.UnmarshalSnapshotHeader(st.got[4 : 4+hl])
			if err != nil || h.GetFull() == nil {
				s.Violate("stream-header", "stream #%d of %s: header does not parse as a full snapshot header: %v", st.n, st.reader, err)
				return
			}
			sizes := []int64{int64(h.GetFull().GetDbHeader().GetSizeBytes())}
			for _, w := range h.GetFull().GetWalHeaders() {
				sizes = append(sizes, int64(w.GetSizeBytes()))
			}
			if fmt.Sprint(sizes) != fmt.Sprint(st.expSizes) {
				s.Violate("stream-header", "stream #%d of %s (snapshot %s): header announces file sizes %v, the snapshot's files at open time had %v", st.n, st.reader, st.snapID, sizes, st.expSizes)
				return
			}
		}
		body := st.got[st.hdrLen:]
		if len(body) > len(st.expBody) {
			s.Violate("stream-content", "stream #%d of %s (snapshot %s) delivered %d body bytes, the snapshot had %d at open time", st.n, st.reader, st.snapID, len(body), len(st.expBody))
			return
		}
		if !bytes.Equal(body, st.expBody[:len(body)]) {
			at := 0
			for at < len(body) && body[at] == st.expBody[at] {
				at++
			}
			s.Violate("stream-content", "stream #%d of %s (snapshot %s): byte %d of the body differs from the snapshot's content at open time (files were rewritten or replaced under the open stream)", st.n, st.reader, st.snapID, at)
		}
	}
	nStreams := 0
	reader := func(name string, ops []c11Op) *sched.Task {
		return s.Go(name, func(t *sched.Task) {
			var cur *c11Stream
			for _, op := range ops {
				if s.Freed() || s.Failed() {
					return
				}
				switch op.K {
				case "sleep":
					t.Yield("h.sleep")
					time.Sleep(time.Duration(op.A) * time.Millisecond)
				case "open":
					t.Yield("h.list")
					metas, err := str.ListAll()
					if err != nil || len(metas) == 0 {
						s.Logf("  %s list: nothing (err=%v)", name, err != nil)
						continue
					}
					id := metas[op.A%len(metas)].ID
					t.Doing = "open"
					_, rc, err := str.Open(id) // yields inside: before and after taking the read lock
					t.Doing = ""
					if err != nil {
						s.Logf("  %s open failed", name)
						s.Probe("open_failed_conflict_or_reaped")
						if !errors.Is(err, snapshot.ErrSnapshotNotFound) && !strings.Contains(err.Error(), "acquiring read lock") {
							s.Violate("open-error", "%s: Open(%s) failed with an error that is neither a lock conflict nor 'not found': %v", name, id, err)
						}
						continue
					}
					mu.Lock()
					nStreams++
					st := &c11Stream{n: nStreams, reader: name, snapID: id, rc: rc, lastAct: time.Now()}
					body, sizes, xerr := c11Expected(storeDir, id)
					st.expBody, st.expSizes = body, sizes
					streams = append(streams, st)
					mu.Unlock()
					if xerr != nil {
						s.Violate("open-inconsistent-store", "%s: Open(%s) succeeded but the snapshot's files cannot be read back from the store directory: %v", name, id, xerr)
						return
					}
					if cur != nil && cur.closes == 0 {
						s.Probe("stream_abandoned_open")
					}
					cur = st
					s.Logf("  %s open stream #%d files=%d", name, st.n, len(sizes))
					s.Probe("stream_opened")
				case "read", "drain":
					if cur == nil || cur.eof {
						continue
					}
				again:
					t.Yield("h.read")
					buf := make([]byte, op.A)
					t.Doing = "read"
					n, err := cur.rc.Read(buf) // yields inside, after the timed-out check
					t.Doing = ""
					mu.Lock()
					if n > 0 {
						cur.got = append(cur.got, buf[:n]...)
						cur.lastAct = time.Now()
					}
					mu.Unlock()
					s.Logf("  %s read #%d n=%d err=%v", name, cur.n, n, err != nil)
					if n > 0 {
						checkPrefix(cur)
					}
					switch {
					case err == nil:
						if op.K == "drain" && !s.Freed() && !s.Failed() {
							goto again
						}
					case err == io.EOF:
						cur.eof = true
						if cur.hdrLen == 0 || len(cur.got)-cur.hdrLen != len(cur.expBody) {
							s.Violate("stream-truncated", "stream #%d of %s (snapshot %s) ended after %d bytes, expected %d body bytes after the header", cur.n, name, cur.snapID, len(cur.got), len(cur.expBody))
						} else {
							s.Probe("stream_read_to_eof")
						}
					case cur.closes > 0:
						// reading a stream the harness closed itself: any error is fine
					case errors.Is(err, snapshot.ErrSnapshotReaderTimeout):
						cur.sawTO = true
						s.Probe("read_saw_idle_timeout")
						if !timedOutLegit(cur) {
							s.Violate("timeout-too-early", "stream #%d of %s: Read reported the idle timeout although the last activity was %s ago (timeout %s)", cur.n, name, time.Since(cur.lastAct), timeout)
						}
					default:
						if !timedOutLegit(cur) {
							s.Violate("read-error", "stream #%d of %s (snapshot %s): Read failed with %v (last activity %s ago, idle timeout %s)", cur.n, name, cur.snapID, err, time.Since(cur.lastAct), timeout)
						} else {
							s.Probe("read_raced_with_forced_close")
						}
					}
				case "close":
					if cur == nil || cur.closes >= 2 {
						continue
					}
					t.Yield("h.close")
					mu.Lock()
					cur.closes++ // the hold counts as given up from the moment Close is called
					k := cur.closes
					mu.Unlock()
					t.Doing = "close"
					cur.rc.Close() // yields inside, before taking the streamer's lock
					t.Doing = ""
					s.Logf("  %s close #%d (%d)", name, cur.n, k)
					if k == 2 {
						s.Probe("stream_closed_twice")
					}
				}
			}
		})
	}

	var tasks []*sched.Task
	for _, name := range names {
		ops := per[name]
		switch {
		case name == "cr":
			tasks = append(tasks, s.Go("cr", func(t *sched.Task) {
				for _, op := range ops {
					if s.Freed() || s.Failed() {
						return
					}
					switch op.K {
					case "sleep":
						t.Yield("h.sleep")
						time.Sleep(time.Duration(op.A) * time.Millisecond)
					default:
						t.Yield("h.create")
						create(t, op.K)
					}
				}
			}))
		case name == "m":
			tasks = append(tasks, s.Go("m", func(t *sched.Task) {
				for _, op := range ops {
					if s.Freed() || s.Failed() {
						return
					}
					switch op.K {
					case "sleep":
						t.Yield("h.sleep")
						time.Sleep(time.Duration(op.A) * time.Millisecond)
					case "reap":
						t.Yield("h.reap")
						mu.Lock()
						open := certainlyOpen()
						mu.Unlock()
						n, w, err := str.Reap()
						s.Logf("  m reap n=%d wals=%d err=%v", n, w, err != nil)
						switch {
						case err == nil && (n > 0 || w > 0):
							s.Probe("manual_reap_reaped")
							if open != nil {
								s.Violate("reap-with-open-stream", "Reap() removed %d snapshots and checkpointed %d WALs while stream #%d of %s (snapshot %s, last activity %s ago, idle timeout %s) was open",
									n, w, open.n, open.reader, open.snapID, time.Since(open.lastAct), timeout)
							}
						case err == nil:
							s.Probe("manual_reap_nothing_to_do")
						case strings.Contains(err.Error(), "MSRW conflict"):
							s.Probe("manual_reap_refused_lock_busy")
						default:
							s.Violate("reap-error", "Reap() failed: %v", err)
						}
					}
				}
			}))
		case strings.HasPrefix(name, "r"):
			tasks = append(tasks, reader(name, ops))
		}
	}

	allDone := func() bool {
		for _, t := range tasks {
			if !t.Done() {
				return false
			}
		}
		return true
	}
	quiet := func() bool { return allDone() && s.Enabled() == 0 }
	s.RunUntil(quiet)

	// ---------------------------------------------------------------- end game
	// Streams left open are stalled for good. With an idle timeout they must be
	// force-closed so that reaping can proceed; without one the harness closes
	// them. Either way the read lock must be free afterwards.
	if !c.Failed() && !s.Capped {
		if timeout > 0 {
			for i := 0; i < 3; i++ {
				s.Tick(timeout + time.Millisecond)
				s.RunUntil(func() bool { return s.Enabled() == 0 })
			}
		} else {
			for _, st := range streams {
				if st.closes == 0 {
					st.closes++
					st.rc.Close()
				}
			}
			s.RunUntil(func() bool { return s.Enabled() == 0 })
		}
		stalled := 0
		for _, st := range streams {
			if st.closes == 0 {
				stalled++
			}
		}
		if !c.Failed() && !s.Capped {
			if _, _, err := str.Reap(); err != nil {
				if strings.Contains(err.Error(), "MSRW conflict") {
					if timeout > 0 {
						c.Violate("stalled-stream-blocks-reap", "%d streams were left open and idle; %s (3x the idle timeout %s) later Reap() is still refused: %v", stalled, 3*(timeout+time.Millisecond), timeout, err)
					} else {
						c.Violate("hold-not-released", "every stream has been closed, yet Reap() is refused: %v", err)
					}
				} else {
					c.Violate("reap-error", "final Reap() failed: %v", err)
				}
			} else if stalled > 0 {
				c.Probe("reap_after_stalled_streams_timed_out")
			}
		}
		// closing (again) whatever is left must neither fail nor release a second time
		for _, st := range streams {
			if st.closes < 2 {
				st.closes++
				st.rc.Close()
			}
		}
		s.RunUntil(func() bool { return s.Enabled() == 0 })
		if !c.Failed() && !s.Capped {
			if _, _, err := str.Reap(); err != nil {
				c.Violate("hold-not-released", "after closing every stream Reap() is refused: %v", err)
			}
		}
	}
	s.Close()
	for _, st := range streams {
		st.rc.Close()
	}
	done := make(chan struct{})
	go func() { str.Close(); close(done) }()
	select {
	case <-done:
	case <-time.After(time.Minute):
		if !c.Failed() {
			c.Violate("store-close-hangs", "snapshot.Store.Close did not return: the reaper goroutine is stuck waiting for the write lock")
		}
	}
	live.Close()
	if s.Capped && !c.Failed() {
		c.Res.Verdict = core.Capped
	}
	c.Res.Trivial = len(streams) == 0
	c.Sig(fmt.Sprintf("%d/%d", len(streams), nStaging))
}

func init() {
	core.Register(&core.Prop{ID: "C11", Bubble: true, Gen: c11Gen, Run: c11Run})
}
