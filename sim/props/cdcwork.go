package props

// Shared by C25 and C27: the generated write workload over tables of mixed
// column types, and the shadow model that says which row changes each
// committed request implies (op, table, row ids, before/after values), in order,
// grouped per commit.
//
// The shadow is an independent SQLite database owned by the harness (its own
// connection through database/sql, never rqlite's handle). For every statement
// it reads the rows the statement is about to touch (the statement shapes are
// generated here, so the touched set is "rows matching the WHERE clause, in
// rowid order" or "the VALUES rows, in order"), executes the statement and reads
// the same rows back: before/after images are literally the row contents before
// and after the change, which is what the property demands of an event.

import (
	"context"
	"database/sql"
	"encoding/json"
	"fmt"
	"os"
	"path/filepath"
	"regexp"
	"sort"
	"strconv"
	"strings"
	"sync"

	sqlite3 "github.com/mattn/go-sqlite3"
	"github.com/rqlite/rqlite/v10/command/proto"
	"verifsim/core"
)

// ---------------------------------------------------------------- scenario pieces

type cdcVal struct {
	K string  `json:"k"` // i r s b n
	I int64   `json:"i,omitempty"`
	R float64 `json:"r,omitempty"`
	S string  `json:"s,omitempty"`
	B []byte  `json:"b,omitempty"`
}

type cdcStmt struct {
	Q string   `json:"q"`
	P []cdcVal `json:"p,omitempty"`
}

func (v cdcVal) param() *proto.Parameter {
	switch v.K {
	case "i":
		return &proto.Parameter{Value: &proto.Parameter_I{I: v.I}}
	case "r":
		return &proto.Parameter{Value: &proto.Parameter_D{D: v.R}}
	case "s":
		return &proto.Parameter{Value: &proto.Parameter_S{S: v.S}}
	case "b":
		b := v.B
		if b == nil {
			b = []byte{}
		}
		return &proto.Parameter{Value: &proto.Parameter_Y{Y: b}}
	}
	return &proto.Parameter{}
}

func (v cdcVal) goValue() any {
	switch v.K {
	case "i":
		return v.I
	case "r":
		return v.R
	case "s":
		return v.S
	case "b":
		if v.B == nil {
			return []byte{}
		}
		return v.B
	}
	return nil
}

func cdcRequest(stmts []cdcStmt, tx bool) *proto.Request {
	r := &proto.Request{Transaction: tx}
	for _, s := range stmts {
		st := &proto.Statement{Sql: s.Q}
		for _, p := range s.P {
			st.Parameters = append(st.Parameters, p.param())
		}
		r.Statements = append(r.Statements, st)
	}
	return r
}

// The schema: a rowid-alias table with one column per affinity plus a UNIQUE
// column (source of mid-statement constraint failures), a plain rowid table
// without alias, and an AUTOINCREMENT table (writes sqlite_sequence, which must
// never show up in events).
var cdcSchema = []string{
	`CREATE TABLE items (id INTEGER PRIMARY KEY, i INTEGER, r REAL, s TEXT, b BLOB, u TEXT UNIQUE, n)`,
	`CREATE TABLE logs (k TEXT, v NUMERIC, note TEXT)`,
	`CREATE TABLE seqd (id INTEGER PRIMARY KEY AUTOINCREMENT, x, y TEXT)`,
}

var cdcTables = []string{"items", "logs", "seqd"}

// table filters a run may use ("" = none). Go regexp, unanchored match.
var cdcFilters = []string{"", "", "^items$", "^(items|seqd)$", "log", "s$"}

// cdcGenState is what the generator remembers about the rows it has (probably)
// created, so that predicates hit existing rows most of the time.
type cdcGenState struct {
	r      *core.Rand
	ids    map[string][]int64 // table -> rowids believed present
	nextID map[string]int64
	uNext  int
	uUsed  []string
}

func cdcNewGenState(r *core.Rand) *cdcGenState {
	return &cdcGenState{r: r, ids: map[string][]int64{}, nextID: map[string]int64{"items": 1, "logs": 1, "seqd": 1}}
}

func (g *cdcGenState) val(aff string) cdcVal {
	r := g.r
	if r.Bool(0.12) {
		return cdcVal{K: "n"}
	}
	ints := []int64{0, 1, -1, 7, 42, 255, -32768, 2147483648, 9007199254740993, -9223372036854775807, 9223372036854775807}
	reals := []float64{0.5, -1.5, 2.0, 3.25, 1e300, -2.5e-7, 100.0, 1234567.875}
	texts := []string{"", "a", "hello world", "it's", "42", "3.5", "ünï©ødé ✓", "line\nbreak", `q"uote`, "NULL", " 7 "}
	pick := func() cdcVal {
		switch r.Intn(4) {
		case 0:
			if r.Bool(0.5) {
				return cdcVal{K: "i", I: ints[r.Intn(len(ints))]}
			}
			return cdcVal{K: "i", I: int64(r.Range(-50, 50))}
		case 1:
			return cdcVal{K: "r", R: reals[r.Intn(len(reals))]}
		case 2:
			return cdcVal{K: "s", S: texts[r.Intn(len(texts))]}
		default:
			if r.Bool(0.1) {
				return cdcVal{K: "b", B: []byte{}}
			}
			return cdcVal{K: "b", B: r.Bytes(r.Range(1, 24))}
		}
	}
	// mostly a value of the column's own class, sometimes any class (affinity conversions)
	if r.Bool(0.3) {
		return pick()
	}
	switch aff {
	case "i":
		if r.Bool(0.5) {
			return cdcVal{K: "i", I: ints[r.Intn(len(ints))]}
		}
		return cdcVal{K: "i", I: int64(r.Range(-50, 50))}
	case "r":
		return cdcVal{K: "r", R: reals[r.Intn(len(reals))]}
	case "s":
		return cdcVal{K: "s", S: texts[r.Intn(len(texts))]}
	case "b":
		if r.Bool(0.1) {
			return cdcVal{K: "b", B: []byte{}}
		}
		return cdcVal{K: "b", B: r.Bytes(r.Range(1, 24))}
	}
	return pick()
}

func (g *cdcGenState) uval(fresh bool) cdcVal {
	if !fresh && len(g.uUsed) > 0 {
		return cdcVal{K: "s", S: g.uUsed[g.r.Intn(len(g.uUsed))]}
	}
	g.uNext++
	u := fmt.Sprintf("u%d", g.uNext)
	g.uUsed = append(g.uUsed, u)
	return cdcVal{K: "s", S: u}
}

func (g *cdcGenState) someID(t string) int64 {
	l := g.ids[t]
	if len(l) == 0 || g.r.Bool(0.1) {
		return int64(g.r.Range(1, 12))
	}
	return l[g.r.Intn(len(l))]
}

func (g *cdcGenState) drop(t string, id int64) {
	l := g.ids[t]
	for i, x := range l {
		if x == id {
			g.ids[t] = append(l[:i:i], l[i+1:]...)
			return
		}
	}
}

// pred returns a WHERE clause (literal, no parameters) over table t.
func (g *cdcGenState) pred(t string) string {
	r := g.r
	idcol := "rowid"
	if t != "logs" {
		idcol = "id"
	}
	switch r.Intn(7) {
	case 0, 1:
		return fmt.Sprintf("%s = %d", idcol, g.someID(t))
	case 2:
		return fmt.Sprintf("%s IN (%d, %d, %d)", idcol, g.someID(t), g.someID(t), g.someID(t))
	case 3:
		return fmt.Sprintf("%s >= %d", idcol, g.someID(t))
	case 4:
		return fmt.Sprintf("%s %% %d = %d", idcol, r.Range(2, 3), r.Intn(2))
	case 5:
		switch t {
		case "items":
			return []string{"i > 0", "r < 3.0", "s IS NULL", "typeof(n) = 'text'", "b IS NOT NULL", "i IS NULL OR r IS NULL"}[r.Intn(6)]
		case "logs":
			return []string{"v > 0", "note IS NULL", "typeof(v) = 'real'", "k >= 'a'"}[r.Intn(4)]
		default:
			return []string{"x IS NULL", "typeof(x) = 'integer'", "y >= ''"}[r.Intn(3)]
		}
	default:
		return fmt.Sprintf("%s <= %d", idcol, g.someID(t))
	}
}

// stmt generates one data-changing statement.
func (g *cdcGenState) stmt() cdcStmt {
	r := g.r
	t := cdcTables[r.Weighted([]int{6, 3, 2})]
	kind := r.Weighted([]int{40, 30, 12, 6, 6, 4, 2}) // ins upd del replace ins-dup upd-dup del-all
	switch kind {
	case 0, 4: // INSERT of 1..4 rows; kind 4 (items only): one of the later rows repeats a UNIQUE value
		rows := 1
		if r.Bool(0.4) {
			rows = r.Range(2, 4)
		}
		if kind == 4 {
			t = "items"
			rows = r.Range(2, 4)
		}
		explicit := t != "logs" && r.Bool(0.3)
		var sb strings.Builder
		var ps []cdcVal
		switch t {
		case "items":
			if explicit {
				sb.WriteString("INSERT INTO items(id, i, r, s, b, u, n) VALUES ")
			} else {
				sb.WriteString("INSERT INTO items(i, r, s, b, u, n) VALUES ")
			}
		case "logs":
			sb.WriteString("INSERT INTO logs(k, v, note) VALUES ")
		default:
			if explicit {
				sb.WriteString("INSERT INTO seqd(id, x, y) VALUES ")
			} else {
				sb.WriteString("INSERT INTO seqd(x, y) VALUES ")
			}
		}
		base := g.nextID[t]
		if explicit {
			base += int64(r.Range(0, 5)) // ascending explicit ids, possibly leaving gaps
		}
		dupAt := -1
		if kind == 4 {
			dupAt = r.Range(1, rows-1)
		}
		for j := 0; j < rows; j++ {
			if j > 0 {
				sb.WriteString(", ")
			}
			id := base + int64(j)
			switch t {
			case "items":
				if explicit {
					fmt.Fprintf(&sb, "(%d, ?, ?, ?, ?, ?, ?)", id)
				} else {
					sb.WriteString("(?, ?, ?, ?, ?, ?)")
				}
				u := g.uval(j != dupAt)
				if r.Bool(0.15) && j != dupAt {
					u = cdcVal{K: "n"} // NULLs never conflict
				}
				ps = append(ps, g.val("i"), g.val("r"), g.val("s"), g.val("b"), u, g.val(""))
			case "logs":
				sb.WriteString("(?, ?, ?)")
				ps = append(ps, g.val("s"), g.val("r"), g.val("s"))
			default:
				if explicit {
					fmt.Fprintf(&sb, "(%d, ?, ?)", id)
				} else {
					sb.WriteString("(?, ?)")
				}
				ps = append(ps, g.val(""), g.val("s"))
			}
			if kind == 0 {
				g.ids[t] = append(g.ids[t], id)
			}
		}
		if kind == 0 {
			g.nextID[t] = base + int64(rows)
		}
		return cdcStmt{Q: sb.String(), P: ps}
	case 1, 5: // UPDATE; kind 5 (items): sets the UNIQUE column of several rows to one value
		if kind == 5 {
			return cdcStmt{Q: fmt.Sprintf("UPDATE items SET u = ?, i = 99 WHERE id >= %d", g.someID("items")), P: []cdcVal{g.uval(true)}}
		}
		switch t {
		case "items":
			if r.Bool(0.12) { // move a row: the row id itself changes
				from := g.someID(t)
				to := g.nextID[t] + int64(r.Range(0, 3))
				g.nextID[t] = to + 1
				g.drop(t, from)
				g.ids[t] = append(g.ids[t], to)
				return cdcStmt{Q: fmt.Sprintf("UPDATE items SET id = %d, s = ? WHERE id = %d", to, from), P: []cdcVal{g.val("s")}}
			}
			set := [][2]string{{"i = ?", "i"}, {"r = ?", "r"}, {"s = ?", "s"}, {"b = ?", "b"}, {"n = ?", ""}, {"i = ?, s = ?", "is"}, {"i = i + 1", "-"}, {"s = typeof(s) || '!' || id", "-"}, {"r = NULL", "-"}}[r.Intn(9)]
			var ps []cdcVal
			switch set[1] {
			case "-":
			case "is":
				ps = []cdcVal{g.val("i"), g.val("s")}
			default:
				ps = []cdcVal{g.val(set[1])}
			}
			return cdcStmt{Q: "UPDATE items SET " + set[0] + " WHERE " + g.pred(t), P: ps}
		case "logs":
			set := [][2]string{{"v = ?", "r"}, {"note = ?", "s"}, {"k = ?, v = ?", "sr"}, {"v = v + 1", "-"}}[r.Intn(4)]
			var ps []cdcVal
			switch set[1] {
			case "-":
			case "sr":
				ps = []cdcVal{g.val("s"), g.val("r")}
			default:
				ps = []cdcVal{g.val(set[1])}
			}
			return cdcStmt{Q: "UPDATE logs SET " + set[0] + " WHERE " + g.pred(t), P: ps}
		default:
			return cdcStmt{Q: "UPDATE seqd SET x = ? WHERE " + g.pred(t), P: []cdcVal{g.val("")}}
		}
	case 2:
		p := g.pred(t)
		return cdcStmt{Q: "DELETE FROM " + t + " WHERE " + p}
	case 3: // REPLACE of one row by explicit id (tables with an alias only)
		if t == "logs" {
			t = "seqd"
		}
		id := g.someID(t)
		if t == "items" {
			return cdcStmt{Q: fmt.Sprintf("INSERT OR REPLACE INTO items(id, i, r, s, b, u, n) VALUES (%d, ?, ?, ?, ?, NULL, ?)", id),
				P: []cdcVal{g.val("i"), g.val("r"), g.val("s"), g.val("b"), g.val("")}}
		}
		return cdcStmt{Q: fmt.Sprintf("INSERT OR REPLACE INTO seqd(id, x, y) VALUES (%d, ?, ?)", id), P: []cdcVal{g.val(""), g.val("s")}}
	default: // DELETE without WHERE
		g.ids[t] = nil
		return cdcStmt{Q: "DELETE FROM " + t}
	}
}

// request generates the statements of one request.
func (g *cdcGenState) request() (stmts []cdcStmt, tx bool) {
	n := 1
	if g.r.Bool(0.45) {
		n = g.r.Range(2, 4)
	}
	for i := 0; i < n; i++ {
		stmts = append(stmts, g.stmt())
	}
	return stmts, n > 1 && g.r.Bool(0.5) || n == 1 && g.r.Bool(0.15)
}

// loadImage builds the SQLite file a "load" operation installs: the schema
// plus a few rows derived from the seed.
func cdcLoadImage(dir string, seed uint64) ([]byte, error) {
	p := filepath.Join(dir, fmt.Sprintf("load-%d.sqlite", seed))
	os.Remove(p)
	db, err := sql.Open(cdcShadowDriverName(), "file:"+p)
	if err != nil {
		return nil, err
	}
	r := core.NewRand(seed)
	for _, s := range cdcSchema {
		if _, err := db.Exec(s); err != nil {
			db.Close()
			return nil, err
		}
	}
	for i := 0; i < r.Range(1, 6); i++ {
		if _, err := db.Exec(`INSERT INTO items(id, i, s, u) VALUES (?, ?, ?, ?)`, 100+i*3, r.Range(-5, 5), fmt.Sprintf("loaded-%d", i), fmt.Sprintf("L%d-%d", seed%1000, i)); err != nil {
			db.Close()
			return nil, err
		}
	}
	for i := 0; i < r.Range(0, 3); i++ {
		if _, err := db.Exec(`INSERT INTO logs(k, v) VALUES (?, ?)`, fmt.Sprintf("lk%d", i), float64(i)+0.5); err != nil {
			db.Close()
			return nil, err
		}
	}
	db.Close()
	b, err := os.ReadFile(p)
	os.Remove(p)
	return b, err
}

// ---------------------------------------------------------------- expected events

// cdcXEvent is one row change in canonical form. Before/After are the JSON text of
// the column-name -> value object ("" = absent).
type cdcXEvent struct {
	Op     string
	Table  string
	Old    int64
	New    int64
	Before string
	After  string
	Err    string
}

func (e cdcXEvent) ident() string {
	return fmt.Sprintf("%s %s old=%d new=%d", e.Op, e.Table, e.Old, e.New)
}
func (e cdcXEvent) String() string {
	s := e.ident()
	if e.Before != "" {
		s += " before=" + e.Before
	}
	if e.After != "" {
		s += " after=" + e.After
	}
	if e.Err != "" {
		s += " error=" + e.Err
	}
	return s
}

func cdcIdentsOf(evs []cdcXEvent) string {
	var p []string
	for _, e := range evs {
		p = append(p, e.ident())
	}
	return strings.Join(p, "; ")
}

// cdcRowJSON renders a row image the way a JSON consumer sees it: object keyed by
// column name; blobs base64, NULL null, numbers in Go's JSON number format.
func cdcRowJSON(cols []string, vals []any) string {
	m := make(map[string]any, len(cols))
	for i, c := range cols {
		m[c] = vals[i]
	}
	b, err := json.Marshal(m)
	if err != nil {
		return "!marshal:" + err.Error()
	}
	// same canonical form as cdcDecodeEnvelope: decode with exact numbers, re-encode
	d := json.NewDecoder(strings.NewReader(string(b)))
	d.UseNumber()
	var back map[string]any
	if err := d.Decode(&back); err != nil {
		return "!decode:" + err.Error()
	}
	out, _ := json.Marshal(back)
	return string(out)
}

// ---------------------------------------------------------------- shadow database

var cdcShadowOnce sync.Once

func cdcShadowDriverName() string {
	cdcShadowOnce.Do(func() { sql.Register("verif-cdc-shadow", &sqlite3.SQLiteDriver{}) })
	return "verif-cdc-shadow"
}

type cdcShadow struct {
	path    string
	db      *sql.DB
	filter  *regexp.Regexp
	idsOnly bool
	cols    map[string][]string
}

func cdcNewShadow(dir, filter string, idsOnly bool) (*cdcShadow, error) {
	sh := &cdcShadow{path: filepath.Join(dir, "shadow.sqlite"), idsOnly: idsOnly}
	if filter != "" {
		sh.filter = regexp.MustCompile(filter)
	}
	os.Remove(sh.path)
	return sh, sh.open()
}

func (sh *cdcShadow) open() error {
	db, err := sql.Open(cdcShadowDriverName(), "file:"+sh.path)
	if err != nil {
		return err
	}
	db.SetMaxOpenConns(1)
	sh.db = db
	sh.cols = map[string][]string{}
	return nil
}

func (sh *cdcShadow) Close() {
	if sh.db != nil {
		sh.db.Close()
		sh.db = nil
	}
}

// Load replaces the whole shadow database by the given SQLite file image.
func (sh *cdcShadow) Load(img []byte) error {
	sh.Close()
	os.Remove(sh.path + "-wal")
	os.Remove(sh.path + "-journal")
	if err := os.WriteFile(sh.path, img, 0o644); err != nil {
		return err
	}
	return sh.open()
}

type cdcExecer interface {
	ExecContext(ctx context.Context, q string, args ...any) (sql.Result, error)
	QueryContext(ctx context.Context, q string, args ...any) (*sql.Rows, error)
}

func (sh *cdcShadow) columns(x cdcExecer, t string) ([]string, error) {
	if c, ok := sh.cols[t]; ok {
		return c, nil
	}
	rows, err := x.QueryContext(context.Background(), fmt.Sprintf(`PRAGMA table_info("%s")`, t))
	if err != nil {
		return nil, err
	}
	defer rows.Close()
	var cols []string
	for rows.Next() {
		var cid int
		var name, typ string
		var notnull, pk int
		var dflt any
		if err := rows.Scan(&cid, &name, &typ, &notnull, &dflt, &pk); err != nil {
			return nil, err
		}
		cols = append(cols, name)
	}
	if len(cols) == 0 {
		return nil, fmt.Errorf("no such table %s", t)
	}
	sh.cols[t] = cols
	return cols, nil
}

// dump reads every row of t: rowid -> typed values (int64, float64, string,
// []byte, nil) decided by typeof(), independent of driver type guessing.
func (sh *cdcShadow) dump(x cdcExecer, t string) (map[int64][]any, error) {
	cols, err := sh.columns(x, t)
	if err != nil {
		return nil, err
	}
	var sel []string
	for _, c := range cols {
		sel = append(sel, fmt.Sprintf(`typeof("%s"), "%s"`, c, c))
	}
	rows, err := x.QueryContext(context.Background(), fmt.Sprintf(`SELECT rowid, %s FROM "%s"`, strings.Join(sel, ", "), t))
	if err != nil {
		return nil, err
	}
	defer rows.Close()
	out := map[int64][]any{}
	for rows.Next() {
		var rid int64
		dest := make([]any, 1+2*len(cols))
		dest[0] = &rid
		raw := make([]any, 2*len(cols))
		for i := range raw {
			dest[1+i] = &raw[i]
		}
		if err := rows.Scan(dest...); err != nil {
			return nil, err
		}
		vals := make([]any, len(cols))
		for i := range cols {
			ty := fmt.Sprint(cdcAsString(raw[2*i]))
			v := raw[2*i+1]
			switch ty {
			case "null":
				vals[i] = nil
			case "integer":
				switch n := v.(type) {
				case int64:
					vals[i] = n
				default:
					vals[i], _ = strconv.ParseInt(cdcAsString(v), 10, 64)
				}
			case "real":
				switch n := v.(type) {
				case float64:
					vals[i] = n
				case int64:
					vals[i] = float64(n)
				default:
					vals[i], _ = strconv.ParseFloat(cdcAsString(v), 64)
				}
			case "text":
				vals[i] = cdcAsString(v)
			case "blob":
				switch b := v.(type) {
				case []byte:
					vals[i] = append([]byte{}, b...)
				case string:
					vals[i] = []byte(b)
				default:
					vals[i] = []byte{}
				}
			}
		}
		out[rid] = vals
	}
	return out, rows.Err()
}

func cdcAsString(v any) string {
	switch s := v.(type) {
	case string:
		return s
	case []byte:
		return string(s)
	}
	return fmt.Sprint(v)
}

var (
	cdcReInsert  = regexp.MustCompile(`^INSERT INTO (\w+)\(`)
	cdcReReplace = regexp.MustCompile(`^INSERT OR REPLACE INTO (\w+)\(id, [^)]*\) VALUES \((-?\d+),`)
	cdcReUpdate  = regexp.MustCompile(`^UPDATE (\w+) SET (.*?) WHERE (.*)$`)
	cdcReDelete  = regexp.MustCompile(`^DELETE FROM (\w+)(?: WHERE (.*))?$`)
	cdcReSetID   = regexp.MustCompile(`^id = (-?\d+)\b`)
)

func cdcSortedKeys(m map[int64][]any) []int64 {
	ks := make([]int64, 0, len(m))
	for k := range m {
		ks = append(ks, k)
	}
	sort.Slice(ks, func(i, j int) bool { return ks[i] < ks[j] })
	return ks
}

// applyStmt executes one statement on the shadow and returns the row changes
// it made, in order. A failing statement changes nothing (SQLite rolls the
// statement back) and yields no changes.
func (sh *cdcShadow) applyStmt(x cdcExecer, st *proto.Statement) ([]cdcXEvent, error) {
	q := st.Sql
	var args []any
	for _, p := range st.Parameters {
		switch w := p.GetValue().(type) {
		case *proto.Parameter_I:
			args = append(args, w.I)
		case *proto.Parameter_D:
			args = append(args, w.D)
		case *proto.Parameter_S:
			args = append(args, w.S)
		case *proto.Parameter_Y:
			b := w.Y
			if b == nil {
				b = []byte{}
			}
			args = append(args, b)
		case *proto.Parameter_B:
			args = append(args, w.B)
		default:
			args = append(args, nil)
		}
	}
	ctx := context.Background()
	var table, kind, where string
	var replaceID, setID int64
	hasSetID := false
	switch {
	case cdcReReplace.MatchString(q):
		m := cdcReReplace.FindStringSubmatch(q)
		table, kind = m[1], "replace"
		replaceID, _ = strconv.ParseInt(m[2], 10, 64)
	case cdcReInsert.MatchString(q):
		table, kind = cdcReInsert.FindStringSubmatch(q)[1], "insert"
	case cdcReUpdate.MatchString(q):
		m := cdcReUpdate.FindStringSubmatch(q)
		table, kind, where = m[1], "update", m[3]
		if s := cdcReSetID.FindStringSubmatch(m[2]); s != nil {
			hasSetID = true
			setID, _ = strconv.ParseInt(s[1], 10, 64)
		}
	case cdcReDelete.MatchString(q):
		m := cdcReDelete.FindStringSubmatch(q)
		table, kind, where = m[1], "delete", m[2]
	default:
		// schema statements and anything else: executed, implies no row change
		_, err := x.ExecContext(ctx, q, args...)
		sh.cols = map[string][]string{}
		return nil, err
	}
	cols, err := sh.columns(x, table)
	if err != nil {
		// table does not exist: the statement fails in rqlite as well
		_, err2 := x.ExecContext(ctx, q, args...)
		if err2 == nil {
			return nil, fmt.Errorf("shadow: %v but statement succeeded", err)
		}
		return nil, err2
	}
	before, err := sh.dump(x, table)
	if err != nil {
		return nil, err
	}
	var hits []int64
	if kind == "update" || kind == "delete" {
		hq := fmt.Sprintf(`SELECT rowid FROM "%s"`, table)
		if where != "" {
			hq += " WHERE " + where
		}
		rows, err := x.QueryContext(ctx, hq+" ORDER BY rowid")
		if err != nil {
			return nil, err
		}
		for rows.Next() {
			var id int64
			rows.Scan(&id)
			hits = append(hits, id)
		}
		rows.Close()
	}
	if _, err := x.ExecContext(ctx, q, args...); err != nil {
		return nil, err // statement rolled back by SQLite: no row changed
	}
	after, err := sh.dump(x, table)
	if err != nil {
		return nil, err
	}
	if sh.filter != nil && !sh.filter.MatchString(table) {
		return nil, nil
	}
	img := func(m map[int64][]any, id int64) string {
		if sh.idsOnly {
			return ""
		}
		return cdcRowJSON(cols, m[id])
	}
	var evs []cdcXEvent
	switch kind {
	case "insert":
		for _, id := range cdcSortedKeys(after) {
			if _, was := before[id]; !was {
				evs = append(evs, cdcXEvent{Op: "INSERT", Table: table, New: id, After: img(after, id)})
			}
		}
	case "replace":
		if _, was := before[replaceID]; was {
			evs = append(evs, cdcXEvent{Op: "DELETE", Table: table, Old: replaceID, Before: img(before, replaceID)})
		}
		evs = append(evs, cdcXEvent{Op: "INSERT", Table: table, New: replaceID, After: img(after, replaceID)})
	case "update":
		for _, id := range hits {
			nid := id
			if hasSetID {
				nid = setID
			}
			evs = append(evs, cdcXEvent{Op: "UPDATE", Table: table, Old: id, New: nid, Before: img(before, id), After: img(after, nid)})
		}
	case "delete":
		for _, id := range hits {
			evs = append(evs, cdcXEvent{Op: "DELETE", Table: table, Old: id, Before: img(before, id)})
		}
	}
	return evs, nil
}

// cdcXCommit is the set of row changes one commit made.
type cdcXCommit struct {
	Events       []cdcXEvent
	Stmt         int // position of the committing statement in the request (transaction: the last one)
	FailedBefore int // statements of the same request that failed (and were rolled back) before this commit
}

// Apply runs a whole request with rqlite's request semantics (without
// transaction: every statement commits on its own and later statements still
// run after a failure; with transaction: all or nothing, stop at the first
// failure) and returns the row changes grouped per commit, in commit order.
// Commits that changed no (matching) row produce no group.
func (sh *cdcShadow) Apply(req *proto.Request) (groups []cdcXCommit, stmtErrs int, err error) {
	ctx := context.Background()
	conn, err := sh.db.Conn(ctx)
	if err != nil {
		return nil, 0, err
	}
	defer conn.Close()
	if req.Transaction {
		tx, err := conn.BeginTx(ctx, nil)
		if err != nil {
			return nil, 0, err
		}
		var all []cdcXEvent
		for _, st := range req.Statements {
			if st.Sql == "" {
				continue
			}
			evs, err := sh.applyStmt(tx, st)
			if err != nil {
				tx.Rollback()
				sh.cols = map[string][]string{}
				return nil, 1, nil
			}
			all = append(all, evs...)
		}
		if err := tx.Commit(); err != nil {
			return nil, 0, err
		}
		if len(all) > 0 {
			groups = append(groups, cdcXCommit{Events: all, Stmt: len(req.Statements) - 1})
		}
		return groups, 0, nil
	}
	for i, st := range req.Statements {
		if st.Sql == "" {
			continue
		}
		evs, err := sh.applyStmt(conn, st)
		if err != nil {
			stmtErrs++
			continue
		}
		if len(evs) > 0 {
			groups = append(groups, cdcXCommit{Events: evs, Stmt: i, FailedBefore: stmtErrs})
		}
	}
	return groups, stmtErrs, nil
}

// ---------------------------------------------------------------- delivered payloads

type cdcDMsg struct {
	Index  uint64
	Events []cdcXEvent
}

// cdcDecodeEnvelope parses the JSON a CDC endpoint receives into canonical events.
func cdcDecodeEnvelope(b []byte) (node string, msgs []cdcDMsg, err error) {
	var env struct {
		NodeID  string `json:"node_id"`
		Payload []struct {
			Index  uint64 `json:"index"`
			Events []struct {
				Op       string          `json:"op"`
				Table    string          `json:"table"`
				NewRowID int64           `json:"new_row_id"`
				OldRowID int64           `json:"old_row_id"`
				Before   json.RawMessage `json:"before"`
				After    json.RawMessage `json:"after"`
				Error    string          `json:"error"`
			} `json:"events"`
		} `json:"payload"`
	}
	dec := json.NewDecoder(strings.NewReader(string(b)))
	dec.UseNumber()
	if err := dec.Decode(&env); err != nil {
		return "", nil, err
	}
	canon := func(raw json.RawMessage) (string, error) {
		if len(raw) == 0 || string(raw) == "null" {
			return "", nil
		}
		d := json.NewDecoder(strings.NewReader(string(raw)))
		d.UseNumber()
		var m map[string]any
		if err := d.Decode(&m); err != nil {
			return "", err
		}
		out, err := json.Marshal(m) // sorted keys, numbers kept verbatim
		return string(out), err
	}
	for _, p := range env.Payload {
		m := cdcDMsg{Index: p.Index}
		for _, e := range p.Events {
			x := cdcXEvent{Op: e.Op, Table: e.Table, Old: e.OldRowID, New: e.NewRowID, Err: e.Error}
			if x.Before, err = canon(e.Before); err != nil {
				return "", nil, err
			}
			if x.After, err = canon(e.After); err != nil {
				return "", nil, err
			}
			m.Events = append(m.Events, x)
		}
		msgs = append(msgs, m)
	}
	return env.NodeID, msgs, nil
}

// cdcIdentSubsequence reports whether the identities of want appear, in order,
// within got.
func cdcIdentSubsequence(want, got []cdcXEvent) bool {
	j := 0
	for _, g := range got {
		if j < len(want) && want[j].ident() == g.ident() {
			j++
		}
	}
	return j == len(want)
}

func cdcSameIdents(a, b []cdcXEvent) bool {
	if len(a) != len(b) {
		return false
	}
	for i := range a {
		if a[i].ident() != b[i].ident() {
			return false
		}
	}
	return true
}

func cdcSameEvents(a, b []cdcXEvent) (bool, string) {
	if len(a) != len(b) {
		return false, fmt.Sprintf("%d events vs %d", len(a), len(b))
	}
	for i := range a {
		if a[i] != b[i] {
			return false, fmt.Sprintf("event %d: got {%s} want {%s}", i, a[i], b[i])
		}
	}
	return true, ""
}
