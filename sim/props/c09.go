package props

import (
	"bytes"
	"encoding/json"
	"fmt"
	"io"
	"path/filepath"
	"strings"
	"time"

	"github.com/rqlite/rqlite/v10/snapshot"
	"verifsim/core"
	"verifsim/crash"
	"verifsim/sim"
	"verifsim/snapsim"
)

// C09: the snapshot catalog stays well-formed and full-needed is honoured.
// Engine E2: seeded operation sequences on the real snapshot.Store (create /
// write in pieces / close / cancel / truncated or corrupted payloads / injected
// I/O errors / crash images inside Sink.Close, SetDueNext(Full), Reap, reopen),
// compared after every operation with an abstract catalog model.

type c09Op struct {
	K    string `json:"k"`              // snap | need_full | reap | reopen
	Kind string `json:"kind,omitempty"` // snap: due (what DueNext asks for) | full | install | inc (incremental regardless of DueNext)
	N    int    `json:"n,omitempty"`    // incremental: WAL files wanted in the snapshot
	End  string `json:"end,omitempty"`  // close | cancel | trunc | flip | trail | garbage | err | crash
	Fin  string `json:"fin,omitempty"`  // how a sink whose Write failed is finished: cancel | close | close_cancel | close_close | cancel_close
	At   int    `json:"at,omitempty"`   // err/crash: which hook occurrence inside Close; trunc/flip/cancel/trail/garbage: position/length selector
	W    int    `json:"w,omitempty"`    // statements written before
}

type c09Scenario struct {
	Seed uint64  `json:"seed"`
	Ops  []c09Op `json:"ops"`
}

func c09Gen(r *core.Rand, tier string) any {
	sc := &c09Scenario{Seed: r.Uint64()}
	n := r.Range(8, 26)
	crashes := 0
	for i := 0; i < n; i++ {
		x := r.Intn(100)
		switch {
		case x < 70 || i == 0:
			op := c09Op{K: "snap", W: r.Range(1, 5), N: 1 + r.Weighted([]int{4, 2, 1}), At: r.Intn(1000)}
			op.Kind = []string{"due", "due", "due", "due", "inc", "inc", "full", "install"}[r.Intn(8)]
			y := r.Intn(100)
			switch {
			case y < 50:
				op.End = "close"
			case y < 60:
				op.End = "cancel"
			case y < 66:
				op.End = "trunc"
			case y < 72:
				op.End = "flip"
			case y < 76:
				op.End = "trail"
			case y < 79:
				op.End = "garbage"
			case y < 87:
				op.End = "err"
			default:
				if crashes < 3 {
					op.End = "crash"
					crashes++
				} else {
					op.End = "close"
				}
			}
			op.Fin = c09Fins[r.Intn(len(c09Fins))]
			sc.Ops = append(sc.Ops, op)
		case x < 80:
			sc.Ops = append(sc.Ops, c09Op{K: "need_full"})
		case x < 90:
			sc.Ops = append(sc.Ops, c09Op{K: "reap"})
		default:
			sc.Ops = append(sc.Ops, c09Op{K: "reopen"})
		}
	}
	return sc
}

// ways to finish a sink whose Write returned an error (raft cancels; the sink
// itself must be safe whichever way it is finished)
var c09Fins = []string{"cancel", "close", "close_cancel", "close_close", "cancel_close"}

// abstract catalog
type c09Snap struct {
	index, term uint64
	full        bool
	nw          int // WAL files in the snapshot's own directory
	dump        string
}

type c09Model struct {
	snaps      []c09Snap // oldest first
	fullNeeded bool
}

func (m *c09Model) chainWALs(i int) int {
	n := 0
	for j := i; j >= 0; j-- {
		n += m.snaps[j].nw
		if m.snaps[j].full {
			break
		}
	}
	return n
}

func (m *c09Model) dueFull() bool { return m.fullNeeded || len(m.snaps) == 0 }

func (m *c09Model) reap() {
	if len(m.snaps) <= 1 {
		return
	}
	f := -1
	for i := len(m.snaps) - 1; i >= 0; i-- {
		if m.snaps[i].full {
			f = i
			break
		}
	}
	if f < 0 {
		return
	}
	last := m.snaps[len(m.snaps)-1]
	if f == len(m.snaps)-1 && last.nw == 0 {
		m.snaps = []c09Snap{last}
		return
	}
	m.snaps = []c09Snap{{index: last.index, term: last.term, full: true, nw: 0, dump: last.dump}}
}

func c09Run(c *core.Ctx, raw json.RawMessage) {
	var sc c09Scenario
	if err := json.Unmarshal(raw, &sc); err != nil {
		panic(err)
	}
	c.Rng = core.NewRand(sc.Seed)
	rng := c.Rng
	root := filepath.Join(c.Dir, "raft", "wsnapshots")
	tmp := filepath.Join(c.Dir, "tmp")
	src, err := snapsim.NewSource(filepath.Join(c.Dir, "src"), rng.Fork(1))
	if err != nil {
		panic(err)
	}
	defer src.Close()
	st, err := snapsim.OpenStore(root)
	if err != nil {
		panic(err)
	}
	defer func() {
		if st != nil {
			st.Close()
		}
	}()
	m := &c09Model{}
	index, term := uint64(10), uint64(2)
	ckptDump := ""
	installs := 0

	scrub := func(err error) string { return snapsim.Scrub(c.Dir, err) }

	// verify compares the store with the model. deep: resolve every snapshot.
	verify := func(when string, deep bool) bool {
		all, err := st.ListAll()
		if err != nil {
			c.Violate("listall-failed", "%s: ListAll: %s; dir: %s", when, scrub(err), snapsim.Listing(root))
			return false
		}
		var got, want []string
		for _, mt := range all {
			got = append(got, fmt.Sprintf("%d/%d", mt.Index, mt.Term))
		}
		for i := len(m.snaps) - 1; i >= 0; i-- {
			want = append(want, fmt.Sprintf("%d/%d", m.snaps[i].index, m.snaps[i].term))
		}
		if strings.Join(got, " ") != strings.Join(want, " ") {
			c.Violate("catalog-differs", "%s: ListAll (newest first, index/term) = [%s], model = [%s]; dir: %s",
				when, strings.Join(got, " "), strings.Join(want, " "), snapsim.Listing(root))
			return false
		}
		one, err := st.List()
		if err != nil {
			c.Violate("list-failed", "%s: List: %s", when, scrub(err))
			return false
		}
		if (len(all) == 0 && len(one) != 0) || (len(all) > 0 && (len(one) != 1 || one[0].ID != all[0].ID)) {
			c.Violate("list-not-newest", "%s: List returned %d entries, not exactly the newest of ListAll", when, len(one))
			return false
		}
		due, err := st.DueNext()
		if err != nil {
			c.Violate("duenext-failed", "%s: DueNext: %s", when, scrub(err))
			return false
		}
		if due != snapshot.Full && m.dueFull() {
			c.Violate("full-needed-cleared", "%s: DueNext says incremental although a full snapshot is required (flag set: %v, snapshots: %d) and no snapshot was installed since; dir: %s",
				when, m.fullNeeded, len(m.snaps), snapsim.Listing(root))
			return false
		}
		if !deep {
			return true
		}
		for k, mt := range all {
			i := len(m.snaps) - 1 - k
			res, err := snapsim.Resolve(st, mt.ID, tmp)
			if err != nil {
				c.Violate("listed-unresolvable", "%s: listed snapshot %d/%d does not open/resolve: %s; dir: %s", when, mt.Index, mt.Term, scrub(err), snapsim.Listing(root))
				return false
			}
			if res.Meta.Index != mt.Index || res.Meta.Term != mt.Term {
				c.Violate("open-meta-differs", "%s: Open(%s) returned meta %d/%d, listed as %d/%d", when, mt.ID, res.Meta.Index, res.Meta.Term, mt.Index, mt.Term)
				return false
			}
			if res.NWALs != m.chainWALs(i) {
				c.Violate("chain-differs", "%s: snapshot %d/%d resolves to a database followed by %d WAL segments, model says %d; dir: %s",
					when, mt.Index, mt.Term, res.NWALs, m.chainWALs(i), snapsim.Listing(root))
				return false
			}
			if res.Dump != m.snaps[i].dump {
				c.Violate("content-differs", "%s: snapshot %d/%d does not resolve to the database it was taken from: %s; dir: %s",
					when, mt.Index, mt.Term, sim.FirstDiff(m.snaps[i].dump, res.Dump), snapsim.Listing(root))
				return false
			}
		}
		c.Probe("deep_verifications")
		return true
	}

	// after a crash the node rebuilds its database from the newest snapshot
	rebase := func() bool {
		if len(m.snaps) == 0 {
			src.ClearStaging()
			return true
		}
		all, err := st.List()
		if err != nil || len(all) != 1 {
			c.Violate("list-failed", "List after restart: %v", err)
			return false
		}
		if _, err := snapsim.Resolve(st, all[0].ID, tmp); err != nil {
			c.Violate("listed-unresolvable", "newest snapshot after restart: %s", scrub(err))
			return false
		}
		if err := src.Rebase(snapsim.RestoredPath(tmp)); err != nil {
			panic(err)
		}
		ckptDump = m.snaps[len(m.snaps)-1].dump // the rebuilt database is the newest snapshot
		return true
	}

	reopen := func(when string) bool {
		st.Close()
		st = nil
		s2, err := snapsim.OpenStore(root)
		if err != nil {
			c.Violate("open-failed", "%s: NewStore failed: %s; dir: %s", when, scrub(err), snapsim.Listing(root))
			return false
		}
		st = s2
		return true
	}

	for i, op := range sc.Ops {
		if c.Failed() {
			return
		}
		time.Sleep(time.Duration(rng.Range(2, 3000)) * time.Millisecond)
		when := fmt.Sprintf("op %d %s", i, op.K)
		switch op.K {
		case "need_full":
			if err := st.SetDueNext(snapshot.Full); err != nil {
				panic(err)
			}
			m.fullNeeded = true
			c.Log.Add("%s", when)
			c.Probe("set_full_needed")
			verify(when, false)
		case "reap":
			n, w, err := st.Reap()
			if err != nil {
				c.Violate("reap-failed", "%s: %s; dir: %s", when, scrub(err), snapsim.Listing(root))
				return
			}
			m.reap()
			c.Log.Add("%s reaped=%d wals=%d", when, n, w)
			if n > 0 || w > 0 {
				c.Probe("reap_did_work")
			}
			verify(when, true)
		case "reopen":
			if !reopen(when) {
				return
			}
			c.Log.Add("%s", when)
			c.Probe("reopen")
			verify(when, true)
		case "snap":
			c09Snapshot(c, op, i, &st, src, m, &index, &term, &ckptDump, &installs, root, verify, rebase, reopen)
		}
	}
	if !c.Failed() {
		verify("end", true)
	}
	c.Sig(fmt.Sprintf("%d snaps fn=%v", len(m.snaps), m.fullNeeded))
	if c.Res.Probes["sink_closed_ok"] == 0 {
		c.Res.Trivial = true
	}
}

func c09Snapshot(c *core.Ctx, op c09Op, i int, stp **snapshot.Store, src *snapsim.Source, m *c09Model,
	index, term *uint64, ckptDump *string, installs *int, root string,
	verify func(string, bool) bool, rebase func() bool, reopen func(string) bool) {
	st := *stp
	rng := c.Rng
	scrub := func(err error) string { return snapsim.Scrub(c.Dir, err) }
	due, err := st.DueNext()
	if err != nil {
		panic(err)
	}
	kind := op.Kind
	if kind == "due" || kind == "" {
		kind = "inc"
		if due == snapshot.Full {
			kind = "full"
		}
	}
	if kind == "install" && (!src.HasBase() || len(m.snaps) == 0) {
		kind = "full"
	}
	w := op.W
	if w < 1 {
		w = 1
	}
	if err := src.Write(w); err != nil {
		panic(err)
	}

	// prepare the stream the way the store would
	var rc io.ReadCloser
	snap := c09Snap{}
	switch kind {
	case "full":
		if rc, err = src.Full(); err != nil {
			panic(err)
		}
		if *ckptDump, err = src.Dump(); err != nil {
			panic(err)
		}
		snap = c09Snap{full: true, nw: 0, dump: *ckptDump}
	case "install":
		var n int
		*installs++
		if rc, n, err = src.InstallStreamer(filepath.Join(c.Dir, fmt.Sprintf("install%d", *installs))); err != nil {
			panic(err)
		}
		snap = c09Snap{full: true, nw: n, dump: *ckptDump}
	case "inc":
		n := op.N
		if n < 1 {
			n = 1
		}
		// the statements just written are captured by a new staged WAL; more WALs are
		// added until the directory holds n (WALs of an earlier cancelled attempt count)
		if err := src.StageWAL(); err != nil {
			panic(err)
		}
		for src.StagedWALs() < n {
			if err := src.Write(w); err != nil {
				panic(err)
			}
			if err := src.StageWAL(); err != nil {
				panic(err)
			}
		}
		if *ckptDump, err = src.Dump(); err != nil {
			panic(err)
		}
		if rc, err = src.IncrementalStreamer(); err != nil {
			panic(err)
		}
		snap = c09Snap{full: false, nw: src.StagedWALs(), dump: *ckptDump}
	}
	defer rc.Close()
	payload, err := io.ReadAll(rc)
	if err != nil {
		panic(err)
	}
	*index += uint64(rng.Range(1, 9))
	if rng.Bool(0.2) {
		*term++
	}
	snap.index, snap.term = *index, *term
	when := fmt.Sprintf("op %d snap %s(%d WALs) %d/%d end=%s", i, kind, snap.nw, snap.index, snap.term, op.End)
	needFullBefore := m.dueFull()

	sink, err := st.Create(1, snap.index, snap.term, snapsim.Config(), 1, nil)
	if err != nil {
		c.Violate("create-failed", "%s: Create: %s", when, scrub(err))
		return
	}
	end := op.End
	if end == "" {
		end = "close"
	}
	limit, flip := int64(-1), int64(-1)
	switch end {
	case "cancel", "trunc":
		limit = int64(op.At) % int64(len(payload)) // strictly shorter than the payload
	case "flip":
		flip = int64(op.At) % int64(len(payload))
	case "trail":
		// bytes after the declared payload (after an incremental header no data may follow)
		payload = append(append([]byte(nil), payload...), rng.Bytes(1+op.At%40)...)
	case "garbage":
		// a length prefix followed by bytes that are not a snapshot header
		g := rng.Bytes(4 + op.At%60)
		payload = append([]byte{0, 0, 0, byte(len(g))}, g...)
		payload = append(payload, rng.Bytes(op.At%30)...)
	}
	_, werr := snapsim.Pump(sink, bytes.NewReader(payload), rng, limit, flip)

	fullKindFailed := func() {
		// what the store does when a snapshot it had to checkpoint for did not make it: ask for a full one
		if kind == "full" && !m.dueFull() {
			if err := st.SetDueNext(snapshot.Full); err != nil {
				panic(err)
			}
			m.fullNeeded = true
		}
	}
	installed := func() {
		m.snaps = append(m.snaps, snap)
		if snap.full {
			m.fullNeeded = false
			src.ClearStaging()
		} else {
			src.StagingMoved()
		}
	}
	visible := func(s *snapshot.Store) bool {
		all, _ := s.ListAll()
		for _, mt := range all {
			if mt.Index == snap.index {
				return true
			}
		}
		return false
	}
	// restart replaces the store directory by a crash image and starts a new
	// instance on it; the catalog decides whether the snapshot made it.
	restart := func(im crash.Image) {
		c.Probe("crash_at_" + im.Point)
		c.Log.Add("%s -> crash image at hit %d (%s)", when, im.N, im.Point)
		st.Close()
		*stp = nil
		if err := crash.Restore(im.Dir, root); err != nil {
			panic(err)
		}
		s2, err := snapsim.OpenStore(root)
		if err != nil {
			c.Violate("open-failed", "%s: NewStore after the crash failed: %s; dir: %s", when, scrub(err), snapsim.Listing(root))
			return
		}
		*stp = s2
		if _, err := s2.ListAll(); err != nil {
			c.Violate("listall-failed", "%s: ListAll after the crash: %s; dir: %s", when, scrub(err), snapsim.Listing(root))
			return
		}
		if visible(s2) {
			m.snaps = append(m.snaps, snap)
			c.Probe("crashed_close_left_complete_snapshot")
			if snap.full {
				// the flag may or may not have been cleared yet; both are fine once the snapshot is installed
				d, _ := s2.DueNext()
				m.fullNeeded = m.fullNeeded && d == snapshot.Full
			}
		} else {
			c.Probe("crashed_close_left_nothing")
		}
		if !verify(when+" after restart", true) {
			return
		}
		rebase()
	}

	gated := kind == "inc" && needFullBefore
	if gated {
		c.Probe("incremental_while_full_needed")
		if werr != nil {
			c.Probe("incremental_refused")
		}
	}

	// A sink whose Write returned an error - the refused incremental, data after an
	// incremental header, a header that does not parse, more data than declared -
	// and an incremental offered while a full snapshot is required, however far its
	// header got. raft cancels such a sink, but whichever way it is finished
	// (Cancel, Close, Close then Cancel, Close twice, Cancel then Close) the refusal
	// must stand: a refused incremental and an unparsable header leave the catalog
	// and the full-needed flag exactly as they were.
	if werr != nil || gated {
		fin := op.Fin
		if fin == "" {
			fin = c09Fins[op.At%len(c09Fins)]
		}
		if werr == nil && (end == "trunc" || end == "cancel") {
			fin = "cancel" // header incomplete: nothing was refused yet, the caller gives up
		}
		c.Probe("rejected_sink_finished_by_" + fin)
		if werr != nil {
			c.Probe("sink_write_error")
		}
		rec := crash.NewRecorder(root, filepath.Join(c.Dir, "img", fmt.Sprintf("op%03dr", i)))
		rec.Want = func(crash.Hit) bool { return false }
		fatal := false
		rec.OnFatal = func(point string, err error) bool { fatal = true; return true }
		rec.Install()
		var errs []string
		for _, step := range strings.Split(fin, "_") {
			var e error
			if step == "close" {
				e = sink.Close()
			} else {
				e = sink.Cancel()
			}
			errs = append(errs, fmt.Sprintf("%s:%v", step, e != nil))
			if fatal {
				break
			}
		}
		rec.Uninstall()
		if rec.Err != nil {
			panic(rec.Err)
		}
		defer rec.Drop()
		c.Log.Add("%s -> write error=%v, finished by %s", when, werr != nil, strings.Join(errs, " "))
		strict := gated || end == "garbage"
		if fatal {
			// an incremental close failed and the process exits
			c.Fault("fatal_exit_in_incremental_close")
			if strict {
				// ... but a refused sink has no business on the incremental close path at all
				c.Violate("rejected-sink-closed-as-incremental", "%s: Close of a sink whose Write was refused went down the incremental close path and failed fatally", when)
				return
			}
			restart(rec.Images[len(rec.Images)-1])
			return
		}
		if visible(st) {
			if strict && werr == nil {
				c.Violate("incremental-accepted", "%s: an incremental snapshot was accepted by Write and installed by %s while a full snapshot is required (flag set: %v, snapshots: %d)",
					when, fin, m.fullNeeded, len(m.snaps))
				return
			}
			if strict {
				c.Violate("rejected-sink-installed", "%s: Write returned an error (%v) but finishing the sink by %s installed snapshot %d/%d (full required: %v, flag set: %v, snapshots before: %d); dir: %s",
					when, werr, fin, snap.index, snap.term, needFullBefore, m.fullNeeded, len(m.snaps), snapsim.Listing(root))
				return
			}
			// a complete payload followed by junk: the junk was refused by Write, the
			// snapshot itself is whole; it is checked like any other
			m.snaps = append(m.snaps, snap)
			if snap.full {
				d, _ := st.DueNext()
				m.fullNeeded = m.fullNeeded && d == snapshot.Full
				src.ClearStaging()
			} else {
				src.StagingMoved()
			}
			c.Probe("write_error_then_close_left_complete_snapshot")
			verify(when, true)
			return
		}
		fullKindFailed()
		verify(when, strict)
		return
	}

	if end == "cancel" {
		// (Cancel of a partly written full sink returns ErrIncomplete and leaves the
		// temporary directory behind until the next open; the property does not speak
		// about Cancel's return value, so it is only logged.)
		cerr := sink.Cancel()
		c.Log.Add("%s -> cancelled after %d of %d bytes err=%v", when, limit, len(payload), cerr != nil)
		c.Probe("sink_cancelled")
		fullKindFailed()
		verify(when, false)
		return
	}

	// Close, always under a recorder: an incremental close that fails exits the
	// process in production (verifhook.Fatal), which the harness treats as a crash
	// at that point.
	rec := crash.NewRecorder(root, filepath.Join(c.Dir, "img", fmt.Sprintf("op%03d", i)))
	fatal := false
	rec.OnFatal = func(point string, err error) bool { fatal = true; return true }
	if end != "crash" {
		rec.Want = func(crash.Hit) bool { return false }
	}
	k := 1 + op.At%14
	if end == "err" {
		rec.Inject = func(h crash.Hit) error {
			if h.N == k {
				return fmt.Errorf("injected I/O error at %s", h.Point)
			}
			return nil
		}
	}
	rec.Install()
	cerr := sink.Close()
	rec.Uninstall()
	if rec.Err != nil {
		panic(rec.Err)
	}
	defer rec.Drop()
	if !fatal && end != "crash" {
		c.Log.Add("%s -> close err=%v", when, cerr != nil)
		if cerr == nil && (end == "close" || end == "err") {
			installed()
			c.Probe("sink_closed_ok")
			if kind == "inc" {
				c.Probe("incremental_installed")
				if snap.nw >= 2 {
					c.Probe("incremental_multi_wal")
				}
			} else if snap.nw > 0 {
				c.Probe("full_with_wals_installed")
			}
			if needFullBefore && len(m.snaps) > 1 {
				c.Probe("full_needed_cleared_by_install")
			}
			verify(when, true)
			return
		}
		// Close failed, or returned nil for a short/damaged stream (a header that never
		// completed makes Close discard the sink). The catalog tells whether a complete
		// snapshot is visible nevertheless (error after the rename); its content is then
		// checked like any other.
		if cerr != nil {
			c.Probe("sink_close_failed")
			if end == "err" {
				c.Fault("io_error_in_close")
				c.Probe("error_at_" + rec.Hits[min(k, len(rec.Hits))-1].Point)
			}
		} else {
			c.Probe("sink_closed_nil_on_damaged_stream")
		}
		if visible(st) {
			m.snaps = append(m.snaps, snap)
			if snap.full {
				d, _ := st.DueNext()
				m.fullNeeded = m.fullNeeded && d == snapshot.Full
				src.ClearStaging()
			} else {
				src.StagingMoved()
			}
			c.Probe("failed_close_left_complete_snapshot")
			verify(when, true)
			return
		}
		fullKindFailed()
		verify(when, false)
		return
	}

	// crash: at the fatal exit of an incremental close, or at the chosen hook occurrence
	if len(rec.Images) == 0 {
		panic("harness: no image taken inside Close")
	}
	var im crash.Image
	if fatal {
		im = rec.Images[len(rec.Images)-1]
		c.Fault("fatal_exit_in_incremental_close")
	} else {
		im = rec.Images[op.At%len(rec.Images)]
		c.Fault("crash_in_close")
	}
	restart(im)
}

func init() {
	core.Register(&core.Prop{ID: "C09", Bubble: true, Gen: c09Gen, Run: c09Run})
}
