package props

import (
	"context"
	"encoding/json"
	"errors"
	"fmt"
	"time"

	"github.com/rqlite/rqlite/v10/command/proto"
	"github.com/rqlite/rqlite/v10/store"
	"verifsim/core"
	"verifsim/node"
	"verifsim/sim"
)

// C38 (bounded liveness): on a leader that can reach a quorum a linearizable
// read completes within its own timeout without any further write - also
// directly after a membership change, a leader change, a barrier, a snapshot or
// a snapshot install.
//
// One run = a seeded history of writes, strong reads, joins (voter and
// non-voter), removals, stepdowns, barriers, user snapshots, follower
// isolation (with log truncation, so that healing needs InstallSnapshot),
// follower crashes/restarts, and "probe" points. At a probe all faults stop,
// the cluster settles, and ONE linearizable read is issued directly on the
// leader's store with nothing in between. Oracle: the read returns without an
// error. It is retried only if leadership demonstrably moved while it ran
// (leader flag or term of the probed node changed).

type c38Op struct {
	Kind  string `json:"k"` // w sr probe lr join remove stepdown snapshot barrier isolate heal crash restart run
	N     int    `json:"n,omitempty"`
	Voter bool   `json:"v,omitempty"`
	Ms    int    `json:"ms,omitempty"`
}

type c38Scenario struct {
	Seed     uint64     `json:"seed"`
	Nodes    int        `json:"nodes"`     // initial cluster size (1..3)
	NonVoter int        `json:"non_voter"` // index of an initial non-voter (0 = none)
	Max      int        `json:"max"`       // total nodes that may ever exist
	Knobs    node.Knobs `json:"knobs"`
	Tick     float64    `json:"tick"`
	LinMs    int        `json:"lin_ms"` // linearizable timeout of probe reads (0 = rqlite's default)
	Ops      []c38Op    `json:"ops"`
}

func c38Gen(r *core.Rand, tier string) any {
	sc := &c38Scenario{Seed: r.Uint64()}
	sc.Nodes = r.Range(1, 3)
	sc.Max = 4
	if sc.Nodes >= 2 && r.Bool(0.3) {
		sc.NonVoter = sc.Nodes
	}
	sc.Tick = []float64{0.02, 0.08, 0.2}[r.Intn(3)]
	hb := time.Duration(r.Range(2, 8)) * 100 * time.Millisecond
	sc.Knobs = node.Knobs{HeartbeatTimeout: hb, ElectionTimeout: hb, LeaderLeaseTimeout: hb / 2,
		ApplyTimeout: time.Duration(r.Range(3, 6)) * time.Second}
	if r.Bool(0.5) {
		sc.Knobs.SnapshotThreshold = uint64(r.Range(4, 12))
		sc.Knobs.SnapshotInterval = time.Duration(r.Range(1, 4)) * time.Second
	}
	sc.LinMs = []int{0, 500, 1500, 3000}[r.Intn(4)]
	nops := r.Range(6, 15)
	total := sc.Nodes
	isolated, crashed := false, false
	sc.Ops = append(sc.Ops, c38Op{Kind: "w", N: r.Range(1, 3)})
	for i := 0; i < nops; i++ {
		x := r.Intn(100)
		switch {
		case x < 16:
			sc.Ops = append(sc.Ops, c38Op{Kind: "w", N: r.Range(1, 4)})
		case x < 28:
			sc.Ops = append(sc.Ops, c38Op{Kind: "sr"})
		case x < 40:
			sc.Ops = append(sc.Ops, c38Op{Kind: "lr"})
		case x < 52:
			if total < sc.Max {
				total++
				sc.Ops = append(sc.Ops, c38Op{Kind: "join", Voter: r.Bool(0.65)})
			}
		case x < 60:
			sc.Ops = append(sc.Ops, c38Op{Kind: "remove", N: r.Intn(8)})
		case x < 68:
			sc.Ops = append(sc.Ops, c38Op{Kind: "stepdown"})
		case x < 76:
			sc.Ops = append(sc.Ops, c38Op{Kind: "snapshot", N: r.Intn(3)})
		case x < 82:
			sc.Ops = append(sc.Ops, c38Op{Kind: "barrier"})
		case x < 88:
			if !isolated {
				// isolate a follower, write past the trailing logs, truncate: healing needs InstallSnapshot
				sc.Ops = append(sc.Ops, c38Op{Kind: "isolate", N: r.Intn(8)}, c38Op{Kind: "w", N: r.Range(2, 20)})
				if r.Bool(0.7) {
					sc.Ops = append(sc.Ops, c38Op{Kind: "snapshot", N: 1})
				}
				isolated = true
			} else {
				sc.Ops = append(sc.Ops, c38Op{Kind: "heal"})
				isolated = false
			}
		case x < 92:
			if !crashed {
				sc.Ops = append(sc.Ops, c38Op{Kind: "crash", N: r.Intn(8)})
				crashed = true
			} else {
				sc.Ops = append(sc.Ops, c38Op{Kind: "restart"})
				crashed = false
			}
		case x < 97:
			// a tail of entries that never reach the FSM, then a snapshot that truncates
			// the log right behind the tail
			for k := r.Range(2, 3); k > 0; k-- {
				switch r.Intn(3) {
				case 0:
					if total < sc.Max {
						total++
						sc.Ops = append(sc.Ops, c38Op{Kind: "join", Voter: r.Bool(0.5)})
						continue
					}
					fallthrough
				case 1:
					sc.Ops = append(sc.Ops, c38Op{Kind: "barrier"})
				default:
					sc.Ops = append(sc.Ops, c38Op{Kind: "remove", N: r.Intn(8)})
				}
			}
			sc.Ops = append(sc.Ops, c38Op{Kind: "snapshot", N: 1}, c38Op{Kind: "probe", Ms: r.Range(100, 1500)})
		default:
			sc.Ops = append(sc.Ops, c38Op{Kind: "run", Ms: r.Range(50, 3000)})
		}
		if r.Bool(0.45) {
			sc.Ops = append(sc.Ops, c38Op{Kind: "probe", Ms: r.Range(100, 2500)})
		}
	}
	sc.Ops = append(sc.Ops, c38Op{Kind: "probe", Ms: r.Range(100, 2500)})
	return sc
}

type c38State struct {
	c       *core.Ctx
	s       *sim.Sim
	sc      *c38Scenario
	member  map[int]bool // joined and not removed
	voter   map[int]bool
	down    []int
	nextVal int
	lastOp  string
	judged  int
}

func (st *c38State) followers(l *node.Node) []int {
	var fs []int
	for i := 1; i < len(st.s.Nodes); i++ {
		if st.member[i] && st.s.Nodes[i].Up && (l == nil || i != l.Idx) {
			fs = append(fs, i)
		}
	}
	return fs
}

func c38Run(c *core.Ctx, raw json.RawMessage) {
	var sc c38Scenario
	if err := json.Unmarshal(raw, &sc); err != nil {
		panic(err)
	}
	c.Rng = core.NewRand(sc.Seed)
	s := sim.New(c)
	s.TickProb = sc.Tick
	defer s.Shutdown()
	if sc.Nodes < 1 {
		sc.Nodes = 1
	}
	if sc.Max < sc.Nodes {
		sc.Max = sc.Nodes
	}
	for i := 0; i < sc.Max; i++ {
		s.AddNode(sc.Knobs)
	}
	st := &c38State{c: c, s: s, sc: &sc, member: map[int]bool{}, voter: map[int]bool{}}
	if err := s.Boot(sc.Nodes, sc.Knobs, func(i int) bool { return i != sc.NonVoter }); err != nil {
		c.Discard("boot-failed: " + err.Error())
		return
	}
	for i := 1; i <= sc.Nodes; i++ {
		st.member[i] = true
		st.voter[i] = i != sc.NonVoter
	}
	next := sc.Nodes + 1
	if ok, _, _ := opsExec(s, s.Leader(), "CREATE TABLE t (id INTEGER PRIMARY KEY, v INTEGER)"); !ok {
		c.Discard("schema-failed")
		return
	}
	st.lastOp = "w"
	restores0 := opsStat("num_restores")
	defer func() { c.ProbeN("snapshot_installs_or_restores", int(opsStat("num_restores")-restores0)) }()

	for _, op := range sc.Ops {
		if s.Capped || c.Failed() {
			break
		}
		l := s.Leader()
		switch op.Kind {
		case "w":
			for k := 0; k < op.N && k < 40; k++ {
				if l = s.Leader(); l == nil {
					s.RunFor(500 * time.Millisecond)
					continue
				}
				st.nextVal++
				if ok, _, _ := opsExec(s, l, fmt.Sprintf("INSERT INTO t(v) VALUES(%d)", st.nextVal)); ok {
					c.Probe("writes_acked")
					st.lastOp = "w"
				}
			}
		case "sr":
			if l == nil {
				continue
			}
			var err error
			s.Do("strong-read", 30*time.Second, func() {
				_, _, _, err = l.Store.Query(context.Background(), opsQueryReq(proto.ConsistencyLevel_STRONG, "SELECT COUNT(*) FROM t", 0, false, 0))
			})
			if err == nil {
				c.Probe("strong_reads_ok")
				st.lastOp = "sr"
			}
		case "lr":
			st.probe(false, 0)
		case "probe":
			st.probe(true, time.Duration(op.Ms)*time.Millisecond)
		case "join":
			if next > sc.Max || l == nil {
				continue
			}
			i := next
			if err := s.StartAndJoin(i, op.Voter); err != nil {
				// the join did not go through (e.g. no quorum for the configuration
				// change right now): the node stays up but is not a member
				c.Log.Add("%d join n%d failed: %v", s.StepN, i, err)
				c.Probe("join_failed")
				if s.Nodes[i].Up {
					s.Do("stop-unjoined", 60*time.Second, func() { s.Nodes[i].Stop() })
				}
				next++
				continue
			}
			next++
			st.member[i], st.voter[i] = true, op.Voter
			if op.Voter {
				st.lastOp = "join-voter"
			} else {
				st.lastOp = "join-nonvoter"
			}
			c.Log.Add("%d joined n%d voter=%v", s.StepN, i, op.Voter)
		case "remove":
			if l == nil {
				continue
			}
			fs := st.followers(l)
			if len(fs) == 0 {
				continue
			}
			tgt := fs[op.N%len(fs)]
			// never remove the last-but-one voter's majority: keep at least one voter besides... the leader itself always stays
			var err error
			ok := s.Do(fmt.Sprintf("remove n%d", tgt), 30*time.Second, func() {
				err = l.Store.Remove(context.Background(), &proto.RemoveNodeRequest{Id: s.Nodes[tgt].ID})
			})
			if !ok || err != nil {
				c.Log.Add("%d remove n%d failed: %v", s.StepN, tgt, err)
				c.Probe("remove_failed")
				continue
			}
			st.member[tgt] = false
			st.lastOp = "remove"
			c.Log.Add("%d removed n%d", s.StepN, tgt)
			tn := s.Nodes[tgt]
			s.Do("stop-removed", 120*time.Second, func() { tn.Store.NoSnapshotOnClose = true; tn.Stop() })
		case "stepdown":
			if l == nil || len(st.followers(l)) == 0 {
				continue
			}
			var err error
			s.Do("stepdown", 30*time.Second, func() { err = l.Store.Stepdown(true, "") })
			c.Log.Add("%d stepdown n%d err=%v", s.StepN, l.Idx, err)
			if err == nil {
				c.Fault("stepdown")
				st.lastOp = "stepdown"
			}
		case "snapshot":
			if l == nil {
				continue
			}
			var err error
			s.Do("snapshot", 60*time.Second, func() { err = l.Store.Snapshot(uint64(op.N)) })
			c.Log.Add("%d snapshot n%d trailing=%d err=%v", s.StepN, l.Idx, op.N, err)
			if err == nil {
				c.Probe("user_snapshots")
				st.lastOp = "snapshot"
			}
		case "barrier":
			if l == nil {
				continue
			}
			var err error
			s.Do("barrier", 30*time.Second, func() { err = l.Store.Barrier() })
			c.Log.Add("%d barrier n%d err=%v", s.StepN, l.Idx, err)
			if err == nil {
				c.Probe("barriers")
				st.lastOp = "barrier"
			}
		case "isolate":
			fs := st.followers(l)
			if l == nil || len(fs) == 0 {
				continue
			}
			tgt := fs[op.N%len(fs)]
			// only if the rest still has a quorum of voters (otherwise the writes that follow just fail)
			opsIsolate(s, tgt)
			if !opsQuorumReachable(s, l) {
				s.Net.Heal()
				continue
			}
			c.Fault("isolate-follower")
			c.Log.Add("%d isolate n%d", s.StepN, tgt)
			st.lastOp = "isolate"
		case "heal":
			s.Net.Heal()
			c.Fault("heal")
			c.Log.Add("%d heal", s.StepN)
			st.lastOp = "heal"
		case "crash":
			fs := st.followers(l)
			if l == nil || len(fs) == 0 || len(st.down) > 0 {
				continue
			}
			tgt := fs[op.N%len(fs)]
			c.Log.Add("%d crash n%d", s.StepN, tgt)
			if err := s.Crash(tgt); err != nil {
				c.Discard("crash-failed: " + err.Error())
				return
			}
			st.down = append(st.down, tgt)
			st.lastOp = "crash"
		case "restart":
			st.restartAll()
			st.lastOp = "restart"
		case "run":
			s.RunFor(time.Duration(op.Ms) * time.Millisecond)
		}
	}
	c.Res.Trivial = st.judged == 0
	c.Sig(fmt.Sprintf("%d/%s", st.judged, s.StateDigest()))
}

func (st *c38State) restartAll() {
	for _, d := range st.down {
		st.c.Log.Add("%d restart n%d", st.s.StepN, d)
		if err := st.s.Restart(d); err != nil {
			st.c.Violate("restart-failed", "node %d failed to restart: %v", d, err)
		}
	}
	st.down = nil
}

// probe issues one checked linearizable read on the leader. With settle the
// faults stop first and the cluster is given time to converge; without it the
// read is issued right away and judged only if the leader is healthy.
func (st *c38State) probe(settle bool, extra time.Duration) {
	s, c := st.s, st.c
	for attempt := 0; attempt < 3 && !s.Capped; attempt++ {
		var l *node.Node
		if settle || attempt > 0 {
			st.restartAll()
			if c.Failed() {
				return
			}
			l = opsSettle(s, extra)
		} else {
			l = s.Leader()
		}
		if l == nil {
			c.Probe("probe_no_leader")
			if !settle {
				return
			}
			continue
		}
		if !opsQuorumReachable(s, l) {
			c.Probe("probe_no_quorum")
			return
		}
		before := l.Store.VerifReadState()
		if before.CommitIndex > before.FSMIndex {
			c.Probe("probe_with_commit_beyond_fsm_index")
		}
		lin := time.Duration(st.sc.LinMs) * time.Millisecond
		var err error
		var lvl proto.ConsistencyLevel
		var rows []*proto.QueryRows
		t := s.Go(fmt.Sprintf("lin-read n%d", l.Idx), func() {
			rows, lvl, _, err = l.Store.Query(context.Background(), opsQueryReq(proto.ConsistencyLevel_LINEARIZABLE, "SELECT COUNT(*) FROM t", 0, false, lin))
		})
		// nothing else is started while the read runs: no intervening write
		wait := lin
		if wait == 0 {
			wait = time.Second
		}
		if !s.Await(t, wait+st.sc.Knobs.ApplyTimeout+30*time.Second) {
			c.Violate("lin-read-hung", "linearizable read on n%d did not return (last op %s)", l.Idx, st.lastOp)
			return
		}
		after := l.Store.VerifReadState()
		healthyThroughout := after.Leader && after.Term == before.Term && opsQuorumReachable(s, l)
		c.Log.Add("%d probe n%d after=%s term=%d commit=%d fsm=%d srt=%d -> lvl=%v err=%v (term now %d leader=%v)", s.StepN, l.Idx, st.lastOp,
			before.Term, before.CommitIndex, before.FSMIndex, before.StrongReadTerm, lvl, err, after.Term, after.Leader)
		if err == nil {
			st.judged++
			c.Probe("probe_ok")
			c.Probe("probe_after_" + st.lastOp)
			if lvl == proto.ConsistencyLevel_STRONG {
				c.Probe("probe_upgraded_to_strong")
				st.lastOp = "sr" // an upgraded read wrote to the log
			} else {
				c.Probe("probe_fast_path")
			}
			if _, ok := opsScalar(rows); !ok {
				c.Violate("lin-read-bad-result", "linearizable read on n%d returned %v", l.Idx, rows)
			}
			return
		}
		if !healthyThroughout {
			// leadership demonstrably moved while the read ran: not the property's case
			c.Probe("probe_leader_moved")
			if !settle {
				return
			}
			continue
		}
		st.judged++
		class := "lin-read-error"
		if errors.Is(err, store.ErrWaitForFSMTimeout) {
			class = "lin-read-fsm-timeout"
		}
		c.Violate(class, "linearizable read on healthy leader n%d failed: %v (last op before the read: %s; term %d unchanged, commit index %d, fsm index %d, strong-read term %d, timeout %s)",
			l.Idx, err, st.lastOp, before.Term, before.CommitIndex, before.FSMIndex, before.StrongReadTerm, lin)
		return
	}
	c.Probe("probe_unjudged_leadership_unstable")
}

func init() {
	core.Register(&core.Prop{ID: "C38", Bubble: true, Gen: c38Gen, Run: c38Run})
}
