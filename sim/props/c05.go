package props

import (
	"bytes"
	"encoding/json"
	"fmt"
	"os"
	"runtime"
	"sort"

	"github.com/rqlite/rqlite/v10/db/wal"
	"verifsim/core"
	"verifsim/walsim"
)

// C05: WAL compaction is equivalent to the original WAL.
//
// The WALs judged are the ones a simulated history produces (walsim: seeded
// schedule of writer transactions incl. rollbacks and spilled transactions,
// readers that make checkpoints fail or stop half way, checkpoints that reset
// the WAL so that frames of an earlier generation stay behind it), optionally
// damaged at the tail by a disk fault applied to the copy that is judged.
// Oracle, for every observed WAL image W with the database file D it belongs
// to, and every transaction boundary k of W's valid prefix:
//
//	SQLite(D + W)  ==  SQLite( SQLite(D + first k frames of W) + rqlite_compact(W, from k) )
//
// byte for byte, where SQLite(x + w) means: SQLite itself recovers and
// checkpoints w into x. If valid frames follow the last commit the scanner
// must fail; no frame outside the committed valid prefix may be emitted.

func init() {
	core.Register(&core.Prop{ID: "C05", Bubble: false, Gen: c05Gen, Run: c05Run, Enumerate: c05Enumerate})
}

func c05Gen(r *core.Rand, tier string) any {
	return walsim.Gen(r, walsim.GenOpts{Observe: true, Faults: true, MinOps: 15, MaxOps: 45})
}

type c05Deferred struct{ class, detail string }

type c05State struct {
	c        *core.Ctx
	judged   int
	deferred *c05Deferred
	// resume offset the checkpoint manager would use next (frames moved by
	// the last all-moved-not-truncated attempt) and the salt it belongs to
	reached     int
	reachedSalt [2]uint32
	sigs        map[string]bool
}

func c05Run(c *core.Ctx, raw json.RawMessage) {
	var sc walsim.Scenario
	if err := json.Unmarshal(raw, &sc); err != nil {
		c.Violate("harness-scenario", "%v", err)
		return
	}
	c.Rng = core.NewRand(sc.Seed)
	st := &c05State{c: c, sigs: map[string]bool{}}
	e := &walsim.Engine{C: c, Sc: &sc}
	e.H.Observe = func(e *walsim.Engine, op *walsim.Op) { st.observe(e, op.S, op.F) }
	e.H.BeforeAttempt = func(e *walsim.Engine, full bool) {
		// the image the checkpoint manager is about to compact
		st.observe(e, core.Mix(sc.Seed, uint64(e.OpIdx)), nil)
	}
	e.H.AfterAttempt = func(e *walsim.Engine, a *walsim.Attempt) {
		if a.Meta != nil && a.Err == nil && a.Meta.Code != 0 && a.Meta.Moved == a.Meta.Pages {
			st.reached, st.reachedSalt = a.Meta.Moved, a.PreSalt
		}
	}
	if err := e.Setup(); err != nil {
		c.Violate("harness-setup", "%v", err)
		return
	}
	defer e.Close()
	e.Run()
	if !c.Failed() && st.deferred != nil {
		c.Violate(st.deferred.class, "%s", st.deferred.detail)
	}
	c.Res.Trivial = st.judged == 0
	c.Res.Cases = st.judged
	var sigs []string
	for s := range st.sigs {
		sigs = append(sigs, s)
	}
	sort.Strings(sigs)
	for _, s := range sigs {
		c.Sig(s)
	}
}

// deferLow records a violation of a class that is reported only if nothing
// else is found in the run (so that a known finding does not hide others).
func (st *c05State) deferLow(class, format string, a ...any) {
	if st.deferred == nil {
		st.deferred = &c05Deferred{class, fmt.Sprintf(format, a...)}
		st.c.Log.Add("deferred %s", class)
	}
}

func applyFault(w []byte, f walsim.Fault) ([]byte, string) {
	if len(w) < 32 {
		return w, "none"
	}
	ref := walsim.ParseWAL(w[:32])
	ps := ref.PageSize
	if !ref.HeaderOK {
		return w, "none"
	}
	fsz := 24 + ps
	nfr := (len(w) - 32) / fsz
	r := core.NewRand(f.S)
	frame := func() int {
		p := int(f.Frac * float64(nfr))
		if p >= nfr {
			p = nfr - 1
		}
		return p
	}
	out := append([]byte(nil), w...)
	switch f.K {
	case "trunc":
		n := 32 + int(f.Frac*float64(len(w)-32))
		if n > len(w) {
			n = len(w)
		}
		return out[:n], fmt.Sprintf("trunc@%d/%d", n, len(w))
	case "garbage":
		n := r.Range(1, f.N*fsz)
		return append(out, r.Bytes(n)...), fmt.Sprintf("garbage+%d", n)
	}
	if nfr == 0 {
		return out, "none"
	}
	p := frame()
	off := 32 + p*fsz
	switch f.K {
	case "saltflip":
		out[off+8+r.Intn(8)] ^= 1 << uint(r.Intn(8))
	case "zeroframe":
		for i := off; i < off+fsz; i++ {
			out[i] = 0
		}
	case "cksumflip":
		out[off+16+r.Intn(8)] ^= 1 << uint(r.Intn(8))
	case "dataflip":
		out[off+24+r.Intn(ps)] ^= 1 << uint(r.Intn(8))
	default:
		return out, "none"
	}
	return out, fmt.Sprintf("%s@frame%d/%d", f.K, p, nfr)
}

// needsChecksum: damage that only checksum verification can notice. The
// scanner's fast mode (fullScan=false) documents that it trusts frame contents
// and only compares salts, so it is not judged on such images.
func needsChecksum(k string) bool { return k == "cksumflip" || k == "dataflip" }

func compactWith(w []byte, k int, full bool) ([]byte, error) {
	s, err := wal.NewCompactingFrameScanner(bytes.NewReader(w), int64(k), full)
	if err != nil {
		return nil, err
	}
	ww, err := wal.NewWriter(s)
	if err != nil {
		return nil, err
	}
	var buf bytes.Buffer
	if _, err := ww.WriteTo(&buf); err != nil {
		return nil, err
	}
	return buf.Bytes(), nil
}

func (st *c05State) observe(e *walsim.Engine, seed uint64, faults []walsim.Fault) {
	c := st.c
	if c.Failed() {
		return
	}
	// workers run with GOGC=off; the images handled here are large, so collect
	// explicitly (keeps the heap, and with it page-fault time, small)
	defer runtime.GC()
	w, _ := os.ReadFile(e.WALPath)
	if len(w) < 32 {
		c.Probe("obs_empty_wal")
		return
	}
	// The database image the WAL belongs to: the main file as it was when
	// this WAL generation began. (The live main file may already contain
	// frames that a fault below is going to cut off.)
	d := e.GenBase
	if len(d) == 0 {
		c.Violate("harness-io", "no generation base")
		return
	}
	r := core.NewRand(seed)
	fastOK := true
	cut := false
	var fdesc []string
	for _, f := range faults {
		var s string
		w, s = applyFault(w, f)
		if s != "none" {
			c.Fault(f.K)
			fdesc = append(fdesc, s)
			// a cut followed by garbage replaces the rest of a frame's page by
			// other bytes under an intact frame header: content damage
			if needsChecksum(f.K) || (f.K == "garbage" && cut) {
				fastOK = false
			}
			if f.K == "trunc" {
				cut = true
			}
		}
	}
	ref := walsim.ParseWAL(w)
	if !ref.HeaderOK {
		c.Probe("obs_header_invalid")
		return
	}
	ps := ref.PageSize
	c.Log.Add("op%d obs wal=%d faults=%v frames=%d valid=%d committed=%d salted=%d tail=%d boundaries=%d intx=%v",
		e.OpIdx, len(w), fdesc, ref.FileFrames, len(ref.Frames), ref.LastCommit, ref.SaltFrames, ref.TailBytes, len(ref.Commits), e.InTx)
	// probes about the shape of the image
	if ref.FileFrames > len(ref.Frames) {
		c.Probe("wal_has_frames_beyond_valid_prefix")
		if ref.SaltFrames > len(ref.Frames) {
			c.Probe("wal_has_same_salt_frames_beyond_valid_prefix")
		} else if len(faults) == 0 {
			c.Probe("wal_has_stale_generation_frames")
		}
	}
	if ref.OpenTail() {
		c.Probe("wal_has_unterminated_tail")
	}
	if ref.TailBytes > 0 {
		c.Probe("wal_has_partial_frame")
	}
	pages := ref.LatestPages(0, ref.LastCommit)
	if ref.LastCommit > len(pages) {
		c.Probe("wal_has_overwritten_pages")
	}
	grow, shrink := false, false
	prev := uint32(0)
	for _, f := range ref.Frames[:ref.LastCommit] {
		if f.Commit != 0 {
			if prev != 0 && f.Commit > prev {
				grow = true
			}
			if prev != 0 && f.Commit < prev {
				shrink = true
			}
			prev = f.Commit
		}
	}
	if grow {
		c.Probe("wal_db_grows")
	}
	if shrink {
		c.Probe("wal_db_shrinks")
	}

	// ---- reference: SQLite itself on the whole image
	refPath := e.Tmp("ref.db")
	defer os.Remove(refPath)
	if err := os.WriteFile(refPath, d, 0o644); err != nil {
		c.Violate("harness-io", "%v", err)
		return
	}
	nlog, err := walsim.ApplyWAL(refPath, w)
	if err != nil {
		c.Violate("harness-reference", "SQLite could not apply the original WAL: %v", err)
		return
	}
	if nlog != ref.LastCommit {
		c.Violate("harness-refparser", "SQLite recovered %d frames, the reference reader %d (file frames %d)", nlog, ref.LastCommit, ref.FileFrames)
		return
	}
	want, _ := os.ReadFile(refPath)

	// ---- resume offsets
	ks := map[int]bool{0: true, ref.LastCommit: true}
	if len(ref.Commits) <= 5 {
		for _, k := range ref.Commits {
			ks[k] = true
		}
	} else {
		for i := 0; i < 3; i++ {
			ks[ref.Commits[r.Intn(len(ref.Commits))]] = true
		}
	}
	if st.reached > 0 && st.reachedSalt == ref.Salt {
		for _, k := range ref.Commits {
			if k == st.reached {
				ks[k] = true
				c.Probe("resume_offset_reached_by_checkpoint")
			}
		}
	}
	var kl []int
	for k := range ks {
		kl = append(kl, k)
	}
	sort.Ints(kl)

	for _, k := range kl {
		var base []byte
		for _, full := range []bool{false, true} {
			if full && k != 0 {
				continue // fullScan requires startFrame 0
			}
			if !full && !fastOK {
				c.Probe("fast_mode_not_judged_checksum_only_damage")
				continue
			}
			mode := "fast"
			if full {
				mode = "full"
			}
			out, cerr := compactWith(w, k, full)
			st.judged++
			desc := fmt.Sprintf("op %d, page size %d, WAL %d bytes %v: %d whole frames, valid prefix %d, committed %d, same-salt prefix %d, partial tail %d bytes; start frame %d, %s scan",
				e.OpIdx, ps, len(w), fdesc, ref.FileFrames, len(ref.Frames), ref.LastCommit, ref.SaltFrames, ref.TailBytes, k, mode)
			if ref.OpenTail() {
				if cerr == nil {
					c.Violate("open-tx-not-reported", "%s: %d valid uncommitted frames follow the last commit but compaction succeeded (%d bytes)", desc, len(ref.Frames)-ref.LastCommit, len(out))
					return
				}
				c.Probe("open_tx_reported_" + mode)
				continue
			}
			if cerr != nil {
				switch {
				case !full && ref.SaltFrames > len(ref.Frames):
					st.deferLow("fast-scan-error-same-salt-leftovers", "%s: SQLite accepts this WAL (valid prefix ends at a commit; the frames after it carry the current salt but fail the checksum chain) yet compaction failed: %v", desc, cerr)
				case !full && ref.TailBytes >= 24 && ref.SaltFrames == len(ref.Frames) && len(ref.Frames) == ref.FileFrames:
					st.deferLow("fast-scan-error-torn-frame", "%s: the file ends in a partial frame (header present, page cut short); SQLite ignores it, compaction failed: %v", desc, cerr)
				default:
					c.Violate("spurious-error", "%s: SQLite accepts this WAL and no transaction is open, compaction failed: %v", desc, cerr)
					return
				}
				continue
			}
			// emitted frames must all come from the committed valid prefix
			o := walsim.ParseWAL(out)
			if bad := st.checkFrames(w, out, ref, o, k); bad != "" {
				c.Violate("invalid-frame-included", "%s: %s", desc, bad)
				return
			}
			// equivalence by SQLite checkpoint
			if base == nil {
				base = d
				if k > 0 {
					bp := e.Tmp("base.db")
					os.WriteFile(bp, d, 0o644)
					n, err := walsim.ApplyWAL(bp, walsim.Prefix(w, ps, k))
					if err != nil || n != k {
						os.Remove(bp)
						c.Violate("harness-reference", "prefix of %d frames: SQLite used %d, err %v", k, n, err)
						return
					}
					base, _ = os.ReadFile(bp)
					os.Remove(bp)
				}
			}
			gp := e.Tmp("got.db")
			os.WriteFile(gp, base, 0o644)
			n, err := walsim.ApplyWAL(gp, out)
			got, _ := os.ReadFile(gp)
			os.Remove(gp)
			if err != nil {
				c.Violate("compacted-unusable", "%s: SQLite could not apply the compacted WAL: %v", desc, err)
				return
			}
			if !bytes.Equal(got, want) {
				c.Violate("compaction-mismatch", "%s: database after checkpointing the compacted WAL (%d bytes, %d frames used by SQLite of %d written) differs from the database after checkpointing the original: %s",
					desc, len(out), n, o.FileFrames, walsim.FirstDiffPage(got, want, ps))
				return
			}
			c.Probe("equivalent_" + mode)
			if k > 0 {
				c.Probe("equivalent_from_resume_offset")
			}
			if o.FileFrames < ref.LastCommit-k {
				c.Probe("compaction_dropped_superseded_frames")
			}
		}
	}
	st.sigs[fmt.Sprintf("ps%d f%d v%d c%d s%d t%v", ps, ref.FileFrames, len(ref.Frames), ref.LastCommit, ref.SaltFrames, ref.TailBytes > 0)] = true
}

// checkFrames verifies that every frame of the compacted WAL is the image of
// a committed frame of the original's valid prefix at or after k.
func (st *c05State) checkFrames(w, out []byte, ref, o *walsim.RefWAL, k int) string {
	if !o.HeaderOK {
		return "compacted WAL has no valid header"
	}
	ps := ref.PageSize
	fsz := 24 + ps
	n := (len(out) - 32) / fsz
	// index the original's committed frames from k by page
	byPage := map[uint32][]int{}
	for i := k; i < ref.LastCommit; i++ {
		byPage[ref.Frames[i].Pgno] = append(byPage[ref.Frames[i].Pgno], i)
	}
	for i := 0; i < n; i++ {
		f := out[32+i*fsz : 32+(i+1)*fsz]
		pgno := uint32(f[0])<<24 | uint32(f[1])<<16 | uint32(f[2])<<8 | uint32(f[3])
		data := f[24:]
		ok := false
		for _, j := range byPage[pgno] {
			if bytes.Equal(data, walsim.FrameData(w, ps, j)) {
				ok = true
				break
			}
		}
		if !ok {
			return fmt.Sprintf("compacted frame %d (page %d) is not the image of any committed frame of the original in [%d,%d)", i, pgno, k, ref.LastCommit)
		}
	}
	return ""
}
