package props

import (
	"bytes"
	"encoding/binary"
	"encoding/json"
	"fmt"
	"os"
	"path/filepath"
	"sort"
	"testing/synctest"

	"github.com/rqlite/rqlite/v10/cdc"
	"verifsim/core"
)

// C26: the CDC disk queue (cdc.Queue, cdc/fifo.go) is ordered, durable and
// duplicate-suppressing. The real queue (its manager goroutine, bbolt, the
// real file) is driven sequentially inside a bubble with generated operation
// sequences and compared, after every operation, with a sequential model that
// carries a persisted highest key. Crashes are file images taken at quiescent
// points (directory image model) plus "torn last transaction" images (the
// newest bbolt meta page invalidated = the process died after the data pages of
// the last operation were written but before its meta page was).

type c26Op struct {
	K string `json:"k"`           // enq burst del consume reopen image crash torn
	D int    `json:"d,omitempty"` // enq: index = highest + D (D<=0: at/below the highest key); del: see F
	F int    `json:"f,omitempty"` // del: index = F% of (highest+2); consume: how many receives to attempt
	N int    `json:"n,omitempty"` // enq: payload size
}

type c26Scenario struct {
	Seed uint64  `json:"seed"`
	Ops  []c26Op `json:"ops"`
}

func c26Gen(r *core.Rand, tier string) any {
	sc := &c26Scenario{Seed: r.Uint64()}
	n := r.Range(15, 60)
	// per-run flavour: how often duplicates / deletes / reopens occur
	wDup := r.Range(5, 30)
	wDel := r.Range(5, 20)
	wCons := r.Range(10, 30)
	wRe := r.Range(2, 10)
	big := r.Bool(0.3)
	wBurst := 0
	if r.Bool(0.3) {
		wBurst = 3
	}
	for i := 0; i < n; i++ {
		switch r.Weighted([]int{40, wDup, wDel, wCons, wRe, 3, 4, 4, wBurst}) {
		case 8:
			sc.Ops = append(sc.Ops, c26Op{K: "burst", F: r.Range(20, 150), N: r.Range(0, 700)})
		case 0: // fresh enqueue
			d := 1
			if r.Bool(0.4) {
				d = r.Range(1, 6)
			}
			sc.Ops = append(sc.Ops, c26Op{K: "enq", D: d, N: c26Size(r, big)})
		case 1: // enqueue at or below the highest key ever stored
			sc.Ops = append(sc.Ops, c26Op{K: "enq", D: -r.Intn(8), N: c26Size(r, big)})
		case 2:
			f := r.Range(0, 100)
			if r.Bool(0.15) {
				f = 100 + r.Range(0, 20) // beyond the highest key
			}
			sc.Ops = append(sc.Ops, c26Op{K: "del", F: f})
		case 3:
			sc.Ops = append(sc.Ops, c26Op{K: "consume", F: r.Range(1, 5)})
		case 4:
			sc.Ops = append(sc.Ops, c26Op{K: "reopen"})
		case 5:
			sc.Ops = append(sc.Ops, c26Op{K: "image"})
		case 6:
			sc.Ops = append(sc.Ops, c26Op{K: "crash"})
		case 7:
			sc.Ops = append(sc.Ops, c26Op{K: "torn"})
		}
	}
	// always end by reopening and consuming everything
	sc.Ops = append(sc.Ops, c26Op{K: "reopen"}, c26Op{K: "consume", F: 1000})
	return sc
}

func c26Size(r *core.Rand, big bool) int {
	if big && r.Bool(0.3) {
		return r.Range(3000, 20000) // overflow pages / page splits in bbolt
	}
	return r.Range(0, 200)
}

// c26Model is the sequential reference: a map of stored items, the highest
// key ever stored (survives reopen and deletion), and the per-open cursor.
type c26Model struct {
	items   map[uint64][]byte
	highest uint64
	cursor  uint64 // smallest index that may still be emitted during this open
}

func (m *c26Model) clone() *c26Model {
	c := &c26Model{items: map[uint64][]byte{}, highest: m.highest, cursor: m.cursor}
	for k, v := range m.items {
		c.items[k] = v
	}
	return c
}

func (m *c26Model) keys() []uint64 {
	ks := make([]uint64, 0, len(m.items))
	for k := range m.items {
		ks = append(ks, k)
	}
	sort.Slice(ks, func(i, j int) bool { return ks[i] < ks[j] })
	return ks
}

// next returns the item the queue must offer now (nil if none).
func (m *c26Model) next() (uint64, bool) {
	for _, k := range m.keys() {
		if k >= m.cursor {
			return k, true
		}
	}
	return 0, false
}

func (m *c26Model) first() uint64 {
	ks := m.keys()
	if len(ks) == 0 {
		return 0
	}
	return ks[0]
}

func (m *c26Model) sig() string {
	return fmt.Sprintf("len=%d first=%d highest=%d", len(m.items), m.first(), m.highest)
}

func c26Payload(seed uint64, idx uint64, opn int, n int) []byte {
	r := core.NewRand(core.Mix(seed, idx, uint64(opn)))
	b := r.Bytes(n + 8)
	binary.BigEndian.PutUint64(b, idx) // make payloads of different keys differ even when n==0
	return b
}

// c26TearLastTx invalidates the newest bbolt meta page of the file image (offsets
// per bbolt's page/meta layout: 16-byte page header; txid at +48, checksum at
// +56 within the meta). The other meta page then wins at open: the state before
// the last committed transaction.
func c26TearLastTx(img []byte) bool {
	ps := os.Getpagesize()
	if len(img) < 2*ps {
		return false
	}
	t0 := binary.LittleEndian.Uint64(img[16+48:])
	t1 := binary.LittleEndian.Uint64(img[ps+16+48:])
	off := 0
	if t1 > t0 {
		off = ps
	}
	for i := 0; i < 8; i++ {
		img[off+16+56+i] ^= 0xA5
	}
	return true
}

// c26LastTxid returns the highest transaction id recorded in the two meta pages.
func c26LastTxid(path string) uint64 {
	b, err := os.ReadFile(path)
	ps := os.Getpagesize()
	if err != nil || len(b) < 2*ps {
		return 0
	}
	t0 := binary.LittleEndian.Uint64(b[16+48:])
	t1 := binary.LittleEndian.Uint64(b[ps+16+48:])
	if t1 > t0 {
		return t1
	}
	return t0
}

func c26Run(c *core.Ctx, raw json.RawMessage) {
	var sc c26Scenario
	if err := json.Unmarshal(raw, &sc); err != nil {
		panic(err)
	}
	c.Rng = core.NewRand(sc.Seed)
	path := filepath.Join(c.Dir, "fifo.db")

	open := func() *cdc.Queue {
		q, err := cdc.NewQueue(path)
		if err != nil {
			c.Violate("open-failed", "NewQueue: %v", err)
			return nil
		}
		return q
	}
	q := open()
	if q == nil {
		return
	}
	defer func() {
		if q != nil {
			q.Close()
		}
	}()

	m := &c26Model{items: map[uint64][]byte{}}
	var img []byte // last quiescent image
	var imgModel *c26Model
	nEnq, nIgn, nDel, nEmit, nReopen, nCrash, nTorn := 0, 0, 0, 0, 0, 0, 0

	// observe compares every query the queue offers with the model.
	observe := func(when string) bool {
		synctest.Wait()
		l := q.Len()
		fk, err1 := q.FirstKey()
		hk, err2 := q.HighestKey()
		em, err3 := q.Empty()
		hn := q.HasNext()
		if err1 != nil || err2 != nil || err3 != nil {
			c.Violate("query-error", "%s: FirstKey/HighestKey/Empty errors: %v %v %v", when, err1, err2, err3)
			return false
		}
		_, wantNext := m.next()
		got := fmt.Sprintf("len=%d first=%d highest=%d", l, fk, hk)
		c.Log.Add("%s -> %s empty=%v hasnext=%v", when, got, em, hn)
		if got != m.sig() {
			c.Violate("state-mismatch", "%s: queue reports %s, model %s", when, got, m.sig())
			return false
		}
		if em != (len(m.items) == 0) {
			c.Violate("state-mismatch", "%s: Empty()=%v but model has %d items", when, em, len(m.items))
			return false
		}
		if hn != wantNext {
			c.Violate("hasnext-mismatch", "%s: HasNext()=%v, model says %v (cursor %d, keys %v)", when, hn, wantNext, m.cursor, m.keys())
			return false
		}
		return true
	}

	// adopt decides, after a torn-last-transaction crash, which of the two legal
	// states (before / after the last operation) the queue is in.
	reopenAs := func(when string, cands ...*c26Model) bool {
		q = open()
		if q == nil {
			return false
		}
		synctest.Wait()
		l := q.Len()
		fk, _ := q.FirstKey()
		hk, _ := q.HighestKey()
		got := fmt.Sprintf("len=%d first=%d highest=%d", l, fk, hk)
		for _, cand := range cands {
			if cand != nil && cand.sig() == got {
				m = cand.clone()
				m.cursor = 0
				return true
			}
		}
		var want []string
		for _, cand := range cands {
			if cand != nil {
				want = append(want, cand.sig())
			}
		}
		c.Violate("crash-state", "%s: after restart the queue reports %s; legal states: %v", when, got, want)
		return false
	}

	var prev *c26Model // model before the last mutating operation (for torn)
	lastMut := false   // the previous operation was a single mutating queue call

	for opn, op := range sc.Ops {
		if c.Failed() {
			return
		}
		wasMut := lastMut
		lastMut = false
		synctest.Wait()
		txBefore := c26LastTxid(path)
		switch op.K {
		case "burst":
			// many fresh items at once (several bbolt leaf pages), checked once at the end
			for i := 0; i < op.F; i++ {
				idx := m.highest + uint64(1+i%2)
				data := c26Payload(sc.Seed, idx, opn, op.N+(i*37)%200)
				if err := q.Enqueue(&cdc.Event{Index: idx, Data: data}); err != nil {
					c.Violate("enqueue-error", "Enqueue(%d): %v", idx, err)
					return
				}
				m.items[idx] = data
				m.highest = idx
				nEnq++
			}
			if !observe(fmt.Sprintf("%d burst of %d", opn, op.F)) {
				return
			}
		case "enq":
			idx := uint64(0)
			if d := int64(m.highest) + int64(op.D); d > 0 {
				idx = uint64(d)
			}
			data := c26Payload(sc.Seed, idx, opn, op.N)
			prev = m.clone()
			if err := q.Enqueue(&cdc.Event{Index: idx, Data: data}); err != nil {
				c.Violate("enqueue-error", "Enqueue(%d): %v", idx, err)
				return
			}
			if idx > m.highest {
				m.items[idx] = data
				m.highest = idx
				nEnq++
			} else {
				nIgn++ // at or below the highest key ever stored: must be ignored
			}
			synctest.Wait()
			lastMut = c26LastTxid(path) > txBefore // the operation committed a bbolt transaction
			if !observe(fmt.Sprintf("%d enq %d (%dB)", opn, idx, len(data))) {
				return
			}
		case "del":
			idx := uint64(int(m.highest+2) * op.F / 100)
			prev = m.clone()
			if err := q.DeleteRange(idx); err != nil {
				c.Violate("delete-error", "DeleteRange(%d): %v", idx, err)
				return
			}
			for k := range m.items {
				if k <= idx {
					delete(m.items, k)
					nDel++
				}
			}
			synctest.Wait()
			lastMut = c26LastTxid(path) > txBefore
			if !observe(fmt.Sprintf("%d del <=%d", opn, idx)) {
				return
			}
		case "consume":
			for i := 0; i < op.F; i++ {
				synctest.Wait() // the manager goroutine is parked in its select now
				var ev *cdc.Event
				select {
				case ev = <-q.C:
				default:
				}
				want, ok := m.next()
				switch {
				case ev == nil && !ok:
					c.Log.Add("%d consume -> nothing", opn)
				case ev == nil:
					c.Violate("not-emitted", "op %d: queue offers nothing but item %d is stored and not yet emitted (cursor %d, keys %v)", opn, want, m.cursor, m.keys())
					return
				case !ok:
					c.Violate("spurious-emit", "op %d: queue emitted %d but the model has nothing to emit (cursor %d, keys %v)", opn, ev.Index, m.cursor, m.keys())
					return
				case ev.Index != want:
					c.Violate("emit-order", "op %d: queue emitted %d, expected %d (cursor %d, keys %v)", opn, ev.Index, want, m.cursor, m.keys())
					return
				case !bytes.Equal(ev.Data, m.items[want]):
					c.Violate("emit-data", "op %d: item %d emitted with different data (%d bytes vs %d stored)", opn, want, len(ev.Data), len(m.items[want]))
					return
				default:
					c.Log.Add("%d consume -> %d", opn, ev.Index)
					m.cursor = want + 1
					nEmit++
				}
				if ev == nil {
					break
				}
			}
		case "reopen":
			q.Close()
			q = open()
			if q == nil {
				return
			}
			m.cursor = 0
			nReopen++
			if !observe(fmt.Sprintf("%d reopen", opn)) {
				return
			}
		case "image":
			synctest.Wait()
			b, err := os.ReadFile(path)
			if err != nil {
				panic(err)
			}
			img, imgModel = b, m.clone()
			c.Log.Add("%d image taken (%s)", opn, m.sig())
		case "crash":
			// process crash: only what the last image holds survives; everything the
			// still-running instance did afterwards is gone.
			if img == nil {
				synctest.Wait()
				b, err := os.ReadFile(path)
				if err != nil {
					panic(err)
				}
				img, imgModel = b, m.clone()
			}
			q.Close()
			if err := os.WriteFile(path, img, 0o600); err != nil {
				panic(err)
			}
			c.Fault("crash")
			nCrash++
			if !reopenAs(fmt.Sprintf("%d crash", opn), imgModel) {
				return
			}
			img, imgModel = nil, nil
			if !observe(fmt.Sprintf("%d crash-restart", opn)) {
				return
			}
		case "torn":
			// crash inside the previous operation: its data pages are on disk, its
			// meta page is not. Legal outcomes: the state before or after it.
			if !wasMut || prev == nil {
				continue
			}
			synctest.Wait()
			b, err := os.ReadFile(path)
			if err != nil {
				panic(err)
			}
			if !c26TearLastTx(b) {
				continue
			}
			q.Close()
			if err := os.WriteFile(path, b, 0o600); err != nil {
				panic(err)
			}
			c.Fault("torn-last-tx")
			nTorn++
			before := len(prev.items)
			if !reopenAs(fmt.Sprintf("%d torn", opn), prev, m) {
				return
			}
			if len(m.items) == before {
				c.Probe("torn_rolled_back")
			}
			img, imgModel = nil, nil
			if !observe(fmt.Sprintf("%d torn-restart", opn)) {
				return
			}
		}
	}
	c.ProbeN("enqueued", nEnq)
	c.ProbeN("enqueue_ignored_at_or_below_highest", nIgn)
	c.ProbeN("deleted_items", nDel)
	c.ProbeN("emitted", nEmit)
	c.ProbeN("reopens", nReopen)
	c.ProbeN("crash_restarts", nCrash)
	c.ProbeN("torn_restarts", nTorn)
	c.Res.Trivial = nEnq == 0 || nEmit == 0
	c.Sig(fmt.Sprintf("%d/%d/%d/%d/%s", nEnq, nIgn, nDel, nEmit, m.sig()))
}

func init() {
	core.Register(&core.Prop{ID: "C26", Bubble: true, Gen: c26Gen, Run: c26Run})
}
