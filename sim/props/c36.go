package props

import (
	"context"
	"encoding/json"
	"fmt"
	"sync"
	"time"

	"github.com/rqlite/rqlite/v10/store/throttler"
	"verifsim/core"
	"verifsim/sched"
)

// C36: the write throttle's level stays in its configured range: Signal raises
// it by one up to the maximum, Release lowers it by the release rate down to
// zero, it returns to zero after the idle timeout; Delay waits no longer than
// the delay current at its start and returns early when its context ends.
//
// Engine E3: a controller task (Signal/Release/Reset/cancel) and 1-2 delayer
// tasks (Delay with no/timeout/cancelled context) over the real Throttler; the
// seeded scheduler interleaves the calls and advances the fake clock, which
// drives the idle timer and the delays. Oracle: level model evaluated in the
// same scheduler step as each call; Delay must return exactly at
// min(start+delay, context end) in fake time.

type c36Op struct {
	T string `json:"t"`           // c | c2 | d0 | d1
	K string `json:"k"`           // signal release reset check sleep cancel delay
	A int    `json:"a,omitempty"` // sleep: ms; cancel: delayer index; delay: context timeout ms (0 none, -1 already cancelled)
}

type c36Scenario struct {
	Seed     uint64  `json:"seed"`
	DelaysMs []int   `json:"delays_ms"`
	Rate     int     `json:"rate"`
	IdleMs   int     `json:"idle_ms"`
	TickProb float64 `json:"tick"`
	Sticky   float64 `json:"sticky"`
	Ops      []c36Op `json:"ops"`
}

func c36Gen(r *core.Rand, tier string) any {
	sc := &c36Scenario{Seed: r.Uint64()}
	nl := r.Range(1, 7)
	d := 0
	sc.DelaysMs = []int{0}
	for i := 1; i < nl; i++ {
		d += []int{1, 5, 10, 50, 100, 300}[r.Intn(6)]
		sc.DelaysMs = append(sc.DelaysMs, d)
	}
	sc.Rate = r.Range(1, 3)
	sc.IdleMs = []int{0, 30, 100, 400, 2000}[r.Intn(5)]
	sc.TickProb = []float64{0.05, 0.2, 0.5}[r.Intn(3)]
	sc.Sticky = []float64{0, 0.5}[r.Intn(2)]
	nd := r.Range(1, 2)
	two := r.Bool(0.6) // two controller tasks
	n := r.Range(10, 60)
	sl := []int{1, 5, 10, 29, 30, 31, 50, 99, 100, 101, 150, 400, 401, 1000, 2000, 2001}
	for i := 0; i < n; i++ {
		if r.Bool(0.3) {
			op := c36Op{T: fmt.Sprintf("d%d", r.Intn(nd))}
			switch r.Weighted([]int{70, 30}) {
			case 0:
				op.K = "delay"
				switch r.Weighted([]int{40, 50, 10}) {
				case 0:
					op.A = 0
				case 1:
					op.A = sl[r.Intn(len(sl))]
				case 2:
					op.A = -1
				}
			case 1:
				op.K, op.A = "sleep", sl[r.Intn(len(sl))]
			}
			sc.Ops = append(sc.Ops, op)
			continue
		}
		op := c36Op{T: "c"}
		if two && r.Bool(0.4) {
			op.T = "c2"
		}
		switch r.Weighted([]int{45, 12, 8, 12, 13, 10}) {
		case 0:
			op.K = "signal"
		case 1:
			op.K = "release"
		case 2:
			op.K = "reset"
		case 3:
			op.K = "check"
		case 4:
			op.K, op.A = "sleep", sl[r.Intn(len(sl))]
		case 5:
			op.K, op.A = "cancel", r.Intn(nd)
		}
		sc.Ops = append(sc.Ops, op)
	}
	return sc
}

func c36Run(c *core.Ctx, raw json.RawMessage) {
	var sc c36Scenario
	if err := json.Unmarshal(raw, &sc); err != nil {
		panic(err)
	}
	c.Rng = core.NewRand(sc.Seed)
	s := sched.New(c, c.Rng)
	s.TickProb, s.Sticky = sc.TickProb, sc.Sticky
	s.Quanta = []time.Duration{time.Millisecond, 5 * time.Millisecond, 20 * time.Millisecond, 100 * time.Millisecond}
	s.MaxSteps = 4000
	s.Install()

	var delays []time.Duration
	for _, d := range sc.DelaysMs {
		delays = append(delays, time.Duration(d)*time.Millisecond)
	}
	idle := time.Duration(sc.IdleMs) * time.Millisecond
	th := throttler.New(delays, sc.Rate, idle)

	// ---- reference model
	mdelays := delays
	if len(mdelays) == 0 {
		mdelays = []time.Duration{0}
	}
	rate := sc.Rate
	if rate < 1 {
		rate = 1
	}
	var mu sync.Mutex
	level := 0
	armed := false
	var armedAt time.Time
	maxLevel := len(mdelays) - 1
	// The idle timeout is a timer callback (Reset) that runs on its own
	// goroutine: an operation that starts when the timer fires and takes effect
	// when it gets the lock. The yield hook in Reset parks it in between, so the
	// scheduler decides whether calls made at that moment come before or after
	// it. The model follows suit: when the deadline passes the timer must have
	// fired (a parked callback exists); when a parked callback has run, the
	// level is zero and the timer is stopped.
	inFlight := 0
	touch := func() {
		if idle > 0 {
			armed, armedAt = true, time.Now()
		}
		if inFlight > 0 {
			c.Probe("touch_overtook_fired_idle_reset")
		}
	}
	verify := func(who, after string) {
		// call with mu held, right after the real call
		got, gd := th.Level(), th.GetDelay()
		if got < 0 || got > maxLevel {
			s.Violate("level-out-of-range", "%s: after %s the level is %d, configured range is 0..%d", who, after, got, maxLevel)
			return
		}
		if got != level {
			s.Violate("level-mismatch", "%s: after %s the level is %d, the rules give %d (max %d, release rate %d, idle timeout %s)", who, after, got, level, maxLevel, rate, idle)
			return
		}
		if gd != mdelays[level] {
			s.Violate("delay-mismatch", "%s: after %s GetDelay() = %s, level %d means %s", who, after, gd, level, mdelays[level])
		}
	}

	type dstate struct {
		cancel   context.CancelFunc
		canceled bool
		cancelAt time.Time
	}
	curD := map[int]*dstate{}

	per := map[string][]c36Op{}
	for _, op := range sc.Ops {
		per[op.T] = append(per[op.T], op)
	}
	var tasks []*sched.Task
	controller := func(cname string) *sched.Task {
		return s.Go(cname, func(t *sched.Task) {
			for _, op := range per[cname] {
				if s.Freed() || s.Failed() {
					return
				}
				switch op.K {
				case "signal":
					t.Yield("h.signal")
					th.Signal()
					mu.Lock()
					if level < maxLevel {
						level++
					} else {
						c.Probe("signal_at_max")
					}
					touch()
					s.Logf("  %s signal -> %d", cname, level)
					verify(cname, "Signal")
					mu.Unlock()
				case "release":
					t.Yield("h.release")
					th.Release()
					mu.Lock()
					level -= rate
					if level < 0 {
						level = 0
						c.Probe("release_clamped_at_zero")
					}
					touch()
					s.Logf("  %s release -> %d", cname, level)
					verify(cname, "Release")
					mu.Unlock()
				case "reset":
					t.Yield("h.reset")
					th.Reset() // parks once more at its own yield point before taking the lock
					mu.Lock()
					level, armed = 0, false
					s.Logf("  %s reset", cname)
					verify(cname, "Reset")
					mu.Unlock()
				case "check":
					t.Yield("h.check")
					mu.Lock()
					s.Logf("  %s check level=%d", cname, level)
					verify(cname, "waiting")
					mu.Unlock()
				case "sleep":
					t.Yield("h.sleep")
					time.Sleep(time.Duration(op.A) * time.Millisecond)
				case "cancel":
					t.Yield("h.cancel")
					mu.Lock()
					ds := curD[op.A]
					if ds != nil && !ds.canceled {
						ds.canceled, ds.cancelAt = true, time.Now()
						ds.cancel()
						s.Logf("  %s cancel d%d", cname, op.A)
					}
					mu.Unlock()
				}
			}
		})
	}
	tasks = append(tasks, controller("c"))
	if len(per["c2"]) > 0 {
		// a second controller: Signal/Release/Reset of different goroutines queue
		// behind each other at the yield points before the throttler's lock
		tasks = append(tasks, controller("c2"))
	}
	for di := 0; di < 2; di++ {
		name := fmt.Sprintf("d%d", di)
		ops := per[name]
		if len(ops) == 0 {
			continue
		}
		tasks = append(tasks, s.Go(name, func(t *sched.Task) {
			for _, op := range ops {
				if s.Freed() || s.Failed() {
					return
				}
				switch op.K {
				case "sleep":
					t.Yield("h.sleep")
					time.Sleep(time.Duration(op.A) * time.Millisecond)
				case "delay":
					t.Yield("h.delay")
					base, cancel := context.WithCancel(context.Background())
					ctx := base
					var tmo context.CancelFunc
					if op.A > 0 {
						ctx, tmo = context.WithTimeout(base, time.Duration(op.A)*time.Millisecond)
					}
					ds := &dstate{cancel: cancel}
					t0 := time.Now()
					mu.Lock()
					d := mdelays[level]
					lv := level
					if op.A < 0 {
						ds.canceled, ds.cancelAt = true, t0
						cancel()
					}
					curD[di] = ds
					mu.Unlock()
					t.Doing = "delay"
					err := th.Delay(ctx)
					t.Doing = ""
					el := time.Since(t0)
					mu.Lock()
					curD[di] = nil
					// expected end: the delay, or the earliest end of the context
					end := d
					ctxEnd := time.Duration(-1)
					if op.A > 0 {
						ctxEnd = time.Duration(op.A) * time.Millisecond
					}
					if ds.canceled {
						if ce := ds.cancelAt.Sub(t0); ctxEnd < 0 || ce < ctxEnd {
							ctxEnd = ce
						}
					}
					if d > 0 && ctxEnd >= 0 && ctxEnd < end {
						end = ctxEnd
					}
					mu.Unlock()
					cancel()
					if tmo != nil {
						tmo()
					}
					s.Logf("  %s delay level=%d d=%s ctx=%d -> %s err=%v", name, lv, d, op.A, el, err != nil)
					switch {
					case el > d:
						s.Violate("delay-too-long", "%s: Delay waited %s, the delay at its start was %s (level %d)", name, el, d, lv)
					case el != end:
						s.Violate("delay-wrong-time", "%s: Delay returned after %s, expected %s (delay %s, context ends after %s)", name, el, end, d, ctxEnd)
					case err == nil && d > 0 && ctxEnd >= 0 && ctxEnd < d:
						s.Violate("delay-missed-cancel", "%s: Delay returned nil although its context ended after %s, before the delay %s", name, ctxEnd, d)
					case err != nil && (d == 0 || ctxEnd < 0 || ctxEnd > d):
						s.Violate("delay-spurious-error", "%s: Delay returned %v although the delay %s elapsed before the context ended (%s)", name, err, d, ctxEnd)
					}
					switch {
					case d == 0:
						s.Probe("delay_zero")
					case err == nil:
						s.Probe("delay_full")
					default:
						s.Probe("delay_cut_by_context")
					}
				}
			}
		}))
	}
	// at every quiescent point the level must be what the rules give (this is
	// where the idle timeout is observed without any call being made)
	parked := 0 // idle-reset callbacks parked before their lock, as of the previous step
	s.AfterStep = func() {
		mu.Lock()
		defer mu.Unlock()
		n := s.ParkedAnonAt("throttler.reset.pre")
		for ; parked > n; parked-- {
			// a fired idle reset has run
			if inFlight > 0 {
				inFlight--
				level, armed = 0, false
				c.Probe("idle_timeout_reset")
			} else {
				// not one the rules asked for: if it changed the level the comparison below reports it
				c.Probe("idle_callback_not_predicted")
			}
		}
		fired := n - parked
		parked = n
		if armed && idle > 0 && !time.Now().Before(armedAt.Add(idle)) {
			armed = false
			inFlight++
			fired--
			if fired < 0 && level > 0 {
				c.Violate("idle-timer-not-fired", "the idle timeout (%s) passed at %s with the level at %d, but no idle reset was started (last Signal/Release at %s)", idle, s.Now(), level, armedAt.Sub(s.Start))
				return
			}
		}
		got := th.Level()
		if got < 0 || got > maxLevel {
			c.Violate("level-out-of-range", "level is %d, configured range is 0..%d", got, maxLevel)
		} else if got != level {
			c.Violate("level-mismatch", "at %s the level is %d, the rules give %d (idle timeout %s, last Signal/Release at %s)", s.Now(), got, level, idle, armedAt.Sub(s.Start))
		}
	}
	s.RunUntil(func() bool {
		for _, t := range tasks {
			if !t.Done() {
				return false
			}
		}
		return true
	})
	// finally: with an idle timeout the level must be back at zero once the
	// timeout has passed and the fired reset has run
	if !c.Failed() && !s.Capped && idle > 0 {
		s.Tick(idle + time.Millisecond)
		s.AfterStep()
		s.RunUntil(func() bool { return s.Enabled() == 0 })
		if !c.Failed() && th.Level() != 0 {
			c.Violate("not-reset-after-idle", "level is %d although no signal arrived for %s (idle timeout %s)", th.Level(), idle+time.Millisecond, idle)
		}
	}
	s.Close()
	th.Reset() // stops the idle timer
	if s.Capped && !c.Failed() {
		c.Res.Verdict = core.Capped
	}
	c.Res.Trivial = len(sc.Ops) < 3
}

func init() {
	core.Register(&core.Prop{ID: "C36", Bubble: true, Gen: c36Gen, Run: c36Run})
}
