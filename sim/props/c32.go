package props

import (
	"context"
	"encoding/json"
	"fmt"
	"sort"
	"strings"
	"testing/synctest"
	"time"

	"github.com/rqlite/rqlite/v10/cluster"
	"github.com/rqlite/rqlite/v10/command/proto"
	"github.com/rqlite/rqlite/v10/store"
	"verifsim/core"
	"verifsim/node"
	"verifsim/sim"
	"verifsim/simnet"
)

// C32: membership changes keep node IDs and addresses unique, every node has
// the suffrage it asked for, and an unresponsive node is reaped only after the
// timeout configured for its role.
//
// One run = a cluster of at most 4 live nodes, formed either the classic way
// (node 1 bootstraps, the others join through the real cluster.Joiner) or by
// notify-driven bootstrap (every node runs the real cluster.Bootstrapper with
// BootstrapExpect = number of nodes), followed by a seeded history of: new
// nodes joining as voter / non-voter, members re-sending their join (same or
// changed suffrage), members moving to a new address (same id and data), new
// nodes that reuse the address of a dead member or the id of a member (with
// fresh data, on the same or a new address), removals (Store.Remove on the
// leader or the real cluster.Remover from another member), graceful stops and
// crashes (which make nodes unresponsive so that the leader reaps them),
// restarts, isolations, heals, stepdowns and time.
//
// Oracles: (I1) after EVERY scheduler step, on EVERY live node: no id and no
// address occurs twice in Store.Nodes(); (I2) whenever a membership request was
// acknowledged and the cluster has settled: every entry of the leader's
// configuration has a suffrage and an address the harness asked for (acked
// request = exactly that one; requests with unknown outcome widen the set);
// (I3) when an id vanishes from a leader's own configuration without any
// removal having been requested for it, it was reaped: the timeout of its role
// must be enabled and the leader must not have received any response from that
// node's address for longer than the timeout (network ground truth recorded by
// the simulator, not the node's own bookkeeping).

type c32Op struct {
	Kind string `json:"k"` // add rejoin readdr reuse_addr reuse_id remove stop crash restart isolate heal stepdown run
	N    int    `json:"n,omitempty"`
	M    int    `json:"m,omitempty"`
	V    bool   `json:"v,omitempty"`
	Ms   int    `json:"ms,omitempty"`
}

type c32Scenario struct {
	Seed     uint64     `json:"seed"`
	Boot     string     `json:"boot"` // classic | notify
	Nodes    int        `json:"nodes"`
	NonVoter bool       `json:"non_voter"` // classic boot: last initial node joins as non-voter
	BootPart bool       `json:"boot_part"` // notify boot: two nodes cannot talk to each other for the first seconds
	Knobs    node.Knobs `json:"knobs"`
	Tick     float64    `json:"tick"`
	Ops      []c32Op    `json:"ops"`
}

func c32Gen(r *core.Rand, tier string) any {
	sc := &c32Scenario{Seed: r.Uint64()}
	sc.Boot = "classic"
	if r.Bool(0.35) {
		sc.Boot = "notify"
	}
	sc.Nodes = r.Range(1, 3)
	if sc.Boot == "notify" {
		sc.Nodes = r.Range(2, 4)
		sc.BootPart = r.Bool(0.4)
	} else {
		sc.NonVoter = sc.Nodes >= 2 && r.Bool(0.3)
	}
	sc.Tick = []float64{0.03, 0.1, 0.2}[r.Intn(3)]
	hb := time.Duration(r.Range(2, 6)) * 100 * time.Millisecond
	sc.Knobs = node.Knobs{HeartbeatTimeout: hb, ElectionTimeout: hb, LeaderLeaseTimeout: hb / 2, ApplyTimeout: 4 * time.Second}
	// role-specific reap timeouts: different from each other; sometimes one is disabled
	rt := []time.Duration{0, 1500 * time.Millisecond, 3 * time.Second, 6 * time.Second}
	sc.Knobs.ReapTimeout = rt[r.Intn(len(rt))]
	for {
		sc.Knobs.ReapReadOnlyTimeout = rt[r.Intn(len(rt))]
		if sc.Knobs.ReapReadOnlyTimeout != sc.Knobs.ReapTimeout || sc.Knobs.ReapTimeout == 0 {
			break
		}
	}
	if sc.Boot == "notify" {
		sc.Knobs.BootstrapExpect = sc.Nodes
	}
	nops := r.Range(6, 15)
	for i := 0; i < nops; i++ {
		x := r.Intn(100)
		switch {
		case x < 18:
			sc.Ops = append(sc.Ops, c32Op{Kind: "add", V: r.Bool(0.55)})
		case x < 28:
			sc.Ops = append(sc.Ops, c32Op{Kind: "rejoin", N: r.Intn(8), V: r.Bool(0.5)})
		case x < 36:
			sc.Ops = append(sc.Ops, c32Op{Kind: "readdr", N: r.Intn(8), V: r.Bool(0.6)})
		case x < 43:
			sc.Ops = append(sc.Ops, c32Op{Kind: "reuse_addr", N: r.Intn(8), V: r.Bool(0.6)})
		case x < 50:
			sc.Ops = append(sc.Ops, c32Op{Kind: "reuse_id", N: r.Intn(8), M: r.Intn(2), V: r.Bool(0.6)})
		case x < 58:
			sc.Ops = append(sc.Ops, c32Op{Kind: "remove", N: r.Intn(8), M: r.Intn(2)})
		case x < 70:
			k := "stop"
			if r.Bool(0.5) {
				k = "crash"
			}
			// an unresponsive node followed by enough time for (some) reap timeout
			sc.Ops = append(sc.Ops, c32Op{Kind: k, N: r.Intn(8)}, c32Op{Kind: "run", Ms: r.Range(500, 9000)})
		case x < 76:
			sc.Ops = append(sc.Ops, c32Op{Kind: "restart", N: r.Intn(8)})
		case x < 82:
			sc.Ops = append(sc.Ops, c32Op{Kind: "isolate", N: r.Intn(8)}, c32Op{Kind: "run", Ms: r.Range(300, 8000)})
		case x < 88:
			sc.Ops = append(sc.Ops, c32Op{Kind: "heal"})
		case x < 92:
			sc.Ops = append(sc.Ops, c32Op{Kind: "stepdown"})
		default:
			sc.Ops = append(sc.Ops, c32Op{Kind: "run", Ms: r.Range(200, 7000)})
		}
	}
	return sc
}

type c32Want struct {
	addr string
	suf  proto.Suffrage
}

// c32Inst is one process incarnation: an identity (id), an address and a data directory.
type c32Inst struct {
	n          *node.Node
	superseded bool // its address or id was taken over by a newer instance: never restarted
}

type c32State struct {
	c  *core.Ctx
	s  *sim.Sim
	sc *c32Scenario

	insts   []*c32Inst
	nextID  int
	nextDir int

	want        map[string]*c32Want  // id -> last acknowledged request
	loose       map[string][]c32Want // id -> requests whose outcome is unknown: they may land at any later time
	gone        map[string]bool      // a removal of this id was requested and acknowledged, or a join for it is in progress
	looseRemove map[string]bool      // a removal of this id was requested with unknown outcome: it may land at any later time

	lastResp   map[[2]string]time.Time // [dialer host, responder host] -> time of last response bytes delivered
	cutSince   map[[2]string]time.Time // [from host, to host] -> instant since which "to" cannot answer "from" (down or partitioned); absent = reachable
	prevCfg    map[*node.Node]map[string]*store.Server
	prevLeader map[*node.Node]bool
	checks     int
	acked      int
}

func (st *c32State) live() []*c32Inst {
	var out []*c32Inst
	for _, in := range st.insts {
		if in.n.Up {
			out = append(out, in)
		}
	}
	return out
}

func (st *c32State) leader() *node.Node {
	var best *node.Node
	var bt uint64
	for _, in := range st.live() {
		if in.n.Store.IsLeader() {
			if t := in.n.Store.VerifReadState().Term; best == nil || t > bt {
				best, bt = in.n, t
			}
		}
	}
	return best
}

// newInst creates (does not start) an instance. Empty id/host/dir = fresh ones.
func (st *c32State) newInst(id, host, dir string) *c32Inst {
	n := st.s.AddNode(st.sc.Knobs)
	if id == "" {
		st.nextID++
		id = fmt.Sprintf("m%d", st.nextID)
	}
	n.ID = id
	if host != "" {
		n.HostName = host
		n.RaftAddr = fmt.Sprintf("%s:%d", host, node.RaftPort)
		n.HTTPAddr = fmt.Sprintf("%s:%d", host, node.HTTPPort)
	}
	if dir != "" {
		n.Dir = dir
	} else {
		st.nextDir++
		n.Dir = fmt.Sprintf("%s/d%02d", st.s.Dir, st.nextDir)
	}
	in := &c32Inst{n: n}
	st.insts = append(st.insts, in)
	return in
}

func (st *c32State) start(in *c32Inst) bool {
	var err error
	ok := st.s.Do("start "+in.n.ID+"@"+in.n.HostName, 120*time.Second, func() { err = in.n.Start() })
	if !ok || err != nil {
		st.c.Log.Add("%d start %s@%s failed: ok=%v err=%v", st.s.StepN, in.n.ID, in.n.HostName, ok, err)
		return false
	}
	st.refreshCuts()
	return true
}

func (st *c32State) stop(in *c32Inst) {
	if !in.n.Up {
		return
	}
	st.markUnreachable(in.n.HostName)
	in.n.Store.NoSnapshotOnClose = true
	st.s.Do("stop "+in.n.ID+"@"+in.n.HostName, 120*time.Second, func() { in.n.Stop() })
	delete(st.prevCfg, in.n)
	delete(st.prevLeader, in.n)
}

// markUnreachable records the first instant from which a host cannot respond to anybody.
func (st *c32State) markUnreachable(host string) {
	for _, a := range st.hosts() {
		if a != host {
			if _, ok := st.cutSince[[2]string{a, host}]; !ok {
				st.cutSince[[2]string{a, host}] = time.Now()
			}
		}
	}
}

func (st *c32State) hosts() []string {
	seen := map[string]bool{}
	var out []string
	for _, in := range st.insts {
		if !seen[in.n.HostName] {
			seen[in.n.HostName] = true
			out = append(out, in.n.HostName)
		}
	}
	return out
}

// refreshCuts brings the pairwise reachability record in line with the
// simulator's network and process state. Call right after every change of
// either (faults are only applied at quiescent points between steps).
func (st *c32State) refreshCuts() {
	now := time.Now()
	hs := st.hosts()
	for _, a := range hs {
		for _, b := range hs {
			if a == b {
				continue
			}
			key := [2]string{a, b}
			if !st.s.Net.Connected(a, b) {
				if _, ok := st.cutSince[key]; !ok {
					st.cutSince[key] = now
				}
			} else {
				delete(st.cutSince, key)
			}
		}
	}
}

func sufOf(voter bool) proto.Suffrage {
	if voter {
		return proto.Suffrage_VOTER
	}
	return proto.Suffrage_NON_VOTER
}

func (st *c32State) ack(id, addr string, suf proto.Suffrage) {
	st.want[id] = &c32Want{addr, suf}
}

// join sends a join request for instance in through the real Joiner to the
// live members and updates what the harness may expect.
func (st *c32State) join(in *c32Inst, voter bool, what string) bool {
	c, s := st.c, st.s
	var targets []string
	for _, m := range st.live() {
		if m != in {
			targets = append(targets, m.n.RaftAddr)
		}
	}
	if len(targets) == 0 {
		return false
	}
	id, addr, suf := in.n.ID, in.n.RaftAddr, sufOf(voter)
	// while the request runs the id may transiently vanish (Store.Join removes an
	// entry with a different address before adding the new one)
	st.gone[id] = true
	var err error
	var via string
	ok := s.Do(fmt.Sprintf("join %s %s@%s voter=%v", what, id, addr, voter), 90*time.Second, func() {
		j := cluster.NewJoiner(in.n.Cli, 3, 700*time.Millisecond)
		via, err = j.Do(context.Background(), targets, id, addr, suf)
	})
	c.Log.Add("%d join %s %s@%s voter=%v -> via=%s finished=%v err=%v", s.StepN, what, id, addr, voter, via, ok, err)
	if ok && err == nil {
		st.ack(id, addr, suf)
		st.gone[id] = false
		st.acked++
		c.Probe("join_acked_" + what)
		return true
	}
	// unknown outcome: the request (or a delayed copy of it) may still be applied at any later time
	st.loose[id] = append(st.loose[id], c32Want{addr, suf})
	c.Probe("join_unacked_" + what)
	return false
}

// ---------------------------------------------------------------- invariants

func c32Dup(ns []*store.Server) string {
	ids, addrs := map[string]bool{}, map[string]bool{}
	for _, sv := range ns {
		if ids[sv.ID] {
			return "id " + sv.ID
		}
		if addrs[sv.Addr] {
			return "address " + sv.Addr
		}
		ids[sv.ID], addrs[sv.Addr] = true, true
	}
	return ""
}

func c32Render(ns []*store.Server) string {
	var parts []string
	for _, sv := range ns {
		parts = append(parts, fmt.Sprintf("%s@%s/%v", sv.ID, sv.Addr, sv.Suffrage))
	}
	sort.Strings(parts)
	return strings.Join(parts, ",")
}

// onStep runs after every scheduler step: I1 on every live node, I3 on leaders.
func (st *c32State) onStep() {
	c := st.c
	if c.Failed() {
		return
	}
	synctest.Wait()
	now := time.Now()
	for _, in := range st.live() {
		n := in.n
		ns, err := n.Store.Nodes()
		if err != nil {
			continue
		}
		st.checks++
		if d := c32Dup(ns); d != "" {
			c.Violate("duplicate-member", "node %s@%s sees %s twice in its configuration [%s]", n.ID, n.HostName, d, c32Render(ns))
			return
		}
		isL := n.Store.IsLeader()
		cur := map[string]*store.Server{}
		for _, sv := range ns {
			cur[sv.ID] = sv
		}
		if isL && st.prevLeader[n] && st.prevCfg[n] != nil {
			var ids []string
			for id := range st.prevCfg[n] {
				if cur[id] == nil {
					ids = append(ids, id)
				}
			}
			sort.Strings(ids)
			for _, id := range ids {
				st.vanished(n, st.prevCfg[n][id], now)
			}
		}
		st.prevCfg[n], st.prevLeader[n] = cur, isL
	}
}

func (st *c32State) vanished(l *node.Node, old *store.Server, now time.Time) {
	c := st.c
	if st.gone[old.ID] || st.looseRemove[old.ID] || len(st.loose[old.ID]) > 0 {
		c.Probe("member_removed_on_request")
		return
	}
	// nobody asked for this removal: the leader reaped the node
	role, timeout := "voter", st.sc.Knobs.ReapTimeout
	if old.Suffrage != proto.Suffrage_VOTER {
		role, timeout = "non-voter", st.sc.Knobs.ReapReadOnlyTimeout
	}
	host := old.Addr
	if i := strings.LastIndex(host, ":"); i >= 0 {
		host = host[:i]
	}
	// Ground truth: the last instant at which any response bytes from that address
	// were delivered to a connection dialed by this leader. The leader's own
	// reference (last response it processed, or the start of its replication to
	// that node) can only be later or equal for a fresh observation, so a correct
	// implementation always satisfies "now - ref > timeout".
	ref := st.lastResp[[2]string{l.HostName, host}]
	silence := now.Sub(ref)
	if ref.IsZero() {
		// this leader never heard from that address at all: fall back to the instant
		// since which the harness knows that address cannot answer this leader
		if t, ok := st.cutSince[[2]string{l.HostName, host}]; ok {
			silence = now.Sub(t)
			ref = t
		}
	}
	c.Log.Add("%d leader %s reaped %s %s@%s: silence<=%s timeout=%s", st.s.StepN, l.ID, role, old.ID, old.Addr, silence, timeout)
	if timeout == 0 {
		c.Violate("reaped-while-disabled", "leader %s removed %s %s@%s although reaping of %ss is disabled (timeout 0) and nobody requested the removal", l.ID, role, old.ID, old.Addr, role)
		return
	}
	if !ref.IsZero() && silence <= timeout {
		c.Violate("reaped-early", "leader %s reaped %s %s@%s after at most %s without a response from it, but the timeout for %ss is %s (voters %s, non-voters %s)",
			l.ID, role, old.ID, old.Addr, silence, role, timeout, st.sc.Knobs.ReapTimeout, st.sc.Knobs.ReapReadOnlyTimeout)
		return
	}
	c.Probe("reaped_" + role)
	// a reaped id may come back later through a join
	st.gone[old.ID] = true
}

// settled: I2 on the leader's view once nothing is in flight.
func (st *c32State) checkRoles(when string) {
	c := st.c
	if c.Failed() {
		return
	}
	l := st.leader()
	if l == nil {
		return
	}
	ns, err := l.Store.Nodes()
	if err != nil {
		return
	}
	for _, sv := range ns {
		w := st.want[sv.ID]
		if w == nil && len(st.loose[sv.ID]) == 0 {
			c.Violate("unknown-member", "leader %s has %s@%s in its configuration [%s] but no such id was ever joined or bootstrapped (%s)", l.ID, sv.ID, sv.Addr, c32Render(ns), when)
			return
		}
		okSuf, okAddr := false, false
		var asked []string
		if w != nil {
			asked = append(asked, fmt.Sprintf("%s/%v (acknowledged)", w.addr, w.suf))
			okSuf, okAddr = w.suf == sv.Suffrage && w.addr == sv.Addr, w.addr == sv.Addr
		}
		for _, lw := range st.loose[sv.ID] {
			asked = append(asked, fmt.Sprintf("%s/%v (outcome unknown)", lw.addr, lw.suf))
			if lw.addr == sv.Addr {
				okAddr = true
				if lw.suf == sv.Suffrage {
					okSuf = true
				}
			}
		}
		if !okAddr {
			c.Violate("address-mismatch", "%s: %s is at %s in the configuration [%s] of leader %s, but it asked for %v", when, sv.ID, sv.Addr, c32Render(ns), l.ID, asked)
			return
		}
		if !okSuf {
			c.Violate("suffrage-mismatch", "%s: %s@%s is %v in the configuration [%s] of leader %s, but it asked for %v", when, sv.ID, sv.Addr, sv.Suffrage, c32Render(ns), l.ID, asked)
			return
		}
	}
	c.Probe("role_checks")
}

// settle waits (bounded) for a leader and for in-flight work to finish.
func (st *c32State) settle(d time.Duration) {
	st.s.RunUntil(func() bool { return st.leader() != nil && st.s.PendingTasks() == 0 }, d)
}

func (st *c32State) isolate(in *c32Inst) {
	var rest []string
	for _, m := range st.insts {
		if m.n.HostName != in.n.HostName {
			rest = append(rest, m.n.HostName)
		}
	}
	st.s.Net.Partition([]string{in.n.HostName}, rest)
}

// ---------------------------------------------------------------- run

func c32Run(c *core.Ctx, raw json.RawMessage) {
	var sc c32Scenario
	if err := json.Unmarshal(raw, &sc); err != nil {
		panic(err)
	}
	c.Rng = core.NewRand(sc.Seed)
	s := sim.New(c)
	s.TickProb = sc.Tick
	defer s.Shutdown()
	if sc.Nodes < 1 {
		sc.Nodes = 1
	}
	st := &c32State{c: c, s: s, sc: &sc,
		want: map[string]*c32Want{}, loose: map[string][]c32Want{}, gone: map[string]bool{}, looseRemove: map[string]bool{},
		lastResp: map[[2]string]time.Time{}, cutSince: map[[2]string]time.Time{},
		prevCfg: map[*node.Node]map[string]*store.Server{}, prevLeader: map[*node.Node]bool{}}
	s.Net.Tap = func(from, to *simnet.Conn, data []byte) {
		if to.IsDialer() {
			st.lastResp[[2]string{to.LocalHost(), from.LocalHost()}] = time.Now()
		}
	}
	s.OnStep = st.onStep
	defer func() { s.OnStep = nil }()

	// ---------------- formation
	switch sc.Boot {
	case "notify":
		var addrs []string
		for i := 0; i < sc.Nodes; i++ {
			in := st.newInst("", "", "")
			addrs = append(addrs, in.n.RaftAddr)
		}
		for _, in := range st.insts {
			if !st.start(in) {
				c.Discard("boot-start-failed")
				return
			}
			st.ack(in.n.ID, in.n.RaftAddr, proto.Suffrage_VOTER)
		}
		if sc.BootPart && sc.Nodes >= 2 {
			s.Net.Partition([]string{st.insts[0].n.HostName}, []string{st.insts[1].n.HostName})
			c.Fault("partition-during-bootstrap")
			st.refreshCuts()
		}
		for _, in := range st.insts {
			n := in.n
			s.Go("bootstrapper "+n.ID, func() {
				bs := cluster.NewBootstrapper(cluster.NewAddressProviderString(addrs), n.Cli)
				bs.Interval = time.Second
				done := func() bool { a, _ := n.Store.LeaderAddr(); return a != "" }
				bs.Boot(context.Background(), n.ID, n.RaftAddr, proto.Suffrage_VOTER, done, 40*time.Second)
			})
		}
		if sc.BootPart {
			s.RunFor(time.Duration(1+c.Rng.Intn(4)) * time.Second)
			s.Net.Heal()
			st.refreshCuts()
		}
		s.Drain(90 * time.Second)
		st.settle(30 * time.Second)
		if st.leader() == nil {
			c.Probe("notify_bootstrap_no_leader")
			c.Log.Add("%d notify bootstrap produced no leader", s.StepN)
		} else {
			c.Probe("notify_bootstrap_ok")
		}
	default:
		first := st.newInst("", "", "")
		var err error
		ok := s.Do("boot-1", 60*time.Second, func() {
			if err = first.n.Start(); err != nil {
				return
			}
			if err = first.n.Store.Bootstrap(store.NewServer(first.n.ID, first.n.RaftAddr, true)); err != nil {
				return
			}
			_, err = first.n.Store.WaitForLeader(30 * time.Second)
		})
		if !ok || err != nil {
			c.Discard(fmt.Sprintf("boot-failed: %v", err))
			return
		}
		st.ack(first.n.ID, first.n.RaftAddr, proto.Suffrage_VOTER)
		for i := 2; i <= sc.Nodes; i++ {
			in := st.newInst("", "", "")
			if !st.start(in) {
				c.Discard("boot-start-failed")
				return
			}
			st.join(in, !(sc.NonVoter && i == sc.Nodes), "new")
		}
	}
	st.settle(20 * time.Second)
	st.checkRoles("after formation")

	// ---------------- history
	pick := func(list []*c32Inst, k int) *c32Inst {
		if len(list) == 0 {
			return nil
		}
		return list[k%len(list)]
	}
	nonLeaders := func() []*c32Inst {
		l := st.leader()
		var out []*c32Inst
		for _, in := range st.live() {
			if in.n != l {
				out = append(out, in)
			}
		}
		return out
	}
	downs := func() []*c32Inst {
		var out []*c32Inst
		for _, in := range st.insts {
			if !in.n.Up && !in.superseded && in.n.Starts > 0 {
				out = append(out, in)
			}
		}
		return out
	}
	for _, op := range sc.Ops {
		if s.Capped || c.Failed() {
			break
		}
		switch op.Kind {
		case "add":
			if len(st.live()) >= 4 {
				continue
			}
			in := st.newInst("", "", "")
			if st.start(in) {
				st.join(in, op.V, "new")
			}
		case "rejoin":
			if in := pick(nonLeaders(), op.N); in != nil {
				st.join(in, op.V, "again")
			}
		case "readdr":
			old := pick(nonLeaders(), op.N)
			if old == nil {
				continue
			}
			st.stop(old)
			old.superseded = true
			in := st.newInst(old.n.ID, "", old.n.Dir) // same identity and data, new address
			if st.start(in) {
				st.join(in, op.V, "new-address")
			}
		case "reuse_addr":
			dead := pick(downs(), op.N)
			if dead == nil || len(st.live()) >= 4 {
				continue
			}
			dead.superseded = true
			in := st.newInst("", dead.n.HostName, "") // new identity, fresh data, address of a dead node
			if st.start(in) {
				st.join(in, op.V, "reused-address")
			}
		case "reuse_id":
			var cands []*c32Inst
			cands = append(cands, nonLeaders()...)
			cands = append(cands, downs()...)
			old := pick(cands, op.N)
			if old == nil {
				continue
			}
			if !old.n.Up && len(st.live()) >= 4 {
				continue
			}
			st.stop(old)
			old.superseded = true
			host := ""
			what := "reused-id-new-address"
			if op.M == 1 {
				host, what = old.n.HostName, "reused-id-same-address"
			}
			in := st.newInst(old.n.ID, host, "") // same id, fresh data
			if st.start(in) {
				st.join(in, op.V, what)
			}
		case "remove":
			l := st.leader()
			if l == nil {
				continue
			}
			ns, err := l.Store.Nodes()
			if err != nil {
				continue
			}
			var ids []string
			voters := 0
			for _, sv := range ns {
				if sv.Suffrage == proto.Suffrage_VOTER {
					voters++
				}
			}
			for _, sv := range ns {
				if sv.ID != l.ID && !(sv.Suffrage == proto.Suffrage_VOTER && voters <= 1) {
					ids = append(ids, sv.ID)
				}
			}
			if len(ids) == 0 {
				continue
			}
			id := ids[op.N%len(ids)]
			st.gone[id] = true
			var rerr error
			via := l
			if others := nonLeaders(); op.M == 1 && len(others) > 0 {
				via = others[0].n
			}
			ok := s.Do(fmt.Sprintf("remove %s via %s", id, via.ID), 60*time.Second, func() {
				if via == l {
					rerr = l.Store.Remove(context.Background(), &proto.RemoveNodeRequest{Id: id})
				} else {
					rerr = cluster.NewRemover(via.Cli, 5*time.Second, via.Store).Do(context.Background(), id, true)
				}
			})
			c.Log.Add("%d remove %s via %s finished=%v err=%v", s.StepN, id, via.ID, ok, rerr)
			if ok && rerr == nil {
				c.Probe("remove_acked")
				// the operator decommissions the removed process
				for _, in := range st.live() {
					if in.n.ID == id {
						st.stop(in)
						in.superseded = true
					}
				}
			} else {
				st.looseRemove[id] = true
				c.Probe("remove_unacked")
			}
		case "stop", "crash":
			in := pick(nonLeaders(), op.N)
			if in == nil {
				continue
			}
			c.Log.Add("%d %s %s@%s", s.StepN, op.Kind, in.n.ID, in.n.HostName)
			if op.Kind == "crash" {
				st.markUnreachable(in.n.HostName)
				// find the simulator index of the node object
				for i, n := range s.Nodes {
					if n == in.n {
						if err := s.Crash(i); err != nil {
							c.Discard("crash-failed: " + err.Error())
							return
						}
					}
				}
				delete(st.prevCfg, in.n)
				delete(st.prevLeader, in.n)
			} else {
				st.stop(in)
				c.Fault("stop")
			}
		case "restart":
			in := pick(downs(), op.N)
			if in == nil || len(st.live()) >= 4 {
				continue
			}
			if st.start(in) {
				c.Fault("restart")
				c.Log.Add("%d restarted %s@%s", s.StepN, in.n.ID, in.n.HostName)
			}
		case "isolate":
			if in := pick(st.live(), op.N); in != nil {
				st.isolate(in)
				st.refreshCuts()
				c.Fault("isolate")
				c.Log.Add("%d isolate %s@%s", s.StepN, in.n.ID, in.n.HostName)
			}
		case "heal":
			s.Net.Heal()
			st.refreshCuts()
			c.Fault("heal")
			c.Log.Add("%d heal", s.StepN)
		case "stepdown":
			if l := st.leader(); l != nil && len(st.live()) > 1 {
				var err error
				s.Do("stepdown", 30*time.Second, func() { err = l.Store.Stepdown(true, "") })
				c.Log.Add("%d stepdown %s err=%v", s.StepN, l.ID, err)
				if err == nil {
					c.Fault("stepdown")
				}
			}
		case "run":
			s.RunFor(time.Duration(op.Ms) * time.Millisecond)
		}
		if op.Kind != "run" && op.Kind != "isolate" && op.Kind != "stop" && op.Kind != "crash" {
			st.settle(10 * time.Second)
			st.checkRoles("after " + op.Kind)
		}
	}
	if c.Failed() {
		return
	}
	// final: faults stop, everything that is still running converges
	s.Net.Heal()
	st.refreshCuts()
	st.settle(30 * time.Second)
	s.RunFor(2 * time.Second)
	st.checkRoles("at the end")
	c.ProbeN("config_checks", st.checks)
	c.Res.Trivial = st.acked == 0 && sc.Boot == "classic" && sc.Nodes == 1
	if l := st.leader(); l != nil {
		cfg, _, _ := opsConfig(l)
		c.Sig(cfg)
	}
}

func init() {
	core.Register(&core.Prop{ID: "C32", Bubble: true, Gen: c32Gen, Run: c32Run})
}
