package props

import (
	"encoding/json"
	"fmt"
	"io"
	"os"
	"path/filepath"
	"strings"
	"time"

	"github.com/rqlite/rqlite/v10/snapshot"
	"verifsim/core"
	"verifsim/crash"
	"verifsim/sim"
	"verifsim/snapsim"
)

// C07: reaping (consolidating) snapshots is crash-safe. Engine E2 at the level
// of the real snapshot.Store. A store shape is built from a real SQLite history
// through the real sinks; Reap() runs once with a directory image taken at
// EVERY hook occurrence (plus derived "torn" images for operations cut in
// flight); every image is recovered by a new NewStore at the same path; every
// hook occurrence of that recovery is imaged and recovered once more.

type c07Op struct {
	K string `json:"k"`           // full | stage | install | inc | reap
	N int    `json:"n,omitempty"` // inc: number of WAL files in the snapshot; full/install/inc: statements written before
	W int    `json:"w,omitempty"` // statements per write burst
}

type c07Scenario struct {
	Seed     uint64  `json:"seed"`
	NoVerify bool    `json:"no_verify,omitempty"` // Store.SetNoVerifyDB(true): the plan has no verify_db step
	Depth    int     `json:"depth"`               // 1 = crash the reap, 2 = also crash every recovery run
	Torn     bool    `json:"torn"`                // derive images for operations cut in flight
	SameMs   bool    `json:"same_ms,omitempty"`   // no time passes between the last snapshot and the reap (ids embed the clock in ms)
	Ops      []c07Op `json:"ops"`
}

// shape -> ops: `olders` earlier full snapshots, then a full carrying fw WALs
// (install shape when fw > 0), then one incremental per entry of incs with that
// many WAL files.
func c07Shape(olders, fw int, incs []int, w int) []c07Op {
	var ops []c07Op
	for i := 0; i < olders; i++ {
		ops = append(ops, c07Op{K: "full", W: w})
	}
	if fw == 0 {
		ops = append(ops, c07Op{K: "full", W: w})
	} else {
		if olders == 0 {
			ops = append(ops, c07Op{K: "full", W: w}) // a base must exist before WALs can be captured; it becomes an older full
		}
		for i := 0; i < fw; i++ {
			ops = append(ops, c07Op{K: "stage", W: w})
		}
		ops = append(ops, c07Op{K: "install", W: w})
	}
	for _, m := range incs {
		ops = append(ops, c07Op{K: "inc", N: m, W: w})
	}
	return ops
}

func c07Gen(r *core.Rand, tier string) any {
	sc := &c07Scenario{Seed: r.Uint64(), Depth: 2, Torn: true}
	sc.NoVerify = r.Bool(0.3)
	olders := r.Weighted([]int{4, 3, 2})
	fw := r.Weighted([]int{5, 3, 2})
	n := r.Weighted([]int{1, 4, 4, 3})
	var incs []int
	for i := 0; i < n; i++ {
		incs = append(incs, 1+r.Weighted([]int{3, 2}))
	}
	w := r.Range(1, 6)
	sc.Ops = c07Shape(olders, fw, incs, w)
	sc.SameMs = r.Bool(0.15)
	// sometimes an earlier, uninterrupted reap in the middle of the history
	if len(sc.Ops) > 2 && r.Bool(0.25) {
		at := r.Range(2, len(sc.Ops)-1)
		ops := append([]c07Op(nil), sc.Ops[:at]...)
		ops = append(ops, c07Op{K: "reap"})
		sc.Ops = append(ops, sc.Ops[at:]...)
	}
	return sc
}

func c07Enumerate(tier string) []any {
	var out []any
	add := func(olders, fw int, incs []int, nv bool) {
		out = append(out, &c07Scenario{Seed: uint64(1000 + len(out)), Depth: 2, Torn: true, NoVerify: nv, Ops: c07Shape(olders, fw, incs, 3)})
	}
	if tier != "thorough" {
		add(1, 0, []int{1, 2}, false)
		add(0, 2, []int{2}, false)
		add(2, 0, nil, false)
		add(1, 1, []int{1, 1, 2}, true)
		out = append(out, &c07Scenario{Seed: 1999, Depth: 2, Torn: true, SameMs: true, Ops: c07Shape(1, 2, nil, 3)})
		return out
	}
	var incsets [][]int
	incsets = append(incsets, nil)
	for n := 1; n <= 3; n++ {
		for mask := 0; mask < 1<<n; mask++ {
			var s []int
			for i := 0; i < n; i++ {
				s = append(s, 1+(mask>>i)&1)
			}
			incsets = append(incsets, s)
		}
	}
	for olders := 0; olders <= 2; olders++ {
		for fw := 0; fw <= 2; fw++ {
			for _, incs := range incsets {
				add(olders, fw, incs, (olders+fw+len(incs))%3 == 0)
			}
		}
	}
	for fw := 0; fw <= 2; fw++ {
		for n := 0; n <= 1; n++ {
			out = append(out, &c07Scenario{Seed: uint64(3000 + len(out)), Depth: 2, Torn: true, SameMs: true, Ops: c07Shape(1, fw, []int{1, 2}[:n], 3)})
		}
	}
	return out
}

type c07Expect struct {
	index, term uint64
	dump        string
}

// c07Judge checks an opened store against the expectation; it closes the store.
func c07Judge(c *core.Ctx, st *snapshot.Store, root, tmp string, want c07Expect, trail string, deep, noVerify bool) {
	defer func() {
		if st != nil {
			st.Close()
		}
	}()
	check := func(st *snapshot.Store, stage string) bool {
		metas, err := st.List()
		if err != nil {
			c.Violate("list-failed", "%s: %s: List: %s", trail, stage, snapsim.Scrub(root, err))
			return false
		}
		if len(metas) != 1 {
			c.Violate("newest-missing", "%s: %s: List returned %d snapshots, want the newest one (index %d term %d); dir: %s",
				trail, stage, len(metas), want.index, want.term, snapsim.Listing(root))
			return false
		}
		if metas[0].Index != want.index || metas[0].Term != want.term {
			c.Violate("newest-index-term", "%s: %s: newest snapshot is index %d term %d, before the reap it was index %d term %d; dir: %s",
				trail, stage, metas[0].Index, metas[0].Term, want.index, want.term, snapsim.Listing(root))
			return false
		}
		res, err := snapsim.Resolve(st, metas[0].ID, tmp)
		if err != nil {
			c.Violate("newest-unresolvable", "%s: %s: newest snapshot %s does not resolve: %s; dir: %s",
				trail, stage, metas[0].ID, snapsim.Scrub(root, err), snapsim.Listing(root))
			return false
		}
		if res.Dump != want.dump {
			c.Violate("content-differs", "%s: %s: database restored from newest snapshot differs from the one resolved before the reap: %s",
				trail, stage, sim.FirstDiff(want.dump, res.Dump))
			return false
		}
		return true
	}
	if !check(st, "after open") {
		return
	}
	for _, name := range []string{"REAP_PLAN", "REAP_PLAN.tmp"} {
		if _, err := os.Stat(filepath.Join(root, name)); err == nil {
			c.Violate("plan-leftover", "%s: %s still present after a successful open; dir: %s", trail, name, snapsim.Listing(root))
			return
		}
	}
	if !deep {
		return
	}
	// a further start and a further reap must work on what recovery left behind
	st.Close()
	st = nil
	st2, err := snapsim.OpenStore(root)
	if err != nil {
		c.Violate("reopen-failed", "%s: second open failed: %s; dir: %s", trail, snapsim.Scrub(root, err), snapsim.Listing(root))
		return
	}
	st = st2
	st2.SetNoVerifyDB(noVerify)
	if _, _, err := st2.Reap(); err != nil {
		c.Violate("later-reap-failed", "%s: reap after recovery failed: %s; dir: %s", trail, snapsim.Scrub(root, err), snapsim.Listing(root))
		return
	}
	check(st2, "after later reap")
}

func c07Run(c *core.Ctx, raw json.RawMessage) {
	var sc c07Scenario
	if err := json.Unmarshal(raw, &sc); err != nil {
		panic(err)
	}
	c.Rng = core.NewRand(sc.Seed)
	rng := c.Rng
	if sc.Depth < 1 {
		sc.Depth = 1
	}
	root := filepath.Join(c.Dir, "raft", "wsnapshots")
	tmp := filepath.Join(c.Dir, "tmp")
	src, err := snapsim.NewSource(filepath.Join(c.Dir, "src"), rng.Fork(1))
	if err != nil {
		panic(err)
	}
	defer src.Close()
	st, err := snapsim.OpenStore(root)
	if err != nil {
		panic(err)
	}
	closeSt := func() {
		if st != nil {
			st.Close()
			st = nil
		}
	}
	defer closeSt()
	st.SetNoVerifyDB(sc.NoVerify)

	index, term := uint64(10), uint64(2)
	var shape []string
	var lastDump string
	have := 0
	persist := func(rc io.ReadCloser) error {
		defer rc.Close()
		index += uint64(rng.Range(1, 9))
		if rng.Bool(0.2) {
			term++
		}
		sink, err := st.Create(1, index, term, snapsim.Config(), 1, nil)
		if err != nil {
			return err
		}
		if _, err := snapsim.Pump(sink, rc, rng, -1, -1); err != nil {
			sink.Cancel()
			return err
		}
		return sink.Close()
	}
	for i, op := range sc.Ops {
		time.Sleep(time.Duration(rng.Range(2, 2000)) * time.Millisecond)
		w := op.W
		if w <= 0 {
			w = 1
		}
		fail := func(err error) {
			panic(fmt.Sprintf("harness: build op %d %s: %v", i, op.K, err))
		}
		switch op.K {
		case "full", "install":
			if err := src.Write(w); err != nil {
				fail(err)
			}
			if op.K == "install" && have > 0 && src.WALsSinceBase() > 0 {
				rc, n, err := src.InstallStreamer(filepath.Join(c.Dir, "install"))
				if err != nil {
					fail(err)
				}
				// content = state at the last captured WAL; writes since then stay in the live WAL
				if err := persist(rc); err != nil {
					c.Violate("build-sink-failed", "install sink failed: %s", snapsim.Scrub(c.Dir, err))
					return
				}
				src.ClearStaging()
				shape = append(shape, fmt.Sprintf("F%d", n))
				have++
				break
			}
			rc, err := src.Full()
			if err != nil {
				fail(err)
			}
			if lastDump, err = src.Dump(); err != nil {
				fail(err)
			}
			if err := persist(rc); err != nil {
				c.Violate("build-sink-failed", "full sink failed: %s", snapsim.Scrub(c.Dir, err))
				return
			}
			shape = append(shape, "F0")
			have++
		case "stage":
			if have == 0 {
				continue
			}
			if err := src.Write(w); err != nil {
				fail(err)
			}
			if err := src.StageWAL(); err != nil {
				fail(err)
			}
			if lastDump, err = src.Dump(); err != nil {
				fail(err)
			}
		case "inc":
			if due, _ := st.DueNext(); due == snapshot.Full || have == 0 {
				continue
			}
			n := op.N
			if n < 1 {
				n = 1
			}
			for k := src.StagedWALs(); k < n; k++ {
				if err := src.Write(w); err != nil {
					fail(err)
				}
				if err := src.StageWAL(); err != nil {
					fail(err)
				}
			}
			nw := src.StagedWALs()
			if lastDump, err = src.Dump(); err != nil {
				fail(err)
			}
			rc, err := src.IncrementalStreamer()
			if err != nil {
				fail(err)
			}
			if err := persist(rc); err != nil {
				c.Violate("build-sink-failed", "incremental sink failed: %s", snapsim.Scrub(c.Dir, err))
				return
			}
			src.StagingMoved()
			shape = append(shape, fmt.Sprintf("I%d", nw))
			have++
		case "reap":
			if have == 0 {
				continue
			}
			if _, _, err := st.Reap(); err != nil {
				c.Violate("reap-failed", "uninterrupted reap during build failed: %s", snapsim.Scrub(c.Dir, err))
				return
			}
			shape = append(shape, "R")
		}
	}
	c.Log.Add("shape %s noverify=%v", strings.Join(shape, " "), sc.NoVerify)
	c.Sig(strings.Join(shape, " "))
	if have == 0 {
		c.Res.Trivial = true
		return
	}
	if !sc.SameMs {
		time.Sleep(time.Duration(rng.Range(2, 2000)) * time.Millisecond)
	} else {
		c.Probe("reap_in_same_ms_as_last_snapshot")
	}

	// what the newest snapshot is and resolves to before the reap
	metas, err := st.List()
	if err != nil || len(metas) != 1 {
		c.Violate("list-failed", "List before reap: %v (%d)", err, len(metas))
		return
	}
	res, err := snapsim.Resolve(st, metas[0].ID, tmp)
	if err != nil {
		c.Violate("newest-unresolvable", "before reap: %s", snapsim.Scrub(c.Dir, err))
		return
	}
	if metas[0].Index != index || metas[0].Term != term {
		c.Violate("build-newest", "newest before reap is %d/%d, last persisted %d/%d", metas[0].Index, metas[0].Term, index, term)
		return
	}
	if res.Dump != lastDump {
		c.Violate("build-content", "newest snapshot does not resolve to the source database at that point: %s", sim.FirstDiff(lastDump, res.Dump))
		return
	}
	want := c07Expect{index: metas[0].Index, term: metas[0].Term, dump: res.Dump}
	all, _ := st.ListAll()
	c.Log.Add("before reap: %d snapshots, newest %d/%d, %d WALs in chain", len(all), want.index, want.term, res.NWALs)
	if len(all) > 1 || res.NWALs > 0 {
		c.Probe("reap_has_work")
	} else {
		c.Probe("reap_noop")
	}
	if res.NWALs >= 2 {
		c.Probe("multi_wal_checkpoint")
	}

	en := &snapsim.Enum{C: c, Root: root, ImgBase: filepath.Join(c.Dir, "img"), MaxDepth: sc.Depth}
	if sc.Torn {
		trng := rng.Fork(2)
		en.Torn = func(im crash.Image, op int) []crash.Image {
			if op < 0 {
				return nil
			}
			return snapsim.TornVariants(im, root, "REAP_PLAN", op, trng)
		}
	}
	en.OnStartFailed = func(trail string, err error) {
		c.Violate("open-failed", "crash at %s: next NewStore failed: %s; dir: %s", trail, snapsim.Scrub(root, err), snapsim.Listing(root))
	}
	en.Recover = func() (func(string), error) {
		if _, err := os.Stat(filepath.Join(root, "REAP_PLAN")); err == nil {
			c.Probe("recovery_found_plan")
		}
		s2, err := snapsim.OpenStore(root)
		if err != nil {
			return nil, err
		}
		s2.SetNoVerifyDB(sc.NoVerify)
		return func(trail string) { c07Judge(c, s2, root, tmp, want, "crash at "+trail, true, sc.NoVerify) }, nil
	}

	// the reap itself, imaged at every hook occurrence
	var rerr error
	imgs, rec := en.Record(func() { _, _, rerr = st.Reap() })
	if rerr != nil {
		// The reap was cut short by its own error: the directory as it is now is one
		// more interrupted state the next start has to cope with (judged below, last).
		c.Probe("reap_returned_error")
		c.Log.Add("reap returned error: %s", snapsim.Scrub(root, rerr))
	}
	points := map[string]int{}
	for _, h := range rec.Hits {
		points[h.Point]++
	}
	c.Log.Add("reap: %d hook occurrences, %d distinct images (+torn: %d)", len(rec.Hits), len(rec.Images), len(imgs)-len(rec.Images))
	c.ProbeN("crash_between_wals", points["plan.checkpoint.after-wal-move"])
	c.ProbeN("crash_around_plan_ops", points["plan.execute.before-op"])
	c.ProbeN("torn_images", len(imgs)-len(rec.Images))
	stLive := st
	st = nil
	if rerr == nil {
		// uninterrupted outcome
		c07Judge(c, stLive, root, tmp, want, "no crash", false, sc.NoVerify)
	} else {
		stLive.Close()
		s2, err := snapsim.OpenStore(root)
		if err != nil {
			c.Violate("open-failed", "Reap returned %q and left the store unable to start: next NewStore failed: %s; dir: %s",
				snapsim.Scrub(root, rerr), snapsim.Scrub(root, err), snapsim.Listing(root))
			return
		}
		s2.SetNoVerifyDB(sc.NoVerify)
		c07Judge(c, s2, root, tmp, want, "reap returned an error ("+snapsim.Scrub(root, rerr)+")", true, sc.NoVerify)
	}
	if c.Failed() {
		return
	}
	en.Explore(imgs, 1, "")
	c.ProbeN("cases_first_crash", en.Explored[1])
	c.ProbeN("cases_second_crash", en.Explored[2])
	c.ProbeN("states_memo_skipped", en.Skipped)
	c.Fault("crash_image")
	c.Res.Faults["crash_image"] += en.Explored[1] + en.Explored[2] - 1
	if en.Explored[1] == 0 {
		c.Res.Trivial = true
	}
}

func init() {
	core.Register(&core.Prop{ID: "C07", Bubble: true, Gen: c07Gen, Run: c07Run, Enumerate: c07Enumerate})
}
