package props

import (
	"bytes"
	"compress/gzip"
	"context"
	"database/sql"
	"encoding/binary"
	"encoding/hex"
	"encoding/json"
	"errors"
	"fmt"
	"io"
	"net/http"
	"net/http/httptest"
	"os"
	"path/filepath"
	"sort"
	"strings"
	"time"

	clstrPB "github.com/rqlite/rqlite/v10/cluster/proto"
	"github.com/rqlite/rqlite/v10/command/proto"
	pb "google.golang.org/protobuf/proto"
	"verifsim/core"
	"verifsim/node"
	"verifsim/sim"
	"verifsim/simnet"
)

// C21: every successful backup (binary, DELETE-mode, vacuumed, compressed, SQL
// dump; served locally or fetched from the leader through another node) is a
// complete database logically equal to the committed state at one point in
// time, even while writes are in flight; a backup that cannot be produced or
// transferred completely is reported as an error.
//
// Engine E1, 3 real nodes with the real HTTP service. Writer clients run
// transactions that keep a cross-table invariant (paired rows in tables a and
// b, a zero-sum balance table, a monotone counter). Backups are taken in every
// format/flag combination through Store.Backup, Proxy.Backup and GET
// /db/backup; the destination is a harness writer that parks between Write
// calls so that the driver interleaves writes, snapshots (= checkpoints) and
// time mid-copy. For backups fetched from the leader through a follower the
// inter-node stream is cut at a seeded byte position (clean end-of-stream, as
// after the death of the serving process, or reset).

// ---------------------------------------------------------------- scenario

type c21Op struct {
	Kind   string `json:"k"` // w | snap | backup | sweep | run | stepdown
	Client int    `json:"c,omitempty"`
	Node   int    `json:"n,omitempty"` // 0 = current leader, -1/-2 = first/second follower, >0 = that node
	Gap    int    `json:"gap,omitempty"`
	Ms     int    `json:"ms,omitempty"`
	Del    int    `json:"del,omitempty"` // w: >0 => also delete the rows of an earlier acked transaction (picked by Del)

	// backup / sweep
	Via      string `json:"via,omitempty"` // store | proxy | http
	Format   string `json:"fmt,omitempty"` // binary | delete | sql
	Vacuum   bool   `json:"vac,omitempty"`
	Compress bool   `json:"gz,omitempty"`
	Tables   string `json:"tables,omitempty"` // sql only: comma separated filter
	NoLeader bool   `json:"noleader,omitempty"`
	Parks    []int  `json:"parks,omitempty"` // indexes of destination Write calls after which the writer parks
	Hold     int    `json:"hold,omitempty"`  // ops executed while parked, per park
	CutAbs   int    `json:"cut_abs,omitempty"`
	CutPm    int    `json:"cut_pm,omitempty"` // cut position in permille of the stream written so far
	Cut      bool   `json:"cut,omitempty"`
	CutFin   bool   `json:"cut_fin,omitempty"`
	TimeoutS int    `json:"timeout_s,omitempty"`
	// sweep: cut positions From, From+Stride, ... < To (To=0: end of stream)
	From   int `json:"from,omitempty"`
	To     int `json:"to,omitempty"`
	Stride int `json:"stride,omitempty"`
}

type c21Scenario struct {
	Seed    uint64     `json:"seed"`
	Clients int        `json:"clients"`
	Preload int        `json:"preload"`
	PadMax  int        `json:"pad_max"`
	Knobs   node.Knobs `json:"knobs"`
	Tick    float64    `json:"tick"`
	Split   float64    `json:"split"`
	Window  int        `json:"window,omitempty"` // send window of the serving node on inter-node backup streams (0 = unlimited)
	Ops     []c21Op    `json:"ops"`
}

var c21TableFilters = []string{"a", "a,b", "b,ctr", "a,bal", "b"}

func c21GenBackup(r *core.Rand, sc *c21Scenario, rowsSoFar int) c21Op {
	op := c21Op{Kind: "backup", Gap: r.Intn(6)}
	switch r.Weighted([]int{4, 2, 5}) {
	case 0: // served by the leader itself
		op.Node = 0
		op.Via = []string{"store", "proxy", "http"}[r.Intn(3)]
	case 1: // served by a follower from its own copy
		op.Node = -1 - r.Intn(2)
		op.NoLeader = true
		op.Via = []string{"store", "proxy", "http"}[r.Intn(3)]
	default: // fetched from the leader through a follower
		op.Node = -1 - r.Intn(2)
		op.Via = []string{"proxy", "http"}[r.Intn(2)]
		if r.Bool(0.55) {
			op.Cut = true
			op.CutFin = r.Bool(0.6)
			if r.Bool(0.3) {
				op.CutAbs = r.Intn(48)
				op.CutPm = -1
			} else {
				op.CutAbs = -1
				op.CutPm = r.Intn(1000)
			}
		}
	}
	op.Format = []string{"binary", "binary", "delete", "sql", "sql"}[r.Intn(5)]
	if op.Format == "binary" {
		op.Vacuum = r.Bool(0.4)
	}
	op.Compress = r.Bool(0.4)
	if op.Format == "sql" && r.Bool(0.35) {
		op.Tables = c21TableFilters[r.Intn(len(c21TableFilters))]
	}
	np := r.Intn(5)
	for i := 0; i < np; i++ {
		if r.Bool(0.5) {
			op.Parks = append(op.Parks, r.Intn(4))
		} else {
			op.Parks = append(op.Parks, r.Intn(2*rowsSoFar+6))
		}
	}
	op.Hold = r.Range(1, 5)
	op.TimeoutS = []int{3, 10, 40}[r.Intn(3)]
	return op
}

func c21Gen(r *core.Rand, tier string) any {
	sc := &c21Scenario{Seed: r.Uint64()}
	sc.Clients = r.Range(1, 3)
	sc.Preload = r.Range(5, 50)
	sc.PadMax = []int{300, 1000, 1600}[r.Intn(3)]
	sc.Tick = []float64{0.02, 0.08, 0.2}[r.Intn(3)]
	if r.Bool(0.3) {
		sc.Split = 0.05
	}
	sc.Window = []int{0, 4096, 4096, 16384, 16384, 65536}[r.Intn(6)]
	sc.Knobs = node.Knobs{ApplyTimeout: 5 * time.Second}
	if r.Bool(0.5) {
		sc.Knobs.SnapshotThreshold = uint64(r.Range(4, 16))
		sc.Knobs.SnapshotInterval = time.Duration(r.Range(1, 3)) * time.Second
	}
	stepdowns := r.Bool(0.3)
	nops := r.Range(25, 80)
	if tier == "thorough" && r.Bool(0.3) {
		nops = r.Range(80, 200)
	}
	nb, rows := 0, sc.Preload
	sweeps, stress := 0, 0
	for i := 0; i < nops; i++ {
		x := r.Intn(100)
		switch {
		case x < 50:
			sc.Ops = append(sc.Ops, c21Op{Kind: "w", Client: r.Intn(sc.Clients), Node: r.Intn(4), Gap: r.Intn(8)})
			rows++
		case x < 57:
			sc.Ops = append(sc.Ops, c21Op{Kind: "w", Client: r.Intn(sc.Clients), Node: r.Intn(4), Gap: r.Intn(8), Del: 1 + r.Intn(1000)})
			rows++
		case x < 66:
			sc.Ops = append(sc.Ops, c21Op{Kind: "snap", Node: r.Intn(4), Gap: r.Intn(5)})
		case x < 86:
			if nb < 10 {
				bo := c21GenBackup(r, sc, rows)
				sc.Ops = append(sc.Ops, bo)
				nb++
				binaryCopy := bo.Format == "binary" && !bo.Vacuum
				forwarded := bo.Node < 0 && !bo.NoLeader
				if (binaryCopy && r.Bool(0.8)) || (len(bo.Parks) > 0 && r.Bool(0.4)) {
					burst, nrows := c21GenBurst(r, sc, &bo, forwarded)
					sc.Ops[len(sc.Ops)-1] = bo
					sc.Ops = append(sc.Ops, burst...)
					rows += nrows
					if binaryCopy {
						stress++
					}
				}
			}
		case x < 89:
			if sweeps < 1 {
				sweeps++
				op := c21Op{Kind: "sweep", Node: -1 - r.Intn(2), Via: []string{"proxy", "http"}[r.Intn(2)],
					Format: []string{"binary", "delete", "sql"}[r.Intn(3)], Compress: r.Bool(0.5), CutFin: r.Bool(0.7), TimeoutS: 3}
				if tier == "thorough" {
					op.Stride = 1
					op.From = r.Intn(4096)
					op.To = op.From + 256
				} else {
					op.Stride = r.Range(50, 400)
					op.From = r.Intn(op.Stride)
					op.To = op.From + 12*op.Stride
				}
				sc.Ops = append(sc.Ops, op)
			}
		case x < 95:
			sc.Ops = append(sc.Ops, c21Op{Kind: "run", Ms: r.Range(50, 2500)})
		default:
			if stepdowns {
				sc.Ops = append(sc.Ops, c21Op{Kind: "stepdown", Gap: r.Intn(10)})
				if r.Bool(0.5) {
					sc.Ops = append(sc.Ops, c21Op{Kind: "run", Ms: r.Range(200, 2500)})
				}
			}
		}
	}
	if nb == 0 {
		sc.Ops = append(sc.Ops, c21GenBackup(r, sc, rows))
	}
	if stress == 0 {
		// every run has at least one raw copy of the live database file (binary,
		// not vacuumed), served locally or forwarded, with writes and several
		// snapshot attempts while the copy is in progress
		bo := c21GenBackup(r, sc, rows)
		bo.Format, bo.Vacuum, bo.Tables = "binary", false, ""
		forwarded := bo.Node < 0 && !bo.NoLeader
		burst, _ := c21GenBurst(r, sc, &bo, forwarded)
		at := 0
		if len(sc.Ops) > 0 {
			at = r.Intn(len(sc.Ops) + 1)
		}
		ins := append([]c21Op{bo}, burst...)
		sc.Ops = append(sc.Ops[:at], append(ins, sc.Ops[at:]...)...)
	}
	return sc
}

// c21GenBurst returns the ops that run while the copy of backup bo is in
// progress: committed writes (they touch the first pages - balances, counter -
// and the last pages - new rows - of the file) interleaved with 1-3 snapshot
// attempts on the serving node (each one, if admitted, checkpoints the WAL into
// the database file). bo is adjusted so that the destination parks early in the
// copy and stays parked for the whole burst; a forwarded backup is not cut (its
// stream is slowed by the scenario's send window instead).
func c21GenBurst(r *core.Rand, sc *c21Scenario, bo *c21Op, forwarded bool) ([]c21Op, int) {
	var ops []c21Op
	rows := 0
	w := func() {
		ops = append(ops, c21Op{Kind: "w", Client: r.Intn(sc.Clients), Node: r.Intn(4), Gap: r.Range(6, 14)})
		rows++
	}
	target := bo.Node
	if forwarded {
		target = 0
		bo.Cut = false
	}
	for k, nw := 0, r.Range(1, 2); k < nw; k++ {
		w()
	}
	for k, ns := 0, r.Range(1, 3); k < ns; k++ {
		ops = append(ops, c21Op{Kind: "snap", Node: target, Gap: r.Intn(4)})
		if r.Bool(0.5) {
			w()
		}
	}
	if r.Bool(0.5) {
		bo.Parks = []int{r.Intn(3)}
	} else {
		bo.Parks = []int{r.Intn(2), 2 + r.Intn(4)}
	}
	bo.Hold = len(ops)
	return ops, rows
}

// ---------------------------------------------------------------- workload model

const c21Schema = `CREATE TABLE a (id INTEGER PRIMARY KEY, txn INTEGER NOT NULL, v TEXT NOT NULL);
CREATE TABLE b (id INTEGER PRIMARY KEY, txn INTEGER NOT NULL, v TEXT NOT NULL);
CREATE TABLE bal (id INTEGER PRIMARY KEY, v INTEGER NOT NULL);
CREATE TABLE ctr (id INTEGER PRIMARY KEY, n INTEGER NOT NULL);
CREATE INDEX a_txn ON a(txn);
INSERT INTO bal(id,v) VALUES (1,0),(2,0),(3,0),(4,0);
INSERT INTO ctr(id,n) VALUES (1,0);`

func c21SchemaStmts() []string {
	var out []string
	for _, s := range strings.Split(c21Schema, ";\n") {
		s = strings.TrimSuffix(strings.TrimSpace(s), ";")
		if s != "" {
			out = append(out, s)
		}
	}
	return out
}

// c21Txn is one writer transaction: a pair of rows (a, b) with the same id, a
// zero-sum transfer, the counter; optionally the deletion of the pair of an
// earlier transaction.
type c21Txn struct {
	ID      int
	Del     int // id of the transaction whose rows this one deletes (0 = none)
	Outcome string
	Index   uint64
	Invoke  int
	Return  int
	Done    bool
	Err     string
	Deleter bool
}

func c21Pad(id int, tbl byte, max int) string {
	r := core.NewRand(core.Mix(uint64(id), uint64(tbl), 2121))
	return hex.EncodeToString(r.Bytes(8 + r.Intn(max)))
}

func c21TxnStmts(id, del, padMax int) []string {
	r := core.NewRand(core.Mix(uint64(id), 99))
	x := 1 + r.Intn(4)
	y := 1 + (x+r.Intn(3))%4
	amt := 1 + r.Intn(100)
	st := []string{
		fmt.Sprintf("INSERT INTO a(id,txn,v) VALUES(%d,%d,'%s')", id, id, c21Pad(id, 'a', padMax)),
		fmt.Sprintf("INSERT INTO b(id,txn,v) VALUES(%d,%d,'%s')", id, id, c21Pad(id, 'b', padMax)),
		fmt.Sprintf("UPDATE bal SET v=v+%d WHERE id=%d", amt, x),
		fmt.Sprintf("UPDATE bal SET v=v-%d WHERE id=%d", amt, y),
		"UPDATE ctr SET n=n+1 WHERE id=1",
	}
	if del > 0 {
		st = append(st, fmt.Sprintf("DELETE FROM a WHERE id=%d", del), fmt.Sprintf("DELETE FROM b WHERE id=%d", del))
	}
	return st
}

// ---------------------------------------------------------------- parking destination writer

type c21ParkWriter struct {
	buf     bytes.Buffer
	nWrites int
	parks   map[int]bool
	parked  bool // set by the writing goroutine before it blocks; read by the driver at quiescence
	resume  chan struct{}
	nParked int
}

func newC21ParkWriter(parks []int) *c21ParkWriter {
	w := &c21ParkWriter{parks: map[int]bool{}, resume: make(chan struct{})}
	for _, p := range parks {
		w.parks[p] = true
	}
	return w
}

func (w *c21ParkWriter) Write(p []byte) (int, error) {
	w.buf.Write(p)
	i := w.nWrites
	w.nWrites++
	if w.parks[i] {
		delete(w.parks, i)
		w.nParked++
		w.parked = true
		<-w.resume
	}
	return len(p), nil
}

func (w *c21ParkWriter) release() {
	if w.parked {
		w.parked = false
		w.resume <- struct{}{}
	}
}

// c21RW is an http.ResponseWriter with the semantics of net/http's: the status
// is fixed by the first Write (200) or WriteHeader; later WriteHeader calls
// are ignored.
type c21RW struct {
	w     *c21ParkWriter
	hdr   http.Header
	code  int
	wrote bool
}

func (r *c21RW) Header() http.Header { return r.hdr }
func (r *c21RW) WriteHeader(code int) {
	if !r.wrote {
		r.wrote = true
		r.code = code
	}
}
func (r *c21RW) Write(p []byte) (int, error) {
	if !r.wrote {
		r.WriteHeader(http.StatusOK)
	}
	return r.w.Write(p)
}

// ---------------------------------------------------------------- one backup

type c21Backup struct {
	N        int
	Op       c21Op
	NodeIdx  int
	Remote   bool // fetched from another node
	task     *sim.Task
	pw       *c21ParkWriter
	rw       *c21RW
	err      error
	aborted  bool // HTTP handler aborted the response (http.ErrAbortHandler)
	holdLeft int
	Invoke   int
	Return   int
	Done     bool
	cutFired bool
	cutPos   int
	stream   int  // bytes of the inter-node response stream written by the serving node
	sub      bool // part of a sweep
}

func (b *c21Backup) success() bool {
	if !b.Done {
		return false
	}
	if b.Op.Via == "http" {
		return !b.aborted && b.rw.code == http.StatusOK
	}
	return b.err == nil
}

func (b *c21Backup) desc() string {
	o := b.Op
	s := fmt.Sprintf("backup#%d via=%s node=n%d fmt=%s", b.N, o.Via, b.NodeIdx, o.Format)
	if o.Vacuum {
		s += " vacuum"
	}
	if o.Compress {
		s += " compress"
	}
	if o.Tables != "" {
		s += " tables=" + o.Tables
	}
	if o.NoLeader {
		s += " noleader"
	}
	if b.Remote {
		s += " remote"
	}
	if b.cutFired {
		s += fmt.Sprintf(" cut@%d/%d fin=%v", b.cutPos, b.stream, o.CutFin)
	}
	return s
}

// ---------------------------------------------------------------- harness state

type c21Arm struct {
	srv  *simnet.Conn // serving node's endpoint of the connection carrying the backup stream
	base uint64       // bytes it had written before the backup command arrived
}

type c21H struct {
	c  *core.Ctx
	s  *sim.Sim
	sc *c21Scenario

	txns    []*c21Txn // by id-1
	busy    map[int]*sim.Task
	backups []*c21Backup
	cur     *c21Backup
	nextBk  int

	// inter-node stream tracking
	reqBuf map[*simnet.Conn][]byte
	ignore map[*simnet.Conn]bool
	armed  *c21Arm
	// DB applied index of the serving node when each backup was requested (ground truth read at quiescence)
	appliedAt map[int]uint64
	limit     int64 // relative cut position once decided (-1 = undecided)
}

func (h *c21H) installTap() {
	h.reqBuf = map[*simnet.Conn][]byte{}
	h.ignore = map[*simnet.Conn]bool{}
	h.s.Net.Tap = func(from, to *simnet.Conn, data []byte) {
		if !from.IsDialer() || h.ignore[from] {
			return
		}
		buf, seen := h.reqBuf[from]
		if !seen {
			// first byte of a connection is the mux header: 2 = cluster service
			if len(data) == 0 {
				return
			}
			if data[0] != 2 || !strings.HasSuffix(to.LocalAddr().String(), fmt.Sprintf(":%d", node.RaftPort)) {
				h.ignore[from] = true
				return
			}
			data = data[1:]
		}
		buf = append(buf, data...)
		for len(buf) >= 8 {
			sz := binary.LittleEndian.Uint64(buf)
			if sz > 1<<26 {
				h.ignore[from] = true
				delete(h.reqBuf, from)
				return
			}
			if uint64(len(buf)-8) < sz {
				break
			}
			cmd := &clstrPB.Command{}
			if err := pb.Unmarshal(buf[8:8+sz], cmd); err == nil && cmd.Type == clstrPB.Command_COMMAND_TYPE_BACKUP_STREAM {
				h.armed = &c21Arm{srv: to, base: to.SentLocked()}
				if h.sc.Window > 0 {
					to.SetWindowLocked(h.sc.Window) // the serving node's copy advances only as the driver delivers
				}
				h.limit = -1
			}
			buf = buf[8+sz:]
		}
		h.reqBuf[from] = append([]byte(nil), buf...)
	}
}

// preStep applies a planned cut as soon as the serving node has written bytes
// beyond the cut position.
func (h *c21H) preStep() {
	b := h.cur
	if b == nil || h.armed == nil {
		return
	}
	written := int64(h.armed.srv.Sent() - h.armed.base)
	if int(written) > b.stream {
		b.stream = int(written)
	}
	if !b.Op.Cut || b.cutFired || written == 0 {
		return
	}
	if h.limit < 0 {
		if b.Op.CutAbs >= 0 && b.Op.CutPm < 0 {
			h.limit = int64(b.Op.CutAbs)
		} else {
			h.limit = written * int64(b.Op.CutPm) / 1000
		}
	}
	if written > h.limit {
		if h.s.Net.CutAt(h.armed.srv, h.armed.base+uint64(h.limit), b.Op.CutFin) {
			b.cutFired = true
			b.cutPos = int(h.limit)
			if b.Op.CutFin {
				h.c.Fault("stream_cut_fin")
			} else {
				h.c.Fault("stream_cut_rst")
			}
			h.c.Log.Add("%d fault cut backup#%d stream at %d of >=%d fin=%v", h.s.StepN, b.N, h.limit, written, b.Op.CutFin)
		}
	}
}

func (h *c21H) step() {
	h.preStep()
	h.s.Step()
}

func (h *c21H) steps(n int) {
	for i := 0; i < n && !h.s.Capped; i++ {
		h.step()
	}
}

func (h *c21H) runFor(d time.Duration) {
	deadline := time.Now().Add(d)
	for !h.s.Capped && time.Now().Before(deadline) {
		h.step()
	}
}

func (h *c21H) await(t *sim.Task, max time.Duration) bool {
	deadline := time.Now().Add(max)
	for !t.Finished && !h.s.Capped && time.Now().Before(deadline) {
		h.step()
	}
	if !t.Finished {
		h.s.Await(t, 0)
	}
	return t.Finished
}

func (h *c21H) resolve(n int) *node.Node {
	s := h.s
	if n > 0 && n < len(s.Nodes) {
		return s.Nodes[n]
	}
	l := s.Leader()
	if n == 0 {
		return l
	}
	k := -n // k-th follower in index order
	for _, x := range s.Nodes[1:] {
		if x.Up && x != l {
			k--
			if k == 0 {
				return x
			}
		}
	}
	return nil
}

// ---------------------------------------------------------------- writes

func (h *c21H) startWrite(op c21Op) {
	s := h.s
	if t := h.busy[op.Client]; t != nil && !t.Finished {
		if !h.await(t, 60*time.Second) {
			return
		}
	}
	n := h.resolve(op.Node)
	if n == nil || !n.Up {
		return
	}
	tx := &c21Txn{ID: len(h.txns) + 1, Outcome: "unknown"}
	if op.Del > 0 {
		// delete the pair of an acked, not yet deleted, non-deleting transaction
		var cands []*c21Txn
		taken := map[int]bool{}
		for _, t := range h.txns {
			if t.Del > 0 {
				taken[t.Del] = true
			}
		}
		for _, t := range h.txns {
			if t.Done && t.Outcome == "ok" && t.Del == 0 && !taken[t.ID] {
				cands = append(cands, t)
			}
		}
		if len(cands) > 0 {
			tx.Del = cands[op.Del%len(cands)].ID
		}
	}
	h.txns = append(h.txns, tx)
	stmts := c21TxnStmts(tx.ID, tx.Del, h.sc.PadMax)
	t := s.Go(fmt.Sprintf("w c%d n%d txn%d del%d", op.Client, n.Idx, tx.ID, tx.Del), func() {
		idx, err := c21Exec(n, stmts, 8*time.Second)
		switch {
		case err == nil:
			tx.Outcome, tx.Index = "ok", idx
		case definiteFailure(err) || strings.HasPrefix(err.Error(), "stmt:"):
			// "stmt:" = the request was applied and a statement failed: the
			// transaction was rolled back as a whole.
			tx.Outcome, tx.Err = "fail", err.Error()
		default:
			tx.Err = err.Error()
		}
	})
	tx.Invoke = t.Invoke
	t.OnDone = func() { tx.Return = t.Return; tx.Done = true }
	h.busy[op.Client] = t
}

// c21Exec runs the statements as one transaction through the node's proxy
// (forwarded to the leader if needed) and returns the raft index of the entry.
func c21Exec(n *node.Node, stmts []string, timeout time.Duration) (uint64, error) {
	er := &proto.ExecuteRequest{Request: &proto.Request{Transaction: true}}
	for _, s := range stmts {
		er.Request.Statements = append(er.Request.Statements, &proto.Statement{Sql: s})
	}
	res, idx, _, err := n.Proxy.Execute(context.Background(), er, nil, timeout, 0, false)
	if err != nil {
		return 0, err
	}
	if len(res) != len(stmts) {
		return 0, fmt.Errorf("stmt: %d results for %d statements: %v", len(res), len(stmts), res)
	}
	for i, r := range res {
		if r.GetError() != "" || (r.GetE() != nil && r.GetE().Error != "") {
			return 0, fmt.Errorf("stmt: statement %d failed: %v", i, r)
		}
	}
	return idx, nil
}

// ---------------------------------------------------------------- backups

func c21Request(op c21Op) *proto.BackupRequest {
	br := &proto.BackupRequest{Leader: !op.NoLeader, Vacuum: op.Vacuum, Compress: op.Compress}
	switch op.Format {
	case "sql":
		br.Format = proto.BackupRequest_BACKUP_REQUEST_FORMAT_SQL
	case "delete":
		br.Format = proto.BackupRequest_BACKUP_REQUEST_FORMAT_DELETE
	default:
		br.Format = proto.BackupRequest_BACKUP_REQUEST_FORMAT_BINARY
	}
	if op.Tables != "" {
		br.Tables = strings.Split(op.Tables, ",")
	}
	return br
}

func (h *c21H) startBackup(op c21Op, sub bool) *c21Backup {
	h.finishBackup()
	n := h.resolve(op.Node)
	if n == nil || !n.Up {
		return nil
	}
	h.nextBk++
	b := &c21Backup{N: h.nextBk, Op: op, NodeIdx: n.Idx, pw: newC21ParkWriter(op.Parks), holdLeft: op.Hold, sub: sub}
	l := h.s.Leader()
	b.Remote = !op.NoLeader && op.Via != "store" && l != nil && l != n
	h.armed = nil
	h.limit = -1
	timeout := time.Duration(op.TimeoutS) * time.Second
	if timeout == 0 {
		timeout = 10 * time.Second
	}
	br := c21Request(op)
	switch op.Via {
	case "store":
		b.task = h.s.Go(b.desc(), func() { b.err = n.Store.Backup(context.Background(), br, b.pw) })
	case "proxy":
		b.task = h.s.Go(b.desc(), func() { _, b.err = n.Proxy.Backup(context.Background(), br, b.pw, nil, timeout, false) })
	case "http":
		q := "/db/backup?fmt=" + op.Format + fmt.Sprintf("&timeout=%ds", int(timeout/time.Second))
		if op.Vacuum {
			q += "&vacuum"
		}
		if op.Compress {
			q += "&compress"
		}
		if op.NoLeader {
			q += "&noleader"
		}
		if op.Tables != "" {
			q += "&tables=" + op.Tables
		}
		b.rw = &c21RW{w: b.pw, hdr: http.Header{}}
		req := httptest.NewRequest("GET", "http://"+n.HTTPAddr+q, nil)
		svc := n.HTTP
		b.task = h.s.Go(b.desc(), func() {
			defer func() {
				// net/http recovers http.ErrAbortHandler and aborts the response: the
				// client sees a broken transfer, never a complete 200 response.
				if r := recover(); r != nil {
					if r == http.ErrAbortHandler {
						b.aborted = true
						return
					}
					panic(r)
				}
			}()
			svc.ServeHTTP(b.rw, req)
		})
	default:
		return nil
	}
	b.Invoke = b.task.Invoke
	b.task.OnDone = func() { b.Return = b.task.Return; b.Done = true }
	h.backups = append(h.backups, b)
	if h.appliedAt == nil {
		h.appliedAt = map[int]uint64{}
	}
	// Ground truth at the quiescent point of invocation: what the node(s) that may
	// serve this backup have applied. Served locally (Store.Backup, noleader, or
	// the contacted node is the leader): the contacted node. Possibly forwarded:
	// the least advanced node that is up. A node that has just become leader need
	// not have applied every committed entry yet (its commit index only advances
	// once an entry of its own term is committed), and Store.Backup's leader test
	// is raft.State() only, so "served by the leader" does not imply "up to date".
	applied := n.Store.DBAppliedIndex()
	if op.Via != "store" && !op.NoLeader {
		for _, x := range h.s.Nodes[1:] {
			if x.Up && x.Store.DBAppliedIndex() < applied {
				applied = x.Store.DBAppliedIndex()
			}
		}
	}
	h.appliedAt[b.N] = applied
	h.c.Log.Add("%d backup#%d requested: serving node(s) have applied index >= %d", h.s.StepN, b.N, applied)
	h.cur = b
	h.c.Probe("backup_started")
	return b
}

// afterOp is called after every scenario op: a parked backup is released after
// `hold` further ops.
func (h *c21H) afterOp() {
	b := h.cur
	if b == nil {
		return
	}
	if b.Done {
		h.cur = nil
		return
	}
	if b.pw.parked {
		b.holdLeft--
		if b.holdLeft <= 0 {
			b.holdLeft = b.Op.Hold
			b.pw.release()
		}
	}
}

func (h *c21H) finishBackup() {
	b := h.cur
	if b == nil {
		return
	}
	deadline := time.Now().Add(150 * time.Second)
	for !b.task.Finished && !h.s.Capped && time.Now().Before(deadline) {
		if b.pw.parked {
			b.pw.release()
		}
		h.step()
	}
	if !b.task.Finished {
		h.s.Await(b.task, 0)
	}
	h.preStep() // final stream length
	h.cur = nil
	h.armed = nil
}

// sweep fetches the same backup repeatedly through a follower, cutting the
// inter-node stream at successive positions.
func (h *c21H) sweep(op c21Op) {
	h.finishBackup()
	// let outstanding writes finish so that the stream is the same every time
	for _, t := range h.busy {
		if t != nil && !t.Finished {
			h.await(t, 60*time.Second)
		}
	}
	base := op
	base.Kind = "backup"
	base.Cut = false
	base.Parks = nil
	b := h.startBackup(base, true)
	if b == nil {
		return
	}
	h.finishBackup()
	if !b.Remote || b.stream == 0 {
		return
	}
	total := b.stream
	to := op.To
	if to <= 0 || to > total {
		to = total
	}
	stride := op.Stride
	if stride <= 0 {
		stride = 1
	}
	for pos := op.From; pos < to && !h.s.Capped && !h.c.Failed(); pos += stride {
		o := base
		o.Cut = true
		o.CutAbs, o.CutPm = pos, -1
		o.CutFin = op.CutFin
		sb := h.startBackup(o, true)
		if sb == nil {
			return
		}
		h.finishBackup()
		h.c.Res.Cases++
		if sb.cutFired {
			h.c.Probe("sweep_cut_fired")
		}
		if sb.cutFired && sb.success() {
			h.evalBackup(sb)
			return
		}
	}
}

// ---------------------------------------------------------------- oracle

func c21Gunzip(b []byte) ([]byte, error) {
	zr, err := gzip.NewReader(bytes.NewReader(b))
	if err != nil {
		return nil, err
	}
	out, err := io.ReadAll(zr)
	if err != nil {
		return nil, err
	}
	return out, zr.Close()
}

func c21Tables(filter string) map[string]bool {
	m := map[string]bool{}
	if filter == "" {
		for _, t := range []string{"a", "b", "bal", "ctr"} {
			m[t] = true
		}
		return m
	}
	for _, t := range strings.Split(filter, ",") {
		m[t] = true
	}
	return m
}

func c21IDs(db *sql.DB, tbl string) (map[int]bool, error) {
	rows, err := db.Query("SELECT id, txn FROM " + tbl)
	if err != nil {
		return nil, err
	}
	defer rows.Close()
	m := map[int]bool{}
	for rows.Next() {
		var id, txn int
		if err := rows.Scan(&id, &txn); err != nil {
			return nil, err
		}
		if id != txn {
			return nil, fmt.Errorf("row id %d carries txn %d", id, txn)
		}
		m[id] = true
	}
	return m, rows.Err()
}

func c21SetDiff(a, b map[int]bool) []int {
	var d []int
	for k := range a {
		if !b[k] {
			d = append(d, k)
		}
	}
	sort.Ints(d)
	if len(d) > 8 {
		d = d[:8]
	}
	return d
}

// evalBackup judges one finished backup.
func (h *c21H) evalBackup(b *c21Backup) {
	c := h.c
	if !b.Done {
		c.Probe("backup_unfinished")
		return
	}
	kind := b.Op.Format
	if b.Op.Vacuum {
		kind += "_vac"
	}
	if b.Op.Compress {
		kind += "_gz"
	}
	if b.pw.nParked > 0 {
		c.ProbeN("parks", b.pw.nParked)
	}
	if !b.success() {
		c.Probe("backup_error")
		if b.cutFired {
			c.Probe("cut_reported_as_error")
		}
		if b.Remote {
			c.Probe("remote_error")
		}
		es := ""
		if b.err != nil {
			es = b.err.Error()
		} else if b.rw != nil {
			es = fmt.Sprintf("http %d aborted=%v", b.rw.code, b.aborted)
		}
		c.Log.Add("eval %s: error %s", b.desc(), es)
		return
	}
	c.Probe("backup_ok")
	c.Probe("ok_" + kind)
	c.Probe("ok_via_" + b.Op.Via)
	if b.Remote {
		c.Probe("ok_remote")
	}
	if b.Op.NoLeader {
		c.Probe("ok_follower_local")
	}
	data := b.pw.buf.Bytes()
	c.Log.Add("eval %s: success %d bytes", b.desc(), len(data))
	if b.cutFired {
		c.Violate("cut-reported-success", "%s: the inter-node stream was cut after %d of at least %d bytes but the backup was reported as successful (%d bytes delivered)",
			b.desc(), b.cutPos, b.stream, len(data))
		return
	}
	if b.Op.Compress {
		raw, err := c21Gunzip(data)
		if err != nil {
			c.Violate("unusable-success", "%s: reported successful but the output is not a complete gzip stream: %v (%d bytes)", b.desc(), err, len(data))
			return
		}
		data = raw
	}
	dir, err := os.MkdirTemp(c.Dir, "bk-")
	if err != nil {
		panic(err)
	}
	defer os.RemoveAll(dir)
	path := filepath.Join(dir, "backup.db")
	var db *sql.DB
	if b.Op.Format == "sql" {
		db, err = sql.Open("sqlite3", "file:"+path)
		if err != nil {
			panic(err)
		}
		db.SetMaxOpenConns(1)
		if _, err := db.Exec(string(data)); err != nil {
			db.Close()
			if b.Op.Tables != "" {
				// A dump restricted to some tables is by design not "a complete
				// database equal to the committed state", so C21 does not speak about
				// it. On this tree such a dump also carries the indexes and triggers of
				// tables it leaves out and then does not load; that is recorded as an
				// observation (DESIGN section 10), not judged.
				c.Probe("filtered_dump_not_loadable")
				return
			}
			c.Violate("sql-dump-not-replayable", "%s: reported successful but the SQL text does not replay into an empty database: %v", b.desc(), err)
			return
		}
	} else {
		if err := os.WriteFile(path, data, 0o644); err != nil {
			panic(err)
		}
		db, err = sql.Open("sqlite3", "file:"+path)
		if err != nil {
			panic(err)
		}
		db.SetMaxOpenConns(1)
		var res string
		if err := db.QueryRow("PRAGMA integrity_check").Scan(&res); err != nil || res != "ok" {
			db.Close()
			c.Violate("unusable-success", "%s: reported successful but the file is not a sound SQLite database: integrity_check=%q err=%v (%d bytes)", b.desc(), res, err, len(data))
			return
		}
	}
	defer db.Close()

	tabs := c21Tables(b.Op.Tables)
	var nobj int
	if err := db.QueryRow("SELECT COUNT(*) FROM sqlite_master").Scan(&nobj); err != nil {
		c.Violate("unusable-success", "%s: schema unreadable: %v", b.desc(), err)
		return
	}
	if nobj == 0 {
		// the state before the set-up request (schema + preload, one raft entry)
		// was applied: legitimate only for a node that had not applied it yet
		// (a follower serving its own copy, or a node elected a moment ago)
		for _, t := range h.txns {
			if t.Done && t.Outcome == "ok" && t.Return < b.Invoke && h.appliedAt[b.N] >= t.Index {
				c.Violate("not-point-in-time", "%s: empty database although transaction %d (raft index %d) had been applied on the serving node before the backup was requested", b.desc(), t.ID, t.Index)
				return
			}
		}
		c.Probe("backup_of_empty_state")
		return
	}
	var ids map[int]bool
	if tabs["a"] {
		ids, err = c21IDs(db, "a")
		if err != nil {
			c.Violate("unusable-success", "%s: table a unreadable: %v", b.desc(), err)
			return
		}
	}
	if tabs["b"] {
		idb, err := c21IDs(db, "b")
		if err != nil {
			c.Violate("unusable-success", "%s: table b unreadable: %v", b.desc(), err)
			return
		}
		if ids != nil && (len(c21SetDiff(ids, idb)) > 0 || len(c21SetDiff(idb, ids)) > 0) {
			c.Violate("invariant-broken", "%s: paired rows differ: only in a %v, only in b %v (a has %d rows, b has %d)", b.desc(),
				c21SetDiff(ids, idb), c21SetDiff(idb, ids), len(ids), len(idb))
			return
		}
		ids = idb
	}
	// applied set: present pairs plus pairs deleted by a present transaction
	P := map[int]bool{}
	for id := range ids {
		if id < 1 || id > len(h.txns) {
			c.Violate("not-point-in-time", "%s: contains a row of transaction %d which was never issued", b.desc(), id)
			return
		}
		P[id] = true
	}
	for id := range ids {
		if d := h.txns[id-1].Del; d > 0 {
			if ids[d] {
				c.Violate("invariant-broken", "%s: transaction %d is present but the rows of transaction %d which it deletes are present too", b.desc(), id, d)
				return
			}
			P[d] = true
		}
	}
	if tabs["ctr"] {
		var n int
		if err := db.QueryRow("SELECT n FROM ctr WHERE id=1").Scan(&n); err != nil {
			c.Violate("unusable-success", "%s: counter unreadable: %v", b.desc(), err)
			return
		}
		if n != len(P) {
			c.Violate("invariant-broken", "%s: counter says %d transactions, tables show %d applied", b.desc(), n, len(P))
			return
		}
	}
	if tabs["bal"] {
		var sum int
		if err := db.QueryRow("SELECT COALESCE(SUM(v),0) FROM bal").Scan(&sum); err != nil {
			c.Violate("unusable-success", "%s: bal unreadable: %v", b.desc(), err)
			return
		}
		if sum != 0 {
			c.Violate("invariant-broken", "%s: balances sum to %d, not 0", b.desc(), sum)
			return
		}
	}
	// single point in time: the acked transactions present are exactly those
	// with a raft index up to some bound
	var maxIn, minOut uint64
	maxInID, minOutID := 0, 0
	stale := 0
	for _, t := range h.txns {
		if P[t.ID] && t.Invoke > b.Return {
			c.Violate("not-point-in-time", "%s: contains transaction %d invoked at step %d, after the backup returned at step %d", b.desc(), t.ID, t.Invoke, b.Return)
			return
		}
		if !t.Done || t.Outcome != "ok" {
			if P[t.ID] && t.Done && t.Outcome == "fail" {
				c.Violate("not-point-in-time", "%s: contains transaction %d which failed (%s)", b.desc(), t.ID, t.Err)
				return
			}
			continue
		}
		if P[t.ID] {
			if t.Index > maxIn {
				maxIn, maxInID = t.Index, t.ID
			}
		} else {
			if minOut == 0 || t.Index < minOut {
				minOut, minOutID = t.Index, t.ID
			}
			if t.Return < b.Invoke {
				stale++
			}
		}
	}
	if minOut != 0 && minOut <= maxIn {
		c.Violate("not-point-in-time", "%s: contains transaction %d (raft index %d) but not transaction %d (raft index %d)", b.desc(), maxInID, maxIn, minOutID, minOut)
		return
	}
	if stale > 0 {
		c.Probe("backup_older_than_invocation")
	}
	// full logical equality with the model state for exactly these transactions
	ref, err := h.reference(P, tabs)
	if err != nil {
		panic(fmt.Sprintf("reference model: %v", err))
	}
	got, err := sim.DumpDB(db)
	if err != nil {
		c.Violate("unusable-success", "%s: cannot be dumped: %v", b.desc(), err)
		return
	}
	if got != ref {
		c.Violate("not-point-in-time", "%s: content differs from the committed state after the %d transactions it contains: %s", b.desc(), len(P), sim.FirstDiff(got, ref))
		return
	}
	c.Probe("backup_verified")
	if b.pw.nParked > 0 {
		c.Probe("verified_with_mid_copy_interleaving")
	}
	c.Sig(fmt.Sprintf("%s/%s/%v/%d", kind, b.Op.Via, b.Remote, len(P)))
}

// reference builds the model database (through the harness's own SQLite
// connection) for an applied set and returns its canonical dump.
func (h *c21H) reference(P map[int]bool, tabs map[string]bool) (string, error) {
	rp := filepath.Join(h.c.Dir, "ref.db")
	os.Remove(rp)
	defer os.Remove(rp)
	db, err := sql.Open("sqlite3", "file:"+rp)
	if err != nil {
		return "", err
	}
	defer db.Close()
	db.SetMaxOpenConns(1)
	if _, err := db.Exec(c21Schema); err != nil {
		return "", err
	}
	var order []*c21Txn
	for _, t := range h.txns {
		if P[t.ID] {
			order = append(order, t)
		}
	}
	// index order; transactions with unknown outcome (no index) last: all
	// statements commute except delete-after-insert, and a deleted transaction
	// was acked before its deleter was issued.
	sort.SliceStable(order, func(i, j int) bool {
		a, b := order[i], order[j]
		ai, bi := a.Index, b.Index
		if ai == 0 {
			ai = ^uint64(0)
		}
		if bi == 0 {
			bi = ^uint64(0)
		}
		if ai != bi {
			return ai < bi
		}
		return a.ID < b.ID
	})
	tx, err := db.Begin()
	if err != nil {
		return "", err
	}
	for _, t := range order {
		for _, st := range c21TxnStmts(t.ID, t.Del, h.sc.PadMax) {
			if _, err := tx.Exec(st); err != nil {
				tx.Rollback()
				return "", fmt.Errorf("txn %d: %s: %w", t.ID, st[:40], err)
			}
		}
	}
	if err := tx.Commit(); err != nil {
		return "", err
	}
	for _, t := range []string{"a", "b", "bal", "ctr"} {
		if !tabs[t] {
			if _, err := db.Exec("DROP TABLE " + t); err != nil {
				return "", err
			}
		}
	}
	return sim.DumpDB(db)
}

// ---------------------------------------------------------------- run

func c21Run(c *core.Ctx, raw json.RawMessage) {
	var sc c21Scenario
	if err := json.Unmarshal(raw, &sc); err != nil {
		panic(err)
	}
	c.Rng = core.NewRand(sc.Seed)
	s := sim.New(c)
	s.TickProb = sc.Tick
	s.SplitProb = sc.Split
	defer s.Shutdown()
	for i := 0; i < 3; i++ {
		n := s.AddNode(sc.Knobs)
		n.WithHTTP = true
	}
	h := &c21H{c: c, s: s, sc: &sc, busy: map[int]*sim.Task{}, limit: -1}
	h.installTap()
	if err := s.Boot(3, sc.Knobs, nil); err != nil {
		c.Discard("boot-failed: " + err.Error())
		return
	}
	defer func() {
		// never leave a parked writer behind (shrunk scenarios, early returns)
		if h.cur != nil {
			h.finishBackup()
		}
	}()

	// schema and preload: one request, one raft index
	ldr := s.Leader()
	if ldr == nil {
		c.Discard("no-leader-after-boot")
		return
	}
	if sc.PadMax <= 0 {
		sc.PadMax = 40
	}
	var setup []string
	setup = append(setup, c21SchemaStmts()...)
	for i := 1; i <= sc.Preload; i++ {
		h.txns = append(h.txns, &c21Txn{ID: i, Outcome: "unknown"})
		setup = append(setup, c21TxnStmts(i, 0, sc.PadMax)...)
	}
	var setupIdx uint64
	var setupErr error
	if !s.Do("setup", 60*time.Second, func() { setupIdx, setupErr = c21Exec(ldr, setup, 20*time.Second) }) || setupErr != nil {
		c.Discard(fmt.Sprintf("setup-failed: %v", setupErr))
		return
	}
	for _, t := range h.txns {
		t.Outcome, t.Index, t.Done, t.Invoke, t.Return = "ok", setupIdx, true, 0, s.StepN
	}
	// usually let the followers apply the set-up too before the workload starts
	if sc.Seed%4 != 0 {
		s.RunUntil(func() bool {
			for _, n := range s.Nodes[1:] {
				if n.Store.DBAppliedIndex() < setupIdx {
					return false
				}
			}
			return true
		}, 10*time.Second)
	}

	for _, op := range sc.Ops {
		if s.Capped || c.Failed() {
			break
		}
		switch op.Kind {
		case "w":
			h.startWrite(op)
		case "snap":
			if n := h.resolve(op.Node); n != nil && n.Up {
				if h.cur != nil && h.cur.pw.parked {
					c.Probe("snapshot_while_backup_parked")
				}
				// Snapshot ids carry a millisecond timestamp and the fake clock stands
				// still while code runs: let at least 2 ms pass so that two snapshot
				// requests in a row are not stamped with the same instant (which no
				// real clock would do; the sink then refuses to rename onto the
				// existing id and the store deliberately exits the process).
				h.runFor(2 * time.Millisecond)
				nn := n
				var err error
				t := s.Go(fmt.Sprintf("snapshot n%d", n.Idx), func() { err = nn.Store.Snapshot(0) })
				if h.await(t, 30*time.Second) && err == nil {
					c.Probe("snapshot_ok")
				}
			}
		case "backup":
			h.startBackup(op, false)
		case "sweep":
			h.sweep(op)
		case "run":
			h.runFor(time.Duration(op.Ms) * time.Millisecond)
		case "stepdown":
			if l := s.Leader(); l != nil {
				c.Fault("stepdown")
				c.Log.Add("%d fault stepdown n%d", s.StepN, l.Idx)
				ll := l
				s.Go("stepdown", func() { ll.Store.Stepdown(true, "") })
			}
		}
		h.steps(op.Gap)
		if h.cur != nil && h.cur.pw.parked {
			for _, t := range h.txns {
				if t.Done && t.Outcome == "ok" && t.Return > h.cur.Invoke {
					c.Probe("write_acked_while_backup_parked")
					break
				}
			}
		}
		h.afterOp()
	}
	h.finishBackup()
	if c.Failed() {
		return
	}
	// let outstanding writes finish (their own timeouts bound this)
	for _, t := range h.busy {
		if t != nil && !t.Finished {
			h.await(t, 60*time.Second)
		}
	}
	s.Drain(30 * time.Second)
	s.Net.Tap = nil

	nOK, nUnknown := 0, 0
	for _, t := range h.txns {
		switch {
		case t.Done && t.Outcome == "ok":
			nOK++
		case !t.Done || t.Outcome == "unknown":
			nUnknown++
		}
	}
	c.ProbeN("writes_acked", nOK)
	c.ProbeN("writes_unknown", nUnknown)
	unfinished := 0
	for _, b := range h.backups {
		if c.Failed() {
			break
		}
		if !b.Done {
			unfinished++
			continue
		}
		h.evalBackup(b)
	}
	if unfinished > 0 && !c.Failed() {
		// a backup task that outlives every timeout it was given cannot be judged
		c.Discard("backup-not-finished")
		return
	}
	c.Res.Trivial = c.Res.Probes["backup_verified"] == 0 && c.Res.Probes["cut_reported_as_error"] == 0
}

func init() {
	core.Register(&core.Prop{ID: "C21", Bubble: true, Gen: c21Gen, Run: c21Run})
}

var _ = errors.New
