package props

import (
	"bytes"
	"encoding/json"
	"errors"
	"fmt"
	"os"
	"runtime"
	"strings"

	"github.com/rqlite/rqlite/v10/db"
	"verifsim/core"
	"verifsim/sim"
	"verifsim/walsim"
)

// C06: incremental WAL segments stay correct under busy and partial
// checkpoints.
//
// One driver goroutine holds the write connection of a real rqlite db.DB, its
// CheckpointManager and up to three reader connections on one real WAL-mode
// SQLite database, and executes a seeded schedule of writer transactions,
// reader start/stop and snapshot attempts. Oracle: `rebuilt` is a copy of the
// database file taken at the last successful full attempt; every segment
// captured by a successful incremental attempt is applied to it by SQLite
// itself and the result must equal the live database (bytes and logical dump);
// a failed attempt leaves nothing in the staging directory; a salt change
// between an arming attempt and the next one is reported as WALReset.

func init() {
	// Bubble: the store-level stratum needs the fake clock (raft timers); the
	// db-level engine does not care (its only waiting is inside SQLite's busy
	// handler, which sleeps in C).
	core.Register(&core.Prop{ID: "C06", Bubble: true, Gen: c06Gen, Run: c06Run})
}

func c06Gen(r *core.Rand, tier string) any {
	if r.Bool(0.08) {
		return c06GenStore(r)
	}
	return walsim.Gen(r, walsim.GenOpts{MinOps: 20, MaxOps: 60})
}

type c06State struct {
	c       *core.Ctx
	rebuilt string // database rebuilt from base + segments; "" until the first full snapshot
	// model of the documented watch: armed after an attempt that moved all
	// pages but could not truncate the WAL
	armed     bool
	armedSalt [2]uint32
	compared  int
	outcomes  []string
}

func c06Run(c *core.Ctx, raw json.RawMessage) {
	var sc walsim.Scenario
	if err := json.Unmarshal(raw, &sc); err != nil {
		c.Violate("harness-scenario", "%v", err)
		return
	}
	c.Rng = core.NewRand(sc.Seed)
	if sc.Mode == "store" {
		c06RunStore(c, &sc)
		return
	}
	st := &c06State{c: c}
	e := &walsim.Engine{C: c, Sc: &sc}
	e.H.AfterAttempt = st.afterAttempt
	if err := e.Setup(); err != nil {
		c.Violate("harness-setup", "%v", err)
		return
	}
	defer e.Close()
	e.Run()
	if c.Failed() {
		return
	}
	// Closing phase: let go of everything that blocks checkpoints and take a
	// last snapshot, so that every run ends with a judged state.
	e.OpIdx = len(sc.Ops)
	if e.InTx {
		e.Step(&walsim.Op{K: "w", T: "rollback"})
	}
	e.EndAllReaders()
	for i := 0; i < 3 && !c.Failed(); i++ {
		a := e.Attempt()
		if a.Err == nil && !a.Full {
			break
		}
		if a.Skipped {
			break
		}
		if a.Err != nil && i == 2 {
			c.Probe("final_attempt_failed_without_readers")
		}
	}
	c.Res.Trivial = st.compared == 0
	c.Sig(strings.Join(st.outcomes, ""))
}

func (st *c06State) afterAttempt(e *walsim.Engine, a *walsim.Attempt) {
	c := st.c
	// ---- WAL reset detection, against the harness's own view of the salt
	expectReset := false
	if !a.Full && !a.Skipped && a.PreWALLen > 0 {
		if st.armed && a.PreSalt != st.armedSalt {
			expectReset = true
		}
		if st.armed && a.PreSalt == st.armedSalt {
			c.Probe("armed_then_same_generation")
		}
	}
	if a.Meta != nil && !a.Full && !a.Skipped && a.PreWALLen > 0 {
		if expectReset && !a.Meta.WALReset {
			c.Violate("reset-missed", "op %d: WAL salt changed from %v (when the watch was armed) to %v but the attempt reported WALReset=false", e.OpIdx, st.armedSalt, a.PreSalt)
			return
		}
		if !expectReset && a.Meta.WALReset {
			c.Violate("reset-spurious", "op %d: attempt reported WALReset=true but the watch was armed=%v with salt %v and the WAL salt is %v", e.OpIdx, st.armed, st.armedSalt, a.PreSalt)
			return
		}
		if expectReset {
			c.Probe("reset_detected")
		}
	}
	// ---- follow the documented bookkeeping
	switch {
	case a.Skipped || !a.ManagerCalled:
		// the manager was not called at all (nothing to snapshot, or the attempt failed
		// before reaching it): its watch is unchanged
	case a.PreWALLen == 0:
		st.armed = false
	case a.Full:
		if a.Err == nil {
			st.armed = false
		}
	default:
		if expectReset {
			st.armed = false
		}
		if a.Meta != nil {
			switch {
			case a.Meta.Code == 0:
				st.armed = false
			case a.Meta.Moved == a.Meta.Pages && a.Err == nil:
				st.armed = true
				st.armedSalt = a.PreSalt
			}
		}
	}

	// ---- outcome classes (probes)
	tag := "?"
	switch {
	case a.Skipped:
		tag = "s"
		c.Probe("ck_skipped_no_wal")
	case a.Err == nil && a.Full:
		tag = "F"
		c.Probe("ck_full_ok")
	case a.Full:
		tag = "f"
		c.Probe("ck_full_failed")
	case a.Err == nil && a.Meta.Code == 0:
		tag = "T"
		c.Probe("ck_truncated")
	case a.Err == nil:
		tag = "A"
		c.Probe("ck_all_moved_not_truncated")
	case errors.Is(a.Err, db.ErrDatabaseCheckpointBusy):
		tag = "b"
		c.Probe("ck_busy_partial")
		if a.Meta != nil && a.Meta.Moved > 0 {
			c.Probe("ck_busy_some_pages_moved")
		}
	default:
		tag = "e"
		c.Probe("ck_other_error")
	}
	st.outcomes = append(st.outcomes, tag)

	// ---- staging directory discipline
	// A checkpoint that SQLite reported busy before all pages were moved has
	// failed, whatever the manager returned.
	if a.Meta != nil && !a.Full && a.Meta.Code != 0 && a.Meta.Moved < a.Meta.Pages && len(a.NewFiles) != 0 {
		c.Violate("failed-attempt-left-segment", "op %d: checkpoint was busy with only %d of %d pages moved (manager returned err=%v) but %d file(s) were left in the staging directory", e.OpIdx, a.Meta.Moved, a.Meta.Pages, a.Err, len(a.NewFiles))
		return
	}
	if a.Err != nil {
		if len(a.NewFiles) != 0 {
			c.Violate("failed-attempt-left-segment", "op %d: attempt failed (%v) but left %d file(s) in the staging directory", e.OpIdx, a.Err, len(a.NewFiles))
		}
		return
	}
	if a.Full {
		// base of the chain: the database file as the full snapshot streams it
		b, err := os.ReadFile(e.DBPath)
		if err != nil {
			c.Violate("harness-io", "%v", err)
			return
		}
		if st.rebuilt == "" {
			st.rebuilt = e.Tmp("rebuilt.db")
		}
		if err := os.WriteFile(st.rebuilt, b, 0o644); err != nil {
			c.Violate("harness-io", "%v", err)
		}
		return
	}
	if len(a.NewFiles) != 2 || a.Segment == "" {
		c.Violate("segment-missing", "op %d: successful attempt but staging directory gained %d file(s), want a WAL and its checksum", e.OpIdx, len(a.NewFiles))
		return
	}
	seg, err := os.ReadFile(a.Segment)
	if err != nil {
		c.Violate("harness-io", "%v", err)
		return
	}
	// the sink consumes the segment
	os.Remove(a.Segment)
	os.Remove(a.Segment + ".crc32")
	if st.rebuilt == "" {
		c.Violate("harness-model", "incremental attempt before any full snapshot")
		return
	}
	if _, err := walsim.ApplyWAL(st.rebuilt, seg); err != nil {
		c.Violate("segment-unusable", "op %d: SQLite could not apply the captured segment (%d bytes): %v", e.OpIdx, len(seg), err)
		return
	}
	st.compare(e, a, len(seg))
}

// compare checks rebuilt against the live database: bytes of the fully
// checkpointed image and logical dump.
func (st *c06State) compare(e *walsim.Engine, a *walsim.Attempt, segLen int) {
	c := st.c
	defer runtime.GC() // workers run with GOGC=off; keep the heap small
	got, err := os.ReadFile(st.rebuilt)
	if err != nil {
		c.Violate("harness-io", "%v", err)
		return
	}
	want, err := e.LiveImage()
	if err != nil {
		c.Violate("harness-io", "live image: %v", err)
		return
	}
	st.compared++
	c.Probe("segments_compared")
	if !bytes.Equal(got, want) {
		d1, _ := sim.DumpFiles(st.rebuilt, e.Dir)
		d2, _ := sim.DumpFiles(e.DBPath, e.Dir)
		c.Violate("segment-mismatch", "op %d: base + captured segments differs from the live database after a successful attempt (code=%d pages=%d moved=%d reset=%v, segment %d bytes): %s; logical diff: %s",
			e.OpIdx, a.Meta.Code, a.Meta.Pages, a.Meta.Moved, a.Meta.WALReset, segLen, walsim.FirstDiffPage(got, want, e.Sc.PageSize), orNone(sim.FirstDiff(d1, d2)))
		return
	}
	d1, err1 := sim.DumpFiles(st.rebuilt, e.Dir)
	d2, err2 := sim.DumpFiles(e.DBPath, e.Dir)
	if err1 != nil || err2 != nil {
		c.Violate("segment-mismatch-dump", "op %d: dump failed: rebuilt=%v live=%v", e.OpIdx, err1, err2)
		return
	}
	if d1 != d2 {
		c.Violate("segment-mismatch-dump", "op %d: logical dump differs: %s", e.OpIdx, sim.FirstDiff(d1, d2))
		return
	}
	// the main file alone is complete after a successful attempt
	if main, err := os.ReadFile(e.DBPath); err == nil && bytes.Equal(main, got) {
		c.Probe("main_file_identical")
	}
	c.Log.Add("op%d compare ok bytes=%d dump=%d", e.OpIdx, len(got), len(d1))
}

func orNone(s string) string {
	if s == "" {
		return "none"
	}
	return s
}

var _ = fmt.Sprintf
