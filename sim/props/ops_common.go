package props

import (
	"context"
	"expvar"
	"fmt"
	"sort"
	"strings"
	"time"

	"github.com/rqlite/rqlite/v10/command/proto"
	"github.com/rqlite/rqlite/v10/store"
	"verifsim/node"
	"verifsim/sim"
)

// Helpers shared by the "ops" group of properties (C16, C32, C33, C38). All
// names carry the ops prefix so that they cannot collide with helpers of other
// property files in this package.

// opsExec runs one write statement directly on a node's store (no forwarding)
// as a task and steps until it is done. idx is the raft index of the entry.
func opsExec(s *sim.Sim, n *node.Node, sql string) (ok bool, idx uint64, err error) {
	if n == nil || !n.Up {
		return false, 0, fmt.Errorf("node down")
	}
	done := s.Do("exec n"+n.ID, 60*time.Second, func() {
		er := &proto.ExecuteRequest{Request: &proto.Request{Statements: []*proto.Statement{{Sql: sql}}}}
		var res []*proto.ExecuteQueryResponse
		res, idx, err = n.Store.Execute(context.Background(), er)
		ok = err == nil && len(res) == 1 && res[0].GetError() == "" && (res[0].GetE() == nil || res[0].GetE().Error == "")
	})
	if !done {
		return false, 0, fmt.Errorf("exec did not finish")
	}
	return ok, idx, err
}

func opsQueryReq(level proto.ConsistencyLevel, sql string, freshness time.Duration, strict bool, linTimeout time.Duration) *proto.QueryRequest {
	return &proto.QueryRequest{
		Level:               level,
		Freshness:           int64(freshness),
		FreshnessStrict:     strict,
		LinearizableTimeout: int64(linTimeout),
		Request:             &proto.Request{Statements: []*proto.Statement{{Sql: sql}}},
	}
}

// opsScalar extracts a single integer result (first row, first column); ok is
// false if the result has any other shape or carries an error.
func opsScalar(rows []*proto.QueryRows) (int64, bool) {
	if len(rows) != 1 || rows[0].Error != "" || len(rows[0].Values) != 1 || len(rows[0].Values[0].Parameters) != 1 {
		return 0, false
	}
	p := rows[0].Values[0].Parameters[0]
	switch v := p.GetValue().(type) {
	case *proto.Parameter_I:
		return v.I, true
	case nil:
		return 0, true // NULL (e.g. MAX over an empty table)
	}
	return 0, false
}

// opsNodeByID maps "n3" to node 3.
func opsNodeByID(s *sim.Sim, id string) *node.Node {
	for _, n := range s.Nodes[1:] {
		if n.ID == id {
			return n
		}
	}
	return nil
}

// opsConfig renders a node's view of the raft configuration canonically.
func opsConfig(n *node.Node) (string, []*store.Server, error) {
	ns, err := n.Store.Nodes()
	if err != nil {
		return "", nil, err
	}
	var parts []string
	for _, sv := range ns {
		parts = append(parts, fmt.Sprintf("%s@%s/%v", sv.ID, sv.Addr, sv.Suffrage))
	}
	sort.Strings(parts)
	return strings.Join(parts, ","), ns, nil
}

// opsQuorumReachable: can node n (ground truth: harness network and process
// state) exchange messages with a majority of the voters of its own latest
// configuration?
func opsQuorumReachable(s *sim.Sim, n *node.Node) bool {
	ns, err := n.Store.Nodes()
	if err != nil {
		return false
	}
	voters, reach := 0, 0
	for _, sv := range ns {
		if sv.Suffrage != proto.Suffrage_VOTER {
			continue
		}
		voters++
		if sv.ID == n.ID {
			reach++
			continue
		}
		// find the up node that listens on that address
		for _, m := range s.Nodes[1:] {
			if m.Up && m.RaftAddr == sv.Addr && m.ID == sv.ID && s.Net.Connected(n.HostName, m.HostName) {
				reach++
				break
			}
		}
	}
	return voters > 0 && reach >= voters/2+1
}

// opsSettle: faults have stopped; run until there is exactly one leader whose
// commit index every up member of its configuration has reached, then a
// little longer. Returns the leader or nil.
func opsSettle(s *sim.Sim, extra time.Duration) *node.Node {
	s.Net.Heal()
	cond := func() bool { return opsSettled(s) }
	s.RunUntil(cond, 40*time.Second)
	s.RunFor(extra)
	s.RunUntil(cond, 20*time.Second)
	return s.Leader()
}

// opsSettled: exactly one leader, no task pending, the leader's log is committed
// and applied to its end, and every up member of the leader's configuration
// has reached the leader's commit index (so every log
// is a prefix-consistent copy up to there: entries of deposed leaders that
// were never committed have been overwritten).
func opsSettled(s *sim.Sim) bool {
	l := s.Leader()
	if l == nil || s.PendingTasks() > 0 {
		return false
	}
	// the leader has committed and applied its whole log (in particular the no-op
	// of its own term, and with it anything it inherited from an earlier term)
	rs := l.Store.VerifReadState()
	if rs.CommitIndex != rs.LastLogIndex || rs.RaftAppliedIndex != rs.CommitIndex {
		return false
	}
	lc, err := l.Store.CommitIndex()
	if err != nil {
		return false
	}
	ns, err := l.Store.Nodes()
	if err != nil {
		return false
	}
	for _, sv := range ns {
		m := opsNodeByID(s, sv.ID)
		if m == nil || !m.Up || m.RaftAddr != sv.Addr {
			continue
		}
		c, err := m.Store.CommitIndex()
		if err != nil || c < lc {
			return false
		}
	}
	return true
}

func opsIsolate(s *sim.Sim, i int) {
	var rest []string
	for _, m := range s.Nodes[1:] {
		if m.Idx != i {
			rest = append(rest, m.HostName)
		}
	}
	s.Net.Partition([]string{s.Nodes[i].HostName}, rest)
}

// opsStat reads one of rqlite's process-global store counters (expvar map
// "store"); use differences within a run only.
func opsStat(name string) int64 {
	m, ok := expvar.Get("store").(*expvar.Map)
	if !ok {
		return 0
	}
	if v, ok := m.Get(name).(*expvar.Int); ok {
		return v.Value()
	}
	return 0
}
