package props

import (
	"context"
	"encoding/json"
	"fmt"
	"os"
	"strings"
	"time"

	"github.com/rqlite/rqlite/v10/command/proto"
	"github.com/rqlite/rqlite/v10/verifx"
	"verifsim/core"
	"verifsim/node"
	"verifsim/sched"
	"verifsim/sim"
)

// C31: Store.Close, called while a snapshot, backup or the startup integrity
// check holds the snapshot gate, waits for that operation and proceeds
// promptly once it finishes; it fails only if the operation is still running
// after the shutdown wait limit of about ten seconds.
//
// A real single-node store runs in the bubble. The gate is held either by a
// real Store.Backup whose destination writer stalls for the chosen time (the
// backup holds the gate while it copies the database file), or - for the
// owners "snapshot" and "check-clean-snapshot", whose duration cannot be
// steered from outside - by the harness through the gate itself. A closer task
// calls the real Store.Close at the chosen offset. E3 scheduler: holder and
// closer are tasks; everything is measured on the fake clock.

const (
	c31LimitLo = 9 * time.Second  // "about ten seconds": a hold shorter than this must never make Close fail
	c31LimitHi = 11 * time.Second // a hold longer than this must make Close give up
	c31Prompt  = time.Second      // "promptly": chosen bound between release and Close returning
)

type c31Scenario struct {
	Seed          uint64   `json:"seed"`
	Holder        string   `json:"holder"`      // backup | snapshot | check-clean-snapshot | startup-check | startup-check-legacy
	HoldMs        int      `json:"hold_ms"`     // how long the gate is held
	CloseAtMs     int      `json:"close_at_ms"` // Close is called this long after the gate was taken (negative: before)
	NoSnapOnClose bool     `json:"no_snap_on_close"`
	TickProb      float64  `json:"tick"`
	Ops           []string `json:"ops"` // rows written before (shrinkable, not essential)
}

var c31Remaining = []int{0, 1, 9, 10, 11, 100, 999, 1000, 5000, 8990, 9000, 9500, 9990, 10000, 10010, 10500, 11000, 11010, 12000, 20000}
var c31Offsets = []int{0, 7, 500, 3000}
var c31Holders = []string{"backup", "snapshot", "check-clean-snapshot", "startup-check"}

func c31Enumerate(tier string) []any {
	var out []any
	i := uint64(0)
	for _, h := range c31Holders {
		for _, rem := range c31Remaining {
			for _, off := range c31Offsets {
				if tier != "thorough" && h != "backup" && off == 3000 {
					continue
				}
				i++
				out = append(out, &c31Scenario{Seed: core.Mix(31, i), Holder: h, HoldMs: off + rem, CloseAtMs: off,
					NoSnapOnClose: i%3 == 0, TickProb: 0.1, Ops: []string{"a", "b"}})
			}
		}
	}
	// start-up check on a legacy marker (no CRC32): nothing to compute, the gate must be free at once
	for _, off := range []int{0, 1, 7, 500, 3000, 9000} {
		i++
		out = append(out, &c31Scenario{Seed: core.Mix(31, i), Holder: "startup-check-legacy", CloseAtMs: off,
			NoSnapOnClose: i%2 == 0, TickProb: 0.1, Ops: []string{"a", "b"}})
	}
	// Close before the holder arrives
	for _, h := range c31Holders[:3] {
		i++
		out = append(out, &c31Scenario{Seed: core.Mix(31, i), Holder: h, HoldMs: 2000, CloseAtMs: -50, TickProb: 0.1, Ops: []string{"a"}})
	}
	return out
}

func c31Gen(r *core.Rand, tier string) any {
	sc := &c31Scenario{Seed: r.Uint64()}
	sc.Holder = append(c31Holders, "startup-check-legacy")[r.Intn(5)]
	rem := 0
	switch r.Intn(4) {
	case 0:
		rem = r.Intn(9000)
	case 1:
		rem = 8900 + r.Intn(2300)
	case 2:
		rem = r.Intn(200)
	case 3:
		rem = 11000 + r.Intn(20000)
	}
	off := r.Intn(4000)
	if r.Bool(0.3) {
		off = r.Intn(20)
	}
	sc.HoldMs, sc.CloseAtMs = off+rem, off
	if r.Bool(0.05) {
		sc.CloseAtMs = -r.Range(1, 500)
	}
	sc.NoSnapOnClose = r.Bool(0.4)
	sc.TickProb = []float64{0.02, 0.1, 0.3}[r.Intn(3)]
	for i, n := 0, r.Range(1, 4); i < n; i++ {
		sc.Ops = append(sc.Ops, fmt.Sprintf("v%d", i))
	}
	return sc
}

// c31StallWriter is a backup destination that stalls once, for d, on its first write.
type c31StallWriter struct {
	d       time.Duration
	ev      func() int
	started time.Time
	seq     int
	n       int
}

func (w *c31StallWriter) Write(p []byte) (int, error) {
	if w.started.IsZero() {
		w.started, w.seq = time.Now(), w.ev()
		time.Sleep(w.d)
	}
	w.n += len(p)
	return len(p), nil
}

func c31Run(c *core.Ctx, raw json.RawMessage) {
	var sc c31Scenario
	if err := json.Unmarshal(raw, &sc); err != nil {
		panic(err)
	}
	c.Rng = core.NewRand(sc.Seed)
	sm := sim.New(c)
	defer sm.Shutdown()
	knobs := node.Knobs{NoSnapshotOnClose: sc.NoSnapOnClose}
	if err := sm.Boot(1, knobs, nil); err != nil {
		c.Discard("boot-failed: " + err.Error())
		return
	}
	n := sm.Nodes[1]
	if !execOn(sm, n, "CREATE TABLE t (id INTEGER PRIMARY KEY, v TEXT)") {
		c.Discard("schema-failed")
		return
	}
	for i, v := range sc.Ops {
		if !execOn(sm, n, fmt.Sprintf("INSERT INTO t(id, v) VALUES(%d, '%s')", i+1, v)) {
			c.Discard("write-failed")
			return
		}
	}
	// a snapshot first, so that the backup below does not need to take one itself
	sm.Do("snapshot", 30*time.Second, func() { n.Store.Snapshot(0) })

	hold := time.Duration(sc.HoldMs) * time.Millisecond
	var tHeld, tReleased, tClose, tCloseRet time.Time
	holderGot := false
	// events at the same fake instant are ordered by this counter (tasks run one at a time)
	evSeq, heldSeq, relSeq, closeSeq := 0, 0, 0, 0
	ev := func() int { evSeq++; return evSeq }

	// The start-up integrity check as holder: the node is shut down and started
	// again on its directory; with the clean-snapshot marker in place Open takes
	// the fast path, takes the gate as "check-clean-snapshot" and verifies the
	// database file's CRC32 on a goroutine of its own. The hook point before the
	// CRC computation stretches that computation to hold_ms of fake time. With a
	// legacy marker (no CRC32 recorded) there is nothing to compute.
	startup := strings.HasPrefix(sc.Holder, "startup-check")
	if startup {
		marker := n.Store.CleanSnapshotPathVerif()
		sm.Do("stop", 60*time.Second, func() { n.Stop() })
		b, err := os.ReadFile(marker)
		if err != nil {
			c.Probe("startup_no_clean_snapshot_marker")
			c.Res.Trivial = true
			return
		}
		if sc.Holder == "startup-check-legacy" {
			var m map[string]any
			if err := json.Unmarshal(b, &m); err != nil {
				panic(err)
			}
			delete(m, "crc32")
			nb, _ := json.MarshalIndent(m, "", "  ")
			if err := os.WriteFile(marker, nb, 0o644); err != nil {
				panic(err)
			}
		}
		verifx.InstallHooks(func(point string) error {
			if point == "store.open.clean-check.before-crc" {
				holderGot = true
				tHeld, heldSeq = time.Now(), ev()
				time.Sleep(hold)
				tReleased, relSeq = time.Now(), ev()
			}
			return nil
		}, nil, nil, nil, nil)
		defer verifx.ResetHooks()
		if err := sm.Restart(1); err != nil {
			c.Violate("restart-failed", "node did not start again on its own directory: %v", err)
			return
		}
		if _, err := os.Stat(marker); err != nil {
			// Open did not take the fast path (it removes the marker when it restores from the snapshot store)
			c.Probe("startup_fast_path_not_taken")
			c.Res.Trivial = true
			return
		}
		c.Probe("startup_fast_path_" + map[bool]string{true: "with_crc", false: "legacy_marker"}[sc.Holder == "startup-check"])
	}

	s := sched.New(c, c.Rng.Fork(31))
	s.TickProb = sc.TickProb
	s.Quanta = []time.Duration{time.Millisecond, 10 * time.Millisecond, 100 * time.Millisecond, time.Second}
	s.MaxSteps = 3000
	closeAt := time.Duration(sc.CloseAtMs) * time.Millisecond
	gate := n.Store.VerifSnapshotGate()

	var closeErr error
	var holderErr error
	lead := time.Duration(0)
	if closeAt < 0 {
		lead = -closeAt
	}
	base := time.Now()

	holder := s.Go("holder", func(t *sched.Task) {
		t.Yield("h.start")
		if startup {
			return // the holder is rqlite's own goroutine, started by Open
		}
		if lead > 0 {
			time.Sleep(lead)
		}
		switch sc.Holder {
		case "backup":
			w := &c31StallWriter{d: hold, ev: ev}
			t.Doing = "backup"
			holderErr = n.Store.Backup(context.Background(), &proto.BackupRequest{Format: proto.BackupRequest_BACKUP_REQUEST_FORMAT_BINARY}, w)
			t.Doing = ""
			if !w.started.IsZero() {
				holderGot = true
				tHeld, heldSeq = w.started, w.seq
				tReleased, relSeq = time.Now(), ev()
			}
		default:
			if holderErr = gate.Begin(sc.Holder); holderErr != nil {
				return
			}
			holderGot = true
			tHeld, heldSeq = time.Now(), ev()
			t.Doing = "holding"
			time.Sleep(hold)
			t.Doing = ""
			t.Yield("h.release") // the scheduler orders the release against a retry of Close at the same instant
			tReleased, relSeq = time.Now(), ev()
			gate.End()
		}
		s.Logf("  holder %s done held=%v err=%v", sc.Holder, holderGot, holderErr != nil)
	})
	closer := s.Go("closer", func(t *sched.Task) {
		t.Yield("c.start")
		if closeAt > 0 {
			time.Sleep(closeAt)
		}
		t.Yield("c.close")
		tClose, closeSeq = time.Now(), ev()
		t.Doing = "close"
		closeErr = n.Store.Close(true)
		t.Doing = ""
		tCloseRet = time.Now()
		s.Logf("  close returned err=%v after %s", closeErr != nil, tCloseRet.Sub(tClose))
	})
	s.RunUntil(func() bool { return holder.Done() && closer.Done() })
	if startup && holderGot && relSeq == 0 {
		// Close gave up; let the stretched integrity check finish so that its end is known
		s.RunUntil(func() bool { return relSeq != 0 })
	}
	s.Close()
	if s.Capped {
		c.Res.Verdict = core.Capped
		return
	}

	// ---------------------------------------------------------------- oracle
	waited := tCloseRet.Sub(tClose)
	c.Log.Add("holder=%s got=%v held@%s released@%s close@%s returned@%s err=%v", sc.Holder, holderGot,
		tHeld.Sub(base), tReleased.Sub(base), tClose.Sub(base), tCloseRet.Sub(base), closeErr)
	heldAtClose := holderGot && heldSeq < closeSeq && relSeq > closeSeq
	if !heldAtClose {
		// nothing in the way (holder came later, never got the gate, or was already done)
		c.Probe("close_with_free_gate")
		if closeErr != nil {
			c.Violate("close-failed-free-gate", "Close failed (%v) although nothing held the snapshot gate when it was called", closeErr)
		} else if waited > c31Prompt {
			c.Violate("close-slow-free-gate", "Close took %s although nothing held the snapshot gate when it was called", waited)
		}
		return
	}
	remaining := tReleased.Sub(tClose) // how long the operation kept running after Close was called
	switch {
	case remaining <= c31LimitLo:
		c.Probe("close_waits_for_holder")
		if closeErr != nil {
			c.Violate("close-failed-early", "Close failed after %s (%v) although the %s finished %s after Close was called, well inside the ~10s shutdown wait limit",
				waited, closeErr, sc.Holder, remaining)
		} else if late := tCloseRet.Sub(tReleased); late > c31Prompt {
			c.Violate("close-not-prompt", "the %s released the snapshot gate %s after Close was called, but Close returned only %s later (%s after the call)",
				sc.Holder, remaining, late, waited)
		}
	case remaining >= c31LimitHi:
		c.Probe("close_gives_up_on_long_holder")
		if closeErr == nil {
			c.Violate("close-waited-past-limit", "Close succeeded after waiting %s for the %s; the shutdown wait limit is about 10s", waited, sc.Holder)
		} else if waited > c31LimitHi {
			c.Violate("close-gave-up-late", "Close gave up only after %s; the shutdown wait limit is about 10s", waited)
		} else if waited < c31LimitLo {
			c.Violate("close-failed-early", "Close gave up after only %s (%v); the shutdown wait limit is about 10s", waited, closeErr)
		}
	default:
		// the release falls inside the tolerance band around the limit: either outcome
		c.Probe("close_holder_released_near_limit")
		if closeErr == nil {
			if late := tCloseRet.Sub(tReleased); late > c31Prompt {
				c.Violate("close-not-prompt", "the %s released the snapshot gate %s after Close was called, but Close returned only %s later", sc.Holder, remaining, late)
			}
		} else if waited < c31LimitLo {
			c.Violate("close-failed-early", "Close gave up after only %s (%v); the shutdown wait limit is about 10s", waited, closeErr)
		}
	}
	c.Sig(fmt.Sprintf("%s/%v/%v", sc.Holder, closeErr == nil, remaining.Round(time.Second)))
}

func init() {
	core.Register(&core.Prop{ID: "C31", Bubble: true, Gen: c31Gen, Run: c31Run, Enumerate: c31Enumerate})
}
