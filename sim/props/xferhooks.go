package props

import (
	"fmt"
	"strings"
	"sync"

	"github.com/rqlite/rqlite/v10/verifx"
	"verifsim/core"
)

// Deliberate process exits of rqlite (snapshot integrity failure) are routed
// to the harness through verifhook.Fatal: recorded, and the error is returned
// to the caller instead of killing the worker process.
var (
	fatalMu  sync.Mutex
	fatalLog []string
)

func installFatalRecorder(c *core.Ctx) {
	fatalMu.Lock()
	fatalLog = nil
	fatalMu.Unlock()
	verifx.InstallHooks(nil, nil, nil, nil, func(point string, err error) bool {
		fatalMu.Lock()
		fatalLog = append(fatalLog, point+": "+err.Error())
		fatalMu.Unlock()
		return true
	})
}

func uninstallFatalRecorder() { verifx.ResetHooks() }

// takeFatals returns and clears the recorded fatal exits.
func takeFatals() []string {
	fatalMu.Lock()
	defer fatalMu.Unlock()
	f := fatalLog
	fatalLog = nil
	return f
}

// violate records a violation; scratch paths (which differ between processes)
// are masked so that replays produce identical event logs.
func violate(c *core.Ctx, class, format string, a ...any) {
	c.Violate(class, "%s", strings.ReplaceAll(fmt.Sprintf(format, a...), c.Dir, "$DIR"))
}
