package props

import (
	"bytes"
	"encoding/json"
	"fmt"
	"os"
	"path/filepath"
	"strings"
	"time"

	"github.com/rqlite/rqlite/v10/snapshot"
	"verifsim/core"
	"verifsim/node"
	"verifsim/sim"
	"verifsim/xfer"
)

// C10: a snapshot streamed from one node's store into another node's store
// installs exactly the source data, for any split of the stream and with or
// without transport compression; any truncation, extension, bit corruption or
// header/data mismatch makes the install (or the following restore) fail, and
// altered data is never installed or restored.

type c10Op struct {
	Snap   int    `json:"snap"`             // source selector: index into source snapshots (oldest first), last+1 = the "installed" store (full+WALs shape)
	Zstd   bool   `json:"zstd,omitempty"`   // CompressSnapTransport on both sides
	Base   bool   `json:"base,omitempty"`   // destination already holds an older snapshot
	Split  string `json:"split,omitempty"`  // whole | bytes | rand | cuts
	SplitN int    `json:"sn,omitempty"`     // bytes: number of single-byte deliveries from the stream start
	SSeed  uint64 `json:"ss,omitempty"`     // rand: seed
	Kind   string `json:"k"`                // none | flip | drop | insert | trunc-fin | trunc-rst | short | ext | hdr
	Region string `json:"rg,omitempty"`     // wire faults: abs | any | hdr | edge
	Pos    int    `json:"pos,omitempty"`    // position selector inside the region
	Mask   int    `json:"mask,omitempty"`   // flip mask / insert fill
	N      int    `json:"n,omitempty"`      // drop/insert/short/ext byte count
	Hdr    string `json:"hdr,omitempty"`    // structured header mutation (kind hdr)
	Retry  bool   `json:"retry,omitempty"`  // after a rejected install repeat the transfer un-faulted into the same destination
	Direct bool   `json:"direct,omitempty"` // additionally hand the received payload straight to snapshot.Restore
}

type c10Scenario struct {
	Seed      uint64   `json:"seed"`
	Build     []string `json:"build"`
	BuildSeed uint64   `json:"build_seed"`
	ReapAt    int      `json:"reap_threshold"`
	Ops       []c10Op  `json:"ops"`
}

func c10Builds(r *core.Rand) []string {
	b := []string{fmt.Sprintf("w%d", r.Range(1, 8)), "snap"}
	k := r.Range(1, 4)
	for i := 0; i < k; i++ {
		if r.Bool(0.25) {
			b = append(b, "big")
		}
		if i == 0 && r.Bool(0.1) {
			b = append(b, "huge")
		}
		b = append(b, fmt.Sprintf("w%d", r.Range(1, 6)), "snap")
		if r.Bool(0.12) {
			b = append(b, "reap", fmt.Sprintf("w%d", r.Range(1, 4)), "snap")
		}
	}
	return b
}

var c10Splits = []string{"whole", "bytes", "rand", "rand", "cuts"}

func c10RandOp(r *core.Rand, faulted bool) c10Op {
	op := c10Op{Snap: r.Intn(64), Zstd: r.Bool(0.4), Base: r.Bool(0.3), Split: c10Splits[r.Intn(len(c10Splits))], SplitN: r.Range(8, 120), SSeed: r.Uint64(), Kind: "none", Direct: true}
	if !faulted {
		return op
	}
	op.Retry = r.Bool(0.2)
	switch x := r.Intn(100); {
	case x < 34:
		op.Kind = "flip"
		op.Mask = 1 << uint(r.Intn(8))
		if r.Bool(0.3) {
			op.Mask = 1 + r.Intn(255)
		}
	case x < 46:
		op.Kind = "drop"
		op.N = 1
		if r.Bool(0.4) {
			op.N = r.Range(2, 40)
		}
	case x < 58:
		op.Kind = "insert"
		op.N = 1
		if r.Bool(0.4) {
			op.N = r.Range(2, 40)
		}
		op.Mask = r.Intn(256)
	case x < 66:
		op.Kind = "trunc-fin"
	case x < 74:
		op.Kind = "trunc-rst"
	case x < 80:
		op.Kind = "short"
		op.N = []int{1, 2, 24, 4096, 4120, r.Range(1, 9000)}[r.Intn(6)]
	case x < 86:
		op.Kind = "ext"
		op.N = []int{1, 2, 32, 4096, r.Range(1, 9000)}[r.Intn(5)]
		op.Mask = r.Intn(256)
	default:
		op.Kind = "hdr"
		op.Hdr = xfer.HeaderKinds[r.Intn(len(xfer.HeaderKinds))]
		op.N = r.Intn(1 << 20)
	}
	op.Region = []string{"any", "hdr", "hdr", "edge", "edge"}[r.Intn(5)]
	op.Pos = r.Intn(1 << 30)
	return op
}

func c10Gen(r *core.Rand, tier string) any {
	sc := &c10Scenario{Seed: r.Uint64(), BuildSeed: r.Uint64(), Build: c10Builds(r), ReapAt: 100}
	if r.Bool(0.15) {
		sc.ReapAt = 3
	}
	nops := 44
	for i := 0; i < nops; i++ {
		sc.Ops = append(sc.Ops, c10RandOp(r, i >= 10))
	}
	// the first ops walk over every source shape un-faulted
	for i := 0; i < 10; i++ {
		sc.Ops[i].Snap = i / 2
		sc.Ops[i].Zstd = i%2 == 1
	}
	return sc
}

// c10Enumerate lists the systematic part: every bit of the header region of
// the stream (plain and compressed), and drop/insert/truncate at each of its
// positions; in the thorough tier every byte position of a small stream.
func c10Enumerate(tier string) []any {
	build := []string{"w2", "snap", "w2", "snap", "w1", "snap"}
	var ops []c10Op
	add := func(op c10Op) {
		op.Region = "abs"
		op.Direct = true
		ops = append(ops, op)
	}
	hdrSpan := 64
	for _, z := range []bool{false, true} {
		for _, snap := range []int{0, 2} {
			for pos := 0; pos < hdrSpan; pos++ {
				for bit := 0; bit < 8; bit++ {
					add(c10Op{Snap: snap, Zstd: z, Kind: "flip", Pos: pos, Mask: 1 << uint(bit), Split: "whole"})
				}
				add(c10Op{Snap: snap, Zstd: z, Kind: "drop", Pos: pos, N: 1, Split: "bytes", SplitN: hdrSpan})
				add(c10Op{Snap: snap, Zstd: z, Kind: "insert", Pos: pos, N: 1, Mask: pos * 7, Split: "bytes", SplitN: hdrSpan})
				add(c10Op{Snap: snap, Zstd: z, Kind: "trunc-rst", Pos: pos, Split: "whole"})
			}
		}
	}
	if tier == "thorough" {
		r := core.NewRand(10)
		for _, z := range []bool{false, true} {
			max := 8400
			if z {
				max = 1400
			}
			for pos := 0; pos < max; pos++ {
				add(c10Op{Snap: 0, Zstd: z, Kind: "flip", Pos: pos, Mask: 1 + r.Intn(255), Split: "whole"})
				add(c10Op{Snap: 0, Zstd: z, Kind: "drop", Pos: pos, N: 1, Split: "whole"})
				add(c10Op{Snap: 0, Zstd: z, Kind: "insert", Pos: pos, N: 1, Mask: r.Intn(256), Split: "whole"})
				add(c10Op{Snap: 0, Zstd: z, Kind: "trunc-rst", Pos: pos, Split: "whole"})
				if pos%16 == 0 {
					add(c10Op{Snap: 0, Zstd: z, Kind: "trunc-fin", Pos: pos, Split: "whole"})
				}
			}
		}
	}
	per := 96
	if tier == "thorough" {
		per = 400
	}
	var out []any
	for i := 0; i < len(ops); i += per {
		j := i + per
		if j > len(ops) {
			j = len(ops)
		}
		out = append(out, &c10Scenario{Seed: uint64(1000 + i), BuildSeed: 7, Build: build, ReapAt: 100, Ops: ops[i:j]})
	}
	return out
}

// c10Deferred holds the first finding of a class that leaves the installed
// data intact (the stream was corrupted, accepted, and the content is still
// identical to the source). It is reported at the end of the run, so that the
// remaining operations are still evaluated and a finding that installs or
// restores altered data always takes precedence.
type c10Deferred struct{ class, detail string }

func (d *c10Deferred) set(c *core.Ctx, class, format string, a ...any) {
	c.Probe("finding_" + class)
	if d.class == "" {
		d.class, d.detail = class, strings.ReplaceAll(fmt.Sprintf(format, a...), c.Dir, "$DIR")
	}
}

var c10def *c10Deferred

type c10Src struct {
	st   *snapshot.Store
	info *xfer.SnapInfo
	kind string
}

func c10Run(c *core.Ctx, raw json.RawMessage) {
	var sc c10Scenario
	if err := json.Unmarshal(raw, &sc); err != nil {
		panic(err)
	}
	c.Rng = core.NewRand(sc.Seed)
	installFatalRecorder(c)
	defer uninstallFatalRecorder()
	s := sim.New(c)
	defer s.Shutdown()

	src, err := xfer.Build(s, sc.Build, sc.BuildSeed, node.Knobs{SnapshotReapThreshold: sc.ReapAt, SnapshotThreshold: 1 << 30, SnapshotInterval: time.Hour})
	if err != nil {
		if !c.Failed() {
			c.Discard("build-failed: " + err.Error())
		}
		return
	}
	if len(src.Snaps) == 0 {
		c.Discard("build-produced-no-snapshot")
		return
	}
	eng, err := xfer.NewEngine(c, s.Net)
	if err != nil {
		c.Discard("engine: " + err.Error())
		return
	}
	defer eng.Close()

	srcStore, err := xfer.OpenCopy(src.SnapDir, filepath.Join(c.Dir, "A"))
	if err != nil {
		violate(c, "source-open-failed", "snapshot.NewStore on the pristine source failed: %v", err)
		return
	}
	defer srcStore.Close()
	var sources []c10Src
	for _, si := range src.Snaps {
		k := "full-only"
		if si.NWALs > 0 {
			k = "chain"
		}
		sources = append(sources, c10Src{srcStore, si, k})
	}
	restoreTo := filepath.Join(c.Dir, "restored.db")

	// A destination that already holds the oldest snapshot (installed un-faulted).
	baseImg := filepath.Join(c.Dir, "base.img")
	var baseRef []byte
	{
		d, err := xfer.OpenCopy(filepath.Join(c.Dir, "none"), filepath.Join(c.Dir, "B0"))
		if err != nil {
			c.Discard("dest: " + err.Error())
			return
		}
		o := eng.Run(&xfer.Spec{Src: srcStore, ID: src.Snaps[0].ID, Dest: d, Split: xfer.SplitPlan{Mode: "whole"}, RestoreTo: restoreTo})
		d.Close()
		if !c10CheckUnfaulted(c, "base", src.Snaps[0], o, restoreTo) {
			return
		}
		node.CopyTree(filepath.Join(c.Dir, "B0"), baseImg)
		baseRef = src.Snaps[0].Ref
	}
	// A store whose only snapshot is a database plus WAL files in one directory
	// (what an install of an incremental chain leaves): used as a further source.
	var instStore *snapshot.Store
	for i := len(src.Snaps) - 1; i >= 0; i-- {
		if src.Snaps[i].NWALs == 0 {
			continue
		}
		d, err := xfer.OpenCopy(filepath.Join(c.Dir, "none"), filepath.Join(c.Dir, "I"))
		if err != nil {
			c.Discard("dest: " + err.Error())
			return
		}
		time.Sleep(2 * time.Millisecond)
		o := eng.Run(&xfer.Spec{Src: srcStore, ID: src.Snaps[i].ID, Dest: d, Zstd: true, Split: xfer.SplitPlan{Mode: "rand", Rng: core.NewRand(sc.Seed ^ 99)}, RestoreTo: restoreTo})
		if !c10CheckUnfaulted(c, "inst", src.Snaps[i], o, restoreTo) {
			d.Close()
			return
		}
		_, st2, err := xfer.ReadStream(d, o.NewID)
		if err != nil || !bytes.Equal(st2, src.Snaps[i].Stream) {
			violate(c, "installed-stream-differs", "snapshot %s installed un-faulted re-streams differently from the source (err=%v, %d vs %d bytes)", src.Snaps[i].ID, err, len(st2), len(src.Snaps[i].Stream))
			d.Close()
			return
		}
		ii := *src.Snaps[i]
		ii.ID = o.NewID
		instStore = d
		sources = append(sources, c10Src{d, &ii, "full+wals"})
		break
	}
	if instStore != nil {
		defer instStore.Close()
	}

	c10def = &c10Deferred{}
	nShapes := map[string]bool{}
	wireLens := map[string]int64{}
	for opi, op := range sc.Ops {
		if c.Failed() {
			break
		}
		sel := sources[op.Snap%len(sources)]
		info := sel.info
		S := info.Stream
		time.Sleep(2 * time.Millisecond) // snapshot ids carry a millisecond stamp
		destDir := filepath.Join(c.Dir, "B")
		from := filepath.Join(c.Dir, "none")
		if op.Base {
			from = baseImg
		}
		dest, err := xfer.OpenCopy(from, destDir)
		if err != nil {
			c.Discard("dest: " + err.Error())
			return
		}
		spec := &xfer.Spec{Src: sel.st, ID: info.ID, Dest: dest, Zstd: op.Zstd, RestoreTo: restoreTo}
		spec.Split = xfer.SplitPlan{Mode: op.Split, N: op.SplitN, Rng: core.NewRand(op.SSeed)}
		if spec.Split.Mode == "" {
			spec.Split.Mode = "whole"
		}
		hs, _ := xfer.ParseStream(S)
		if op.Split == "cuts" && hs != nil {
			for _, b := range hs.Bounds {
				spec.Split.Cuts = append(spec.Split.Cuts, b-1, b, b+1)
			}
			spec.Split.Cuts = append([]int64{1, 3, 4, 5, int64(hs.DataOff) - 1}, spec.Split.Cuts...)
		}
		applicable := true
		producerFault := false
		desc := op.Kind
		switch op.Kind {
		case "none":
		case "short":
			n := 1 + (op.N-1)%len(S)
			if n >= len(S) {
				n = len(S) - 1
			}
			spec.Stream, spec.Meta = append([]byte(nil), S[:len(S)-n]...), info.Meta
			producerFault = true
			desc = fmt.Sprintf("short by %d", n)
		case "ext":
			n := op.N
			if n < 1 {
				n = 1
			}
			ext := make([]byte, n)
			for i := range ext {
				ext[i] = byte(op.Mask + i*13)
			}
			spec.Stream, spec.Meta = append(append([]byte(nil), S...), ext...), info.Meta
			producerFault = true
			desc = fmt.Sprintf("extended by %d", n)
		case "hdr":
			ms, ok := xfer.MutateHeader(S, op.Hdr, op.N)
			if !ok || bytes.Equal(ms, S) {
				applicable = false
				break
			}
			spec.Stream, spec.Meta = ms, info.Meta
			producerFault = true
			desc = "hdr " + op.Hdr
		case "flip", "drop", "insert", "trunc-fin", "trunc-rst":
			// the wire length is only known once the sender has written the stream:
			// resolved below through a dry measurement for compressed streams
			L := int64(len(S))
			if op.Zstd {
				L = c10WireLen(eng, sel, c, wireLens)
				if L <= 0 {
					applicable = false
					break
				}
			}
			var pos int64
			switch op.Region {
			case "abs":
				pos = int64(op.Pos)
				if pos >= L {
					applicable = false
				}
			case "hdr":
				span := int64(64)
				if !op.Zstd && hs != nil {
					span = int64(hs.DataOff) + 24
				}
				if span > L {
					span = L
				}
				pos = int64(op.Pos) % span
			case "edge":
				if op.Zstd || hs == nil || len(hs.Bounds) == 0 {
					pos = int64(op.Pos) % L
				} else {
					b := hs.Bounds[(op.Pos/9)%len(hs.Bounds)]
					pos = b + int64(op.Pos%9) - 4
					if pos < 0 {
						pos = 0
					}
					if pos >= L {
						pos = L - 1
					}
				}
			default:
				pos = int64(op.Pos) % L
			}
			mask := byte(op.Mask)
			if op.Kind == "flip" && mask == 0 {
				mask = 1
			}
			n := op.N
			if n < 1 {
				n = 1
			}
			spec.Wire = &xfer.WireFault{Kind: op.Kind, Pos: pos, Mask: mask, N: n}
			desc = fmt.Sprintf("%s@%d/%d mask=%#x n=%d", op.Kind, pos, L, mask, n)
		default:
			applicable = false
		}
		if !applicable {
			c.Probe("op_not_applicable")
			dest.Close()
			continue
		}
		c.Res.Cases++
		nShapes[sel.kind] = true
		before, _, _ := xfer.IDs(dest)
		o := eng.Run(spec)
		tag := fmt.Sprintf("op %d src=%s(%s,%d wals,%dB) zstd=%v base=%v split=%s fault=[%s]", opi, info.ID, sel.kind, info.NWALs, len(S), op.Zstd, op.Base, spec.Split.Mode, desc)
		c.Log.Add("%s -> installed=%v err=%v send_err=%v payload=%d wire=%d fired=%v restored=%v", tag, o.Installed, errClass(o.InstallErr()), o.SendErr != nil, len(o.Payload), o.WireLen, o.WireFired, o.Restored)
		for _, st := range o.Stray {
			// not judged by C10 (nothing is installed by it); recorded: the receiving
			// transport decoded left-over bytes of a rejected stream as another RPC
			c.Probe("stray_rpc_decoded_from_leftover_bytes")
			c.Log.Add("op %d stray rpc after the transfer: %s", opi, st)
		}
		c.Probe("transfers")
		c.Probe("shape_" + sel.kind)
		if op.Zstd {
			c.Probe("transfers_zstd")
		}
		if o.Steps > 6 {
			c.Probe("transfers_split_into_many_writes")
		}
		if o.WireLen > 256*1024 {
			c.Probe("transfers_longer_than_one_transport_buffer")
		}
		c10Judge(c, eng, tag, &op, spec, info, S, dest, destDir, before, o, producerFault, baseRef, restoreTo)
		dest.Close()
	}
	if !c.Failed() && c10def.class != "" {
		violate(c, c10def.class, "%s", c10def.detail)
	}
	c.Res.Trivial = c.Res.Cases == 0
	c.Sig(fmt.Sprintf("%d snaps %v", len(src.Snaps), len(nShapes)))
}

// c10WireLen measures the length of the compressed stream for a source (cached per run).
func c10WireLen(eng *xfer.Engine, sel c10Src, c *core.Ctx, c10wl map[string]int64) int64 {
	key := sel.kind + "/" + sel.info.ID
	if v, ok := c10wl[key]; ok {
		return v
	}
	d, err := xfer.OpenCopy(filepath.Join(c.Dir, "none"), filepath.Join(c.Dir, "M"))
	if err != nil {
		return 0
	}
	defer d.Close()
	time.Sleep(2 * time.Millisecond)
	o := eng.Run(&xfer.Spec{Src: sel.st, ID: sel.info.ID, Dest: d, Zstd: true, Split: xfer.SplitPlan{Mode: "whole"}})
	if !o.Installed || len(o.Stray) > 0 {
		violate(c, "unfaulted-install-failed", "measuring transfer of %s (zstd, un-faulted) was not installed cleanly: %v stray=%v", sel.info.ID, errClass(o.InstallErr()), o.Stray)
		return 0
	}
	c10wl[key] = o.WireLen
	return o.WireLen
}

func errClass(err error) string {
	if err == nil {
		return "<nil>"
	}
	s := err.Error()
	if i := strings.Index(s, "/dev/shm/"); i >= 0 {
		s = s[:i] + "$DIR..."
	}
	if i := strings.Index(s, ":"); i > 0 {
		rest := s[i+1:]
		if len(rest) > 60 {
			rest = rest[:60]
		}
		return s[:i] + ":" + rest
	}
	return s
}

// c10CheckUnfaulted demands a perfect result of an un-faulted transfer.
func c10CheckUnfaulted(c *core.Ctx, tag string, info *xfer.SnapInfo, o *xfer.Outcome, restoreTo string) bool {
	if o.Stuck {
		violate(c, "transfer-hung", "%s: un-faulted transfer made no progress for 300 simulated seconds", tag)
		return false
	}
	if !o.Installed {
		violate(c, "unfaulted-install-failed", "%s: un-faulted transfer of %s was not installed: %v (sender: %v)", tag, info.ID, errClass(o.InstallErr()), o.SendErr)
		return false
	}
	if !bytes.Equal(o.Payload, info.Stream) {
		_, d := xfer.Compare(info.Stream, o.Payload)
		violate(c, "unfaulted-payload-differs", "%s: transport delivered different bytes to the sink without any fault: %s", tag, d)
		return false
	}
	if !o.Restored {
		violate(c, "unfaulted-restore-failed", "%s: snapshot %s installed un-faulted cannot be restored: open=%v restore=%v", tag, info.ID, o.RestoreOpen, o.RestoreErr)
		return false
	}
	got, _ := os.ReadFile(restoreTo)
	if !bytes.Equal(got, info.Ref) {
		violate(c, "unfaulted-content-differs", "%s: snapshot %s installed un-faulted restores to a different database: %s", tag, info.ID, c10DumpDiff(c, info, restoreTo))
		return false
	}
	if len(o.Stray) > 0 {
		violate(c, "unfaulted-stray-rpc", "%s: after an un-faulted transfer the receiving transport decoded further RPCs from the same connection: %v", tag, o.Stray)
		return false
	}
	if o.SendErr != nil {
		violate(c, "unfaulted-sender-error", "%s: snapshot installed but the sender got an error: %v", tag, o.SendErr)
		return false
	}
	return true
}

func c10DumpDiff(c *core.Ctx, info *xfer.SnapInfo, path string) string {
	d, err := sim.DumpFiles(path, c.Dir)
	if err != nil {
		return "restored file cannot be dumped: " + err.Error()
	}
	if d == info.Dump {
		return "same logical content, different file bytes"
	}
	return sim.FirstDiff(info.Dump, d)
}

func c10Judge(c *core.Ctx, eng *xfer.Engine, tag string, op *c10Op, spec *xfer.Spec, info *xfer.SnapInfo, S []byte,
	dest *snapshot.Store, destDir string, before []string, o *xfer.Outcome, producerFault bool, baseRef []byte, restoreTo string) {
	c10JudgeInstall(c, eng, tag, op, spec, info, S, dest, destDir, before, o, producerFault, baseRef, restoreTo)
	if c.Failed() || op.Kind == "none" || !op.Direct || o.Stuck {
		return
	}
	if producerFault {
		c10Direct(c, tag, info, S, spec.Stream, op.Kind)
	} else if len(o.Payload) > 0 {
		c10Direct(c, tag, info, S, o.Payload, op.Kind)
	}
}

func c10JudgeInstall(c *core.Ctx, eng *xfer.Engine, tag string, op *c10Op, spec *xfer.Spec, info *xfer.SnapInfo, S []byte,
	dest *snapshot.Store, destDir string, before []string, o *xfer.Outcome, producerFault bool, baseRef []byte, restoreTo string) {
	if o.Stuck {
		violate(c, "transfer-hung", "%s: transfer made no progress for 300 simulated seconds", tag)
		return
	}
	if op.Kind == "none" {
		if c10CheckUnfaulted(c, tag, info, o, restoreTo) {
			c.Probe("unfaulted_ok")
			after, _, _ := xfer.IDs(dest)
			if len(after) != len(before)+1 {
				violate(c, "unfaulted-not-listed", "%s: installed snapshot not listed: before %v after %v", tag, before, after)
			}
			if l, _ := dest.List(); len(l) != 1 || l[0].ID != o.NewID {
				violate(c, "unfaulted-not-listed", "%s: List() does not return the installed snapshot %s", tag, o.NewID)
			}
		}
		return
	}
	fired := producerFault || o.WireFired
	if !fired {
		c.Probe("fault_did_not_fire")
	} else {
		c.Fault(op.Kind)
	}
	cls, det := xfer.Compare(S, o.Payload)
	if producerFault {
		// the producer itself sent a stream that differs from the store's: compare against that
		cls, det = xfer.Compare(S, spec.Stream)
	}
	if o.Installed {
		c.Probe("faulted_but_installed")
		if !o.Restored {
			if cls == "same" {
				violate(c, "unfaulted-restore-failed", "%s: payload reached the sink unaltered, was installed, but cannot be restored: open=%v restore=%v", tag, o.RestoreOpen, o.RestoreErr)
			} else {
				c.Probe("rejected_at_restore")
			}
			return
		}
		got, _ := os.ReadFile(restoreTo)
		if !bytes.Equal(got, info.Ref) {
			violate(c, "altered-data-installed", "%s: install and restore succeeded but the database differs from the source: %s (payload: %s %s)", tag, c10DumpDiff(c, info, restoreTo), cls, det)
			return
		}
		if _, st2, err := xfer.ReadStream(dest, o.NewID); err != nil || !bytes.Equal(st2, S) {
			violate(c, "installed-stream-differs", "%s: installed snapshot re-streams differently from the source (err=%v)", tag, err)
			return
		}
		switch cls {
		case "same":
			c.Probe("fault_masked_before_sink")
		case "header-only":
			c10def.set(c, "corrupt-stream-accepted", "%s: corrupted stream was installed and restored (content identical to the source): payload-bytes-identical header-diff: %s", tag, det)
		default:
			violate(c, "altered-stream-accepted", "%s: altered stream was installed and restored: %s", tag, det)
		}
		return
	}
	// rejected
	switch {
	case o.OpenErr != nil:
		c.Probe("rejected_at_source_open")
	case o.CopyErr != nil:
		c.Probe("rejected_at_write")
	case o.ShortRead:
		c.Probe("rejected_short_read")
	case o.CloseErr != nil:
		c.Probe("rejected_at_close")
	default:
		c.Probe("rejected_other")
	}
	if !fired {
		violate(c, "unfaulted-install-failed", "%s: fault did not fire, yet the install failed: %v", tag, errClass(o.InstallErr()))
		return
	}
	after, _, err := xfer.IDs(dest)
	if err != nil || strings.Join(after, ",") != strings.Join(before, ",") {
		violate(c, "failed-install-left-snapshot", "%s: rejected install changed the destination's snapshot list: before %v after %v err=%v", tag, before, after, err)
		return
	}
	if op.Base {
		l, err := dest.List()
		if err != nil || len(l) != 1 || l[0].ID != before[len(before)-1] {
			violate(c, "failed-install-damaged-existing", "%s: destination no longer lists its previous snapshot after a rejected install: %v %v", tag, l, err)
			return
		}
		_, rc, err := dest.Open(l[0].ID)
		if err != nil {
			violate(c, "failed-install-damaged-existing", "%s: previous snapshot cannot be opened after a rejected install: %v", tag, err)
			return
		}
		os.Remove(restoreTo)
		_, err = snapshot.Restore(rc, restoreTo)
		rc.Close()
		got, _ := os.ReadFile(restoreTo)
		if err != nil || !bytes.Equal(got, baseRef) {
			violate(c, "failed-install-damaged-existing", "%s: previous snapshot restores differently after a rejected install: err=%v", tag, err)
			return
		}
		c.Probe("existing_snapshot_intact_after_reject")
	}
	if op.Retry {
		time.Sleep(2 * time.Millisecond)
		o2 := eng.Run(&xfer.Spec{Src: spec.Src, ID: spec.ID, Dest: dest, Zstd: op.Zstd, Split: xfer.SplitPlan{Mode: "whole"}, RestoreTo: restoreTo})
		if c10CheckUnfaulted(c, tag+" retry", info, o2, restoreTo) {
			c.Probe("retry_after_reject_ok")
		}
	}
}

// c10Direct hands a (possibly altered) payload straight to snapshot.Restore,
// the consumer a node uses on its own store's streams.
func c10Direct(c *core.Ctx, tag string, info *xfer.SnapInfo, S, P []byte, kind string) {
	_ = kind
	tmp := filepath.Join(c.Dir, "direct.db")
	os.Remove(tmp)
	defer os.Remove(tmp)
	cls, det := xfer.Compare(S, P)
	nread, err := snapshot.Restore(bytes.NewReader(P), tmp)
	xfer.CleanRestoreTemps(c.Dir)
	c.Probe("direct_restores")
	if err == nil && nread < int64(len(P)) {
		// Restore reads exactly what the header announces (a self-consistent,
		// checksummed snapshot) and never looks at what follows. Bytes after the
		// last announced file - an extension, or a header announcing fewer files
		// than were sent - are rejected by the install path (FullSink:
		// ErrUnexpectedData), which every stream from another node goes through;
		// Restore alone is not required to notice them.
		c.Probe("direct_restore_ignored_trailing_bytes")
		return
	}
	if err != nil {
		if cls == "same" {
			violate(c, "unfaulted-restore-failed", "%s: direct restore of an unaltered payload failed: %v", tag, err)
		}
		c.Probe("direct_restore_rejected")
		return
	}
	got, _ := os.ReadFile(tmp)
	if !bytes.Equal(got, info.Ref) {
		info2 := *info
		violate(c, "altered-data-restored", "%s: snapshot.Restore accepted an altered stream and produced a different database: %s (%s %s)", tag, c10DumpDiff(c, &info2, tmp), cls, det)
		return
	}
	switch {
	case cls == "same":
	case cls == "header-only":
		c10def.set(c, "corrupt-stream-accepted", "%s: direct-restore: corrupted stream was restored (content identical to the source): payload-bytes-identical header-diff: %s", tag, det)
	default:
		violate(c, "altered-stream-accepted", "%s: direct-restore: altered stream was restored: %s", tag, det)
	}
}

func init() {
	core.Register(&core.Prop{ID: "C10", Bubble: true, Gen: c10Gen, Run: c10Run, Enumerate: c10Enumerate})
}
