package props

import (
	"database/sql"
	"encoding/json"
	"fmt"
	"regexp"
	"sort"
	"strings"
	"time"

	"github.com/rqlite/rqlite/v10/command/proto"
	rsql "github.com/rqlite/rqlite/v10/command/sql"
	rqsql "github.com/rqlite/sql"
	"verifsim/core"
	"verifsim/seeded"
	"verifsim/simclock"
	"verifsim/sqlgen"
)

// C14: before replication every RANDOM() outside ORDER BY, every
// RANDOMBLOB(literal) and every date/time function whose time value is now
// (explicit or implicit) is replaced by a concrete value; nothing else about the
// statement's meaning changes; statements without such calls are unchanged.
//
// One run: a generated list of statements. For each statement the real
// command/sql.Process rewrites it at simulated time T0 (Go clock of the bubble,
// node-local time zone chosen by the scenario); then the harness's own SQLite
// evaluates
//   - the REWRITTEN text at two later simulated times T1 and T2 (the simulator
//     owns SQLite's 'now'): results and post-state must be identical, and
//   - the ORIGINAL text at T0 on a connection whose random()/randomblob() are the
//     constant functions the rewriter was made to draw from: result and
//     post-state must equal the rewritten statement's, for some instant within
//     1 s of T0 (the substituted literal has limited precision).
//
// Statements in which none of the nine function names is called must come back
// byte-identical; statements that only have deterministic calls of them must
// also come back unchanged.

type c14Scenario struct {
	Seed    uint64        `json:"seed"`
	Opts    sqlgen.Opts   `json:"opts"`
	TZMin   int           `json:"tz_min,omitempty"` // time zone (minutes east of UTC) of the node that rewrites
	T0Ms    int64         `json:"t0_ms"`            // simulated instant of the first statement, ms after 2000-01-01T00:00:00Z
	Jump1Ms int64         `json:"jump1_ms"`
	Jump2Ms int64         `json:"jump2_ms"`
	GapMs   int           `json:"gap_ms"`
	Stmts   []sqlgen.Stmt `json:"stmts"`
}

const c14MsDay = int64(86400000)

func c14Gen(r *core.Rand, tier string) any {
	sc := &c14Scenario{Seed: r.Uint64()}
	if !r.Bool(0.45) { // 45% of runs use the plain grammar only
		sc.Opts.ZeroArg = r.Bool(0.4)
		sc.Opts.SpaceParen = r.Bool(0.25)
		sc.Opts.IdentNow = r.Bool(0.2)
		sc.Opts.HexBlobN = r.Bool(0.15)
		sc.Opts.ExoticMods = r.Bool(0.15)
		sc.Opts.OrderByRandom = r.Bool(0.3)
		sc.Opts.Comments = r.Bool(0.3)
		sc.Opts.BetweenOr = r.Bool(0.15)
		sc.Opts.CteND = r.Bool(0.2)
		sc.Opts.IsNullND = r.Bool(0.2)
		sc.Opts.ReturningUD = r.Bool(0.2)
		sc.Opts.LikeEscape = r.Bool(0.1)
		if r.Bool(0.25) {
			sc.TZMin = []int{-480, -300, 60, 330, 540, 765}[r.Intn(6)]
		}
	}
	sc.Opts.NDPercent = []int{15, 30, 50}[r.Intn(3)]
	// T0: somewhere in 2000..2003, often just before a second / day / month / year boundary
	day := int64(r.Intn(1200))
	switch r.Intn(6) {
	case 0:
		day = 58 // 2000-02-28 .. leap day next
	case 1:
		day = 365 // 2000-12-31
	case 2:
		day = int64(30 + r.Intn(3)) // end of January
	}
	switch r.Intn(4) {
	case 0:
		sc.T0Ms = day*c14MsDay + c14MsDay - int64(1+r.Intn(1500)) // within 1.5 s before midnight
	case 1:
		sc.T0Ms = day*c14MsDay + int64(r.Intn(86400))*1000 + 950 + int64(r.Intn(50)) // just before a second boundary
	default:
		sc.T0Ms = day*c14MsDay + int64(r.Intn(int(c14MsDay)))
	}
	jumps := []int64{1, 37, 999, 1000, 61000, 3600000, c14MsDay, 31 * c14MsDay, 366 * c14MsDay, 1500 * c14MsDay}
	sc.Jump1Ms = jumps[r.Intn(len(jumps))]
	sc.Jump2Ms = sc.Jump1Ms + jumps[r.Intn(len(jumps))]
	sc.GapMs = []int{1, 13, 400, 1000, 59000, 3600000}[r.Intn(6)]
	n := 40
	if tier == "thorough" {
		n = 50
	}
	g := sqlgen.New(r.Fork(14), sc.Opts)
	for i := 0; i < n; i++ {
		sc.Stmts = append(sc.Stmts, g.Any())
	}
	return sc
}

type c14Eval struct {
	err   bool
	rows  string // canonical result rows (sorted unless the statement defines an order)
	state string // logical dump after the statement
}

func (e c14Eval) String() string {
	if e.err {
		return "ERROR"
	}
	return e.rows + "\n--state--\n" + e.state
}

func c14StmtArgs(st *sqlgen.Stmt) []any {
	var args []any
	if len(st.Named) > 0 {
		keys := make([]string, 0, len(st.Named))
		for k := range st.Named {
			keys = append(keys, k)
		}
		sort.Strings(keys)
		for _, k := range keys {
			args = append(args, sql.Named(k, st.Named[k]))
		}
		return args
	}
	for _, p := range st.Params {
		// JSON numbers come back as float64 after a scenario round trip
		if f, ok := p.(float64); ok && f == float64(int64(f)) && !strings.ContainsAny(fmt.Sprint(p), "e") {
			args = append(args, int64(f))
			continue
		}
		args = append(args, p)
	}
	return args
}

func c14NamedArgsFix(args []any) []any {
	for i, a := range args {
		if na, ok := a.(sql.NamedArg); ok {
			if f, ok := na.Value.(float64); ok && f == float64(int64(f)) {
				na.Value = int64(f)
				args[i] = na
			}
		}
	}
	return args
}

// c14EvalAt executes text (inside a transaction that is rolled back) with SQLite's
// clock at the given instant and returns the canonical outcome.
func c14EvalAt(db *sql.DB, st *sqlgen.Stmt, text string, at time.Time) (c14Eval, error) {
	simclock.Set(at)
	tx, err := db.Begin()
	if err != nil {
		return c14Eval{}, err
	}
	defer tx.Rollback()
	r, err := tx.Query(text, c14NamedArgsFix(c14StmtArgs(st))...)
	if err != nil {
		return c14Eval{err: true}, nil
	}
	cols, lines, err := sqlhRowsText(r)
	if err != nil {
		return c14Eval{err: true}, nil
	}
	if !st.Ordered {
		sort.Strings(lines)
	}
	d := ""
	if st.Kind != "select" {
		if d, err = sqlhDumpQ(tx); err != nil {
			return c14Eval{}, err
		}
	}
	// Column NAMES of unaliased result expressions are the expression's source
	// text, which re-serialisation legitimately changes; only their number counts.
	return c14Eval{rows: fmt.Sprintf("%d columns\n", len(cols)) + strings.Join(lines, "\n"), state: d}, nil
}

var (
	c14ReZeroArg  = regexp.MustCompile(`\b(date|time|datetime|julianday|unixepoch)\s*\(\s*\)`)
	c14ReFmtOnly  = regexp.MustCompile(`\bstrftime\s*\(\s*§s\s*\)`)
	c14ReNowFirst = regexp.MustCompile(`\b(date|time|datetime|julianday|unixepoch)\s*\(\s*§snow`)
	c14ReNowStrf  = regexp.MustCompile(`\bstrftime\s*\(\s*§s\s*,\s*§snow`)
	c14ReNowDiff  = regexp.MustCompile(`\btimediff\s*\([^()]*§snow`)
	c14ReRandom   = regexp.MustCompile(`\brandom\s*\(\s*\)`)
	c14ReRandBlob = regexp.MustCompile(`\brandomblob\s*\(\s*(\d+|0x[0-9a-f]+)\s*\)`)
)

// c14ResidualND lists the kinds of non-deterministic call still present in a
// (rewritten) statement text, judged on the text with literals stripped.
func c14ResidualND(text string, orderByRandom bool) []string {
	s := strings.ToLower(sqlhStripSQL(text))
	var out []string
	if c14ReZeroArg.MatchString(s) {
		out = append(out, "time-zeroarg")
	}
	if c14ReFmtOnly.MatchString(s) {
		out = append(out, "time-fmtonly")
	}
	if c14ReNowFirst.MatchString(s) || c14ReNowStrf.MatchString(s) || c14ReNowDiff.MatchString(s) {
		out = append(out, "time-explicit-now")
	}
	if !orderByRandom && c14ReRandom.MatchString(s) {
		out = append(out, "random")
	}
	if c14ReRandBlob.MatchString(s) {
		out = append(out, "randomblob")
	}
	return out
}

// c14NDClass names the violation class for a rewritten text that still holds
// non-deterministic calls: "not-rewritten" when at least one of them is in a
// plain expression position (or the text cannot be analysed), otherwise
// "not-rewritten-in-<ctx>" for calls that all sit in one special syntactic
// context (WITH body, IS NULL operand).
func c14NDClass(rw string, orderByRandom bool) (class string, rank int, residual string) {
	res, ok := sqlhFindND(rw)
	if !ok {
		// rqlite's own parser rejects the text (Process skips such statements silently)
		return "not-rewritten-unparsed: " + c14ParseErrorOf(rw), 5, fmt.Sprintf("%v(unparsed)", c14ResidualND(rw, orderByRandom))
	}
	if len(res) == 0 {
		return "not-rewritten", 1, fmt.Sprintf("%v(textual)", c14ResidualND(rw, orderByRandom))
	}
	ctx := res[0].Ctx
	for _, r := range res {
		if r.Ctx == "" {
			return "not-rewritten", 1, fmt.Sprint(res)
		}
		if r.Ctx < ctx {
			ctx = r.Ctx
		}
	}
	return "not-rewritten-in-" + ctx, 5, fmt.Sprint(res)
}

var c14RePos = regexp.MustCompile(`^\d+:\d+: `)

// c14ParseErrorOf returns the message (without position) with which rqlite's SQL
// parser rejects text, "" if it parses.
func c14ParseErrorOf(text string) (msg string) {
	defer func() {
		if r := recover(); r != nil {
			msg = fmt.Sprintf("parser panic: %v", r)
		}
	}()
	_, err := rqsql.NewParser(strings.NewReader(text)).ParseStatement()
	if err == nil {
		return ""
	}
	m := c14RePos.ReplaceAllString(err.Error(), "")
	if i := strings.Index(m, ", found"); i > 0 {
		m = m[:i]
	}
	return m
}

// c14ExpectFails checks Stmt.Expect against an evaluation; "" = holds.
func c14ExpectFails(expect string, e c14Eval) string {
	if e.err {
		return "the statement fails"
	}
	lines := strings.Split(e.rows, "\n")[1:] // first line is the column count
	switch expect {
	case "ok":
		return ""
	case "true":
		if len(lines) != 1 || lines[0] != "I1" {
			return fmt.Sprintf("result is %q, not true", strings.Join(lines, " / "))
		}
	case "distinct-cols":
		if len(lines) == 0 || lines[0] == "" {
			return "no result row"
		}
		for _, l := range lines {
			cells := strings.Split(l, "|")
			for i := range cells {
				for j := i + 1; j < len(cells); j++ {
					if cells[i] == cells[j] {
						return fmt.Sprintf("columns %d and %d of the result are both %s", i+1, j+1, cells[i])
					}
				}
			}
		}
	}
	return ""
}

type c14Finding struct {
	rank   int
	class  string
	detail string
}

func c14Run(c *core.Ctx, raw json.RawMessage) {
	var sc c14Scenario
	if err := json.Unmarshal(raw, &sc); err != nil {
		panic(err)
	}
	c.Rng = core.NewRand(sc.Seed)
	oldLocal := time.Local
	time.Local = time.FixedZone("SIM", sc.TZMin*60)
	defer func() { time.Local = oldLocal }()
	seeded.Fix(sqlhFixedDraw)
	defer seeded.Unfix()

	// two identical scratch databases: plain SQLite for the rewritten text,
	// constant random()/randomblob() for the original text
	plain, err := sqlhOpenMemDB(sqlhPlainDriver)
	if err != nil {
		c.Discard("oracle-db: " + err.Error())
		return
	}
	defer plain.Close()
	fixed, err := sqlhOpenMemDB(sqlhFixedDriver)
	if err != nil {
		c.Discard("oracle-db: " + err.Error())
		return
	}
	defer fixed.Close()
	g := sqlgen.New(core.NewRand(1), sqlgen.Opts{})
	for _, db := range []*sql.DB{plain, fixed} {
		for _, st := range append(g.Schema(), g.SeedRows()...) {
			if _, err := db.Exec(st.SQL); err != nil {
				c.Discard("oracle-db setup: " + err.Error())
				return
			}
		}
		// tables the DDL stratum may refer to
		for i := 1; i <= 3; i++ {
			if _, err := db.Exec(fmt.Sprintf("CREATE TABLE x%d (id INTEGER PRIMARY KEY, f0 INTEGER, f1 TEXT, f2 REAL, f3 BLOB, f4 TEXT)", i)); err != nil {
				c.Discard("oracle-db setup: " + err.Error())
				return
			}
		}
	}

	epoch := time.Date(2000, 1, 1, 0, 0, 0, 0, time.UTC)
	if d := time.Until(epoch.Add(time.Duration(sc.T0Ms) * time.Millisecond)); d > 0 {
		time.Sleep(d)
	}
	var findings []c14Finding
	add := func(rank int, class, format string, a ...any) {
		findings = append(findings, c14Finding{rank, class, fmt.Sprintf(format, a...)})
	}
	maxDevMs := int64(0)
	wideSweeps := 0
	for i := range sc.Stmts {
		st := &sc.Stmts[i]
		if st.SQL == "" {
			continue
		}
		time.Sleep(time.Duration(sc.GapMs) * time.Millisecond)
		t0 := time.Now()
		ps := []*proto.Statement{{Sql: st.SQL}}
		if st.Expect != "" {
			// statements whose several random calls must be independent are rewritten
			// with the normal seeded draws, not with the constant ones
			seeded.Unfix()
		}
		perr := rsql.Process(ps, true, true)
		seeded.Fix(sqlhFixedDraw)
		if err := perr; err != nil {
			msg := err.Error()
			if len(msg) > 80 {
				msg = msg[:80]
			}
			add(0, "process-error: "+msg, "stmt %d feat=%v: Process failed: %v sql=%q", i, st.Feat, err, st.SQL)
			continue
		}
		rw := ps[0].Sql
		c.Res.Cases++
		c.Probe("stmts")
		desc := func() string {
			return fmt.Sprintf("stmt=%d feat=%v nd=%d calls=%d tz_min=%d t0=%s\n  original : %s\n  rewritten: %s", i, st.Feat, st.ND, st.Calls, sc.TZMin,
				t0.UTC().Format("2006-01-02T15:04:05.000Z"), st.SQL, rw)
		}
		c.Log.Add("stmt %d nd=%d changed=%v", i, st.ND, rw != st.SQL)
		if st.ND == 0 {
			c.Probe("stmts_without_nd")
			if rw != st.SQL {
				if st.Calls == 0 {
					add(3, "text-changed", "statement without any call of the rewritten functions was altered: %s", desc())
				} else {
					add(4, "det-call-reserialized", "statement whose time-function calls are all deterministic was altered: %s", desc())
				}
			}
		} else {
			c.Probe("stmts_with_nd")
			for _, f := range st.Feat {
				c.Probe("feat_" + f)
			}
			if rw == st.SQL {
				cl, rk, res := c14NDClass(rw, st.HasFeat("order-by-random"))
				add(rk, cl, "residual=%s statement with %d non-deterministic call(s) was not changed at all: %s", res, st.ND, desc())
				continue
			}
			c.Probe("rewritten")
		}
		if st.Kind == "ddl" && st.ND == 0 {
			// schema changes persist (in both scratch databases) so that later
			// statements of the run refer to existing tables and columns
			if rw != st.SQL {
				continue // already reported above
			}
			_, ea := plain.Exec(rw)
			_, eb := fixed.Exec(st.SQL)
			if (ea == nil) != (eb == nil) {
				c.Discard("oracle-db: DDL outcome differs between the two scratch databases")
				return
			}
			continue
		}
		// the rewritten text must evaluate identically whenever it is applied
		t1, t2 := t0.Add(time.Duration(sc.Jump1Ms)*time.Millisecond), t0.Add(time.Duration(sc.Jump2Ms)*time.Millisecond)
		e1, err := c14EvalAt(plain, st, rw, t1)
		if err != nil {
			c.Discard("oracle-db eval: " + err.Error())
			return
		}
		e2, err := c14EvalAt(plain, st, rw, t2)
		if err != nil {
			c.Discard("oracle-db eval: " + err.Error())
			return
		}
		if e1.err {
			c.Probe("stmt_errors")
		}
		if st.HasFeat("order-by-random") {
			// result order is random by definition; compare as multisets
			st.Ordered = false
			e1, _ = c14EvalAt(plain, st, rw, t1)
			e2, _ = c14EvalAt(plain, st, rw, t2)
		}
		if e1.String() != e2.String() {
			cl, rk, res := c14NDClass(rw, st.HasFeat("order-by-random"))
			add(rk, cl, "residual=%s rewritten statement evaluates differently at %s and %s (%s): %s", res,
				t1.UTC().Format(time.RFC3339Nano), t2.UTC().Format(time.RFC3339Nano), c14FirstLineDiff(e1.String(), e2.String()), desc())
			continue
		}
		if res := c14ResidualND(rw, st.HasFeat("order-by-random")); len(res) > 0 && st.ND > 0 {
			// evaluation happened to agree (value not observable), but a call is still there
			cl, rk, rs := c14NDClass(rw, st.HasFeat("order-by-random"))
			add(rk, cl, "residual=%s non-deterministic call left in the rewritten text: %s", rs, desc())
			continue
		}
		// UPDATE/DELETE ... RETURNING: the clause itself must survive
		retDropped := false
		if st.HasFeat("returning") && rw != st.SQL && !strings.Contains(strings.ToLower(sqlhStripSQL(rw)), "returning") {
			retDropped = true
			add(6, "returning-dropped", "the RETURNING clause of the statement is missing from the rewritten text: %s", desc())
		}
		if st.Expect != "" {
			// independence of the substituted values: what holds for the original
			// because its random calls are independent draws must hold for the rewritten text
			c.Probe("multi_random_stmts")
			orig, err := c14EvalAt(plain, st, st.SQL, t0)
			if err != nil {
				c.Discard("oracle-db eval: " + err.Error())
				return
			}
			if why := c14ExpectFails(st.Expect, orig); why != "" {
				c.Probe("multi_random_expectation_not_met_by_original")
				continue
			}
			if why := c14ExpectFails(st.Expect, e1); why != "" {
				add(2, "meaning-changed", "the values substituted for the %d random()/randomblob() calls of one statement are not independent of each other (%s; the un-rewritten statement gives %q): %s",
					st.ND, why, strings.ReplaceAll(orig.rows, "\n", " / "), desc())
			}
			continue
		}
		// faithfulness: equals the original evaluated at T0 (within the literal's precision)
		eo, err := c14EvalAt(fixed, st, st.SQL, t0)
		if err != nil {
			c.Discard("oracle-db eval: " + err.Error())
			return
		}
		same := func(a, b c14Eval) bool {
			if retDropped && !a.err && !b.err {
				return a.state == b.state // result rows necessarily differ; already reported
			}
			return a.String() == b.String()
		}
		if same(eo, e1) {
			continue
		}
		matched := false
		if st.HasFeat("time-now") && !eo.err && !e1.err {
			lims := []int64{60, 999}
			if wideSweeps >= 2 {
				lims = lims[:1] // a statement already failed the wide search in this run: later ones get the narrow search only
			}
			step := int64(10)
			if lo := strings.ToLower(st.SQL); st.HasFeat("time-subsec") || strings.Contains(lo, "julianday") || strings.Contains(lo, "%f") || strings.Contains(lo, "%j") {
				step = 1 // millisecond-valued results: every instant is distinguishable
			}
			for _, lim := range lims {
				for d := int64(1); d <= lim && !matched; d++ {
					if lim > 60 && (d <= 60 || d%step != 0) {
						continue
					}
					for _, sgn := range []int64{-1, 1} {
						ex, _ := c14EvalAt(fixed, st, st.SQL, t0.Add(time.Duration(sgn*d)*time.Millisecond))
						if same(ex, e1) {
							matched = true
							if d > maxDevMs {
								maxDevMs = d
							}
							if lim > 60 {
								c.Probe("time_literal_off_by_more_than_60ms")
							} else {
								c.Probe("time_literal_rounded")
							}
							break
						}
					}
				}
				if matched {
					break
				}
			}
		}
		if !matched && st.HasFeat("time-now") {
			wideSweeps++
		}
		if !matched && st.HasFeat("time-exotic-mod") {
			add(6, "meaning-changed-exotic-modifier", "a statement using the 'auto'/'unixepoch'/'julianday' modifier after 'now' changed meaning (%s): %s",
				c14FirstLineDiff(eo.String(), e1.String()), desc())
		} else if !matched {
			add(2, "meaning-changed", "rewritten statement is not the original with its non-deterministic calls replaced by values of time T0 (%s): %s",
				c14FirstLineDiff(eo.String(), e1.String()), desc())
		}
	}
	c.Log.Add("max deviation %d ms", maxDevMs)
	if maxDevMs > 0 {
		c.Sig(fmt.Sprintf("dev%d", maxDevMs/10))
		for _, b := range []int64{10, 20, 30, 44, 60, 999} {
			if maxDevMs <= b {
				c.Probe(fmt.Sprintf("runs_with_max_time_literal_deviation_le_%dms", b))
				break
			}
		}
	}
	c.Res.Trivial = c.Res.Probes["rewritten"] == 0
	if len(findings) > 0 {
		sort.SliceStable(findings, func(i, j int) bool { return findings[i].rank < findings[j].rank })
		for _, f := range findings {
			c.Log.Add("finding %s: %s", f.class, f.detail)
		}
		c.Violate(findings[0].class, "%s", findings[0].detail)
	}
}

func c14FirstLineDiff(a, b string) string {
	la, lb := strings.Split(a, "\n"), strings.Split(b, "\n")
	for i := 0; i < len(la) || i < len(lb); i++ {
		var x, y string
		if i < len(la) {
			x = la[i]
		}
		if i < len(lb) {
			y = lb[i]
		}
		if x != y {
			if len(x) > 160 {
				x = x[:160]
			}
			if len(y) > 160 {
				y = y[:160]
			}
			return fmt.Sprintf("%q vs %q", x, y)
		}
	}
	return "equal"
}

func init() {
	core.Register(&core.Prop{ID: "C14", Bubble: true, Gen: c14Gen, Run: c14Run})
}
