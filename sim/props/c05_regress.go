package props

import (
	"encoding/json"

	"verifsim/walsim"
)

// Fixed histories that are run in addition to the seeded ones (mode enum+gen):
// the minimised histories of the two defects this check found in the fast
// scanner (fixed on the rqlite branch by the two "fix:" commits), and the
// default-page-cache variant of the first one.
var c05Regress = []string{
	// rolled-back spilled transaction, then a shorter committed one: same-salt
	// left-over frames after the last commit (tiny page cache)
	`{"seed": 12919822974902606334, "page_size": 4096, "cache": 4, "busy_ms": 1, "ops": [{"k": "w", "t": "ins", "n": 6, "sz": 43, "s": 17574875318988916332}, {"k": "w", "t": "ins", "n": 6, "sz": 9307, "s": 14877699990441351639, "rb": true}, {"k": "w", "t": "ins", "n": 9, "sz": 22, "s": 13455631569020814762}, {"k": "ck"}]}`,
	// the same with SQLite's default page cache: a 4 MB transaction that fails
	`{"seed": 1, "page_size": 4096, "busy_ms": 1, "ops": [{"k": "w", "t": "ins", "n": 6, "sz": 100, "s": 1}, {"k": "ck"}, {"k": "w", "t": "ins", "n": 40, "sz": 100000, "s": 2, "rb": true}, {"k": "w", "t": "ins", "n": 2, "sz": 50, "s": 3}, {"k": "ck"}]}`,
	// WAL cut inside the page of its last frame (torn append)
	`{"seed": 17834648849319573882, "page_size": 512, "busy_ms": 1, "ops": [{"k": "w", "t": "ins", "n": 12, "sz": 13, "s": 18230993410584420682}, {"k": "obs", "s": 13444556169358322219, "f": [{"k": "trunc", "frac": 0.9881237671437784, "n": 2, "s": 441032539381730161}]}]}`,
}

func c05Enumerate(tier string) []any {
	var out []any
	for _, s := range c05Regress {
		var sc walsim.Scenario
		if err := json.Unmarshal([]byte(s), &sc); err != nil {
			panic(err)
		}
		out = append(out, &sc)
	}
	return out
}
