package props

import (
	"bytes"
	"encoding/json"
	"fmt"
	"io"
	"os"
	"path/filepath"
	"sort"
	"strconv"
	"strings"
	"testing/synctest"
	"time"

	"github.com/hashicorp/raft"
	"github.com/rqlite/rqlite/v10/snapshot"
	"verifsim/core"
	"verifsim/node"
	"verifsim/sim"
	"verifsim/xfer"
)

// C12: corruption of a snapshot data file or of its checksum sidecar is
// detected before the data is used (node start with restore, open for restore,
// open for transfer to another node, reap); corruption arising after the
// store's first verification is still detected before the data is restored or
// installed anywhere. Altered data is never restored, installed or served.

type c12Op struct {
	File  int    `json:"f"`              // file slot: data files and sidecars of all snapshot directories in canonical order
	Kind  string `json:"k"`              // flip | trunc
	Page  int    `json:"pg"`             // >=0: position = Page*4096+Off (not applicable beyond the file); -1: position = Off mod size
	Off   int    `json:"off"`            //
	Mask  int    `json:"mask,omitempty"` // flip xor mask
	More  int    `json:"more,omitempty"` // additional random flips in the same file (seeded by Off)
	Phase string `json:"ph"`             // a: before the store is opened | b: after its first verification
	Cons  string `json:"c"`              // start | restore | transfer | reap | autoreap (background reaper of a snapshot.Store, triggered by a persisted incremental) | autoreap-node (same through a real node restarted on the clean-snapshot fast path)
	Zstd  bool   `json:"zstd,omitempty"` // transfer with compression
	Old   bool   `json:"old,omitempty"`  // restore/transfer: consume the oldest snapshot instead of the newest
}

type c12Scenario struct {
	Seed      uint64   `json:"seed"`
	Build     []string `json:"build"`
	BuildSeed uint64   `json:"build_seed"`
	ReapAt    int      `json:"reap_threshold"`
	Store     string   `json:"store"` // src: store written by a real node (full + incrementals) | inst: store that received an install (database + WALs in one directory)
	Ops       []c12Op  `json:"ops"`
}

type c12File struct {
	Rel     string // path relative to the store directory
	Dir     string // snapshot id
	Sidecar bool
	Size    int64
}

// c12Dirs returns the snapshot directories oldest first (term, index, name).
func c12Dirs(store string) []string {
	es, _ := os.ReadDir(store)
	type d struct {
		name       string
		term, indx uint64
	}
	var ds []d
	for _, e := range es {
		if !e.IsDir() || strings.HasSuffix(e.Name(), ".tmp") {
			continue
		}
		p := strings.Split(e.Name(), "-")
		x := d{name: e.Name()}
		if len(p) >= 2 {
			x.term, _ = strconv.ParseUint(p[0], 10, 64)
			x.indx, _ = strconv.ParseUint(p[1], 10, 64)
		}
		ds = append(ds, x)
	}
	sort.Slice(ds, func(i, j int) bool {
		if ds[i].term != ds[j].term {
			return ds[i].term < ds[j].term
		}
		if ds[i].indx != ds[j].indx {
			return ds[i].indx < ds[j].indx
		}
		return ds[i].name < ds[j].name
	})
	var out []string
	for _, x := range ds {
		out = append(out, x.name)
	}
	return out
}

func c12Inventory(store string) []c12File {
	var out []c12File
	for _, d := range c12Dirs(store) {
		es, _ := os.ReadDir(filepath.Join(store, d))
		var names []string
		for _, e := range es {
			n := e.Name()
			if n == "data.db" || strings.HasSuffix(n, ".wal") || strings.HasSuffix(n, ".crc32") {
				names = append(names, n)
			}
		}
		sort.Strings(names)
		for _, n := range names {
			fi, err := os.Stat(filepath.Join(store, d, n))
			if err != nil {
				continue
			}
			out = append(out, c12File{Rel: filepath.Join(d, n), Dir: d, Sidecar: strings.HasSuffix(n, ".crc32"), Size: fi.Size()})
		}
	}
	return out
}

func c12IsFull(store, dir string) bool {
	_, err := os.Stat(filepath.Join(store, dir, "data.db"))
	return err == nil
}

// c12Needed returns the snapshot directories whose files are read when the
// snapshot in directory target is resolved (nearest full at or before it, and
// every directory after that up to target).
func c12Needed(store string, dirs []string, target string) map[string]bool {
	need := map[string]bool{}
	ti := -1
	for i, d := range dirs {
		if d == target {
			ti = i
		}
	}
	if ti < 0 {
		return need
	}
	fi := ti
	for fi > 0 && !c12IsFull(store, dirs[fi]) {
		fi--
	}
	for i := fi; i <= ti; i++ {
		need[dirs[i]] = true
	}
	return need
}

// c12ReapInputs: the newest full and everything newer (what a reap consolidates).
func c12ReapInputs(store string, dirs []string) map[string]bool {
	need := map[string]bool{}
	fi := -1
	for i, d := range dirs {
		if c12IsFull(store, d) {
			fi = i
		}
	}
	if fi < 0 {
		return need
	}
	for i := fi; i < len(dirs); i++ {
		need[dirs[i]] = true
	}
	return need
}

type c12Sidecar struct {
	CRC      string `json:"crc"`
	Type     string `json:"type"`
	Disabled bool   `json:"disabled"`
}

// c12SidecarMeaning decodes a sidecar the way a tolerant reader would; two
// sidecars with the same meaning record the same checksum.
func c12SidecarMeaning(b []byte) (string, bool) {
	var s c12Sidecar
	if err := json.Unmarshal(b, &s); err != nil {
		return "", false
	}
	v, err := strconv.ParseUint(s.CRC, 16, 32)
	if err != nil || len(s.CRC) != 8 {
		return "", false
	}
	return fmt.Sprintf("%08x/%s/%v", v, s.Type, s.Disabled), true
}

// c12Plan computes the mutated content of a file. applied=false when the
// position lies beyond the file (enumerations are generated without knowing
// file sizes) or nothing would change.
func c12Plan(b []byte, op *c12Op) (applied bool, desc string, after []byte) {
	if len(b) == 0 {
		return false, "", nil
	}
	a := append([]byte(nil), b...)
	switch op.Kind {
	case "flip":
		pos := op.Off % len(a)
		if op.Page >= 0 {
			pos = op.Page*4096 + op.Off
			if pos >= len(a) {
				return false, "", nil
			}
		}
		m := byte(op.Mask)
		if m == 0 {
			m = 1
		}
		a[pos] ^= m
		desc = fmt.Sprintf("flip@%d/%d mask=%#x", pos, len(a), m)
		if op.More > 0 {
			r := core.NewRand(uint64(op.Off)*977 + uint64(op.More))
			for i := 0; i < op.More; i++ {
				p := r.Intn(len(a))
				a[p] ^= byte(1 + r.Intn(255))
			}
			desc += fmt.Sprintf(" +%d random flips", op.More)
		}
	case "trunc":
		nl := op.Off % len(a)
		if op.Page >= 0 {
			nl = op.Page*4096 + op.Off
			if nl >= len(a) {
				return false, "", nil
			}
		}
		a = a[:nl]
		desc = fmt.Sprintf("truncate %d->%d", len(b), nl)
	default:
		return false, "", nil
	}
	if bytes.Equal(a, b) {
		return false, "", nil
	}
	return true, desc, a
}

// c12Write replaces a file's content keeping its mtime (bit rot does not touch it).
func c12Write(path string, b []byte) error {
	fi, err := os.Stat(path)
	if err != nil {
		return err
	}
	if err := os.WriteFile(path, b, fi.Mode().Perm()); err != nil {
		return err
	}
	return os.Chtimes(path, fi.ModTime(), fi.ModTime())
}

// ---------------------------------------------------------------- generation

func c12DataMutations(quick bool, r *core.Rand) []c12Op {
	var ops []c12Op
	pages := 8
	for pg := 0; pg < pages; pg++ {
		for _, off := range []int{0, 1, 2047, 4095} {
			ops = append(ops, c12Op{Kind: "flip", Page: pg, Off: off, Mask: 1 << uint(r.Intn(8))})
		}
		ops = append(ops, c12Op{Kind: "trunc", Page: pg, Off: 0})
	}
	nr := 32
	if quick {
		nr = 12
	}
	for i := 0; i < nr; i++ {
		ops = append(ops, c12Op{Kind: "flip", Page: -1, Off: r.Intn(1 << 30), Mask: 1 + r.Intn(255)})
	}
	for i := 0; i < 4; i++ {
		ops = append(ops, c12Op{Kind: "trunc", Page: -1, Off: r.Intn(1 << 30)})
	}
	// WAL framing: header, first frame header, first frame's page
	for _, off := range []int{3, 8, 16, 24, 31, 32, 40, 48, 55, 56} {
		ops = append(ops, c12Op{Kind: "flip", Page: 0, Off: off, Mask: 1 << uint(r.Intn(8))})
	}
	return ops
}

func c12SidecarMutations(quick bool) []c12Op {
	var ops []c12Op
	masks := []int{1, 2, 4, 8, 16, 32, 64, 128}
	if quick {
		masks = []int{1, 32}
	}
	for pos := 0; pos < 48; pos++ {
		for _, m := range masks {
			ops = append(ops, c12Op{Kind: "flip", Page: 0, Off: pos, Mask: m})
		}
	}
	step := 1
	if quick {
		step = 5
	}
	for l := 0; l < 48; l += step {
		ops = append(ops, c12Op{Kind: "trunc", Page: 0, Off: l})
	}
	return ops
}

var c12Build = []string{"w3", "snap", "w2", "snap", "big", "w2", "snap", "w1"}

type c12Combo struct {
	store, cons, phase string
	per                int
	quickStride        int // quick tier: take every n-th mutation only (expensive consumers)
}

var c12Combos = []c12Combo{
	{"src", "start", "a", 30, 1}, {"src", "restore", "a", 120, 1}, {"src", "transfer", "a", 120, 1}, {"src", "reap", "a", 120, 1},
	{"src", "restore", "b", 120, 1}, {"src", "transfer", "b", 120, 1}, {"src", "reap", "b", 120, 1},
	{"inst", "restore", "a", 120, 1}, {"inst", "transfer", "a", 120, 1}, {"inst", "restore", "b", 120, 1}, {"inst", "transfer", "b", 120, 1},
	// the background reaper as FIRST consumer of data that was corrupt when the
	// store was opened (lazy verification: nothing verified the files before)
	{"src", "autoreap", "a", 120, 1}, {"src", "autoreap-node", "a", 30, 4},
}

// c12Enumerate: for one generated store (quick) every file x every mutation of
// the fixed mutation list x every consumer x both phases.
func c12Enumerate(tier string) []any {
	quick := tier != "thorough"
	var out []any
	seedN := uint64(0)
	builds := [][]string{c12Build}
	if !quick {
		builds = append(builds, []string{"w4", "snap", "w1", "snap", "reap", "w2", "snap", "big", "snap"}, []string{"big", "w2", "snap", "w1", "snap", "w1", "snap", "w1", "snap"})
	}
	for bi, build := range builds {
		for _, cb := range c12Combos {
			r := core.NewRand(uint64(1200 + bi))
			data := c12DataMutations(quick, r)
			side := c12SidecarMutations(quick)
			var ops []c12Op
			slots := 6 // the quick store has 3 snapshot directories: 3 data files + 3 sidecars
			if !quick {
				slots = 10
			}
			for slot := 0; slot < slots; slot++ {
				// even slots are data files, odd slots their sidecars (canonical order: x, x.crc32)
				muts := data
				if slot%2 == 1 {
					muts = side
				}
				for mi, m := range muts {
					if quick && cb.quickStride > 1 && (mi+slot)%cb.quickStride != 0 {
						continue
					}
					m.File, m.Phase, m.Cons = slot, cb.phase, cb.cons
					m.Zstd = cb.cons == "transfer" && (len(ops)%3 == 0)
					ops = append(ops, m)
				}
			}
			for i := 0; i < len(ops); i += cb.per {
				j := i + cb.per
				if j > len(ops) {
					j = len(ops)
				}
				seedN++
				out = append(out, &c12Scenario{Seed: 5000 + seedN, Build: build, BuildSeed: uint64(12 + bi), ReapAt: 100, Store: cb.store, Ops: ops[i:j]})
			}
		}
	}
	return out
}

func c12Gen(r *core.Rand, tier string) any {
	sc := &c12Scenario{Seed: r.Uint64(), BuildSeed: r.Uint64(), Build: append(c10Builds(r), fmt.Sprintf("w%d", r.Intn(3))), ReapAt: 100, Store: "src"}
	if r.Bool(0.3) {
		sc.Store = "inst"
	}
	n := 40
	for i := 0; i < n; i++ {
		op := c12Op{File: r.Intn(64), Kind: "flip", Page: -1, Off: r.Intn(1 << 30), Mask: 1 + r.Intn(255), Phase: "a", Old: r.Bool(0.2)}
		if r.Bool(0.5) {
			op.Phase = "b"
		}
		switch x := r.Intn(100); {
		case x < 25:
			op.Kind = "trunc"
		case x < 45:
			op.Page = r.Intn(6)
			op.Off = []int{0, 1, 100, 4095}[r.Intn(4)]
		case x < 60:
			op.More = r.Range(1, 4)
		}
		cons := []string{"restore", "transfer", "reap", "start", "autoreap", "autoreap-node"}
		op.Cons = cons[r.Intn(len(cons))]
		if (op.Cons == "start" || op.Cons == "autoreap-node") && (op.Phase == "b" || sc.Store == "inst" || r.Bool(0.6)) {
			op.Cons = "restore"
		}
		if op.Cons == "autoreap" && (op.Phase == "b" || sc.Store == "inst") {
			op.Cons = "reap"
		}
		if op.Cons == "reap" && sc.Store == "inst" {
			op.Cons = "transfer"
		}
		op.Zstd = op.Cons == "transfer" && r.Bool(0.3)
		sc.Ops = append(sc.Ops, op)
	}
	return sc
}

// ---------------------------------------------------------------- run

type c12Env struct {
	c       *core.Ctx
	s       *sim.Sim
	src     *xfer.Source
	eng     *xfer.Engine
	img     string                    // pristine image of the store under test
	refs    map[string]*xfer.SnapInfo // by snapshot directory name
	def     c10Deferred
	tmp     string
	work    string
	nodeUse bool

	// autoreap consumers: the store as it was before its newest (incremental)
	// snapshot, and that snapshot's WAL files as a staging directory
	imgPrev   string
	stageImg  string
	newestID  string
	extraRows int
}

func c12Run(c *core.Ctx, raw json.RawMessage) {
	var sc c12Scenario
	if err := json.Unmarshal(raw, &sc); err != nil {
		panic(err)
	}
	c.Rng = core.NewRand(sc.Seed)
	installFatalRecorder(c)
	defer uninstallFatalRecorder()
	s := sim.New(c)
	defer s.Shutdown()

	src, err := xfer.Build(s, sc.Build, sc.BuildSeed, node.Knobs{SnapshotReapThreshold: sc.ReapAt, SnapshotThreshold: 1 << 30, SnapshotInterval: time.Hour})
	if err != nil {
		if !c.Failed() {
			c.Discard("build-failed: " + err.Error())
		}
		return
	}
	if len(src.Snaps) == 0 {
		c.Discard("build-produced-no-snapshot")
		return
	}
	eng, err := xfer.NewEngine(c, s.Net)
	if err != nil {
		c.Discard("engine: " + err.Error())
		return
	}
	defer eng.Close()
	e := &c12Env{c: c, s: s, src: src, eng: eng, refs: map[string]*xfer.SnapInfo{}, tmp: filepath.Join(c.Dir, "restored.db"), work: filepath.Join(c.Dir, "W")}
	e.img = src.SnapDir
	for _, si := range src.Snaps {
		e.refs[si.ID] = si
	}
	if sc.Store == "inst" {
		// a store that received the newest snapshot through an un-faulted transfer
		newest := src.Snaps[len(src.Snaps)-1]
		a, err := xfer.OpenCopy(src.SnapDir, filepath.Join(c.Dir, "A"))
		if err != nil {
			violate(c, "source-open-failed", "%v", err)
			return
		}
		d, err := xfer.OpenCopy(filepath.Join(c.Dir, "none"), filepath.Join(c.Dir, "I"))
		if err != nil {
			a.Close()
			c.Discard("dest: " + err.Error())
			return
		}
		o := eng.Run(&xfer.Spec{Src: a, ID: newest.ID, Dest: d, Split: xfer.SplitPlan{Mode: "whole"}, RestoreTo: e.tmp})
		a.Close()
		d.Close()
		if !c10CheckUnfaulted(c, "prepare installed store", newest, o, e.tmp) {
			return
		}
		ii := *newest
		ii.ID = o.NewID
		e.refs = map[string]*xfer.SnapInfo{o.NewID: &ii}
		e.img = filepath.Join(c.Dir, "I.img")
		node.CopyTree(filepath.Join(c.Dir, "I"), e.img)
	}
	e.prepareAutoReap()

	for opi := range sc.Ops {
		if c.Failed() {
			break
		}
		op := &sc.Ops[opi]
		time.Sleep(2 * time.Millisecond)
		e.one(opi, op, sc.Store)
	}
	if !c.Failed() && e.def.class != "" {
		violate(c, e.def.class, "%s", e.def.detail)
	}
	c.Res.Trivial = c.Res.Cases == 0
}

func (e *c12Env) one(opi int, op *c12Op, storeKind string) {
	c := e.c
	nodeCons := op.Cons == "start" || op.Cons == "autoreap-node"
	if (nodeCons || op.Cons == "autoreap") && (storeKind != "src" || op.Phase != "a") {
		c.Probe("op_not_applicable")
		return
	}
	if op.Cons == "autoreap" && e.imgPrev == "" {
		c.Probe("op_not_applicable") // newest snapshot is not an incremental on top of older ones
		return
	}
	// everything that decides applicability is computed on the pristine image
	n := e.src.Node
	pristine := e.img
	if nodeCons {
		pristine = filepath.Join(e.src.NodeDir, "wsnapshots")
	}
	if op.Cons == "autoreap" {
		pristine = e.imgPrev
	}
	files := c12Inventory(pristine)
	dirs := c12Dirs(pristine)
	if len(files) == 0 || len(dirs) == 0 {
		c.Discard("empty store")
		return
	}
	if op.File >= len(files) && op.File < 32 {
		// enumerated slot beyond this store's files
		c.Probe("op_not_applicable")
		return
	}
	f := files[op.File%len(files)]
	orig, err0 := os.ReadFile(filepath.Join(pristine, f.Rel))
	if err0 != nil {
		c.Discard("read: " + err0.Error())
		return
	}
	applied, desc, mutated := c12Plan(orig, op)
	if !applied {
		c.Probe("op_not_applicable")
		return
	}
	benign := false
	if f.Sidecar {
		m1, ok1 := c12SidecarMeaning(orig)
		m2, ok2 := c12SidecarMeaning(mutated)
		benign = ok1 && ok2 && m1 == m2
	}
	// working copy
	storeDir := e.work
	os.RemoveAll(e.work)
	if nodeCons {
		os.RemoveAll(n.Dir)
		if err := node.CopyTree(e.src.NodeDir, n.Dir); err != nil {
			c.Discard("copy: " + err.Error())
			return
		}
		storeDir = filepath.Join(n.Dir, "wsnapshots")
	} else if err := node.CopyTree(pristine, e.work); err != nil {
		c.Discard("copy: " + err.Error())
		return
	}
	target := dirs[len(dirs)-1]
	if op.Old && (op.Cons == "restore" || op.Cons == "transfer") {
		target = dirs[0]
	}
	ref := e.refs[target]
	if op.Cons == "autoreap" {
		// after the incremental has been persisted the store's newest content is
		// that of the original store's newest snapshot
		ref = e.refs[e.newestID]
	}
	if ref == nil {
		c.Discard("no reference for " + target)
		return
	}
	isReap := op.Cons == "reap" || op.Cons == "autoreap" || op.Cons == "autoreap-node"
	var relevant bool
	if isReap {
		relevant = c12ReapInputs(storeDir, dirs)[f.Dir]
	} else {
		relevant = c12Needed(storeDir, dirs, target)[f.Dir]
	}

	var st *snapshot.Store
	var err error
	open := func() bool {
		st, err = snapshot.NewStore(storeDir)
		if err != nil {
			// structural repair failed: the store refuses to open - that is a detection
			c.Probe("detected_at_newstore")
			return false
		}
		return true
	}
	mutate := func() bool {
		return c12Write(filepath.Join(storeDir, f.Rel), mutated) == nil
	}
	takeFatals()
	switch op.Phase {
	case "a":
		if !mutate() {
			c.Discard("cannot write mutated file")
			return
		}
		if !nodeCons && !open() {
			c.Res.Cases++
			c.Fault(op.Kind)
			return
		}
	default:
		if !open() {
			violate(c, "pristine-store-open-failed", "op %d: NewStore on a pristine copy failed: %v", opi, err)
			return
		}
		// first verification on the pristine files
		if opi%2 == 0 {
			err = st.EnsureVerify()
		} else {
			var rc io.ReadCloser
			_, rc, err = st.Open(target)
			if err == nil {
				_, err = io.Copy(io.Discard, rc)
				rc.Close()
			}
		}
		if err != nil {
			st.Close()
			violate(c, "pristine-verify-failed", "op %d: first verification of a pristine store failed: %v", opi, err)
			return
		}
		if !mutate() {
			st.Close()
			c.Discard("cannot write mutated file")
			return
		}
	}
	if st != nil {
		defer st.Close()
	}
	c.Res.Cases++
	c.Fault(op.Kind)
	kind := "data"
	if f.Sidecar {
		kind = "sidecar"
	}
	tag := fmt.Sprintf("op %d store=%s file=%s(%s,%dB) %s phase=%s consumer=%s target=%s relevant=%v benign=%v", opi, storeKind, f.Rel, kind, f.Size, desc, op.Phase, op.Cons, target, relevant, benign)
	c.Probe("cases_" + op.Cons + "_" + op.Phase)
	c.Probe("file_" + kind)

	// ---- consume
	var out []byte       // database produced (nil = consumer failed = corruption detected or operation refused)
	var failure string   // where it failed
	reapOK := false      // reap itself returned nil
	var startDump string // logical dump the consumer produced (node consumers)
	var wantDump string  // ... and what it has to be
	switch op.Cons {
	case "restore":
		out, failure = e.restore(st, target)
	case "transfer":
		out, failure = e.transfer(st, target, op.Zstd, tag)
		if c.Failed() {
			return
		}
	case "reap":
		_, _, rerr := st.Reap()
		reapOK = rerr == nil
		if rerr != nil {
			failure = "reap: " + rerr.Error()
		}
		// whatever the reap did, what does the store now hand out as its newest snapshot?
		ids, _, lerr := xfer.IDs(st)
		if lerr != nil || len(ids) == 0 {
			if failure == "" {
				failure = fmt.Sprintf("list after reap: %v", lerr)
			}
		} else {
			var f2 string
			out, f2 = e.restore(st, ids[len(ids)-1])
			if failure == "" {
				failure = f2
			} else if out != nil {
				failure += " (store still serves its newest snapshot)"
			}
		}
	case "autoreap":
		out, failure, reapOK = e.autoReap(st, storeDir, len(dirs))
	case "autoreap-node":
		out, failure, reapOK, startDump, wantDump = e.autoReapNode(n, storeDir, len(dirs))
		if c.Res.Verdict == core.Discarded {
			return
		}
	case "start":
		n.Extra = func(n *node.Node) error { return n.Store.ForceSnapshotRestore() }
		wantDump = e.src.FinalDump
		serr := e.s.Restart(1)
		if serr != nil {
			if !strings.Contains(serr.Error(), "open n1") {
				c.Discard("restart: " + serr.Error())
				return
			}
			failure = serr.Error()
			n.Store.AbortOpenVerif()
			n.Net.HostDown(n.HostName)
		} else {
			e.s.RunUntil(func() bool { return n.Store.IsLeader() }, 60*time.Second)
			e.s.RunFor(300 * time.Millisecond)
			d, derr := e.s.DumpNode(n)
			if derr != nil {
				d = "dump failed: " + derr.Error()
			}
			startDump = d
			out = []byte(d)
			var stopErr error
			e.s.Do("stop-n1", 120*time.Second, func() { stopErr = n.Stop() })
			_ = stopErr
		}
	}
	fatals := takeFatals()
	failure = strings.ReplaceAll(failure, c.Dir, "$DIR") // scratch paths differ between processes
	c.Log.Add("%s -> produced=%v reap_ok=%v failure=%q fatal_exits=%d", tag, out != nil, reapOK, trunc(failure, 160), len(fatals))

	// ---- judge
	if out != nil {
		same := bytes.Equal(out, ref.Ref)
		if nodeCons {
			same = startDump == wantDump
		}
		if !same {
			diff := ""
			if nodeCons {
				diff = sim.FirstDiff(wantDump, startDump)
			} else {
				os.WriteFile(e.tmp, out, 0o644)
				diff = c10DumpDiff(c, ref, e.tmp)
			}
			if op.Cons == "reap" && op.Phase == "b" {
				cls := "altered-data-restored-after-reap"
				if strings.HasPrefix(diff, "same logical content") {
					cls = "altered-bytes-restored-after-reap"
				}
				e.def.set(c, cls, "%s: corruption arose after the store's first verification, a reap consolidated the corrupted file (reap error: %q) and recomputed the checksum; the store's newest snapshot now restores WITHOUT error to a database that differs from the original: %s", tag, failure, diff)
				return
			}
			violate(c, "altered-data-used", "%s: the consumer succeeded and produced a database that differs from the original: %s", tag, diff)
			return
		}
		if relevant && isReap && op.Phase == "a" && reapOK && !benign {
			violate(c, "corruption-undetected", "%s: the reap (%s) consolidated a file that was corrupt before the store was opened, without any verification", tag, op.Cons)
			return
		}
		if relevant && !(op.Cons == "reap" && op.Phase == "b") {
			if benign {
				e.def.set(c, "sidecar-corruption-accepted", "%s: corrupted checksum record still decodes to the same checksum and was accepted (data unaltered)", tag)
				return
			}
			if isReap && !reapOK {
				c.Probe("detected_by_reap")
				return
			}
			violate(c, "corruption-undetected", "%s: the consumer used the corrupted file without noticing (output happens to equal the original)", tag)
			return
		}
		if relevant {
			c.Probe("corruption_overwritten_by_reap")
		} else {
			c.Probe("irrelevant_file_consumer_ok")
		}
		return
	}
	// consumer failed: the corruption was detected (or the operation refused) before any data came out
	c.Probe("detected")
	if len(fatals) > 0 {
		c.Probe("detected_by_integrity_exit")
	}
	if strings.Contains(failure, "CRC32 mismatch") || strings.Contains(failure, "CRC32") {
		c.Probe("detected_by_checksum")
	}
	if op.Phase == "b" && relevant && (op.Cons == "restore" || op.Cons == "transfer") {
		c.Probe("detected_after_first_verification")
	}
}

// prepareAutoReap derives, from the pristine store, the store as it was before
// its newest snapshot and that snapshot's WAL files as a staging directory.
// Only possible when the newest snapshot is an incremental on top of others.
func (e *c12Env) prepareAutoReap() {
	dirs := c12Dirs(e.src.SnapDir)
	if len(dirs) < 2 {
		return
	}
	newest := dirs[len(dirs)-1]
	if c12IsFull(e.src.SnapDir, newest) || e.refs[newest] == nil {
		return
	}
	prev := filepath.Join(e.c.Dir, "prev.img")
	stage := filepath.Join(e.c.Dir, "stage.img")
	if err := node.CopyTree(e.src.SnapDir, prev); err != nil {
		return
	}
	if err := os.Rename(filepath.Join(prev, newest), stage); err != nil {
		return
	}
	os.Remove(filepath.Join(stage, "meta.json"))
	e.imgPrev, e.stageImg, e.newestID = prev, stage, newest
}

// autoReap persists the next incremental snapshot into the store the way a
// running node does (staged WAL directory + IncrementalFile header through
// Store.Create / Sink.Write / Sink.Close) with the reap threshold set so that
// this snapshot triggers the background reaper; then restores whatever the
// store lists as newest. consolidated reports that the reaper ran its plan.
func (e *c12Env) autoReap(st *snapshot.Store, storeDir string, ndirs int) (out []byte, failure string, consolidated bool) {
	c := e.c
	st.SetReapThreshold(ndirs + 1)
	stage := filepath.Join(c.Dir, "stage")
	os.RemoveAll(stage)
	if err := node.CopyTree(e.stageImg, stage); err != nil {
		c.Discard("copy: " + err.Error())
		return nil, "copy", false
	}
	meta := e.refs[e.newestID].Meta
	sink, err := st.Create(raft.SnapshotVersionMax, meta.Index, meta.Term, meta.Configuration, meta.ConfigurationIndex, nil)
	if err != nil {
		return nil, "create: " + err.Error(), false
	}
	streamer, err := snapshot.NewSnapshotPathStreamer(stage)
	if err != nil {
		sink.Cancel()
		return nil, "streamer: " + err.Error(), false
	}
	if _, err := io.Copy(sink, streamer); err != nil {
		sink.Cancel()
		return nil, "persist: " + err.Error(), false
	}
	if err := sink.Close(); err != nil {
		return nil, "sink close: " + err.Error(), false
	}
	c.Probe("autoreap_incremental_persisted")
	// the reaper goroutine was signalled by Close; let it run to completion
	synctest.Wait()
	after := c12Dirs(storeDir)
	consolidated = len(after) == 1 && ndirs+1 > 1
	if consolidated {
		c.Probe("autoreap_consolidated")
	}
	ids, _, lerr := xfer.IDs(st)
	if lerr != nil || len(ids) == 0 {
		return nil, fmt.Sprintf("list after auto-reap: %v", lerr), consolidated
	}
	out, failure = e.restore(st, ids[len(ids)-1])
	return out, failure, consolidated
}

// autoReapNode restarts the real node on the clean-snapshot fast path (no
// restore, so no verification at start), writes one row and takes a snapshot
// with the reap threshold set so that this snapshot triggers the node's
// background reaper. Afterwards the node is stopped and its snapshot store is
// opened by a fresh instance (what the next start, a transfer or a restore
// would do): the newest snapshot must either fail to restore or restore to
// what the node contained.
func (e *c12Env) autoReapNode(n *node.Node, storeDir string, ndirs int) (out []byte, failure string, consolidated bool, got, want string) {
	c := e.c
	n.Extra = nil
	n.Knobs.SnapshotReapThreshold = ndirs + 1
	if serr := e.s.Restart(1); serr != nil {
		if !strings.Contains(serr.Error(), "open n1") {
			c.Discard("restart: " + serr.Error())
			return
		}
		n.Store.AbortOpenVerif()
		n.Net.HostDown(n.HostName)
		c.Probe("autoreap_node_start_refused")
		return nil, serr.Error(), false, "", ""
	}
	c.Probe("autoreap_node_fastpath_start")
	stop := func() {
		e.s.Do("stop-n1", 120*time.Second, func() { n.Stop() })
	}
	if !e.s.RunUntil(func() bool { return n.Store.IsLeader() }, 60*time.Second) {
		stop()
		c.Discard("restarted node did not become leader")
		return
	}
	e.extraRows++
	if !execOn(e.s, n, fmt.Sprintf("INSERT INTO t(k,v) VALUES(%d,'after restart')", 100000+e.extraRows)) {
		stop()
		c.Discard("write after restart failed")
		return
	}
	var serr error
	if !e.s.Do("snapshot", 120*time.Second, func() { serr = n.Store.Snapshot(0) }) {
		stop()
		c.Discard("snapshot after restart did not finish")
		return
	}
	e.s.RunFor(300 * time.Millisecond) // background reaper
	want, derr := e.s.DumpNode(n)
	stop()
	if derr != nil {
		c.Discard("dump: " + derr.Error())
		return
	}
	if serr != nil {
		return nil, "snapshot: " + serr.Error(), false, "", want
	}
	c.Probe("autoreap_node_snapshot_persisted")
	consolidated = len(c12Dirs(storeDir)) == 1
	if consolidated {
		c.Probe("autoreap_consolidated")
	}
	st, err := snapshot.NewStore(storeDir)
	if err != nil {
		return nil, "newstore: " + err.Error(), consolidated, "", want
	}
	defer st.Close()
	ids, _, lerr := xfer.IDs(st)
	if lerr != nil || len(ids) == 0 {
		return nil, fmt.Sprintf("list: %v", lerr), consolidated, "", want
	}
	b, f := e.restore(st, ids[len(ids)-1])
	if b == nil {
		return nil, f, consolidated, "", want
	}
	got, derr = sim.DumpFiles(e.tmp, c.Dir)
	if derr != nil {
		got = "dump of restored file failed: " + derr.Error()
	}
	return b, "", consolidated, got, want
}

func trunc(s string, n int) string {
	if len(s) > n {
		return s[:n]
	}
	return s
}

func (e *c12Env) restore(st *snapshot.Store, id string) ([]byte, string) {
	_, rc, err := st.Open(id)
	if err != nil {
		return nil, "open: " + err.Error()
	}
	os.Remove(e.tmp)
	_, err = snapshot.Restore(rc, e.tmp)
	rc.Close()
	if err != nil {
		xfer.CleanRestoreTemps(filepath.Dir(e.tmp))
		return nil, "restore: " + err.Error()
	}
	b, err := os.ReadFile(e.tmp)
	if err != nil {
		return nil, "read: " + err.Error()
	}
	return b, ""
}

func (e *c12Env) transfer(st *snapshot.Store, id string, zstd bool, tag string) ([]byte, string) {
	c := e.c
	dest, err := xfer.OpenCopy(filepath.Join(c.Dir, "none"), filepath.Join(c.Dir, "B"))
	if err != nil {
		c.Discard("dest: " + err.Error())
		return nil, "dest"
	}
	defer dest.Close()
	o := e.eng.Run(&xfer.Spec{Src: st, ID: id, Dest: dest, Zstd: zstd, Split: xfer.SplitPlan{Mode: "rand", Rng: core.NewRand(uint64(len(tag)) * 77)}, RestoreTo: e.tmp})
	if o.Stuck {
		violate(c, "transfer-hung", "%s: transfer made no progress for 300 simulated seconds", tag)
		return nil, "stuck"
	}
	if o.Installed && o.Restored {
		b, _ := os.ReadFile(e.tmp)
		return b, ""
	}
	if !o.Installed {
		if ids, _, _ := xfer.IDs(dest); len(ids) != 0 {
			violate(c, "failed-install-left-snapshot", "%s: rejected install left snapshots %v at the destination", tag, ids)
		}
		return nil, fmt.Sprintf("install: %v", o.InstallErr())
	}
	return nil, fmt.Sprintf("restore at destination: open=%v restore=%v", o.RestoreOpen, o.RestoreErr)
}

func init() {
	core.Register(&core.Prop{ID: "C12", Bubble: true, Gen: c12Gen, Run: c12Run, Enumerate: c12Enumerate})
}
