package props

import (
	"encoding/json"
	"fmt"
	"io"
	"log"
	"os"
	"path/filepath"
	"strings"
	"time"

	"github.com/rqlite/rqlite/v10/snapshot"
	"verifsim/core"
	"verifsim/crash"
	"verifsim/sim"
	"verifsim/snapsim"
)

// C08: upgrading an old on-disk snapshot directory is crash-safe. Engine E2.
// An old-format directory (7.x: snapshots/<id>/{meta.json,state.bin}; 8.x/9.x:
// rsnapshots/<id>.db + rsnapshots/<id>/meta.json) is generated from a real
// SQLite history. The "node start" is the sequence store.Open runs:
// Upgrade7To8(raft/snapshots, raft/rsnapshots), Upgrade8To10(raft/rsnapshots,
// raft/wsnapshots), NewStore(raft/wsnapshots). It runs once with an image of
// the raft directory at every hook occurrence (plus torn images); every image
// is recovered by running the start again, whose hook occurrences are imaged
// and recovered once more.

type c08Op struct {
	K      string `json:"k"`                // snap
	W      int    `json:"w,omitempty"`      // statements written before this snapshot
	NoData bool   `json:"nodata,omitempty"` // older snapshots only: directory with meta.json but no data file
	Extra  bool   `json:"extra,omitempty"`  // v8: empty <id>/<id>.data file present
}

type c08Scenario struct {
	Seed    uint64  `json:"seed"`
	Format  string  `json:"format"`            // v7 | v8
	Empty   bool    `json:"empty,omitempty"`   // v7: newest state.bin holds no database (16-byte header only)
	DelMode bool    `json:"delmode,omitempty"` // v7: serialized database in DELETE journal mode
	Depth   int     `json:"depth"`
	Torn    bool    `json:"torn"`
	Ops     []c08Op `json:"ops"`
}

func c08Gen(r *core.Rand, tier string) any {
	sc := &c08Scenario{Seed: r.Uint64(), Depth: 2, Torn: true}
	sc.Format = []string{"v7", "v8"}[r.Intn(2)]
	if sc.Format == "v7" {
		sc.Empty = r.Bool(0.15)
		sc.DelMode = r.Bool(0.7)
	}
	n := r.Weighted([]int{0, 5, 3, 2})
	for i := 0; i < n; i++ {
		op := c08Op{K: "snap", W: r.Range(1, 8)}
		if i < n-1 {
			op.NoData = r.Bool(0.4)
		}
		if sc.Format == "v8" {
			op.Extra = r.Bool(0.5)
		}
		sc.Ops = append(sc.Ops, op)
	}
	return sc
}

func c08Enumerate(tier string) []any {
	var out []any
	add := func(format string, n int, nodata, empty bool) {
		sc := &c08Scenario{Seed: uint64(2000 + len(out)), Format: format, Depth: 2, Torn: true, Empty: empty, DelMode: format == "v7"}
		for i := 0; i < n; i++ {
			sc.Ops = append(sc.Ops, c08Op{K: "snap", W: 3, NoData: nodata && i < n-1, Extra: format == "v8" && i == n-1})
		}
		out = append(out, sc)
	}
	add("v7", 2, true, false)
	add("v8", 1, false, false)
	if tier == "thorough" {
		for _, f := range []string{"v7", "v8"} {
			for n := 1; n <= 3; n++ {
				for _, nd := range []bool{false, true} {
					if nd && n == 1 {
						continue
					}
					add(f, n, nd, false)
				}
			}
		}
		add("v7", 1, false, true)
		add("v7", 2, false, true)
	}
	return out
}

func c08Run(c *core.Ctx, raw json.RawMessage) {
	var sc c08Scenario
	if err := json.Unmarshal(raw, &sc); err != nil {
		panic(err)
	}
	c.Rng = core.NewRand(sc.Seed)
	rng := c.Rng
	if sc.Depth < 1 {
		sc.Depth = 1
	}
	if len(sc.Ops) == 0 {
		c.Res.Trivial = true
		return
	}
	raftDir := filepath.Join(c.Dir, "raft")
	tmp := filepath.Join(c.Dir, "tmp")
	oldDBs := filepath.Join(c.Dir, "old")
	os.MkdirAll(oldDBs, 0o755)
	os.MkdirAll(raftDir, 0o755)
	dir7 := filepath.Join(raftDir, "snapshots")
	dir8 := filepath.Join(raftDir, "rsnapshots")
	dir10 := filepath.Join(raftDir, "wsnapshots")
	logger := log.New(io.Discard, "", 0)

	// generate the old store from a real history
	src, err := snapsim.NewSource(filepath.Join(c.Dir, "src"), rng.Fork(1))
	if err != nil {
		panic(err)
	}
	index, term := uint64(5), uint64(1)
	var snaps []snapsim.OldSnap
	var dumps []string
	for i, op := range sc.Ops {
		w := op.W
		if w < 1 {
			w = 1
		}
		if err := src.Write(w); err != nil {
			panic(err)
		}
		rc, err := src.Full() // checkpoints everything into the database file
		if err != nil {
			panic(err)
		}
		rc.Close()
		index += uint64(rng.Range(1, 9))
		if rng.Bool(0.3) {
			term++
		}
		last := i == len(sc.Ops)-1
		sn := snapsim.OldSnap{ID: fmt.Sprintf("%d-%d-%d", term, index, 1686659756627+int64(i)*4399), Index: index, Term: term, Extra: op.Extra}
		dump := ""
		if last || !op.NoData {
			p := filepath.Join(oldDBs, fmt.Sprintf("s%d.db", i))
			b, err := os.ReadFile(src.DBPath)
			if err != nil {
				panic(err)
			}
			os.WriteFile(p, b, 0o644)
			if sc.Format == "v7" && sc.DelMode {
				if err := snapsim.ToDeleteMode(p); err != nil {
					panic(err)
				}
			}
			if dump, err = sim.DumpFiles(p, tmpDir(tmp)); err != nil {
				panic(err)
			}
			sn.DBFile = p
			sn.DelMode = sc.DelMode
		}
		if last && sc.Format == "v7" && sc.Empty {
			sn.Empty, sn.DBFile, dump = true, "", ""
		}
		snaps = append(snaps, sn)
		dumps = append(dumps, dump)
	}
	src.Close()
	if sc.Format == "v7" {
		err = snapsim.WriteV7(dir7, snaps)
	} else {
		err = snapsim.WriteV8(dir8, snaps)
	}
	if err != nil {
		panic(err)
	}
	newest := snaps[len(snaps)-1]
	wantDump := dumps[len(dumps)-1]
	var shape []string
	for _, s := range snaps {
		switch {
		case s.Empty:
			shape = append(shape, "E")
		case s.DBFile == "":
			shape = append(shape, "m")
		default:
			shape = append(shape, "D")
		}
	}
	c.Log.Add("old store %s %s delmode=%v newest %d/%d", sc.Format, strings.Join(shape, ""), sc.DelMode, newest.Index, newest.Term)
	c.Sig(sc.Format + strings.Join(shape, ""))

	start := func() (*snapshot.Store, error) {
		if err := snapshot.Upgrade7To8(dir7, dir8, logger); err != nil {
			return nil, fmt.Errorf("failed to upgrade v7 snapshots: %w", err)
		}
		if err := snapshot.Upgrade8To10(dir8, dir10, logger); err != nil {
			return nil, fmt.Errorf("failed to upgrade v8 snapshots: %w", err)
		}
		st, err := snapsim.OpenStore(dir10)
		if err != nil {
			return nil, fmt.Errorf("failed to create snapshot store: %w", err)
		}
		return st, nil
	}
	judge := func(st *snapshot.Store, trail string, deep bool) {
		defer func() {
			if st != nil {
				st.Close()
			}
		}()
		check := func(st *snapshot.Store, stage string) bool {
			metas, err := st.List()
			if err != nil {
				c.Violate("list-failed", "%s: %s: List: %s", trail, stage, snapsim.Scrub(raftDir, err))
				return false
			}
			if len(metas) != 1 {
				c.Violate("snapshot-missing", "%s: %s: upgraded store lists %d snapshots, want the newest original (index %d term %d); raft dir: %s",
					trail, stage, len(metas), newest.Index, newest.Term, snapsim.Listing(raftDir))
				return false
			}
			if metas[0].Index != newest.Index || metas[0].Term != newest.Term {
				c.Violate("index-term", "%s: %s: upgraded snapshot is index %d term %d, newest original was index %d term %d",
					trail, stage, metas[0].Index, metas[0].Term, newest.Index, newest.Term)
				return false
			}
			res, err := snapsim.Resolve(st, metas[0].ID, tmp)
			if err != nil {
				c.Violate("unresolvable", "%s: %s: upgraded snapshot does not resolve: %s; raft dir: %s", trail, stage, snapsim.Scrub(raftDir, err), snapsim.Listing(raftDir))
				return false
			}
			if res.Dump != wantDump {
				c.Violate("content-differs", "%s: %s: database of the upgraded snapshot differs from the newest original: %s", trail, stage, sim.FirstDiff(wantDump, res.Dump))
				return false
			}
			// the upgrade is complete: nothing of the old formats or of the upgrade machinery is left
			ents, _ := os.ReadDir(raftDir)
			for _, e := range ents {
				if e.Name() != "wsnapshots" {
					c.Violate("upgrade-incomplete", "%s: %s: %q is still present in the raft directory after a successful start; raft dir: %s",
						trail, stage, e.Name(), snapsim.Listing(raftDir))
					return false
				}
			}
			return true
		}
		if !check(st, "after start") || !deep {
			return
		}
		st.Close()
		st = nil
		st2, err := start()
		if err != nil {
			c.Violate("restart-failed", "%s: the start after recovery failed: %s; raft dir: %s", trail, snapsim.Scrub(raftDir, err), snapsim.Listing(raftDir))
			return
		}
		st = st2
		check(st2, "after second start")
	}

	en := &snapsim.Enum{C: c, Root: raftDir, ImgBase: filepath.Join(c.Dir, "img"), MaxDepth: sc.Depth}
	if sc.Torn {
		trng := rng.Fork(2)
		en.Torn = func(im crash.Image, op int) []crash.Image {
			switch {
			case op >= 0:
				return snapsim.TornVariants(im, raftDir, "UPGRADE_8_10_PLAN", op, trng)
			case im.Point == "upgrade7to8.after-parent-sync":
				return snapsim.TornRemoveAll(im, "snapshots", trng) // RemoveDirSync(old) cut in flight
			}
			return nil
		}
	}
	en.OnStartFailed = func(trail string, err error) {
		c.Violate("start-failed", "crash at %s: next start failed: %s; raft dir: %s", trail, snapsim.Scrub(raftDir, err), snapsim.Listing(raftDir))
	}
	en.Recover = func() (func(string), error) {
		if _, err := os.Stat(filepath.Join(raftDir, "UPGRADE_8_10_PLAN")); err == nil {
			c.Probe("recovery_found_plan")
		}
		st, err := start()
		if err != nil {
			return nil, err
		}
		return func(trail string) { judge(st, "crash at "+trail, true) }, nil
	}

	time.Sleep(time.Duration(rng.Range(2, 2000)) * time.Millisecond)
	var st0 *snapshot.Store
	var serr error
	imgs, rec := en.Record(func() { st0, serr = start() })
	if serr != nil {
		c.Violate("start-failed", "uninterrupted start failed: %s", snapsim.Scrub(raftDir, serr))
		return
	}
	points := map[string]int{}
	for _, h := range rec.Hits {
		points[strings.SplitN(h.Point, ".", 2)[0]]++
	}
	c.Log.Add("start: %d hook occurrences, %d distinct images (+torn: %d)", len(rec.Hits), len(rec.Images), len(imgs)-len(rec.Images))
	c.ProbeN("hooks_upgrade7to8", points["upgrade7to8"])
	c.ProbeN("hooks_upgrade8to10", points["upgrade8to10"])
	c.ProbeN("hooks_plan", points["plan"])
	c.ProbeN("torn_images", len(imgs)-len(rec.Images))
	judge(st0, "no crash", false)
	if c.Failed() {
		return
	}
	en.Explore(imgs, 1, "")
	c.ProbeN("cases_first_crash", en.Explored[1])
	c.ProbeN("cases_second_crash", en.Explored[2])
	c.ProbeN("states_memo_skipped", en.Skipped)
	if n := en.Explored[1] + en.Explored[2]; n > 0 {
		c.Fault("crash_image")
		c.Res.Faults["crash_image"] += n - 1
	} else {
		c.Res.Trivial = true
	}
}

func tmpDir(p string) string {
	os.MkdirAll(p, 0o755)
	return p
}

func init() {
	core.Register(&core.Prop{ID: "C08", Bubble: true, Gen: c08Gen, Run: c08Run, Enumerate: c08Enumerate})
}
