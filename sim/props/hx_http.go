package props

// Helpers shared by the checks that drive nodes through the real HTTP service
// (C20, C22, C23): request/response plumbing, a leadership-view tracker and a
// stepping wrapper. Everything here is harness code; rqlite is reached only
// through node.HTTPDo (http.Service.ServeHTTP) and exported Store methods.

import (
	"bytes"
	"context"
	"encoding/json"
	"expvar"
	"fmt"
	"io"
	"net/http/httptest"
	"net/url"
	"sort"
	"strings"
	"testing/synctest"
	"time"

	"github.com/rqlite/rqlite/v10/command/proto"
	"verifsim/node"
	"verifsim/sim"
)

// hxResp is a recorded HTTP response.
type hxResp struct {
	Code int
	Body string
	Loc  string // Location header
	By   string // X-RQLITE-SERVED-BY
	J    *hxBody
}

// hxBody is the JSON envelope of /db/execute, /db/query, /db/request, /db/load.
type hxBody struct {
	Results []map[string]any `json:"results"`
	Error   string           `json:"error"`
	Seq     int64            `json:"sequence_number"`
	RaftIdx uint64           `json:"raft_index"`
}

func hxDo(n *node.Node, method, target, ctype string, body []byte, user, pass string) *hxResp {
	// Same as node.HTTPDo, except that a node whose HTTP service has already been
	// torn down (the scenario ended while this task was about to start) answers
	// nothing instead of dereferencing nil.
	h := n.HTTP
	if h == nil {
		return &hxResp{Code: 0, Body: "node is down"}
	}
	var rd io.Reader
	if body != nil {
		rd = bytes.NewReader(body)
	}
	req := httptest.NewRequest(method, "http://"+n.HTTPAddr+target, rd)
	if ctype != "" {
		req.Header.Set("Content-Type", ctype)
	}
	if user != "" || pass != "" {
		req.SetBasicAuth(user, pass)
	}
	w := httptest.NewRecorder()
	h.ServeHTTP(w, req)
	r := &hxResp{Code: w.Code, Body: w.Body.String(), Loc: w.Header().Get("Location"), By: w.Header().Get("X-RQLITE-SERVED-BY")}
	if strings.HasPrefix(strings.TrimSpace(r.Body), "{") {
		var b hxBody
		dec := json.NewDecoder(bytes.NewReader([]byte(r.Body)))
		dec.UseNumber()
		if dec.Decode(&b) == nil {
			r.J = &b
		}
	}
	return r
}

// hxStmtsJSON renders statements as the JSON array the API expects. A statement
// given as []any{sql, params...} is sent in parameterised form.
func hxStmtsJSON(stmts []any) []byte {
	b, err := json.Marshal(stmts)
	if err != nil {
		panic(err)
	}
	return b
}

// hxQuery builds a query string from ordered key/value pairs ("" value = flag).
func hxQuery(kv ...string) string {
	var parts []string
	for i := 0; i+1 < len(kv); i += 2 {
		if kv[i+1] == "" {
			parts = append(parts, kv[i])
		} else {
			parts = append(parts, kv[i]+"="+url.QueryEscape(kv[i+1]))
		}
	}
	if len(parts) == 0 {
		return ""
	}
	return "?" + strings.Join(parts, "&")
}

// hxNum converts a decoded JSON number (json.Number) to int64.
func hxNum(v any) (int64, bool) {
	switch x := v.(type) {
	case json.Number:
		i, err := x.Int64()
		return i, err == nil
	case float64:
		return int64(x), true
	case int64:
		return x, true
	}
	return 0, false
}

// hxResultErr returns the "error" of a result object ("" if none).
func hxResultErr(m map[string]any) string {
	if e, ok := m["error"]; ok {
		return fmt.Sprint(e)
	}
	return ""
}

// hxRows extracts the value rows of a (non-associative) query result as strings.
func hxRows(m map[string]any) [][]string {
	vs, _ := m["values"].([]any)
	var out [][]string
	for _, r := range vs {
		row, _ := r.([]any)
		var o []string
		for _, c := range row {
			o = append(o, fmt.Sprint(c))
		}
		out = append(out, o)
	}
	return out
}

// ---------------------------------------------------------------- leadership view

// hxView tracks, at quiescent points, who believes what about leadership. The
// epoch changes whenever any up node's (is-leader, leader-address) pair changes
// between two consecutive observations; a client operation whose invoke and
// return epochs are equal ran under one unchanged, agreed leadership.
type hxView struct {
	s     *sim.Sim
	last  string
	Epoch int
}

func (v *hxView) observe() {
	var sb strings.Builder
	for _, n := range v.s.Nodes[1:] {
		if n == nil || !n.Up {
			sb.WriteString("-;")
			continue
		}
		la, _ := n.Store.LeaderAddr()
		fmt.Fprintf(&sb, "%v/%s;", n.Store.IsLeader(), la)
	}
	cur := sb.String()
	if cur != v.last {
		v.last = cur
		v.Epoch++
	}
}

// agreedLeader returns the unique leader if every up node names it as leader.
func (v *hxView) agreedLeader() *node.Node {
	l := v.s.Leader()
	if l == nil {
		return nil
	}
	for _, n := range v.s.Nodes[1:] {
		if n == nil || !n.Up {
			continue
		}
		la, _ := n.Store.LeaderAddr()
		if la != l.RaftAddr {
			return nil
		}
	}
	return l
}

// hxDriver wraps the E1 driver so that an observer runs at every quiescent
// point (after each step).
type hxDriver struct {
	s      *sim.Sim
	After  []func()
	inside bool
}

func (d *hxDriver) step() {
	d.s.Step()
	if d.inside {
		return
	}
	d.inside = true
	synctest.Wait()
	for _, f := range d.After {
		f()
	}
	d.inside = false
}

func (d *hxDriver) runFor(dur time.Duration) {
	deadline := time.Now().Add(dur)
	for !d.s.Capped && time.Now().Before(deadline) {
		d.step()
	}
}

func (d *hxDriver) await(t *sim.Task, max time.Duration) bool {
	deadline := time.Now().Add(max)
	for !t.Finished && !d.s.Capped && time.Now().Before(deadline) {
		d.step()
	}
	return t.Finished
}

func (d *hxDriver) runUntil(cond func() bool, max time.Duration) bool {
	deadline := time.Now().Add(max)
	for !d.s.Capped && time.Now().Before(deadline) {
		synctest.Wait()
		if cond() {
			return true
		}
		d.step()
	}
	synctest.Wait()
	return cond()
}

// do runs f as a task and steps until it completes.
func (d *hxDriver) do(label string, max time.Duration, f func()) bool {
	return d.await(d.s.Go(label, f), max)
}

// hxSettle heals the network and runs until a single agreed leader exists and
// every up node has applied everything the leader has committed.
func hxSettle(d *hxDriver, v *hxView, max time.Duration) *node.Node {
	d.s.Net.Heal()
	var ldr *node.Node
	d.runUntil(func() bool {
		v.observe()
		ldr = v.agreedLeader()
		if ldr == nil {
			return false
		}
		ci, err := ldr.Store.CommitIndex()
		if err != nil {
			return false
		}
		for _, n := range d.s.Nodes[1:] {
			if n == nil || !n.Up {
				continue
			}
			c2, err := n.Store.CommitIndex()
			if err != nil || c2 < ci || n.Store.AppliedIndex() < ci {
				return false
			}
		}
		return true
	}, max)
	return ldr
}

func hxSortedKeys[V any](m map[string]V) []string {
	ks := make([]string, 0, len(m))
	for k := range m {
		ks = append(ks, k)
	}
	sort.Strings(ks)
	return ks
}

// hxExpvar reads an integer counter of one of rqlite's expvar maps (process
// global: use differences within a run).
func hxExpvar(mapName, key string) int64 {
	m, ok := expvar.Get(mapName).(*expvar.Map)
	if !ok {
		return 0
	}
	v, ok := m.Get(key).(*expvar.Int)
	if !ok {
		return 0
	}
	return v.Value()
}

// hxStrongRead runs one SELECT as a strong read on the settled leader (direct
// Store call, harness-side ground truth). It re-settles and retries when the
// read fails (leadership may still be moving after the last fault).
func hxStrongRead(d *hxDriver, v *hxView, sql string) ([]*proto.Values, bool) {
	for attempt := 0; attempt < 6; attempt++ {
		ldr := hxSettle(d, v, 60*time.Second)
		if ldr == nil {
			continue
		}
		var out []*proto.Values
		ok := false
		d.do("strong-read", 30*time.Second, func() {
			qr := &proto.QueryRequest{Level: proto.ConsistencyLevel_STRONG, Request: &proto.Request{Statements: []*proto.Statement{{Sql: sql}}}}
			rows, _, _, err := ldr.Store.Query(context.Background(), qr)
			if err != nil || len(rows) != 1 || rows[0].Error != "" {
				return
			}
			out, ok = rows[0].Values, true
		})
		if ok {
			return out, true
		}
		d.runFor(2 * time.Second)
	}
	return nil, false
}

// hxSetup runs idempotent set-up statements on the settled leader, retrying when
// leadership moves underneath (set-up happens before the scenario's own faults,
// but elections under aggressive timeouts are still possible).
func hxSetup(d *hxDriver, v *hxView, stmts ...string) bool {
	for _, st := range stmts {
		ok := false
		for attempt := 0; attempt < 6 && !ok; attempt++ {
			ldr := hxSettle(d, v, 30*time.Second)
			if ldr == nil {
				continue
			}
			ok = execOn(d.s, ldr, st)
		}
		if !ok {
			return false
		}
	}
	hxSettle(d, v, 30*time.Second)
	return true
}
