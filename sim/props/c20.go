package props

// C20: a write, strong read or unified request sent to a follower is either
// redirected (client asked for redirects) or executed once on the leader with
// the caller's credentials, the leader's results and index are returned
// unchanged, and it is never executed against the follower's own database.
//
// Engine E1. Every node runs the real http.Service (ServeHTTP called
// directly), proxy, cluster client/service over simnet, each with its own
// in-memory auth.CredentialsStore (per-node differences are deliberate: a user
// may be allowed on the follower and denied on the leader). Requests of every
// kind/level go to every node, with and without redirect, with and without
// credentials, while the scenario moves leadership (stepdown, isolation) and
// optionally resets connections. A follower can be made to lag just before a
// request (short partition around a write), so that anything executed against
// the follower's own database returns visibly stale data.

import (
	"context"
	"crypto/sha1"
	"encoding/json"
	"fmt"
	"os"
	"path/filepath"
	"sort"
	"strings"
	"testing/synctest"
	"time"

	"github.com/rqlite/rqlite/v10/auth"
	"github.com/rqlite/rqlite/v10/cluster"
	"github.com/rqlite/rqlite/v10/command/proto"
	"verifsim/core"
	"verifsim/node"
	"verifsim/sim"
	"verifsim/simnet"
)

type c20UserNode struct {
	Def   bool     `json:"def"`
	Pass  string   `json:"pass,omitempty"`
	Perms []string `json:"perms,omitempty"`
}

type c20User struct {
	Name string        `json:"name"`
	Pass string        `json:"pass"` // what the client sends
	Node []c20UserNode `json:"node"` // index = node number (0 unused)
}

type c20Op struct {
	K        string `json:"k"`              // req | stepdown | isolate | ackblock | heal | reset | run
	Kind     string `json:"kind,omitempty"` // exec | query | request
	N        int    `json:"n,omitempty"`    // target node
	Level    string `json:"lvl,omitempty"`
	Redirect bool   `json:"redir,omitempty"`
	U        int    `json:"u,omitempty"`   // user index, 0 = anonymous
	Pat      string `json:"pat,omitempty"` // statements: w = insert, f = failing insert, r = select
	Tx       bool   `json:"tx,omitempty"`
	RaftIdx  bool   `json:"ridx,omitempty"`
	Get      bool   `json:"get,omitempty"`   // query via GET ?q=
	Param    bool   `json:"param,omitempty"` // parameterised statement form
	Lag      bool   `json:"lag,omitempty"`   // make the target (if follower) lag first
	Async    bool   `json:"async,omitempty"`
	ToLdr    bool   `json:"toldr,omitempty"` // send to whoever is the agreed leader (N is the fallback)
	Slow     int    `json:"slow,omitempty"`  // timeout (ms) of this request; while it runs, the leader's inter-node responses to the contacted node are held (slow leader): both forwarding attempts time out
	Keep     int    `json:"keep,omitempty"`  // ackblock: the follower (ordinal among followers) whose acknowledgements still reach the leader
	Rst      int    `json:"rst,omitempty"`   // reset the inter-node connection when the Rst-th response segment towards the contacted node is pending
	Gap      int    `json:"gap,omitempty"`
	Ms       int    `json:"ms,omitempty"`
}

type c20Scenario struct {
	Seed     uint64     `json:"seed"`
	Nodes    int        `json:"nodes"`
	Auth     bool       `json:"auth"`
	Users    []c20User  `json:"users,omitempty"` // index 0 = anonymous placeholder
	Star     [][]string `json:"star,omitempty"`  // per node: perms granted to everybody
	Knobs    node.Knobs `json:"knobs"`
	Tick     float64    `json:"tick"`
	NoFault  bool       `json:"no_fault,omitempty"`
	NonVoter bool       `json:"non_voter,omitempty"` // the last node is a non-voting (read-only) node
	Ops      []c20Op    `json:"ops"`
}

func c20Has(l []string, p string) bool {
	for _, x := range l {
		if x == p {
			return true
		}
	}
	return false
}

// allows is the harness's own statement of the permission rule (independent of
// auth.CredentialsStore.AA): a perm granted to "*" needs no credentials;
// otherwise the user must exist on that node with that password and hold the
// perm (or "all").
func (sc *c20Scenario) allows(nodeIdx, u int, perms ...string) bool {
	if !sc.Auth {
		return true
	}
	for _, p := range perms {
		star := sc.Star[nodeIdx]
		if c20Has(star, p) || c20Has(star, "all") {
			continue
		}
		if u <= 0 || u >= len(sc.Users) {
			return false
		}
		un := sc.Users[u].Node[nodeIdx]
		if !un.Def || un.Pass != sc.Users[u].Pass {
			return false
		}
		if !c20Has(un.Perms, p) && !c20Has(un.Perms, "all") {
			return false
		}
	}
	return true
}

func (sc *c20Scenario) credStore(nodeIdx int) *auth.CredentialsStore {
	if !sc.Auth {
		return nil
	}
	var list []auth.Credential
	list = append(list, auth.Credential{Username: "*", Perms: sc.Star[nodeIdx]})
	for u := 1; u < len(sc.Users); u++ {
		un := sc.Users[u].Node[nodeIdx]
		if un.Def {
			list = append(list, auth.Credential{Username: sc.Users[u].Name, Password: un.Pass, Perms: un.Perms})
		}
	}
	b, _ := json.Marshal(list)
	cs := auth.NewCredentialsStore()
	if err := cs.Load(strings.NewReader(string(b))); err != nil {
		panic(err)
	}
	return cs
}

func c20Gen(r *core.Rand, tier string) any {
	sc := &c20Scenario{Seed: r.Uint64(), Nodes: 3}
	switch x := r.Intn(100); {
	case x < 22:
		sc.Nodes, sc.NonVoter = 4, true
	case x < 47:
		sc.Nodes = 5 // quorum 3: a leader can hold an entry that one follower has acknowledged and that is not committed
	}
	sc.Tick = []float64{0.02, 0.08, 0.2}[r.Intn(3)]
	hb := time.Duration(r.Range(2, 6)) * 100 * time.Millisecond
	sc.Knobs = node.Knobs{HeartbeatTimeout: hb, ElectionTimeout: hb, LeaderLeaseTimeout: hb / 2,
		ApplyTimeout: time.Duration(r.Range(2, 5)) * time.Second}
	if sc.Nodes == 5 {
		hb = time.Duration(r.Range(4, 8)) * 100 * time.Millisecond
		sc.Knobs.HeartbeatTimeout, sc.Knobs.ElectionTimeout, sc.Knobs.LeaderLeaseTimeout = hb, hb, hb
	}
	sc.Auth = r.Bool(0.65)
	sc.NoFault = r.Bool(0.3)
	if sc.Auth {
		sc.Star = make([][]string, sc.Nodes+1)
		for n := 1; n <= sc.Nodes; n++ {
			sc.Star[n] = []string{"join", "join-read-only", "status", "ready"}
			if r.Bool(0.25) {
				sc.Star[n] = append(sc.Star[n], "query") // anonymous reads allowed on this node only
			}
		}
		mk := func(name, pass string, f func(n int) c20UserNode) {
			u := c20User{Name: name, Pass: pass, Node: make([]c20UserNode, sc.Nodes+1)}
			for n := 1; n <= sc.Nodes; n++ {
				u.Node[n] = f(n)
			}
			sc.Users = append(sc.Users, u)
		}
		sc.Users = append(sc.Users, c20User{Name: "", Node: make([]c20UserNode, sc.Nodes+1)}) // 0 = anonymous
		mk("admin", "pa", func(int) c20UserNode { return c20UserNode{true, "pa", []string{"all"}} })
		mk("rw", "pw", func(int) c20UserNode { return c20UserNode{true, "pw", []string{"execute", "query"}} })
		mk("ro", "pr", func(int) c20UserNode { return c20UserNode{true, "pr", []string{"query"}} })
		mk("wo", "po", func(int) c20UserNode { return c20UserNode{true, "po", []string{"execute"}} })
		// allowed on some nodes only (perm missing, or user unknown, elsewhere)
		mk("part", "pp", func(int) c20UserNode {
			switch r.Intn(4) {
			case 0:
				return c20UserNode{Def: false}
			case 1:
				return c20UserNode{true, "pp", []string{"query"}}
			default:
				return c20UserNode{true, "pp", []string{"execute", "query"}}
			}
		})
		// same perms everywhere, password differs on some nodes
		mk("skew", "ps", func(int) c20UserNode {
			if r.Bool(0.4) {
				return c20UserNode{true, "other", []string{"execute", "query"}}
			}
			return c20UserNode{true, "ps", []string{"execute", "query"}}
		})
		mk("ghost", "pg", func(int) c20UserNode { return c20UserNode{Def: false} })
	}
	enabled := map[string]bool{}
	for _, k := range []string{"stepdown", "isolate"} {
		enabled[k] = !sc.NoFault && r.Bool(0.7)
	}
	enabled["reset"] = !sc.NoFault && r.Bool(0.3)
	nops := r.Range(25, 60)
	if tier == "thorough" {
		nops = r.Range(30, 100)
	}
	isolated := false
	mkUser := func() int {
		if sc.Auth {
			return []int{1, 1, 2, 2}[r.Intn(4)]
		}
		return 0
	}
	// slowChain: a forwarded request that outlives its timeout on both forwarding
	// attempts because the leader's responses are slow, followed by further,
	// different requests through the same node: each must get its own answer.
	slowChain := func() {
		n := 1 + r.Intn(sc.Nodes)
		first := c20Op{K: "req", N: n, U: mkUser(), Slow: r.Range(150, 400), RaftIdx: true}
		// a read: the forwarding layer re-sends after a timeout (known finding for writes), reads are harmless
		first.Kind, first.Level, first.Pat = "query", []string{"strong", "weak", "linearizable"}[r.Intn(3)], "r"
		sc.Ops = append(sc.Ops, first)
		for j, k := 0, r.Range(2, 4); j < k; j++ {
			op := c20Op{K: "req", N: n, U: mkUser(), RaftIdx: true, Gap: r.Intn(3)}
			switch r.Intn(3) {
			case 0:
				op.Kind, op.Pat = "exec", []string{"w", "ww"}[r.Intn(2)]
			case 1:
				op.Kind, op.Level, op.Pat = "query", []string{"strong", "weak"}[r.Intn(2)], []string{"r", "rr"}[r.Intn(2)]
			default:
				op.Kind, op.Level, op.Pat = "request", "weak", []string{"wr", "rw", "w"}[r.Intn(3)]
			}
			sc.Ops = append(sc.Ops, op)
		}
	}
	// xferChain (5 nodes): only one follower's acknowledgements reach the leader, so
	// a write sent to the leader is replicated but not committed; leadership is then
	// transferred; the old leader learns the new one while the write is pending.
	xferChain := func() {
		sc.Ops = append(sc.Ops, c20Op{K: "ackblock", Keep: r.Intn(4)})
		k := r.Range(1, 2)
		for j := 0; j < k; j++ {
			sc.Ops = append(sc.Ops, c20Op{K: "req", Kind: []string{"exec", "request"}[r.Intn(2)], N: 1 + r.Intn(sc.Nodes), ToLdr: true,
				U: mkUser(), Pat: []string{"w", "ww"}[r.Intn(2)], RaftIdx: true, Async: true, Gap: r.Range(4, 30)})
		}
		sc.Ops = append(sc.Ops, c20Op{K: "stepdown", Gap: r.Intn(12)})
		sc.Ops = append(sc.Ops, c20Op{K: "run", Ms: r.Range(50, 600)})
		sc.Ops = append(sc.Ops, c20Op{K: "heal", Gap: r.Intn(10)})
		sc.Ops = append(sc.Ops, c20Op{K: "run", Ms: r.Range(500, 2500)})
	}
	levels := []string{"", "none", "weak", "strong", "linearizable", "auto"}
	for i := 0; i < nops; i++ {
		x := r.Intn(100)
		if !sc.NoFault && !isolated && r.Bool(0.05) {
			slowChain()
			continue
		}
		if !sc.NoFault && !isolated && sc.Nodes == 5 && r.Bool(0.2) {
			xferChain()
			continue
		}
		switch {
		case x < 78:
			op := c20Op{K: "req", N: 1 + r.Intn(sc.Nodes), Gap: r.Intn(6)}
			if sc.Auth {
				// weights: rw and admin most often so that most requests are executed
				op.U = []int{0, 1, 1, 2, 2, 2, 3, 4, 5, 5, 6, 6, 7}[r.Intn(13)]
			} else if r.Bool(0.3) {
				op.U = -1 // credentials sent although the cluster has no auth (u<0: "someone"/"pw")
			}
			op.Redirect = r.Bool(0.25)
			op.RaftIdx = r.Bool(0.6)
			op.Param = r.Bool(0.3)
			switch k := r.Intn(100); {
			case k < 40:
				op.Kind = "exec"
				op.Pat = []string{"w", "w", "ww", "www", "wf", "fw", "wfw"}[r.Intn(7)]
				op.Tx = r.Bool(0.3)
			case k < 75:
				op.Kind = "query"
				op.Level = levels[r.Intn(len(levels))]
				if r.Bool(0.4) {
					op.Level = []string{"strong", "linearizable", "weak"}[r.Intn(3)]
				}
				op.Pat = []string{"r", "r", "rr"}[r.Intn(3)]
				op.Get = op.Pat == "r" && r.Bool(0.5)
				op.Tx = r.Bool(0.15)
			default:
				op.Kind = "request"
				op.Level = levels[r.Intn(len(levels))]
				op.Pat = []string{"w", "r", "rw", "wr", "wrw", "rr", "wfr", "rfw"}[r.Intn(8)]
				op.Tx = r.Bool(0.3)
			}
			op.Lag = r.Bool(0.3)
			op.Async = !sc.NoFault && r.Bool(0.35)
			if enabled["reset"] && r.Bool(0.3) {
				op.Rst = r.Range(1, 2)
			}
			sc.Ops = append(sc.Ops, op)
		case x < 84:
			if enabled["stepdown"] {
				sc.Ops = append(sc.Ops, c20Op{K: "stepdown", Gap: r.Intn(10)})
			}
		case x < 88:
			if enabled["isolate"] && !isolated {
				sc.Ops = append(sc.Ops, c20Op{K: "isolate", Gap: r.Intn(10)})
				isolated = true
			}
		case x < 92:
			if isolated {
				sc.Ops = append(sc.Ops, c20Op{K: "heal", Gap: r.Intn(10)})
				isolated = false
			}
		case x < 95:
			if enabled["reset"] {
				sc.Ops = append(sc.Ops, c20Op{K: "reset", N: r.Intn(64), Gap: r.Intn(4)})
			}
		default:
			sc.Ops = append(sc.Ops, c20Op{K: "run", Ms: r.Range(50, 2500)})
		}
		if len(sc.Ops) == 0 {
			continue
		}
		if k := sc.Ops[len(sc.Ops)-1].K; (k == "isolate" || k == "stepdown") && r.Bool(0.5) {
			sc.Ops = append(sc.Ops, c20Op{K: "run", Ms: r.Range(100, 2000)})
		}
	}
	return sc
}

// ---------------------------------------------------------------- run

type c20Stmt struct {
	kind   byte // w f r
	tag    string
	sel    []string        // tags selected by a read
	expect map[string]bool // read: tag -> must be present
}

type c20Req struct {
	id      int
	op      c20Op
	tgt     int
	path    string
	stmts   []c20Stmt
	user    string
	pass    string
	uidx    int
	perms   []string
	needLdr bool

	invokeEpoch int
	retEpoch    int
	ldrAtInvoke int // agreed leader at invoke (0 = none)
	concurrent  bool
	c0, c1      uint64
	lagged      bool
	rstLeft     int
	faulted     bool // a connection was reset while the request was in flight
	faultNear   bool // a leadership fault was injected shortly before or during the request
	slowed      bool // the leader's responses to the contacted node were held while this request ran

	resp    *hxResp
	done    bool
	outcome string // ok | rejected | error | pending
	lastIDs map[string]int64
}

// txAborted reports whether the request is transactional and contains a
// failing statement (the whole request is then rolled back).
func (r *c20Req) txAborted() bool {
	if !r.op.Tx {
		return false
	}
	for _, s := range r.stmts {
		if s.kind == 'f' {
			return true
		}
	}
	return false
}

type c20Guard struct {
	phys string
	idx  uint64
	dump string
	ok   bool
}

func c20Phys(dir string) string {
	var sb strings.Builder
	for _, f := range []string{"db.sqlite", "db.sqlite-wal"} {
		p := filepath.Join(dir, f)
		fi, err := os.Stat(p)
		if err != nil {
			sb.WriteString("-|")
			continue
		}
		fmt.Fprintf(&sb, "%d/%d|", fi.Size(), fi.ModTime().UnixNano())
		if f == "db.sqlite-wal" && fi.Size() > 0 {
			if fh, err := os.Open(p); err == nil {
				hd := make([]byte, 32)
				fh.ReadAt(hd, 0)
				tl := make([]byte, 64)
				if fi.Size() > 64 {
					fh.ReadAt(tl, fi.Size()-64)
				}
				fh.Close()
				fmt.Fprintf(&sb, "%x", sha1.Sum(append(hd, tl...)))
			}
		}
	}
	return sb.String()
}

func c20Run(c *core.Ctx, raw json.RawMessage) {
	var sc c20Scenario
	if err := json.Unmarshal(raw, &sc); err != nil {
		panic(err)
	}
	if sc.Nodes < 3 {
		sc.Nodes = 3
	}
	c.Rng = core.NewRand(sc.Seed)
	s := sim.New(c)
	s.TickProb = sc.Tick
	defer s.Shutdown()

	for i := 1; i <= sc.Nodes; i++ {
		n := s.AddNode(sc.Knobs)
		n.WithHTTP = true
		n.Creds = sc.credStore(i)
	}
	if err := s.Boot(sc.Nodes, sc.Knobs, func(i int) bool { return !(sc.NonVoter && i == sc.Nodes) }); err != nil {
		c.Discard("boot-failed: " + err.Error())
		return
	}
	d := &hxDriver{s: s}
	view := &hxView{s: s}
	guards := make([]c20Guard, sc.Nodes+1)
	guardObs := func() {
		for i := 1; i <= sc.Nodes; i++ {
			n := s.Nodes[i]
			g := &guards[i]
			if !n.Up {
				g.ok = false
				continue
			}
			ph := c20Phys(n.Dir)
			idx := n.Store.DBAppliedIndex()
			if g.ok && ph == g.phys {
				g.idx = idx
				continue
			}
			dump, err := s.DumpNode(n)
			if err != nil {
				g.ok = false
				continue
			}
			if g.ok && idx == g.idx && dump != g.dump {
				c.Violate("changed-without-log", "node %d: database content changed although no log entry was applied (db applied index %d): %s",
					i, idx, sim.FirstDiff(g.dump, dump))
			}
			if g.ok && dump != g.dump {
				c.Probe("node_db_changes_observed")
			}
			g.phys, g.idx, g.dump, g.ok = ph, idx, dump, true
		}
	}
	// label inter-node connections by the mux header byte the dialer sends first
	s.Net.Tap = func(from, to *c20SimnetConn, data []byte) {
		if from.IsDialer() && from.Tag == "" && len(data) > 0 {
			from.Tag = fmt.Sprintf("mux%d", data[0])
			to.Tag = from.Tag
		}
	}
	var reqs []*c20Req
	clusterTag := fmt.Sprintf("mux%d", cluster.MuxClusterHeader)
	rstObs := func() {
		for _, r := range reqs {
			if r.done || r.rstLeft <= 0 {
				continue
			}
			for _, h := range s.Net.PendingHeads() {
				if h.C.IsDialer() || h.C.Tag != clusterTag || h.Fin || h.C.RemoteHost() != s.Nodes[r.tgt].HostName {
					continue
				}
				r.rstLeft--
				if r.rstLeft == 0 {
					s.Net.Reset(h.C)
					for _, o := range reqs {
						if !o.done && o.tgt == r.tgt {
							o.faulted = true // the lost response may belong to any request in flight from that node
						}
					}
					c.Fault("response-lost-reset")
					c.Log.Add("%d fault reset of response %s>%s while req%d in flight", s.StepN, h.C.LocalHost(), h.C.RemoteHost(), r.id)
				}
				break
			}
		}
	}
	d.After = []func(){view.observe, guardObs, rstObs}
	// slow leader: responses of the inter-node protocol from the leader to one node
	// are held (raft traffic and new connections are not), see op field Slow
	type c20Hold struct {
		ldr, tgt string
		r        *c20Req
	}
	var holds []c20Hold
	s.Hold = func(p simnet.Pending) bool {
		if len(holds) == 0 || p.C.IsDialer() || p.C.Tag != clusterTag {
			return false
		}
		for _, h := range holds {
			if p.C.LocalHost() == h.ldr && p.C.RemoteHost() == h.tgt {
				return true
			}
		}
		return false
	}
	netBlocked := false

	if !hxSetup(d, view, "CREATE TABLE IF NOT EXISTS t (id INTEGER PRIMARY KEY AUTOINCREMENT, tag TEXT NOT NULL)",
		"INSERT OR IGNORE INTO t(id, tag) VALUES(1, 'init')") {
		c.Discard("schema-failed")
		return
	}
	var ldr *node.Node

	present := []string{"init"} // tags known to be in the table (definite)
	var absent []string         // tags known never to be applied (definite)
	inflight := 0
	var lastFault time.Time
	grace := 2*sc.Knobs.ElectionTimeout + 2*time.Second
	noteFault := func() {
		lastFault = time.Now()
		for _, o := range reqs {
			if !o.done {
				o.faultNear = true
			}
		}
	}
	nextID := 0
	lagN := 0
	apiURL := func(i int) string { return "http://" + s.Nodes[i].HTTPAddr }

	var judge func(r *c20Req)

	pickTags := func() ([]string, map[string]bool) {
		// the most recent definite-present tags (a lag write, if any, is the
		// newest) plus some definitely absent ones
		exp := map[string]bool{}
		var sel []string
		for i := len(present) - 1; i >= 0 && len(sel) < 3; i-- {
			if i == len(present)-1 || c.Rng.Bool(0.6) {
				sel = append(sel, present[i])
				exp[present[i]] = true
			}
		}
		for i := len(absent) - 1; i >= 0 && len(sel) < 5; i-- {
			if c.Rng.Bool(0.5) {
				sel = append(sel, absent[i])
				exp[absent[i]] = false
			}
		}
		sort.Strings(sel)
		return sel, exp
	}

	start := func(op c20Op) *c20Req {
		synctest.Wait()
		view.observe()
		if op.ToLdr {
			if l := view.agreedLeader(); l != nil {
				op.N = l.Idx
			}
		}
		if op.N < 1 || op.N > sc.Nodes || !s.Nodes[op.N].Up || op.Pat == "" {
			return nil
		}
		nextID++
		r := &c20Req{id: nextID, op: op, tgt: op.N, uidx: op.U, outcome: "pending", lastIDs: map[string]int64{}, rstLeft: op.Rst}
		tn := s.Nodes[op.N]
		// lag: only when nothing else is in flight and leadership is agreed
		if op.Lag && inflight == 0 && !netBlocked && len(holds) == 0 {
			if l := view.agreedLeader(); l != nil && l.Idx != op.N {
				lagN++
				tag := fmt.Sprintf("lag%d", lagN)
				var rest []string
				for i := 1; i <= sc.Nodes; i++ {
					if i != op.N {
						rest = append(rest, s.Nodes[i].HostName)
					}
				}
				s.Net.Partition([]string{tn.HostName}, rest)
				ok := false
				d.do("lag-write "+tag, 20*time.Second, func() {
					er := &proto.ExecuteRequest{Request: &proto.Request{Statements: []*proto.Statement{{Sql: "INSERT INTO t(tag) VALUES('" + tag + "')"}}}}
					res, _, err := l.Store.Execute(context.Background(), er)
					ok = err == nil && len(res) == 1 && res[0].GetE() != nil && res[0].GetE().Error == ""
				})
				s.Net.Heal()
				synctest.Wait()
				view.observe()
				if ok {
					present = append(present, tag)
					r.lagged = true
					c.Probe("lagging_follower_requests")
				}
				c.Log.Add("%d lag n%d tag=%s ok=%v", s.StepN, op.N, tag, ok)
			}
		}
		if l := view.agreedLeader(); l != nil {
			r.ldrAtInvoke = l.Idx
			r.c0, _ = l.Store.CommitIndex()
		}
		r.invokeEpoch = view.Epoch
		r.faultNear = netBlocked || (!lastFault.IsZero() && time.Since(lastFault) < grace)
		for _, h := range holds {
			if h.tgt == tn.HostName {
				r.faulted, r.slowed = true, true
			}
		}
		if op.Slow > 0 {
			if l := view.agreedLeader(); l != nil && l.Idx != op.N {
				holds = append(holds, c20Hold{l.HostName, tn.HostName, r})
				r.faulted, r.slowed = true, true
				for _, o := range reqs {
					if !o.done && o.tgt == op.N {
						o.faulted, o.slowed = true, true
					}
				}
				c.Fault("slow-leader-responses")
				c.Log.Add("%d fault responses n%d>n%d held while req%d (timeout %dms) runs", s.StepN, l.Idx, op.N, r.id, op.Slow)
			}
		}
		// statements
		var list []any
		for i := 0; i < len(op.Pat); i++ {
			st := c20Stmt{kind: op.Pat[i]}
			switch op.Pat[i] {
			case 'w':
				st.tag = fmt.Sprintf("q%ds%d", r.id, i)
				if op.Param {
					list = append(list, []any{"INSERT INTO t(tag) VALUES(?)", st.tag})
				} else {
					list = append(list, "INSERT INTO t(tag) VALUES('"+st.tag+"')")
				}
			case 'f':
				list = append(list, fmt.Sprintf("INSERT INTO t(id, tag) VALUES(1, 'dup%d')", r.id))
			case 'r':
				st.sel, st.expect = pickTags()
				q := "SELECT tag, count(*) FROM t WHERE tag IN ('" + strings.Join(st.sel, "','") + "') GROUP BY tag ORDER BY tag"
				list = append(list, q)
			default:
				continue
			}
			r.stmts = append(r.stmts, st)
		}
		if len(r.stmts) == 0 {
			return nil
		}
		// request line
		kv := []string{"timeout", "4s"}
		if op.Slow > 0 {
			kv[1] = fmt.Sprintf("%dms", op.Slow)
		}
		if op.Redirect {
			kv = append(kv, "redirect", "")
		}
		if op.Tx {
			kv = append(kv, "transaction", "")
		}
		if op.RaftIdx {
			kv = append(kv, "raft_index", "")
		}
		if op.Level != "" && op.Kind != "exec" {
			kv = append(kv, "level", op.Level)
		}
		method, ctype := "POST", "application/json"
		var body []byte
		hasW := strings.ContainsAny(op.Pat, "wf")
		lvl := op.Level
		if lvl == "" {
			lvl = "weak"
		}
		switch op.Kind {
		case "exec":
			r.path = "/db/execute"
			r.perms = []string{"execute"}
			r.needLdr = true
			body = hxStmtsJSON(list)
		case "query":
			r.path = "/db/query"
			r.perms = []string{"query"}
			r.needLdr = lvl != "none" && !(lvl == "auto" && sc.NonVoter && op.N == sc.Nodes) // auto = weak on voters, none on a non-voter
			if op.Get && len(list) == 1 {
				method, ctype = "GET", ""
				kv = append(kv, "q", list[0].(string))
			} else {
				body = hxStmtsJSON(list)
			}
		case "request":
			r.path = "/db/request"
			r.perms = []string{"query", "execute"}
			r.needLdr = hasW || (lvl != "none" && !(lvl == "auto" && sc.NonVoter && op.N == sc.Nodes))
			body = hxStmtsJSON(list)
		default:
			return nil
		}
		r.path += hxQuery(kv...)
		switch {
		case op.U > 0 && op.U < len(sc.Users):
			r.user, r.pass = sc.Users[op.U].Name, sc.Users[op.U].Pass
		case op.U < 0:
			r.user, r.pass = "someone", "pw"
		}
		if inflight > 0 {
			r.concurrent = true
			for _, o := range reqs {
				if !o.done {
					o.concurrent = true
				}
			}
		}
		inflight++
		reqs = append(reqs, r)
		t := s.Go(fmt.Sprintf("req%d %s n%d u%d %s", r.id, op.Kind, op.N, op.U, r.path), func() {
			r.resp = hxDo(tn, method, r.path, ctype, body, r.user, r.pass)
		})
		t.OnDone = func() {
			r.done = true
			inflight--
			r.retEpoch = view.Epoch
			for i, h := range holds {
				if h.r == r {
					holds = append(holds[:i], holds[i+1:]...)
					c.Log.Add("%d responses to n%d released", s.StepN, r.tgt)
					break
				}
			}
			if r.ldrAtInvoke != 0 && s.Nodes[r.ldrAtInvoke].Up {
				r.c1, _ = s.Nodes[r.ldrAtInvoke].Store.CommitIndex()
			}
			judge(r)
		}
		if !op.Async {
			d.await(t, 90*time.Second)
		}
		return r
	}

	judge = func(r *c20Req) {
		resp := r.resp
		if resp == nil || resp.Code == 0 {
			r.outcome = "error" // the scenario was already being torn down
			return
		}
		// stable: one agreed leader, no node's view of leadership changed from invoke to
		// return, and no leadership fault was injected during or shortly before (a
		// leadership transfer is "in progress" before any view changes).
		stable := r.ldrAtInvoke != 0 && r.invokeEpoch == r.retEpoch && !r.faultNear
		tgtAllows := sc.allows(r.tgt, r.uidx, r.perms...)
		ldrAllows := r.ldrAtInvoke != 0 && sc.allows(r.ldrAtInvoke, r.uidx, r.perms...)
		atLeader := r.tgt == r.ldrAtInvoke
		desc := fmt.Sprintf("req%d %s %s to n%d (leader n%d, user %q, stable=%v, lagged=%v) -> %d", r.id, r.op.Kind, r.path, r.tgt, r.ldrAtInvoke, r.user, stable, r.lagged, resp.Code)
		c.Log.Add("%d judge %s body=%.300s", s.StepN, desc, strings.TrimSpace(resp.Body))
		if stable {
			c.Probe("requests_stable")
			if !atLeader && r.needLdr {
				c.Probe("stable_to_follower_" + r.op.Kind)
				if sc.NonVoter && r.tgt == sc.Nodes {
					c.Probe("stable_to_non_voter")
				}
			}
		} else {
			c.Probe("requests_while_leadership_moved")
		}
		markAbsent := func() {
			r.outcome = "rejected"
			for _, st := range r.stmts {
				if st.kind == 'w' {
					absent = append(absent, st.tag)
				}
			}
		}
		switch resp.Code {
		case 401:
			c.Probe("got_401")
			markAbsent()
			if !tgtAllows {
				return // refused by the contacted node itself
			}
			if stable {
				switch {
				case atLeader || !r.needLdr:
					c.Violate("unexpected-401", "%s: the contacted node allows the caller and serves the request itself", desc)
				case r.op.Redirect:
					c.Violate("unexpected-401", "%s: redirect requested, expected 301", desc)
				case ldrAllows:
					c.Violate("unexpected-401", "%s: both follower and leader allow the caller", desc)
				default:
					c.Probe("denied_by_leader")
				}
				return
			}
			some := false
			for i := 1; i <= sc.Nodes; i++ {
				if i != r.tgt && !sc.allows(i, r.uidx, r.perms...) {
					some = true
				}
			}
			if !some || !r.needLdr {
				c.Violate("unexpected-401", "%s: no node denies this caller", desc)
			}
		case 301:
			c.Probe("got_301")
			markAbsent()
			if !r.op.Redirect || !r.needLdr || !tgtAllows {
				c.Violate("unexpected-301", "%s: redirect=%v needs-leader=%v contacted-node-allows=%v", desc, r.op.Redirect, r.needLdr, tgtAllows)
				return
			}
			if stable {
				if atLeader {
					c.Violate("unexpected-301", "%s: the leader redirected", desc)
					return
				}
				if want := apiURL(r.ldrAtInvoke) + r.path; resp.Loc != want {
					c.Violate("redirect-location", "%s: Location %q, want %q", desc, resp.Loc, want)
				}
				c.Probe("redirected_by_follower")
				return
			}
			okLoc := false
			for i := 1; i <= sc.Nodes; i++ {
				if resp.Loc == apiURL(i)+r.path {
					okLoc = true
				}
			}
			if !okLoc {
				c.Violate("redirect-location", "%s: Location %q is not the API URL of a cluster node plus the request path/query", desc, resp.Loc)
			}
		case 200:
			if !tgtAllows {
				r.outcome = "error"
				c.Violate("authz-bypass", "%s: the contacted node must refuse this caller", desc)
				return
			}
			if resp.J == nil {
				r.outcome = "error"
				c.Violate("bad-response", "%s: body is not the JSON envelope: %.200s", desc, resp.Body)
				return
			}
			if resp.J.Error != "" {
				r.outcome = "error"
				c.Probe("got_200_with_error")
				if stable && !r.concurrent && !r.faulted {
					c.Violate("stable-error", "%s: error %q although leadership was stable and agreed and nothing else was in flight", desc, resp.J.Error)
				}
				return
			}
			if stable && r.needLdr && !atLeader {
				if r.op.Redirect {
					r.outcome = "error"
					c.Violate("redirect-ignored", "%s: executed although the client asked for a redirect", desc)
					return
				}
				if !ldrAllows {
					r.outcome = "error"
					c.Violate("authz-bypass", "%s: the leader does not allow this caller, yet the forwarded request was executed", desc)
					return
				}
				c.Probe("forwarded_and_executed")
				if r.lagged {
					c.Probe("forwarded_from_lagging_follower")
				}
			}
			if !stable {
				some := false
				for i := 1; i <= sc.Nodes; i++ {
					if sc.allows(i, r.uidx, r.perms...) {
						some = true
					}
				}
				if !some {
					r.outcome = "error"
					c.Violate("authz-bypass", "%s: no node allows this caller", desc)
					return
				}
			}
			r.outcome = "ok"
			c20CheckResults(c, sc, r, desc, stable)
		case 503:
			r.outcome = "error"
			c.Probe("got_503")
			if stable && !r.concurrent && !r.faulted {
				c.Violate("stable-error", "%s: %s although leadership was stable and agreed", desc, strings.TrimSpace(resp.Body))
			}
		default:
			r.outcome = "error"
			c.Probe(fmt.Sprintf("got_%d", resp.Code))
			if !tgtAllows {
				c.Violate("authz-bypass", "%s: the contacted node must answer 401", desc)
				return
			}
			if stable && !r.concurrent && !r.faulted {
				c.Violate("stable-error", "%s: %s although leadership was stable and agreed", desc, strings.TrimSpace(resp.Body))
			}
		}
		if r.outcome == "ok" {
			for _, st := range r.stmts {
				if st.kind == 'w' {
					if r.txAborted() {
						absent = append(absent, st.tag)
					} else {
						present = append(present, st.tag)
					}
				}
			}
		}
	}

	for _, op := range sc.Ops {
		if s.Capped || c.Failed() {
			break
		}
		switch op.K {
		case "req":
			start(op)
		case "stepdown":
			if l := s.Leader(); l != nil {
				c.Fault("stepdown")
				noteFault()
				if inflight > 0 {
					c.Probe("stepdown_with_request_in_flight")
				}
				c.Log.Add("%d fault stepdown n%d", s.StepN, l.Idx)
				ll := l
				s.Go("stepdown", func() { ll.Store.Stepdown(true, "") })
			}
		case "isolate":
			if l := s.Leader(); l != nil {
				var rest []string
				for i := 1; i <= sc.Nodes; i++ {
					if i != l.Idx {
						rest = append(rest, s.Nodes[i].HostName)
					}
				}
				s.Net.Heal()
				netBlocked = true
				s.Net.Partition([]string{l.HostName}, rest)
				c.Fault("isolate-leader")
				noteFault()
				if inflight > 0 {
					c.Probe("isolate_with_request_in_flight")
				}
				c.Log.Add("%d fault isolate n%d", s.StepN, l.Idx)
			}
		case "ackblock":
			// acknowledgements (everything sent to the leader) of all followers but one are held
			if l := view.agreedLeader(); l != nil && !netBlocked {
				var fol []*node.Node
				for i := 1; i <= sc.Nodes; i++ {
					if i != l.Idx && s.Nodes[i].Up && !(sc.NonVoter && i == sc.Nodes) {
						fol = append(fol, s.Nodes[i])
					}
				}
				if len(fol) > 1 {
					keep := fol[op.Keep%len(fol)]
					for _, f := range fol {
						if f != keep {
							s.Net.Block(f.HostName, l.HostName)
						}
					}
					netBlocked = true
					c.Fault("ack-block")
					noteFault()
					c.Log.Add("%d fault only n%d's messages reach leader n%d", s.StepN, keep.Idx, l.Idx)
				}
			}
		case "heal":
			s.Net.Heal()
			netBlocked = false
			c.Fault("heal")
			noteFault()
			c.Log.Add("%d fault heal", s.StepN)
		case "reset":
			seen := map[uint64]bool{}
			var list []*c20SimnetConn
			for i := 1; i <= sc.Nodes; i++ {
				for _, cn := range s.Net.ConnsOf(s.Nodes[i].HostName) {
					if !seen[cn.ID()] {
						seen[cn.ID()] = true
						list = append(list, cn)
					}
				}
			}
			if len(list) > 0 {
				cn := list[op.N%len(list)]
				s.Net.Reset(cn)
				c.Fault("conn-reset")
				if inflight > 0 {
					c.Probe("reset_with_request_in_flight")
				}
				for _, o := range reqs {
					if !o.done {
						o.faulted = true
					}
				}
				c.Log.Add("%d fault reset %s>%s", s.StepN, cn.LocalHost(), cn.RemoteHost())
			}
		case "run":
			d.runFor(time.Duration(op.Ms) * time.Millisecond)
		}
		for i := 0; i < op.Gap && !s.Capped; i++ {
			d.step()
		}
	}
	if c.Failed() {
		return
	}

	// settle: heal, let outstanding requests finish, converge
	s.Net.Heal()
	d.runUntil(func() bool { return inflight == 0 }, 120*time.Second)
	if c.Failed() {
		return
	}
	if inflight > 0 {
		c.Discard("requests-still-pending")
		return
	}
	ldr = hxSettle(d, view, 60*time.Second)
	if ldr == nil {
		c.Discard("no-leader-after-settle")
		return
	}
	// final table through a strong read on the leader (direct store call)
	counts := map[string]int{}
	ids := map[string]int64{}
	vals, okRead := hxStrongRead(d, view, "SELECT id, tag FROM t ORDER BY id")
	for _, v := range vals {
		tag := v.Parameters[1].GetS()
		counts[tag]++
		ids[tag] = v.Parameters[0].GetI()
	}
	if !okRead {
		c.Discard("final-read-failed")
		return
	}
	nOK, nRej, nErr := 0, 0, 0
	for _, r := range reqs {
		ab := r.txAborted()
		applied, total := 0, 0
		for _, st := range r.stmts {
			if st.kind != 'w' {
				continue
			}
			total++
			n := counts[st.tag]
			if n > 1 {
				cls, why := "duplicate-effect", ""
				if r.slowed {
					cls, why = "duplicate-after-response-timeout", " (the leader's response was held beyond the request's timeout while it was in flight)"
				} else if r.faulted {
					cls, why = "duplicate-after-response-reset", " (the inter-node connection carrying its response was reset while it was in flight)"
				}
				c.Violate(cls, "req%d (%s to n%d via %s, outcome %s, http %d)%s: statement tag %s applied %d times", r.id, r.op.Kind, r.tgt, r.path, r.outcome, r.resp.Code, why, st.tag, n)
				return
			}
			applied += n
			switch r.outcome {
			case "ok":
				if ab && n != 0 {
					c.Violate("effect-after-rollback", "req%d: transactional request with a failing statement left row %s", r.id, st.tag)
					return
				}
				if !ab && n != 1 {
					c.Violate("lost-effect", "req%d (%s to n%d via %s): answered 200 without error but row %s is not in the table", r.id, r.op.Kind, r.tgt, r.path, st.tag)
					return
				}
				if !ab {
					if li, ok := r.lastIDs[st.tag]; ok && li != ids[st.tag] {
						c.Violate("result-mismatch", "req%d: last_insert_id %d returned for %s but the row has id %d", r.id, li, st.tag, ids[st.tag])
						return
					}
				}
			case "rejected":
				if n != 0 {
					c.Violate("effect-after-reject", "req%d (%s to n%d via %s) was answered %d but row %s was applied", r.id, r.op.Kind, r.tgt, r.path, r.resp.Code, st.tag)
					return
				}
			}
		}
		if r.outcome == "error" && r.op.Tx && applied != 0 && applied != total {
			c.Violate("partial-transaction", "req%d: transactional request applied %d of %d inserts", r.id, applied, total)
			return
		}
		switch r.outcome {
		case "ok":
			nOK++
		case "rejected":
			nRej++
		default:
			nErr++
			if applied > 0 {
				c.Probe("error_outcome_but_applied")
			}
		}
	}
	c.ProbeN("requests_ok", nOK)
	c.ProbeN("requests_rejected", nRej)
	c.ProbeN("requests_error", nErr)
	// every node holds the same data (nothing reached a database except through
	// the log). Convergence is eventual: a request whose client already got an
	// error may still be committing on the leader, so divergence is reported only
	// if it persists over several settle rounds.
	for round := 0; ; round++ {
		hxSettle(d, view, 60*time.Second)
		var ref, diff string
		for i := 1; i <= sc.Nodes; i++ {
			if !s.Nodes[i].Up {
				continue
			}
			dmp, err := s.DumpNode(s.Nodes[i])
			if err != nil {
				c.Discard("dump-failed")
				return
			}
			if ref == "" {
				ref = dmp
			} else if dmp != ref && diff == "" {
				diff = fmt.Sprintf("node %d differs from node 1 after settle: %s", i, sim.FirstDiff(ref, dmp))
			}
		}
		if diff == "" {
			break
		}
		if round >= 4 {
			c.Violate("nodes-diverged", "%s (persisted over %d settle rounds, %s simulated)", diff, round+1, s.SimTime())
			return
		}
		c.Probe("late_convergence_round")
		d.runFor(5 * time.Second)
	}
	c.Res.Trivial = nOK == 0
	c.Sig(fmt.Sprintf("%d/%d/%d/%d", nOK, nRej, nErr, len(counts)))
}

type c20SimnetConn = simnet.Conn

// c20CheckResults compares a 200/no-error response with the results the
// leader must have produced for exactly this request.
func c20CheckResults(c *core.Ctx, sc c20Scenario, r *c20Req, desc string, stable bool) {
	res := r.resp.J.Results
	// expected number of results
	want := len(r.stmts)
	if r.op.Tx {
		for i, st := range r.stmts {
			if st.kind == 'f' {
				want = i + 1
				break
			}
		}
	}
	if len(res) != want {
		c.Violate("result-mismatch", "%s: %d results, want %d: %.300s", desc, len(res), want, r.resp.Body)
		return
	}
	lvl := r.op.Level
	if lvl == "" {
		lvl = "weak"
	}
	for i := 0; i < want; i++ {
		st := r.stmts[i]
		m := res[i]
		switch st.kind {
		case 'w':
			if e := hxResultErr(m); e != "" {
				c.Violate("result-mismatch", "%s: statement %d (insert %s) returned error %q", desc, i, st.tag, e)
				return
			}
			ra, _ := hxNum(m["rows_affected"])
			li, ok := hxNum(m["last_insert_id"])
			if ra != 1 || !ok || li <= 1 {
				c.Violate("result-mismatch", "%s: statement %d (insert %s) result %v, want rows_affected 1 and the new row id", desc, i, st.tag, m)
				return
			}
			r.lastIDs[st.tag] = li
		case 'f':
			if e := hxResultErr(m); !strings.Contains(e, "UNIQUE constraint failed") {
				c.Violate("result-mismatch", "%s: statement %d (duplicate key) result %v, want the UNIQUE constraint error", desc, i, m)
				return
			}
		case 'r':
			if e := hxResultErr(m); e != "" {
				c.Violate("result-mismatch", "%s: statement %d (select) returned error %q", desc, i, e)
				return
			}
			// values are judged where the level promises the leader's state: strong and
			// linearizable always; weak/auto only under stable leadership (a deposed
			// leader may legitimately serve a weak read); none never (local by design).
			judgeVals := lvl == "strong" || lvl == "linearizable" || (stable && (lvl == "weak" || lvl == "auto") && r.needLdr)
			if r.op.Kind == "request" && strings.ContainsAny(r.op.Pat, "wf") {
				judgeVals = true // goes through the log with the writes
			}
			if !judgeVals {
				continue
			}
			var exp []string
			for _, t := range st.sel {
				if st.expect[t] {
					exp = append(exp, t+"=1")
				}
			}
			var got []string
			for _, row := range hxRows(m) {
				if len(row) == 2 {
					if row[1] != "0" && row[1] != "1" {
						// applied more than once: attributed to the request that wrote
						// it by the final check (class duplicate-effect*)
						c.Probe("read_saw_duplicate_row")
						row[1] = "1"
					}
					got = append(got, row[0]+"="+row[1])
				}
			}
			if strings.Join(got, ",") != strings.Join(exp, ",") {
				cls := "result-mismatch"
				if r.lagged {
					cls = "stale-result"
				}
				c.Violate(cls, "%s: statement %d (select of %v) returned [%s], the leader holds [%s]", desc, i, st.sel, strings.Join(got, ","), strings.Join(exp, ","))
				return
			}
			c.Probe("read_values_checked")
		}
	}
	// raft index
	idx := r.resp.J.RaftIdx
	logged := r.op.Kind == "exec" || (r.op.Kind == "query" && lvl == "strong") ||
		(r.op.Kind == "request" && (strings.ContainsAny(r.op.Pat, "wf") || lvl == "strong"))
	if !r.op.RaftIdx {
		if idx != 0 {
			c.Violate("raft-index", "%s: raft_index %d returned although not requested", desc, idx)
		}
		return
	}
	if logged {
		if idx == 0 {
			c.Violate("raft-index", "%s: raft_index missing for a request that goes through the log", desc)
			return
		}
		if stable && r.c1 != 0 {
			if idx <= r.c0 || idx > r.c1 {
				c.Violate("raft-index", "%s: raft_index %d outside the leader's commit range (%d,%d] spanned by the request", desc, idx, r.c0, r.c1)
				return
			}
			if !r.concurrent && r.c1 == r.c0+1 && idx != r.c1 {
				c.Violate("raft-index", "%s: raft_index %d, the leader committed exactly index %d for it", desc, idx, r.c1)
				return
			}
			c.Probe("raft_index_checked")
		}
	} else if lvl != "linearizable" && idx != 0 {
		c.Violate("raft-index", "%s: raft_index %d for a request that does not go through the log", desc, idx)
	}
}

func init() {
	core.Register(&core.Prop{ID: "C20", Bubble: true, Gen: c20Gen, Run: c20Run})
}
