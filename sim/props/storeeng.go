package props

// Shared machinery of the store-level crash/rebuild checks (C03, C04): the
// verifhook dispatcher (occurrence counting, crash images taken inside a hook,
// one-shot error injection), teardown/restart of a node from an image, the
// table model and the dump parser.

import (
	"context"
	"database/sql"
	"encoding/hex"
	"errors"
	"expvar"
	"fmt"
	"math/rand"
	"os"
	"path/filepath"
	"sort"
	"strconv"
	"strings"
	"sync"
	"time"

	_ "github.com/mattn/go-sqlite3"
	"github.com/rqlite/rqlite/v10/command/proto"
	"github.com/rqlite/rqlite/v10/store"
	"github.com/rqlite/rqlite/v10/verifx"
	"verifsim/core"
	"verifsim/node"
	"verifsim/seeded"
	"verifsim/sim"
	"verifsim/simclock"
)

// ---------------------------------------------------------------- hooks

// hookCtl is the handler behind verifhook.Hit for one history. Everything it
// decides is a function of the order in which rqlite reaches the hook points,
// which is deterministic under the simulator.
type hookCtl struct {
	mu      sync.Mutex
	c       *core.Ctx
	armed   bool
	seq     []string // counted occurrences, in order
	crashAt int      // 1-based occurrence at which onCrash runs; 0 = never
	crashed bool
	crashPt string
	onCrash func(point string)
	errNext map[string]error // one-shot error at the next occurrence of a point
	errHits map[string]int
	logHits bool
}

func newHookCtl(c *core.Ctx) *hookCtl {
	return &hookCtl{c: c, errNext: map[string]error{}, errHits: map[string]int{}, logHits: true}
}

func (h *hookCtl) install() { verifx.InstallHooks(h.hit, nil, nil, nil, nil) }
func unhook()               { verifx.ResetHooks() }

func (h *hookCtl) hit(point string) error {
	h.mu.Lock()
	defer h.mu.Unlock()
	if !h.armed {
		return nil
	}
	if e, ok := h.errNext[point]; ok {
		delete(h.errNext, point)
		h.errHits[point]++
		h.c.Fault("err@" + point)
		logf(h.c, "hook %s: injected error", point)
		return e
	}
	if h.crashed {
		return nil
	}
	h.seq = append(h.seq, point)
	if h.logHits {
		logf(h.c, "hook %d %s", len(h.seq), point)
	}
	if h.crashAt > 0 && len(h.seq) == h.crashAt {
		h.crashed = true
		h.crashPt = point
		logf(h.c, "CRASH at hook %d %s", len(h.seq), point)
		h.onCrash(point)
	}
	return nil
}

// rearm starts a fresh count (used for the restart phase: second crash).
func (h *hookCtl) rearm(crashAt int, onCrash func(string)) {
	h.mu.Lock()
	defer h.mu.Unlock()
	h.seq = nil
	h.crashAt = crashAt
	h.crashed = false
	h.crashPt = ""
	h.onCrash = onCrash
}

var errInjected = errors.New("verif: injected I/O error")

// reseed puts every seedable source of randomness back to the state a fresh
// run with this seed has, so that several histories inside one run behave the
// same as the first one.
func reseed(seed uint64) {
	rand.Seed(int64(seed))
	seeded.Seed(seed)
	simclock.SeedSQLite(uint32(seed>>7) | 1)
}

// ---------------------------------------------------------------- node helpers

func storeStat(name string) int64 {
	m, _ := expvar.Get("store").(*expvar.Map)
	if m == nil {
		return 0
	}
	v, _ := m.Get(name).(*expvar.Int)
	if v == nil {
		return 0
	}
	return v.Value()
}

// tearDownTo stops the (logically dead) instance of n off to the side and puts
// the image at the node's path. Whatever the old instance still writes goes to
// the old directory, which is discarded.
func tearDownTo(s *sim.Sim, n *node.Node, img string) error {
	n.Up = false
	n.Net.HostDown(n.HostName)
	st := n.Store
	st.NoSnapshotOnClose = true
	if n.OnStop != nil {
		n.OnStop(n)
	}
	var err error
	ok := s.Do("teardown-"+n.ID, 300*time.Second, func() {
		n.Svc.Close()
		n.MuxLn.Close()
		n.Mux.Close()
		st.Close(true) // best effort; result discarded
		if err = os.RemoveAll(n.Dir); err != nil {
			return
		}
		err = os.Rename(img, n.Dir)
	})
	if !ok {
		return fmt.Errorf("teardown of %s did not finish", n.ID)
	}
	return err
}

// startNode starts n on its directory; crcBad is set when rqlite's start-up
// CRC check of the clean-snapshot fingerprint failed (production: removes the
// fingerprint and exits, "restarting is safe").
func startNode(s *sim.Sim, n *node.Node, crcBad *bool) error {
	n.Extra = func(n *node.Node) error {
		n.Store.SetCRCBadHandlerVerif(func(fp, actual uint32) {
			if crcBad != nil {
				*crcBad = true
			}
		})
		return nil
	}
	var err error
	ok := s.Do("start-"+n.ID, 300*time.Second, func() { err = n.Start() })
	if !ok {
		return fmt.Errorf("start of %s did not finish", n.ID)
	}
	return err
}

// settle waits until n leads and has applied everything in its log.
func settle(s *sim.Sim, n *node.Node) error {
	var err error
	ok := s.Do("settle-"+n.ID, 120*time.Second, func() {
		if _, err = n.Store.WaitForLeader(60 * time.Second); err != nil {
			return
		}
		for i := 0; i < 200; i++ {
			if err = n.Store.Barrier(); err == nil {
				return
			}
			time.Sleep(100 * time.Millisecond)
		}
	})
	if !ok {
		return fmt.Errorf("settle of %s did not finish", n.ID)
	}
	return err
}

func execStmts(n *node.Node, stmts []string, tx bool) error {
	er := &proto.ExecuteRequest{Request: &proto.Request{Transaction: tx}}
	for _, q := range stmts {
		er.Request.Statements = append(er.Request.Statements, &proto.Statement{Sql: q})
	}
	res, _, err := n.Store.Execute(context.Background(), er)
	if err != nil {
		return err
	}
	for _, r := range res {
		if r.GetError() != "" {
			return errors.New(r.GetError())
		}
		if e := r.GetE(); e != nil && e.Error != "" {
			return errors.New(e.Error)
		}
	}
	return nil
}

// ---------------------------------------------------------------- table model

const tblSchema = "CREATE TABLE t (id INTEGER PRIMARY KEY AUTOINCREMENT, v INTEGER NOT NULL, pad BLOB)"

type mrow struct {
	V   int64
	Pad int
}

func padBytes(v int64, n int) []byte { return core.NewRand(uint64(v) * 2654435761).Bytes(n) }

func insertSQL(r mrow) string {
	return fmt.Sprintf("INSERT INTO t(v,pad) VALUES(%d,X'%s')", r.V, hex.EncodeToString(padBytes(r.V, r.Pad)))
}

// makeLoadDB builds a standalone SQLite database holding table t with the
// given rows (ids 1..n) and returns its bytes.
func makeLoadDB(dir string, tag int, rows []mrow) ([]byte, error) {
	p := filepath.Join(dir, fmt.Sprintf("load-%d.sqlite", tag))
	os.Remove(p)
	db, err := sql.Open("sqlite3", "file:"+p)
	if err != nil {
		return nil, err
	}
	db.SetMaxOpenConns(1)
	defer os.Remove(p)
	if _, err := db.Exec(tblSchema); err != nil {
		db.Close()
		return nil, err
	}
	for _, r := range rows {
		if _, err := db.Exec(insertSQL(r)); err != nil {
			db.Close()
			return nil, err
		}
	}
	if err := db.Close(); err != nil {
		return nil, err
	}
	return os.ReadFile(p)
}

type drow struct {
	ID, V int64
	Pad   string // hex
}

// parseT extracts table t's rows (ordered by id) from a dump.
func parseT(dump string) ([]drow, bool, error) {
	var out []drow
	has := false
	for _, l := range strings.Split(dump, "\n") {
		if strings.HasPrefix(l, "T|t|") {
			has = true
		}
		if !strings.HasPrefix(l, "R|t|") {
			continue
		}
		f := strings.Split(l[4:], "|")
		if len(f) != 3 || !strings.HasPrefix(f[0], "I") || !strings.HasPrefix(f[1], "I") {
			return nil, has, fmt.Errorf("unexpected row %q", stTrunc(l, 120))
		}
		id, e1 := strconv.ParseInt(f[0][1:], 10, 64)
		v, e2 := strconv.ParseInt(f[1][1:], 10, 64)
		if e1 != nil || e2 != nil {
			return nil, has, fmt.Errorf("unexpected row %q", stTrunc(l, 120))
		}
		pad := ""
		switch {
		case strings.HasPrefix(f[2], "B"):
			pad = f[2][1:]
		case f[2] == "N":
		default:
			return nil, has, fmt.Errorf("unexpected pad in row %q", stTrunc(l, 120))
		}
		out = append(out, drow{id, v, pad})
	}
	sort.Slice(out, func(i, j int) bool { return out[i].ID < out[j].ID })
	return out, has, nil
}

func stTrunc(s string, n int) string {
	if len(s) > n {
		return s[:n] + "..."
	}
	return s
}

// matchModel reports "" when the dump's table t is exactly the model rows with
// ids 1..n in order, else a description of the first difference.
func matchModel(rows []drow, model []mrow) string {
	for i := 0; i < len(rows) || i < len(model); i++ {
		switch {
		case i >= len(rows):
			return fmt.Sprintf("row %d (v=%d) missing: database has %d rows, model %d", i+1, model[i].V, len(rows), len(model))
		case i >= len(model):
			return fmt.Sprintf("extra row id=%d v=%d: database has %d rows, model %d", rows[i].ID, rows[i].V, len(rows), len(model))
		case rows[i].ID != int64(i+1) || rows[i].V != model[i].V:
			return fmt.Sprintf("position %d: database has id=%d v=%d, model id=%d v=%d", i+1, rows[i].ID, rows[i].V, i+1, model[i].V)
		case rows[i].Pad != hex.EncodeToString(padBytes(model[i].V, model[i].Pad)):
			return fmt.Sprintf("row id=%d v=%d: pad differs (len %d, model %d)", rows[i].ID, rows[i].V, len(rows[i].Pad)/2, model[i].Pad)
		}
	}
	return ""
}

func modelSig(m []mrow) string {
	if len(m) == 0 {
		return "0"
	}
	return fmt.Sprintf("%d:%d..%d", len(m), m[0].V, m[len(m)-1].V)
}

// removeFingerprint deletes the clean-snapshot fingerprint of a (stopped)
// node directory, forcing the next open down the rebuild path.
func removeFingerprint(dir string) bool {
	p := filepath.Join(dir, "clean_snapshot")
	if _, err := os.Stat(p); err != nil {
		return false
	}
	os.Remove(p)
	return true
}

func snapDirs(dir string) (n int, staged int) {
	es, _ := os.ReadDir(filepath.Join(dir, "wsnapshots"))
	for _, e := range es {
		if e.IsDir() && !strings.HasSuffix(e.Name(), ".tmp") {
			n++
		}
	}
	ws, _ := filepath.Glob(filepath.Join(dir, "wal-staging", "*.wal"))
	return n, len(ws)
}

var _ = store.ErrNotOpen

// clean removes the run's scratch directory (which differs between processes)
// from a message, so that violation details and log lines are replayable.
func clean(c *core.Ctx, s string) string { return strings.ReplaceAll(s, c.Dir, "<dir>") }

func stViolate(c *core.Ctx, class, format string, a ...any) {
	c.Violate(class, "%s", clean(c, fmt.Sprintf(format, a...)))
}

func logf(c *core.Ctx, format string, a ...any) {
	c.Log.Add("%s", clean(c, fmt.Sprintf(format, a...)))
}

// snapStoreInfo describes a node's snapshot store: the raft index of the newest
// snapshot directory (names are term-index-millis), whether some snapshot
// directory holds a database file together with WAL files (an installed
// snapshot), and a signature of the directory tree (names and sizes).
func snapStoreInfo(dir string) (newest uint64, dbWithWAL bool, sig string) {
	root := filepath.Join(dir, "wsnapshots")
	es, _ := os.ReadDir(root)
	var best [3]uint64
	var sb strings.Builder
	for _, e := range es {
		if !e.IsDir() || strings.HasSuffix(e.Name(), ".tmp") {
			continue
		}
		var k [3]uint64
		if n, _ := fmt.Sscanf(e.Name(), "%d-%d-%d", &k[0], &k[1], &k[2]); n != 3 {
			continue
		}
		if k[0] > best[0] || (k[0] == best[0] && (k[1] > best[1] || (k[1] == best[1] && k[2] >= best[2]))) {
			best = k
		}
		fs, _ := os.ReadDir(filepath.Join(root, e.Name()))
		hasDB, hasWAL := false, false
		fmt.Fprintf(&sb, "%d-%d:", k[0], k[1])
		for _, f := range fs {
			fi, err := f.Info()
			if err != nil {
				continue
			}
			fmt.Fprintf(&sb, "%s=%d,", f.Name(), fi.Size())
			hasDB = hasDB || f.Name() == "data.db"
			hasWAL = hasWAL || strings.HasSuffix(f.Name(), ".wal")
		}
		sb.WriteString(";")
		dbWithWAL = dbWithWAL || (hasDB && hasWAL)
	}
	return best[1], dbWithWAL, sb.String()
}
