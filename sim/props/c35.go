package props

import (
	"encoding/hex"
	"encoding/json"
	"fmt"
	"strconv"
	"strings"
	"time"

	command "github.com/rqlite/rqlite/v10/command/proto"
	"google.golang.org/protobuf/encoding/protowire"
	"verifsim/core"
	"verifsim/hostile"
	"verifsim/node"
	"verifsim/sim"
)

// C35: no sequence of bytes sent to the inter-node port crashes the node,
// costs it more memory than the client actually sent, or changes its state
// without passing the permission checks; malformed requests are rejected by
// closing the connection or returning an error.

// c35Frame is one length-prefixed unit of a hostile stream.
type c35Frame struct {
	Cmd   string `json:"cmd,omitempty"`   // well-formed command kind; "" = the payload is Body
	Var   string `json:"var,omitempty"`   // ok | nil | empty | mismatch
	Cmd2  string `json:"cmd2,omitempty"`  // mismatch: kind of the payload
	Type  *int32 `json:"type,omitempty"`  // override of the command type number
	Voter bool   `json:"voter,omitempty"` // join
	User  int    `json:"u,omitempty"`
	Pres  string `json:"pres,omitempty"`
	Len   string `json:"len,omitempty"`   // declared length (decimal uint64) instead of the real one
	NoLen bool   `json:"nolen,omitempty"` // no length prefix at all
	Body  string `json:"body,omitempty"`  // hex payload when Cmd == ""
	Cut   int    `json:"cut,omitempty"`   // keep only the first Cut bytes of the encoded frame
}

type c35Op struct {
	Kind     string     `json:"kind"` // label of the generator that made it
	Node     int        `json:"n"`    // target (0 = leader)
	Hdr      int        `json:"hdr"`  // mux header byte; -1 = none
	Frames   []c35Frame `json:"frames,omitempty"`
	Parts    []int      `json:"parts,omitempty"`  // sizes of the successive writes (remainder in the last)
	GapMs    []int      `json:"gap_ms,omitempty"` // simulated pause before write i
	End      string     `json:"end,omitempty"`    // fin | stall | rst | close
	EndGapMs int        `json:"end_gap_ms,omitempty"`
}

type c35Scenario struct {
	Seed  uint64        `json:"seed"`
	Nodes int           `json:"nodes"`
	Creds hostile.Creds `json:"creds,omitempty"` // empty = no credential store configured
	Tick  float64       `json:"tick"`
	Split float64       `json:"split"`
	Ops   []c35Op       `json:"ops"`
	Gen   *uint64       `json:"gen_seed,omitempty"`
}

var c35Oversize = []string{"9223372036854775808", "18446744073709551615", "9223372036854775807", "4611686018427387904",
	"281474976710656", "1099511627776", "4294967296", "2147483648", "1073741824", "268435456", "67108864"}

// kinds whose well-formed, authorised execution changes what C35 calls state
var c35Mutating = map[string]bool{"execute": true, "request": true, "load": true, "join": true, "remove": true}

// kinds safe to use as raw material of malformed streams when no credential store is configured
var c35Harmless = []string{"meta", "query", "backup", "backup_stream", "load_chunk", "hwm", "notify"}

const c35GenSQL = "INSERT INTO " + hostile.MarkTable + "(v) VALUES('" + hostile.MarkNew + "-raw')"

func c35GenParams() hostile.Params {
	return hostile.Params{SQL: c35GenSQL, Query: c18Select, Level: command.ConsistencyLevel_NONE,
		Image: []byte("SQLite format 3\x00 not really"), ID: "ghostraw", Addr: "10.0.0.77:4002"}
}

// genBase picks a command kind and presentation that cannot legitimately
// change state, for use as the raw material of a malformed stream.
func c35GenBase(r *core.Rand, creds hostile.Creds) (kind, pres string, user int) {
	if len(creds) == 0 {
		return c35Harmless[r.Intn(len(c35Harmless))], "none", 0
	}
	kind = hostile.PeerKinds[r.Intn(len(hostile.PeerKinds))]
	user = r.Intn(len(creds))
	pres = hostile.Presentations[r.Intn(len(hostile.Presentations))]
	u, p, _ := creds.Present(user, pres)
	if c35Mutating[kind] || kind == "stepdown" {
		if creds.Authorized(u, p, hostile.PeerNeed(kind, true)) || creds.Authorized(u, p, hostile.PeerNeed(kind, false)) {
			pres = "wrong"
		}
	}
	return kind, pres, user
}

func c35RawCommand(r *core.Rand, creds hostile.Creds) []byte {
	kind, pres, user := c35GenBase(r, creds)
	u, p, present := creds.Present(user, pres)
	variant := []string{"ok", "ok", "empty", "nil"}[r.Intn(4)]
	return hostile.Build(kind, variant, "", nil, u, p, present, c35GenParams())
}

// c35ProtoFuzz builds bytes that look like protobuf but are not a sane Command.
func c35ProtoFuzz(r *core.Rand) []byte {
	var b []byte
	n := r.Range(1, 6)
	for i := 0; i < n; i++ {
		num := protowire.Number(r.Range(1, 15))
		switch r.Intn(6) {
		case 0:
			b = protowire.AppendTag(b, num, protowire.VarintType)
			b = protowire.AppendVarint(b, r.Uint64()>>uint(r.Intn(64)))
		case 1:
			b = protowire.AppendTag(b, num, protowire.BytesType)
			b = protowire.AppendBytes(b, r.Bytes(r.Intn(40)))
		case 2: // length-delimited field that claims more than is there
			b = protowire.AppendTag(b, num, protowire.BytesType)
			b = protowire.AppendVarint(b, uint64(r.Range(50, 1<<30)))
			b = append(b, r.Bytes(r.Intn(20))...)
		case 3: // nested garbage inside a request field
			inner := c35ProtoFuzzInner(r, 3)
			b = protowire.AppendTag(b, num, protowire.BytesType)
			b = protowire.AppendBytes(b, inner)
		case 4: // deprecated group wire types
			b = protowire.AppendTag(b, num, protowire.StartGroupType)
			if r.Bool(0.5) {
				b = protowire.AppendTag(b, num, protowire.EndGroupType)
			}
		case 5:
			b = protowire.AppendTag(b, num, protowire.Fixed64Type)
			b = protowire.AppendFixed64(b, r.Uint64())
		}
	}
	return b
}

func c35ProtoFuzzInner(r *core.Rand, depth int) []byte {
	var b []byte
	for i := r.Range(1, 4); i > 0; i-- {
		num := protowire.Number(r.Range(1, 8))
		if depth > 0 && r.Bool(0.5) {
			b = protowire.AppendTag(b, num, protowire.BytesType)
			b = protowire.AppendBytes(b, c35ProtoFuzzInner(r, depth-1))
		} else if r.Bool(0.5) {
			b = protowire.AppendTag(b, num, protowire.VarintType)
			b = protowire.AppendVarint(b, r.Uint64())
		} else {
			b = protowire.AppendTag(b, num, protowire.BytesType)
			b = protowire.AppendBytes(b, r.Bytes(r.Intn(12)))
		}
	}
	return b
}

// c35RaftBomb builds the start of a raft RPC (type byte + msgpack) whose
// msgpack length fields announce far more than follows: the inter-node port
// hands connections that start with the raft header byte to raft's transport,
// so its decoder is reachable by any client too.
func c35RaftBomb(r *core.Rand) []byte {
	str := func(s string) []byte { return append([]byte{0xa0 | byte(len(s))}, s...) }
	be32 := func(v uint32) []byte { return []byte{byte(v >> 24), byte(v >> 16), byte(v >> 8), byte(v)} }
	size := []uint32{0xffffffff, 0x7fffffff, 0x40000000, 0x10000000, 0x04000000}[r.Intn(5)]
	var b []byte
	switch r.Intn(8) {
	case 0: // AppendEntries{Entries: array32 of "size" elements}
		b = append([]byte{0, 0x81}, str("Entries")...)
		b = append(append(b, 0xdd), be32(size)...)
	case 1: // AppendEntries{Leader: bin32 of "size" bytes}
		b = append([]byte{0, 0x81}, str("Leader")...)
		b = append(append(b, 0xc6), be32(size)...)
	case 2: // AppendEntries{Entries: [ {Data: bin32 huge} ]}
		b = append([]byte{0, 0x81}, str("Entries")...)
		b = append(b, 0x91, 0x81)
		b = append(b, str("Data")...)
		b = append(append(b, 0xc6), be32(size)...)
	case 3: // InstallSnapshot{Size: huge} and no data
		b = append([]byte{2, 0x81}, str("Size")...)
		b = append(b, 0xd3, 0x7f, 0xff, 0xff, 0xff, 0xff, 0xff, 0xff, 0xff)
	case 4: // InstallSnapshot{Peers: bin32 huge}
		b = append([]byte{2, 0x81}, str("Peers")...)
		b = append(append(b, 0xc6), be32(size)...)
	case 5: // RequestVote{Candidate: bin32 huge}
		b = append([]byte{1, 0x81}, str("Candidate")...)
		b = append(append(b, 0xc6), be32(size)...)
	case 6: // map32 announcing "size" entries
		b = append([]byte{byte(r.Intn(5)), 0xdf}, be32(size)...)
	case 7: // a key that is a str32 of "size" bytes
		b = append([]byte{byte(r.Intn(5)), 0x81, 0xdb}, be32(size)...)
	}
	return append(b, r.Bytes(r.Intn(24))...)
}

func c35Mutate(r *core.Rand, b []byte) []byte {
	b = append([]byte(nil), b...)
	for k := r.Range(1, 4); k > 0 && len(b) > 0; k-- {
		i := r.Intn(len(b))
		switch r.Intn(4) {
		case 0:
			b[i] ^= 1 << uint(r.Intn(8))
		case 1:
			b[i] = byte(r.Intn(256))
		case 2:
			b = append(b[:i], b[i+1:]...)
		case 3:
			b = append(b[:i], append([]byte{byte(r.Intn(256))}, b[i:]...)...)
		}
	}
	return b
}

func c35GenOp(r *core.Rand, sc *c35Scenario) c35Op {
	op := c35Op{Hdr: hostile.HdrCluster, Node: r.Intn(sc.Nodes + 1), End: "fin"}
	kinds := []string{"valid", "nil", "empty", "mismatch", "badtype", "oversize", "shortlen", "longlen", "random", "wronghdr",
		"rafthdr", "trunc", "slow", "nohdr", "mutated", "protofuzz", "pipeline", "stall", "raftbomb"}
	weights := []int{10, 10, 8, 5, 4, 9, 4, 4, 6, 3, 5, 6, 4, 2, 8, 6, 5, 2, 5}
	op.Kind = kinds[r.Weighted(weights)]
	pickUser := func() (int, string) {
		if len(sc.Creds) == 0 {
			return 0, "none"
		}
		return r.Intn(len(sc.Creds)), hostile.Presentations[r.Intn(len(hostile.Presentations))]
	}
	anyKind := func() string { return hostile.PeerKinds[r.Intn(len(hostile.PeerKinds))] }
	switch op.Kind {
	case "valid":
		u, p := pickUser()
		op.Frames = []c35Frame{{Cmd: anyKind(), Var: "ok", User: u, Pres: p, Voter: r.Bool(0.5)}}
	case "nil":
		u, p := pickUser()
		op.Frames = []c35Frame{{Cmd: anyKind(), Var: "nil", User: u, Pres: p}}
	case "empty":
		u, p := pickUser()
		op.Frames = []c35Frame{{Cmd: anyKind(), Var: "empty", User: u, Pres: p}}
	case "mismatch":
		u, p := pickUser()
		k, k2 := anyKind(), anyKind()
		for k2 == k || k2 == "meta" || (k == "backup" && k2 == "backup_stream") || (k == "backup_stream" && k2 == "backup") {
			k2 = anyKind()
		}
		if c35Mutating[k2] {
			k2 = "query"
			if k == "query" {
				k2 = "hwm"
			}
		}
		op.Frames = []c35Frame{{Cmd: k, Var: "mismatch", Cmd2: k2, User: u, Pres: p}}
	case "badtype":
		t := []int32{0, 14, 15, 99, 1 << 20, 2147483647, -1, -2147483648}[r.Intn(8)]
		k, pr, us := c35GenBase(r, sc.Creds)
		op.Frames = []c35Frame{{Cmd: k, Var: []string{"ok", "nil"}[r.Intn(2)], Type: &t, User: us, Pres: pr}}
	case "oversize":
		f := c35Frame{Len: c35Oversize[r.Intn(len(c35Oversize))], Body: hex.EncodeToString(r.Bytes(r.Intn(64)))}
		if r.Bool(0.4) {
			f.Body = hex.EncodeToString(c35RawCommand(r, sc.Creds))
		}
		op.Frames = []c35Frame{f}
		op.End = []string{"fin", "fin", "stall", "rst"}[r.Intn(4)]
		op.EndGapMs = r.Range(1, 200)
	case "shortlen":
		raw := c35RawCommand(r, sc.Creds)
		l := r.Intn(len(raw) + 1)
		op.Frames = []c35Frame{{Len: strconv.Itoa(l), Body: hex.EncodeToString(raw)}}
	case "longlen":
		raw := c35RawCommand(r, sc.Creds)
		op.Frames = []c35Frame{{Len: strconv.Itoa(len(raw) + r.Range(1, 5000)), Body: hex.EncodeToString(raw)}}
		op.End = []string{"fin", "stall"}[r.Intn(2)]
	case "random":
		op.Frames = []c35Frame{{NoLen: true, Body: hex.EncodeToString(r.Bytes(r.Range(1, 600)))}}
	case "wronghdr":
		op.Hdr = []int{0, 3, 4, 22, 71, 80, 255}[r.Intn(7)] // 22 = TLS handshake record, 71/80 = 'G'/'P' of an HTTP request
		op.Frames = []c35Frame{{NoLen: true, Body: hex.EncodeToString(r.Bytes(r.Intn(300)))}}
	case "rafthdr":
		op.Hdr = hostile.HdrRaft
		b := r.Bytes(r.Range(1, 400))
		if r.Bool(0.7) {
			b[0] = byte(r.Intn(6)) // a known raft RPC type byte followed by garbage instead of msgpack
		}
		op.Frames = []c35Frame{{NoLen: true, Body: hex.EncodeToString(b)}}
	case "raftbomb":
		op.Hdr = hostile.HdrRaft
		op.Frames = []c35Frame{{NoLen: true, Body: hex.EncodeToString(c35RaftBomb(r))}}
		op.End = []string{"fin", "fin", "rst"}[r.Intn(3)]
		op.EndGapMs = r.Range(1, 200)
	case "trunc":
		raw := hostile.Frame(c35RawCommand(r, sc.Creds))
		op.Frames = []c35Frame{{NoLen: true, Body: hex.EncodeToString(raw[:r.Intn(len(raw))])}}
		op.End = []string{"fin", "rst", "stall", "close"}[r.Intn(4)]
		op.EndGapMs = r.Range(1, 200)
	case "slow":
		u, p := pickUser()
		k := []string{"meta", "query", "backup", "execute"}[r.Intn(4)]
		op.Frames = []c35Frame{{Cmd: k, Var: "ok", User: u, Pres: p}}
		n := r.Range(2, 6)
		for i := 0; i < n; i++ {
			op.Parts = append(op.Parts, r.Range(1, 12))
			g := r.Range(0, 2000)
			if r.Bool(0.15) {
				g = r.Range(29000, 33000) // around the node's read timeout
			}
			op.GapMs = append(op.GapMs, g)
		}
		op.GapMs = append(op.GapMs, r.Range(0, 500))
	case "nohdr":
		op.Hdr = -1
		op.End = []string{"fin", "stall", "close"}[r.Intn(3)]
	case "mutated":
		op.Frames = []c35Frame{{Body: hex.EncodeToString(c35Mutate(r, c35RawCommand(r, sc.Creds)))}}
	case "protofuzz":
		op.Frames = []c35Frame{{Body: hex.EncodeToString(c35ProtoFuzz(r))}}
	case "pipeline":
		n := r.Range(2, 5)
		for i := 0; i < n; i++ {
			switch r.Intn(4) {
			case 0:
				u, p := pickUser()
				op.Frames = append(op.Frames, c35Frame{Cmd: []string{"meta", "query", "backup", "backup_stream", "hwm"}[r.Intn(5)], Var: "ok", User: u, Pres: p})
			case 1:
				k, pr, us := c35GenBase(r, sc.Creds)
				op.Frames = append(op.Frames, c35Frame{Cmd: k, Var: []string{"nil", "empty"}[r.Intn(2)], User: us, Pres: pr})
			case 2:
				op.Frames = append(op.Frames, c35Frame{Body: hex.EncodeToString(c35Mutate(r, c35RawCommand(r, sc.Creds)))})
			case 3:
				op.Frames = append(op.Frames, c35Frame{Body: hex.EncodeToString(c35ProtoFuzz(r))})
			}
		}
	case "stall":
		// a complete valid request, then silence: the node must go on serving others and drop the idle connection itself
		u, p := pickUser()
		op.Frames = []c35Frame{{Cmd: []string{"meta", "query"}[r.Intn(2)], Var: "ok", User: u, Pres: p}}
		op.End = "stall"
	}
	if r.Bool(0.15) && len(op.Parts) == 0 && op.Kind != "nohdr" {
		// deliver in several small writes
		for i := r.Range(1, 4); i > 0; i-- {
			op.Parts = append(op.Parts, r.Range(1, 9))
		}
	}
	return op
}

func c35Gen(r *core.Rand, tier string) any {
	sc := &c35Scenario{Seed: r.Uint64(), Nodes: 1}
	if r.Bool(0.3) {
		sc.Nodes = 3
	}
	if r.Bool(0.5) {
		sc.Creds = genCreds(r)
	}
	sc.Tick = []float64{0.02, 0.08, 0.2}[r.Intn(3)]
	if r.Bool(0.3) {
		sc.Split = 0.1
	}
	n := r.Range(30, 60)
	for i := 0; i < n; i++ {
		sc.Ops = append(sc.Ops, c35GenOp(r, sc))
	}
	return sc
}

// c35Encode turns an op into the bytes to write. It also reports what the op
// is entitled to: strict = every frame is a complete well-formed command sent
// in the regular framing; mayChange = one of them is an authorised request
// whose purpose is to change database or configuration.
func c35Encode(e *hostile.Env, i int, op c35Op) (wire []byte, strict, mayChange bool, desc string) {
	if op.Hdr >= 0 {
		wire = append(wire, byte(op.Hdr))
	}
	strict = op.Hdr == hostile.HdrCluster && len(op.Frames) > 0
	var ds []string
	for j, f := range op.Frames {
		var payload []byte
		if f.Cmd != "" {
			variant := f.Var
			if variant == "" {
				variant = "ok"
			}
			user, pass, present := e.Creds.Present(f.User, f.Pres)
			p := hostile.Params{Query: c18Select, Level: command.ConsistencyLevel_NONE, Image: e.Image,
				SQL: "INSERT INTO " + hostile.MarkTable + "(v) VALUES('" + e.Fresh() + "')",
				ID:  fmt.Sprintf("ghost%d-%d", i, j), Addr: fmt.Sprintf("10.0.0.%d:4002", 60+(i+j)%100), Voter: f.Voter}
			if f.Cmd == "remove" {
				p.ID = "ghost-not-there"
			}
			if f.Cmd == "join" && e.N == 1 {
				p.Voter = false // a ghost voter would cost a single node its quorum
			}
			payload = hostile.Build(f.Cmd, variant, f.Cmd2, f.Type, user, pass, present, p)
			wellformed := variant == "ok" && f.Type == nil && f.Len == "" && !f.NoLen && f.Cut == 0
			if !wellformed {
				strict = false
			} else if c35Mutating[f.Cmd] && e.Creds.Authorized(user, pass, hostile.PeerNeed(f.Cmd, p.Voter)) {
				mayChange = true
			}
			ds = append(ds, fmt.Sprintf("%s/%s/%s", f.Cmd, variant, f.Pres))
		} else {
			payload, _ = hex.DecodeString(f.Body)
			strict = false
			ds = append(ds, fmt.Sprintf("raw%d", len(payload)))
		}
		var enc []byte
		switch {
		case f.NoLen:
			enc = payload
		case f.Len != "":
			l, _ := strconv.ParseUint(f.Len, 10, 64)
			enc = hostile.FrameLen(l, payload)
			ds[len(ds)-1] += "/len=" + f.Len
		default:
			enc = hostile.Frame(payload)
		}
		if f.Cut > 0 && f.Cut < len(enc) {
			enc = enc[:f.Cut]
		}
		wire = append(wire, enc...)
	}
	return wire, strict, mayChange, strings.Join(ds, "+")
}

func c35Chunks(wire []byte, parts []int) [][]byte {
	var out [][]byte
	for _, p := range parts {
		if p <= 0 || p >= len(wire) {
			break
		}
		out = append(out, wire[:p])
		wire = wire[p:]
	}
	return append(out, wire)
}

func c35Run(c *core.Ctx, raw json.RawMessage) {
	var sc c35Scenario
	if err := json.Unmarshal(raw, &sc); err != nil {
		panic(err)
	}
	if sc.Gen != nil {
		sc = *(c35Gen(core.NewRand(*sc.Gen), c.Tier).(*c35Scenario))
	}
	c.Rng = core.NewRand(sc.Seed)
	s := sim.New(c)
	s.TickProb = sc.Tick
	s.SplitProb = sc.Split
	defer s.Shutdown()
	if sc.Nodes != 3 {
		sc.Nodes = 1
	}
	if len(sc.Creds) > 0 && sc.Creds.Root() == nil {
		c.Discard("scenario-without-root-credentials")
		return
	}
	e, err := hostile.Boot(c, s, sc.Nodes, sc.Creds, node.Knobs{})
	if err != nil {
		c.Discard("boot-failed: " + err.Error())
		return
	}
	pre, err := e.State()
	if err != nil {
		c.Discard("state-failed: " + err.Error())
		return
	}
	c.Log.Add("%d booted %s auth=%v", s.StepN, pre.Digest(), len(sc.Creds) > 0)

	for i, op := range sc.Ops {
		if s.Capped || c.Failed() {
			break
		}
		tgt := c18Target(e, op.Node, false)
		if tgt == nil {
			c.Discard("no-leader")
			return
		}
		wire, strict, constructed, desc := c35Encode(e, i, op)
		// What the stream is entitled to is decided by reading its bytes the way the
		// protocol defines them, whichever generator produced them: a mutated or
		// random stream that happens to be a complete command with credentials
		// authorised for that command is a legitimate request.
		var dec []hostile.Decoded
		if op.Hdr == hostile.HdrCluster && len(wire) > 1 {
			dec = hostile.DecodeStream(wire[1:], sc.Creds)
		}
		mayChange, loads, anyDecoded, allUnauth := false, false, len(dec) > 0, true
		for _, d := range dec {
			if d.Mutating {
				mayChange = true
				loads = loads || d.Kind == "load"
			}
			if d.Authorized {
				allUnauth = false
			}
		}
		if constructed && !mayChange {
			panic(fmt.Sprintf("harness: op %d was built as an authorised state-changing command but the stream decoder does not see one", i))
		}
		if mayChange && !constructed {
			c.Probe("generated_stream_is_authorised_change")
		}
		if mayChange {
			if l := e.WaitLeader(); l != nil {
				tgt = l
			}
		}
		st := hostile.Stream{Chunks: c35Chunks(wire, op.Parts), GapMs: op.GapMs, End: op.End, EndGapMs: op.EndGapMs}
		label := fmt.Sprintf("op%d %s hdr=%d %s end=%s -> %s", i, op.Kind, op.Hdr, desc, op.End, tgt.ID)
		hc := e.D.Start(label, tgt.RaftAddr, st)
		if op.End == "stall" {
			// while the hostile connection sits there, the node must serve others
			e.D.RunFor(50 * time.Millisecond)
			if ok, why := e.FollowUp(fmt.Sprintf("op%d concurrent-followup", i), tgt); !ok {
				c.Violate("node-unresponsive", "while a hostile connection (%s %s) was open and silent, node %s did not answer a valid request: %s", op.Kind, desc, tgt.ID, why)
				e.D.Finish(hc)
				return
			}
			c.Probe("served_during_stall")
		}
		rec := e.D.Finish(hc)
		frames, rest := hostile.SplitFrames(rec.Resp)
		c.Log.Add("%d op %d %s hdr=%d %s end=%s target=%s strict=%v may_change=%v -> written=%d delivered=%d resp=%d frames=%d rest=%d eof=%v rerr=%q",
			s.StepN, i, op.Kind, op.Hdr, desc, op.End, tgt.ID, strict, mayChange, rec.Written, rec.Delivered, len(rec.Resp), len(frames), len(rest), rec.EOF, rec.ReadErr)
		if rec.DialErr != "" {
			c.Violate("node-unresponsive", "node %s refused a connection before op %d (%s): %s", tgt.ID, i, op.Kind, rec.DialErr)
			return
		}
		c.Probe("streams")
		c.Probe("kind_" + op.Kind)
		what := fmt.Sprintf("stream %d (%s: hdr=%d %s end=%s, %d bytes written, %d delivered)", i, op.Kind, op.Hdr, desc, op.End, rec.Written, rec.Delivered)

		// (1) memory
		if over, why := rec.OverBudget(); over {
			c.Violate("mem-amplification", "%s: %s", what, why)
			return
		}
		// (2) rejection: malformed requests get an error or a closed connection, never a success answer
		if len(op.Frames) == 1 && op.Hdr == hostile.HdrCluster && (op.End == "" || op.End == "fin") && len(op.Parts) == 0 {
			f := op.Frames[0]
			if (f.Var == "nil" || (f.Var == "mismatch" && f.Cmd2 != f.Cmd)) && f.Cmd != "meta" && f.Type == nil && f.Cmd != "" {
				c.Probe("malformed_judged")
				switch {
				case len(frames) == 0 && len(rest) == 0:
					if !rec.EOF {
						c.Violate("malformed-not-rejected", "%s: no answer and the connection was not closed (%s)", what, rec.ReadErr)
						return
					}
				default:
					ri := hostile.RespInfo{}
					if len(frames) > 0 {
						ri = hostile.Inspect(f.Cmd, frames[0])
					}
					if !ri.Parsed || ri.Error == "" {
						c.Violate("malformed-not-rejected", "%s: a command without a usable request was answered without an error (%d frames, %d stray bytes)", what, len(frames), len(rest))
						return
					}
					c.Probe("malformed_error_answer")
				}
			}
		}
		// (3) the connection ends: after our FIN, or by the node's own timeout when we go silent
		if op.End == "" || op.End == "fin" || (op.End == "stall" && op.Hdr != hostile.HdrRaft) {
			if !rec.EOF {
				c.Violate("conn-not-closed", "%s: the node had not closed the connection %s after the peer's last action (%s)", what, "120 simulated seconds", rec.ReadErr)
				return
			}
			if op.End == "stall" {
				c.Probe("idle_conn_dropped_by_node")
			}
		}
		// (4) a stream none of whose commands carries authorised credentials is told nothing about the database
		if len(sc.Creds) > 0 && anyDecoded && allUnauth {
			c.Probe("leak_judged")
			if leak := hostile.Leak(rec.Resp, hostile.Markers); leak != "" {
				c.Violate("leak", "%s carried no credentials authorised for what it asked, but the node sent database content: %s", what, leak)
				return
			}
		}
		// (5) still serving
		if ok, why := e.FollowUp(fmt.Sprintf("op%d followup", i), tgt); !ok {
			c.Violate("node-unresponsive", "after %s node %s did not answer a valid request: %s", what, tgt.ID, why)
			return
		}
		c.Probe("followups_ok")
		// (6) state
		e.Settle()
		post, err := e.State()
		if err != nil {
			c.Violate("node-unresponsive", "after %s the state of the cluster could not be read: %v", what, err)
			return
		}
		if !mayChange {
			if d := pre.Diff(post, false, false); d != "" {
				c.Violate("state-changed", "%s is not an authorised state-changing request, yet: %s", what, d)
				return
			}
			c.Probe("state_unchanged_checked")
		} else {
			c.Probe("authorised_change")
			if e.HasGhosts() {
				e.RemoveGhosts()
				e.Settle()
				if post, err = e.State(); err != nil {
					c.Discard("state-failed: " + err.Error())
					return
				}
			}
			if loads {
				if !e.Exec("INSERT INTO " + hostile.MarkTable + "(v) VALUES('" + e.Fresh() + "')") {
					c.Discard("post-load-insert-failed")
					return
				}
				e.Settle()
				if post, err = e.State(); err != nil {
					c.Discard("state-failed: " + err.Error())
					return
				}
			}
		}
		pre = post
	}
	if s.Capped {
		c.Res.Verdict = core.Capped
	}
	c.Res.Trivial = c.Res.Probes["streams"] == 0
	c.Sig(pre.Digest())
}

func init() {
	core.Register(&core.Prop{ID: "C35", Bubble: true, Gen: c35Gen, Run: c35Run})
}
