package props

import (
	"context"
	"fmt"
	"os"
	"path/filepath"
	"sort"
	"strings"
	"time"

	"github.com/rqlite/rqlite/v10/command/proto"
	"verifsim/core"
	"verifsim/node"
	"verifsim/sim"
	"verifsim/walsim"
)

// Store-level stratum of C06: the same kind of schedule (writes, readers that
// hold read marks, snapshot attempts) against a real single-node store.Store,
// so that the real store.fsmSnapshot (staged segment, cancel on checkpoint
// error) runs instead of the harness's mirror of it. Writes go through raft
// (Store.Execute), snapshots through Store.Snapshot (raft's snapshot path, the
// real sink). The readers are harness connections on the node's database file.
// What is judged here: a snapshot that failed because the checkpoint was busy
// leaves nothing new in the WAL staging directory, and a later snapshot
// succeeds once the readers are gone. (Equivalence of the captured segments is
// judged by the db-level runs, which can afford thousands of schedules; each
// blocked checkpoint costs store.truncateTimeout = 250 ms real time here.)

func c06GenStore(r *core.Rand) *walsim.Scenario {
	sc := &walsim.Scenario{Seed: r.Uint64(), Mode: "store", PageSize: 4096, BusyMs: 250}
	sc.Ops = append(sc.Ops, walsim.Op{K: "w", N: r.Range(1, 5), Sz: r.Range(1, 300), S: r.Uint64()}, walsim.Op{K: "ck"})
	active := [walsim.NReaders]bool{}
	blocked := 0
	n := r.Range(8, 16)
	for len(sc.Ops) < n {
		switch x := r.Intn(100); {
		case x < 35:
			sc.Ops = append(sc.Ops, walsim.Op{K: "w", N: r.Range(1, 5), Sz: r.Range(1, 300), S: r.Uint64()})
		case x < 55:
			i := r.Intn(walsim.NReaders)
			if !active[i] {
				active[i] = true
				sc.Ops = append(sc.Ops, walsim.Op{K: "rs", I: i})
			}
		case x < 75:
			i := r.Intn(walsim.NReaders)
			if active[i] {
				active[i] = false
				sc.Ops = append(sc.Ops, walsim.Op{K: "re", I: i})
			}
		default:
			if active != [walsim.NReaders]bool{} {
				if blocked >= 3 { // bound the real time spent in busy handlers
					continue
				}
				blocked++
			}
			sc.Ops = append(sc.Ops, walsim.Op{K: "ck"})
		}
	}
	return sc
}

func listDir(dir string) []string {
	var out []string
	filepath.Walk(dir, func(p string, info os.FileInfo, err error) error {
		if err == nil && !info.IsDir() {
			out = append(out, fmt.Sprintf("%s:%d", strings.TrimPrefix(p, dir), info.Size()))
		}
		return nil
	})
	sort.Strings(out)
	return out
}

func c06RunStore(c *core.Ctx, sc *walsim.Scenario) {
	s := sim.New(c)
	defer s.Shutdown()
	k := node.Knobs{SnapshotThreshold: 1 << 40, SnapshotInterval: 1000 * time.Hour, NoSnapshotOnClose: true}
	if err := s.Boot(1, k, nil); err != nil {
		c.Discard("boot: " + err.Error())
		return
	}
	n := s.Nodes[1]
	staging := filepath.Join(n.Dir, "wal-staging")
	e := &walsim.Engine{C: c, Sc: sc, DBPath: filepath.Join(n.Dir, "db.sqlite")}
	defer e.Close()
	exec := func(stmts ...*proto.Statement) bool {
		ok := false
		done := s.Do("exec", 60*time.Second, func() {
			er := &proto.ExecuteRequest{Request: &proto.Request{Statements: stmts, Transaction: true}}
			res, _, err := n.Store.Execute(context.Background(), er)
			ok = err == nil
			for _, x := range res {
				if x.GetError() != "" {
					ok = false
				}
			}
		})
		return done && ok
	}
	if !exec(&proto.Statement{Sql: "CREATE TABLE t0 (id INTEGER PRIMARY KEY, k INTEGER, v BLOB)"}) {
		c.Discard("create table failed")
		return
	}
	judged := 0
	outcomes := ""
	snap := func(i int) (failed bool) {
		before := listDir(staging)
		var err error
		if !s.Do("snapshot", 300*time.Second, func() { err = n.Store.Snapshot(0) }) {
			c.Violate("store-snapshot-hung", "op %d: Store.Snapshot did not return", i)
			return true
		}
		after := listDir(staging)
		es := "nil"
		if err != nil {
			es = err.Error()
		}
		c.Log.Add("op%d snapshot readers=%d err=%s staging %d->%d", i, e.ActiveReaders(), es, len(before), len(after))
		switch {
		case err == nil:
			c.Probe("store_snapshot_ok")
			outcomes += "S"
		case strings.Contains(es, "checkpoint"):
			// full: "checkpoint failed/did not succeed during full snapshot"; incremental: "database checkpoint busy"
			c.Probe("store_snapshot_checkpoint_failed")
			if strings.Contains(es, "busy") {
				c.Probe("store_incremental_checkpoint_busy")
			}
			outcomes += "b"
			judged++
			if strings.Join(before, "|") != strings.Join(after, "|") {
				c.Violate("failed-attempt-left-segment", "op %d: Store.Snapshot failed (%s) and the WAL staging directory changed: %d file(s) before, %d after", i, es, len(before), len(after))
			}
			return true
		default:
			// nothing new to snapshot, no WAL to snapshot
			c.Probe("store_snapshot_nothing_to_do")
			outcomes += "n"
		}
		return false
	}
	for i := range sc.Ops {
		if c.Failed() {
			return
		}
		e.OpIdx = i
		op := &sc.Ops[i]
		switch op.K {
		case "w":
			r := core.NewRand(op.S)
			var st []*proto.Statement
			for j := 0; j < max(op.N, 1); j++ {
				st = append(st, &proto.Statement{Sql: "INSERT INTO t0(k,v) VALUES(?,?)", Parameters: []*proto.Parameter{
					{Value: &proto.Parameter_I{I: int64(r.Intn(1000))}}, {Value: &proto.Parameter_Y{Y: r.Bytes(op.Sz)}}}})
			}
			ok := exec(st...)
			c.Log.Add("op%d w n=%d ok=%v", i, op.N, ok)
		case "rs":
			e.StartReader(op.I)
		case "re":
			e.EndReader(op.I)
		case "ck":
			snap(i)
		}
	}
	if c.Failed() {
		return
	}
	// once nothing blocks the checkpoint a snapshot must go through again
	e.EndAllReaders()
	exec(&proto.Statement{Sql: "INSERT INTO t0(k,v) VALUES(1,x'00')"})
	if snap(len(sc.Ops)) {
		c.Probe("store_final_snapshot_failed") // liveness is not part of the property
	}
	c.Res.Trivial = judged == 0
	c.Sig("store:" + outcomes)
}
