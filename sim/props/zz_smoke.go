package props

import (
	"encoding/json"
	"fmt"
	"time"

	"verifsim/core"
	"verifsim/node"
	"verifsim/sim"
)

// C99 is a harness smoke test (not a property): HTTP execute/query through
// the real http.Service.ServeHTTP on a 3-node cluster, dump equality.
func init() {
	core.Register(&core.Prop{ID: "C99", Bubble: true,
		Gen: func(r *core.Rand, tier string) any { return map[string]any{"seed": r.Uint64()} },
		Run: func(c *core.Ctx, raw json.RawMessage) {
			var sc struct{ Seed uint64 }
			json.Unmarshal(raw, &sc)
			c.Rng = core.NewRand(sc.Seed)
			s := sim.New(c)
			defer s.Shutdown()
			for i := 0; i < 3; i++ {
				n := s.AddNode(node.Knobs{})
				n.WithHTTP = true
			}
			if err := s.Boot(3, node.Knobs{}, nil); err != nil {
				c.Violate("smoke-boot", "%v", err)
				return
			}
			var body string
			var code int
			s.Do("http-exec", 30*time.Second, func() {
				w := s.Nodes[2].HTTPDo("POST", "/db/execute?timings", "application/json",
					[]byte(`["CREATE TABLE t (id INTEGER PRIMARY KEY, v TEXT)", ["INSERT INTO t(v) VALUES(?)", "x"], "INSERT INTO t(v) VALUES(datetime('now'))"]`), "", "")
				code, body = w.Code, w.Body.String()
			})
			c.Log.Add("exec code=%d", code)
			if code != 200 {
				c.Violate("smoke-exec", "code %d body %s", code, body)
				return
			}
			s.Do("http-query", 30*time.Second, func() {
				w := s.Nodes[3].HTTPDo("GET", "/db/query?level=strong&q=SELECT%20*%20FROM%20t", "", nil, "", "")
				code, body = w.Code, w.Body.String()
			})
			c.Log.Add("query code=%d", code)
			if code != 200 {
				c.Violate("smoke-query", "code %d body %s", code, body)
				return
			}
			s.RunFor(2 * time.Second)
			d1, e1 := s.DumpNode(s.Nodes[1])
			d3, e3 := s.DumpNode(s.Nodes[3])
			if e1 != nil || e3 != nil || d1 != d3 || d1 == "" {
				c.Violate("smoke-dump", "e1=%v e3=%v diff=%s", e1, e3, sim.FirstDiff(d1, d3))
			}
			c.Sig(fmt.Sprint(len(d1)))
			if c.Replay {
				c.Log.AddUnhashed("%s", body)
				c.Log.AddUnhashed("%s", d1)
			}
		}})
}
