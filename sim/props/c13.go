package props

import (
	"bytes"
	"context"
	"database/sql"
	"encoding/json"
	"fmt"
	"sort"
	"strings"
	"testing/synctest"
	"time"

	"github.com/rqlite/rqlite/v10/command/proto"
	"github.com/rqlite/rqlite/v10/verifx"
	"verifsim/core"
	"verifsim/node"
	"verifsim/sim"
)

// C13: a write request marked as a transaction applies all of its statements
// or none; a request that asks for rollback on error leaves no effect of the
// failed transaction; results come back in statement order, one per non-empty
// statement executed, each with that statement's own outcome, and execution
// stops at the first failure inside a transaction.
//
// One run: a 3-node cluster (real HTTP service). Requests of 1-8 statements
// (valid writes, syntax errors, unknown tables, PRIMARY KEY / UNIQUE / NOT NULL /
// CHECK violations, RETURNING, empty statements, parameters, queries on the
// unified endpoint) x transaction on/off x rollback-on-error x endpoints:
// /db/execute, /db/request, /db/load (SQL text, the HTTP way to ask for
// rollback on error) and the inter-node Execute with RollbackOnError. Some
// requests are hit by a crash image taken INSIDE the apply of that very entry
// (before/after the command processor, or between two statements of the
// request) on the leader or on a follower, followed by a restart.
//
// Reference: the harness's own in-memory SQLite executes the statements one at
// a time; request semantics (atomicity, stop at first failure, rollback on
// error, result list) are the harness's. After every request the result list is
// compared with the reference and the logical dump of EVERY node with the
// reference state. A request whose outcome the client could not learn (crash in
// flight) must leave the cluster in the state "not applied" or in the state
// "applied as a whole" - never anything else.

type c13Stmt struct {
	SQL    string         `json:"sql"`
	Params []any          `json:"params,omitempty"`
	Named  map[string]any `json:"named,omitempty"`
	Rows   bool           `json:"rows,omitempty"` // returns rows (SELECT or RETURNING)
	Kind   string         `json:"kind,omitempty"` // insert update delete select bad ctl
}

type c13Crash struct {
	Who int    `json:"who"` // 0 leader, 1.. = that follower (in node order)
	At  string `json:"at"`  // before | after | stmt
	K   int    `json:"k,omitempty"`
}

type c13Op struct {
	K     string    `json:"k"` // req restart run
	N     int       `json:"n,omitempty"`
	Ep    string    `json:"ep,omitempty"` // execute request load proxy
	Tx    bool      `json:"tx,omitempty"`
	Roe   bool      `json:"roe,omitempty"`   // rollback on error (load, proxy)
	Begin bool      `json:"begin,omitempty"` // explicit BEGIN ... COMMIT inside the request (only with roe)
	Stmts []c13Stmt `json:"stmts,omitempty"`
	Crash *c13Crash `json:"crash,omitempty"`
	Ms    int       `json:"ms,omitempty"`
}

type c13Scenario struct {
	Seed  uint64     `json:"seed"`
	Knobs node.Knobs `json:"knobs"`
	Tick  float64    `json:"tick"`
	Ops   []c13Op    `json:"ops"`
}

var c13Schema = []string{
	`CREATE TABLE acct (id INTEGER PRIMARY KEY, name TEXT NOT NULL UNIQUE, bal INTEGER NOT NULL CHECK (bal >= 0))`,
	`CREATE TABLE audit (id INTEGER PRIMARY KEY AUTOINCREMENT, acct INTEGER, note TEXT)`,
	`INSERT INTO acct(id,name,bal) VALUES (1,'n1',10),(2,'n2',20),(3,'n3',0)`,
}

func c13GenStmt(r *core.Rand, ep string) c13Stmt {
	id := 1 + r.Intn(9)
	if ep == "request" && r.Bool(0.08) {
		// queries (half of them failing at run time) are specific to the unified endpoint
		return c13GenStmtAt(r, ep, id, 95)
	}
	return c13GenStmtAt(r, ep, id, r.Intn(100))
}

func c13GenStmtAt(r *core.Rand, ep string, id, x int) c13Stmt {
	switch {
	case x < 18: // insert, may hit PK or UNIQUE
		name := fmt.Sprintf("n%d", id)
		if r.Bool(0.15) {
			name = fmt.Sprintf("n%d", 1+r.Intn(9))
		}
		st := c13Stmt{Kind: "insert"}
		switch r.Intn(4) {
		case 0:
			st.SQL = "INSERT INTO acct(id,name,bal) VALUES(?,?,?)"
			st.Params = []any{id, name, r.Intn(50)}
		case 1:
			st.SQL = "INSERT INTO acct(id,name,bal) VALUES(:id,:name,:bal)"
			st.Named = map[string]any{"id": id, "name": name, "bal": r.Intn(50)}
		default:
			st.SQL = fmt.Sprintf("INSERT INTO acct(id,name,bal) VALUES(%d,'%s',%d)", id, name, r.Intn(50))
		}
		if r.Bool(0.25) {
			st.SQL += " RETURNING id, bal"
			st.Rows = true
		}
		return st
	case x < 26:
		st := c13Stmt{Kind: "insert", SQL: fmt.Sprintf("INSERT INTO audit(acct,note) VALUES(%d,'op%d')", id, r.Intn(100))}
		if r.Bool(0.3) {
			st.SQL += " RETURNING id"
			st.Rows = true
		}
		return st
	case x < 32:
		return c13Stmt{Kind: "insert", SQL: fmt.Sprintf("INSERT OR IGNORE INTO acct(id,name,bal) VALUES(%d,'n%d',%d)", id, id, r.Intn(50))}
	case x < 47: // may violate CHECK (bal >= 0)
		st := c13Stmt{Kind: "update", SQL: fmt.Sprintf("UPDATE acct SET bal = bal + %d WHERE id = %d", r.Range(-25, 15), id)}
		if r.Bool(0.25) {
			st.SQL += " RETURNING *"
			st.Rows = true
		}
		return st
	case x < 54: // multi-row update that can fail on some row only
		return c13Stmt{Kind: "update", SQL: fmt.Sprintf("UPDATE acct SET bal = bal - %d WHERE id <= %d", r.Range(1, 12), id)}
	case x < 60:
		st := c13Stmt{Kind: "delete", SQL: fmt.Sprintf("DELETE FROM acct WHERE id = %d", id)}
		if r.Bool(0.3) {
			st.SQL += " RETURNING id"
			st.Rows = true
		}
		return st
	case x < 65:
		return c13Stmt{Kind: "insert", SQL: fmt.Sprintf("INSERT INTO acct(id,name,bal) VALUES(%d,NULL,1)", id)} // NOT NULL
	case x < 70:
		return c13Stmt{Kind: "update", SQL: fmt.Sprintf("UPDATE acct SET name = 'n%d' WHERE id = %d", 1+r.Intn(9), id)} // UNIQUE
	case x < 75:
		return c13Stmt{Kind: "insert", SQL: fmt.Sprintf("INSERT INTO acct(id,name,bal) VALUES(%d,'m%d',-1)", id, id)} // CHECK
	case x < 82:
		return c13Stmt{Kind: "bad", SQL: []string{"INSER INTO acct VALUES(1)", "INSERT INTO acct VALUES(", "UPDATE nosuch SET x = 1", "INSERT INTO nosuch(a) VALUES(1)",
			"DELETE FROM acct WHERE nocol = 1", "INSERT INTO acct(id,name,bal) VALUES(1,'x')"}[r.Intn(6)]}
	case x < 86:
		return c13Stmt{Kind: "bad", SQL: "INSERT INTO acct(id,name,bal) VALUES(?,?,?)", Params: []any{id}} // too few parameters
	case x < 92:
		return c13Stmt{Kind: "ctl", SQL: ""} // empty statement
	default:
		if ep == "request" && r.Bool(0.5) {
			// read-only statements that PREPARE fine and fail when they RUN
			return c13Stmt{Kind: "select", Rows: true, SQL: []string{"SELECT abs(-9223372036854775808)", "SELECT json_extract('{', '$.a')",
				"SELECT id, abs(bal - 9223372036854775807 - 1) FROM acct ORDER BY id", "SELECT count(*) FROM acct WHERE json_extract('[1,', '$[0]') = id",
				"SELECT like('a', 'b', 'toolong')"}[r.Intn(5)]}
		}
		if ep == "request" {
			return c13Stmt{Kind: "select", Rows: true, SQL: []string{"SELECT count(*), sum(bal) FROM acct", "SELECT id, bal FROM acct ORDER BY id", "SELECT max(id) FROM audit"}[r.Intn(3)]}
		}
		return c13Stmt{Kind: "insert", SQL: fmt.Sprintf("INSERT INTO audit(acct,note) VALUES(%d,'z')", id)}
	}
}

func c13Gen(r *core.Rand, tier string) any {
	sc := &c13Scenario{Seed: r.Uint64()}
	sc.Tick = []float64{0.02, 0.08, 0.2}[r.Intn(3)]
	hb := time.Duration(r.Range(2, 8)) * 100 * time.Millisecond
	sc.Knobs = node.Knobs{HeartbeatTimeout: hb, ElectionTimeout: hb, LeaderLeaseTimeout: hb / 2, ApplyTimeout: 5 * time.Second}
	if r.Bool(0.4) {
		sc.Knobs.SnapshotThreshold = uint64(r.Range(4, 16))
		sc.Knobs.SnapshotInterval = time.Duration(r.Range(1, 5)) * time.Second
	}
	nreq := r.Range(10, 20)
	crashAt := -1
	if r.Bool(0.7) {
		crashAt = r.Intn(nreq)
	}
	downPending := false
	for i := 0; i < nreq; i++ {
		op := c13Op{K: "req", N: r.Intn(4), Ep: []string{"execute", "execute", "request", "request", "load", "proxy"}[r.Intn(6)]}
		switch op.Ep {
		case "execute", "request":
			op.Tx = r.Bool(0.6)
		case "load":
			op.Roe = true
			op.Begin = r.Bool(0.7)
		case "proxy":
			op.Roe = true
			switch r.Intn(3) {
			case 0:
				op.Tx = true
			case 1:
				op.Begin = true
			}
		}
		n := r.Range(1, 8)
		for j := 0; j < n; j++ {
			st := c13GenStmt(r, op.Ep)
			if op.Ep == "load" && (len(st.Params) > 0 || len(st.Named) > 0 || st.SQL == "" || st.Rows) {
				j--
				continue
			}
			op.Stmts = append(op.Stmts, st)
		}
		if i == crashAt && op.Ep != "load" {
			op.Crash = &c13Crash{Who: r.Intn(3), At: []string{"before", "after", "stmt", "stmt"}[r.Intn(4)], K: 1 + r.Intn(4)}
			downPending = true
		}
		sc.Ops = append(sc.Ops, op)
		if downPending && r.Bool(0.4) {
			sc.Ops = append(sc.Ops, c13Op{K: "restart"})
			downPending = false
		}
		if r.Bool(0.15) {
			sc.Ops = append(sc.Ops, c13Op{K: "run", Ms: r.Range(50, 3000)})
		}
	}
	return sc
}

// ------------------------------------------------------------------ results

type c13Res struct {
	Err    string // non-empty = failure
	IsRows bool
	Cols   string
	Vals   []string
	Aff    int64
	LastID int64
}

func (r c13Res) kind() string {
	switch {
	case r.Err != "":
		return "error"
	case r.IsRows:
		return "rows"
	}
	return "exec"
}

func (r c13Res) String() string {
	switch r.kind() {
	case "error":
		return "error(" + r.Err + ")"
	case "rows":
		return fmt.Sprintf("rows(%s: %s)", r.Cols, strings.Join(r.Vals, " ; "))
	}
	return fmt.Sprintf("exec(affected=%d last_id=%d)", r.Aff, r.LastID)
}

// c13SameOutcome compares an actual result with the reference for statement st.
func c13SameOutcome(st *c13Stmt, exp, got c13Res) bool {
	if exp.kind() != got.kind() {
		return false
	}
	switch exp.kind() {
	case "rows":
		return exp.Cols == got.Cols && strings.Join(exp.Vals, "\n") == strings.Join(got.Vals, "\n")
	case "exec":
		// rows_affected / last_insert_id are connection state for statements that
		// do not set them; compare where the statement defines them
		if st.Kind == "insert" || st.Kind == "update" || st.Kind == "delete" {
			if exp.Aff != got.Aff {
				return false
			}
		}
		if st.Kind == "insert" && exp.Aff > 0 && exp.LastID != got.LastID {
			return false
		}
	}
	return true
}

func c13JSONCell(v any) string {
	switch x := v.(type) {
	case nil:
		return "N"
	case json.Number:
		if strings.ContainsAny(x.String(), ".eE") {
			f, _ := x.Float64()
			return fmt.Sprintf("F%v", f)
		}
		return "I" + x.String()
	case string:
		return "T" + x
	case bool:
		if x {
			return "I1"
		}
		return "I0"
	default:
		return fmt.Sprintf("?%v", x)
	}
}

// c13ParseHTTPResults decodes the "results" array of an HTTP response body.
func c13ParseHTTPResults(body string) (res []c13Res, topErr string, err error) {
	var top struct {
		Results []map[string]any `json:"results"`
		Error   string           `json:"error"`
	}
	dec := json.NewDecoder(strings.NewReader(body))
	dec.UseNumber()
	if err := dec.Decode(&top); err != nil {
		return nil, "", err
	}
	for _, m := range top.Results {
		var r c13Res
		if e, ok := m["error"].(string); ok && e != "" {
			r.Err = e
		} else if _, ok := m["columns"]; ok {
			r.IsRows = true
			var cols []string
			for _, c := range m["columns"].([]any) {
				cols = append(cols, fmt.Sprint(c))
			}
			r.Cols = strings.Join(cols, ",")
			if vs, ok := m["values"].([]any); ok {
				for _, row := range vs {
					var cells []string
					for _, v := range row.([]any) {
						cells = append(cells, c13JSONCell(v))
					}
					r.Vals = append(r.Vals, strings.Join(cells, "|"))
				}
			}
		} else if _, ok := m["types"]; ok {
			r.IsRows = true
		} else {
			if n, ok := m["rows_affected"].(json.Number); ok {
				r.Aff, _ = n.Int64()
			}
			if n, ok := m["last_insert_id"].(json.Number); ok {
				r.LastID, _ = n.Int64()
			}
		}
		res = append(res, r)
	}
	return res, top.Error, nil
}

func c13ProtoResults(in []*proto.ExecuteQueryResponse) []c13Res {
	var out []c13Res
	for _, x := range in {
		var r c13Res
		switch {
		case x.GetError() != "":
			r.Err = x.GetError()
		case x.GetQ() != nil:
			q := x.GetQ()
			if q.Error != "" {
				r.Err = q.Error
				break
			}
			r.IsRows = true
			r.Cols = strings.Join(q.Columns, ",")
			for _, row := range q.Values {
				var cells []string
				for _, p := range row.Parameters {
					switch v := p.GetValue().(type) {
					case *proto.Parameter_I:
						cells = append(cells, fmt.Sprintf("I%d", v.I))
					case *proto.Parameter_D:
						cells = append(cells, fmt.Sprintf("F%v", v.D))
					case *proto.Parameter_S:
						cells = append(cells, "T"+v.S)
					case *proto.Parameter_B:
						cells = append(cells, fmt.Sprintf("I%d", c13Btoi(v.B)))
					case nil:
						cells = append(cells, "N")
					default:
						cells = append(cells, fmt.Sprintf("?%v", v))
					}
				}
				r.Vals = append(r.Vals, strings.Join(cells, "|"))
			}
		case x.GetE() != nil:
			if x.GetE().Error != "" {
				r.Err = x.GetE().Error
				break
			}
			r.Aff, r.LastID = x.GetE().RowsAffected, x.GetE().LastInsertId
		}
		out = append(out, r)
	}
	return out
}

func c13Btoi(b bool) int {
	if b {
		return 1
	}
	return 0
}

// ------------------------------------------------------------------ reference model

type c13ExecQueryer interface {
	Exec(query string, args ...any) (sql.Result, error)
	Query(query string, args ...any) (*sql.Rows, error)
}

type c13ConnEQ struct{ c *sql.Conn }

func (q c13ConnEQ) Exec(s string, a ...any) (sql.Result, error) {
	return q.c.ExecContext(context.Background(), s, a...)
}
func (q c13ConnEQ) Query(s string, a ...any) (*sql.Rows, error) {
	return q.c.QueryContext(context.Background(), s, a...)
}

func c13Args(st *c13Stmt) []any {
	fix := func(v any) any {
		if f, ok := v.(float64); ok && f == float64(int64(f)) {
			return int64(f)
		}
		return v
	}
	var args []any
	if len(st.Named) > 0 {
		keys := make([]string, 0, len(st.Named))
		for k := range st.Named {
			keys = append(keys, k)
		}
		sort.Strings(keys)
		for _, k := range keys {
			args = append(args, sql.Named(k, fix(st.Named[k])))
		}
		return args
	}
	for _, p := range st.Params {
		args = append(args, fix(p))
	}
	return args
}

// c13RefExec runs one statement on the reference database.
func c13RefExec(q c13ExecQueryer, st *c13Stmt) c13Res {
	if st.Rows {
		rows, err := q.Query(st.SQL, c13Args(st)...)
		if err != nil {
			return c13Res{Err: err.Error()}
		}
		cols, lines, err := sqlhRowsText(rows)
		if err != nil {
			return c13Res{Err: err.Error()}
		}
		return c13Res{IsRows: true, Cols: strings.Join(cols, ","), Vals: lines}
	}
	res, err := q.Exec(st.SQL, c13Args(st)...)
	if err != nil {
		return c13Res{Err: err.Error()}
	}
	var r c13Res
	r.Aff, _ = res.RowsAffected()
	r.LastID, _ = res.LastInsertId()
	return r
}

// c13RefApply executes a request on the reference database with the request
// semantics the property states and returns the expected result list.
func c13RefApply(db *sql.DB, op *c13Op) ([]c13Res, error) {
	ctx := context.Background()
	conn, err := db.Conn(ctx)
	if err != nil {
		return nil, err
	}
	defer conn.Close()
	q := c13ConnEQ{conn}
	inTx := false
	if op.Tx || op.Begin {
		if _, err := q.Exec("BEGIN"); err != nil {
			return nil, err
		}
		inTx = true
	}
	var out []c13Res
	failed := false
	for i := range op.Stmts {
		st := &op.Stmts[i]
		if st.SQL == "" {
			continue
		}
		r := c13RefExec(q, st)
		out = append(out, r)
		if r.Err != "" {
			failed = true
			if inTx || op.Roe {
				break // a transaction, or a rollback-on-error request, stops at the first failure
			}
		}
	}
	if inTx {
		if failed {
			_, err = q.Exec("ROLLBACK")
		} else {
			_, err = q.Exec("COMMIT")
		}
		if err != nil {
			return nil, err
		}
	}
	return out, nil
}

// ------------------------------------------------------------------ run

type c13Hook struct {
	armed   bool
	match   func(point string) bool
	count   int // occurrences still to skip (+1)
	parked  bool
	release chan struct{}
}

func c13Run(c *core.Ctx, raw json.RawMessage) {
	var sc c13Scenario
	if err := json.Unmarshal(raw, &sc); err != nil {
		panic(err)
	}
	c.Rng = core.NewRand(sc.Seed)
	s := sim.New(c)
	s.TickProb = sc.Tick
	hk := &c13Hook{}
	verifx.InstallHooks(func(point string) error {
		// runs on rqlite goroutines; one P, and the driver only looks at hk at quiescent points
		if hk.armed && hk.match(point) {
			if hk.count > 1 {
				hk.count--
				return nil
			}
			hk.armed = false
			hk.parked = true
			<-hk.release // parked: the driver takes the crash image now
		}
		return nil
	}, nil, nil, nil, nil)
	defer verifx.ResetHooks()
	defer s.Shutdown()
	defer func() {
		if hk.parked && hk.release != nil {
			select {
			case <-hk.release:
			default:
				close(hk.release)
			}
		}
	}()

	for i := 0; i < 3; i++ {
		n := s.AddNode(sc.Knobs)
		n.WithHTTP = true
	}
	if err := s.Boot(3, sc.Knobs, nil); err != nil {
		c.Discard("boot-failed: " + err.Error())
		return
	}
	ref, err := sqlhOpenMemDB(sqlhPlainDriver)
	if err != nil {
		c.Discard("oracle-db: " + err.Error())
		return
	}
	defer ref.Close()
	ldr := s.Leader()
	if ldr == nil {
		c.Discard("no-leader-after-boot")
		return
	}
	b, _ := json.Marshal(c13Schema)
	var code int
	var body string
	if !s.Do("setup", 60*time.Second, func() {
		w := ldr.HTTPDo("POST", "/db/execute?timeout=20s", "application/json", b, "", "")
		code, body = w.Code, w.Body.String()
	}) || code != 200 || strings.Contains(body, `"error"`) {
		c.Discard(fmt.Sprintf("setup-failed: %d %.200s", code, body))
		return
	}
	for _, q := range c13Schema {
		if _, err := ref.Exec(q); err != nil {
			c.Discard("oracle-db setup: " + err.Error())
			return
		}
	}

	settle := func() bool {
		return s.RunUntil(func() bool {
			l := s.Leader()
			if l == nil {
				return false
			}
			ci, err := l.Store.CommitIndex()
			if err != nil || l.Store.AppliedIndex() != ci {
				return false
			}
			for _, n := range s.Nodes[1:] {
				if n.Up && n.Store.AppliedIndex() != ci {
					return false
				}
			}
			return true
		}, 60*time.Second)
	}
	// checkState compares every up node with the reference state.
	checkState := func(when string) bool {
		want, err := sqlhDumpQ(ref)
		if err != nil {
			c.Discard("oracle-db dump: " + err.Error())
			return false
		}
		for _, n := range s.Nodes[1:] {
			if !n.Up {
				continue
			}
			got, err := s.DumpNode(n)
			if err != nil {
				c.Discard("dump-failed: " + err.Error())
				return false
			}
			c.Probe("node_state_comparisons")
			if got != want {
				c.Violate("state-mismatch", "%s: database of %s differs from the reference state: %s (reference first)", when, n.ID, sim.FirstDiff(want, got))
				return false
			}
		}
		return true
	}
	// cloneRef returns a copy of the reference database (for "maybe applied").
	cloneRef := func() (*sql.DB, error) {
		cp, err := sqlhOpenMemDB(sqlhPlainDriver)
		if err != nil {
			return nil, err
		}
		d, err := c13RefSQLDump(ref)
		if err != nil {
			cp.Close()
			return nil, err
		}
		for _, q := range d {
			if _, err := cp.Exec(q); err != nil {
				cp.Close()
				return nil, fmt.Errorf("%s: %w", q, err)
			}
		}
		return cp, nil
	}

	// barrier: a definite no-op write. Once it is acknowledged, every entry that
	// can still commit from an earlier term has committed before it, so the fate
	// of a request with unknown outcome is decided.
	barrier := func() bool {
		nop := []byte(`["DELETE FROM acct WHERE id = -1"]`)
		for attempt := 0; attempt < 20; attempt++ {
			l := s.Leader()
			if l == nil {
				s.RunFor(500 * time.Millisecond)
				continue
			}
			var code int
			var body string
			ok := s.Do("barrier", 30*time.Second, func() {
				w := l.HTTPDo("POST", "/db/execute?timeout=5s", "application/json", nop, "", "")
				code, body = w.Code, w.Body.String()
			})
			if ok && code == 200 && !strings.Contains(body, `"error"`) {
				return true
			}
			s.RunFor(300 * time.Millisecond)
		}
		return false
	}

	var down []int
	for oi := range sc.Ops {
		op := &sc.Ops[oi]
		if s.Capped || c.Failed() || c.Res.Verdict == core.Discarded {
			break
		}
		switch op.K {
		case "run":
			s.RunFor(time.Duration(op.Ms) * time.Millisecond)
			continue
		case "restart":
			for _, d := range down {
				c.Log.Add("%d restart n%d", s.StepN, d)
				if err := s.Restart(d); err != nil {
					c.Violate("restart-failed", "node %d failed to restart from its crash image: %v", d, err)
					return
				}
			}
			down = nil
			if !settle() {
				c.Discard("not-settled-after-restart: " + s.StateDigest())
				return
			}
			if !checkState(fmt.Sprintf("after restart (op %d)", oi)) {
				return
			}
			c.Probe("restart_state_checked")
			continue
		case "req":
		default:
			continue
		}
		nonEmpty := 0
		for _, st := range op.Stmts {
			if st.SQL != "" {
				nonEmpty++
			}
		}
		if nonEmpty == 0 {
			continue
		}
		if !settle() {
			c.Discard("not-settled: " + s.StateDigest())
			return
		}
		ldr := s.Leader()
		tgt := ldr
		if op.N >= 1 && op.N <= 3 && s.Nodes[op.N].Up {
			tgt = s.Nodes[op.N]
		}
		if tgt == nil || ldr == nil {
			continue
		}
		// arm the crash hook
		var victim *node.Node
		if op.Crash != nil && len(down) == 0 {
			victim = ldr
			if op.Crash.Who > 0 {
				k := 0
				for _, n := range s.Nodes[1:] {
					if n.Up && n != ldr {
						k++
						if k == op.Crash.Who {
							victim = n
						}
					}
				}
			}
			hk.release = make(chan struct{})
			hk.parked = false
			hk.count = 1
			vid, vdir := victim.ID, victim.Dir+"/"
			switch op.Crash.At {
			case "before":
				hk.match = func(p string) bool { return p == "store.fsmApply.before/"+vid }
			case "after":
				hk.match = func(p string) bool { return strings.HasPrefix(p, "store.fsmApply.after/"+vid+"/") }
			default: // between statements of the request: db.execute.stmt/<path>, db.request.stmt/<path>
				hk.match = func(p string) bool { return strings.HasPrefix(p, "db.") && strings.Contains(p, vdir) }
				hk.count = op.Crash.K
			}
			hk.armed = true
		}

		// send the request
		var gotRes []c13Res
		var httpCode int
		var httpBody, topErr string
		var callErr error
		label := fmt.Sprintf("req %d %s n%d tx=%v roe=%v x%d", oi, op.Ep, tgt.Idx, op.Tx, op.Roe, nonEmpty)
		t := s.Go(label, func() {
			switch op.Ep {
			case "proxy":
				er := &proto.ExecuteRequest{Request: &proto.Request{Transaction: op.Tx, RollbackOnError: true}}
				add := func(sqlText string) {
					er.Request.Statements = append(er.Request.Statements, &proto.Statement{Sql: sqlText})
				}
				if op.Begin {
					add("BEGIN")
				}
				for i := range op.Stmts {
					st := &op.Stmts[i]
					ps := &proto.Statement{Sql: st.SQL, ForceQuery: st.Rows}
					for _, a := range c13Args(st) {
						ps.Parameters = append(ps.Parameters, c13ProtoParam(a))
					}
					er.Request.Statements = append(er.Request.Statements, ps)
				}
				if op.Begin {
					add("COMMIT")
				}
				var res []*proto.ExecuteQueryResponse
				res, _, _, callErr = tgt.Proxy.Execute(context.Background(), er, nil, 8*time.Second, 0, false)
				gotRes = c13ProtoResults(res)
				if callErr == nil {
					httpCode = 200
				}
			case "load":
				var sb bytes.Buffer
				if op.Begin {
					sb.WriteString("BEGIN;\n")
				}
				for _, st := range op.Stmts {
					sb.WriteString(st.SQL + ";\n")
				}
				if op.Begin {
					sb.WriteString("COMMIT;\n")
				}
				w := tgt.HTTPDo("POST", "/db/load?timeout=8s", "text/plain", sb.Bytes(), "", "")
				httpCode, httpBody = w.Code, w.Body.String()
			default:
				arr := make([]any, 0, len(op.Stmts))
				for i := range op.Stmts {
					st := &op.Stmts[i]
					switch {
					case len(st.Named) > 0:
						arr = append(arr, []any{st.SQL, st.Named})
					case len(st.Params) > 0:
						arr = append(arr, append([]any{st.SQL}, st.Params...))
					default:
						arr = append(arr, st.SQL)
					}
				}
				b, _ := json.Marshal(arr)
				target := "/db/" + op.Ep + "?timeout=8s"
				if op.Tx {
					target += "&transaction"
				}
				w := tgt.HTTPDo("POST", target, "application/json", b, "", "")
				httpCode, httpBody = w.Code, w.Body.String()
			}
		})
		crashed := false
		if victim != nil {
			s.RunUntil(func() bool { return hk.parked || t.Finished }, 30*time.Second)
			if !hk.parked && victim != ldr {
				// a follower applies the entry only when it learns the new commit index
				s.RunUntil(func() bool { return hk.parked }, 10*time.Second)
			}
			if hk.parked {
				// crash image while the apply of this entry is in progress on the victim
				synctest.Wait()
				fin, err := victim.Kill()
				if err != nil {
					c.Discard("crash-failed: " + err.Error())
					close(hk.release)
					return
				}
				c.Fault("crash-in-apply-" + op.Crash.At)
				if victim == ldr {
					c.Probe("crash_in_apply_on_leader")
				} else {
					c.Probe("crash_in_apply_on_follower")
				}
				c.Log.Add("%d crash image of n%d inside apply (%s)", s.StepN, victim.Idx, op.Crash.At)
				close(hk.release)
				hk.parked = false
				var ferr error
				if !s.Do(fmt.Sprintf("teardown-%d", victim.Idx), 120*time.Second, func() { ferr = fin() }) || ferr != nil {
					c.Discard(fmt.Sprintf("teardown of crashed node failed: %v", ferr))
					return
				}
				down = append(down, victim.Idx)
				crashed = true
			} else {
				hk.armed = false
				c.Probe("crash_point_not_reached_" + op.Crash.At)
				c.Log.Add("%d crash point %s not reached (victim n%d, leader n%d, finished=%v)", s.StepN, op.Crash.At, victim.Idx, ldr.Idx, t.Finished)
			}
		}
		if !s.Await(t, 60*time.Second) {
			c.Discard("request-did-not-return")
			return
		}
		if op.Ep != "proxy" && httpCode == 200 {
			var perr error
			gotRes, topErr, perr = c13ParseHTTPResults(httpBody)
			if perr != nil {
				c.Violate("bad-response", "request %d: cannot decode response body %.300s: %v", oi, httpBody, perr)
				return
			}
		}
		definite := httpCode == 200 && topErr == "" && callErr == nil
		if crashed && tgt == victim {
			definite = false // the answer came from a process that died before it could send it
		}
		c.Log.Add("%d req %d code=%d definite=%v results=%d crashed=%v", s.StepN, oi, httpCode, definite, len(gotRes), crashed)
		if c.Replay {
			c.Log.AddUnhashed("    # body %.400s err=%v", httpBody, callErr)
		}

		// reference
		before, err := cloneRef()
		if err != nil {
			c.Discard("oracle-db clone: " + err.Error())
			return
		}
		exp, err := c13RefApply(ref, op)
		if err != nil {
			before.Close()
			c.Discard("oracle-db apply: " + err.Error())
			return
		}
		if !definite && !barrier() {
			before.Close()
			c.Discard("no-barrier-write-after-unknown-outcome: " + s.StateDigest())
			return
		}
		if !settle() {
			before.Close()
			c.Discard("not-settled: " + s.StateDigest())
			return
		}
		if !definite {
			// outcome unknown to the client: the cluster must be in the state
			// "applied as a whole" (reference after) or "not applied" (reference before)
			c.Probe("requests_with_unknown_outcome")
			after, _ := sqlhDumpQ(ref)
			pre, _ := sqlhDumpQ(before)
			var got string
			for _, n := range s.Nodes[1:] {
				if n.Up {
					got, _ = s.DumpNode(n)
					break
				}
			}
			switch got {
			case after:
				c.Probe("unknown_outcome_applied")
				if after != pre && !crashed && len(down) == 0 && tgt == ldr && s.Leader() == ldr && !c13RaftExplains(topErr, httpBody, callErr) {
					// nothing was wrong with the cluster (no crash, all nodes up, same leader
					// before and after, request sent to it) and the answer is not raft telling
					// the client that it lost track of the entry (leadership lost and regained,
					// apply timeout): an applied request owes its results
					before.Close()
					c.Violate("applied-without-results", "request %d (%s tx=%v roe=%v) was applied on every node but the client got no result list: http %d top-level error %q call error %v body %.200s\n  stmts: %s",
						oi, op.Ep, op.Tx, op.Roe, httpCode, topErr, callErr, httpBody, c13StmtList(op))
					return
				}
				before.Close()
			case pre:
				c.Probe("unknown_outcome_not_applied")
				ref.Close()
				ref = before
			default:
				before.Close()
				c.Violate("partial-request", "request %d (%s tx=%v roe=%v) whose outcome the client did not learn (http %d %s %v) left the cluster neither in the state before it nor in the state after it as a whole: vs before: %s ; vs after: %s",
					oi, op.Ep, op.Tx, op.Roe, httpCode, topErr, callErr, sim.FirstDiff(pre, got), sim.FirstDiff(after, got))
				return
			}
			if !checkState(fmt.Sprintf("after request %d (unknown outcome)", oi)) {
				return
			}
			continue
		}
		before.Close()
		c.Probe("requests_definite")
		c.Probe("ep_" + op.Ep)
		if op.Tx {
			c.Probe("tx_requests")
		}
		failedSomewhere := false
		for _, r := range exp {
			if r.Err != "" {
				failedSomewhere = true
			}
		}
		if failedSomewhere {
			c.Probe("requests_with_failing_statement")
			if op.Tx || op.Begin {
				c.Probe("tx_requests_rolled_back")
			}
		}
		// result list
		if op.Ep == "load" {
			// one text statement: a single result, error iff some statement failed
			if len(gotRes) != 1 || (gotRes[0].Err != "") != failedSomewhere {
				c.Violate("result-mismatch", "request %d (load, begin=%v): expected one result with error=%v, got %v", oi, op.Begin, failedSomewhere, gotRes)
				return
			}
		} else {
			expList := exp
			if op.Ep == "proxy" && op.Begin {
				// explicit BEGIN / COMMIT statements have results of their own
				ok := len(gotRes) >= 1 && gotRes[0].Err == ""
				if !ok {
					c.Violate("result-mismatch", "request %d: BEGIN statement failed: %v", oi, gotRes)
					return
				}
				gotRes = gotRes[1:]
				if !failedSomewhere {
					if len(gotRes) == 0 || gotRes[len(gotRes)-1].Err != "" {
						c.Violate("result-mismatch", "request %d: COMMIT statement failed or missing: %v", oi, gotRes)
						return
					}
					gotRes = gotRes[:len(gotRes)-1]
				}
			}
			if len(gotRes) > len(expList) && op.Tx && c13AllReadOnly(op) {
				// no data is at stake (every statement is a query); reported under its own
				// class: such requests are served by the query path of the read-only pool
				c.Violate("readonly-tx-continues-after-failure", "request %d (%s tx=true, %d statements, all read-only): execution did not stop at the first failing statement: %d results returned, %d expected\n  got:      %v\n  expected: %v\n  stmts: %s",
					oi, op.Ep, nonEmpty, len(gotRes), len(expList), gotRes, expList, c13StmtList(op))
				return
			}
			if len(gotRes) != len(expList) {
				c.Violate("result-mismatch", "request %d (%s tx=%v roe=%v, %d non-empty statements): %d results returned, %d expected\n  got:      %v\n  expected: %v\n  stmts: %s",
					oi, op.Ep, op.Tx, op.Roe, nonEmpty, len(gotRes), len(expList), gotRes, expList, c13StmtList(op))
				return
			}
			j := 0
			for i := range op.Stmts {
				st := &op.Stmts[i]
				if st.SQL == "" {
					continue
				}
				if j >= len(expList) {
					break
				}
				if !c13SameOutcome(st, expList[j], gotRes[j]) {
					c.Violate("result-mismatch", "request %d (%s tx=%v roe=%v): result %d (statement %q) is %v, expected %v\n  stmts: %s", oi, op.Ep, op.Tx, op.Roe, j, st.SQL, gotRes[j], expList[j], c13StmtList(op))
					return
				}
				if expList[j].Err != "" && expList[j].Err != gotRes[j].Err {
					c.Probe("error_text_differs")
				}
				if expList[j].Err != "" && st.Kind == "select" {
					c.Probe("readonly_statement_failed_at_run_time")
					if op.Tx {
						c.Probe("readonly_statement_failed_at_run_time_in_tx")
					}
				}
				j++
			}
		}
		if !checkState(fmt.Sprintf("after request %d (%s tx=%v roe=%v begin=%v) stmts: %s", oi, op.Ep, op.Tx, op.Roe, op.Begin, c13StmtList(op))) {
			return
		}
	}
	if c.Failed() || c.Res.Verdict == core.Discarded {
		return
	}
	if s.Capped {
		c.Res.Verdict = core.Capped
		return
	}
	for _, d := range down {
		if err := s.Restart(d); err != nil {
			c.Violate("restart-failed", "node %d failed to restart from its crash image: %v", d, err)
			return
		}
		c.Probe("restart_state_checked")
	}
	if !settle() {
		c.Discard("not-settled-at-end: " + s.StateDigest())
		return
	}
	checkState("at the end, all nodes restarted")
	c.Res.Trivial = c.Res.Probes["requests_definite"] == 0
	d, _ := sqlhDumpQ(ref)
	c.Sig(fmt.Sprint(len(d)))
}

// c13RaftExplains: the error is one of raft's ways of saying "the entry may or
// may not commit" (leadership lost while committing, not leader any more,
// apply/enqueue timeout) - then the client legitimately has no results.
func c13RaftExplains(topErr, body string, callErr error) bool {
	t := strings.ToLower(topErr + " " + body)
	if callErr != nil {
		t += " " + strings.ToLower(callErr.Error())
	}
	return strings.Contains(t, "leader") || strings.Contains(t, "timeout") || strings.Contains(t, "timed out")
}

func c13AllReadOnly(op *c13Op) bool {
	for _, st := range op.Stmts {
		if st.SQL != "" && st.Kind != "select" {
			return false
		}
	}
	return true
}

func c13StmtList(op *c13Op) string {
	var parts []string
	for _, st := range op.Stmts {
		parts = append(parts, fmt.Sprintf("%q", st.SQL))
	}
	return strings.Join(parts, ", ")
}

func c13ProtoParam(a any) *proto.Parameter {
	name := ""
	if na, ok := a.(sql.NamedArg); ok {
		name, a = na.Name, na.Value
	}
	switch v := a.(type) {
	case int:
		return &proto.Parameter{Name: name, Value: &proto.Parameter_I{I: int64(v)}}
	case int64:
		return &proto.Parameter{Name: name, Value: &proto.Parameter_I{I: v}}
	case float64:
		return &proto.Parameter{Name: name, Value: &proto.Parameter_D{D: v}}
	case string:
		return &proto.Parameter{Name: name, Value: &proto.Parameter_S{S: v}}
	case bool:
		return &proto.Parameter{Name: name, Value: &proto.Parameter_B{B: v}}
	}
	return &proto.Parameter{Name: name}
}

// c13RefSQLDump returns statements that rebuild the reference database (schema,
// rows, AUTOINCREMENT counters).
func c13RefSQLDump(db *sql.DB) ([]string, error) {
	var out []string
	rows, err := db.Query(`SELECT name, sql FROM sqlite_master WHERE type='table' AND name NOT LIKE 'sqlite_%' ORDER BY name`)
	if err != nil {
		return nil, err
	}
	var tables []string
	for rows.Next() {
		var name, q string
		if err := rows.Scan(&name, &q); err != nil {
			rows.Close()
			return nil, err
		}
		out = append(out, q)
		tables = append(tables, name)
	}
	rows.Close()
	tables = append(tables, "sqlite_sequence")
	for _, t := range tables {
		r, err := db.Query(`SELECT * FROM "` + t + `"`)
		if err != nil {
			if t == "sqlite_sequence" {
				continue
			}
			return nil, err
		}
		cols, _ := r.Columns()
		for r.Next() {
			vals := make([]any, len(cols))
			ptrs := make([]any, len(cols))
			for i := range vals {
				ptrs[i] = &vals[i]
			}
			if err := r.Scan(ptrs...); err != nil {
				r.Close()
				return nil, err
			}
			var lits []string
			for _, v := range vals {
				switch x := v.(type) {
				case nil:
					lits = append(lits, "NULL")
				case int64:
					lits = append(lits, fmt.Sprint(x))
				case float64:
					lits = append(lits, fmt.Sprint(x))
				case []byte:
					lits = append(lits, fmt.Sprintf("x'%x'", x))
				case string:
					lits = append(lits, "'"+strings.ReplaceAll(x, "'", "''")+"'")
				default:
					lits = append(lits, fmt.Sprintf("'%v'", x))
				}
			}
			out = append(out, fmt.Sprintf(`INSERT INTO "%s" VALUES(%s)`, t, strings.Join(lits, ",")))
		}
		r.Close()
	}
	return out, nil
}

func init() {
	core.Register(&core.Prop{ID: "C13", Bubble: true, Gen: c13Gen, Run: c13Run})
}
