package props

// C04: for any history of writes, full/incremental snapshots (incl. persists
// that are skipped or fail), reaps, loads, boots, installs and restarts,
// "newest snapshot + log after it" rebuilds exactly the applied database.
//
// One real store.Store as a single-node cluster (optionally a second,
// non-voting node that receives the log and snapshot installs). After EVERY
// op the node directory is imaged at a quiescent point and a clone is started
// from the image with the clean-snapshot fingerprint removed (fast path
// disabled): the clone restores the newest snapshot, replays the log and must
// dump exactly like the live node. The second node is compared with the
// leader whenever it has applied the same index, and is periodically crashed
// and rebuilt from its own snapshot store + log.

import (
	"bytes"
	"context"
	"encoding/hex"
	"encoding/json"
	"fmt"
	"os"
	"path/filepath"
	"testing/synctest"
	"time"

	"github.com/rqlite/rqlite/v10/command/proto"
	"github.com/rqlite/rqlite/v10/store"
	"github.com/rqlite/rqlite/v10/verifx"
	"verifsim/core"
	"verifsim/node"
	"verifsim/sim"
	"verifsim/simnet"
)

type c04Op struct {
	K    string `json:"k"` // w snap reap load boot reopen crash run | join2 part2 heal2 snap2 reap2 rebuild2
	N    int    `json:"n,omitempty"`
	Pad  int    `json:"pad,omitempty"`
	Seed uint64 `json:"s,omitempty"` // content seed of a write batch
	F    string `json:"f,omitempty"` // snapshot fault: skip fail-before fail-mid fail-fp fail-consume
	SC   bool   `json:"sc,omitempty"`
	Rm   bool   `json:"rm,omitempty"` // reopen/crash: remove the fingerprint before restarting
}

type c04Scenario struct {
	Seed  uint64     `json:"seed"`
	Knobs node.Knobs `json:"knobs"`
	Two   bool       `json:"two,omitempty"`
	Ops   []c04Op    `json:"ops"`
}

var c04Faults = []string{"skip", "fail-before", "fail-mid", "fail-fp", "fail-consume"}

func c04Gen(r *core.Rand, tier string) any {
	sc := &c04Scenario{Seed: r.Uint64()}
	k := node.Knobs{}
	if r.Bool(0.4) {
		k.SnapshotThreshold = uint64(r.Range(2, 8))
		k.SnapshotInterval = time.Duration(r.Range(40, 600)) * time.Millisecond
	}
	if r.Bool(0.25) {
		k.SnapshotThresholdWALSize = uint64(r.Range(1, 12)) * 4096
		if k.SnapshotInterval == 0 {
			k.SnapshotInterval = time.Duration(r.Range(40, 600)) * time.Millisecond
		}
	}
	if r.Bool(0.6) {
		k.SnapshotReapThreshold = r.Range(2, 4)
	}
	sc.Knobs = k
	sc.Two = r.Bool(0.35)
	nops := r.Range(8, 25)
	joined, parted := false, false
	for i := 0; i < nops; i++ {
		x := r.Intn(100)
		switch {
		case i == 0 || x < 34:
			pad := []int{0, r.Range(10, 300), r.Range(1000, 9000), r.Range(1000, 9000)}[r.Intn(4)]
			sc.Ops = append(sc.Ops, c04Op{K: "w", N: r.Range(1, 6), Pad: pad, Seed: r.Uint64() >> 1})
		case x < 60:
			op := c04Op{K: "snap", N: r.Intn(3)}
			if r.Bool(0.45) {
				op.F = c04Faults[r.Intn(len(c04Faults))]
			}
			sc.Ops = append(sc.Ops, op)
		case x < 65:
			sc.Ops = append(sc.Ops, c04Op{K: "reap"})
		case x < 73:
			sc.Ops = append(sc.Ops, c04Op{K: "load", N: r.Range(1, 8), Pad: r.Intn(3) * 900})
		case x < 76:
			sc.Ops = append(sc.Ops, c04Op{K: "boot", N: r.Range(1, 8), Pad: r.Intn(3) * 900})
		case x < 81:
			sc.Ops = append(sc.Ops, c04Op{K: "reopen", SC: r.Bool(0.5), Rm: r.Bool(0.5)})
		case x < 85:
			sc.Ops = append(sc.Ops, c04Op{K: "crash", Rm: r.Bool(0.5)})
		case x < 89:
			sc.Ops = append(sc.Ops, c04Op{K: "run", N: r.Range(50, 1500)})
		default:
			if !sc.Two {
				continue
			}
			switch {
			case !joined:
				sc.Ops = append(sc.Ops, c04Op{K: "join2"})
				joined = true
				if r.Bool(0.5) {
					// a snapshot right after a membership change: raft releases it without persisting
					sc.Ops = append(sc.Ops, c04Op{K: "snap"})
				}
			case !parted && r.Bool(0.4):
				sc.Ops = append(sc.Ops, c04Op{K: "part2"})
				parted = true
			case parted && r.Bool(0.6):
				sc.Ops = append(sc.Ops, c04Op{K: "heal2"})
				parted = false
			case r.Bool(0.15):
				sc.Ops = append(sc.Ops, c04Op{K: "reap2"})
			case r.Bool(0.5):
				op := c04Op{K: "snap2"}
				if r.Bool(0.5) {
					op.F = c04Faults[r.Intn(4)]
				}
				sc.Ops = append(sc.Ops, op)
			default:
				sc.Ops = append(sc.Ops, c04Op{K: "rebuild2"})
			}
		}
	}
	// Motifs: the combinations the property text singles out (a staged WAL that
	// was retained by a skipped/failed persist, followed by something that
	// replaces the base) are rare under independent sampling, so some runs get
	// one spliced in at a random position.
	w := func() c04Op {
		return c04Op{K: "w", N: r.Range(1, 5), Pad: []int{0, 200, 3000}[r.Intn(3)], Seed: r.Uint64() >> 1}
	}
	retain := func(k string) c04Op { return c04Op{K: k, F: c04Faults[r.Intn(3)]} }
	var motif []c04Op
	switch x := r.Intn(100); {
	case x < 30 && !(sc.Two && x < 20):
		motif = []c04Op{w(), {K: "snap"}, w(), retain("snap")}
		switch r.Intn(4) {
		case 0:
			motif = append(motif, c04Op{K: "load", N: r.Range(1, 8), Pad: r.Intn(3) * 900})
		case 1:
			motif = append(motif, c04Op{K: "boot", N: r.Range(1, 8), Pad: r.Intn(3) * 900})
		case 2:
			motif = append(motif, w(), retain("snap"), c04Op{K: "load", N: r.Range(1, 8)})
		default:
			motif = append(motif, c04Op{K: "crash", Rm: r.Bool(0.5)})
		}
		motif = append(motif, c04Op{K: "snap"}, w(), c04Op{K: "snap", N: r.Intn(2)}, w())
	case x >= 30 && x < 62 && sc.Two:
		// (c) the follower's own chain on top of an INSTALLED snapshot that carries
		// WAL files: the leader keeps a full snapshot plus unreaped incrementals (its
		// reap threshold is raised so that nothing consolidates them), truncates its
		// log while the follower is cut off, the follower is caught up by
		// InstallSnapshot (stored as data.db + the leader's WAL files), applies more
		// writes, snapshots incrementally, reaps, and is rebuilt from its own store.
		sc.Knobs.SnapshotReapThreshold = 50
		if !joined {
			motif = append(motif, c04Op{K: "join2"})
		}
		if parted {
			motif = append(motif, c04Op{K: "heal2"})
		}
		motif = append(motif, w(), c04Op{K: "snap"}, w(), c04Op{K: "snap"})
		if r.Bool(0.5) {
			motif = append(motif, w(), c04Op{K: "snap"})
		}
		motif = append(motif, c04Op{K: "part2"}, w(), w(), c04Op{K: "snap", N: 1}, c04Op{K: "heal2"},
			c04Op{K: "run", N: r.Range(1500, 4000)}, w(), c04Op{K: "snap2"})
		if r.Bool(0.5) {
			motif = append(motif, w(), c04Op{K: "snap2"})
		}
		motif = append(motif, c04Op{K: "reap2"}, w())
		if r.Bool(0.6) {
			motif = append(motif, c04Op{K: "rebuild2"}, w())
		}
	case x < 20 && sc.Two:
		if !joined {
			motif = append(motif, c04Op{K: "join2"})
		}
		if parted {
			motif = append(motif, c04Op{K: "heal2"})
		}
		motif = append(motif, w(), c04Op{K: "snap2"}, w(), retain("snap2"), c04Op{K: "part2"}, w(), w(), w(),
			c04Op{K: "snap", N: 1}, c04Op{K: "heal2"}, c04Op{K: "run", N: r.Range(1500, 4000)}, w(), c04Op{K: "snap2"}, c04Op{K: "rebuild2"}, w())
	}
	if len(motif) > 0 {
		at := r.Intn(len(sc.Ops) + 1)
		if sc.Two && motif[0].K != "join2" && !containsOp(sc.Ops[:at], "join2") && (containsOp(motif, "snap2") || containsOp(motif, "reap2")) {
			motif = append([]c04Op{{K: "join2"}}, motif...)
		}
		sc.Ops = append(sc.Ops[:at:at], append(motif, sc.Ops[at:]...)...)
	}
	return sc
}

func containsOp(ops []c04Op, k string) bool {
	for _, o := range ops {
		if o.K == k {
			return true
		}
	}
	return false
}

// c04Batch derives the statements of a write batch from its content seed.
func c04Batch(op c04Op) []string {
	r := core.NewRand(op.Seed)
	var out []string
	for j := 0; j < max(1, op.N); j++ {
		v := int64(r.Uint64()>>20) + 1
		pad := 0
		if op.Pad > 0 {
			pad = r.Range(op.Pad/2, op.Pad)
		}
		padHex := hex.EncodeToString(padBytes(v, pad))
		pick := fmt.Sprintf("(SELECT id FROM t ORDER BY id LIMIT 1 OFFSET (SELECT max(0,count(*)-1) FROM t)*%d/1000)", r.Intn(1000))
		switch x := r.Intn(10); {
		case x < 6:
			out = append(out, fmt.Sprintf("INSERT INTO t(v,pad) VALUES(%d,X'%s')", v, padHex))
		case x < 8:
			out = append(out, fmt.Sprintf("UPDATE t SET v=%d, pad=X'%s' WHERE id=%s", v, padHex, pick))
		default:
			out = append(out, fmt.Sprintf("DELETE FROM t WHERE id=%s", pick))
		}
	}
	return out
}

type c04Eng struct {
	c        *core.Ctx
	sc       *c04Scenario
	s        *sim.Sim
	n1, n2   *node.Node
	h        *hookCtl
	loadNo   int
	checks   int
	joined   bool
	parted   bool
	fatalImg bool
	restores int64 // num_restores accounted for (restarts and rebuild clones)

	// dump of a node's live database taken right after a user snapshot of that
	// node completed at a quiescent point, keyed by the snapshot's raft index:
	// the state any node must have after restoring a snapshot with that index
	dumpAt  map[uint64]string
	n2Store string // signature of the follower's snapshot store at its last clone check
}

func c04Run(c *core.Ctx, raw json.RawMessage) {
	var sc c04Scenario
	if err := json.Unmarshal(raw, &sc); err != nil {
		panic(err)
	}
	c.Rng = core.NewRand(sc.Seed)
	s := sim.New(c)
	defer s.Shutdown()
	e := &c04Eng{c: c, sc: &sc, s: s, h: newHookCtl(c), restores: storeStat("num_restores"), dumpAt: map[uint64]string{}}
	e.h.logHits = false
	// error injection only; the fatal handler models rqlite's deliberate exit
	// (Sink.Close failing after the staged WALs were consumed) as a crash.
	verifx.InstallHooks(e.h.hit, nil, nil, nil, e.fatal)
	defer unhook()
	if err := s.Boot(1, sc.Knobs, nil); err != nil {
		c.Discard("boot-failed: " + clean(c, err.Error()))
		return
	}
	e.n1 = s.Nodes[1]
	var err error
	s.Do("schema", 60*time.Second, func() { err = execStmts(e.n1, []string{tblSchema}, false) })
	if err != nil {
		c.Discard("schema-failed: " + clean(c, err.Error()))
		return
	}
	e.h.armed = true
	for i, op := range sc.Ops {
		if c.Failed() || s.Capped || c.Res.Verdict == core.Discarded {
			break
		}
		e.doOp(i, op)
		if c.Failed() || s.Capped || c.Res.Verdict == core.Discarded {
			break
		}
		e.check(i, op)
	}
	c.Res.Trivial = e.checks < 3
	c.Res.Cases = e.checks
}

// fatal is installed as verifhook's Fatal handler: image the directory right
// there (the process would exit here), let the caller return its error.
func (e *c04Eng) fatal(point string, err error) bool {
	logf(e.c, "fatal exit point %s: %v", point, err)
	e.c.Fault("fatal@" + point)
	img := e.n1.Dir + ".fatal"
	os.RemoveAll(img)
	if node.CopyTree(e.n1.Dir, img) == nil {
		e.fatalImg = true
	}
	return true
}

func (e *c04Eng) armFault(f string) {
	switch f {
	case "fail-before":
		e.h.errNext["store.persist.before"] = errInjected
	case "fail-mid":
		e.h.errNext["store.persist.before-finalizer"] = errInjected
	case "fail-fp":
		e.h.errNext["store.fingerprint.before-rename"] = errInjected
	case "fail-consume":
		e.h.errNext["snapshot.sink.close.after-waldir-move"] = errInjected
	}
}

func (e *c04Eng) disarm() {
	e.h.mu.Lock()
	for k := range e.h.errNext {
		delete(e.h.errNext, k)
		e.c.Probe("fault_point_not_reached")
	}
	e.h.mu.Unlock()
}

func (e *c04Eng) snapshot(i int, n *node.Node, op c04Op) {
	c, s := e.c, e.s
	if !n.Up {
		return
	}
	full0, inc0 := storeStat("num_snapshots_full"), storeStat("num_snapshots_incremental")
	_, staged0 := snapDirs(n.Dir)
	var err error
	if op.F == "skip" {
		// what raft does while a configuration change is pending: FSM snapshot
		// taken, then released without Persist
		s.Do(fmt.Sprintf("op%d snap-skip %s", i, n.ID), 120*time.Second, func() {
			var f interface{ Release() }
			f, err = store.NewFSM(n.Store).Snapshot()
			if err == nil {
				f.Release()
			}
		})
		if err == nil {
			c.Fault("persist-skipped")
		}
	} else {
		e.armFault(op.F)
		s.Do(fmt.Sprintf("op%d snap %s %d %s", i, n.ID, op.N, op.F), 120*time.Second, func() { err = n.Store.Snapshot(uint64(op.N)) })
		e.disarm()
	}
	logf(c, "op%d snapshot %s f=%s: %v", i, n.ID, op.F, stErrClass(err))
	if err == nil && op.F != "skip" {
		c.Probe("snapshot_ok")
		e.recordSnapshotState(n)
	}
	if err != nil && op.F == "" && containsStr(err.Error(), "wait until the configuration entry") {
		c.Fault("persist-skipped-by-raft")
	}
	if storeStat("num_snapshots_full") > full0 {
		c.Probe("snapshot_full")
	}
	if storeStat("num_snapshots_incremental") > inc0 {
		c.Probe("snapshot_incremental")
	}
	_, staged1 := snapDirs(n.Dir)
	if staged1 > 0 {
		c.Probe("staged_wal_retained")
		if staged1 >= 2 {
			c.Probe("staged_wal_retained_2plus")
		}
	}
	if staged0 > 0 && err == nil && op.F == "" {
		c.Probe("snapshot_after_retained_wal")
	}
	if e.fatalImg {
		e.fatalImg = false
		c.Fault("exit-after-wal-consumed")
		if terr := tearDownTo(s, n, n.Dir+".fatal"); terr != nil {
			c.Discard("teardown-failed: " + clean(c, terr.Error()))
			return
		}
		e.restart(n, false, "exit")
	}
}

func stErrClass(err error) string {
	if err == nil {
		return "<nil>"
	}
	return stTrunc(err.Error(), 100)
}

func containsStr(s, sub string) bool { return len(sub) > 0 && bytes.Contains([]byte(s), []byte(sub)) }

func (e *c04Eng) restart(n *node.Node, rm bool, why string) {
	c, s := e.c, e.s
	if rm && removeFingerprint(n.Dir) {
		c.Probe("restart_forced_rebuild")
	}
	sk := storeStat("num_restores_start_skipped")
	crcBad := false
	if err := startNode(s, n, &crcBad); err != nil {
		stViolate(c, "restart-failed", "%s does not open after %s: %v", n.ID, why, err)
		return
	}
	if storeStat("num_restores_start_skipped") > sk {
		c.Probe("restart_fast_path")
	} else {
		c.Probe("restart_rebuild_path")
	}
	e.restores = storeStat("num_restores")
	if n == e.n1 {
		if err := settle(s, n); err != nil {
			stViolate(c, "restart-no-leader", "%s not ready after %s: %v", n.ID, why, err)
			return
		}
	}
	if crcBad {
		stViolate(c, "fingerprint-crc-mismatch", "%s: clean-snapshot fingerprint matched mtime and size but not the CRC after %s", n.ID, why)
	}
}

func (e *c04Eng) doOp(i int, op c04Op) {
	c, s, n := e.c, e.s, e.n1
	switch op.K {
	case "w":
		stmts := c04Batch(op)
		var err error
		s.Do(fmt.Sprintf("op%d w n=%d", i, len(stmts)), 120*time.Second, func() { err = execStmts(n, stmts, false) })
		if err != nil {
			logf(c, "op%d write: %v", i, stErrClass(err))
			c.Probe("write_error")
		} else {
			c.Probe("write_batches")
			if op.Pad >= 1000 {
				c.Probe("write_batches_page_heavy")
			}
		}
	case "snap":
		e.snapshot(i, n, op)
	case "snap2":
		if e.n2 != nil {
			e.snapshot(i, e.n2, op)
		}
	case "reap2":
		if e.n2 == nil || !e.n2.Up {
			return
		}
		var a, b int
		var err error
		_, withWAL, _ := snapStoreInfo(e.n2.Dir)
		s.Do(fmt.Sprintf("op%d reap2", i), 120*time.Second, func() { a, b, err = e.n2.Store.Reap() })
		logf(c, "op%d reap2: %d %d %v", i, a, b, stErrClass(err))
		if err == nil && a > 0 {
			c.Probe("follower_reaped")
			if withWAL {
				c.Probe("follower_reaped_over_installed_snapshot_with_wals")
			}
		}
	case "reap":
		var a, b int
		var err error
		s.Do(fmt.Sprintf("op%d reap", i), 120*time.Second, func() { a, b, err = n.Store.Reap() })
		logf(c, "op%d reap: %d %d %v", i, a, b, stErrClass(err))
		if err == nil && a > 0 {
			c.Probe("reaped")
		}
	case "load", "boot":
		e.loadNo++
		var rows []mrow
		for j := 0; j < max(1, op.N); j++ {
			rows = append(rows, mrow{V: int64(9000000 + e.loadNo*1000 + j), Pad: op.Pad})
		}
		data, err := makeLoadDB(s.Dir, e.loadNo, rows)
		if err != nil {
			c.Discard("harness: makeLoadDB: " + clean(c, err.Error()))
			return
		}
		_, staged := snapDirs(n.Dir)
		s.Do(fmt.Sprintf("op%d %s %d rows", i, op.K, len(rows)), 120*time.Second, func() {
			if op.K == "load" {
				err = n.Store.Load(context.Background(), &proto.LoadRequest{Data: data})
			} else {
				_, err = n.Store.ReadFrom(bytes.NewReader(data))
			}
		})
		logf(c, "op%d %s: %v", i, op.K, stErrClass(err))
		if err == nil {
			c.Probe(op.K + "_ok")
			if staged > 0 {
				c.Probe(op.K + "_with_retained_staged_wal")
			}
		}
	case "reopen":
		n.Store.NoSnapshotOnClose = !op.SC
		s.Do(fmt.Sprintf("op%d close sc=%v", i, op.SC), 300*time.Second, func() { n.Stop() })
		e.restart(n, op.Rm, "clean close")
	case "crash":
		if err := s.Crash(1); err != nil {
			c.Discard("crash-failed: " + clean(c, err.Error()))
			return
		}
		e.restart(n, op.Rm, "crash")
	case "run":
		s.RunFor(time.Duration(op.N) * time.Millisecond)
	case "join2":
		if e.joined || !e.sc.Two {
			return
		}
		s.AddNode(e.sc.Knobs)
		if err := s.StartAndJoin(2, false); err != nil {
			c.Discard("join-failed: " + clean(c, err.Error()))
			return
		}
		e.n2 = s.Nodes[2]
		e.joined = true
		c.Probe("joined_second_node")
	case "part2":
		if e.n2 != nil && !e.parted {
			s.Net.Partition([]string{e.n1.HostName}, []string{e.n2.HostName})
			e.parted = true
			c.Fault("partition")
		}
	case "heal2":
		if e.parted {
			s.Net.Heal()
			e.parted = false
			c.Fault("heal")
		}
	case "rebuild2":
		if e.n2 == nil || !e.n2.Up {
			return
		}
		if err := s.Crash(2); err != nil {
			c.Discard("crash-failed: " + clean(c, err.Error()))
			return
		}
		e.restart(e.n2, true, "crash of the follower")
	}
}

// check is the oracle, run after every op.
func (e *c04Eng) check(i int, op c04Op) {
	c, s, n := e.c, e.s, e.n1
	if !n.Up {
		return
	}
	synctest.Wait()
	if r := storeStat("num_restores"); r > e.restores {
		// a restore that is neither a restart nor a rebuild clone: InstallSnapshot on the follower
		c.ProbeN("follower_snapshot_install", int(r-e.restores))
		e.restores = r
	}
	live, err := s.DumpNode(n)
	if err != nil {
		stViolate(c, "live-dump-failed", "after op %d (%s): live database unreadable: %v", i, op.K, err)
		return
	}
	nsnap, staged := snapDirs(n.Dir)
	// clone from an image, fast path disabled
	base := filepath.Join(s.Dir, "clone")
	os.RemoveAll(base)
	cn := node.New(simnet.New(), 1, base, node.Knobs{NoSnapshotOnClose: true})
	if err := node.CopyTree(n.Dir, cn.Dir); err != nil {
		c.Discard("image-failed: " + clean(c, err.Error()))
		return
	}
	removeFingerprint(cn.Dir)
	e.h.armed = false
	defer func() { e.h.armed = true }()
	rest0 := storeStat("num_restores")
	if err := startNode(s, cn, nil); err != nil {
		stViolate(c, "rebuild-failed", "after op %d (%s): a node started from the image of the directory (snapshots=%d staged=%d) does not open: %v", i, op.K, nsnap, staged, err)
		return
	}
	stopped := false
	stopClone := func() {
		if !stopped {
			stopped = true
			s.Do("stop-clone", 300*time.Second, func() { cn.Stop() })
			os.RemoveAll(base)
			// the clone restores exactly once iff its image holds a snapshot; any
			// further restore during its lifetime was an install on the follower
			r := storeStat("num_restores")
			own := int64(0)
			if nsnap > 0 {
				own = 1
			}
			if extra := r - rest0 - own; extra > 0 {
				c.ProbeN("follower_snapshot_install", int(extra))
			}
			e.restores = r
		}
	}
	defer stopClone()
	if err := settle(s, cn); err != nil {
		stViolate(c, "rebuild-no-leader", "after op %d (%s): node rebuilt from the image is not ready: %v", i, op.K, err)
		return
	}
	if storeStat("num_restores") > rest0 {
		c.Probe("rebuild_restored_a_snapshot")
	}
	cd, err := s.DumpNode(cn)
	if err != nil {
		stViolate(c, "rebuild-dump-failed", "after op %d (%s): rebuilt database unreadable: %v", i, op.K, err)
		return
	}
	e.checks++
	c.Probe("rebuild_checks")
	if cd != live {
		stViolate(c, "rebuild-differs", "after op %d (%s, snapshots=%d staged-wals=%d): newest snapshot + log rebuilds a database different from the live one: %s", i, op.K+"/"+op.F, nsnap, staged, sim.FirstDiff(cd, live))
		return
	}
	c.Sig(fmt.Sprintf("%d/%d/%d", nsnap, staged, len(live)))
	logf(c, "op%d check ok snaps=%d staged=%d len=%d", i, nsnap, staged, len(live))
	stopClone()

	// second node: same applied index => same database
	if e.n2 != nil && e.n2.Up && !e.parted {
		ok := s.RunUntil(func() bool { return e.n2.Store.AppliedIndex() >= n.Store.AppliedIndex() && s.PendingTasks() == 0 }, 30*time.Second)
		if r := storeStat("num_restores"); r > e.restores {
			c.ProbeN("follower_snapshot_install", int(r-e.restores))
			e.restores = r
		}
		if !ok {
			c.Probe("follower_not_caught_up")
			return
		}
		live2, err := s.DumpNode(n)
		if err != nil {
			return
		}
		fd, err := s.DumpNode(e.n2)
		if err != nil {
			stViolate(c, "follower-dump-failed", "after op %d (%s): follower database unreadable: %v", i, op.K, err)
			return
		}
		c.Probe("follower_checks")
		if fd != live2 {
			stViolate(c, "follower-differs", "after op %d (%s): follower at the leader's applied index has a different database: %s", i, op.K+"/"+op.F, sim.FirstDiff(fd, live2))
			return
		}
	}
	e.checkFollowerStore(i, op)
}

// recordSnapshotState remembers the database a node had when its newest
// snapshot was taken (called right after a user snapshot returned, at a
// quiescent point, when nothing newer than the snapshot has changed the
// database).
func (e *c04Eng) recordSnapshotState(n *node.Node) {
	idx, _, _ := snapStoreInfo(n.Dir)
	if idx == 0 || n.Store.DBAppliedIndex() > idx {
		return
	}
	if d, err := e.s.DumpNode(n); err == nil {
		e.dumpAt[idx] = d
	}
}

// checkFollowerStore applies the rebuild oracle to the FOLLOWER's directory:
// whenever its snapshot store changed (own snapshot, install, reap), a clone is
// started from an image of its directory with the fingerprint removed. A
// non-voter cannot elect itself, so the clone only restores the newest snapshot;
// its dump must equal the database recorded when a snapshot with that raft
// index was taken (on the follower itself, or on the leader for an install).
func (e *c04Eng) checkFollowerStore(i int, op c04Op) {
	c, s, n := e.c, e.s, e.n2
	if n == nil || !n.Up || c.Failed() {
		return
	}
	synctest.Wait()
	idx, installed, sig := snapStoreInfo(n.Dir)
	if sig == e.n2Store || idx == 0 {
		return
	}
	e.n2Store = sig
	want, ok := e.dumpAt[idx]
	if !ok {
		c.Probe("follower_store_changed_without_reference")
		return
	}
	base := filepath.Join(s.Dir, "clone2")
	os.RemoveAll(base)
	cn := node.New(simnet.New(), 2, base, node.Knobs{NoSnapshotOnClose: true})
	if err := node.CopyTree(n.Dir, cn.Dir); err != nil {
		c.Discard("image-failed: " + clean(c, err.Error()))
		return
	}
	removeFingerprint(cn.Dir)
	e.h.armed = false
	defer func() { e.h.armed = true }()
	rest0 := storeStat("num_restores")
	if err := startNode(s, cn, nil); err != nil {
		stViolate(c, "follower-rebuild-failed", "after op %d (%s): a node started from the image of the follower's directory does not open: %v", i, op.K, err)
		return
	}
	cd, derr := s.DumpNode(cn)
	s.Do("stop-clone2", 300*time.Second, func() { cn.Stop() })
	os.RemoveAll(base)
	r := storeStat("num_restores")
	if extra := r - rest0 - 1; extra > 0 {
		c.ProbeN("follower_snapshot_install", int(extra))
	}
	e.restores = r
	if derr != nil {
		stViolate(c, "follower-rebuild-dump-failed", "after op %d (%s): database restored from the follower's snapshot store is unreadable: %v", i, op.K, derr)
		return
	}
	c.Probe("follower_rebuild_checks")
	if installed {
		c.Probe("follower_rebuild_checks_over_installed_snapshot_with_wals")
	}
	if cd != want {
		stViolate(c, "follower-rebuild-differs", "after op %d (%s): the follower's newest snapshot (raft index %d) restores a database different from the one applied at that index: %s", i, op.K+"/"+op.F, idx, sim.FirstDiff(cd, want))
		return
	}
	logf(c, "op%d follower store check ok idx=%d", i, idx)
}

func init() {
	core.Register(&core.Prop{ID: "C04", Bubble: true, Gen: c04Gen, Run: c04Run})
}
