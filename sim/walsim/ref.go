// Package walsim is the checkpoint simulation used by C05 and C06: one driver
// goroutine holds several connections to one real WAL-mode SQLite database
// (rqlite's db.DB with its CheckpointManager, plus reader connections that hold
// read marks) and executes a seeded schedule of writer transactions, reader
// start/stop and checkpoint attempts. This file is the reference side of the
// oracles: an independent reader of the WAL format (SQLite's validity rule:
// salt match AND running checksum, stop at the first bad frame) and helpers
// that let SQLite itself apply a WAL to a database file.
package walsim

import (
	"bytes"
	"database/sql"
	"encoding/binary"
	"fmt"
	"os"
	"sync"

	sqlite3 "github.com/mattn/go-sqlite3"
)

const (
	walHdr = 32
	frmHdr = 24
)

// RefFrame is one frame of the valid prefix.
type RefFrame struct {
	Pgno   uint32
	Commit uint32 // database size in pages for a commit frame, else 0
}

// RefWAL is what SQLite's recovery would make of a WAL image.
type RefWAL struct {
	HeaderOK   bool
	PageSize   int
	Salt       [2]uint32
	Frames     []RefFrame // frames valid by salt and checksum chain, in file order
	Commits    []int      // frame counts at transaction boundaries: 0 and every index just after a commit frame
	LastCommit int        // number of frames SQLite would use (mxFrame after recovery)
	FileFrames int        // whole frames physically present in the file
	SaltFrames int        // leading frames that match the header salt (and have pgno != 0), checksum ignored
	TailBytes  int        // bytes after the last whole frame
}

// OpenTail reports whether valid frames follow the last commit (an
// unterminated trailing transaction).
func (w *RefWAL) OpenTail() bool { return len(w.Frames) > w.LastCommit }

func cksum(bo binary.ByteOrder, s0, s1 uint32, b []byte) (uint32, uint32) {
	for i := 0; i+8 <= len(b); i += 8 {
		s0 += bo.Uint32(b[i:]) + s1
		s1 += bo.Uint32(b[i+4:]) + s0
	}
	return s0, s1
}

// ParseWAL applies SQLite's recovery rules (wal.c walIndexRecover /
// walDecodeFrame) to a WAL image.
func ParseWAL(b []byte) *RefWAL {
	w := &RefWAL{Commits: []int{0}}
	if len(b) < walHdr {
		return w
	}
	magic := binary.BigEndian.Uint32(b[0:])
	var bo binary.ByteOrder
	switch magic {
	case 0x377f0682:
		bo = binary.LittleEndian
	case 0x377f0683:
		bo = binary.BigEndian
	default:
		return w
	}
	if binary.BigEndian.Uint32(b[4:]) != 3007000 {
		return w
	}
	ps := int(binary.BigEndian.Uint32(b[8:]))
	if ps == 1 { // not used by SQLite for WAL headers (65536 is stored as is) but be lenient
		ps = 65536
	}
	if ps < 512 || ps > 65536 || ps&(ps-1) != 0 {
		return w
	}
	s0, s1 := cksum(bo, 0, 0, b[:24])
	if s0 != binary.BigEndian.Uint32(b[24:]) || s1 != binary.BigEndian.Uint32(b[28:]) {
		return w
	}
	w.HeaderOK = true
	w.PageSize = ps
	w.Salt = [2]uint32{binary.BigEndian.Uint32(b[16:]), binary.BigEndian.Uint32(b[20:])}
	fsz := frmHdr + ps
	w.FileFrames = (len(b) - walHdr) / fsz
	w.TailBytes = (len(b) - walHdr) % fsz
	chainOK := true
	saltOK := true
	for i := 0; i < w.FileFrames; i++ {
		f := b[walHdr+i*fsz : walHdr+(i+1)*fsz]
		pgno := binary.BigEndian.Uint32(f[0:])
		commit := binary.BigEndian.Uint32(f[4:])
		sOK := binary.BigEndian.Uint32(f[8:]) == w.Salt[0] && binary.BigEndian.Uint32(f[12:]) == w.Salt[1] && pgno != 0
		if !sOK {
			saltOK = false
		}
		if saltOK {
			w.SaltFrames++
		}
		if !chainOK {
			continue
		}
		if !sOK {
			chainOK = false
			continue
		}
		s0, s1 = cksum(bo, s0, s1, f[:8])
		s0, s1 = cksum(bo, s0, s1, f[frmHdr:])
		if s0 != binary.BigEndian.Uint32(f[16:]) || s1 != binary.BigEndian.Uint32(f[20:]) {
			chainOK = false
			continue
		}
		w.Frames = append(w.Frames, RefFrame{Pgno: pgno, Commit: commit})
		if commit != 0 {
			w.LastCommit = len(w.Frames)
			w.Commits = append(w.Commits, w.LastCommit)
		}
	}
	return w
}

// Prefix returns the WAL image cut after its first k frames.
func Prefix(b []byte, pageSize, k int) []byte {
	n := walHdr + k*(frmHdr+pageSize)
	if n > len(b) {
		n = len(b)
	}
	return append([]byte(nil), b[:n]...)
}

// FrameData returns the page image of frame i (0-based).
func FrameData(b []byte, pageSize, i int) []byte {
	off := walHdr + i*(frmHdr+pageSize) + frmHdr
	return b[off : off+pageSize]
}

// LatestPages returns, for the frames [from,to) of the valid prefix, the index
// of the last frame of every page.
func (w *RefWAL) LatestPages(from, to int) map[uint32]int {
	m := map[uint32]int{}
	for i := from; i < to && i < len(w.Frames); i++ {
		m[w.Frames[i].Pgno] = i
	}
	return m
}

var regOnce sync.Once

const refDriver = "verif-walsim-ref"

func openRef(path string) (*sql.DB, error) {
	// Plain go-sqlite3 driver: no connect hook, default checkpoint-on-close.
	regOnce.Do(func() { sql.Register(refDriver, &sqlite3.SQLiteDriver{}) })
	d, err := sql.Open(refDriver, "file:"+path)
	if err != nil {
		return nil, err
	}
	d.SetMaxOpenConns(1)
	return d, nil
}

// ApplyWAL lets SQLite itself checkpoint the WAL image into the database file
// at dbPath (which must have no WAL of its own). It returns the number of
// frames SQLite found usable in the image (mxFrame after recovery). Afterwards
// dbPath has no -wal/-shm files.
func ApplyWAL(dbPath string, walImage []byte) (int, error) {
	os.Remove(dbPath + "-shm")
	if err := os.WriteFile(dbPath+"-wal", walImage, 0o644); err != nil {
		return 0, err
	}
	d, err := openRef(dbPath)
	if err != nil {
		return 0, err
	}
	var busy, nlog, nckpt int
	err = d.QueryRow("PRAGMA wal_checkpoint(FULL)").Scan(&busy, &nlog, &nckpt)
	if err != nil {
		d.Close()
		return 0, fmt.Errorf("reference checkpoint: %w", err)
	}
	if busy != 0 || nlog != nckpt {
		d.Close()
		return 0, fmt.Errorf("reference checkpoint incomplete: busy=%d log=%d ckpt=%d", busy, nlog, nckpt)
	}
	if err := d.Close(); err != nil {
		return 0, err
	}
	// Close of the last connection checkpoints and removes the WAL; make sure.
	os.Remove(dbPath + "-wal")
	os.Remove(dbPath + "-shm")
	if nlog < 0 {
		nlog = 0
	}
	return nlog, nil
}

// FirstDiffPage returns a short description of the first difference of two
// database images.
func FirstDiffPage(a, b []byte, pageSize int) string {
	if bytes.Equal(a, b) {
		return ""
	}
	n := len(a)
	if len(b) < n {
		n = len(b)
	}
	for i := 0; i < n; i++ {
		if a[i] != b[i] {
			return fmt.Sprintf("sizes %d/%d, first differing byte at offset %d (page %d, byte %d of the page)", len(a), len(b), i, i/pageSize+1, i%pageSize)
		}
	}
	return fmt.Sprintf("sizes %d/%d (%d vs %d pages), common prefix equal", len(a), len(b), len(a)/pageSize, len(b)/pageSize)
}
