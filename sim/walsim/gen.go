package walsim

import "verifsim/core"

var pageSizes = []int{512, 1024, 2048, 4096, 8192, 16384, 32768, 65536}

// GenOpts selects what a generated schedule contains.
type GenOpts struct {
	Observe bool // insert obs ops (C05)
	Faults  bool // give obs ops disk faults
	MinOps  int
	MaxOps  int
}

// Gen draws a scenario: configuration knobs (swarm style: each run enables a
// random subset of behaviours) and the schedule.
func Gen(r *core.Rand, o GenOpts) *Scenario {
	sc := &Scenario{Seed: r.Uint64()}
	// page size: small pages (many frames, overflow chains) are the most
	// productive; large ones are sampled less often because they cost more.
	sc.PageSize = pageSizes[r.Weighted([]int{5, 4, 2, 4, 2, 1, 1, 1})]
	sc.BusyMs = 1
	sc.Index = r.Bool(0.4)
	if r.Bool(0.3) {
		sc.AutoVac = 1 + r.Intn(2)
	}
	// a small page cache makes transactions spill frames into the WAL before
	// they commit (pages appear twice in one transaction; a rollback leaves
	// frames behind).
	if r.Bool(0.45) {
		sc.Cache = r.Range(1, 12)
	}
	en := func(p float64) bool { return r.Bool(p) }
	useReaders := en(0.9)
	useRollback := en(0.5)
	useExplicit := en(0.3)
	useVacuum := en(0.6)
	useDrop := en(0.6)
	useFull := en(0.3)
	bigRows := en(0.5)

	nops := r.Range(o.MinOps, o.MaxOps)
	tables := map[int]bool{0: true}
	pickTab := func() int {
		// existing table most of the time
		for tries := 0; tries < 4; tries++ {
			t := r.Intn(4)
			if tables[t] {
				return t
			}
		}
		return 0
	}
	sz := func() int {
		switch {
		case bigRows && r.Bool(0.3):
			return r.Range(sc.PageSize/2, 3*sc.PageSize) // overflow pages
		case r.Bool(0.5):
			return r.Range(1, 40)
		default:
			return r.Range(40, 400)
		}
	}
	wop := func() Op {
		op := Op{K: "w", S: r.Uint64()}
		x := r.Intn(100)
		switch {
		case x < 45:
			op.T, op.Tab, op.N, op.Sz = "ins", pickTab(), r.Range(1, 12), sz()
			if r.Bool(0.15) {
				op.N = r.Range(12, 40)
			}
			if op.Sz > 8192 && op.N > 6 {
				op.N = 6
			}
		case x < 62:
			op.T, op.Tab, op.N, op.Sz = "upd", pickTab(), r.Range(1, 5), sz()
			op.A = r.Intn(op.N)
		case x < 74:
			op.T, op.Tab, op.N = "del", pickTab(), r.Range(1, 4)
			op.A = r.Intn(op.N)
		case x < 82:
			op.T, op.Tab, op.Sz = "ctab", r.Intn(4), sz()
			tables[op.Tab] = true
		case x < 88:
			if useDrop {
				op.T, op.Tab = "dtab", 1+r.Intn(3)
				delete(tables, op.Tab)
			} else {
				op.T, op.Tab, op.N, op.Sz = "ins", pickTab(), r.Range(1, 6), sz()
			}
		case x < 95:
			if useVacuum {
				op.T = "vac"
				if sc.AutoVac == 2 && r.Bool(0.5) {
					op.T = "ivac"
				}
			} else {
				op.T, op.Tab, op.N = "del", pickTab(), 1
			}
		default:
			op.T, op.Tab, op.N, op.Sz = "ins", pickTab(), r.Range(1, 3), sz()
		}
		if useRollback && r.Bool(0.2) && (op.T == "ins" || op.T == "upd" || op.T == "del" || op.T == "ctab") {
			op.Rb = true
			if op.T == "ctab" {
				delete(tables, op.Tab)
			}
		}
		return op
	}
	active := [NReaders]bool{}
	inTx := false
	sc.Ops = append(sc.Ops, wop(), Op{K: "ck"})
	obsOrCk := func() Op {
		if o.Observe && r.Bool(0.5) {
			return genObs(r, o)
		}
		return Op{K: "ck"}
	}
	// short write: a restarted WAL that receives fewer frames than the previous
	// generation had keeps stale frames of that generation behind its end
	small := func() Op {
		return Op{K: "w", T: "ins", Tab: pickTab(), N: r.Range(1, 2), Sz: r.Range(1, 30), S: r.Uint64()}
	}
	for len(sc.Ops) < nops {
		x := r.Intn(100)
		if useReaders && r.Bool(0.12) {
			// Patterns around the three checkpoint outcomes. They are only
			// likely, not certain, to produce the outcome named: what happens
			// depends on the state the earlier ops left.
			i := r.Intn(NReaders)
			j := (i + 1 + r.Intn(NReaders-1)) % NReaders
			var m []Op
			switch r.Intn(5) {
			case 0: // all moved, not truncated; readers gone; next write restarts the WAL
				m = []Op{wop(), {K: "rs", I: i}, {K: "ck"}, {K: "re", I: i}, small(), obsOrCk()}
			case 1: // all moved, not truncated; reader stays; writes are appended; resume offset used
				m = []Op{wop(), {K: "rs", I: i}, {K: "ck"}, wop(), obsOrCk(), {K: "re", I: i}, wop(), {K: "ck"}}
			case 2: // reader older than the last write: only some pages can move
				m = []Op{{K: "rs", I: i}, wop(), wop(), {K: "ck"}, {K: "re", I: i}}
			case 3: // after an all-moved attempt a new reader reads the main file only (lock 0): the WAL restarts under it and then nothing can be moved
				m = []Op{wop(), {K: "rs", I: i}, {K: "ck"}, {K: "re", I: i}, {K: "rs", I: j}, small(), {K: "ck"}, {K: "re", I: j}, {K: "ck"}}
			default: // two generations of resets in a row
				m = []Op{wop(), wop(), {K: "rs", I: i}, {K: "ck"}, {K: "re", I: i}, small(), {K: "rs", I: j}, {K: "ck"}, {K: "re", I: j}, small(), obsOrCk()}
			}
			for _, op := range m {
				if op.K == "rs" {
					active[op.I] = true
				}
				if op.K == "re" {
					active[op.I] = false
				}
			}
			sc.Ops = append(sc.Ops, m...)
			continue
		}
		switch {
		case x < 40:
			sc.Ops = append(sc.Ops, wop())
		case x < 44:
			if useExplicit {
				if !inTx {
					sc.Ops = append(sc.Ops, Op{K: "w", T: "begin", S: r.Uint64()})
					inTx = true
				} else {
					t := "commit"
					if r.Bool(0.3) {
						t = "rollback"
					}
					sc.Ops = append(sc.Ops, Op{K: "w", T: t, S: r.Uint64()})
					inTx = false
				}
			}
		case x < 58:
			if useReaders {
				i := r.Intn(NReaders)
				if !active[i] {
					sc.Ops = append(sc.Ops, Op{K: "rs", I: i})
					active[i] = true
				}
			}
		case x < 72:
			if useReaders {
				i := r.Intn(NReaders)
				if active[i] {
					sc.Ops = append(sc.Ops, Op{K: "re", I: i})
					active[i] = false
				}
			}
		case x < 92:
			sc.Ops = append(sc.Ops, Op{K: "ck"})
		case x < 94:
			if useFull {
				sc.Ops = append(sc.Ops, Op{K: "full"})
			}
		default:
			if o.Observe {
				sc.Ops = append(sc.Ops, genObs(r, o))
			}
		}
	}
	if o.Observe {
		sc.Ops = append(sc.Ops, genObs(r, o))
	}
	return sc
}

func genObs(r *core.Rand, o GenOpts) Op {
	op := Op{K: "obs", S: r.Uint64()}
	if !o.Faults || r.Bool(0.4) {
		return op
	}
	kinds := []string{"trunc", "garbage", "saltflip", "zeroframe", "cksumflip", "dataflip"}
	n := 1
	if r.Bool(0.2) {
		n = 2
	}
	for i := 0; i < n; i++ {
		f := Fault{K: kinds[r.Weighted([]int{4, 2, 2, 2, 2, 2})], S: r.Uint64(), N: r.Range(1, 3)}
		// positions are biased towards the tail of the file
		f.Frac = r.Float64()
		if r.Bool(0.6) {
			f.Frac = 1 - f.Frac*f.Frac*0.3
		}
		op.F = append(op.F, f)
	}
	return op
}
