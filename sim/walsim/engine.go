package walsim

import (
	"context"
	"database/sql"
	"encoding/binary"
	"errors"
	"fmt"
	"os"
	"path/filepath"
	"sort"
	"strings"
	"time"

	command "github.com/rqlite/rqlite/v10/command/proto"
	"github.com/rqlite/rqlite/v10/db"
	"github.com/rqlite/rqlite/v10/snapshot"
	"verifsim/core"
)

// Op is one step of the seeded schedule. Everything an op does is a function
// of its own fields and of the database state left by earlier ops, so any
// sub-list of a schedule is itself a valid schedule (needed for shrinking).
type Op struct {
	K   string  `json:"k"`             // w | rs | re | ck | full | obs
	T   string  `json:"t,omitempty"`   // w: ins upd del ctab dtab vac begin commit rollback
	Tab int     `json:"tab,omitempty"` // table number
	N   int     `json:"n,omitempty"`   // rows / modulus
	Sz  int     `json:"sz,omitempty"`  // blob size
	A   int     `json:"a,omitempty"`   // residue
	S   uint64  `json:"s,omitempty"`   // data seed
	Rb  bool    `json:"rb,omitempty"`  // the transaction ends with a failing statement: rqlite rolls it back
	I   int     `json:"i,omitempty"`   // reader slot
	F   []Fault `json:"f,omitempty"`   // obs: disk faults applied to the COPY of the WAL that is judged
}

// Fault is a disk fault on (a copy of) the WAL file.
type Fault struct {
	K    string  `json:"k"`    // trunc garbage saltflip zeroframe cksumflip dataflip
	Frac float64 `json:"frac"` // position, as a fraction of the file / of its frames
	N    int     `json:"n,omitempty"`
	S    uint64  `json:"s,omitempty"`
}

// Scenario is a complete run description.
type Scenario struct {
	Seed     uint64 `json:"seed"`
	Mode     string `json:"mode,omitempty"` // "" = db-level engine; "store" = real Store.Snapshot stratum (C06)
	PageSize int    `json:"page_size"`
	Cache    int    `json:"cache,omitempty"`   // PRAGMA cache_size (pages) on the write connection; 0 = SQLite default
	BusyMs   int    `json:"busy_ms"`           // checkpoint busy timeout
	Index    bool   `json:"index,omitempty"`   // tables get a secondary index
	AutoVac  int    `json:"autovac,omitempty"` // PRAGMA auto_vacuum of the initial file (0 none 1 full 2 incremental)
	Ops      []Op   `json:"ops"`
}

const NReaders = 3

// Attempt describes one checkpoint attempt as the harness saw it.
type Attempt struct {
	Full      bool
	Skipped   bool // nothing to snapshot (empty WAL on the incremental path)
	Err       error
	Meta      *db.CheckpointManagerMeta
	N         int64
	Segment   string // path of the captured segment (successful incremental attempt)
	PreSalt   [2]uint32
	PreWALLen int64
	NewFiles  []string // files that appeared in the staging directory during the attempt
	// ManagerCalled is false when the attempt failed before CheckpointManager.Checkpoint
	// was reached (its reset watch was then neither consulted nor changed).
	ManagerCalled bool
}

// Hooks are the property-specific observers.
type Hooks struct {
	BeforeAttempt func(e *Engine, full bool)
	AfterAttempt  func(e *Engine, a *Attempt)
	Observe       func(e *Engine, op *Op)
	AfterWrite    func(e *Engine, op *Op)
}

type reader struct {
	pool   *sql.DB
	conn   *sql.Conn
	active bool
}

// Engine runs a Scenario against the real db package.
type Engine struct {
	C       *core.Ctx
	Sc      *Scenario
	H       Hooks
	Dir     string
	DBPath  string
	WALPath string
	DB      *db.DB
	CM      *db.CheckpointManager
	Staging *snapshot.StagingDir
	readers [NReaders]*reader
	DueFull bool
	InTx    bool // an explicit BEGIN (spanning requests) is open on the write connection
	Timeout time.Duration
	OpIdx   int
	tmpN    int

	// GenBase is the main database file as it was when the current WAL
	// generation began (WAL empty, or just restarted with a new salt): it
	// contains no frame of the current WAL and everything before it.
	GenBase []byte
	genSalt [2]uint32
	genInit bool
}

// Tmp returns a fresh scratch path below the run directory.
func (e *Engine) Tmp(name string) string {
	e.tmpN++
	return filepath.Join(e.Dir, fmt.Sprintf("tmp-%06d-%s", e.tmpN, name))
}

func tableName(i int) string { return fmt.Sprintf("t%d", i) }

// Setup creates the database file with the scenario's page size through a
// plain SQLite connection (as a user-supplied file would be), then opens it
// with rqlite's db package exactly as the store does.
func (e *Engine) Setup() error {
	e.Dir = e.C.Dir
	e.DBPath = filepath.Join(e.Dir, "db.sqlite")
	e.WALPath = e.DBPath + "-wal"
	d, err := openRef(e.DBPath)
	if err != nil {
		return err
	}
	for _, q := range []string{
		fmt.Sprintf("PRAGMA page_size=%d", e.Sc.PageSize),
		fmt.Sprintf("PRAGMA auto_vacuum=%d", e.Sc.AutoVac),
		"PRAGMA journal_mode=WAL",
		e.createSQL(0),
	} {
		if _, err := d.Exec(q); err != nil {
			d.Close()
			return fmt.Errorf("%s: %w", q, err)
		}
	}
	if e.Sc.Index {
		if _, err := d.Exec(e.indexSQL(0)); err != nil {
			d.Close()
			return err
		}
	}
	if err := d.Close(); err != nil {
		return err
	}
	os.Remove(e.WALPath)
	os.Remove(e.DBPath + "-shm")

	e.DB, err = db.Open(e.DBPath, false, true)
	if err != nil {
		return err
	}
	if e.Sc.Cache != 0 {
		if _, err := e.DB.ExecuteStringStmt(fmt.Sprintf("PRAGMA cache_size=%d", e.Sc.Cache)); err != nil {
			return err
		}
	}
	e.CM, err = db.NewCheckpointManager(e.DB)
	if err != nil {
		return err
	}
	sd := filepath.Join(e.Dir, "wal-staging")
	if err := os.MkdirAll(sd, 0o755); err != nil {
		return err
	}
	e.Staging = snapshot.NewStagingDir(sd)
	e.DueFull = true
	e.Timeout = time.Duration(e.Sc.BusyMs) * time.Millisecond
	if e.Timeout <= 0 {
		e.Timeout = time.Millisecond
	}
	e.trackGeneration()
	return nil
}

func (e *Engine) createSQL(t int) string {
	return fmt.Sprintf("CREATE TABLE IF NOT EXISTS %s (id INTEGER PRIMARY KEY, k INTEGER, v BLOB)", tableName(t))
}

func (e *Engine) indexSQL(t int) string {
	return fmt.Sprintf("CREATE INDEX IF NOT EXISTS %s_k ON %s(k)", tableName(t), tableName(t))
}

// Close ends readers and closes everything.
func (e *Engine) Close() {
	for i := range e.readers {
		e.EndReader(i)
		if r := e.readers[i]; r != nil && r.pool != nil {
			r.pool.Close()
		}
	}
	if e.CM != nil {
		e.CM.Close()
	}
	if e.DB != nil {
		e.DB.Close()
	}
}

// Run executes the schedule.
func (e *Engine) Run() {
	for i := range e.Sc.Ops {
		if e.C.Failed() {
			return
		}
		e.OpIdx = i
		e.Step(&e.Sc.Ops[i])
	}
}

// trackGeneration refreshes GenBase when the WAL is empty or its salt changed.
// Between a restart of the WAL (inside a write) and the end of that op no
// checkpoint can run, so the main file still is the pre-generation image.
func (e *Engine) trackGeneration() {
	salt, size := ReadSalt(e.WALPath)
	if size < 32 {
		salt = [2]uint32{}
	}
	if e.genInit && size >= 32 && salt == e.genSalt {
		return
	}
	if b, err := os.ReadFile(e.DBPath); err == nil {
		e.GenBase = b
	}
	if e.genInit && size >= 32 && e.genSalt != ([2]uint32{}) {
		e.C.Probe("wal_restarted_with_new_salt")
	}
	e.genSalt, e.genInit = salt, true
}

func (e *Engine) Step(op *Op) {
	defer e.trackGeneration()
	switch op.K {
	case "w":
		e.write(op)
		if e.H.AfterWrite != nil {
			e.H.AfterWrite(e, op)
		}
	case "rs":
		e.StartReader(op.I)
	case "re":
		e.EndReader(op.I)
	case "ck":
		e.Attempt()
	case "full":
		e.DueFull = true
		e.C.Log.Add("op%d full-needed", e.OpIdx)
	case "obs":
		if e.H.Observe != nil {
			e.H.Observe(e, op)
		}
	}
}

// ---------------------------------------------------------------- writers

func blobParam(b []byte) *command.Parameter {
	return &command.Parameter{Value: &command.Parameter_Y{Y: b}}
}
func intParam(i int64) *command.Parameter {
	return &command.Parameter{Value: &command.Parameter_I{I: i}}
}

func (e *Engine) write(op *Op) {
	r := core.NewRand(op.S)
	t := tableName(op.Tab)
	req := &command.Request{Transaction: !e.InTx}
	add := func(sqlText string, p ...*command.Parameter) {
		req.Statements = append(req.Statements, &command.Statement{Sql: sqlText, Parameters: p})
	}
	switch op.T {
	case "ins":
		for i := 0; i < op.N; i++ {
			add("INSERT INTO "+t+"(k,v) VALUES(?,?)", intParam(int64(r.Intn(1000))), blobParam(r.Bytes(op.Sz)))
		}
	case "upd":
		add("UPDATE "+t+" SET k=k+1, v=? WHERE id % ? = ?", blobParam(r.Bytes(op.Sz)), intParam(int64(max(op.N, 1))), intParam(int64(op.A)))
	case "del":
		add("DELETE FROM "+t+" WHERE id % ? = ?", intParam(int64(max(op.N, 1))), intParam(int64(op.A)))
	case "ctab":
		add(e.createSQL(op.Tab))
		if e.Sc.Index {
			add(e.indexSQL(op.Tab))
		}
		add("INSERT INTO "+t+"(k,v) VALUES(?,?)", intParam(int64(r.Intn(1000))), blobParam(r.Bytes(op.Sz)))
	case "dtab":
		add("DROP TABLE IF EXISTS " + t)
	case "vac":
		// As store.doAutoVac does.
		err := e.DB.Vacuum()
		e.C.Log.Add("op%d w vac err=%v", e.OpIdx, errStr(err))
		if err == nil {
			e.C.Probe("w_vacuum")
		}
		return
	case "ivac":
		req.Transaction = false
		add("PRAGMA incremental_vacuum")
	case "begin":
		if e.InTx {
			return
		}
		req.Transaction = false
		add("BEGIN")
	case "commit", "rollback":
		if !e.InTx {
			return
		}
		req.Transaction = false
		add(strings.ToUpper(op.T))
	default:
		return
	}
	if op.Rb && req.Transaction {
		add("INSERT INTO no_such_table_verif VALUES(1)")
	}
	res, err := e.DB.Execute(req, false)
	nerr := 0
	first := ""
	for _, x := range res {
		if s := x.GetError(); s != "" {
			nerr++
			if first == "" {
				first = s
			}
		}
	}
	switch op.T {
	case "begin":
		if err == nil && nerr == 0 {
			e.InTx = true
			e.C.Probe("w_explicit_begin")
		}
	case "commit", "rollback":
		if err == nil && nerr == 0 {
			e.InTx = false
			e.C.Probe("w_explicit_" + op.T)
		}
	}
	if op.Rb && req.Transaction {
		e.C.Probe("w_rolled_back")
	} else if err == nil && nerr == 0 {
		e.C.Probe("w_" + op.T)
	}
	e.C.Log.Add("op%d w %s tab=%d n=%d sz=%d rb=%v intx=%v err=%v stmt_errs=%d %s", e.OpIdx, op.T, op.Tab, op.N, op.Sz, op.Rb, e.InTx, errStr(err), nerr, first)
}

func errStr(err error) string {
	if err == nil {
		return "nil"
	}
	return err.Error()
}

// ---------------------------------------------------------------- readers

// StartReader opens a read transaction on its own connection (same driver and
// DSN form as rqlite's read-only pool) and touches the database so that SQLite
// takes a read mark which it then holds until EndReader.
func (e *Engine) StartReader(i int) {
	if i < 0 || i >= NReaders {
		return
	}
	r := e.readers[i]
	if r == nil {
		pool, err := sql.Open(db.DefaultDriver().Name(), db.MakeDSN(e.DBPath, db.ModeReadOnly, false, true))
		if err != nil {
			e.C.Violate("harness-reader", "open reader: %v", err)
			return
		}
		pool.SetMaxOpenConns(1)
		r = &reader{pool: pool}
		e.readers[i] = r
	}
	if r.active {
		return
	}
	ctx := context.Background()
	conn, err := r.pool.Conn(ctx)
	if err != nil {
		e.C.Violate("harness-reader", "reader conn: %v", err)
		return
	}
	if _, err := conn.ExecContext(ctx, "BEGIN"); err != nil {
		conn.Close()
		e.C.Log.Add("op%d rs %d begin err=%v", e.OpIdx, i, err)
		return
	}
	var n int
	if err := conn.QueryRowContext(ctx, "SELECT count(*) FROM sqlite_master").Scan(&n); err != nil {
		conn.ExecContext(ctx, "ROLLBACK")
		conn.Close()
		e.C.Log.Add("op%d rs %d read err=%v", e.OpIdx, i, err)
		return
	}
	r.conn = conn
	r.active = true
	e.C.Probe("reader_started")
	e.C.Log.Add("op%d rs %d objects=%d", e.OpIdx, i, n)
}

func (e *Engine) EndReader(i int) {
	if i < 0 || i >= NReaders {
		return
	}
	r := e.readers[i]
	if r == nil || !r.active {
		return
	}
	r.conn.ExecContext(context.Background(), "ROLLBACK")
	r.conn.Close()
	r.conn = nil
	r.active = false
	e.C.Log.Add("op%d re %d", e.OpIdx, i)
}

// ActiveReaders counts readers holding a snapshot.
func (e *Engine) ActiveReaders() int {
	n := 0
	for _, r := range e.readers {
		if r != nil && r.active {
			n++
		}
	}
	return n
}

// EndAllReaders releases every read mark.
func (e *Engine) EndAllReaders() {
	for i := range e.readers {
		e.EndReader(i)
	}
}

// ---------------------------------------------------------------- checkpoint attempts

func (e *Engine) stagingFiles() []string {
	ents, _ := os.ReadDir(e.Staging.Path())
	var out []string
	for _, x := range ents {
		out = append(out, x.Name())
	}
	sort.Strings(out)
	return out
}

// ReadSalt reads the salt of the live WAL (zero if there is no header).
func ReadSalt(path string) ([2]uint32, int64) {
	f, err := os.Open(path)
	if err != nil {
		return [2]uint32{}, 0
	}
	defer f.Close()
	st, _ := f.Stat()
	var b [8]byte
	if _, err := f.ReadAt(b[:], 16); err != nil {
		return [2]uint32{}, st.Size()
	}
	return [2]uint32{binary.BigEndian.Uint32(b[0:]), binary.BigEndian.Uint32(b[4:])}, st.Size()
}

// ErrNoWAL mirrors store.ErrNoWALToSnapshot.
var ErrNoWAL = errors.New("no WAL to snapshot")

// Attempt is one snapshot attempt, mirroring the database part of
// store.fsmSnapshot (store/store.go): synchronous=FULL around it, a full
// attempt checkpoints without a writer, an incremental attempt stages a WAL
// segment through snapshot.StagingDir, cancels it on error and closes it on
// success.
func (e *Engine) Attempt() *Attempt {
	a := &Attempt{Full: e.DueFull}
	if e.H.BeforeAttempt != nil {
		e.H.BeforeAttempt(e, a.Full)
	}
	a.PreSalt, a.PreWALLen = ReadSalt(e.WALPath)
	before := e.stagingFiles()
	e.runAttempt(a)
	after := e.stagingFiles()
	seen := map[string]bool{}
	for _, f := range before {
		seen[f] = true
	}
	for _, f := range after {
		if !seen[f] {
			a.NewFiles = append(a.NewFiles, f)
		}
	}
	code, pages, moved := -1, -1, -1
	reset := false
	if a.Meta != nil {
		code, pages, moved, reset = a.Meta.Code, a.Meta.Pages, a.Meta.Moved, a.Meta.WALReset
	}
	e.C.Log.Add("op%d ck full=%v skipped=%v readers=%d prewal=%d err=%v code=%d pages=%d moved=%d reset=%v n=%d newfiles=%d",
		e.OpIdx, a.Full, a.Skipped, e.ActiveReaders(), a.PreWALLen, errStr(a.Err), code, pages, moved, reset, a.N, len(a.NewFiles))
	if e.H.AfterAttempt != nil {
		e.H.AfterAttempt(e, a)
	}
	return a
}

func (e *Engine) runAttempt(a *Attempt) {
	if err := e.DB.SetSynchronousMode(db.SynchronousFull); err != nil {
		a.Err = fmt.Errorf("failed to set synchronous mode to FULL for snapshot: %w", err)
		return
	}
	defer func() {
		if err := e.DB.SetSynchronousMode(db.SynchronousOff); err != nil {
			// the store calls logger.Fatalf here
			e.C.Violate("node-fatal", "failed to set synchronous mode to OFF after snapshot: %v", err)
		}
	}()
	if a.Full {
		a.ManagerCalled = true
		meta, n, err := e.CM.Checkpoint(nil, e.Timeout)
		a.Meta, a.N, a.Err = meta, n, err
		if err == nil && !meta.Success() {
			a.Err = errors.New("checkpoint did not succeed during full snapshot")
		}
		if a.Err == nil {
			e.DueFull = false
		}
		return
	}
	if st, err := os.Stat(e.WALPath); err != nil || st.Size() == 0 {
		a.Skipped = true
		a.Err = ErrNoWAL
		return
	}
	walWriter, path, err := e.Staging.CreateWAL()
	if err != nil {
		a.Err = err
		return
	}
	defer walWriter.Cancel()
	a.ManagerCalled = true
	meta, n, err := e.CM.Checkpoint(walWriter, e.Timeout)
	a.Meta, a.N, a.Err = meta, n, err
	if err != nil {
		var re db.RetryableError
		if errors.As(err, &re) && !re.Retryable() {
			walWriter.Cancel()
			e.C.Violate("node-fatal", "non-retryable checkpoint error (the store would exit): %v (meta %v)", err, meta)
		}
		return
	}
	if err := walWriter.Close(); err != nil {
		a.Err = err
		return
	}
	a.Segment = path
}

// LiveImage returns the live database as one fully checkpointed file image:
// a copy of the main file with a copy of the live WAL applied by SQLite.
func (e *Engine) LiveImage() ([]byte, error) {
	main, err := os.ReadFile(e.DBPath)
	if err != nil {
		return nil, err
	}
	w, _ := os.ReadFile(e.WALPath)
	if len(w) == 0 {
		return main, nil
	}
	p := e.Tmp("live.db")
	if err := os.WriteFile(p, main, 0o644); err != nil {
		return nil, err
	}
	defer os.Remove(p)
	if _, err := ApplyWAL(p, w); err != nil {
		return nil, err
	}
	return os.ReadFile(p)
}
