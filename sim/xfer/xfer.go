// Package xfer is the two-party snapshot-transfer engine used by C10 and C12.
//
// A transfer runs the real code end to end:
//
//	snapshot.Store.Open (LockingStreamer, checksummed header)
//	  -> store.NodeTransport.InstallSnapshot (optional zstd)
//	  -> raft.NetworkTransport (rpc header, bufio, msgpack)
//	  -> simnet connection (the driver decides every delivery, split and byte fault)
//	  -> raft.NetworkTransport.handleConn -> NodeTransport.Consumer (optional zstd)
//	  -> harness playing raft.installSnapshot: Store.Create / io.Copy / size check / Close
//	  -> harness playing raft restore: Store.Open(newID) -> snapshot.Restore
//
// Must be used inside a testing/synctest bubble: the driver acts only at
// quiescent points.
package xfer

import (
	"bytes"
	"errors"
	"fmt"
	"io"
	"net"
	"os"
	"path/filepath"
	"sort"
	"sync"
	"sync/atomic"
	"testing/synctest"
	"time"

	"github.com/hashicorp/raft"
	"github.com/rqlite/rqlite/v10/snapshot"
	"github.com/rqlite/rqlite/v10/store"
	"verifsim/core"
	"verifsim/simnet"
)

// ---------------------------------------------------------------- network layer

// layer implements store.Layer directly over simnet (no mux: the mux only
// demultiplexes on the first byte and is not part of the transfer path).
type layer struct {
	ln   *simnet.Listener
	host *simnet.Host

	mu       sync.Mutex
	dialed   *countConn
	accepted *simnet.Conn
}

type countConn struct {
	net.Conn
	sc      *simnet.Conn
	written atomic.Int64
}

func (c *countConn) Write(p []byte) (int, error) {
	n, err := c.Conn.Write(p)
	c.written.Add(int64(n))
	return n, err
}

func (l *layer) Accept() (net.Conn, error) {
	c, err := l.ln.Accept()
	if err != nil {
		return nil, err
	}
	l.mu.Lock()
	l.accepted = c.(*simnet.Conn)
	l.mu.Unlock()
	return c, nil
}
func (l *layer) Close() error   { return l.ln.Close() }
func (l *layer) Addr() net.Addr { return l.ln.Addr() }
func (l *layer) Dial(addr string, timeout time.Duration) (net.Conn, error) {
	c, err := l.host.Dial(addr, timeout)
	if err != nil {
		return nil, err
	}
	cc := &countConn{Conn: c, sc: c.(*simnet.Conn)}
	l.mu.Lock()
	l.dialed = cc
	l.mu.Unlock()
	return cc, nil
}

// Party is one side of a transfer: a real store.NodeTransport over a real
// raft.NetworkTransport listening on the simulated network.
type Party struct {
	ID   raft.ServerID
	Addr raft.ServerAddress
	Host string
	ly   *layer
	NT   *store.NodeTransport
	cons <-chan raft.RPC
}

const partyPort = 4002

func NewParty(nw *simnet.Net, host string, compress bool) (*Party, error) {
	h := nw.Host(host)
	ln, err := h.Listen(partyPort)
	if err != nil {
		return nil, err
	}
	ly := &layer{ln: ln, host: h}
	// Same parameters as store.Store.Open (connectionPoolCount 5, connectionTimeout 10s).
	nt := raft.NewNetworkTransport(store.NewTransport(ly), 5, 10*time.Second, io.Discard)
	p := &Party{ID: raft.ServerID(host), Addr: raft.ServerAddress(fmt.Sprintf("%s:%d", host, partyPort)), Host: host, ly: ly}
	p.NT = store.NewNodeTransport(nt, compress)
	p.cons = p.NT.Consumer()
	return p, nil
}

func (p *Party) Close() { p.NT.Close() }

// ---------------------------------------------------------------- faults

// WireFault is a byte-level fault applied to the snapshot stream as it
// travels on the connection (after compression, if any). Pos is relative to
// the first stream byte on the wire (the raft RPC header is never touched).
type WireFault struct {
	Kind string // flip | drop | insert | trunc-fin | trunc-rst
	Pos  int64  // 0 <= Pos < L (insert, trunc: <= L)
	Mask byte   // flip: xor mask (non-zero); insert: first inserted byte
	N    int    // drop/insert: number of bytes
}

// SplitPlan decides how the wire bytes are cut into deliveries (= the sizes of
// the reads the receiver sees = the sizes of the writes into the sink when the
// stream is not compressed).
type SplitPlan struct {
	Mode string  // whole | bytes | rand | cuts
	N    int     // bytes: deliver this many single bytes from the stream start, then whole
	Cuts []int64 // cuts: stream-relative positions at which a delivery must end
	Rng  *core.Rand
}

func (sp *SplitPlan) next(remaining int, streamPos int64) int {
	if remaining <= 1 {
		return remaining
	}
	switch sp.Mode {
	case "bytes":
		if streamPos >= 0 && streamPos < int64(sp.N) {
			return 1
		}
		if streamPos < 0 {
			// rpc header region: up to the stream start
			if int64(remaining) > -streamPos {
				return int(-streamPos)
			}
		}
		return remaining
	case "rand":
		sizes := []int{1, 1, 2, 3, 5, 8, 13, 64, 100, 1000, 4096, 4097, 9000, remaining}
		k := sizes[sp.Rng.Intn(len(sizes))]
		if k > remaining {
			k = remaining
		}
		return k
	case "cuts":
		for _, c := range sp.Cuts {
			if c > streamPos && c-streamPos < int64(remaining) {
				return int(c - streamPos)
			}
		}
		return remaining
	}
	return remaining
}

// ---------------------------------------------------------------- one transfer

// Spec describes one transfer.
type Spec struct {
	Src *snapshot.Store
	ID  string // snapshot to send

	// Producer-side override: when non-nil these bytes are sent instead of the
	// store's stream, with InstallSnapshotRequest.Size = len(Stream) (models a
	// sender whose header/length does not match the data).
	Stream []byte
	Meta   *raft.SnapshotMeta // required with Stream

	Dest       *snapshot.Store
	Zstd       bool
	Wire       *WireFault
	Split      SplitPlan
	RestoreTo  string // file to restore the installed snapshot into ("" = do not restore)
	NoCloseSrc bool
}

// Outcome is everything the oracle needs.
type Outcome struct {
	OpenErr   error // source Store.Open failed
	SendErr   error // NodeTransport.InstallSnapshot result at the sender
	RPCSeen   bool
	CreateErr error
	CopyErr   error
	ShortRead bool
	CloseErr  error
	Installed bool
	NewID     string
	ReqSize   int64
	Payload   []byte // bytes handed to the sink (decoded payload)
	WireLen   int64  // stream bytes on the wire (after compression)
	WireFired bool   // the wire fault actually changed/cut bytes
	Steps     int
	Stuck     bool
	Stray     []string // RPCs other than the transfer's own that the receiving transport decoded from this connection

	Restored    bool
	RestoreOpen error
	RestoreErr  error
}

func (o *Outcome) InstallErr() error {
	switch {
	case o.OpenErr != nil:
		return fmt.Errorf("open: %w", o.OpenErr)
	case o.CreateErr != nil:
		return fmt.Errorf("create: %w", o.CreateErr)
	case o.CopyErr != nil:
		return fmt.Errorf("copy: %w", o.CopyErr)
	case o.ShortRead:
		return errors.New("short read")
	case o.CloseErr != nil:
		return fmt.Errorf("close: %w", o.CloseErr)
	case !o.RPCSeen:
		return errors.New("rpc never arrived")
	}
	return nil
}

// Engine holds the four transports (plain pair, zstd pair) of a run.
type Engine struct {
	C   *core.Ctx
	Net *simnet.Net
	a   [2]*Party // senders: [plain, zstd]
	b   [2]*Party // receivers
	N   int       // transfers done
}

func NewEngine(c *core.Ctx, nw *simnet.Net) (*Engine, error) {
	e := &Engine{C: c, Net: nw}
	var err error
	for i, z := range []bool{false, true} {
		if e.a[i], err = NewParty(nw, fmt.Sprintf("10.0.1.%d", 1+2*i), z); err != nil {
			return nil, err
		}
		if e.b[i], err = NewParty(nw, fmt.Sprintf("10.0.1.%d", 2+2*i), z); err != nil {
			return nil, err
		}
	}
	return e, nil
}

func (e *Engine) Close() {
	for i := range e.a {
		e.a[i].Close()
		e.b[i].Close()
	}
	synctest.Wait()
}

type markReader struct {
	r     io.Reader
	cc    func() *countConn
	start int64 // wire offset of the first stream byte; -1 until known
}

func (m *markReader) Read(p []byte) (int, error) {
	if m.start < 0 {
		if c := m.cc(); c != nil {
			m.start = c.written.Load()
		}
	}
	return m.r.Read(p)
}

type teeReader struct {
	r   io.Reader
	buf *[]byte
}

func (t *teeReader) Read(p []byte) (int, error) {
	n, err := t.r.Read(p)
	*t.buf = append(*t.buf, p[:n]...)
	return n, err
}

func isDone(ch chan struct{}) bool {
	select {
	case <-ch:
		return true
	default:
		return false
	}
}

// Run performs one transfer and (optionally) the restore of what was installed.
func (e *Engine) Run(sp *Spec) *Outcome {
	zi := 0
	if sp.Zstd {
		zi = 1
	}
	A, B := e.a[zi], e.b[zi]
	out := &Outcome{}
	e.N++

	var meta *raft.SnapshotMeta
	var rc io.ReadCloser
	if sp.Stream != nil {
		meta = sp.Meta
		rc = io.NopCloser(bytes.NewReader(sp.Stream))
		out.ReqSize = int64(len(sp.Stream))
	} else {
		var err error
		meta, rc, err = sp.Src.Open(sp.ID)
		if err != nil {
			out.OpenErr = err
			return out
		}
		out.ReqSize = meta.Size
	}
	A.ly.mu.Lock()
	A.ly.dialed = nil
	A.ly.mu.Unlock()
	B.ly.mu.Lock()
	B.ly.accepted = nil
	B.ly.mu.Unlock()

	// What raft's replication goroutine sends (raft/replication.go sendLatestSnapshot).
	req := &raft.InstallSnapshotRequest{
		RPCHeader:          raft.RPCHeader{ProtocolVersion: raft.ProtocolVersionMax, ID: []byte(A.ID), Addr: []byte(A.Addr)},
		SnapshotVersion:    meta.Version,
		Term:               meta.Term,
		LastLogIndex:       meta.Index,
		LastLogTerm:        meta.Term,
		Size:               out.ReqSize,
		Configuration:      raft.EncodeConfiguration(meta.Configuration),
		ConfigurationIndex: meta.ConfigurationIndex,
	}
	mark := &markReader{r: rc, start: -1, cc: func() *countConn {
		A.ly.mu.Lock()
		defer A.ly.mu.Unlock()
		return A.ly.dialed
	}}
	sendDone := make(chan struct{})
	recvDone := make(chan struct{})
	cancel := make(chan struct{})
	go func() {
		defer close(sendDone)
		var resp raft.InstallSnapshotResponse
		out.SendErr = A.NT.InstallSnapshot(B.ID, B.Addr, req, &resp, mark)
		rc.Close()
	}()
	go func() {
		for {
			select {
			case rpc := <-B.cons:
				if r, ok := rpc.Command.(*raft.InstallSnapshotRequest); ok && !out.RPCSeen {
					out.RPCSeen = true
					install(rpc, r, sp.Dest, out)
					close(recvDone)
					continue // stay around: anything else the transport decodes belongs to this transfer too
				}
				stray(rpc, out)
			case <-cancel:
				return
			}
		}
	}()

	// ---- drive the connection
	synctest.Wait()
	A.ly.mu.Lock()
	cc := A.ly.dialed
	A.ly.mu.Unlock()
	var fwd *simnet.Conn
	var total, offset0 int64
	if cc != nil {
		fwd = cc.sc
		total = cc.written.Load()
		offset0 = mark.start
		if offset0 < 0 {
			offset0 = total
		}
		out.WireLen = total - offset0
	}
	wf := sp.Wire
	var mpos int64 = -1
	if wf != nil && fwd != nil {
		mpos = offset0 + wf.Pos
	}
	var (
		wirePos   int64 // original wire bytes consumed from the queue
		remaining int   // bytes of the current (already mutated) head still to deliver
		outPos    int64 // mutated wire bytes delivered so far
		truncated bool
		resetDone bool
		idle      int
	)
	for iter := 0; ; iter++ {
		synctest.Wait()
		if isDone(sendDone) && isDone(recvDone) {
			break
		}
		if isDone(sendDone) && !out.RPCSeen && len(e.Net.PendingHeads()) == 0 {
			// the sender gave up before the request ever reached the receiver
			break
		}
		if iter > 400000 || idle > 600 {
			out.Stuck = true
			break
		}
		out.Steps++
		var fh, rh *simnet.Pending
		heads := e.Net.PendingHeads()
		for i := range heads {
			h := &heads[i]
			if fwd != nil && h.C == fwd {
				fh = h
			} else if h.C.LocalHost() == B.Host && h.C.RemoteHost() == A.Host {
				rh = h
			}
		}
		switch {
		case fh != nil && fh.Fin:
			e.Net.Deliver(fwd, 0)
			idle = 0
		case fh != nil:
			idle = 0
			if remaining == 0 {
				// load the next queued segment and apply the fault to it
				segStart := wirePos
				segLen := int64(fh.Size)
				segEnd := segStart + segLen
				wirePos = segEnd
				newLen := int(segLen)
				if truncated {
					e.Net.MutateHead(fwd, func(b []byte) []byte { return nil })
					continue
				}
				if wf != nil {
					e.Net.MutateHead(fwd, func(b []byte) []byte {
						nb, fired, cut := applyFault(b, segStart, segEnd, total, mpos, wf)
						if fired {
							out.WireFired = true
						}
						if cut {
							truncated = true
						}
						newLen = len(nb)
						return nb
					})
				}
				remaining = newLen
				if remaining == 0 {
					continue
				}
			}
			k := sp.Split.next(remaining, outPos-offset0)
			if k <= 0 || k > remaining {
				k = remaining
			}
			if k == remaining {
				e.Net.Deliver(fwd, 0)
			} else {
				e.Net.Deliver(fwd, k)
			}
			remaining -= k
			outPos += int64(k)
		case rh != nil:
			idle = 0
			e.Net.Deliver(rh.C, 0)
		default:
			if truncated && wf.Kind == "trunc-rst" && !resetDone {
				e.Net.Reset(fwd)
				resetDone = true
				e.C.Fault("reset")
				continue
			}
			// nothing in flight: let timeouts fire
			idle++
			time.Sleep(500 * time.Millisecond)
		}
	}
	// Let the receiving transport finish with what it already holds: after a
	// rejected compressed stream raft's drain (io.Copy(io.Discard, rpc.Reader))
	// goes through the failed decompressor and leaves raw bytes in the
	// connection's buffer, which handleConn then decodes as the next RPC. Such
	// an RPC belongs to THIS transfer; it must not be left queued for the next.
	synctest.Wait()
	close(cancel)
	synctest.Wait()
	if fwd != nil {
		e.Net.Reset(fwd) // drop leftovers, let the acceptor's handler exit
	}
	for i := 0; i < 8; i++ {
		synctest.Wait()
		select {
		case rpc := <-B.cons:
			stray(rpc, out)
			continue
		default:
		}
		break
	}
	synctest.Wait()
	if out.Stuck {
		return out
	}

	if out.Installed && sp.RestoreTo != "" {
		// What raft does next (restoreSnapshot -> fsm.Restore -> store.fsmRestore).
		_, src, err := sp.Dest.Open(out.NewID)
		if err != nil {
			out.RestoreOpen = err
			return out
		}
		os.Remove(sp.RestoreTo)
		_, err = snapshot.Restore(src, sp.RestoreTo)
		src.Close()
		if err != nil {
			out.RestoreErr = err
			CleanRestoreTemps(filepath.Dir(sp.RestoreTo))
			return out
		}
		out.Restored = true
	}
	return out
}

// stray answers an RPC that is not the transfer's InstallSnapshot request (raft
// would hand it to its main loop) and records what it was.
func stray(rpc raft.RPC, out *Outcome) {
	d := fmt.Sprintf("%T", rpc.Command)
	switch r := rpc.Command.(type) {
	case *raft.InstallSnapshotRequest:
		d += fmt.Sprintf("{term=%d size=%d}", r.Term, r.Size)
	case *raft.AppendEntriesRequest:
		d += fmt.Sprintf("{term=%d entries=%d}", r.Term, len(r.Entries))
	case *raft.RequestVoteRequest:
		d += fmt.Sprintf("{term=%d}", r.Term)
	}
	out.Stray = append(out.Stray, d)
	if rpc.Reader != nil {
		io.Copy(io.Discard, rpc.Reader)
	}
	rpc.Respond(nil, errors.New("stray rpc"))
}

// CleanRestoreTemps removes WAL scratch files snapshot.Restore leaves behind on failure.
func CleanRestoreTemps(dir string) {
	m, _ := filepath.Glob(filepath.Join(dir, "restore-wal-*.tmp"))
	for _, f := range m {
		os.Remove(f)
	}
}

// applyFault rewrites one queued segment covering wire bytes [segStart,segEnd).
func applyFault(b []byte, segStart, segEnd, total, mpos int64, wf *WireFault) (nb []byte, fired, cut bool) {
	switch wf.Kind {
	case "flip":
		if mpos >= segStart && mpos < segEnd {
			b[mpos-segStart] ^= wf.Mask
			return b, true, false
		}
	case "drop":
		lo, hi := mpos, mpos+int64(wf.N)
		if lo < segStart {
			lo = segStart
		}
		if hi > segEnd {
			hi = segEnd
		}
		if lo < hi {
			nb = append(nb, b[:lo-segStart]...)
			nb = append(nb, b[hi-segStart:]...)
			return nb, true, false
		}
	case "insert":
		if (mpos >= segStart && mpos < segEnd) || (mpos == total && segEnd == total) {
			at := mpos - segStart
			nb = append(nb, b[:at]...)
			for i := 0; i < wf.N; i++ {
				nb = append(nb, wf.Mask+byte(i*31))
			}
			nb = append(nb, b[at:]...)
			return nb, true, false
		}
	case "trunc-fin", "trunc-rst":
		if mpos < segEnd {
			at := mpos - segStart
			if at < 0 {
				at = 0
			}
			return append([]byte(nil), b[:at]...), true, true
		}
	}
	return b, false, false
}

// install mirrors hashicorp/raft v1.7.3 (*Raft).installSnapshot up to and
// including sink.Close(); the harness plays raft's role on the receiver.
func install(rpc raft.RPC, req *raft.InstallSnapshotRequest, dest *snapshot.Store, out *Outcome) {
	resp := &raft.InstallSnapshotResponse{Term: req.Term}
	var rpcErr error
	defer func() {
		io.Copy(io.Discard, rpc.Reader)
		rpc.Respond(resp, rpcErr)
	}()
	conf := raft.DecodeConfiguration(req.Configuration)
	sink, err := dest.Create(raft.SnapshotVersionMax, req.LastLogIndex, req.LastLogTerm, conf, req.ConfigurationIndex, nil)
	if err != nil {
		out.CreateErr = err
		rpcErr = fmt.Errorf("failed to create snapshot: %v", err)
		return
	}
	n, err := io.Copy(sink, &teeReader{r: rpc.Reader, buf: &out.Payload})
	if err != nil {
		sink.Cancel()
		out.CopyErr = err
		rpcErr = err
		return
	}
	if n != req.Size {
		sink.Cancel()
		out.ShortRead = true
		rpcErr = fmt.Errorf("short read")
		return
	}
	if err := sink.Close(); err != nil {
		out.CloseErr = err
		rpcErr = err
		return
	}
	out.Installed = true
	out.NewID = sink.ID()
	resp.Success = true
}

// ---------------------------------------------------------------- helpers on stores

// ReadStream returns the complete stream Store.Open(id) produces.
func ReadStream(st *snapshot.Store, id string) (*raft.SnapshotMeta, []byte, error) {
	meta, rc, err := st.Open(id)
	if err != nil {
		return nil, nil, err
	}
	defer rc.Close()
	b, err := io.ReadAll(rc)
	return meta, b, err
}

// IDs lists all snapshot ids oldest first.
func IDs(st *snapshot.Store) ([]string, []*raft.SnapshotMeta, error) {
	metas, err := st.ListAll()
	if err != nil {
		return nil, nil, err
	}
	sort.SliceStable(metas, func(i, j int) bool {
		if metas[i].Term != metas[j].Term {
			return metas[i].Term < metas[j].Term
		}
		if metas[i].Index != metas[j].Index {
			return metas[i].Index < metas[j].Index
		}
		return metas[i].ID < metas[j].ID
	})
	ids := make([]string, len(metas))
	for i, m := range metas {
		ids[i] = m.ID
	}
	return ids, metas, nil
}

// DirEntries lists the entries of a directory (names only, sorted).
func DirEntries(dir string) []string {
	es, _ := os.ReadDir(dir)
	var out []string
	for _, e := range es {
		out = append(out, e.Name())
	}
	sort.Strings(out)
	return out
}
