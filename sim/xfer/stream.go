package xfer

import (
	"encoding/binary"
	"fmt"

	"github.com/rqlite/rqlite/v10/snapshot"
	sproto "github.com/rqlite/rqlite/v10/snapshot/proto"
	pb "google.golang.org/protobuf/proto"
)

// StreamInfo is the framing of a snapshot stream as the harness sees it.
type StreamInfo struct {
	HdrLen   int // length of the marshaled header (without the 4-byte prefix)
	DataOff  int // offset of the first file byte
	Version  uint32
	Full     bool
	DBSize   uint64
	DBCRC    uint32
	WALSizes []uint64
	WALCRCs  []uint32
	Bounds   []int64 // stream offsets at which a file starts/ends (incl. DataOff and end)
	Hdr      *sproto.SnapshotHeader
}

// ParseStream decodes the framing of a stream.
func ParseStream(b []byte) (*StreamInfo, error) {
	if len(b) < snapshot.HeaderSizeLen {
		return nil, fmt.Errorf("short stream")
	}
	n := int(binary.BigEndian.Uint32(b[:4]))
	if n < 0 || 4+n > len(b) {
		return nil, fmt.Errorf("header length %d beyond stream", n)
	}
	h, err := snapshot.UnmarshalSnapshotHeader(b[4 : 4+n])
	if err != nil {
		return nil, err
	}
	si := &StreamInfo{HdrLen: n, DataOff: 4 + n, Version: h.FormatVersion, Hdr: h}
	if f := h.GetFull(); f != nil && f.DbHeader != nil {
		si.Full = true
		si.DBSize, si.DBCRC = f.DbHeader.SizeBytes, f.DbHeader.Crc32
		off := int64(si.DataOff)
		si.Bounds = append(si.Bounds, off)
		off += int64(si.DBSize)
		si.Bounds = append(si.Bounds, off)
		for _, w := range f.WalHeaders {
			si.WALSizes = append(si.WALSizes, w.SizeBytes)
			si.WALCRCs = append(si.WALCRCs, w.Crc32)
			off += int64(w.SizeBytes)
			si.Bounds = append(si.Bounds, off)
		}
	}
	return si, nil
}

// Compare classifies how a received payload differs from the source stream.
//
//	"same"        identical bytes
//	"header-only" file bytes identical and the header decodes to the same payload
//	              type, sizes and checksums; detail lists what else differs
//	"altered"     anything else
func Compare(src, got []byte) (class, detail string) {
	if string(src) == string(got) {
		return "same", ""
	}
	a, errA := ParseStream(src)
	b, errB := ParseStream(got)
	if errA != nil {
		return "altered", "source stream unparsable: " + errA.Error()
	}
	first := 0
	for first < len(src) && first < len(got) && src[first] == got[first] {
		first++
	}
	where := fmt.Sprintf("first difference at stream offset %d (len %d vs %d)", first, len(src), len(got))
	if errB != nil {
		return "altered", where + "; received header unparsable: " + errB.Error()
	}
	if string(src[a.DataOff:]) != string(got[b.DataOff:]) {
		return "altered", where + "; file bytes differ"
	}
	if a.Full != b.Full || a.DBSize != b.DBSize || a.DBCRC != b.DBCRC || len(a.WALSizes) != len(b.WALSizes) {
		return "altered", where + "; header describes the files differently"
	}
	for i := range a.WALSizes {
		if a.WALSizes[i] != b.WALSizes[i] || a.WALCRCs[i] != b.WALCRCs[i] {
			return "altered", where + "; header describes the files differently"
		}
	}
	what := "fields=none(encoding-only)"
	if a.Version != b.Version {
		what = fmt.Sprintf("fields=format_version(%d->%d)", a.Version, b.Version)
	} else if len(b.Hdr.ProtoReflect().GetUnknown()) > 0 {
		what = "fields=unknown-field-added"
	}
	return "header-only", where + "; " + what
}

// MutateHeader rewrites the header of a stream (re-marshaled, length prefix
// fixed) so that it no longer matches the data that follows. ok=false when the
// mutation does not apply to this stream's shape.
func MutateHeader(stream []byte, kind string, arg int) (out []byte, ok bool) {
	si, err := ParseStream(stream)
	if err != nil || !si.Full {
		return nil, false
	}
	h := pb.Clone(si.Hdr).(*sproto.SnapshotHeader)
	f := h.GetFull()
	nw := len(f.WalHeaders)
	data := stream[si.DataOff:]
	switch kind {
	case "db-size+":
		f.DbHeader.SizeBytes += uint64(1 + arg%4096)
	case "db-size-":
		d := uint64(1 + arg%4096)
		if d > f.DbHeader.SizeBytes {
			d = f.DbHeader.SizeBytes
		}
		f.DbHeader.SizeBytes -= d
	case "db-crc":
		f.DbHeader.Crc32 ^= 1 << (uint(arg) % 32)
	case "wal-crc":
		if nw == 0 {
			return nil, false
		}
		f.WalHeaders[arg%nw].Crc32 ^= 1 << (uint(arg/7) % 32)
	case "wal-size+":
		if nw == 0 {
			return nil, false
		}
		f.WalHeaders[arg%nw].SizeBytes += uint64(1 + (arg/7)%4096)
	case "wal-size-":
		if nw == 0 {
			return nil, false
		}
		w := f.WalHeaders[arg%nw]
		d := uint64(1 + (arg/7)%4096)
		if d > w.SizeBytes {
			d = w.SizeBytes
		}
		w.SizeBytes -= d
	case "wal-swap":
		if nw < 2 {
			return nil, false
		}
		i := arg % (nw - 1)
		a, b := f.WalHeaders[i], f.WalHeaders[i+1]
		if a.SizeBytes == b.SizeBytes && a.Crc32 == b.Crc32 {
			return nil, false
		}
		f.WalHeaders[i], f.WalHeaders[i+1] = b, a
	case "wal-drop":
		if nw == 0 {
			return nil, false
		}
		f.WalHeaders = f.WalHeaders[:nw-1]
	case "wal-add":
		f.WalHeaders = append(f.WalHeaders, &sproto.Header{SizeBytes: uint64(32 + arg%5000), Crc32: uint32(arg) * 2654435761})
	case "shift":
		// move k bytes from the database to the first WAL: total length unchanged
		if nw == 0 {
			return nil, false
		}
		k := uint64(1 + arg%4096)
		if k >= f.DbHeader.SizeBytes {
			return nil, false
		}
		f.DbHeader.SizeBytes -= k
		f.WalHeaders[0].SizeBytes += k
	case "db-crc-as-wal":
		// database checksum replaced by the first WAL's
		if nw == 0 || f.WalHeaders[0].Crc32 == f.DbHeader.Crc32 {
			return nil, false
		}
		f.DbHeader.Crc32 = f.WalHeaders[0].Crc32
	default:
		return nil, false
	}
	hb, err := pb.Marshal(h)
	if err != nil {
		return nil, false
	}
	out = make([]byte, 4, 4+len(hb)+len(data))
	binary.BigEndian.PutUint32(out, uint32(len(hb)))
	out = append(out, hb...)
	out = append(out, data...)
	return out, true
}

// HeaderKinds lists the structured header mutations.
var HeaderKinds = []string{"db-size+", "db-size-", "db-crc", "wal-crc", "wal-size+", "wal-size-", "wal-swap", "wal-drop", "wal-add", "shift", "db-crc-as-wal"}
