package xfer

import (
	"bytes"
	"context"
	"encoding/hex"
	"fmt"
	"os"
	"path/filepath"
	"strconv"
	"strings"
	"time"

	"github.com/hashicorp/raft"
	"github.com/rqlite/rqlite/v10/command/proto"
	"github.com/rqlite/rqlite/v10/snapshot"
	"verifsim/core"
	"verifsim/node"
	"verifsim/sim"
)

// SnapInfo is what the harness knows about one snapshot of the source store.
type SnapInfo struct {
	ID     string
	Meta   *raft.SnapshotMeta
	Dump   string // logical content at snapshot time, recorded from the live node through the oracle connection
	Stream []byte // the un-faulted stream Store.Open(ID) produces
	Ref    []byte // database file produced by an un-faulted snapshot.Restore of Stream
	NWALs  int    // WAL files in the stream
	Needed []string
}

// Source is a snapshot store produced by a real single-node store.Store
// (real raft, real FSM snapshots: first full, then incrementals, optional reap).
type Source struct {
	NodeDir string // pristine image of the whole node directory (node stopped)
	SnapDir string // pristine image of its snapshot store directory
	Snaps   []*SnapInfo
	Node    *node.Node
	// FinalDump is the logical content of the node when it was stopped (the
	// state a restart must reproduce from snapshot + log).
	FinalDump string
}

// Build runs a single real node through the given steps and returns its
// snapshot store. Steps: "w<k>" k write requests, "snap" user snapshot,
// "reap" manual reap, "big" one large-blob write, "huge" one 270-300 KB row.
func Build(s *sim.Sim, steps []string, seed uint64, knobs node.Knobs) (*Source, error) {
	c := s.C
	r := core.NewRand(core.Mix(seed, 0xb11d))
	knobs.NoSnapshotOnClose = true
	if err := s.Boot(1, knobs, nil); err != nil {
		return nil, fmt.Errorf("boot: %w", err)
	}
	n := s.Nodes[1]
	snapDir := filepath.Join(n.Dir, "wsnapshots")
	exec := func(sqls ...string) error {
		var err error
		var res []*proto.ExecuteQueryResponse
		ok := s.Do("exec", 60*time.Second, func() {
			er := &proto.ExecuteRequest{Request: &proto.Request{}}
			for _, q := range sqls {
				er.Request.Statements = append(er.Request.Statements, &proto.Statement{Sql: q})
			}
			res, _, err = n.Store.Execute(context.Background(), er)
		})
		if !ok {
			return fmt.Errorf("exec did not finish")
		}
		if err != nil {
			return err
		}
		for _, x := range res {
			if x.GetError() != "" {
				return fmt.Errorf("stmt: %s", x.GetError())
			}
			if e := x.GetE(); e != nil && e.Error != "" {
				return fmt.Errorf("stmt: %s", e.Error)
			}
		}
		return nil
	}
	if err := exec("CREATE TABLE t (id INTEGER PRIMARY KEY, k INTEGER, v TEXT, b BLOB)", "CREATE INDEX ti ON t(k)"); err != nil {
		return nil, fmt.Errorf("schema: %w", err)
	}
	rows := 0
	write := func(big bool) error {
		x := r.Intn(100)
		switch {
		case big:
			rows++
			return exec(fmt.Sprintf("INSERT INTO t(k,v,b) VALUES(%d,'big',x'%s')", r.Intn(1000), hex.EncodeToString(r.Bytes(r.Range(1500, 6000)))))
		case rows > 3 && x < 20:
			return exec(fmt.Sprintf("UPDATE t SET v='%s', k=k+1 WHERE id=%d", randText(r, r.Range(3, 80)), 1+r.Intn(rows)))
		case rows > 3 && x < 30:
			return exec(fmt.Sprintf("DELETE FROM t WHERE id=%d", 1+r.Intn(rows)))
		case x < 36:
			tn := fmt.Sprintf("u%d", r.Intn(3))
			return exec(fmt.Sprintf("CREATE TABLE IF NOT EXISTS %s (a TEXT, n REAL)", tn), fmt.Sprintf("INSERT INTO %s VALUES('%s', %d.5)", tn, randText(r, 10), r.Intn(99)))
		default:
			rows++
			return exec(fmt.Sprintf("INSERT INTO t(k,v,b) VALUES(%d,'%s',x'%s')", r.Intn(1000), randText(r, r.Range(3, 120)), hex.EncodeToString(r.Bytes(r.Intn(40)))))
		}
	}
	dumpByIndex := map[uint64]string{}
	for _, st := range steps {
		switch {
		case strings.HasPrefix(st, "w"):
			k, _ := strconv.Atoi(st[1:])
			for i := 0; i < k; i++ {
				if err := write(false); err != nil {
					return nil, fmt.Errorf("write: %w", err)
				}
			}
		case st == "big":
			if err := write(true); err != nil {
				return nil, fmt.Errorf("write: %w", err)
			}
		case st == "huge":
			// one row larger than the transport's 256 KiB buffers: the stream then
			// spans several bufio flushes and several compressor chunks
			rows++
			if err := exec(fmt.Sprintf("INSERT INTO t(k,v,b) VALUES(%d,'huge',x'%s')", r.Intn(1000), hex.EncodeToString(r.Bytes(r.Range(270000, 300000))))); err != nil {
				return nil, fmt.Errorf("write: %w", err)
			}
		case st == "snap":
			var err error
			if !s.Do("snapshot", 120*time.Second, func() { err = n.Store.Snapshot(0) }) {
				return nil, fmt.Errorf("snapshot did not finish")
			}
			if err != nil && (strings.Contains(err.Error(), "no WAL data available") || strings.Contains(err.Error(), "nothing new to snapshot")) {
				// the writes since the last snapshot did not change the database
				c.Probe("build_snapshot_skipped")
				continue
			}
			if err != nil {
				return nil, fmt.Errorf("snapshot: %w", err)
			}
			// let a triggered auto-reap finish
			s.RunFor(50 * time.Millisecond)
			li, _, err := snapshot.LatestIndexTerm(snapDir)
			if err != nil {
				return nil, err
			}
			d, err := s.DumpNode(n)
			if err != nil {
				return nil, fmt.Errorf("dump: %w", err)
			}
			dumpByIndex[li] = d
			c.Probe("build_snapshots")
		case st == "reap":
			var err error
			var nr, nw int
			if !s.Do("reap", 120*time.Second, func() { nr, nw, err = n.Store.Reap() }) {
				return nil, fmt.Errorf("reap did not finish")
			}
			if err != nil {
				return nil, fmt.Errorf("reap: %w", err)
			}
			if nr > 0 || nw > 0 {
				c.Probe("build_reaps")
			}
		}
	}
	finalDump, err := s.DumpNode(n)
	if err != nil {
		return nil, fmt.Errorf("final dump: %w", err)
	}
	var stopErr error
	if !s.Do("stop-src", 120*time.Second, func() { stopErr = n.Stop() }) {
		return nil, fmt.Errorf("stop did not finish")
	}
	if stopErr != nil {
		return nil, fmt.Errorf("stop: %w", stopErr)
	}
	src := &Source{NodeDir: filepath.Join(s.Dir, "src-node.img"), SnapDir: filepath.Join(s.Dir, "src-snaps.img"), Node: n, FinalDump: finalDump}
	if err := node.CopyTree(n.Dir, src.NodeDir); err != nil {
		return nil, err
	}
	if err := node.CopyTree(snapDir, src.SnapDir); err != nil {
		return nil, err
	}
	// Reference data, computed on a scratch copy with the un-faulted real code
	// and validated against the independently recorded dumps.
	scratch := filepath.Join(s.Dir, "src-ref")
	if err := node.CopyTree(src.SnapDir, scratch); err != nil {
		return nil, err
	}
	defer os.RemoveAll(scratch)
	st, err := snapshot.NewStore(scratch)
	if err != nil {
		return nil, fmt.Errorf("open source snapshot store: %w", err)
	}
	defer st.Close()
	ids, metas, err := IDs(st)
	if err != nil {
		return nil, err
	}
	for i, id := range ids {
		meta, stream, err := ReadStream(st, id)
		if err != nil {
			return nil, fmt.Errorf("stream %s: %w", id, err)
		}
		if int64(len(stream)) != meta.Size {
			c.Violate("stream-size", "snapshot %s: stream has %d bytes, meta.Size says %d", id, len(stream), meta.Size)
			return nil, fmt.Errorf("stream size")
		}
		si := &SnapInfo{ID: id, Meta: metas[i], Stream: stream}
		tmp := filepath.Join(s.Dir, "ref-restore.db")
		os.Remove(tmp)
		if _, err := snapshot.Restore(bytes.NewReader(stream), tmp); err != nil {
			c.Violate("unfaulted-restore-failed", "restore of pristine snapshot %s failed: %v", id, err)
			return nil, fmt.Errorf("restore")
		}
		if si.Ref, err = os.ReadFile(tmp); err != nil {
			return nil, err
		}
		d, err := sim.DumpFiles(tmp, s.Dir)
		os.Remove(tmp)
		if err != nil {
			return nil, fmt.Errorf("dump of restored %s: %w", id, err)
		}
		want, ok := dumpByIndex[metas[i].Index]
		if !ok {
			return nil, fmt.Errorf("no recorded dump for snapshot index %d", metas[i].Index)
		}
		if d != want {
			c.Violate("unfaulted-restore-mismatch", "pristine snapshot %s restores to different content than the node had at index %d: %s", id, metas[i].Index, sim.FirstDiff(want, d))
			return nil, fmt.Errorf("restore mismatch")
		}
		si.Dump = want
		if h, err := ParseStream(stream); err == nil {
			si.NWALs = len(h.WALSizes)
		}
		src.Snaps = append(src.Snaps, si)
	}
	return src, nil
}

func randText(r *core.Rand, n int) string {
	const al = "abcdefghijklmnopqrstuvwxyz ABCDEFGHIJ0123456789_-"
	b := make([]byte, n)
	for i := range b {
		b[i] = al[r.Intn(len(al))]
	}
	return string(b)
}

// OpenCopy copies a pristine store image to dir and opens a snapshot.Store on it.
func OpenCopy(img, dir string) (*snapshot.Store, error) {
	os.RemoveAll(dir)
	if err := node.CopyTree(img, dir); err != nil {
		return nil, err
	}
	if err := os.MkdirAll(dir, 0o755); err != nil {
		return nil, err
	}
	return snapshot.NewStore(dir)
}
