// Package simclock gives the simulator ownership of SQLite's notion of 'now'
// without touching /repo: the harness binary defines gettimeofday, and the
// statically linked SQLite (unix VFS xCurrentTimeInt64) resolves to it.
// When no simulated time is set the real clock is used (clock_gettime).
package simclock

/*
#include <sys/time.h>
#include <time.h>
static volatile long long verif_now_us = 0; // 0 = real clock

int gettimeofday(struct timeval *restrict tv, void *restrict tz) {
	(void)tz;
	if (!tv) return 0;
	if (verif_now_us != 0) {
		tv->tv_sec = verif_now_us / 1000000;
		tv->tv_usec = verif_now_us % 1000000;
		return 0;
	}
	struct timespec ts;
	clock_gettime(CLOCK_REALTIME, &ts);
	tv->tv_sec = ts.tv_sec;
	tv->tv_usec = ts.tv_nsec / 1000;
	return 0;
}
// SQLite's PRNG (WAL salts, temp names) is seeded from the VFS (/dev/urandom)
// unless a seed is configured through the documented test-control verb.
extern int sqlite3_test_control(int op, ...);
static void verif_seed_sqlite(unsigned int seed) {
	sqlite3_test_control(28, (int)seed, (void*)0); // 28 = SQLITE_TESTCTRL_PRNG_SEED
}
static void verif_set_now(long long us) { verif_now_us = us; }
static long long verif_get_now(void) { return verif_now_us; }
*/
import "C"

import "time"

// Set makes SQLite's 'now' equal t (microsecond resolution).
func Set(t time.Time) { C.verif_set_now(C.longlong(t.UnixMicro())) }

// Unset returns SQLite to the real clock.
func Unset() { C.verif_set_now(0) }

func Get() time.Time { return time.UnixMicro(int64(C.verif_get_now())) }

// SeedSQLite makes SQLite's internal PRNG (WAL salts, temporary names) a
// function of seed (0 restores seeding from the OS).
func SeedSQLite(seed uint32) { C.verif_seed_sqlite(C.uint(seed)) }
