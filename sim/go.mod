module verifsim

go 1.26

godebug randseednop=0

require (
	github.com/anishathalye/porcupine v1.3.0
	github.com/hashicorp/raft v1.7.3
	github.com/mattn/go-sqlite3 v1.14.47
	github.com/rqlite/rqlite/v10 v10.0.0
	github.com/rqlite/sql v0.0.0-20260224021119-1b2524a41372
	google.golang.org/protobuf v1.36.11
)

require (
	github.com/armon/go-metrics v0.6.0 // indirect
	github.com/aws/aws-sdk-go-v2 v1.42.0 // indirect
	github.com/aws/aws-sdk-go-v2/aws/protocol/eventstream v1.7.13 // indirect
	github.com/aws/aws-sdk-go-v2/config v1.32.25 // indirect
	github.com/aws/aws-sdk-go-v2/credentials v1.19.24 // indirect
	github.com/aws/aws-sdk-go-v2/feature/ec2/imds v1.18.29 // indirect
	github.com/aws/aws-sdk-go-v2/feature/s3/manager v1.22.28 // indirect
	github.com/aws/aws-sdk-go-v2/internal/configsources v1.4.29 // indirect
	github.com/aws/aws-sdk-go-v2/internal/endpoints/v2 v2.7.29 // indirect
	github.com/aws/aws-sdk-go-v2/internal/v4a v1.4.30 // indirect
	github.com/aws/aws-sdk-go-v2/service/internal/accept-encoding v1.13.12 // indirect
	github.com/aws/aws-sdk-go-v2/service/internal/checksum v1.9.22 // indirect
	github.com/aws/aws-sdk-go-v2/service/internal/presigned-url v1.13.29 // indirect
	github.com/aws/aws-sdk-go-v2/service/internal/s3shared v1.19.29 // indirect
	github.com/aws/aws-sdk-go-v2/service/s3 v1.104.0 // indirect
	github.com/aws/aws-sdk-go-v2/service/signin v1.2.0 // indirect
	github.com/aws/aws-sdk-go-v2/service/sso v1.31.3 // indirect
	github.com/aws/aws-sdk-go-v2/service/ssooidc v1.36.6 // indirect
	github.com/aws/aws-sdk-go-v2/service/sts v1.43.3 // indirect
	github.com/aws/smithy-go v1.27.2 // indirect
	github.com/fatih/color v1.19.0 // indirect
	github.com/hashicorp/go-hclog v1.6.3 // indirect
	github.com/hashicorp/go-immutable-radix v1.3.1 // indirect
	github.com/hashicorp/go-metrics v0.6.0 // indirect
	github.com/hashicorp/go-msgpack v1.1.5 // indirect
	github.com/hashicorp/go-msgpack/v2 v2.1.5 // indirect
	github.com/hashicorp/golang-lru v1.0.2 // indirect
	github.com/klauspost/compress v1.19.0 // indirect
	github.com/mattn/go-colorable v0.1.15 // indirect
	github.com/mattn/go-isatty v0.0.22 // indirect
	github.com/rqlite/raft-boltdb/v2 v2.0.0-20230523104317-c08e70f4de48 // indirect
	go.etcd.io/bbolt v1.5.0 // indirect
	golang.org/x/sys v0.46.0 // indirect
)

replace github.com/rqlite/rqlite/v10 => /repo

replace (
	github.com/armon/go-metrics => github.com/hashicorp/go-metrics v0.5.1
	github.com/mattn/go-sqlite3 => github.com/rqlite/go-sqlite3 v1.49.0
)
