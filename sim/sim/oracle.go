package sim

import (
	"database/sql"
	"encoding/hex"
	"fmt"
	"os"
	"path/filepath"
	"sort"
	"strings"
	"sync"

	sqlite3 "github.com/mattn/go-sqlite3"
	"verifsim/node"
)

var regOnce sync.Once

const oracleDriver = "verif-oracle"

// DumpFiles returns a canonical logical dump (schema + every table's rows in
// primary-key/rowid order, typed values) of the SQLite database at dbPath. It
// works on a private copy of the database and its WAL, through the harness's
// own connection - never through rqlite's handle.
func DumpFiles(dbPath, tmpDir string) (string, error) {
	regOnce.Do(func() { sql.Register(oracleDriver, &sqlite3.SQLiteDriver{}) })
	d, err := os.MkdirTemp(tmpDir, "dump-")
	if err != nil {
		return "", err
	}
	defer os.RemoveAll(d)
	cp := filepath.Join(d, "db.sqlite")
	b, err := os.ReadFile(dbPath)
	if err != nil {
		return "", err
	}
	if err := os.WriteFile(cp, b, 0o644); err != nil {
		return "", err
	}
	if w, err := os.ReadFile(dbPath + "-wal"); err == nil && len(w) > 0 {
		if err := os.WriteFile(cp+"-wal", w, 0o644); err != nil {
			return "", err
		}
	}
	db, err := sql.Open(oracleDriver, "file:"+cp)
	if err != nil {
		return "", err
	}
	defer db.Close()
	db.SetMaxOpenConns(1)
	return DumpDB(db)
}

// DumpDB dumps an open database.
func DumpDB(db *sql.DB) (string, error) {
	var sb strings.Builder
	rows, err := db.Query(`SELECT type, name, tbl_name, COALESCE(sql,'') FROM sqlite_master WHERE name NOT LIKE 'sqlite_%' ORDER BY type, name`)
	if err != nil {
		return "", err
	}
	var tables []string
	for rows.Next() {
		var typ, name, tbl, sqlText string
		if err := rows.Scan(&typ, &name, &tbl, &sqlText); err != nil {
			rows.Close()
			return "", err
		}
		fmt.Fprintf(&sb, "S|%s|%s|%s|%s\n", typ, name, tbl, strings.Join(strings.Fields(sqlText), " "))
		if typ == "table" {
			tables = append(tables, name)
		}
	}
	rows.Close()
	sort.Strings(tables)
	for _, t := range tables {
		q := fmt.Sprintf(`SELECT * FROM "%s"`, strings.ReplaceAll(t, `"`, `""`))
		r, err := db.Query(q)
		if err != nil {
			return "", fmt.Errorf("dump %s: %w", t, err)
		}
		cols, _ := r.Columns()
		var lines []string
		for r.Next() {
			vals := make([]any, len(cols))
			ptrs := make([]any, len(cols))
			for i := range vals {
				ptrs[i] = &vals[i]
			}
			if err := r.Scan(ptrs...); err != nil {
				r.Close()
				return "", err
			}
			parts := make([]string, len(vals))
			for i, v := range vals {
				switch x := v.(type) {
				case nil:
					parts[i] = "N"
				case int64:
					parts[i] = fmt.Sprintf("I%d", x)
				case float64:
					parts[i] = fmt.Sprintf("F%v", x)
				case []byte:
					parts[i] = "B" + hex.EncodeToString(x)
				case string:
					parts[i] = "T" + x
				default:
					parts[i] = fmt.Sprintf("?%v", x)
				}
			}
			lines = append(lines, strings.Join(parts, "|"))
		}
		r.Close()
		sort.Strings(lines)
		fmt.Fprintf(&sb, "T|%s|%s|%d rows\n", t, strings.Join(cols, ","), len(lines))
		for _, l := range lines {
			sb.WriteString("R|" + t + "|" + l + "\n")
		}
	}
	return sb.String(), nil
}

// DumpNode dumps a node's live database. Call at a quiescent point.
func (s *Sim) DumpNode(n *node.Node) (string, error) {
	return DumpFiles(filepath.Join(n.Dir, "db.sqlite"), s.Dir)
}

// FirstDiff returns a short description of where two dumps differ.
func FirstDiff(a, b string) string {
	la, lb := strings.Split(a, "\n"), strings.Split(b, "\n")
	for i := 0; i < len(la) || i < len(lb); i++ {
		var x, y string
		if i < len(la) {
			x = la[i]
		}
		if i < len(lb) {
			y = lb[i]
		}
		if x != y {
			if len(x) > 200 {
				x = x[:200]
			}
			if len(y) > 200 {
				y = y[:200]
			}
			return fmt.Sprintf("line %d: %q vs %q", i+1, x, y)
		}
	}
	return ""
}
