// Package sim is engine E1: real rqlite nodes inside one testing/synctest
// bubble, driven one event per step by a seeded scheduler. Must only be used
// from inside a bubble.
package sim

import (
	"context"
	"fmt"
	"os"
	"sort"
	"strings"
	"sync"
	"syscall"
	"testing/synctest"
	"time"

	"github.com/rqlite/rqlite/v10/command/proto"
	"github.com/rqlite/rqlite/v10/store"
	"verifsim/core"
	"verifsim/node"
	"verifsim/simclock"
	"verifsim/simnet"
)

// Task is an asynchronous activity (a client operation, a node restart ...)
// running in its own goroutine inside the bubble.
type Task struct {
	ID       int
	Label    string
	Invoke   int // driver step at which it was started
	Return   int // driver step at which its completion was observed (0 = pending)
	done     chan struct{}
	Finished bool
	OnDone   func()
}

type Sim struct {
	C     *core.Ctx
	Net   *simnet.Net
	Nodes []*node.Node // index 0 unused; node i at Nodes[i]
	Dir   string

	StepN    int
	MaxSteps int
	Start    time.Time
	tasks    []*Task
	nextTask int

	// scheduling knobs (drawn per run by the scenario)
	TickProb  float64       // probability of advancing time although messages are deliverable
	MaxQuant  time.Duration // upper bound of one clock quantum
	SplitProb float64       // probability a segment is delivered in two pieces
	Capped    bool
	lastTid   int

	// OnStep, if set, is called at the end of every Step (after the delivery or
	// the clock advance). The system is not necessarily quiescent at that point:
	// call synctest.Wait() first if ground truth is read. It must not call Step.
	OnStep func()
	// ClockOffset is added to the bubble clock when SQLite's 'now' is set before
	// every step: a scenario can start SQLite's wall clock next to a day/year
	// boundary or step it (wall-clock jump fault) without simulating the idle
	// time. Zero = SQLite's clock equals the bubble clock.
	ClockOffset time.Duration
	// Hold, if set, is asked about every deliverable head segment; segments for
	// which it returns true stay queued in order (a slow path on selected
	// connections, e.g. one node's responses). Time keeps advancing.
	Hold func(p simnet.Pending) bool
}

func New(c *core.Ctx) *Sim {
	s := &Sim{C: c, Net: simnet.New(), Dir: c.Dir, MaxSteps: 200000, TickProb: 0.08, MaxQuant: 20 * time.Millisecond}
	s.Nodes = []*node.Node{nil}
	s.Start = time.Now()
	if os.Getenv("VERIF_TRACE") != "" {
		c.Log.Full = true
		var mu sync.Mutex
		s.Net.Trace = func(f string, a ...any) {
			mu.Lock()
			c.Log.AddUnhashed("    # "+f, a...)
			mu.Unlock()
		}
	}
	simclock.Set(time.Now())
	return s
}

func (s *Sim) SimTime() time.Duration { return time.Since(s.Start) }

// AddNode creates (does not start) node number len(Nodes).
func (s *Sim) AddNode(k node.Knobs) *node.Node {
	n := node.New(s.Net, len(s.Nodes), s.Dir, k)
	s.Nodes = append(s.Nodes, n)
	return n
}

// Go starts f as a task.
func (s *Sim) Go(label string, f func()) *Task {
	s.nextTask++
	t := &Task{ID: s.nextTask, Label: label, Invoke: s.StepN, done: make(chan struct{})}
	s.tasks = append(s.tasks, t)
	s.C.Log.Add("%d start task %d %s", s.StepN, t.ID, label)
	go func() {
		defer close(t.done)
		f()
	}()
	return t
}

func (s *Sim) collect() {
	// tasks are scanned in creation order: canonical.
	live := s.tasks[:0]
	for _, t := range s.tasks {
		select {
		case <-t.done:
			t.Finished = true
			t.Return = s.StepN
			s.C.Log.Add("%d done task %d %s", s.StepN, t.ID, t.Label)
			if t.OnDone != nil {
				t.OnDone()
			}
		default:
			live = append(live, t)
		}
	}
	s.tasks = live
}

func (s *Sim) PendingTasks() int { return len(s.tasks) }

// Step performs one scheduler step: wait for quiescence, observe completions,
// then either deliver exactly one pending segment or advance the clock.
func (s *Sim) Step() {
	s.StepN++
	if s.StepN > s.MaxSteps {
		s.Capped = true
		return
	}
	synctest.Wait()
	s.collect()
	simclock.Set(time.Now().Add(s.ClockOffset))
	if s.OnStep != nil {
		defer s.OnStep()
	}
	if s.Net.Trace != nil {
		if tid := syscall.Gettid(); tid != s.lastTid {
			s.Net.Trace("driver now on tid +%d", tid-os.Getpid())
			s.lastTid = tid
		}
	}
	heads := s.Net.PendingHeads()
	if s.Hold != nil {
		kept := heads[:0]
		for _, h := range heads {
			if !s.Hold(h) {
				kept = append(kept, h)
			}
		}
		heads = kept
	}
	r := s.C.Rng
	if len(heads) > 0 && !r.Bool(s.TickProb) {
		h := heads[r.Intn(len(heads))]
		max := 0
		if h.Size > 1 && s.SplitProb > 0 && r.Bool(s.SplitProb) {
			max = 1 + r.Intn(h.Size-1)
			s.C.Fault("split")
		}
		s.Net.Deliver(h.C, max)
		s.C.Log.Add("%d deliver %s n=%d/%d", s.StepN, h.Key, max, h.Size)
		return
	}
	q := time.Duration(1+r.Intn(int(s.MaxQuant/time.Millisecond))) * time.Millisecond
	if len(heads) == 0 && r.Bool(0.3) {
		q *= 5
	}
	time.Sleep(q)
	// Other timers may expire at the very instant the sleep ends; let everything
	// that runs at this instant finish before the driver acts again.
	synctest.Wait()
	s.C.Log.Add("%d tick %s t=%s", s.StepN, q, s.SimTime())
}

// Await steps until the task finished or maxSim simulated time passed.
func (s *Sim) Await(t *Task, maxSim time.Duration) bool {
	deadline := time.Now().Add(maxSim)
	for !t.Finished && !s.Capped && time.Now().Before(deadline) {
		s.Step()
	}
	if !t.Finished {
		synctest.Wait()
		s.collect()
	}
	return t.Finished
}

// RunFor steps until d simulated time has passed.
func (s *Sim) RunFor(d time.Duration) {
	deadline := time.Now().Add(d)
	for !s.Capped && time.Now().Before(deadline) {
		s.Step()
	}
}

// RunUntil steps until cond holds (evaluated at quiescent points) or maxSim passed.
func (s *Sim) RunUntil(cond func() bool, maxSim time.Duration) bool {
	deadline := time.Now().Add(maxSim)
	for !s.Capped && time.Now().Before(deadline) {
		synctest.Wait()
		if cond() {
			return true
		}
		s.Step()
	}
	synctest.Wait()
	return cond()
}

// Drain steps until no task is pending (bounded).
func (s *Sim) Drain(maxSim time.Duration) bool {
	return s.RunUntil(func() bool { s.collect(); return len(s.tasks) == 0 }, maxSim)
}

// Do runs f as a task and steps until it completes. ok=false if it did not
// complete within maxSim.
func (s *Sim) Do(label string, maxSim time.Duration, f func()) bool {
	return s.Await(s.Go(label, f), maxSim)
}

// ---------------------------------------------------------------- cluster helpers

// Leader returns the unique up node that believes it is leader with the
// highest term, or nil.
func (s *Sim) Leader() *node.Node {
	var best *node.Node
	for _, n := range s.Nodes[1:] {
		if n.Up && n.Store.IsLeader() {
			if best != nil {
				return nil // two self-declared leaders: ambiguous
			}
			best = n
		}
	}
	return best
}

// Boot starts nodes 1..k: node 1 bootstraps itself, the rest join through the
// real cluster client. voters[i]==false makes node i+1 a non-voter.
func (s *Sim) Boot(k int, knobs node.Knobs, voter func(i int) bool) error {
	for len(s.Nodes) <= k {
		s.AddNode(knobs)
	}
	var err error
	ok := s.Do("boot-1", 60*time.Second, func() {
		n := s.Nodes[1]
		if err = n.Start(); err != nil {
			return
		}
		if err = n.Store.Bootstrap(storeServer(n)); err != nil {
			return
		}
		_, err = n.Store.WaitForLeader(30 * time.Second)
	})
	if !ok || err != nil {
		return fmt.Errorf("boot node 1: ok=%v err=%v", ok, err)
	}
	for i := 2; i <= k; i++ {
		v := voter == nil || voter(i)
		if err := s.StartAndJoin(i, v); err != nil {
			return err
		}
	}
	return nil
}

// StartAndJoin starts node i on its directory and joins it to the current
// leader via the inter-node protocol.
func (s *Sim) StartAndJoin(i int, voter bool) error {
	n := s.Nodes[i]
	var err error
	ok := s.Do(fmt.Sprintf("start-%d", i), 60*time.Second, func() { err = n.Start() })
	if !ok || err != nil {
		return fmt.Errorf("start node %d: ok=%v err=%v", i, ok, err)
	}
	return s.Join(i, voter)
}

func (s *Sim) Join(i int, voter bool) error {
	n := s.Nodes[i]
	var err error
	for attempt := 0; attempt < 10; attempt++ {
		ldr := s.Leader()
		if ldr == nil {
			s.RunFor(500 * time.Millisecond)
			continue
		}
		jr := &proto.JoinRequest{Id: n.ID, Address: n.RaftAddr, Voter: voter}
		ok := s.Do(fmt.Sprintf("join-%d", i), 60*time.Second, func() {
			err = n.Cli.Join(context.Background(), jr, ldr.RaftAddr, nil, 10*time.Second)
		})
		if ok && err == nil {
			// wait until the joiner sees a leader
			s.RunUntil(func() bool { return n.Store.HasLeader() }, 20*time.Second)
			return nil
		}
		s.RunFor(300 * time.Millisecond)
	}
	return fmt.Errorf("join node %d failed: %v", i, err)
}

// Crash kills node i at the current quiescent point (directory image) and
// leaves it down. The old instance is torn down by a background task.
func (s *Sim) Crash(i int) error {
	n := s.Nodes[i]
	if !n.Up {
		return nil
	}
	synctest.Wait()
	fin, err := n.Kill()
	if err != nil {
		return err
	}
	s.C.Fault("crash")
	var ferr error
	if !s.Do(fmt.Sprintf("teardown-%d", i), 120*time.Second, func() { ferr = fin() }) {
		return fmt.Errorf("teardown of crashed node %d did not finish", i)
	}
	return ferr
}

// Restart starts a down node on its (imaged) directory.
func (s *Sim) Restart(i int) error {
	n := s.Nodes[i]
	if n.Up {
		return nil
	}
	var err error
	ok := s.Do(fmt.Sprintf("restart-%d", i), 120*time.Second, func() { err = n.Start() })
	if !ok {
		return fmt.Errorf("restart of node %d did not finish", i)
	}
	if err == nil {
		s.C.Fault("restart")
	}
	return err
}

// Shutdown stops every node; must be called before the bubble ends.
func (s *Sim) Shutdown() {
	s.C.Log.Add("%d end of scenario, tearing down", s.StepN)
	s.C.Log.Freeze()
	s.Net.Heal()
	for _, n := range s.Nodes[1:] {
		if n != nil && n.Up {
			nn := n
			nn.Store.NoSnapshotOnClose = true
			s.Do("stop-"+nn.ID, 120*time.Second, func() { nn.Stop() })
		}
	}
	// let lingering goroutines (timers, conn handlers) finish
	for i := 0; i < 50 && len(s.tasks) > 0; i++ {
		s.Step()
	}
}

func (s *Sim) Hosts(idx ...int) []string {
	var hs []string
	for _, i := range idx {
		hs = append(hs, s.Nodes[i].HostName)
	}
	return hs
}

// StateDigest is a short description of every node's raft state (ground truth
// read at a quiescent point).
func (s *Sim) StateDigest() string {
	var parts []string
	for _, n := range s.Nodes[1:] {
		if !n.Up {
			parts = append(parts, n.ID+":down")
			continue
		}
		ci, _ := n.Store.CommitIndex()
		parts = append(parts, fmt.Sprintf("%s:%v/c%d/a%d", n.ID, n.Store.State(), ci, n.Store.DBAppliedIndex()))
	}
	sort.Strings(parts)
	return strings.Join(parts, " ")
}

func RemoveAll(dir string) { os.RemoveAll(dir) }

func storeServer(n *node.Node) *store.Server { return store.NewServer(n.ID, n.RaftAddr, true) }
