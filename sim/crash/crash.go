// Package crash is the reusable part of engine E2 "crashsim": a crash is a
// directory image taken inside the verifhook handler at the k-th hook
// occurrence while the operation keeps running; afterwards the image is put
// back at the SAME path (plans hold absolute paths) and a new instance is
// opened on it.
//
// Typical use (sequential code under test, no goroutine parking needed):
//
//	rec := crash.NewRecorder(root, filepath.Join(c.Dir, "img"))
//	rec.Install()             // every Hit occurrence is counted (rec.Hits)
//	op()                      // ... and imaged (rec.Images), or only those rec.Want selects
//	rec.Uninstall()
//	for _, im := range rec.Images { crash.Restore(im.Dir, root); recover(); oracle() }
//
// One run of the operation yields the image of EVERY occurrence, which is
// equivalent to (and N times cheaper than) re-running the operation once per
// crash point, because taking an image has no effect on the operation.
package crash

import (
	"crypto/sha256"
	"encoding/hex"
	"fmt"
	"io"
	"os"
	"path/filepath"
	"sort"
	"strings"

	"github.com/rqlite/rqlite/v10/verifx"
)

// Hit is one hook occurrence.
type Hit struct {
	N     int    // 1-based ordinal among all Hit occurrences seen by the recorder
	Point string // hook point name
}

// Image is a directory image taken at a hook occurrence.
type Image struct {
	Hit
	Dir  string // where the image is kept
	Hash string // TreeHash of the image (never log it: contains absolute paths / process-dependent names)
}

// Recorder counts hook occurrences and takes images of Root.
type Recorder struct {
	Root  string // tree that is imaged
	Store string // directory under which images are kept (created on demand)

	// Want selects the occurrences to image; nil images every occurrence.
	Want func(h Hit) bool
	// Dedup skips an image whose tree equals that of the previously kept image
	// (consecutive hook points often see the same directory state).
	Dedup bool
	// Inject, when non-nil, may return an error to be returned by Hit at that
	// occurrence (I/O failure injection). It runs after the image was taken.
	Inject func(h Hit) error
	// OnFatal handles verifhook.Fatal: return true when the harness takes over
	// (the caller then does not exit the process). An image is taken first.
	OnFatal func(point string, err error) bool
	// OnNote receives verifhook.Note events.
	OnNote func(point string, v int64)
	// OnDirSynced receives fsutil.SyncDir notifications.
	OnDirSynced func(dir string)
	// SyncPoints makes every fsutil.SyncDir a hook occurrence of its own (point
	// "fsutil.syncdir(<dir relative to Root>)"): a crash point right after each
	// directory sync, also in code that has no Hit call sites.
	SyncPoints bool

	Hits    []Hit
	Images  []Image
	Skipped int   // images skipped by Dedup
	Err     error // first error while imaging (harness trouble)

	seq      int
	lastHash string
}

// NewRecorder returns a recorder that images every occurrence (Hit call sites
// and directory syncs), deduplicated.
func NewRecorder(root, store string) *Recorder {
	return &Recorder{Root: root, Store: store, Dedup: true, SyncPoints: true}
}

// Install makes the recorder the process-wide hook handler.
func (r *Recorder) Install() {
	verifx.InstallHooks(r.hit, nil, r.note, r.dirSynced, r.fatal)
}

// Uninstall removes all hook handlers.
func (r *Recorder) Uninstall() { verifx.ResetHooks() }

// Drop removes the stored images.
func (r *Recorder) Drop() {
	for _, im := range r.Images {
		os.RemoveAll(im.Dir)
	}
	r.Images = nil
}

func (r *Recorder) take(h Hit) {
	if r.Err != nil {
		return
	}
	hash, err := TreeHash(r.Root)
	if err != nil {
		r.Err = err
		return
	}
	if r.Dedup && hash == r.lastHash && len(r.Images) > 0 {
		r.Skipped++
		return
	}
	r.seq++
	dst := filepath.Join(r.Store, fmt.Sprintf("i%05d", r.seq))
	os.RemoveAll(dst)
	if err := CopyTree(r.Root, dst); err != nil {
		r.Err = err
		return
	}
	r.lastHash = hash
	r.Images = append(r.Images, Image{Hit: h, Dir: dst, Hash: hash})
}

func (r *Recorder) hit(point string) error {
	h := Hit{N: len(r.Hits) + 1, Point: point}
	r.Hits = append(r.Hits, h)
	if r.Want == nil || r.Want(h) {
		r.take(h)
	}
	if r.Inject != nil {
		return r.Inject(h)
	}
	return nil
}

func (r *Recorder) note(point string, v int64) {
	if r.OnNote != nil {
		r.OnNote(point, v)
	}
}

func (r *Recorder) dirSynced(dir string) {
	if r.OnDirSynced != nil {
		r.OnDirSynced(dir)
	}
	if r.SyncPoints {
		rel, err := filepath.Rel(r.Root, dir)
		if err != nil || strings.HasPrefix(rel, "..") {
			rel = "<outside>/" + filepath.Base(dir)
		}
		r.hit("fsutil.syncdir(" + rel + ")")
	}
}

func (r *Recorder) fatal(point string, err error) bool {
	if r.OnFatal == nil {
		return false
	}
	h := Hit{N: len(r.Hits) + 1, Point: point}
	r.Hits = append(r.Hits, h)
	r.take(h)
	return r.OnFatal(point, err)
}

// CopyTree copies a directory recursively, preserving modification times.
// A missing source yields an empty destination directory.
func CopyTree(src, dst string) error {
	if err := os.MkdirAll(dst, 0o755); err != nil {
		return err
	}
	return filepath.Walk(src, func(p string, fi os.FileInfo, err error) error {
		if err != nil {
			if os.IsNotExist(err) {
				return nil
			}
			return err
		}
		rel, _ := filepath.Rel(src, p)
		t := filepath.Join(dst, rel)
		switch {
		case fi.IsDir():
			return os.MkdirAll(t, 0o755)
		case fi.Mode().IsRegular():
			in, err := os.Open(p)
			if err != nil {
				if os.IsNotExist(err) {
					return nil
				}
				return err
			}
			defer in.Close()
			out, err := os.OpenFile(t, os.O_CREATE|os.O_WRONLY|os.O_TRUNC, fi.Mode().Perm())
			if err != nil {
				return err
			}
			if _, err := io.Copy(out, in); err != nil {
				out.Close()
				return err
			}
			if err := out.Close(); err != nil {
				return err
			}
			return os.Chtimes(t, fi.ModTime(), fi.ModTime())
		}
		return nil
	})
}

// Restore replaces root by a copy of the image (the image itself is kept so
// that it can be used again).
func Restore(image, root string) error {
	if err := os.RemoveAll(root); err != nil {
		return err
	}
	return CopyTree(image, root)
}

// TreeHash is a digest of the names, kinds and file contents below root
// (modification times are not included). It identifies a directory state
// within one run; it must not be logged (paths inside plan files and some
// file names depend on the process).
func TreeHash(root string) (string, error) {
	h := sha256.New()
	var walk func(dir, rel string) error
	walk = func(dir, rel string) error {
		ents, err := os.ReadDir(dir)
		if err != nil {
			if os.IsNotExist(err) {
				return nil
			}
			return err
		}
		sort.Slice(ents, func(i, j int) bool { return ents[i].Name() < ents[j].Name() })
		for _, e := range ents {
			p := filepath.Join(dir, e.Name())
			r := rel + "/" + e.Name()
			if e.IsDir() {
				fmt.Fprintf(h, "D %s\n", r)
				if err := walk(p, r); err != nil {
					return err
				}
				continue
			}
			f, err := os.Open(p)
			if err != nil {
				return err
			}
			fh := sha256.New()
			n, err := io.Copy(fh, f)
			f.Close()
			if err != nil {
				return err
			}
			fmt.Fprintf(h, "F %s %d %x\n", r, n, fh.Sum(nil))
		}
		return nil
	}
	if err := walk(root, ""); err != nil {
		return "", err
	}
	return hex.EncodeToString(h.Sum(nil)[:16]), nil
}

// Listing returns the sorted relative paths below root (directories end in
// "/"); handy for failure reports.
func Listing(root string) []string {
	var out []string
	filepath.Walk(root, func(p string, fi os.FileInfo, err error) error {
		if err != nil || p == root {
			return nil
		}
		rel, _ := filepath.Rel(root, p)
		if fi.IsDir() {
			rel += "/"
		}
		out = append(out, rel)
		return nil
	})
	sort.Strings(out)
	return out
}
