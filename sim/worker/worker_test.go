// The worker is a test binary because testing/synctest needs a *testing.T.
// It executes runs listed in the spec file named by VERIF_SPEC and appends one
// JSON result line per run to the spec's output file.
package worker

import (
	"bufio"
	"encoding/json"
	"fmt"
	"math/rand"
	"os"
	"runtime"
	"runtime/debug"
	"testing"
	"testing/synctest"
	"time"

	"verifsim/core"
	_ "verifsim/props"
	"verifsim/seeded"
	"verifsim/simclock"
)

type spec struct {
	Property  string            `json:"property"`
	Tier      string            `json:"tier"`
	Mode      string            `json:"mode"` // gen | replay | enum | genonly (gen without running)
	Seeds     []uint64          `json:"seeds"`
	Scenarios []json.RawMessage `json:"scenarios"` // replay mode: scenarios to run (seed taken from Seeds[i] if present)
	Out       string            `json:"out"`
	FullLog   bool              `json:"full_log"`
	KeepScen  bool              `json:"keep_scenario"`
	WatchdogS int               `json:"watchdog_s"`
	GenOnly   bool              `json:"gen_only"` // gen mode: only generate the scenarios (the orchestrator recovers the scenario of a run that killed its worker)
	EnumFrom  int               `json:"enum_from"`
	EnumStep  int               `json:"enum_step"`
}

func TestWorker(t *testing.T) {
	path := os.Getenv("VERIF_SPEC")
	if path == "" {
		t.Skip("no VERIF_SPEC")
	}
	b, err := os.ReadFile(path)
	if err != nil {
		t.Fatal(err)
	}
	var sp spec
	if err := json.Unmarshal(b, &sp); err != nil {
		t.Fatal(err)
	}
	p := core.Lookup(sp.Property)
	if p == nil {
		fmt.Fprintf(os.Stderr, "unknown property %s\n", sp.Property)
		os.Exit(2)
	}
	// GOMAXPROCS=1 comes from the environment so that the runtime never has
	// more than one P (which M owns the P would otherwise vary run to run).
	if v := os.Getenv("VERIF_GOMAXPROCS"); v != "" {
		var n int
		fmt.Sscan(v, &n)
		if n > 0 {
			runtime.GOMAXPROCS(n)
		}
	}
	out, err := os.OpenFile(sp.Out, os.O_CREATE|os.O_WRONLY|os.O_APPEND, 0o644)
	if err != nil {
		t.Fatal(err)
	}
	defer out.Close()
	w := bufio.NewWriter(out)

	// No watchdog goroutine here: a real-time timer firing inside the process
	// perturbs the scheduler's run queue. The orchestrator enforces the wall-clock
	// limit from outside (SIGQUIT gives the goroutine dump).
	type job struct {
		seed uint64
		scen json.RawMessage
	}
	var jobs []job
	switch sp.Mode {
	case "replay":
		for i, s := range sp.Scenarios {
			var seed uint64
			if i < len(sp.Seeds) {
				seed = sp.Seeds[i]
			}
			jobs = append(jobs, job{seed, s})
		}
	case "enum":
		if p.Enumerate == nil {
			fmt.Fprintf(os.Stderr, "property %s has no enumeration\n", sp.Property)
			os.Exit(2)
		}
		all := p.Enumerate(sp.Tier)
		step := sp.EnumStep
		if step <= 0 {
			step = 1
		}
		for i := sp.EnumFrom; i < len(all); i += step {
			jobs = append(jobs, job{uint64(i), core.MustJSON(all[i])})
		}
	default:
		for _, seed := range sp.Seeds {
			r := core.NewRand(seed)
			jobs = append(jobs, job{seed, core.MustJSON(p.Gen(r, sp.Tier))})
		}
	}

	for i, j := range jobs {
		if sp.Mode == "genonly" || sp.GenOnly {
			// only report the scenario a seed generates (used to recover the
			// scenario of a run that killed its worker process)
			line, _ := json.Marshal(&core.Result{Property: p.ID, Seed: j.seed, Verdict: "generated", Scenario: j.scen})
			w.Write(line)
			w.WriteByte('\n')
			w.Flush()
			continue
		}
		res := runOne(t, p, &sp, j.seed, j.scen, i)
		if sp.KeepScen || res.Verdict != core.OK {
			res.Scenario = j.scen
		}
		line, _ := json.Marshal(res)
		w.Write(line)
		w.WriteByte('\n')
		w.Flush()
	}
}

func runOne(t *testing.T, p *core.Prop, sp *spec, seed uint64, scen json.RawMessage, n int) *core.Result {
	dir := fmt.Sprintf("/dev/shm/verifsim/%010d-%04d", os.Getpid(), n) // fixed width: path length must not vary between processes
	os.RemoveAll(dir)
	if err := os.MkdirAll(dir, 0o755); err != nil {
		fmt.Fprintln(os.Stderr, "mkdir:", err)
		os.Exit(2)
	}
	defer os.RemoveAll(dir)

	res := &core.Result{Property: p.ID, Seed: seed, Verdict: core.OK}
	lg := core.NewLog()
	lg.Full = sp.FullLog
	c := &core.Ctx{Seed: seed, Rng: core.NewRand(core.Mix(seed, 77)), Log: lg, Res: res, Dir: dir, Tier: sp.Tier, Replay: sp.Mode == "replay"}

	rand.Seed(int64(seed))
	seeded.Seed(seed)
	simclock.SeedSQLite(uint32(seed>>7) | 1)
	t0 := time.Now()

	body := func() {
		defer func() {
			if r := recover(); r != nil {
				// A panic in harness or rqlite code on the run's own goroutine.
				c.Violate("panic", "panic: %v\n%s", r, debug.Stack())
			}
		}()
		p.Run(c, scen)
	}
	if p.Bubble {
		func() {
			defer func() {
				if r := recover(); r != nil {
					// end-of-bubble deadlock (leftover durably blocked goroutines): the run
					// itself completed; record and carry on.
					c.Probe("bubble_exit_panic")
					lg.Add("bubble exit: %v", r)
				}
			}()
			synctest.Test(t, func(t *testing.T) {
				start := time.Now()
				body()
				res.SimMs = time.Since(start).Milliseconds()
			})
		}()
		simclock.Unset()
	} else {
		body()
	}
	res.WallMs = time.Since(t0).Milliseconds()
	res.LogHash = lg.Hash()
	res.Steps = lg.N
	if res.Verdict != core.OK || sp.FullLog {
		if sp.FullLog {
			res.LogTail = lg.Lines()
		} else {
			res.LogTail = lg.Tail(200)
		}
	}
	return res
}
