// Package sqlgen is a grammar-based generator of SQL programs for the SQL
// properties (C01, C13, C14, C17). Everything is drawn from a core.Rand; the
// generated text and its metadata are plain data (JSON-serialisable), so a
// scenario carries the statements themselves and replay/shrinking never
// regenerate anything.
//
// The grammar covers DDL (CREATE/ALTER/DROP TABLE, CREATE/DROP INDEX), DML
// (INSERT incl. multi-row, OR REPLACE/IGNORE, INSERT..SELECT, UPSERT, UPDATE,
// DELETE, RETURNING, CTEs), SELECTs, positional/numbered/named parameters,
// random(), randomblob(n) and every SQLite date/time function with an explicit
// 'now', with modifiers, and in the zero-argument / format-only forms that
// SQLite defines as now, plus decoys (the same words inside string literals,
// comments and identifiers).
//
// Never generated (excluded by property C01/C14): CURRENT_TIME/DATE/TIMESTAMP,
// DEFAULT expressions with non-deterministic calls, the 'localtime' modifier,
// randomblob with a non-literal argument, and random() inside ORDER BY (the
// latter only when Opts.OrderByRandom is set, for C14 where it must be left
// alone).
package sqlgen

import (
	"fmt"
	"strings"

	"verifsim/core"
)

// Opts selects optional strata of the grammar. The zero value is the "plain"
// grammar: explicit 'now' only, canonical call syntax.
type Opts struct {
	ZeroArg       bool `json:"zero_arg,omitempty"`        // date(), time(), datetime(), julianday(), unixepoch(), strftime(fmt)
	SpaceParen    bool `json:"space_paren,omitempty"`     // "random ()", "date ('now')": blank between name and parenthesis
	IdentNow      bool `json:"ident_now,omitempty"`       // column named now used as time value: date(now)
	HexBlobN      bool `json:"hex_blob_n,omitempty"`      // randomblob(0x10)
	ExoticMods    bool `json:"exotic_mods,omitempty"`     // 'auto','unixepoch','julianday' modifiers after 'now'
	OrderByRandom bool `json:"order_by_random,omitempty"` // SELECT ... ORDER BY random() (C14 only)
	Comments      bool `json:"comments,omitempty"`        // decoys inside SQL comments
	BetweenOr     bool `json:"between_or,omitempty"`      // "x BETWEEN a AND b OR y" without parentheses
	CteND         bool `json:"cte_nd,omitempty"`          // non-deterministic calls inside WITH bodies
	IsNullND      bool `json:"isnull_nd,omitempty"`       // non-deterministic calls inside the operand of IS [NOT] NULL
	ReturningUD   bool `json:"returning_ud,omitempty"`    // RETURNING on UPDATE and DELETE (always generated on INSERT)
	LikeEscape    bool `json:"like_escape,omitempty"`     // LIKE ... ESCAPE
	NoRand        bool `json:"no_rand,omitempty"`
	NoTime        bool `json:"no_time,omitempty"`
	NDPercent     int  `json:"nd_percent,omitempty"` // probability (percent) that a leaf is a non-deterministic call; 0 = default 30
}

// Stmt is one generated statement with what the oracles need to know about it.
type Stmt struct {
	SQL    string         `json:"sql"`
	Params []any          `json:"params,omitempty"` // positional
	Named  map[string]any `json:"named,omitempty"`  // named (:x @x $x); keys without the prefix character
	// ND is the number of calls the rewriter must replace by a literal (random()
	// outside ORDER BY, randomblob(literal), time functions whose time value is now).
	ND int `json:"nd,omitempty"`
	// Calls is the number of call sites of the nine function names (whether or
	// not they are non-deterministic); 0 means the names occur at most inside
	// strings, comments and identifiers.
	Calls   int      `json:"calls,omitempty"`
	Feat    []string `json:"feat,omitempty"`    // grammar features used (for diagnosis and known-finding matching)
	Kind    string   `json:"kind,omitempty"`    // select insert update delete ddl
	Ordered bool     `json:"ordered,omitempty"` // result row order is defined (ORDER BY a unique key)
	// Expect, when set, is a property of the statement's own result that holds
	// (with probability 1 - 2^-60) for the un-rewritten statement because its
	// random()/randomblob() calls are independent draws, and must still hold after
	// rewriting: "distinct-cols" (the cells of every result row are pairwise
	// different), "true" (single cell = 1), "ok" (executes without error).
	Expect string `json:"expect,omitempty"`
	Table   string   `json:"table,omitempty"`   // main table touched
}

// JSON returns the statement the way the HTTP API takes it: a plain string, or
// an array [sql, p1, p2 ...] / [sql, {name: value}].
func (s *Stmt) JSON() any {
	if len(s.Params) == 0 && len(s.Named) == 0 {
		return s.SQL
	}
	out := []any{s.SQL}
	if len(s.Named) > 0 {
		out = append(out, s.Named)
		return out
	}
	return append(out, s.Params...)
}

func (s *Stmt) HasFeat(f string) bool {
	for _, x := range s.Feat {
		if x == f {
			return true
		}
	}
	return false
}

type colKind int

const (
	kInt colKind = iota
	kText
	kReal
	kBlob
	kTime // TEXT holding a timestamp
)

type column struct {
	sql  string // as written in SQL (quoted when needed)
	kind colKind
	pk   bool
	uniq bool
	nn   bool
}

type table struct {
	sql   string
	cols  []column
	extra bool // dynamically created by DDL
}

// Gen generates statements over a fixed base schema plus a few tables it
// creates and drops itself.
type Gen struct {
	R      *core.Rand
	O      Opts
	base   []*table
	extra  []*table
	nextX  int
	nextIx int
	idx    []string
	nextK  int
}

func New(r *core.Rand, o Opts) *Gen {
	g := &Gen{R: r, O: o}
	g.base = []*table{
		{sql: "t1", cols: []column{{"id", kInt, true, false, false}, {"a", kInt, false, false, false}, {"b", kText, false, false, false},
			{"c", kReal, false, false, false}, {"d", kBlob, false, false, false}, {"ts", kTime, false, false, false}}},
		{sql: "t2", cols: []column{{"id", kInt, true, false, false}, {"k", kText, false, true, false}, {"n", kInt, false, false, true},
			{`"date"`, kTime, false, false, false}, {`"random"`, kInt, false, false, false}}},
		{sql: "ev", cols: []column{{"id", kInt, true, false, false}, {"now", kTime, false, false, false}, {`"time(s)"`, kReal, false, false, false},
			{"note", kText, false, false, false}}},
	}
	return g
}

// Schema returns the CREATE statements of the base schema.
func (g *Gen) Schema() []Stmt {
	return []Stmt{
		{Kind: "ddl", SQL: `CREATE TABLE t1 (id INTEGER PRIMARY KEY, a INTEGER, b TEXT, c REAL, d BLOB, ts TEXT)`},
		{Kind: "ddl", SQL: `CREATE TABLE t2 (id INTEGER PRIMARY KEY, k TEXT UNIQUE, n INTEGER NOT NULL DEFAULT 0, "date" TEXT, "random" INTEGER)`},
		{Kind: "ddl", SQL: `CREATE TABLE ev (id INTEGER PRIMARY KEY, now TEXT, "time(s)" REAL, note TEXT)`},
		{Kind: "ddl", SQL: `CREATE INDEX t1_a ON t1(a)`},
	}
}

// SeedRows returns deterministic INSERTs giving every base table a few rows.
func (g *Gen) SeedRows() []Stmt {
	var out []Stmt
	for i := 1; i <= 4; i++ {
		out = append(out, Stmt{Kind: "insert", Table: "t1", SQL: fmt.Sprintf(
			`INSERT INTO t1(id,a,b,c,d,ts) VALUES(%d,%d,'row%d',%d.5,x'0%d0A',%s)`, i, i*10, i, i, i,
			[]string{`'2024-02-29 12:34:56'`, `'1999-12-31 23:59:59'`, `NULL`, `'2000-01-01'`}[i-1])})
	}
	for i := 1; i <= 3; i++ {
		out = append(out, Stmt{Kind: "insert", Table: "t2", SQL: fmt.Sprintf(
			`INSERT INTO t2(id,k,n,"date","random") VALUES(%d,'k%d',%d,'2001-0%d-15',%d)`, i, i, i, i, i*7)})
	}
	for i := 1; i <= 2; i++ {
		out = append(out, Stmt{Kind: "insert", Table: "ev", SQL: fmt.Sprintf(
			`INSERT INTO ev(id,now,"time(s)",note) VALUES(%d,'2010-0%d-01 00:00:00',%d.25,'random() date(''now'') n%d')`, i, i, i, i)})
	}
	return out
}

// ------------------------------------------------------------------ statement context

type sctx struct {
	g       *Gen
	st      *Stmt
	feats   map[string]bool
	style   int // 0 none, 1 '?', 2 '?NNN', 3 ':name', 4 '@name', 5 '$name'
	cols    []column
	qual    string // qualifier prefix for columns ("" or "t1.")
	depth   int
	noND    bool // deterministic context (e.g. DDL)
	quiet   int  // >0: temporarily no non-deterministic leaves
	orderBy bool
}

func (g *Gen) newCtx(kind string) *sctx {
	c := &sctx{g: g, st: &Stmt{Kind: kind}, feats: map[string]bool{}}
	if g.R.Bool(0.25) {
		c.style = 1 + g.R.Intn(5)
	}
	return c
}

func (c *sctx) feat(f string) {
	if !c.feats[f] {
		c.feats[f] = true
		c.st.Feat = append(c.st.Feat, f)
	}
}

func (c *sctx) done(sql string) Stmt {
	c.st.SQL = sql
	return *c.st
}

func (c *sctx) r() *core.Rand { return c.g.R }

func (c *sctx) pick(xs ...string) string { return xs[c.r().Intn(len(xs))] }

// param emits a bind parameter carrying v, or the literal lit when the
// statement does not use parameters.
func (c *sctx) param(v any, lit string) string {
	if c.style == 0 || !c.r().Bool(0.5) {
		return lit
	}
	c.feat("param")
	switch c.style {
	case 1:
		c.st.Params = append(c.st.Params, v)
		return "?"
	case 2:
		c.st.Params = append(c.st.Params, v)
		return fmt.Sprintf("?%d", len(c.st.Params))
	default:
		if c.st.Named == nil {
			c.st.Named = map[string]any{}
		}
		name := fmt.Sprintf("p%d", len(c.st.Named)+1)
		c.st.Named[name] = v
		return string(":@$"[c.style-3]) + name
	}
}

// ------------------------------------------------------------------ leaves

var decoyStrings = []string{
	`random()`, `date('now')`, `x datetime('now') y`, `time(`, `randomblob(16)`, `strftime('%s','now')`, `now`, `it's julianday() time`,
	`unixepoch( 'now' )`, `RANDOM ( )`, `returning `, `explain `,
}

func sqlQuote(s string) string { return "'" + strings.ReplaceAll(s, "'", "''") + "'" }

func (c *sctx) intLit() string {
	r := c.r()
	v := []int{0, 1, 2, 3, 7, 10, 42, 100, 255, 1000, -1, -5, 86400}[r.Intn(13)]
	return c.param(v, fmt.Sprint(v))
}

func (c *sctx) textLit() string {
	r := c.r()
	var s string
	switch r.Intn(6) {
	case 0:
		s = decoyStrings[r.Intn(len(decoyStrings))]
		c.feat("decoy-string")
	case 1:
		s = fmt.Sprintf("v%d", r.Intn(50))
	case 2:
		s = c.pick("", "a b", "O'Neil", `say "hi"`, "100%", "under_score", "x;y")
	default:
		s = fmt.Sprintf("k%d", r.Intn(8))
	}
	return c.param(s, sqlQuote(s))
}

func (c *sctx) realLit() string {
	v := []float64{0.5, 1.25, -2.75, 3.0, 1e3, 2451545.0, 0.001}[c.r().Intn(7)]
	lit := fmt.Sprint(v)
	if !strings.ContainsAny(lit, ".e") {
		lit += ".0"
	}
	return c.param(v, lit)
}

func (c *sctx) blobLit() string {
	return c.pick(`x'00'`, `x'DEADBEEF'`, `X'0a0b'`, `x''`, `x'FF00FF'`)
}

var timeStrings = []string{
	`2024-02-29 12:34:56`, `2000-01-01`, `1999-12-31 23:59:59.999`, `2023-06-15T08:30:00`, `2021-12-31 00:00:00`, `12:00:00`, `2000-03-01 00:00:00`,
}

func (c *sctx) timeLit() string {
	s := timeStrings[c.r().Intn(len(timeStrings))]
	return c.param(s, sqlQuote(s))
}

func (c *sctx) colOf(kinds ...colKind) (string, bool) {
	var cand []string
	for _, col := range c.cols {
		for _, k := range kinds {
			if col.kind == k {
				cand = append(cand, c.qual+col.sql)
			}
		}
	}
	if len(cand) == 0 {
		return "", false
	}
	return cand[c.r().Intn(len(cand))], true
}

func (c *sctx) wantND() bool {
	if c.noND || c.quiet > 0 {
		return false
	}
	p := c.g.O.NDPercent
	if p == 0 {
		p = 30
	}
	return c.r().Intn(100) < p
}

// fname renders a function name with random case and, in the SpaceParen
// stratum, blanks or a comment between the name and the parenthesis.
func (c *sctx) fname(n string) string {
	switch c.r().Intn(6) {
	case 0:
		n = strings.ToUpper(n)
	case 1:
		n = strings.ToUpper(n[:1]) + n[1:]
	}
	if c.g.O.SpaceParen && c.r().Bool(0.5) {
		c.feat("space-paren")
		n += c.pick(" ", "  ", "\t", "\n")
	}
	return n
}

// ------------------------------------------------------------------ non-deterministic calls

var plainMods = []string{
	`'+1 day'`, `'-3 hours'`, `'+90 minutes'`, `'-45 seconds'`, `'+1 month'`, `'-1 year'`, `'start of day'`, `'start of month'`, `'start of year'`,
	`'weekday 0'`, `'weekday 3'`, `'+7 days'`, `'-1 month'`, `'+12:30'`, `'+0.5 days'`, `'-1.5 seconds'`,
}

func (c *sctx) mods(max int) string {
	r := c.r()
	n := r.Intn(max + 1)
	var out []string
	for i := 0; i < n; i++ {
		out = append(out, plainMods[r.Intn(len(plainMods))])
	}
	if n > 0 {
		c.feat("time-mods")
	}
	if r.Bool(0.15) {
		out = append(out, c.pick(`'subsec'`, `'subsecond'`))
		c.feat("time-subsec")
	}
	if len(out) == 0 {
		return ""
	}
	return "," + c.pick("", " ") + strings.Join(out, ",")
}

func (c *sctx) nowLit() string {
	return c.pick(`'now'`, `'now'`, `'now'`, `'NOW'`, `'Now'`)
}

var strftimeFmts = []string{`%Y-%m-%d %H:%M:%S`, `%s`, `%Y`, `%H:%M`, `%j`, `%J`, `%d/%m/%Y`, `%Y-%m-%dT%H:%M:%fZ`, `%w %W`, `%f`, `%m`, `at %H h`}

// timeCall returns a date/time function call. now=true makes the time value
// 'now' (explicitly or implicitly); otherwise the time value is a literal or a
// column and the call is deterministic. ret reports the SQL type class of the
// result.
func (c *sctx) timeCall(now bool) (string, colKind) {
	r := c.r()
	o := c.g.O
	c.st.Calls++
	fn := []string{"date", "time", "datetime", "julianday", "unixepoch", "strftime", "timediff"}[r.Weighted([]int{5, 3, 6, 4, 4, 5, 2})]
	ret := kTime
	switch fn {
	case "julianday":
		ret = kReal
	case "unixepoch":
		ret = kInt
	case "strftime", "timediff":
		ret = kText
	}
	name := c.fname(fn)
	tv := func() string { // deterministic time value
		if col, ok := c.colOf(kTime); ok && r.Bool(0.4) && (o.IdentNow || !strings.HasSuffix(col, "now")) {
			if strings.HasSuffix(col, "now") {
				c.feat("ident-now")
			}
			return col
		}
		if r.Bool(0.15) {
			return c.pick("2451545.0", "2460000.25", "0")
		}
		return c.timeLit()
	}
	if now {
		c.st.ND++
		c.feat("time-now")
	} else {
		c.feat("time-det")
	}
	switch fn {
	case "timediff":
		if !now {
			return fmt.Sprintf("%s(%s, %s)", name, tv(), tv()), ret
		}
		switch r.Intn(3) {
		case 0:
			return fmt.Sprintf("%s(%s, %s)", name, c.nowLit(), tv()), ret
		case 1:
			return fmt.Sprintf("%s(%s,%s)", name, tv(), c.nowLit()), ret
		default:
			return fmt.Sprintf("%s(%s, %s)", name, c.nowLit(), c.nowLit()), ret
		}
	case "strftime":
		f := sqlQuote(strftimeFmts[r.Intn(len(strftimeFmts))])
		if !now {
			return fmt.Sprintf("%s(%s, %s%s)", name, f, tv(), c.mods(2)), ret
		}
		if o.ZeroArg && r.Bool(0.4) {
			c.feat("time-fmtonly")
			return fmt.Sprintf("%s(%s)", name, f), ret
		}
		return fmt.Sprintf("%s(%s,%s%s%s)", name, f, c.pick("", " "), c.nowLit(), c.exotic()+c.mods(2)), ret
	}
	if !now {
		return fmt.Sprintf("%s(%s%s)", name, tv(), c.mods(2)), ret
	}
	if o.ZeroArg && r.Bool(0.4) {
		c.feat("time-zeroarg")
		return fmt.Sprintf("%s(%s)", name, c.pick("", "", " ")), ret
	}
	if o.IdentNow && r.Bool(0.3) {
		// a COLUMN called now: deterministic, must not be treated as the current time
		if col, ok := c.colOf(kTime); ok && strings.HasSuffix(col, "now") {
			c.st.ND--
			c.feat("ident-now")
			return fmt.Sprintf("%s(%s%s)", name, col, c.mods(1)), ret
		}
	}
	return fmt.Sprintf("%s(%s%s%s)", name, c.pick("", " "), c.nowLit(), c.exotic()+c.mods(2)), ret
}

func (c *sctx) exotic() string {
	if c.g.O.ExoticMods && c.r().Bool(0.4) {
		c.feat("time-exotic-mod")
		return "," + c.pick(`'auto'`, `'unixepoch'`, `'julianday'`)
	}
	return ""
}

func (c *sctx) randInt() string {
	c.st.Calls++
	c.st.ND++
	c.feat("random")
	f := c.fname("random") + "()"
	if c.r().Intn(10) == 0 {
		c.feat("scalar-subselect-nd")
		return "(SELECT " + f + ")"
	}
	switch c.r().Intn(6) {
	case 0:
		return fmt.Sprintf("abs(%s) %% %d", f, []int{10, 100, 1000}[c.r().Intn(3)])
	case 1:
		return fmt.Sprintf("(%s & 255)", f)
	case 2:
		return fmt.Sprintf("%s %% 1000", f)
	case 3:
		return fmt.Sprintf("(%s >> 40) + 1", f)
	}
	return f
}

func (c *sctx) randBlob() string {
	c.st.Calls++
	c.st.ND++
	c.feat("randomblob")
	n := fmt.Sprint([]int{0, 1, 4, 8, 16, 32}[c.r().Intn(6)])
	if c.g.O.HexBlobN && c.r().Bool(0.5) {
		c.feat("randomblob-hex-n")
		n = c.pick("0x10", "0x4", "0X08")
	}
	return fmt.Sprintf("%s(%s)", c.fname("randomblob"), n)
}

// ------------------------------------------------------------------ typed expressions

func (c *sctx) allowRand() bool { return !c.g.O.NoRand && !c.orderBy }
func (c *sctx) allowTime() bool { return !c.g.O.NoTime }

func (c *sctx) intExpr() string {
	r := c.r()
	c.depth++
	defer func() { c.depth-- }()
	if c.depth > 3 || r.Bool(0.45) {
		if c.wantND() {
			if c.allowRand() && r.Bool(0.5) {
				return c.randInt()
			}
			if c.allowTime() {
				for i := 0; i < 4; i++ {
					s, k := c.timeCall(true)
					if k == kInt {
						return s
					}
					if k == kReal {
						return "CAST(" + s + " AS INTEGER)"
					}
					if k == kText || k == kTime {
						return "length(" + s + ")"
					}
				}
			}
		}
		if col, ok := c.colOf(kInt); ok && r.Bool(0.5) {
			return col
		}
		return c.intLit()
	}
	switch r.Intn(12) {
	case 0:
		return fmt.Sprintf("%s %s %s", c.intExpr(), c.pick("+", "-", "*"), c.intExpr())
	case 1:
		return fmt.Sprintf("(%s + %s) * %s", c.intExpr(), c.intExpr(), c.intLit())
	case 2:
		return fmt.Sprintf("abs(%s)", c.intExpr())
	case 3:
		return fmt.Sprintf("CASE WHEN %s THEN %s ELSE %s END", c.boolExpr(), c.intExpr(), c.intExpr())
	case 4:
		return fmt.Sprintf("COALESCE(%s, %s)", c.intExpr(), c.intLit())
	case 5:
		return fmt.Sprintf("length(%s)", c.textExpr())
	case 6:
		if r.Bool(0.5) {
			return fmt.Sprintf("CAST(%s AS INTEGER)", c.realExpr())
		}
		return fmt.Sprintf("CAST(%s AS INTEGER)", c.textExpr())
	case 7:
		return fmt.Sprintf("max(%s, %s)", c.intExpr(), c.intExpr())
	case 8:
		return fmt.Sprintf("-(%s)", c.intLit())
	case 9:
		return fmt.Sprintf("(SELECT count(*) FROM %s)", c.pick("t1", "t2", "ev"))
	case 10:
		return fmt.Sprintf("(%s) %% 7", c.intExpr())
	default:
		return fmt.Sprintf("ifnull(%s, 0) + 1", c.intExpr())
	}
}

func (c *sctx) realExpr() string {
	r := c.r()
	c.depth++
	defer func() { c.depth-- }()
	if c.depth > 3 || r.Bool(0.5) {
		if c.wantND() && c.allowTime() {
			for i := 0; i < 4; i++ {
				s, k := c.timeCall(true)
				if k == kReal {
					return s
				}
				if k == kInt {
					return s + " / 86400.0"
				}
				if k == kText || k == kTime {
					c.st.Calls++
					return "julianday(" + s + ")"
				}
			}
		}
		if col, ok := c.colOf(kReal); ok && r.Bool(0.5) {
			return col
		}
		return c.realLit()
	}
	switch r.Intn(5) {
	case 0:
		return fmt.Sprintf("%s %s %s", c.realExpr(), c.pick("+", "-", "*"), c.realExpr())
	case 1:
		return fmt.Sprintf("round(%s, %d)", c.realExpr(), r.Intn(4))
	case 2:
		return fmt.Sprintf("%s / 4.0", c.intExpr())
	case 3:
		return fmt.Sprintf("CAST(%s AS REAL)", c.intExpr())
	default:
		return fmt.Sprintf("(%s - %s)", c.realExpr(), c.realLit())
	}
}

func (c *sctx) textExpr() string {
	r := c.r()
	c.depth++
	defer func() { c.depth-- }()
	if c.depth > 3 || r.Bool(0.45) {
		if c.wantND() {
			if c.allowRand() && r.Bool(0.3) {
				switch r.Intn(3) {
				case 0:
					return "hex(" + c.randBlob() + ")"
				case 1:
					return "lower(hex(" + c.randBlob() + "))"
				default:
					return "typeof(" + c.randBlob() + ")"
				}
			}
			if c.allowTime() {
				s, k := c.timeCall(true)
				if k == kInt || k == kReal {
					return "CAST(" + s + " AS TEXT)"
				}
				return s
			}
		}
		if col, ok := c.colOf(kText, kTime); ok && r.Bool(0.5) {
			return col
		}
		return c.textLit()
	}
	switch r.Intn(9) {
	case 0:
		return fmt.Sprintf("%s || %s", c.textExpr(), c.textExpr())
	case 1:
		return fmt.Sprintf("%s(%s)", c.pick("lower", "upper", "trim"), c.textExpr())
	case 2:
		return fmt.Sprintf("substr(%s, %d, %d)", c.textExpr(), 1+r.Intn(3), 1+r.Intn(8))
	case 3:
		return fmt.Sprintf("CASE %s WHEN %s THEN %s ELSE %s END", c.intExpr(), c.intLit(), c.textExpr(), c.textLit())
	case 4:
		return fmt.Sprintf("CAST(%s AS TEXT)", c.intExpr())
	case 5:
		return fmt.Sprintf("replace(%s, %s, %s)", c.textExpr(), c.textLit(), c.textLit())
	case 6:
		return fmt.Sprintf("printf('%%s-%%d', %s, %s)", c.textExpr(), c.intExpr())
	case 7:
		if c.allowTime() {
			s, _ := c.timeCall(false)
			return s
		}
		return c.textLit()
	default:
		return fmt.Sprintf("coalesce(%s, %s)", c.textExpr(), c.textLit())
	}
}

func (c *sctx) timeExpr() string {
	r := c.r()
	if c.allowTime() && !c.noND && c.quiet == 0 && r.Bool(0.55) {
		for i := 0; i < 4; i++ {
			s, k := c.timeCall(true)
			if k == kTime || k == kText {
				if r.Intn(10) == 0 {
					c.feat("scalar-subselect-nd")
					return "(SELECT " + s + ")"
				}
				return s
			}
			if k == kInt {
				c.st.Calls++
				return "datetime(" + s + ", 'unixepoch')"
			}
			c.st.Calls++
			return "datetime(" + s + ")"
		}
	}
	if c.allowTime() && r.Bool(0.4) {
		s, _ := c.timeCall(false)
		return s
	}
	return c.timeLit()
}

func (c *sctx) blobExpr() string {
	if c.wantND() && c.allowRand() {
		return c.randBlob()
	}
	if col, ok := c.colOf(kBlob); ok && c.r().Bool(0.3) {
		return col
	}
	return c.blobLit()
}

func (c *sctx) boolExpr() string {
	r := c.r()
	c.depth++
	defer func() { c.depth-- }()
	if c.depth > 4 {
		return fmt.Sprintf("%s %s %s", c.intLit(), c.pick("<", ">=", "="), c.intLit())
	}
	switch r.Intn(13) {
	case 0:
		return fmt.Sprintf("%s %s %s", c.intExpr(), c.pick("<", "<=", ">", ">=", "=", "<>", "!=", "=="), c.intExpr())
	case 1:
		return fmt.Sprintf("%s AND %s", c.boolExpr(), c.boolExpr())
	case 2:
		return fmt.Sprintf("(%s OR %s)", c.boolExpr(), c.boolExpr())
	case 3:
		return fmt.Sprintf("NOT (%s)", c.boolExpr())
	case 4:
		if !c.g.O.IsNullND {
			c.quiet++
			defer func() { c.quiet-- }()
		} else {
			c.feat("isnull-operand")
		}
		if r.Bool(0.5) {
			return fmt.Sprintf("%s %s", c.intExpr(), c.pick("IS NULL", "IS NOT NULL", "NOTNULL", "ISNULL"))
		}
		return fmt.Sprintf("%s %s", c.textExpr(), c.pick("IS NULL", "IS NOT NULL", "NOT NULL"))
	case 5:
		return fmt.Sprintf("%s %sIN (%s, %s, %s)", c.intExpr(), c.pick("", "NOT "), c.intLit(), c.intLit(), c.intExpr())
	case 6:
		if c.g.O.BetweenOr && r.Bool(0.5) {
			c.feat("between-or")
			return fmt.Sprintf("(%s %sBETWEEN %s AND %s OR %s)", c.intExpr(), c.pick("", "NOT "), c.intLit(), c.intExpr(), c.boolExpr())
		}
		return fmt.Sprintf("(%s %sBETWEEN %s AND %s)", c.intExpr(), c.pick("", "NOT "), c.intLit(), c.intExpr())
	case 7:
		if c.g.O.LikeEscape && r.Bool(0.5) {
			c.feat("like-escape")
			return fmt.Sprintf("%s LIKE '100!%%' ESCAPE '!'", c.textExpr())
		}
		return fmt.Sprintf("%s %sLIKE %s", c.textExpr(), c.pick("", "NOT "), c.pick(`'k%'`, `'%a%'`, `'_ow%'`, `'%(%'`))
	case 8:
		return fmt.Sprintf("%s %s %s", c.textExpr(), c.pick("<", ">", "=", "<>"), c.textExpr())
	case 9:
		return fmt.Sprintf("%s %s %s", c.timeExpr(), c.pick("<", ">", "<=", ">="), c.timeExpr())
	case 10:
		return fmt.Sprintf("EXISTS (SELECT 1 FROM %s WHERE id = %s)", c.pick("t1", "t2", "ev"), c.intLit())
	case 11:
		return fmt.Sprintf("%s > %s", c.realExpr(), c.realExpr())
	default:
		return fmt.Sprintf("%s GLOB %s", c.textExpr(), c.pick(`'k*'`, `'*[0-9]'`))
	}
}

func (c *sctx) exprFor(k colKind) string {
	if c.r().Bool(0.05) {
		return "NULL"
	}
	switch k {
	case kInt:
		return c.intExpr()
	case kText:
		return c.textExpr()
	case kReal:
		return c.realExpr()
	case kBlob:
		return c.blobExpr()
	default:
		return c.timeExpr()
	}
}

func (c *sctx) anyExpr() string {
	return c.exprFor(colKind(c.r().Intn(5)))
}

// ------------------------------------------------------------------ statements

func (g *Gen) tables() []*table { return append(append([]*table{}, g.base...), g.extra...) }

func (g *Gen) pickTable() *table {
	ts := g.tables()
	return ts[g.R.Intn(len(ts))]
}

func (c *sctx) comment() string {
	if c.g.O.Comments && c.r().Bool(0.3) {
		c.feat("decoy-comment")
		return c.pick(" /* random() */ ", " /* date('now') */ ", " -- time(\n", " /* randomblob(4) datetime() */ ")
	}
	return " "
}

func (c *sctx) returning(t *table) string {
	if !c.r().Bool(0.25) || (c.st.Kind != "insert" && !c.g.O.ReturningUD) {
		return ""
	}
	c.feat("returning")
	switch c.r().Intn(3) {
	case 0:
		return " RETURNING *"
	case 1:
		return " RETURNING id"
	}
	col := t.cols[c.r().Intn(len(t.cols))]
	return fmt.Sprintf(" RETURNING id, %s AS v", col.sql)
}

func (c *sctx) where(t *table) string {
	r := c.r()
	switch r.Intn(5) {
	case 0:
		return fmt.Sprintf(" WHERE id = %s", c.param(1+r.Intn(6), fmt.Sprint(1+r.Intn(6))))
	case 1:
		return fmt.Sprintf(" WHERE id %s %d", c.pick("<", ">", "<=", ">=", "<>"), 1+r.Intn(6))
	case 2:
		return ""
	}
	return " WHERE " + c.boolExpr()
}

// Insert generates an INSERT in one of its forms.
func (g *Gen) Insert() Stmt {
	c := g.newCtx("insert")
	r := g.R
	t := g.pickTable()
	c.st.Table = t.sql
	// column subset (never the rowid alias unless chosen on purpose)
	var cols []column
	for _, col := range t.cols {
		if col.pk {
			if r.Bool(0.15) {
				cols = append(cols, col)
			}
			continue
		}
		if col.nn || r.Bool(0.75) {
			cols = append(cols, col)
		}
	}
	if len(cols) == 0 {
		cols = append(cols, t.cols[1])
	}
	var names []string
	for _, col := range cols {
		names = append(names, col.sql)
	}
	verb := "INSERT"
	switch r.Intn(10) {
	case 0:
		verb = "INSERT OR REPLACE"
		c.feat("or-replace")
	case 1:
		verb = "INSERT OR IGNORE"
		c.feat("or-ignore")
	case 2:
		verb = "REPLACE"
		c.feat("or-replace")
	}
	row := func() string {
		var vs []string
		for _, col := range cols {
			switch {
			case col.pk:
				vs = append(vs, fmt.Sprint(1+r.Intn(12)))
			case col.uniq:
				g.nextK++
				if r.Bool(0.3) {
					vs = append(vs, sqlQuote(fmt.Sprintf("k%d", 1+r.Intn(5))))
				} else {
					vs = append(vs, sqlQuote(fmt.Sprintf("u%d", g.nextK)))
				}
			default:
				vs = append(vs, c.exprFor(col.kind))
			}
		}
		return "(" + strings.Join(vs, ", ") + ")"
	}
	head := verb + c.comment() + "INTO " + t.sql + "(" + strings.Join(names, ", ") + ")"
	var body string
	switch x := r.Intn(10); {
	case x < 6:
		body = " VALUES " + row()
	case x < 8:
		n := 2 + r.Intn(2)
		var rows []string
		for i := 0; i < n; i++ {
			rows = append(rows, row())
		}
		body = " VALUES " + strings.Join(rows, ", ")
		c.feat("multi-row")
	default:
		// INSERT ... SELECT from a base table with expressions over its columns
		src := g.base[r.Intn(len(g.base))]
		c.cols = src.cols
		var es []string
		for _, col := range cols {
			if col.pk {
				es = append(es, "id + 100")
			} else if col.uniq {
				g.nextK++
				es = append(es, fmt.Sprintf("'s%d-' || id", g.nextK))
			} else {
				es = append(es, c.exprFor(col.kind))
			}
		}
		body = " SELECT " + strings.Join(es, ", ") + " FROM " + src.sql + c.where(src) + " ORDER BY id"
		c.cols = nil
		c.feat("insert-select")
	}
	up := ""
	if t.sql == "t2" && verb == "INSERT" && r.Bool(0.5) {
		c.feat("upsert")
		c.cols = t.cols
		if r.Bool(0.3) {
			up = " ON CONFLICT(k) DO NOTHING"
		} else {
			inc, dt := c.pick("1", "excluded.n"), `excluded."date"`
			if r.Bool(0.3) {
				inc = c.intExpr()
			}
			if r.Bool(0.5) {
				dt = c.timeExpr()
			}
			up = fmt.Sprintf(` ON CONFLICT(k) DO UPDATE SET n = n + %s, "date" = %s`, inc, dt)
			if r.Bool(0.3) {
				up += " WHERE " + c.boolExpr()
			}
		}
		c.cols = nil
	}
	if strings.Contains(body, " SELECT ") && up != "" && !strings.Contains(body, " WHERE ") {
		// parsing ambiguity of INSERT..SELECT..ON CONFLICT: SQLite requires a WHERE clause
		body = strings.Replace(body, " ORDER BY id", " WHERE true ORDER BY id", 1)
	}
	return c.done(head + body + up + c.returning(t))
}

// Update generates an UPDATE.
func (g *Gen) Update() Stmt {
	c := g.newCtx("update")
	r := g.R
	t := g.pickTable()
	c.st.Table = t.sql
	c.cols = t.cols
	verb := "UPDATE"
	if r.Bool(0.1) {
		verb = "UPDATE OR IGNORE"
	}
	pre := ""
	if r.Bool(0.12) {
		c.feat("cte")
		if !g.O.CteND {
			c.quiet++
		} else {
			c.feat("cte-nd")
		}
		pre = fmt.Sprintf("WITH lim(v) AS (SELECT %s) ", c.intExpr())
		if !g.O.CteND {
			c.quiet--
		}
	}
	var sets []string
	n := 1 + r.Intn(3)
	used := map[string]bool{}
	for i := 0; i < n; i++ {
		col := t.cols[1+r.Intn(len(t.cols)-1)]
		if used[col.sql] || col.uniq {
			continue
		}
		used[col.sql] = true
		sets = append(sets, fmt.Sprintf("%s = %s", col.sql, c.exprFor(col.kind)))
	}
	if len(sets) == 0 {
		col := t.cols[len(t.cols)-1]
		sets = append(sets, fmt.Sprintf("%s = %s", col.sql, c.exprFor(col.kind)))
	}
	if pre != "" {
		return c.done(pre + verb + c.comment() + t.sql + " SET " + strings.Join(sets, ", ") + " WHERE id <= (SELECT v FROM lim)" + c.returning(t))
	}
	return c.done(verb + c.comment() + t.sql + " SET " + strings.Join(sets, ", ") + c.where(t) + c.returning(t))
}

// Delete generates a DELETE.
func (g *Gen) Delete() Stmt {
	c := g.newCtx("delete")
	t := g.pickTable()
	c.st.Table = t.sql
	c.cols = t.cols
	w := c.where(t)
	if w == "" {
		w = fmt.Sprintf(" WHERE id > %d", 3+g.R.Intn(8))
	}
	return c.done("DELETE" + c.comment() + "FROM " + t.sql + w + c.returning(t))
}

// Select generates a SELECT (used by C14 and as read text by C17).
func (g *Gen) Select() Stmt {
	c := g.newCtx("select")
	r := g.R
	n := 1 + r.Intn(4)
	if r.Bool(0.25) {
		// table-less
		var es []string
		for i := 0; i < n; i++ {
			es = append(es, c.anyExpr())
		}
		c.st.Ordered = true
		return c.done("SELECT" + c.comment() + strings.Join(es, ", "))
	}
	t := g.base[r.Intn(len(g.base))]
	c.st.Table = t.sql
	c.cols = t.cols
	pre := ""
	from := t.sql
	cte := r.Bool(0.12)
	if cte {
		c.feat("cte")
		if !g.O.CteND {
			c.quiet++
		} else {
			c.feat("cte-nd")
		}
		pre = fmt.Sprintf("WITH w AS (SELECT id AS wid, %s AS wv FROM %s) ", c.anyExpr(), t.sql)
		if !g.O.CteND {
			c.quiet--
		}
		from = t.sql + " JOIN w ON w.wid = " + t.sql + ".id"
		c.qual = t.sql + "."
	}
	es := []string{c.qual + "id"}
	for i := 0; i < n; i++ {
		e := c.anyExpr()
		if r.Bool(0.3) {
			e += fmt.Sprintf(" AS c%d", i)
		}
		es = append(es, e)
	}
	if cte {
		es = append(es, "w.wv")
	}
	q := pre + "SELECT" + c.comment() + c.pick("", "", "DISTINCT ") + strings.Join(es, ", ") + " FROM " + from
	if !cte {
		q += c.where(t)
	}
	switch x := r.Intn(10); {
	case x < 5:
		q += " ORDER BY " + c.qual + "id" + c.pick("", " ASC", " DESC")
		c.st.Ordered = true
		if r.Bool(0.4) {
			q += fmt.Sprintf(" LIMIT %d", 1+r.Intn(4))
			if r.Bool(0.3) {
				q += fmt.Sprintf(" OFFSET %d", r.Intn(2))
			}
		}
	case x < 6 && g.O.OrderByRandom:
		c.feat("order-by-random")
		c.st.Calls++
		q += " ORDER BY " + c.fname("random") + "()"
	case x < 7:
		c.orderBy = true
		q += " ORDER BY " + c.intExpr() + ", " + c.qual + "id"
		c.orderBy = false
		c.st.Ordered = true
	}
	return c.done(q)
}

// Aggregate generates a grouped SELECT.
func (g *Gen) Aggregate() Stmt {
	c := g.newCtx("select")
	t := g.base[g.R.Intn(len(g.base))]
	c.cols = t.cols
	c.st.Table = t.sql
	c.st.Ordered = true
	return c.done(fmt.Sprintf("SELECT id %% 2 AS g, count(*), max(%s), min(%s), sum(%s) FROM %s GROUP BY id %% 2 HAVING count(*) >= %d ORDER BY g",
		c.intExpr(), c.textExpr(), c.intExpr(), t.sql, g.R.Intn(2)))
}

// DDL generates a schema change on the generator's own extra tables (base
// tables are never altered so that later statements keep making sense).
func (g *Gen) DDL() Stmt {
	c := g.newCtx("ddl")
	c.noND = true
	c.style = 0
	r := g.R
	switch x := r.Intn(10); {
	case x < 4 || len(g.extra) == 0:
		g.nextX++
		name := fmt.Sprintf("x%d", g.nextX)
		t := &table{sql: name, extra: true, cols: []column{{"id", kInt, true, false, false}}}
		defs := []string{"id INTEGER PRIMARY KEY"}
		n := 1 + r.Intn(4)
		for i := 0; i < n; i++ {
			k := colKind(r.Intn(5))
			cn := fmt.Sprintf("f%d", i)
			typ := []string{"INTEGER", "TEXT", "REAL", "BLOB", "TEXT"}[k]
			def := cn + " " + typ
			switch r.Intn(6) {
			case 0:
				if k == kInt {
					def += " DEFAULT 5"
				} else if k == kText {
					def += " DEFAULT 'date(''now'')'"
				}
			case 1:
				if k == kInt {
					def += " CHECK (" + cn + " IS NULL OR " + cn + " > -1000000)"
				}
			}
			defs = append(defs, def)
			t.cols = append(t.cols, column{cn, k, false, false, false})
		}
		g.extra = append(g.extra, t)
		return c.done("CREATE TABLE " + c.pick("", "IF NOT EXISTS ") + name + " (" + strings.Join(defs, ", ") + ")")
	case x < 6:
		t := g.extra[r.Intn(len(g.extra))]
		cn := fmt.Sprintf("g%d", len(t.cols))
		k := colKind(r.Intn(5))
		t.cols = append(t.cols, column{cn, k, false, false, false})
		return c.done(fmt.Sprintf("ALTER TABLE %s ADD COLUMN %s %s", t.sql, cn, []string{"INTEGER", "TEXT", "REAL", "BLOB", "TEXT"}[k]))
	case x < 8:
		t := g.tables()[r.Intn(len(g.tables()))]
		col := t.cols[r.Intn(len(t.cols))]
		g.nextIx++
		name := fmt.Sprintf("ix%d", g.nextIx)
		g.idx = append(g.idx, name)
		return c.done(fmt.Sprintf("CREATE %sINDEX %s ON %s(%s)", c.pick("", "", "UNIQUE "), name, t.sql, col.sql))
	case x < 9 && len(g.idx) > 0:
		i := r.Intn(len(g.idx))
		name := g.idx[i]
		g.idx = append(g.idx[:i], g.idx[i+1:]...)
		return c.done("DROP INDEX " + c.pick("", "IF EXISTS ") + name)
	default:
		i := r.Intn(len(g.extra))
		t := g.extra[i]
		g.extra = append(g.extra[:i], g.extra[i+1:]...)
		return c.done("DROP TABLE " + c.pick("", "IF EXISTS ") + t.sql)
	}
}

// AfterOrderBy generates a write in which a random()/randomblob() call comes
// AFTER an ORDER BY term in the rewriter's walk of the same statement, in a
// position where its value is stored or decides which rows are touched:
// INSERT..SELECT..ORDER BY..LIMIT n ON CONFLICT DO UPDATE SET c = random()
// (selecting existing keys, so the conflict branch really runs), a LIMIT
// expression after ORDER BY, an outer projection / WHERE after a sub-select
// with ORDER BY in FROM(..) or EXISTS(..), a window function OVER (ORDER BY ..)
// followed by random(), and RETURNING random() after INSERT..SELECT..ORDER BY.
func (g *Gen) AfterOrderBy() Stmt {
	c := g.newCtx("insert")
	c.style = 0
	r := g.R
	c.feat("after-order-by")
	rnd := func() string {
		c.st.Calls++
		c.st.ND++
		c.feat("random")
		return c.fname("random") + "()"
	}
	blob := func() string {
		c.st.Calls++
		c.st.ND++
		c.feat("randomblob")
		return c.fname("randomblob") + "(" + c.pick("4", "8", "16") + ")"
	}
	lim := 1 + r.Intn(3)
	dir := c.pick("", " DESC", " ASC")
	switch r.Intn(9) {
	case 0:
		c.st.Table = "t2"
		c.feat("upsert")
		return c.done(fmt.Sprintf(`INSERT INTO t2(k, n) SELECT k, n FROM t2 WHERE true ORDER BY id%s LIMIT %d ON CONFLICT(k) DO UPDATE SET "random" = %s, n = n + 1`, dir, lim, rnd()))
	case 1:
		c.st.Table = "t2"
		c.feat("upsert")
		return c.done(fmt.Sprintf(`INSERT INTO t2(k, n, "random") SELECT k, n, id FROM t2 WHERE id > 0 ORDER BY n%s, id LIMIT %d OFFSET %d ON CONFLICT(k) DO UPDATE SET "random" = abs(%s) %% 1000 WHERE excluded.n >= 0`, dir, lim, r.Intn(2), rnd()))
	case 2:
		c.st.Table = "t1"
		return c.done(fmt.Sprintf(`INSERT INTO t1(a, b) SELECT a, b FROM t1 ORDER BY id%s LIMIT abs(%s) %% 3 + 1`, dir, rnd()))
	case 3:
		c.st.Table = "t1"
		return c.done(fmt.Sprintf(`INSERT INTO t1(a, d) SELECT s.a, %s FROM (SELECT a FROM t1 ORDER BY id%s LIMIT %d) AS s`, blob(), dir, lim))
	case 4:
		c.st.Kind, c.st.Table = "delete", "t1"
		return c.done(fmt.Sprintf(`DELETE FROM t1 WHERE EXISTS (SELECT 1 FROM t2 ORDER BY id%s LIMIT 1) AND abs(%s) %% 3 = id %% 3`, dir, rnd()))
	case 5:
		c.st.Kind, c.st.Table = "update", "t1"
		return c.done(fmt.Sprintf(`UPDATE t1 SET b = 'w' WHERE id IN (SELECT id FROM t1 ORDER BY a%s, id LIMIT %d) OR abs(%s) %% 4 = id %% 4`, dir, lim, rnd()))
	case 6:
		c.st.Table = "t1"
		c.feat("window")
		return c.done(fmt.Sprintf(`INSERT INTO t1(a, c, d) SELECT row_number() OVER (ORDER BY id%s), %s / 7, %s FROM t2`, dir, rnd(), blob()))
	case 7:
		c.st.Table = "t1"
		return c.done(fmt.Sprintf(`INSERT INTO t1(a) SELECT (SELECT n FROM t2 ORDER BY id%s LIMIT 1) + %s %% 1000`, dir, rnd()))
	default:
		c.st.Table = "ev"
		c.feat("returning")
		return c.done(fmt.Sprintf(`INSERT INTO ev(note) SELECT note FROM ev ORDER BY id%s LIMIT %d RETURNING id, %s`, dir, lim, rnd()))
	}
}

// MultiRandom generates a statement with two or more random()/randomblob(n)
// calls outside ORDER BY whose values must be independent of each other for
// the statement to mean what it says (see Stmt.Expect).
func (g *Gen) MultiRandom() Stmt {
	c := g.newCtx("select")
	c.style = 0
	c.feat("multi-random")
	rnd := func() string {
		c.st.Calls++
		c.st.ND++
		c.feat("random")
		return c.fname("random") + "()"
	}
	blob := func(n int) string {
		c.st.Calls++
		c.st.ND++
		c.feat("randomblob")
		return fmt.Sprintf("%s(%d)", c.fname("randomblob"), n)
	}
	c.st.Ordered = true
	switch g.R.Intn(10) {
	case 0:
		c.st.Expect = "distinct-cols"
		return c.done(fmt.Sprintf("SELECT %s, %s, %s", rnd(), rnd(), rnd()))
	case 1:
		c.st.Expect = "true"
		return c.done(fmt.Sprintf("SELECT %s <> %s AND NOT (%s = %s)", rnd(), rnd(), rnd(), rnd()))
	case 2:
		c.st.Expect = "distinct-cols"
		return c.done(fmt.Sprintf("SELECT hex(%s), hex(%s)", blob(8), blob(8)))
	case 3:
		c.st.Expect = "true"
		return c.done(fmt.Sprintf("SELECT %s <> %s", blob(16), blob(16)))
	case 4:
		c.st.Kind, c.st.Table, c.st.Expect = "insert", "t2", "ok"
		return c.done(fmt.Sprintf("INSERT INTO t2(k, n) VALUES (CAST(%s AS TEXT), 1), (CAST(%s AS TEXT), 2), (CAST(%s AS TEXT), 3)", rnd(), rnd(), rnd()))
	case 5:
		c.st.Kind, c.st.Table, c.st.Expect = "insert", "t1", "ok"
		return c.done(fmt.Sprintf("INSERT INTO t1(id, a) VALUES (abs(%s) %% 1000000000000 + 1000, 1), (abs(%s) %% 1000000000000 + 1000, 2)", rnd(), rnd()))
	case 6:
		c.st.Kind, c.st.Table, c.st.Expect = "insert", "t2", "true"
		c.feat("returning")
		return c.done(fmt.Sprintf(`INSERT INTO t2(k, n, "random") VALUES ('mr' || hex(%s), %s, %s) RETURNING n <> "random"`, blob(8), rnd(), rnd()))
	case 7:
		c.st.Expect = "true"
		return c.done(fmt.Sprintf("SELECT (SELECT %s) <> (SELECT %s)", rnd(), rnd()))
	case 8:
		c.st.Expect = "true"
		c.feat("cte")
		return c.done(fmt.Sprintf("WITH r(x) AS (SELECT %s) SELECT x <> %s FROM r", rnd(), rnd()))
	default:
		c.st.Expect = "distinct-cols"
		return c.done(fmt.Sprintf("SELECT abs(%s) / 7, abs(%s) / 7 FROM t1 WHERE id = 1", rnd(), rnd()))
	}
}

// Write generates one data-changing statement (weights: insert 46, update 23,
// delete 9, after-order-by shapes 8, ddl 14).
func (g *Gen) Write() Stmt {
	if !g.O.NoRand && g.R.Intn(100) < 8 {
		return g.AfterOrderBy()
	}
	switch x := g.R.Intn(100); {
	case x < 50:
		return g.Insert()
	case x < 75:
		return g.Update()
	case x < 85:
		return g.Delete()
	default:
		return g.DDL()
	}
}

// Any generates a statement of any kind (C14).
func (g *Gen) Any() Stmt {
	if !g.O.NoRand && g.R.Intn(100) < 6 {
		return g.AfterOrderBy()
	}
	if !g.O.NoRand && g.R.Intn(100) < 5 {
		return g.MultiRandom()
	}
	switch x := g.R.Intn(100); {
	case x < 40:
		return g.Select()
	case x < 45:
		return g.Aggregate()
	case x < 70:
		return g.Insert()
	case x < 85:
		return g.Update()
	case x < 92:
		return g.Delete()
	default:
		return g.DDL()
	}
}
