package snapsim

import (
	"encoding/json"
	"fmt"
	"os"
	"path/filepath"
	"sort"
	"strings"

	"verifsim/core"
	"verifsim/crash"
)

// Enum enumerates crash images of an operation and of its recovery runs:
// every image of the operation is recovered once; while depth < MaxDepth every
// hook occurrence of that recovery run is imaged and recovered in turn.
// Directory states already verified with at least the same remaining depth are
// skipped (the recovery of a directory state is a function of that state).
type Enum struct {
	C        *core.Ctx
	Root     string // the tree that is imaged and recovered (always recovered at this path)
	ImgBase  string // scratch for images
	MaxDepth int    // 1 = crash the operation only, 2 = also crash each recovery run

	// Recover starts a new instance on Root (hooks are recorded while it runs)
	// and returns a function that judges and closes it (hooks are off then).
	// A non-nil error means the start failed.
	Recover func() (judge func(trail string), err error)
	// OnStartFailed reports a failed start.
	OnStartFailed func(trail string, err error)
	// Torn, when set, is called at every hook occurrence with an image of the
	// current directory state and may derive extra images from it (the operation
	// that follows the hook point cut in flight); planOp is the index of the plan
	// operation about to run when the point is "plan.execute.before-op", else -1.
	// See TornVariants and TornRemoveAll.
	Torn func(im crash.Image, planOp int) []crash.Image

	memo     map[string]int
	Explored [4]int // cases per depth
	Skipped  int
	nimg     int
}

// PlanTracker follows plan.Execute through the hooks so that an image taken at
// "plan.execute.before-op" knows the index of the operation about to run.
type PlanTracker struct {
	op   int
	OpAt map[int]int // hit ordinal -> plan op index
}

func NewPlanTracker() *PlanTracker { return &PlanTracker{op: -1, OpAt: map[int]int{}} }

func (p *PlanTracker) Note(point string, v int64) {
	if point == "plan.execute.begin" {
		p.op = -1
	}
}

// Seen must be called for every hit, in order.
func (p *PlanTracker) Seen(h crash.Hit) {
	if h.Point == "plan.execute.before-op" {
		p.op++
		p.OpAt[h.N] = p.op
	}
}

// Record runs fn with a recorder installed on e.Root and returns the images
// (including torn variants).
func (e *Enum) Record(fn func()) ([]crash.Image, *crash.Recorder) {
	e.nimg++
	rec := crash.NewRecorder(e.Root, filepath.Join(e.ImgBase, fmt.Sprintf("r%05d", e.nimg)))
	pt := NewPlanTracker()
	rec.OnNote = pt.Note
	extra := map[int][]crash.Image{} // index of the base image in rec.Images -> torn variants
	rec.Inject = func(h crash.Hit) error {
		pt.Seen(h)
		if e.Torn != nil && len(rec.Images) > 0 && rec.Err == nil {
			// the newest kept image equals the current directory state (Dedup)
			i := len(rec.Images) - 1
			base := rec.Images[i]
			base.Hit = h
			op := -1
			if h.Point == "plan.execute.before-op" {
				op = pt.OpAt[h.N]
			}
			extra[i] = append(extra[i], e.Torn(base, op)...)
		}
		return nil
	}
	rec.Install()
	fn()
	rec.Uninstall()
	if rec.Err != nil {
		panic(fmt.Sprintf("harness: imaging failed: %v", rec.Err))
	}
	var imgs []crash.Image
	for i, im := range rec.Images {
		imgs = append(imgs, im)
		imgs = append(imgs, extra[i]...)
	}
	return imgs, rec
}

// Explore verifies every image, recursively up to MaxDepth. All images of one
// recovery run are judged before any of them is crashed a second time, so that
// a violation reachable with one crash is reported with one crash.
func (e *Enum) Explore(imgs []crash.Image, depth int, trail string) {
	if e.memo == nil {
		e.memo = map[string]int{}
	}
	remaining := e.MaxDepth - depth
	type pending struct {
		trail string
		sub   []crash.Image
		rec   *crash.Recorder
	}
	var next []pending
	drop := func(p pending) {
		p.rec.Drop()
		for _, s := range p.sub { // torn variants live outside rec.Images
			os.RemoveAll(s.Dir)
		}
	}
	for _, im := range imgs {
		if e.C.Failed() {
			break
		}
		if v, ok := e.memo[im.Hash]; ok && v >= remaining {
			e.Skipped++
			continue
		}
		e.memo[im.Hash] = remaining
		tr := fmt.Sprintf("%s%s#%d", trail, im.Point, im.N)
		e.C.Log.Add("case d=%d %s", depth, tr)
		e.Explored[depth]++
		e.C.Res.Cases++
		if err := crash.Restore(im.Dir, e.Root); err != nil {
			panic(fmt.Sprintf("harness: restore image: %v", err))
		}
		var judge func(string)
		var serr error
		if remaining > 0 {
			sub, rec := e.Record(func() { judge, serr = e.Recover() })
			next = append(next, pending{tr, sub, rec})
		} else {
			judge, serr = e.Recover()
		}
		if serr != nil {
			e.OnStartFailed(tr, serr)
		} else {
			judge(tr)
		}
	}
	for _, p := range next {
		if !e.C.Failed() {
			e.Explore(p.sub, depth+1, p.trail+" > ")
		}
		drop(p)
	}
}

type planFile struct {
	Ops []struct {
		Type string   `json:"type"`
		Src  string   `json:"src"`
		Dst  string   `json:"dst"`
		DB   string   `json:"db"`
		WALs []string `json:"wals"`
	} `json:"ops"`
}

// TornVariants derives, from an image taken right before plan operation op of
// the plan stored at planRel (relative to root), the directory states that a
// crash INSIDE that operation can leave behind:
//
//	remove_all : a subset of the files below the directory already unlinked;
//	             every file unlinked but the directory still there
//	write_meta : meta.json truncated (os.WriteFile truncates, then writes)
//	copy_file  : destination holding only a prefix of the source
//	calc_crc32 : sidecar created but still empty
//
// The variants are stored next to the image. rng chooses subsets/lengths.
func TornVariants(im crash.Image, root, planRel string, op int, rng *core.Rand) []crash.Image {
	b, err := os.ReadFile(filepath.Join(im.Dir, planRel))
	if err != nil {
		return nil
	}
	var pf planFile
	if json.Unmarshal(b, &pf) != nil || op < 0 || op >= len(pf.Ops) {
		return nil
	}
	o := pf.Ops[op]
	inImg := func(p string) (string, bool) {
		rel, err := filepath.Rel(root, p)
		if err != nil || strings.HasPrefix(rel, "..") {
			return "", false
		}
		return rel, true
	}
	var out []crash.Image
	mk := func(tag string, mutate func(dir string) bool) {
		dst := fmt.Sprintf("%s-torn%d-%d", im.Dir, im.N, len(out))
		os.RemoveAll(dst)
		if err := crash.CopyTree(im.Dir, dst); err != nil {
			panic(err)
		}
		if !mutate(dst) {
			os.RemoveAll(dst)
			return
		}
		h, err := crash.TreeHash(dst)
		if err != nil {
			panic(err)
		}
		out = append(out, crash.Image{Hit: crash.Hit{N: im.N, Point: "torn." + o.Type + "." + tag}, Dir: dst, Hash: h})
	}
	switch o.Type {
	case "remove_all":
		rel, ok := inImg(o.Src)
		if !ok {
			return nil
		}
		return TornRemoveAll(im, rel, rng)
	case "write_meta":
		rel, ok := inImg(filepath.Join(o.Dst, "meta.json"))
		if !ok {
			return nil
		}
		mk("empty", func(dir string) bool {
			p := filepath.Join(dir, rel)
			if _, err := os.Stat(filepath.Dir(p)); err != nil {
				return false
			}
			return os.WriteFile(p, nil, 0o644) == nil
		})
	case "copy_file":
		srel, ok1 := inImg(o.Src)
		drel, ok2 := inImg(o.Dst)
		if !ok1 || !ok2 {
			return nil
		}
		mk("prefix", func(dir string) bool {
			b, err := os.ReadFile(filepath.Join(dir, srel))
			if err != nil || len(b) == 0 {
				return false
			}
			if _, err := os.Stat(filepath.Dir(filepath.Join(dir, drel))); err != nil {
				return false
			}
			return os.WriteFile(filepath.Join(dir, drel), b[:rng.Intn(len(b))], 0o644) == nil
		})
	case "calc_crc32":
		rel, ok := inImg(o.Dst)
		if !ok {
			return nil
		}
		mk("empty", func(dir string) bool {
			p := filepath.Join(dir, rel)
			if _, err := os.Stat(filepath.Dir(p)); err != nil {
				return false
			}
			return os.WriteFile(p, nil, 0o644) == nil
		})
	}
	return out
}

// TornRemoveAll derives from im the states an interrupted os.RemoveAll of the
// directory rel (relative to the image root) can leave behind: some of the
// files below it unlinked; all files unlinked but the directories still there.
func TornRemoveAll(im crash.Image, rel string, rng *core.Rand) []crash.Image {
	var out []crash.Image
	files := func(dir string) []string {
		var fs []string
		filepath.Walk(filepath.Join(dir, rel), func(p string, fi os.FileInfo, err error) error {
			if err == nil && !fi.IsDir() {
				fs = append(fs, p)
			}
			return nil
		})
		sort.Strings(fs)
		return fs
	}
	mk := func(tag string, mutate func(dir string) bool) {
		dst := fmt.Sprintf("%s-tornrm%d-%d", im.Dir, im.N, len(out))
		os.RemoveAll(dst)
		if err := crash.CopyTree(im.Dir, dst); err != nil {
			panic(err)
		}
		if !mutate(dst) {
			os.RemoveAll(dst)
			return
		}
		h, err := crash.TreeHash(dst)
		if err != nil {
			panic(err)
		}
		out = append(out, crash.Image{Hit: crash.Hit{N: im.N, Point: "torn.remove_all." + tag}, Dir: dst, Hash: h})
	}
	mk("some", func(dir string) bool {
		fs := files(dir)
		if len(fs) < 2 {
			return false
		}
		n := 0
		for _, f := range fs {
			if rng.Bool(0.5) && n < len(fs)-1 {
				os.Remove(f)
				n++
			}
		}
		if n == 0 {
			os.Remove(fs[rng.Intn(len(fs))])
		}
		return true
	})
	mk("files", func(dir string) bool {
		fs := files(dir)
		if len(fs) == 0 {
			return false
		}
		for _, f := range fs {
			os.Remove(f)
		}
		return true
	})
	return out
}
