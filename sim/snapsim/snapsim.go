// Package snapsim holds what the snapshot-store checks (C07, C08, C09) share:
// a Source that plays the role of rqlite's store towards the real
// snapshot.Store (a real WAL-mode SQLite database written through rqlite's db
// package, checkpointed through the real CheckpointManager into the real WAL
// staging directory, streamed with the real streamers into the real sinks),
// generators for old on-disk formats, and the restore-and-dump oracle.
package snapsim

import (
	"bytes"
	"compress/gzip"
	"database/sql"
	"encoding/binary"
	"encoding/json"
	"fmt"
	"io"
	"os"
	"path/filepath"
	"regexp"
	"sort"
	"strings"
	"time"

	"github.com/hashicorp/raft"
	"github.com/rqlite/rqlite/v10/db"
	"github.com/rqlite/rqlite/v10/snapshot"
	"verifsim/core"
	"verifsim/crash"
	"verifsim/sim"
)

// ---------------------------------------------------------------- Source

// Source is the database whose history is snapshotted.
type Source struct {
	Dir     string
	DBPath  string
	Staging string // WAL staging directory (moved by an incremental sink's Close)
	DB      *db.DB
	CM      *db.CheckpointManager
	Rng     *core.Rand

	basePath string   // copy of the database at the last full checkpoint
	wals     [][]byte // compacted WALs captured since base (oldest first)
	staged   int      // how many of the newest wals are still in the staging directory
	rows     int
	tables   int
	gen      int
}

// NewSource creates an empty WAL-mode database under dir.
func NewSource(dir string, rng *core.Rand) (*Source, error) {
	if err := os.MkdirAll(dir, 0o755); err != nil {
		return nil, err
	}
	s := &Source{Dir: dir, DBPath: filepath.Join(dir, "db.sqlite"), Staging: filepath.Join(dir, "wal-staging"),
		Rng: rng, basePath: filepath.Join(dir, "base.sqlite")}
	if err := s.open(); err != nil {
		return nil, err
	}
	return s, nil
}

func (s *Source) open() error {
	d, err := db.Open(s.DBPath, false, true)
	if err != nil {
		return err
	}
	cm, err := db.NewCheckpointManager(d)
	if err != nil {
		d.Close()
		return err
	}
	s.DB, s.CM = d, cm
	return nil
}

// Close closes the database.
func (s *Source) Close() {
	if s.DB != nil {
		s.CM.Close()
		s.DB.Close()
		s.DB = nil
	}
}

func (s *Source) exec(q string) error {
	rs, err := s.DB.ExecuteStringStmt(q)
	if err != nil {
		return err
	}
	for _, r := range rs {
		if e := r.GetError(); e != "" {
			return fmt.Errorf("%s: %s", q[:min(len(q), 60)], e)
		}
	}
	return nil
}

func (s *Source) text(n int) string {
	const al = "abcdefghijklmnopqrstuvwxyz0123456789"
	b := make([]byte, n)
	for i := range b {
		b[i] = al[s.Rng.Intn(len(al))]
	}
	return string(b)
}

// Write applies n random statements (at least one of them changes the
// database, so the WAL is never empty afterwards).
func (s *Source) Write(n int) error {
	if s.tables == 0 {
		if err := s.exec(`CREATE TABLE IF NOT EXISTS t0 (id INTEGER PRIMARY KEY, k INTEGER, v TEXT)`); err != nil {
			return err
		}
		s.tables = 1
	}
	for i := 0; i < n; i++ {
		t := s.Rng.Intn(s.tables)
		var q string
		switch x := s.Rng.Intn(100); {
		case x < 55 || s.rows < 3:
			sz := s.Rng.Range(1, 40)
			if s.Rng.Bool(0.15) {
				sz = s.Rng.Range(600, 5000) // overflow pages
			}
			s.rows++
			q = fmt.Sprintf(`INSERT INTO t%d(k, v) VALUES(%d, '%s')`, t, s.rows, s.text(sz))
		case x < 75:
			q = fmt.Sprintf(`UPDATE t%d SET v='%s' WHERE k %% %d = %d`, t, s.text(s.Rng.Range(1, 300)), s.Rng.Range(2, 5), s.Rng.Intn(2))
		case x < 85:
			q = fmt.Sprintf(`DELETE FROM t%d WHERE k %% %d = 0`, t, s.Rng.Range(3, 7))
		case x < 92 && s.tables < 3:
			q = fmt.Sprintf(`CREATE TABLE IF NOT EXISTS t%d (id INTEGER PRIMARY KEY, k INTEGER, v TEXT)`, s.tables)
			s.tables++
		case x < 96:
			q = fmt.Sprintf(`CREATE INDEX IF NOT EXISTS i%d_%d ON t%d(k)`, t, s.gen, t)
			s.gen++
		default:
			s.rows++
			q = fmt.Sprintf(`INSERT INTO t%d(k, v) VALUES(%d, '%s')`, t, s.rows, s.text(8))
		}
		if err := s.exec(q); err != nil {
			return err
		}
	}
	// guarantee a change
	s.rows++
	return s.exec(fmt.Sprintf(`INSERT INTO t0(k, v) VALUES(%d, 'w%d')`, s.rows, s.rows))
}

// Dump is the logical content of the live database.
func (s *Source) Dump() (string, error) { return sim.DumpFiles(s.DBPath, s.Dir) }

func copyFile(src, dst string) error {
	b, err := os.ReadFile(src)
	if err != nil {
		return err
	}
	return os.WriteFile(dst, b, 0o644)
}

// Full checkpoints the whole WAL into the database (as fsmSnapshot does when a
// full snapshot is due) and returns an opened streamer of the database file.
// Staged WALs are discarded: a full snapshot supersedes them.
func (s *Source) Full() (io.ReadCloser, error) {
	meta, _, err := s.CM.Checkpoint(nil, 5*time.Second)
	if err != nil {
		return nil, err
	}
	if !meta.Success() {
		return nil, fmt.Errorf("full checkpoint did not succeed: %s", meta)
	}
	if err := copyFile(s.DBPath, s.basePath); err != nil {
		return nil, err
	}
	s.wals = nil
	s.ClearStaging()
	st, err := snapshot.NewSnapshotStreamer(s.DBPath)
	if err != nil {
		return nil, err
	}
	if err := st.Open(); err != nil {
		return nil, err
	}
	return st, nil
}

// ClearStaging removes the WAL staging directory.
func (s *Source) ClearStaging() {
	os.RemoveAll(s.Staging)
	s.staged = 0
}

// StagedWALs is the number of WAL files waiting in the staging directory.
func (s *Source) StagedWALs() int { return s.staged }

// WALsSinceBase is the number of compacted WALs captured since the last full.
func (s *Source) WALsSinceBase() int { return len(s.wals) }

// StageWAL writes the compacted WAL to a new file in the staging directory and
// truncates the live WAL - what fsmSnapshot does for an incremental snapshot.
// The database must have been written since the last checkpoint.
func (s *Source) StageWAL() error {
	if err := os.MkdirAll(s.Staging, 0o755); err != nil {
		return err
	}
	sd := snapshot.NewStagingDir(s.Staging)
	w, path, err := sd.CreateWAL()
	if err != nil {
		return err
	}
	defer w.Cancel()
	meta, n, err := s.CM.Checkpoint(w, 5*time.Second)
	if err != nil {
		return err
	}
	if !meta.Success() || n == 0 {
		return fmt.Errorf("incremental checkpoint wrote %d bytes: %s", n, meta)
	}
	if err := w.Close(); err != nil {
		return err
	}
	b, err := os.ReadFile(path)
	if err != nil {
		return err
	}
	s.wals = append(s.wals, b)
	s.staged++
	return nil
}

// IncrementalStreamer returns the streamer that hands the staging directory
// to a sink (no data follows the header).
func (s *Source) IncrementalStreamer() (io.ReadCloser, error) {
	return snapshot.NewSnapshotPathStreamer(s.Staging)
}

// StagingMoved tells the source that a sink consumed the staging directory.
func (s *Source) StagingMoved() { s.staged = 0 }

// InstallStreamer returns an opened streamer of "database at the last full +
// every compacted WAL since" - the shape a follower receives from a leader
// whose newest snapshot is incremental. The files live under dir.
func (s *Source) InstallStreamer(dir string) (io.ReadCloser, int, error) {
	os.RemoveAll(dir)
	if err := os.MkdirAll(dir, 0o755); err != nil {
		return nil, 0, err
	}
	dbp := filepath.Join(dir, "install.db")
	if err := copyFile(s.basePath, dbp); err != nil {
		return nil, 0, err
	}
	var wps []string
	for i, b := range s.wals {
		p := filepath.Join(dir, fmt.Sprintf("install-%04d.wal", i))
		if err := os.WriteFile(p, b, 0o644); err != nil {
			return nil, 0, err
		}
		wps = append(wps, p)
	}
	st, err := snapshot.NewSnapshotStreamer(dbp, wps...)
	if err != nil {
		return nil, 0, err
	}
	if err := st.Open(); err != nil {
		return nil, 0, err
	}
	return st, len(wps), nil
}

// Rebase replaces the live database by the file at path (what a restart
// without the fast path does: the database is rebuilt from the newest
// snapshot). Staged WALs are gone.
func (s *Source) Rebase(path string) error {
	s.Close()
	os.Remove(s.DBPath + "-wal")
	os.Remove(s.DBPath + "-shm")
	if err := copyFile(path, s.DBPath); err != nil {
		return err
	}
	if err := copyFile(path, s.basePath); err != nil {
		return err
	}
	s.wals = nil
	s.ClearStaging()
	if err := s.open(); err != nil {
		return err
	}
	// tables created after the snapshot was taken come back with later writes
	for i := 0; i < s.tables; i++ {
		if err := s.exec(fmt.Sprintf(`CREATE TABLE IF NOT EXISTS t%d (id INTEGER PRIMARY KEY, k INTEGER, v TEXT)`, i)); err != nil {
			return err
		}
	}
	return nil
}

// HasBase reports whether a full checkpoint was ever taken (InstallStreamer needs one).
func (s *Source) HasBase() bool {
	_, err := os.Stat(s.basePath)
	return err == nil
}

// ---------------------------------------------------------------- store

// OpenStore is snapshot.NewStore as the harness uses it: the reaper goroutine
// never starts a reap on its own (reaps are explicit operations), and a failed
// integrity check is returned as an error instead of exiting the process.
func OpenStore(root string) (*snapshot.Store, error) {
	st, err := snapshot.NewStore(root)
	if err != nil {
		return nil, err
	}
	st.SetReapThreshold(1 << 30)
	st.SetFatalFnVerif(nil)
	return st, nil
}

// ---------------------------------------------------------------- sinks

// Config is the raft configuration stored in every snapshot.
func Config() raft.Configuration {
	return raft.Configuration{Servers: []raft.Server{{Suffrage: raft.Voter, ID: "1", Address: "10.0.0.1:4002"}}}
}

// Pump copies r into w in pieces whose sizes are drawn from rng (nil: 32 KiB).
// limit < 0 copies everything; otherwise copying stops after limit bytes.
// flip >= 0 inverts the byte at that stream offset.
func Pump(w io.Writer, r io.Reader, rng *core.Rand, limit int64, flip int64) (int64, error) {
	var total int64
	for {
		n := 32 << 10
		if rng != nil {
			switch rng.Intn(4) {
			case 0:
				n = rng.Range(1, 7)
			case 1:
				n = rng.Range(1, 300)
			case 2:
				n = rng.Range(1000, 9000)
			}
		}
		if limit >= 0 && total+int64(n) > limit {
			n = int(limit - total)
			if n == 0 {
				return total, nil
			}
		}
		buf := make([]byte, n)
		k, err := io.ReadFull(r, buf)
		if k > 0 {
			if flip >= total && flip < total+int64(k) {
				buf[flip-total] ^= 0x5a
			}
			if _, werr := w.Write(buf[:k]); werr != nil {
				return total, werr
			}
			total += int64(k)
		}
		if err == io.EOF || err == io.ErrUnexpectedEOF {
			return total, nil
		}
		if err != nil {
			return total, err
		}
	}
}

// ---------------------------------------------------------------- oracle

// Resolved is what a snapshot ID resolves to.
type Resolved struct {
	Meta  *raft.SnapshotMeta
	NWALs int    // WAL segments following the database in the stream
	Dump  string // logical dump of the restored database
}

type teeCount struct {
	r   io.Reader
	hdr bytes.Buffer
}

func (t *teeCount) Read(p []byte) (int, error) {
	n, err := t.r.Read(p)
	if t.hdr.Len() < 1<<16 {
		t.hdr.Write(p[:n])
	}
	return n, err
}

// Resolve opens snapshot id through the store, restores it with the real
// snapshot.Restore into tmp and dumps the result through an independent
// SQLite connection.
func Resolve(st *snapshot.Store, id, tmp string) (*Resolved, error) {
	meta, rc, err := st.Open(id)
	if err != nil {
		return nil, fmt.Errorf("open: %w", err)
	}
	defer rc.Close()
	os.MkdirAll(tmp, 0o755)
	dst := filepath.Join(tmp, "restored.db")
	os.Remove(dst)
	tc := &teeCount{r: rc}
	if _, err := snapshot.Restore(tc, dst); err != nil {
		return nil, fmt.Errorf("restore: %w", err)
	}
	hb := tc.hdr.Bytes()
	if len(hb) < snapshot.HeaderSizeLen {
		return nil, fmt.Errorf("short stream")
	}
	hl := int(binary.BigEndian.Uint32(hb[:snapshot.HeaderSizeLen]))
	if len(hb) < snapshot.HeaderSizeLen+hl {
		return nil, fmt.Errorf("short header")
	}
	hdr, err := snapshot.UnmarshalSnapshotHeader(hb[snapshot.HeaderSizeLen : snapshot.HeaderSizeLen+hl])
	if err != nil {
		return nil, err
	}
	full := hdr.GetFull()
	if full == nil || full.DbHeader == nil {
		return nil, fmt.Errorf("stream does not start with one full database")
	}
	d, err := sim.DumpFiles(dst, tmp)
	if err != nil {
		return nil, fmt.Errorf("dump: %w", err)
	}
	return &Resolved{Meta: meta, NWALs: len(full.WalHeaders), Dump: d}, nil
}

// RestoredPath is where Resolve leaves the restored database.
func RestoredPath(tmp string) string { return filepath.Join(tmp, "restored.db") }

var walNameRe = regexp.MustCompile(`\d{24}-\d{6}\.wal`)

// Listing is crash.Listing with process-dependent WAL file names replaced by
// ordinals, and base stripped, so that it can be put into a violation detail.
func Listing(root string) string {
	ls := crash.Listing(root)
	seen := map[string]int{}
	for i, l := range ls {
		ls[i] = walNameRe.ReplaceAllStringFunc(l, func(m string) string {
			if _, ok := seen[m]; !ok {
				seen[m] = len(seen)
			}
			return fmt.Sprintf("wal#%d.wal", seen[m])
		})
	}
	return strings.Join(ls, " ")
}

// Scrub removes the scratch directory path from an error text.
func Scrub(base string, err error) string {
	if err == nil {
		return "<nil>"
	}
	s := strings.ReplaceAll(err.Error(), base, "$D")
	return walNameRe.ReplaceAllString(s, "wal#.wal")
}

// ---------------------------------------------------------------- old formats

// OldSnap describes one snapshot of an old-format store.
type OldSnap struct {
	ID      string
	Index   uint64
	Term    uint64
	DBFile  string // SQLite file holding the content ("" = no data file is written for this snapshot)
	Empty   bool   // v7 only: state.bin carries the 16-byte header and no database
	Extra   bool   // v8 only: also write the empty <id>/<id>.data file seen in 9.x directories
	DelMode bool   // v7 only: the serialized database is in DELETE journal mode (as 7.x wrote it)
}

type v7Meta struct {
	Version            int
	ID                 string
	Index              uint64
	Term               uint64
	Peers              []byte
	Configuration      raft.Configuration
	ConfigurationIndex uint64
	Size               int64
	CRC                []byte
}

// ToDeleteMode converts the SQLite file at path to DELETE journal mode using
// the harness's own connection.
func ToDeleteMode(path string) error {
	if _, err := sim.DumpFiles(path, filepath.Dir(path)); err != nil { // registers the oracle driver
		return err
	}
	d, err := sql.Open("verif-oracle", "file:"+path)
	if err != nil {
		return err
	}
	defer d.Close()
	d.SetMaxOpenConns(1)
	var mode string
	if err := d.QueryRow(`PRAGMA journal_mode=DELETE`).Scan(&mode); err != nil {
		return err
	}
	if mode != "delete" {
		return fmt.Errorf("journal mode is %s", mode)
	}
	return nil
}

// WriteV7 writes a 7.x snapshot directory (hashicorp FileSnapshotStore layout:
// <id>/meta.json + <id>/state.bin where state.bin = 8 bytes 0xff, 8 bytes
// little-endian compressed length, gzip(SQLite file)).
func WriteV7(dir string, snaps []OldSnap) error {
	if err := os.MkdirAll(dir, 0o755); err != nil {
		return err
	}
	for _, sn := range snaps {
		sd := filepath.Join(dir, sn.ID)
		if err := os.MkdirAll(sd, 0o755); err != nil {
			return err
		}
		var state []byte
		if sn.DBFile != "" || sn.Empty {
			var zb bytes.Buffer
			if !sn.Empty {
				raw, err := os.ReadFile(sn.DBFile)
				if err != nil {
					return err
				}
				zw := gzip.NewWriter(&zb)
				zw.Write(raw)
				zw.Close()
			}
			hdr := make([]byte, 16)
			for i := 0; i < 8; i++ {
				hdr[i] = 0xff
			}
			binary.LittleEndian.PutUint64(hdr[8:], uint64(zb.Len()))
			state = append(hdr, zb.Bytes()...)
			if err := os.WriteFile(filepath.Join(sd, "state.bin"), state, 0o644); err != nil {
				return err
			}
		}
		m := v7Meta{Version: 1, ID: sn.ID, Index: sn.Index, Term: sn.Term, Peers: []byte{0x91, 0xae},
			Configuration: Config(), ConfigurationIndex: 1, Size: int64(len(state)), CRC: []byte{1, 2, 3, 4, 5, 6, 7, 8}}
		b, _ := json.Marshal(m)
		if err := os.WriteFile(filepath.Join(sd, "meta.json"), b, 0o644); err != nil {
			return err
		}
	}
	return nil
}

// WriteV8 writes an 8.x/9.x snapshot directory: <id>.db at the root and
// <id>/meta.json.
func WriteV8(dir string, snaps []OldSnap) error {
	if err := os.MkdirAll(dir, 0o755); err != nil {
		return err
	}
	for _, sn := range snaps {
		sd := filepath.Join(dir, sn.ID)
		if err := os.MkdirAll(sd, 0o755); err != nil {
			return err
		}
		var size int64
		if sn.DBFile != "" {
			if err := copyFile(sn.DBFile, filepath.Join(dir, sn.ID+".db")); err != nil {
				return err
			}
			fi, _ := os.Stat(sn.DBFile)
			size = fi.Size()
		}
		if sn.Extra {
			os.WriteFile(filepath.Join(sd, sn.ID+".data"), nil, 0o644)
		}
		m := raft.SnapshotMeta{Version: 1, ID: sn.ID, Index: sn.Index, Term: sn.Term,
			Configuration: Config(), ConfigurationIndex: 1, Size: size}
		b, _ := json.Marshal(m)
		if err := os.WriteFile(filepath.Join(sd, "meta.json"), b, 0o644); err != nil {
			return err
		}
	}
	return nil
}

// NewestOld returns the snapshot the upgraders must pick: highest (term,
// index, id).
func NewestOld(snaps []OldSnap) OldSnap {
	c := append([]OldSnap(nil), snaps...)
	sort.Slice(c, func(i, j int) bool {
		if c[i].Term != c[j].Term {
			return c[i].Term < c[j].Term
		}
		if c[i].Index != c[j].Index {
			return c[i].Index < c[j].Index
		}
		return c[i].ID < c[j].ID
	})
	return c[len(c)-1]
}
